import Librfn.Model.ListHeap
import Librfn.Spec.ListSeq
import Librfn.Lemmas.ListHeap
/-!
# C09 — the intrusive linked list behaves as a sequence under every order of operations

Model: `Librfn.Model.ListHeap` (explicit heap; every function of `list.c` transcribed statement by
statement; `tail` is a raw pointer value that the C leaves stale — or sets to the bogus "address of
the head field" — whenever the list becomes empty).
Spec: `Librfn.Spec.ListSeq` (a `List Node` per list; an iterator is the predecessor it hangs off).

`IsList h l xs` is the abstraction relation.  It says **nothing about `tail` while `xs = []`**, so
every theorem below holds whatever junk the tail holds, and since the model turns a dereference of
a non-node tail into the error `wild`, every `= .ok …` conclusion also says that *the stale tail is
not dereferenced*.  Kernel-only proofs (no `bv_decide`).
-/
namespace Librfn.C09
open Librfn.Model.ListHeap
open Librfn.Lemmas.ListHeap
open Librfn.Spec.ListSeq (AIter SState upto after TotalPreorder Sorted Free Pre InScope)

/-- the cells of list `l` spell the sequence `xs`: the chain from `head` visits `xs` and ends in NULL,
    no node occurs twice, and **only if `xs` is non-empty** `tail` is its last node -/
structure IsList (h : Heap) (l : Lid) (xs : List Node) : Prop where
  chain : Seg h.next (h.head l) xs none
  nodup : xs.Nodup
  tail : ∀ x, xs.getLast? = some x → h.tail l = .node x

/-- what a call on list `l` leaves alone: the two fields of every other list and the link of every
    node outside `touched` -/
structure Frame (h h' : Heap) (l : Lid) (touched : List Node) : Prop where
  head : ∀ l', l' ≠ l → h'.head l' = h.head l'
  tail : ∀ l', l' ≠ l → h'.tail l' = h.tail l'
  next : ∀ i, i ∉ touched → h'.next i = h.next i

/-- **frame**: a list disjoint from what was touched is untouched -/
theorem isList_frame {h h' : Heap} {l l' : Lid} {touched ys : List Node} (hl : IsList h l' ys)
    (hf : Frame h h' l touched) (hne : l' ≠ l) (hd : ∀ y ∈ ys, y ∉ touched) : IsList h' l' ys :=
  { chain := by
      rw [hf.head l' hne]
      exact seg_congr ys _ _ (fun y hy => hf.next y (hd y hy)) hl.chain
    nodup := hl.nodup
    tail := fun x hx => by rw [hf.tail l' hne]; exact hl.tail x hx }

theorem frame_refl (h : Heap) (l : Lid) (t : List Node) : Frame h h l t :=
  ⟨fun _ _ => rfl, fun _ _ => rfl, fun _ _ => rfl⟩

/-! ### two heap lemmas that carry every mutator -/

/-- linking a fresh node `n` in after the prefix `pre` -/
theorem isList_insert_at {h h' : Heap} {l : Lid} {pre post : List Node} {n : Node}
    (hl : IsList h l (pre ++ post)) (hn : n ∉ pre ++ post)
    (hlink : load h' (linkAfter l pre) = some n)
    (hnn : h'.next n = post.head?)
    (hnext : ∀ x ∈ pre ++ post, pre.getLast? ≠ some x → h'.next x = h.next x)
    (hhead : pre ≠ [] → h'.head l = h.head l)
    (htail : h'.tail l = if post = [] then .node n else h.tail l) :
    IsList h' l (pre ++ n :: post) := by
  have hnd := hl.nodup
  obtain ⟨m, hpre, hpost⟩ := (seg_append _ _ _ _).1 hl.chain
  have hnd' := List.nodup_append.1 hnd
  refine ⟨?_, ?_, ?_⟩
  · rw [seg_append]
    refine ⟨some n, ?_, rfl, ?_⟩
    · exact seg_pre h h' l pre m (some n) hpre hnd'.1
        (fun x hx hlast => hnext x (List.mem_append_left _ hx) hlast) hhead hlink
    · rw [hnn, ← seg_head _ _ hpost]
      refine seg_congr post _ _ (fun x hx => hnext x (List.mem_append_right _ hx) ?_) hpost
      intro e
      exact hnd'.2.2 x (List.mem_of_getLast? e) x hx rfl
  · rw [List.nodup_append] at hnd ⊢
    refine ⟨hnd.1, ?_, ?_⟩
    · rw [List.nodup_cons]
      exact ⟨fun hm => hn (List.mem_append_right _ hm), hnd.2.1⟩
    · intro a ha b hb
      rcases List.mem_cons.1 hb with rfl | hb
      · intro e; exact hn (List.mem_append_left _ (e ▸ ha))
      · exact hnd.2.2 a ha b hb
  · intro x hx
    rw [htail]
    by_cases hp : post = []
    · subst hp
      rw [if_pos rfl]
      simp [List.getLast?_append] at hx
      rw [hx]
    · rw [if_neg hp]
      apply hl.tail
      obtain ⟨c, r, rfl⟩ := List.exists_cons_of_ne_nil hp
      simpa [List.getLast?_append, List.getLast?_cons_cons] using hx

/-- unlinking the node `c` that follows the prefix `pre` -/
theorem isList_remove_at {h h' : Heap} {l : Lid} {pre post : List Node} {c : Node}
    (hl : IsList h l (pre ++ c :: post))
    (hlink : load h' (linkAfter l pre) = post.head?)
    (hnext : ∀ x ∈ pre ++ post, pre.getLast? ≠ some x → h'.next x = h.next x)
    (hhead : pre ≠ [] → h'.head l = h.head l)
    (htail : post ≠ [] → h'.tail l = h.tail l)
    (htail' : post = [] → ∀ p, pre.getLast? = some p → h'.tail l = .node p) :
    IsList h' l (pre ++ post) := by
  have hnd := hl.nodup
  obtain ⟨m, hpre, hc, hpost⟩ := (seg_append _ _ _ _).1 hl.chain
  have hnd' := List.nodup_append.1 hnd
  have hndc := List.nodup_cons.1 hnd'.2.1
  refine ⟨?_, ?_, ?_⟩
  · rw [seg_append]
    refine ⟨post.head?, ?_, ?_⟩
    · exact seg_pre h h' l pre m _ hpre hnd'.1
        (fun x hx hlast => hnext x (List.mem_append_left _ hx) hlast) hhead hlink
    · rw [← seg_head _ _ hpost]
      refine seg_congr post _ _ (fun x hx => hnext x (List.mem_append_right _ hx) ?_) hpost
      intro e
      exact hnd'.2.2 x (List.mem_of_getLast? e) x (List.mem_cons_of_mem _ hx) rfl
  · rw [List.nodup_append]
    exact ⟨hnd'.1, hndc.2, fun a ha b hb => hnd'.2.2 a ha b (List.mem_cons_of_mem _ hb)⟩
  · intro x hx
    by_cases hp : post = []
    · subst hp
      rw [List.append_nil] at hx
      exact htail' rfl x hx
    · rw [htail hp]
      apply hl.tail
      obtain ⟨d, r, rfl⟩ := List.exists_cons_of_ne_nil hp
      simpa [List.getLast?_append, List.getLast?_cons_cons] using hx

/-- what `IsList` tells about the raw cells at a position -/
theorem isList_load {h : Heap} {l : Lid} {pre post : List Node} (hl : IsList h l (pre ++ post)) :
    load h (linkAfter l pre) = post.head? := load_linkAfter h l pre post hl.chain

theorem isList_head {h : Heap} {l : Lid} {xs : List Node} (hl : IsList h l xs) : h.head l = xs.head? := by
  have := isList_load (pre := []) (post := xs) (by simpa using hl)
  simpa [load] using this

theorem isList_next {h : Heap} {l : Lid} {pre post : List Node} {c : Node} (hl : IsList h l (pre ++ c :: post)) :
    h.next c = post.head? := by
  have := isList_load (pre := pre ++ [c]) (post := post) (by simpa using hl)
  simpa [load] using this

theorem isList_tail {h : Heap} {l : Lid} {a : List Node} {t : Node} (hl : IsList h l (a ++ [t])) :
    h.tail l = .node t := hl.tail t (by simp)

/-- **the tail is only ever read when it is meaningful.**  `list.c` reads `list->tail` in three places:
    `list_insert` and `list_insert_sorted` (both under `if (list->head)`) and `list_iterator_remove`
    (after `assert(curr)`, i.e. with a current node in the list).  In each the list is non-empty,
    and then the tail is a genuine node — the last one — not a stale or bogus value. -/
theorem tail_is_last_when_nonempty {h : Heap} {l : Lid} {xs : List Node} (hl : IsList h l xs) (hne : xs ≠ []) :
    ∃ t, h.tail l = .node t ∧ xs.getLast? = some t ∧ h.next t = none := by
  rcases nil_or_snoc xs with rfl | ⟨a, t, rfl⟩
  · exact absurd rfl hne
  · refine ⟨t, isList_tail hl, by simp, ?_⟩
    have := isList_next (pre := a) (c := t) (post := []) hl
    simpa using this

/-! ### list_insert, list_push, list_extract, list_peek, list_empty -/

/-- **list_insert appends** — also to a list emptied by any earlier operation, whatever its tail holds —
    touching only the old last node; the stale tail is not dereferenced (the result is `ok`) -/
theorem insert_refines {h : Heap} {l : Lid} {xs : List Node} {n : Node}
    (hl : IsList h l xs) (hn : n ∉ xs) (hnn : h.next n = none) :
    ∃ h', insert h l n = .ok h' ∧ IsList h' l (xs ++ [n]) ∧ Frame h h' l xs := by
  have hh := isList_head hl
  rcases nil_or_snoc xs with rfl | ⟨a, t, rfl⟩
  · simp only [List.head?_nil] at hh
    refine ⟨setTail (setHead h l (some n)) l (.node n), by simp [Model.ListHeap.insert, hnn, hh], ?_, ?_⟩
    · exact isList_insert_at (pre := []) (post := []) hl hn (by simp [load]) (by simp [hnn])
        (by simp) (by simp) (by simp)
    · exact ⟨fun l' e => by simp [e], fun l' e => by simp [e], fun i _ => by simp⟩
  · obtain ⟨x, hx⟩ : ∃ x, h.head l = some x := by
      rw [hh]; cases a <;> simp
    have ht := isList_tail hl
    have hne : n ≠ t := fun e => hn (by simp [e])
    refine ⟨setTail (setNext h t (some n)) l (.node n), by simp [Model.ListHeap.insert, hnn, hx, ht], ?_, ?_⟩
    · have := isList_insert_at (h' := setTail (setNext h t (some n)) l (.node n)) (pre := a ++ [t]) (post := [])
        (by simpa using hl) (by simpa using hn) (by simp [load]) (by simp [hne, hnn])
        (fun x hx hlast => by
          have : x ≠ t := fun e => hlast (by simp [e])
          simp [this])
        (by simp) (by simp)
      simpa using this
    · exact ⟨fun l' e => by simp, fun l' e => by simp [e], fun i hi => by
        have : i ≠ t := fun e => hi (by simp [e])
        simp [this]⟩

/-- **list_push prepends**, again whatever the tail of an empty list holds; only the new node is written -/
theorem push_refines {h : Heap} {l : Lid} {xs : List Node} {n : Node}
    (hl : IsList h l xs) (hn : n ∉ xs) (hnn : h.next n = none) :
    ∃ h', push h l n = .ok h' ∧ IsList h' l (n :: xs) ∧ Frame h h' l [n] := by
  have hh := isList_head hl
  cases xs with
  | nil =>
    simp only [List.head?_nil] at hh
    refine ⟨setHead (setTail h l (.node n)) l (some n), by simp [push, hnn, hh], ?_, ?_⟩
    · exact isList_insert_at (pre := []) (post := []) hl hn (by simp [load]) (by simp [hnn])
        (by simp) (by simp) (by simp)
    · exact ⟨fun l' e => by simp [e], fun l' e => by simp [e], fun i _ => by simp⟩
  | cons x r =>
    simp only [List.head?_cons] at hh
    refine ⟨setHead (setNext h n (some x)) l (some n), by simp [push, hnn, hh], ?_, ?_⟩
    · exact isList_insert_at (pre := []) (post := x :: r) hl hn (by simp [load]) (by simp)
        (fun y hy _ => by
          have : y ≠ n := fun e => hn (by simpa [e] using hy)
          simp [this])
        (by simp) (by simp)
    · exact ⟨fun l' e => by simp [e], fun l' e => by simp, fun i hi => by
        have : i ≠ n := fun e => hi (by simp [e])
        simp [this]⟩

/-- **list_extract pops the head**: returns NULL on an empty list, else the first node, whose link is
    cleared (immediately reusable).  The tail is left stale when the list becomes empty. -/
theorem extract_refines {h : Heap} {l : Lid} {xs : List Node} (hl : IsList h l xs) :
    (xs = [] → extract h l = (h, none)) ∧
    (∀ x r, xs = x :: r →
      ∃ h', extract h l = (h', some x) ∧ IsList h' l r ∧ h'.next x = none ∧ Frame h h' l [x]) := by
  have hh := isList_head hl
  refine ⟨fun e => ?_, fun x r e => ?_⟩
  · subst e; simp only [List.head?_nil] at hh; simp [extract, hh]
  · subst e
    simp only [List.head?_cons] at hh
    have hnx : h.next x = r.head? := isList_next (pre := []) hl
    have hnd := List.nodup_cons.1 hl.nodup
    refine ⟨setNext (setHead h l (h.next x)) x none, by simp [extract, hh], ?_, by simp, ?_⟩
    · exact isList_remove_at (pre := []) (post := r) (c := x) hl (by simp [load, hnx])
        (fun y hy _ => by
          have : y ≠ x := fun e => hnd.1 (by simpa [e] using hy)
          simp [this])
        (by simp) (by simp) (by simp)
    · exact ⟨fun l' e => by simp [e], fun l' e => by simp, fun i hi => by
        have : i ≠ x := fun e => hi (by simp [e])
        simp [this]⟩

theorem peek_refines {h : Heap} {l : Lid} {xs : List Node} (hl : IsList h l xs) : peek h l = xs.head? :=
  isList_head hl

theorem empty_refines {h : Heap} {l : Lid} {xs : List Node} (hl : IsList h l xs) : empty h l = xs.isEmpty := by
  unfold empty; rw [isList_head hl]; cases xs <;> rfl

/-! ### iterators: `it = ⟨linkAfter l pre, l⟩` stands just after the prefix `pre` of list `l` -/

theorem iterate_refines {h : Heap} {l : Lid} {xs : List Node} (hl : IsList h l xs) :
    iterate h l = (⟨linkAfter l [], l⟩, xs.head?) := by
  simp [iterate, isList_head hl]

/-- **list_iterator_next** steps over the current node and returns the one after it; past the end it
    stays where it is and returns NULL -/
theorem iteratorNext_refines {h : Heap} {l : Lid} {pre post : List Node} (hl : IsList h l (pre ++ post)) :
    (post = [] → iteratorNext h ⟨linkAfter l pre, l⟩ = (⟨linkAfter l pre, l⟩, none)) ∧
    (∀ c r, post = c :: r →
      iteratorNext h ⟨linkAfter l pre, l⟩ = (⟨linkAfter l (pre ++ [c]), l⟩, r.head?)) := by
  have hld := isList_load hl
  refine ⟨fun e => ?_, fun c r e => ?_⟩
  · subst e; simp only [List.head?_nil] at hld; simp [iteratorNext, hld]
  · subst e
    simp only [List.head?_cons] at hld
    simp [iteratorNext, hld, isList_next hl]

/-- reading the iterator's link gives its current node -/
theorem cur_refines {h : Heap} {l : Lid} {pre post : List Node} (hl : IsList h l (pre ++ post)) :
    load h (linkAfter l pre) = post.head? := isList_load hl

theorem linkAfter_ne_nextOf {l : Lid} {pre : List Node} {n : Node} (hn : n ∉ pre) :
    linkAfter l pre ≠ .nextOf n := by
  rw [Ne, linkAfter_eq_nextOf]
  exact fun e => hn (List.mem_of_getLast? e)

/-- **list_iterator_insert** links the node in at the iterator's position (anywhere, including past the
    end, where it also moves the tail); the iterator then points at the new node -/
theorem iteratorInsert_refines {h : Heap} {l : Lid} {pre post : List Node} {n : Node}
    (hl : IsList h l (pre ++ post)) (hn : n ∉ pre ++ post) :
    IsList (iteratorInsert h ⟨linkAfter l pre, l⟩ n) l (pre ++ n :: post) ∧
    Frame h (iteratorInsert h ⟨linkAfter l pre, l⟩ n) l (n :: pre) ∧
    load (iteratorInsert h ⟨linkAfter l pre, l⟩ n) (linkAfter l pre) = some n := by
  have hld := isList_load hl
  have hnpre : n ∉ pre := fun e => hn (List.mem_append_left _ e)
  have hk := linkAfter_ne_nextOf (l := l) hnpre
  have key : ∀ h2 : Heap, h2 = setNext (store h (linkAfter l pre) (some n)) n post.head? →
      iteratorInsert h ⟨linkAfter l pre, l⟩ n = (if post = [] then setTail h2 l (.node n) else h2) := by
    intro h2 e
    simp only [iteratorInsert, hld]
    cases post <;> simp [e]
  rw [key _ rfl]
  have hlink : ∀ h2 : Heap, h2.next = (setNext (store h (linkAfter l pre) (some n)) n post.head?).next →
      h2.head = (store h (linkAfter l pre) (some n)).head → load h2 (linkAfter l pre) = some n := by
    intro h2 e1 e2
    rw [load_linkAfter_cases]
    cases hg : pre.getLast? with
    | none => dsimp only; rw [e2, store_head]; simp [linkAfter, hg]
    | some p =>
      have hpn : p ≠ n := fun e => hnpre (e ▸ List.mem_of_getLast? hg)
      dsimp only; rw [e1, setNext_next, if_neg hpn, store_next]; simp [linkAfter, hg]
  refine ⟨?_, ?_, ?_⟩
  · refine isList_insert_at hl hn ?_ ?_ ?_ ?_ ?_
    · split <;> exact hlink _ rfl rfl
    · split <;> simp
    · intro x hx hlast
      have hxn : x ≠ n := fun e => hn (e ▸ hx)
      have : linkAfter l pre ≠ .nextOf x := by rw [Ne, linkAfter_eq_nextOf]; exact hlast
      split <;> simp [hxn, store_next, this]
    · intro hp
      have : linkAfter l pre ≠ .headOf l := by rw [Ne, linkAfter_eq_headOf]; exact fun e => hp e.1
      split <;> simp [store_head, this]
    · split <;> simp [*]
  · refine ⟨fun l' e => ?_, fun l' e => ?_, fun i hi => ?_⟩
    · have : linkAfter l pre ≠ .headOf l' := by rw [Ne, linkAfter_eq_headOf]; exact fun e' => e e'.2.symm
      split <;> simp [store_head, this]
    · split <;> simp [e]
    · have hin : i ≠ n := fun e => hi (by simp [e])
      have : linkAfter l pre ≠ .nextOf i := by
        rw [Ne, linkAfter_eq_nextOf]; exact fun e => hi (List.mem_cons_of_mem _ (List.mem_of_getLast? e))
      split <;> simp [hin, store_next, this]
  · split <;> exact hlink _ rfl rfl

/-- **list_iterator_remove** unlinks the current node `c`, returns the node after it, clears `c`'s link
    (immediately reusable) and moves the tail back when `c` was the last node — to the bogus
    "address of head" value when `c` was the only one, which `IsList` of the now empty list tolerates -/
theorem iteratorRemove_refines {h : Heap} {l : Lid} {pre post : List Node} {c : Node}
    (hl : IsList h l (pre ++ c :: post)) :
    ∃ h', iteratorRemove h ⟨linkAfter l pre, l⟩ = .ok (h', post.head?) ∧ IsList h' l (pre ++ post) ∧
      h'.next c = none ∧ Frame h h' l (c :: pre) := by
  have hld : load h (linkAfter l pre) = some c := isList_load hl
  have hnc := isList_next hl
  have hnd := List.nodup_append.1 hl.nodup
  have hcpre : c ∉ pre := fun e => hnd.2.2 c e c (by simp) rfl
  have hcpost : c ∉ post := (List.nodup_cons.1 hnd.2.1).1
  have hk := linkAfter_ne_nextOf (l := l) hcpre
  -- the conditional tail update, as one write
  let t1 : Tail := if h.tail l = .node c then containerOf (linkAfter l pre) else h.tail l
  have h1eq : (if h.tail l = .node c then setTail h l (containerOf (linkAfter l pre)) else h) = setTail h l t1 := by
    by_cases e : h.tail l = .node c
    · simp [t1, e]
    · simp only [t1, if_neg e]; exact (setTail_self h l).symm
  let h3 : Heap := setNext (store (setTail h l t1) (linkAfter l pre) post.head?) c none
  have hlink : load h3 (linkAfter l pre) = post.head? := by
    rw [load_linkAfter_cases]
    cases hg : pre.getLast? with
    | none => simp [h3, store_head, linkAfter, hg]
    | some p =>
      have hpc : p ≠ c := fun e => hcpre (e ▸ List.mem_of_getLast? hg)
      simp [h3, hpc, store_next, linkAfter, hg]
  have hrun : iteratorRemove h ⟨linkAfter l pre, l⟩ = .ok (h3, post.head?) := by
    simp only [iteratorRemove, hld, h1eq]
    rw [← hlink]
    simp [h3, hnc]
  refine ⟨h3, hrun, ?_, by simp [h3], ?_⟩
  · refine isList_remove_at hl hlink ?_ ?_ ?_ ?_
    · intro x hx hlast
      have hxc : x ≠ c := by
        intro e; subst e
        rcases List.mem_append.1 hx with hx | hx
        · exact hcpre hx
        · exact hcpost hx
      have : linkAfter l pre ≠ .nextOf x := by rw [Ne, linkAfter_eq_nextOf]; exact hlast
      simp [h3, hxc, store_next, this]
    · intro hp
      have : linkAfter l pre ≠ .headOf l := by rw [Ne, linkAfter_eq_headOf]; exact fun e => hp e.1
      simp [h3, store_head, this]
    · intro hp
      obtain ⟨d, r, rfl⟩ := List.exists_cons_of_ne_nil hp
      obtain ⟨z, hz⟩ : ∃ z, (d :: r).getLast? = some z := by
        cases hg : (d :: r).getLast? with
        | none => simp at hg
        | some z => exact ⟨z, rfl⟩
      have htl := hl.tail z (by simpa [List.getLast?_append, List.getLast?_cons_cons] using hz)
      have hzc : z ≠ c := fun e => hcpost (e ▸ List.mem_of_getLast? hz)
      simp [h3, t1, htl, hzc]
    · intro hp p hg
      subst hp
      have htl := isList_tail (a := pre) (t := c) hl
      simp [h3, t1, htl, linkAfter, hg, containerOf]
  · refine ⟨fun l' e => ?_, fun l' e => by simp [h3, e], fun i hi => ?_⟩
    · have : linkAfter l pre ≠ .headOf l' := by rw [Ne, linkAfter_eq_headOf]; exact fun e' => e e'.2.symm
      simp [h3, store_head, this]
    · have hic : i ≠ c := fun e => hi (by simp [e])
      have : linkAfter l pre ≠ .nextOf i := by
        rw [Ne, linkAfter_eq_nextOf]; exact fun e => hi (List.mem_cons_of_mem _ (List.mem_of_getLast? e))
      simp [h3, hic, store_next, this]

/-- `list_iterator_remove` with no current node (iterator past the end, or empty list) fails its assert -/
theorem iteratorRemove_at_end {h : Heap} {l : Lid} {pre : List Node} (hl : IsList h l pre) :
    iteratorRemove h ⟨linkAfter l pre, l⟩ = .error .assertFail := by
  have hld : load h (linkAfter l pre) = none := isList_load (pre := pre) (post := []) (by simpa using hl)
  simp [iteratorRemove, hld]

/-! ### list_contains, list_remove -/

theorem Frame.mono {h h' : Heap} {l : Lid} {t t' : List Node} (hf : Frame h h' l t) (hs : ∀ x ∈ t, x ∈ t') :
    Frame h h' l t' :=
  ⟨hf.head, hf.tail, fun i hi => hf.next i (fun e => hi (hs i e))⟩

theorem containsLoop_refines {h : Heap} {l : Lid} (node : Node) : ∀ (post pre : List Node) (fuel : Nat),
    IsList h l (pre ++ post) → post.length < fuel →
    containsLoop h node fuel ⟨linkAfter l pre, l⟩ post.head? =
      .ok (⟨linkAfter l (pre ++ post.takeWhile (· != node)), l⟩, post.contains node)
  | [], pre, fuel, _, hf => by
    obtain ⟨f, rfl⟩ : ∃ f, fuel = f + 1 := ⟨fuel - 1, by simp at hf; omega⟩
    simp [containsLoop]
  | c :: r, pre, fuel, hl, hf => by
    obtain ⟨f, rfl⟩ : ∃ f, fuel = f + 1 := ⟨fuel - 1, by simp at hf; omega⟩
    simp only [List.head?_cons, containsLoop]
    by_cases e : c = node
    · subst e; simp
    · rw [if_neg e, (iteratorNext_refines hl).2 c r rfl]
      have ih := containsLoop_refines node r (pre ++ [c]) f (by simpa using hl) (by simp at hf; omega)
      simp only [ih]
      have e' : node ≠ c := fun x => e x.symm
      simp [e, e']

/-- **list_contains** walks the whole list (`length + 1` iterations suffice), answers membership, and
    leaves the iterator on the node found, or past the end -/
theorem contains_refines {h : Heap} {l : Lid} {xs : List Node} (node : Node) {fuel : Nat}
    (hl : IsList h l xs) (hf : xs.length < fuel) :
    contains fuel h l node = .ok (⟨linkAfter l (xs.takeWhile (· != node)), l⟩, xs.contains node) := by
  have := containsLoop_refines (h := h) (l := l) node xs [] fuel (by simpa using hl) hf
  simpa [contains, iterate, isList_head hl] using this

theorem split_at_mem {node : Node} : ∀ {xs : List Node}, node ∈ xs →
    ∃ rest, xs = xs.takeWhile (· != node) ++ node :: rest ∧ xs.erase node = xs.takeWhile (· != node) ++ rest
  | c :: r, hm => by
    by_cases e : c = node
    · subst e; exact ⟨r, by simp, by simp⟩
    · have hm' : node ∈ r := by
        rcases List.mem_cons.1 hm with e' | hm'
        · exact absurd e'.symm e
        · exact hm'
      obtain ⟨rest, h1, h2⟩ := split_at_mem hm'
      refine ⟨rest, ?_, ?_⟩
      · have : (c != node) = true := by simpa using e
        rw [List.takeWhile_cons, if_pos this, List.cons_append, ← h1]
      · have : (c != node) = true := by simpa using e
        rw [List.takeWhile_cons, if_pos this, List.cons_append, ← h2, List.erase_cons_tail (by simpa using e)]

/-- **list_remove** removes the node if it is a member (fixing the tail when it was the last one,
    clearing its link so that it is immediately reusable) and reports whether it was -/
theorem remove_refines {h : Heap} {l : Lid} {xs : List Node} (node : Node) {fuel : Nat}
    (hl : IsList h l xs) (hf : xs.length < fuel) :
    ∃ h', remove fuel h l node = .ok (h', xs.contains node) ∧ IsList h' l (xs.erase node) ∧
      (node ∈ xs → h'.next node = none) ∧ (node ∉ xs → h' = h) ∧ Frame h h' l xs := by
  by_cases hm : node ∈ xs
  · obtain ⟨rest, h1, h2⟩ := split_at_mem hm
    have hl' : IsList h l (xs.takeWhile (· != node) ++ node :: rest) := by rw [← h1]; exact hl
    obtain ⟨h', hr, hl2, hnx, hfr⟩ := iteratorRemove_refines hl'
    refine ⟨h', ?_, by rw [h2]; exact hl2, fun _ => hnx, fun e => absurd hm e, ?_⟩
    · simp [remove, contains_refines node hl hf, hm, hr]
    · refine hfr.mono (fun x hx => ?_)
      rcases List.mem_cons.1 hx with rfl | hx
      · exact hm
      · exact (List.takeWhile_sublist _).subset hx
  · refine ⟨h, ?_, by rw [List.erase_of_not_mem hm]; exact hl, fun e => absurd e hm, fun _ => rfl, frame_refl _ _ _⟩
    simp [remove, contains_refines node hl hf, hm]

/-! ### list_insert_sorted -/

/-- what `list_insert_sorted` does to an arbitrary (not necessarily sorted) sequence: its two fast
    paths, then the scan -/
def sortedIns (cmp : Node → Node → Int) (n : Node) (xs : List Node) : List Node :=
  match xs.getLast? with
  | none => [n]
  | some t => if cmp n t ≥ 0 then xs ++ [n] else Librfn.Spec.ListSeq.insertSorted cmp n xs

theorem sortedLoop_refines {h : Heap} {l : Lid} (cmp : Node → Node → Int) (n : Node) :
    ∀ (post pre : List Node) (fuel : Nat), IsList h l (pre ++ post) → post.length < fuel →
    (∃ x ∈ post, ¬ cmp n x ≥ 0) →
    sortedLoop h cmp n fuel ⟨linkAfter l pre, l⟩ post.head? =
      .ok ⟨linkAfter l (pre ++ post.takeWhile (fun x => cmp n x ≥ 0)), l⟩
  | [], _, _, _, _, ⟨_, hx, _⟩ => absurd hx (by simp)
  | c :: r, pre, fuel, hl, hf, hex => by
    obtain ⟨f, rfl⟩ : ∃ f, fuel = f + 1 := ⟨fuel - 1, by simp at hf; omega⟩
    simp only [List.head?_cons, sortedLoop]
    by_cases e : cmp n c ≥ 0
    · rw [if_pos e, (iteratorNext_refines hl).2 c r rfl]
      have hex' : ∃ x ∈ r, ¬ cmp n x ≥ 0 := by
        obtain ⟨x, hx, hnx⟩ := hex
        rcases List.mem_cons.1 hx with rfl | hx'
        · exact absurd e hnx
        · exact ⟨x, hx', hnx⟩
      have ih := sortedLoop_refines cmp n r (pre ++ [c]) f (by simpa using hl) (by simp at hf; omega) hex'
      simp only [ih]
      simp [e]
    · rw [if_neg e]; simp [e]

/-- **list_insert_sorted** on any list: the scan terminates at the latest at the tail (the fast path
    has just established `nodecmp(node, tail) < 0`), so the comparator never sees NULL and the assert
    never fires; the node goes in front of the first node it is strictly smaller than -/
theorem insertSorted_refines {h : Heap} {l : Lid} {xs : List Node} {n : Node} (cmp : Node → Node → Int)
    {fuel : Nat} (hl : IsList h l xs) (hn : n ∉ xs) (hnn : h.next n = none) (hf : xs.length < fuel) :
    ∃ h', insertSorted fuel h l n cmp = .ok h' ∧ IsList h' l (sortedIns cmp n xs) ∧ Frame h h' l (n :: xs) := by
  have hh := isList_head hl
  obtain ⟨hi, hrun, hli, hfi⟩ := insert_refines hl hn hnn
  have hfi' : Frame h hi l (n :: xs) := hfi.mono (fun x hx => List.mem_cons_of_mem _ hx)
  rcases nil_or_snoc xs with rfl | ⟨a, t, rfl⟩
  · simp only [List.head?_nil] at hh
    refine ⟨hi, ?_, by simpa [sortedIns] using hli, hfi'⟩
    rw [← hrun]; simp [insertSorted, Model.ListHeap.insert, hnn, hh]
  · obtain ⟨x, hx⟩ : ∃ x, h.head l = some x := by
      rw [hh]; cases a <;> simp
    have ht := isList_tail hl
    by_cases e : cmp n t ≥ 0
    · refine ⟨hi, ?_, by simpa [sortedIns, e] using hli, hfi'⟩
      rw [← hrun]; simp [insertSorted, Model.ListHeap.insert, hnn, hx, ht, e]
    · have hloop := sortedLoop_refines (h := h) (l := l) cmp n (a ++ [t]) [] fuel (by simpa using hl) hf
        ⟨t, by simp, e⟩
      have hsplit : a ++ [t] = (a ++ [t]).takeWhile (fun x => cmp n x ≥ 0) ++ (a ++ [t]).dropWhile (fun x => cmp n x ≥ 0) :=
        (List.takeWhile_append_dropWhile).symm
      have hl' : IsList h l ((a ++ [t]).takeWhile (fun x => cmp n x ≥ 0) ++ (a ++ [t]).dropWhile (fun x => cmp n x ≥ 0)) := by
        rw [← hsplit]; exact hl
      have hn' : n ∉ (a ++ [t]).takeWhile (fun x => cmp n x ≥ 0) ++ (a ++ [t]).dropWhile (fun x => cmp n x ≥ 0) := by
        rw [← hsplit]; exact hn
      obtain ⟨h1, h2, _⟩ := iteratorInsert_refines hl' hn'
      have hloop' : sortedLoop h cmp n fuel (iterate h l).1 (iterate h l).2 =
          .ok ⟨linkAfter l ((a ++ [t]).takeWhile (fun x => cmp n x ≥ 0)), l⟩ := by
        simpa [iterate, hh] using hloop
      refine ⟨iteratorInsert h ⟨linkAfter l ((a ++ [t]).takeWhile (fun x => cmp n x ≥ 0)), l⟩ n, ?_, ?_, ?_⟩
      · simp [insertSorted, hnn, hx, ht, e, hloop']
      · simpa [sortedIns, e, Librfn.Spec.ListSeq.insertSorted] using h1
      · exact h2.mono (fun y hy => by
          rcases List.mem_cons.1 hy with rfl | hy
          · simp
          · exact List.mem_cons_of_mem _ ((List.takeWhile_sublist _).subset hy))

theorem dropWhile_all_greater {cmp : Node → Node → Int} (hp : TotalPreorder cmp) (n : Node) :
    ∀ {xs : List Node}, Sorted cmp xs → ∀ y ∈ xs.dropWhile (fun x => cmp n x ≥ 0), ¬ cmp n y ≥ 0
  | [], _, y, hy => by simp at hy
  | c :: r, hs, y, hy => by
    have hs' := List.pairwise_cons.1 hs
    by_cases e : cmp n c ≥ 0
    · rw [List.dropWhile_cons, if_pos (by simpa using e)] at hy
      exact dropWhile_all_greater hp n hs'.2 y hy
    · rw [List.dropWhile_cons, if_neg (by simpa using e)] at hy
      rcases List.mem_cons.1 hy with rfl | hy
      · exact e
      · exact fun hny => e (hp.trans c y n (hs'.1 y hy) hny)

/-- **sorted insertion is stable**: into a list sorted by any total preorder, `list_insert_sorted`
    (fast paths included) puts the node after every node that is smaller **or equal** and before every
    strictly greater one, and the list stays sorted -/
theorem insert_sorted_stable {cmp : Node → Node → Int} (hp : TotalPreorder cmp) {xs : List Node} (n : Node)
    (hs : Sorted cmp xs) :
    sortedIns cmp n xs = Librfn.Spec.ListSeq.insertSorted cmp n xs ∧
    Sorted cmp (Librfn.Spec.ListSeq.insertSorted cmp n xs) ∧
    (∀ x ∈ xs.takeWhile (fun x => cmp n x ≥ 0), cmp n x ≥ 0) ∧
    (∀ y ∈ xs.dropWhile (fun x => cmp n x ≥ 0), ¬ cmp n y ≥ 0) := by
  have hB : ∀ x ∈ xs.takeWhile (fun x => cmp n x ≥ 0), cmp n x ≥ 0 := fun x hx => by
    simpa using mem_takeWhile_imp hx
  have hA := dropWhile_all_greater hp n hs
  refine ⟨?_, ?_, hB, hA⟩
  · unfold sortedIns
    cases hg : xs.getLast? with
    | none =>
      have : xs = [] := List.getLast?_eq_none_iff.1 hg
      subst this; simp [Librfn.Spec.ListSeq.insertSorted]
    | some t =>
      dsimp only
      by_cases e : cmp n t ≥ 0
      · rw [if_pos e]
        obtain ⟨a, rfl⟩ := List.getLast?_eq_some_iff.1 hg
        have hall : ∀ x ∈ a ++ [t], cmp n x ≥ 0 := by
          intro x hx
          rcases List.mem_append.1 hx with hx | hx
          · exact hp.trans x t n ((List.pairwise_append.1 hs).2.2 x hx t (by simp)) e
          · simp at hx; subst hx; exact e
        have h1 : (a ++ [t]).takeWhile (fun x => cmp n x ≥ 0) = a ++ [t] :=
          takeWhile_eq_self (fun x hx => by simpa using hall x hx)
        have h2 : (a ++ [t]).dropWhile (fun x => cmp n x ≥ 0) = [] :=
          dropWhile_eq_nil (fun x hx => by simpa using hall x hx)
        simp only [Librfn.Spec.ListSeq.insertSorted, h1, h2]
      · rw [if_neg e]
  · have hsplit : xs = xs.takeWhile (fun x => cmp n x ≥ 0) ++ xs.dropWhile (fun x => cmp n x ≥ 0) :=
      (List.takeWhile_append_dropWhile).symm
    have hs' : Sorted cmp (xs.takeWhile (fun x => cmp n x ≥ 0) ++ xs.dropWhile (fun x => cmp n x ≥ 0)) := by
      rw [← hsplit]; exact hs
    obtain ⟨p1, p2, p3⟩ := List.pairwise_append.1 hs'
    unfold Sorted Librfn.Spec.ListSeq.insertSorted
    rw [List.pairwise_append]
    refine ⟨p1, List.pairwise_cons.2 ⟨fun b hb => ?_, p2⟩, fun a ha b hb => ?_⟩
    · rcases hp.total n b with h | h
      · exact absurd h (hA b hb)
      · exact h
    · rcases List.mem_cons.1 hb with rfl | hb
      · exact hB a ha
      · exact p3 a ha b hb

/-! ### every history

The simulation relation between the heap model and the abstract sequences, preserved by every
in-scope call; `N` is the size of the node pool (it only serves to show that `N + 1` loop iterations
always suffice). -/
open Librfn.Spec.ListSeq (setList revalidate validIter)

/-- the link an abstract iterator (list, predecessor) denotes -/
def linkOf (l : Lid) : Option Node → Link
  | none => .headOf l
  | some p => .nextOf p

theorem linkAfter_eq_linkOf (l : Lid) (pre : List Node) : linkAfter l pre = linkOf l pre.getLast? := by
  unfold linkAfter linkOf; cases pre.getLast? <;> rfl

theorem getLast?_upto (xs : List Node) (pred : Option Node) : (upto xs pred).getLast? = pred := by
  cases pred <;> simp [upto]

theorem linkAfter_upto (l : Lid) (xs : List Node) (pred : Option Node) :
    linkAfter l (upto xs pred) = linkOf l pred := by
  rw [linkAfter_eq_linkOf, getLast?_upto]

theorem split_at_pred {p : Node} : ∀ {xs : List Node}, p ∈ xs →
    xs.takeWhile (· != p) ++ [p] ++ (xs.dropWhile (· != p)).drop 1 = xs
  | c :: r, hm => by
    by_cases e : c = p
    · subst e; simp
    · have hm' : p ∈ r := by
        rcases List.mem_cons.1 hm with e' | hm'
        · exact absurd e'.symm e
        · exact hm'
      have ih := split_at_pred hm'
      have : (c != p) = true := by simpa using e
      rw [List.takeWhile_cons, List.dropWhile_cons, if_pos this, if_pos this]
      simp only [List.cons_append]
      rw [ih]

theorem upto_append_after {xs : List Node} {pred : Option Node} (hv : ∀ p, pred = some p → p ∈ xs) :
    upto xs pred ++ after xs pred = xs := by
  cases pred with
  | none => rfl
  | some p => exact split_at_pred (hv p rfl)

/-- the simulation relation -/
structure Rel (N : Nat) (ms : MState) (ss : SState) : Prop where
  lists : ∀ l, IsList ms.heap l (ss.lists l)
  disj : ∀ l l', l ≠ l' → ∀ x ∈ ss.lists l, x ∉ ss.lists l'
  free : ∀ n, Free ss n → ms.heap.next n = none
  bound : ∀ l, ∀ x ∈ ss.lists l, x < N
  iters : ∀ k ai, ss.iters k = some ai →
    ms.iters k = some ⟨linkOf ai.list ai.pred, ai.list⟩ ∧ ∀ p, ai.pred = some p → p ∈ ss.lists ai.list

/-- zero-initialised lists and nodes are empty sequences -/
theorem rel_init (N : Nat) : Rel N init Librfn.Spec.ListSeq.init :=
  { lists := fun l => ⟨rfl, by simp [Librfn.Spec.ListSeq.init], by simp [Librfn.Spec.ListSeq.init]⟩
    disj := fun _ _ _ x hx => by simp [Librfn.Spec.ListSeq.init] at hx
    free := fun _ _ => rfl
    bound := fun _ x hx => by simp [Librfn.Spec.ListSeq.init] at hx
    iters := fun k ai h => by simp [Librfn.Spec.ListSeq.init] at h }

theorem Rel.length_lt {N : Nat} {ms : MState} {ss : SState} (hr : Rel N ms ss) (l : Lid) {fuel : Nat}
    (hN : N < fuel) : (ss.lists l).length < fuel :=
  Nat.lt_of_le_of_lt (length_le_of_nodup_lt N _ (hr.lists l).nodup (hr.bound l)) hN

theorem Rel.split {N : Nat} {ms : MState} {ss : SState} (hr : Rel N ms ss) {k : Nat} {ai : AIter}
    (hai : ss.iters k = some ai) :
    ms.iters k = some ⟨linkAfter ai.list (upto (ss.lists ai.list) ai.pred), ai.list⟩ ∧
    IsList ms.heap ai.list (upto (ss.lists ai.list) ai.pred ++ after (ss.lists ai.list) ai.pred) := by
  obtain ⟨h1, h2⟩ := hr.iters k ai hai
  rw [linkAfter_upto, upto_append_after h2]
  exact ⟨h1, hr.lists _⟩

/-- a call that rewrites list `l` (possibly linking in the free node `ins`) re-establishes the relation -/
theorem rel_update {N : Nat} {ms : MState} {ss : SState} (hr : Rel N ms ss) (l : Lid) (h' : Heap)
    (newxs touched : List Node) (ins : Option Node)
    (hl : IsList h' l newxs)
    (hf : Frame ms.heap h' l touched)
    (htouched : ∀ x ∈ touched, x ∈ ss.lists l ∨ ins = some x)
    (hnew : ∀ x ∈ newxs, x ∈ ss.lists l ∨ ins = some x)
    (hins : ∀ n, ins = some n → Free ss n ∧ n < N ∧ n ∈ newxs)
    (hgone : ∀ x ∈ ss.lists l, x ∉ newxs → h'.next x = none) :
    Rel N ⟨h', ms.iters⟩ (revalidate (setList ss l newxs)) := by
  have hlists : ∀ i, (revalidate (setList ss l newxs)).lists i = if i = l then newxs else ss.lists i := fun _ => rfl
  refine ⟨fun i => ?_, fun l1 l2 hne x hx => ?_, fun n hfree => ?_, fun i x hx => ?_, fun k ai hai => ?_⟩
  · rw [hlists]
    by_cases e : i = l
    · rw [if_pos e, e]; exact hl
    · rw [if_neg e]
      refine isList_frame (hr.lists i) hf e (fun y hy ht => ?_)
      rcases htouched y ht with h1 | h1
      · exact hr.disj i l e y hy h1
      · exact (hins y h1).1 i hy
  · rw [hlists] at hx ⊢
    by_cases e1 : l1 = l
    · have e2 : l2 ≠ l := fun e => hne (e1.trans e.symm)
      rw [if_pos e1] at hx; rw [if_neg e2]
      rcases hnew x hx with h1 | h1
      · exact hr.disj l l2 (fun e => e2 e.symm) x h1
      · exact (hins x h1).1 l2
    · rw [if_neg e1] at hx
      by_cases e2 : l2 = l
      · rw [if_pos e2]
        intro hx2
        rcases hnew x hx2 with h1 | h1
        · exact hr.disj l1 l e1 x hx h1
        · exact (hins x h1).1 l1 hx
      · rw [if_neg e2]; exact hr.disj l1 l2 hne x hx
  · show h'.next n = none
    have hnl : n ∉ newxs := by have := hfree l; rwa [hlists, if_pos rfl] at this
    have hno : ∀ i, i ≠ l → n ∉ ss.lists i := fun i e => by have := hfree i; rwa [hlists, if_neg e] at this
    by_cases hm : n ∈ ss.lists l
    · exact hgone n hm hnl
    · have hfo : Free ss n := fun i => by
        by_cases e : i = l
        · rw [e]; exact hm
        · exact hno i e
      rw [hf.next n (fun ht => ?_)]
      · exact hr.free n hfo
      · rcases htouched n ht with h1 | h1
        · exact hm h1
        · exact hnl (hins n h1).2.2
  · rw [hlists] at hx
    by_cases e : i = l
    · rw [if_pos e] at hx
      rcases hnew x hx with h1 | h1
      · exact hr.bound l x h1
      · exact (hins x h1).2.1
    · rw [if_neg e] at hx; exact hr.bound i x hx
  · have hai' : (ss.iters k).filter (validIter (revalidate (setList ss l newxs)).lists) = some ai := hai
    rw [Option.filter_eq_some_iff] at hai'
    refine ⟨(hr.iters k ai hai'.1).1, fun p hp => ?_⟩
    have := hai'.2
    simp only [validIter, hp] at this
    simpa using this

/-- a call that only (re)positions iterator `k` -/
theorem rel_setIter {N : Nat} {ms : MState} {ss : SState} (hr : Rel N ms ss) (k : Nat) (ai : AIter)
    (hv : ∀ p, ai.pred = some p → p ∈ ss.lists ai.list) :
    Rel N (Librfn.Model.ListHeap.setIter ms k ⟨linkOf ai.list ai.pred, ai.list⟩) (Librfn.Spec.ListSeq.setIter ss k ai) :=
  { lists := hr.lists, disj := hr.disj, free := hr.free, bound := hr.bound
    iters := fun k' ai' h => by
      simp only [Librfn.Spec.ListSeq.setIter] at h
      simp only [Librfn.Model.ListHeap.setIter]
      by_cases e : k' = k
      · rw [if_pos e] at h ⊢
        cases h
        exact ⟨rfl, hv⟩
      · rw [if_neg e] at h ⊢
        exact hr.iters k' ai' h }

/-- re-storing the value an iterator already holds changes nothing -/
theorem rel_touch {N : Nat} {ms : MState} {ss : SState} (hr : Rel N ms ss) {k : Nat} {it : Iter}
    (h : ms.iters k = some it) : Rel N (Librfn.Model.ListHeap.setIter ms k it) ss :=
  { lists := hr.lists, disj := hr.disj, free := hr.free, bound := hr.bound
    iters := fun k' ai' h' => by
      simp only [Librfn.Model.ListHeap.setIter]
      by_cases e : k' = k
      · rw [if_pos e, ← h, ← e]; exact hr.iters k' ai' h'
      · rw [if_neg e]; exact hr.iters k' ai' h' }

theorem traverse_refines {h : Heap} {l : Lid} {xs : List Node} {fuel : Nat} (hl : IsList h l xs)
    (hf : xs.length < fuel) : traverse fuel h l = some xs :=
  walk_seg h xs fuel _ hl.chain (Nat.le_of_lt hf)

/-- **one call**: in scope, the model returns what the abstract sequences return and the relation is kept -/
theorem step_refines {N fuel : Nat} (hN : N < fuel) {ms : MState} {ss : SState} (hr : Rel N ms ss) (op : Op)
    (hpre : Pre N ss op) :
    (step fuel ms op).2 = (Librfn.Spec.ListSeq.step ss op).2 ∧
    Rel N (step fuel ms op).1 (Librfn.Spec.ListSeq.step ss op).1 := by
  cases op with
  | insert l n =>
    obtain ⟨hfree, hlt⟩ := hpre
    obtain ⟨h', hrun, hl', hf⟩ := insert_refines (hr.lists l) (hfree l) (hr.free n hfree)
    simp only [step, hrun, Librfn.Spec.ListSeq.step]
    refine ⟨by first | trivial | rfl, rel_update hr l h' _ _ (some n) hl' hf (fun x hx => Or.inl hx) ?_ ?_ ?_⟩
    · intro x hx
      rcases List.mem_append.1 hx with h | h
      · exact Or.inl h
      · simp at h; exact Or.inr (by rw [h])
    · intro m hm; cases hm; exact ⟨hfree, hlt, by simp⟩
    · intro x hx hnx; exact absurd (List.mem_append_left _ hx) hnx
  | push l n =>
    obtain ⟨hfree, hlt⟩ := hpre
    obtain ⟨h', hrun, hl', hf⟩ := push_refines (hr.lists l) (hfree l) (hr.free n hfree)
    simp only [step, hrun, Librfn.Spec.ListSeq.step]
    refine ⟨by first | trivial | rfl, rel_update hr l h' _ _ (some n) hl' hf ?_ ?_ ?_ ?_⟩
    · intro x hx; simp at hx; exact Or.inr (by rw [hx])
    · intro x hx
      rcases List.mem_cons.1 hx with h | h
      · exact Or.inr (by rw [h])
      · exact Or.inl h
    · intro m hm; cases hm; exact ⟨hfree, hlt, by simp⟩
    · intro x hx hnx; exact absurd (List.mem_cons_of_mem _ hx) hnx
  | sorted l n cmp =>
    obtain ⟨hfree, hlt, hp, hs⟩ := hpre
    obtain ⟨h', hrun, hl', hf⟩ := insertSorted_refines cmp (hr.lists l) (hfree l) (hr.free n hfree) (hr.length_lt l hN)
    rw [(insert_sorted_stable hp n hs).1] at hl'
    simp only [step, hrun, Librfn.Spec.ListSeq.step]
    have hsplit := List.takeWhile_append_dropWhile (p := fun x => decide (cmp n x ≥ 0)) (l := ss.lists l)
    refine ⟨by first | trivial | rfl, rel_update hr l h' _ _ (some n) hl' hf ?_ ?_ ?_ ?_⟩
    · intro x hx
      rcases List.mem_cons.1 hx with h | h
      · exact Or.inr (by rw [h])
      · exact Or.inl h
    · intro x hx
      unfold Librfn.Spec.ListSeq.insertSorted at hx
      rcases List.mem_append.1 hx with h | h
      · exact Or.inl ((List.takeWhile_sublist _).subset h)
      · rcases List.mem_cons.1 h with h | h
        · exact Or.inr (by rw [h])
        · exact Or.inl ((List.dropWhile_sublist _).subset h)
    · intro m hm; cases hm
      exact ⟨hfree, hlt, by simp [Librfn.Spec.ListSeq.insertSorted]⟩
    · intro x hx hnx
      refine absurd ?_ hnx
      rw [← hsplit] at hx
      unfold Librfn.Spec.ListSeq.insertSorted
      rcases List.mem_append.1 hx with h | h
      · exact List.mem_append_left _ h
      · exact List.mem_append_right _ (List.mem_cons_of_mem _ h)
  | extract l =>
    have hx := extract_refines (hr.lists l)
    simp only [step, Librfn.Spec.ListSeq.step]
    cases hxs : ss.lists l with
    | nil =>
      rw [hx.1 hxs]
      exact ⟨by first | trivial | rfl, hr⟩
    | cons x r =>
      obtain ⟨h', hrun, hl', hnx, hf⟩ := hx.2 x r hxs
      rw [hrun]
      refine ⟨by first | trivial | rfl, rel_update hr l h' r [x] none hl' hf ?_ ?_ ?_ ?_⟩
      · intro y hy; simp at hy; exact Or.inl (by rw [hxs, hy]; simp)
      · intro y hy; exact Or.inl (by rw [hxs]; exact List.mem_cons_of_mem _ hy)
      · intro m hm; cases hm
      · intro y hy hny
        rw [hxs] at hy
        rcases List.mem_cons.1 hy with h | h
        · rw [h]; exact hnx
        · exact absurd h hny
  | peek l =>
    simp only [step, Librfn.Spec.ListSeq.step, peek_refines (hr.lists l)]
    exact ⟨by first | trivial | rfl, hr⟩
  | empty l =>
    simp only [step, Librfn.Spec.ListSeq.step, empty_refines (hr.lists l)]
    exact ⟨by first | trivial | rfl, hr⟩
  | iterate k l =>
    simp only [step, Librfn.Spec.ListSeq.step, iterate_refines (hr.lists l)]
    exact ⟨by first | trivial | rfl, rel_setIter hr k ⟨l, none⟩ (by simp)⟩
  | next k =>
    obtain ⟨ai, hai⟩ : ∃ ai, ss.iters k = some ai := by
      cases h : ss.iters k with
      | none => exact absurd h hpre
      | some ai => exact ⟨ai, rfl⟩
    obtain ⟨hit, hsl⟩ := hr.split hai
    have hxs := upto_append_after (hr.iters k ai hai).2
    have hnx := iteratorNext_refines hsl
    simp only [step, hit, Librfn.Spec.ListSeq.step, hai]
    cases hpost : after (ss.lists ai.list) ai.pred with
    | nil =>
      rw [hnx.1 hpost]
      exact ⟨by first | trivial | rfl, rel_touch hr hit⟩
    | cons c r =>
      rw [hnx.2 c r hpost]
      refine ⟨by first | trivial | rfl, ?_⟩
      simp only [linkAfter_snoc]
      refine rel_setIter hr k ⟨ai.list, some c⟩ (fun p hp => ?_)
      cases hp
      rw [← hxs, hpost]; simp
  | iinsert k n =>
    obtain ⟨hne, hfree, hlt⟩ := hpre
    obtain ⟨ai, hai⟩ : ∃ ai, ss.iters k = some ai := by
      cases h : ss.iters k with
      | none => exact absurd h hne
      | some ai => exact ⟨ai, rfl⟩
    obtain ⟨hit, hsl⟩ := hr.split hai
    have hxs := upto_append_after (hr.iters k ai hai).2
    have hn : n ∉ upto (ss.lists ai.list) ai.pred ++ after (ss.lists ai.list) ai.pred := by
      rw [hxs]; exact hfree ai.list
    obtain ⟨hl', hf, _⟩ := iteratorInsert_refines hsl hn
    simp only [step, hit, Librfn.Spec.ListSeq.step, hai]
    refine ⟨by first | trivial | rfl, rel_update hr ai.list _ _ _ (some n) hl' hf ?_ ?_ ?_ ?_⟩
    · intro x hx
      rcases List.mem_cons.1 hx with h | h
      · exact Or.inr (by rw [h])
      · exact Or.inl (by rw [← hxs]; exact List.mem_append_left _ h)
    · intro x hx
      rcases List.mem_append.1 hx with h | h
      · exact Or.inl (by rw [← hxs]; exact List.mem_append_left _ h)
      · rcases List.mem_cons.1 h with h | h
        · exact Or.inr (by rw [h])
        · exact Or.inl (by rw [← hxs]; exact List.mem_append_right _ h)
    · intro m hm; cases hm; exact ⟨hfree, hlt, by simp⟩
    · intro x hx hnx
      refine absurd ?_ hnx
      rw [← hxs] at hx
      rcases List.mem_append.1 hx with h | h
      · exact List.mem_append_left _ h
      · exact List.mem_append_right _ (List.mem_cons_of_mem _ h)
  | iremove k =>
    obtain ⟨ai, hai, hne⟩ := hpre
    obtain ⟨c, r, hpost⟩ := List.exists_cons_of_ne_nil hne
    obtain ⟨hit, hsl⟩ := hr.split hai
    have hxs := upto_append_after (hr.iters k ai hai).2
    rw [hpost] at hsl hxs
    obtain ⟨h', hrun, hl', hnx, hf⟩ := iteratorRemove_refines hsl
    simp only [step, hit, hrun, Librfn.Spec.ListSeq.step, hai, hpost]
    refine ⟨by first | trivial | rfl, rel_update hr ai.list h' _ _ none hl' hf ?_ ?_ ?_ ?_⟩
    · intro x hx
      refine Or.inl ?_
      rw [← hxs]
      rcases List.mem_cons.1 hx with h | h
      · rw [h]; simp
      · exact List.mem_append_left _ h
    · intro x hx
      refine Or.inl ?_
      rw [← hxs]
      rcases List.mem_append.1 hx with h | h
      · exact List.mem_append_left _ h
      · exact List.mem_append_right _ (List.mem_cons_of_mem _ h)
    · intro m hm; cases hm
    · intro x hx hnx'
      rw [← hxs] at hx
      rcases List.mem_append.1 hx with h | h
      · exact absurd (List.mem_append_left _ h) hnx'
      · rcases List.mem_cons.1 h with h | h
        · rw [h]; exact hnx
        · exact absurd (List.mem_append_right _ h) hnx'
  | cur k =>
    obtain ⟨ai, hai⟩ : ∃ ai, ss.iters k = some ai := by
      cases h : ss.iters k with
      | none => exact absurd h hpre
      | some ai => exact ⟨ai, rfl⟩
    obtain ⟨hit, hsl⟩ := hr.split hai
    simp only [step, hit, Librfn.Spec.ListSeq.step, hai, cur_refines hsl]
    exact ⟨by first | trivial | rfl, hr⟩
  | contains l n =>
    simp only [step, contains_refines n (hr.lists l) (hr.length_lt l hN), Librfn.Spec.ListSeq.step]
    exact ⟨by first | trivial | rfl, hr⟩
  | find k l n =>
    simp only [step, contains_refines n (hr.lists l) (hr.length_lt l hN), Librfn.Spec.ListSeq.step]
    refine ⟨by first | trivial | rfl, ?_⟩
    rw [linkAfter_eq_linkOf]
    exact rel_setIter hr k ⟨l, ((ss.lists l).takeWhile (· != n)).getLast?⟩
      (fun p hp => (List.takeWhile_sublist _).subset (List.mem_of_getLast? hp))
  | remove l n =>
    obtain ⟨h', hrun, hl', hnx, _, hf⟩ := remove_refines n (hr.lists l) (hr.length_lt l hN)
    simp only [step, hrun, Librfn.Spec.ListSeq.step]
    refine ⟨by first | trivial | rfl, rel_update hr l h' _ _ none hl' hf (fun x hx => Or.inl hx) ?_ ?_ ?_⟩
    · intro x hx; exact Or.inl (List.mem_of_mem_erase hx)
    · intro m hm; cases hm
    · intro x hx hnx'
      by_cases e : x = n
      · rw [e]; exact hnx (e ▸ hx)
      · exact absurd ((List.mem_erase_of_ne e).2 hx) hnx'
  | dump l =>
    simp only [step, traverse_refines (hr.lists l) (hr.length_lt l hN), Librfn.Spec.ListSeq.step]
    exact ⟨by first | trivial | rfl, hr⟩
  | link n =>
    simp only [step, Librfn.Spec.ListSeq.step, hr.free n hpre]
    exact ⟨by first | trivial | rfl, hr⟩

/-- **C09, all histories**: for every sequence of calls of any length, over any number of lists and
    iterators and a pool of `N` nodes, in which a node is never inserted while it is a member of a list
    (and iterators are used while valid), every return value of the model of `list.c` — extracted node,
    found / not found, node after a removal, iterator position, and every full traversal and every
    `next` of a free node observed anywhere in the history — is the one the abstract sequences give,
    and the simulation relation holds again at the end -/
theorem list_history_refines {N fuel : Nat} (hN : N < fuel) : ∀ (ops : List Op) (ms : MState) (ss : SState),
    Rel N ms ss → InScope N ss ops →
    (run fuel ms ops).2 = (Librfn.Spec.ListSeq.run ss ops).2 ∧
    Rel N (run fuel ms ops).1 (Librfn.Spec.ListSeq.run ss ops).1
  | [], _, _, hr, _ => ⟨rfl, hr⟩
  | op :: ops, ms, ss, hr, hs => by
    obtain ⟨ho, hr'⟩ := step_refines hN hr op hs.1
    obtain ⟨ho', hr''⟩ := list_history_refines hN ops _ _ hr' hs.2
    simp only [run, Librfn.Spec.ListSeq.run]
    exact ⟨by rw [ho, ho'], hr''⟩

/-- from zero-initialised lists and nodes -/
theorem list_history_refines_init {N fuel : Nat} (hN : N < fuel) (ops : List Op)
    (hs : InScope N Librfn.Spec.ListSeq.init ops) :
    (run fuel init ops).2 = (Librfn.Spec.ListSeq.run Librfn.Spec.ListSeq.init ops).2 :=
  (list_history_refines hN ops _ _ (rel_init N) hs).1

/-- what the relation means for an observer, at any point of any in-scope history: every list
    traverses to its abstract sequence, every node outside all lists has `next = NULL` (so it can be
    inserted anywhere at once), and inserting never dereferences a stale tail -/
theorem rel_observations {N fuel : Nat} (hN : N < fuel) {ms : MState} {ss : SState} (hr : Rel N ms ss) :
    (∀ l, traverse fuel ms.heap l = some (ss.lists l)) ∧
    (∀ n, Free ss n → ms.heap.next n = none) ∧
    (∀ l n, Free ss n → ∃ h', Librfn.Model.ListHeap.insert ms.heap l n = .ok h') :=
  ⟨fun l => traverse_refines (hr.lists l) (hr.length_lt l hN), hr.free,
   fun l n hf => by
     obtain ⟨h', hrun, _⟩ := insert_refines (hr.lists l) (hf l) (hr.free n hf)
     exact ⟨h', hrun⟩⟩

/-- comparing integer keys (what the harness and the scheduler's due-time comparison do) is a total preorder -/
theorem keyCmp_totalPreorder (key : Node → Int) : TotalPreorder (fun a b => key a - key b) :=
  ⟨fun a b => by omega, fun a b c => by omega⟩

/-! ### non-vacuity -/

/-- the state left by `list_iterator_remove` of the only node — `tail` = bogus "address of head" — is a
    well-formed empty list, and so is one whose tail still names a node that has left -/
example : IsList ⟨fun _ => none, fun _ => none, fun _ => .listAsNode 0⟩ 0 [] := ⟨rfl, by simp, by simp⟩
example : IsList ⟨fun _ => none, fun _ => none, fun _ => .node 5⟩ 0 [] := ⟨rfl, by simp, by simp⟩

/-- a three-node list next to two empty lists with stale tails -/
example :
    let h0 : Heap := ⟨fun i => if i = 1 then some 2 else if i = 2 then some 3 else none,
                      fun l => if l = 0 then some 1 else none,
                      fun l => if l = 0 then .node 3 else if l = 1 then .node 2 else .listAsNode l⟩
    IsList h0 0 [1, 2, 3] ∧ IsList h0 1 [] ∧ IsList h0 2 [] :=
  ⟨⟨⟨rfl, rfl, rfl, rfl⟩, by decide, by simp⟩, ⟨rfl, by simp, by simp⟩, ⟨rfl, by simp, by simp⟩⟩

/-- the scope of `list_history_refines` is inhabited by histories that empty a list through an
    iterator (bogus tail), push and insert into it again, and insert sorted into another list -/
example : InScope 8 Librfn.Spec.ListSeq.init
    [.insert 0 1, .iterate 0 0, .iremove 0, .push 0 2, .insert 0 1,
     .sorted 1 3 (fun a b => (a / 2 : Nat) - (b / 2 : Nat)), .dump 0] := by
  simp [InScope, Pre, Free, Librfn.Spec.ListSeq.step, Librfn.Spec.ListSeq.init, Librfn.Spec.ListSeq.setList,
    Librfn.Spec.ListSeq.setIter, Librfn.Spec.ListSeq.revalidate, Librfn.Spec.ListSeq.validIter,
    Librfn.Spec.ListSeq.after, Librfn.Spec.ListSeq.upto, Sorted]
  refine ⟨fun l => ?_, fun l => ?_, ⟨fun a b => by omega, fun a b c => by omega⟩⟩
  · by_cases e : l = 0 <;> simp [e]
  · by_cases e : l = 0 <;> simp [e]

/-- … and on it the model computes what a sequence would (stale-tail states included) -/
example : (run 9 init [.insert 0 1, .iterate 0 0, .iremove 0, .push 0 2, .insert 0 1, .extract 0,
      .remove 0 1, .insert 0 3, .sorted 0 2 (fun a b => (a / 2 : Nat) - (b / 2 : Nat)), .dump 0, .link 1]).2
    = [.unit, .node (some 1), .node none, .unit, .unit, .node (some 2), .bool true, .unit, .unit,
       .nodes [3, 2], .node none] := by decide

/-- the sorted-insert theorem's hypotheses hold for a list with equal keys, and the new node goes
    after its equals: keys 0,0,1,1,… for nodes 0,1,2,3,… -/
example : Sorted (fun a b => (a / 2 : Nat) - (b / 2 : Nat)) [1, 0, 2] ∧
    Librfn.Spec.ListSeq.insertSorted (fun a b => (a / 2 : Nat) - (b / 2 : Nat)) 3 [1, 0, 2] = [1, 0, 2, 3] ∧
    Librfn.Spec.ListSeq.insertSorted (fun a b => (a / 2 : Nat) - (b / 2 : Nat)) 0 [1, 2] = [1, 0, 2] := by
  refine ⟨by simp [Sorted], by decide, by decide⟩

end Librfn.C09

import Librfn.Model.Wav
import Librfn.Lemmas.Wav
/-!
# C14 — decoding untrusted WAV bytes is memory-safe and reports length faithfully

Model: `Librfn.Model.Wav.decode` on top of the pack model — every access to the input goes through the
bounds-checked unpackers, the attacker controls the skip `fmt_chunk_size - 18`, and the returned `int` is
`sz - rf_pack_remaining()` with both of its truncations (`wrap32`).  All theorems quantify over **every memory
`m`, every buffer position `b` and every declared length `sz < 2^31`** (hence over every byte string of every
length).  Kernel-only proofs.
-/
namespace Librfn.C14
open Librfn.Model.Pack Librfn.Model.Wav Librfn.Lemmas.Pack Librfn.Lemmas.Wav

/-- **decode_reads_only_input**: structure and return value are the same on any two memories that agree on the
    `sz` supplied bytes — nothing outside `[b, b+sz)` is read. -/
theorem decode_reads_only_input (m m' : Mem) (b sz : Nat) (h : Agree b sz m m') : decode m b sz = decode m' b sz :=
  decode_agree h

/-- as a statement about byte strings: the result is a function of the string alone (where it lies in memory and
    what surrounds it do not matter) -/
theorem decode_of_list (m : Mem) (b : Nat) (bs : List UInt8) (h : readBytes m b bs.length = bs) :
    decode m b bs.length = decode (memOfList b bs) b bs.length := by
  apply decode_agree
  intro i h1 h2
  have e1 := readBytes_getElem? m b bs.length (i - b) (by omega)
  have e2 := readBytes_getElem? (memOfList b bs) b bs.length (i - b) (by omega)
  rw [h] at e1
  rw [readBytes_memOfList] at e2
  have : b + (i - b) = i := by omega
  rw [this] at e1 e2
  exact Option.some.inj (e1.symm.trans e2)

/-! ### the length contract -/

theorem extLen_le (m : Mem) (s : Wh × Pk) (h : ¬ 0x7fffff00#32 < s.1.fmtChunkSize) : extLen m s ≤ 0x7fffff00 := by
  unfold extLen
  split
  · split
    · omega
    · bv_omega
  · omega

/-- with the range check of fix 2a238b3 the byte count of an uncut parse fits an `int` -/
theorem endCur_lt (m : Mem) (b sz : Nat) (h : ¬ 0x7fffff00#32 < (decHead m b sz).1.fmtChunkSize) :
    endCur m b sz < 2147483648 := by
  rw [endCur_eq]
  have := extLen_le m (decHead m b sz) h
  unfold tailLen; split <;> omega

/-- the return value: −EINVAL, or the number of bytes the parse asked for -/
theorem decode_ret (m : Mem) (b sz : Nat) :
    (decode m b sz).2 = -22 ∨ ((decode m b sz).2 = endCur m b sz ∧ (decode m b sz).1 = (decTail m (decExt m (decHead m b sz))).1) := by
  unfold decode
  simp only []
  split
  · left; rfl
  · rename_i h
    split
    · left; rfl
    · right
      refine ⟨?_, rfl⟩
      have hp := decPk_eq m b sz
      unfold decPk at hp
      rw [hp]
      exact ret_eq_cur ⟨b, sz, endCur m b sz⟩ (endCur_lt m b sz h)

/-- **decode_result_trichotomy**: for every input and every declared length, the result is negative, or larger than
    the declared length, or equal to the number `L` of bytes the header occupies (the final cursor of the parse,
    every read of which then lay inside the buffer), with `44 ≤ L ≤ sz`. -/
theorem decode_result_trichotomy (m : Mem) (b sz : Nat) :
    (decode m b sz).2 < 0 ∨ (decode m b sz).2 > sz ∨
    ((decode m b sz).2 = endCur m b sz ∧ 44 ≤ endCur m b sz ∧ endCur m b sz ≤ sz) := by
  rcases decode_ret m b sz with h | ⟨h, _⟩
  · left; omega
  · have := endCur_ge m b sz
    by_cases hle : endCur m b sz ≤ sz
    · right; right; exact ⟨h, this, hle⟩
    · right; left; omega

/-- never a short success: a non-negative result is at least `RF_WAVHEADER_MIN_SIZE` -/
theorem never_short_success (m : Mem) (b sz : Nat) (h : 0 ≤ (decode m b sz).2) : 44 ≤ (decode m b sz).2 := by
  have := endCur_ge m b sz
  rcases decode_ret m b sz with h1 | ⟨h1, _⟩ <;> omega

/-- the whole result does not depend on the declared length once the parse ends inside it -/
theorem decode_sz (m : Mem) (b sz k : Nat) (h1 : endCur m b sz ≤ sz) (h2 : endCur m b sz ≤ k) :
    decode m b k = decode m b sz := by
  obtain ⟨e1, e2⟩ := stages_sz m b sz k h1 h2
  have hp := decPk_eq m b sz
  unfold decPk at hp
  have e3 : decTail m (decExt m (decHead m b sz)) = ((decTail m (decExt m (decHead m b sz))).1, ⟨b, sz, endCur m b sz⟩) := by
    rw [Prod.ext_iff]; exact ⟨rfl, hp⟩
  unfold decode
  simp only []
  rw [e2]
  have hf : (decHead m b k).1.fmtChunkSize = (decHead m b sz).1.fmtChunkSize := by rw [e1]
  rw [hf]
  have hw : (decHead m b k).1 = (decHead m b sz).1 := by rw [e1]
  rw [hw]
  split
  · rfl
  · rename_i hr
    rw [e3]
    simp only []
    have hlt := endCur_lt m b sz hr
    rw [ret_eq_cur ⟨b, k, endCur m b sz⟩ hlt, ret_eq_cur ⟨b, sz, endCur m b sz⟩ hlt]

theorem endCur_sz (m : Mem) (b sz k : Nat) (h1 : endCur m b sz ≤ sz) (h2 : endCur m b sz ≤ k) :
    endCur m b k = endCur m b sz := by
  obtain ⟨_, e2⟩ := stages_sz m b sz k h1 h2
  unfold endCur decPk
  rw [e2]
  rfl

/-- **truncation_never_succeeds**: if the header is accepted with length `L` under the declared length `sz`, then
    under every shorter declared length `k < L` (the same bytes, truncated) the result is negative or larger
    than `k`. -/
theorem truncation_never_succeeds (m : Mem) (b sz k : Nat)
    (hacc : 0 ≤ (decode m b sz).2 ∧ (decode m b sz).2 ≤ sz) (hk : (k : Int) < (decode m b sz).2) :
    (decode m b k).2 < 0 ∨ (decode m b k).2 > k := by
  rcases decode_result_trichotomy m b k with h | h | ⟨h, _, hle⟩
  · exact Or.inl h
  · exact Or.inr h
  · -- the truncated parse ended inside its k bytes: it read the same bytes as the full parse, so the full parse
    -- ends at the same cursor ≤ k — but it ended at L > k
    exfalso
    have hks : k ≤ sz := by omega
    have e := endCur_sz m b k sz hle (by omega)
    rcases decode_result_trichotomy m b sz with h2 | h2 | ⟨h2, _, _⟩ <;> omega

/-- the same for byte strings: every proper prefix of an accepted header's bytes is rejected or reported
    incomplete -/
theorem truncation_never_succeeds_list (b : Nat) (bs : List UInt8) (k : Nat)
    (hacc : 0 ≤ (decode (memOfList b bs) b bs.length).2 ∧ (decode (memOfList b bs) b bs.length).2 ≤ bs.length)
    (hk : (k : Int) < (decode (memOfList b bs) b bs.length).2) :
    (decode (memOfList b (bs.take k)) b k).2 < 0 ∨ (decode (memOfList b (bs.take k)) b k).2 > k := by
  have hkl : k ≤ bs.length := by omega
  have : decode (memOfList b (bs.take k)) b k = decode (memOfList b bs) b k := by
    apply decode_agree
    intro i h1 h2
    simp only [memOfList, h1, if_true]
    rw [List.getD_eq_getElem?_getD, List.getD_eq_getElem?_getD, List.getElem?_take]
    have : i - b < k := by omega
    simp [this]
  rw [this]
  exact truncation_never_succeeds (memOfList b bs) b bs.length k hacc hk

/-- **accepted_length_is_exact**: `L` really is the extent of the header — any buffer that starts with the same
    `L` bytes, declared with any length `sz' ≥ L`, decodes to the same structure and the same `L`. -/
theorem accepted_length_is_exact (m m' : Mem) (b sz sz' : Nat)
    (hacc : 0 ≤ (decode m b sz).2 ∧ (decode m b sz).2 ≤ sz)
    (hag : Agree b (endCur m b sz) m m') (hsz' : endCur m b sz ≤ sz') :
    (decode m b sz).2 = endCur m b sz ∧ decode m' b sz' = decode m b sz := by
  have hE : (decode m b sz).2 = endCur m b sz ∧ endCur m b sz ≤ sz := by
    rcases decode_result_trichotomy m b sz with h | h | ⟨h, _, h3⟩
    · omega
    · omega
    · exact ⟨h, h3⟩
  refine ⟨hE.1, ?_⟩
  have hL := endCur_sz m b sz (endCur m b sz) hE.2 (Nat.le_refl _)
  have s1 : decode m b (endCur m b sz) = decode m b sz := decode_sz m b sz _ hE.2 (Nat.le_refl _)
  have s2 : decode m' b (endCur m b sz) = decode m b (endCur m b sz) := (decode_agree hag).symm
  have hE' : endCur m' b (endCur m b sz) = endCur m b sz := by
    have : decPk m' b (endCur m b sz) = decPk m b (endCur m b sz) := by
      unfold decPk
      have e1 := decHead_agree hag
      have e2 : decExt m (decHead m b (endCur m b sz)) = decExt m' (decHead m' b (endCur m b sz)) := by
        rw [e1, pair_eta (decHead m' b (endCur m b sz))]; exact decExt_agree hag _ _
      rw [← e2, pair_eta (decExt m (decHead m b (endCur m b sz)))]
      have hb : (decExt m (decHead m b (endCur m b sz))).2.base = b := by rw [decExt_pk]; rfl
      have hs : (decExt m (decHead m b (endCur m b sz))).2.size = endCur m b sz := by rw [decExt_pk]; rfl
      rw [hb, hs, ← decTail_agree hag]
    show (decPk m' b (endCur m b sz)).cur = endCur m b sz
    rw [this]; exact hL
  have s3 : decode m' b sz' = decode m' b (endCur m b sz) :=
    decode_sz m' b (endCur m b sz) sz' (by omega) (by omega)
  rw [s3, s2, s1]

/-! ### helpers -/

/-- `rf_wavheader_validate` is total and returns 0 or −EINVAL, for every structure -/
theorem validate_total (wh : Wh) : validate wh = 0 ∨ validate wh = -22 := by
  unfold validate EINVAL
  repeat' split
  all_goals simp

/-- `rf_wavheader_get_format` is total and returns one of the four enumerators, for every structure -/
theorem getFormat_total (wh : Wh) : getFormat wh = -1 ∨ getFormat wh = 0 ∨ getFormat wh = 1 ∨ getFormat wh = 2 := by
  unfold getFormat
  repeat' split
  all_goals simp

/-- **helpers_total** (`tostring`): the division is never reached with a zero divisor — for every structure,
    including those with `block_align = 0` (the statement defect D6 falsified) -/
theorem tostring_total (wh : Wh) : (tostringArgs wh).isSome = true := by
  unfold tostringArgs udivChecked
  by_cases h : wh.blockAlign = 0#16
  · simp [h]
  · have : wh.blockAlign.setWidth 32 ≠ 0#32 := by
      intro e; apply h; bv_omega
    simp [h, this]

/-- whatever structure decoding leaves behind, the three helpers return normally -/
theorem helpers_total (m : Mem) (b sz : Nat) :
    (validate (decode m b sz).1 = 0 ∨ validate (decode m b sz).1 = -22) ∧
    (getFormat (decode m b sz).1 = -1 ∨ getFormat (decode m b sz).1 = 0 ∨ getFormat (decode m b sz).1 = 1 ∨
      getFormat (decode m b sz).1 = 2) ∧
    (tostringArgs (decode m b sz).1).isSome = true :=
  ⟨validate_total _, getFormat_total _, tostring_total _⟩

/-! ### non-vacuity, and the two defects these statements excluded (regression witnesses, kernel `decide`) -/

/-- a 44-byte PCM header (S16LE, 2 channels, 44100 Hz, 100 frames) -/
def pcm44 : List UInt8 :=
  [0x52,0x49,0x46,0x46, 0xb4,0x01,0,0, 0x57,0x41,0x56,0x45, 0x66,0x6d,0x74,0x20, 16,0,0,0, 1,0, 2,0, 0x44,0xac,0,0,
   0x10,0xb1,0x02,0, 4,0, 16,0, 0x64,0x61,0x74,0x61, 0x90,0x01,0,0]

/-- the hypotheses of `truncation_never_succeeds` / `accepted_length_is_exact` are satisfiable: this header is
    accepted with length 44, also when followed by other bytes -/
example : (decode (memOfList 7 pcm44) 7 44).2 = 44 := by decide
example : (decode (memOfList 7 (pcm44 ++ [1, 2, 3])) 7 47).2 = 44 := by decide
example : (decode (memOfList 7 pcm44) 7 43).2 = 44 ∧ (44 : Int) > 43 := by decide
example : (decode (memOfList 7 pcm44) 7 10).2 = -22 := by decide

/-- D5's input: chunk_size = fmt_chunk_size = 0xffffffff, cb_size = 1, 64 bytes -/
def hostile : List UInt8 :=
  [0x52,0x49,0x46,0x46, 0xff,0xff,0xff,0xff, 0x57,0x41,0x56,0x45, 0x66,0x6d,0x74,0x20, 0xff,0xff,0xff,0xff, 3,0, 2,0,
   0x44,0xac,0,0, 0x20,0x62,0x05,0, 8,0, 32,0, 1,0] ++ List.replicate 26 0

/-- the decoder as it was *before* fix 2a238b3 (defect D5): no range check on `fmt_chunk_size` -/
def decodeOldD5 (m : Mem) (b sz : Nat) : Wh × Int :=
  let t := decTail m (decExt m (decHead m b sz))
  if headerBad t.1 then (t.1, -EINVAL) else (t.1, wrap32 ((sz : Int) - remaining t.2))

/-- D5 re-derived on the model: the old decoder *succeeds* with length 27 < 44 on the hostile input … -/
theorem d5_old_decode_short_success : (decodeOldD5 (memOfList 0 hostile) 0 64).2 = 27 := by decide
/-- … the current one rejects it -/
theorem d5_fixed : (decode (memOfList 0 hostile) 0 64).2 = -22 := by decide

/-- `rf_wavheader_tostring` as it was *before* fix 6d649a3 (defect D6): unguarded division -/
def tostringArgsOldD6 (wh : Wh) : Option (Int × String × Int × Int) :=
  match udivChecked wh.dataChunkSize (wh.blockAlign.setWidth 32) with
  | none => none
  | some s => some (s.toInt, formatName (getFormat wh), wh.numChannels.toNat, wh.sampleRate.toInt)

/-- D6 re-derived on the model: the old helper traps on a header initialised with 0 channels -/
theorem d6_old_tostring_traps : tostringArgsOldD6 (init Wh.zero 44100#32 0#32 0) = none := by decide

end Librfn.C14

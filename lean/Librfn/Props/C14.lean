import Librfn.Model.Wav
namespace Librfn.C14
open Librfn.Model.Pack Librfn.Model.Wav

theorem tostring_total (wh : Wh) : (tostringArgs wh).isSome = true := by
  unfold tostringArgs udivChecked
  by_cases h : wh.blockAlign = 0#16
  · simp [h]
  · have : wh.blockAlign.setWidth 32 ≠ 0#32 := by
      intro e; apply h; bv_omega
    simp [h, this]

end Librfn.C14

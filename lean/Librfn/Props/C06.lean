import Librfn.Lemmas.IsrFifo
/-!
# C06 — interrupt-context wake-ups and fibre events are never lost or duplicated
(and C03's interrupt clause `wakeup_with_isr`)

Model: `Librfn.Model.FibreIsr` — `fibre.c` with every main-context call split at its atomic operations; the atomic run
queue and the handler's event queue are instances of C04's interleaving model (`Model/MessageqConc.lean`), so C04's
`mq_inv` is inherited for both (`Isr.L.Inv1`).  Tied to the unmodified C on every check run (`props/C06.py`,
`harness/h_isr.c`: scripted interrupt calls executed in place at every atomic point).

`Isr.L.Reach` = every state reachable by **any interleaving** of the steps of the main context and of three senders
(an interrupt handler, a handler nested inside it, a sender on another thread): no bound on the number of steps, on the
history, on the number or placement of interrupts.  `Isr.L.ReachIsr` ⊆ `Reach` = the states reachable when the main
context is only ever *interrupted* (handlers run to completion, nested arbitrarily often one inside the other).
Every theorem below is an invariant proved by induction over these steps; `history_*` transfer them to the executable
runner (calls with interrupt scripts at numbered gaps, nested to depth 2, thread senders, the quiescent run) by
induction over main-context steps and interrupt scripts (`Isr.L.reach_runHistory`).  Kernel-only (no `bv_decide`).

Specification: `Librfn.Spec.IsrSpec` (written from the property text): `owed` = fibres with an accepted
`fibre_run_atomic` request not since followed by a dispatch or a kill — fed by the model at exactly the instants the
harness observes.
-/
namespace Librfn.C06
open Librfn.Model.MessageqConc Librfn.Model.FibreIsr Librfn.C04 Librfn.Isr.L
open Librfn.Sched (Fid Ret)
open Librfn.Spec.IsrSpec

/-! ## accepted_never_lost -/

/-- **accepted_never_lost**: in every reachable state, each fibre with a request for which `fibre_run_atomic` returned
    true (took effect) and which has not since been dispatched or killed is
    * the payload of a committed, not yet received entry of `kernel.atomic_runq`, or
    * on the run queue, or
    * the payload of the entry the drain loop holds between its `messageq_receive` and its `make_runnable`
      (the next plain step of the main context puts it on the run queue: `held_entry_joins_runq`). -/
theorem accepted_never_lost {s : S} (hr : Reach s) (f : Fid) (hf : f ∈ s.a.owedFids) :
    (∃ k, s.aq.received ≤ k ∧ k < s.aq.claimed ∧ s.aq.sent k = true ∧ s.aq.written k = f)
    ∨ f ∈ s.k.runq
    ∨ (∃ c sl k, s.mpc = .recvd c ∧ s.aq.recv = .hold sl k ∧ s.aq.written k = f) :=
  reach_inv3 hr f hf

/-- the held entry's fibre is on the run queue after the main context's next step -/
theorem held_entry_joins_runq {s : S} (hr : Reach s) (c : Cont) (sl : BitVec 8) (k : Nat)
    (hpc : s.mpc = .recvd c) (hh : s.aq.recv = .hold sl k) : s.aq.written k ∈ (mainPlain s).k.runq := by
  have h1 := reach_inv1 hr
  have : mainPlain s = { s with aq := mqStep s.aq (.recv false), k := Librfn.Model.Fibre.makeRunnable s.k (s.aq.payload sl.toNat), mpc := .rel c } := by
    simp only [mainPlain, hpc, hh]
  rw [this]
  show _ ∈ (Librfn.Model.Fibre.makeRunnable s.k _).runq
  rw [hold_payload h1.aqInv hh]
  exact (mem_runq_makeRunnable _ _).mpr (Or.inr rfl)

/-- what "owed" means: a request is recorded when its `messageq_send` publishes it, and discharged by the dispatch of
    its fibre or by `fibre_kill` (the monitor's transitions, verbatim) -/
theorem owed_semantics (a : A) (f g : Fid) :
    (g ∈ (a.step (.accepted f)).owedFids ↔ g ∈ a.owedFids ∨ g = f)
    ∧ (g ∈ (a.step (.dispatched f)).owedFids ↔ g ∈ a.owedFids ∧ g ≠ f)
    ∧ (g ∈ (a.step (.killed f)).owedFids ↔ g ∈ a.owedFids ∧ g ≠ f) :=
  ⟨mem_owed_accepted a f g, mem_owed_dispatched a f g, mem_owed_killed a f g⟩

/-- **history level**: after any history of main-context calls with interrupt scripts (any placement, nested, thread
    senders, quiescent runs) every fibre still owed a dispatch is pending -/
theorem history_accepted_never_lost (d : Nat) (kinds : List Kind) (budgets : List Nat) (h1 : 1 ≤ d) (h32 : d ≤ 32)
    (h : List Item) (f : Fid) (hf : f ∈ (runHistory (initWith d kinds budgets) h).a.owedFids) :
    Pending (runHistory (initWith d kinds budgets) h) f :=
  reach_inv3 (reach_runHistory d kinds budgets h1 h32 h) f hf

/-! ## queues_not_corrupted -/

/-- **queues_not_corrupted**: at every reachable state — in particular at every gap at which an interrupt can fire,
    and after it has fired — the run queue and the timer queue are duplicate free and disjoint (what `list.c` needs to
    behave as sequences, C09), and on the single-yielder fast path both are empty.  (That the timer queue is *sorted*
    needs C02's time-window scope; interrupts never touch the timer queue or a due time: `senders_leave_scheduler_alone`.) -/
theorem queues_not_corrupted {s : S} (hr : Reach s) :
    s.k.runq.Nodup ∧ s.k.timerq.Nodup ∧ (∀ f ∈ s.k.runq, f ∉ s.k.timerq)
    ∧ (FastPc s.mpc → s.k.runq = [] ∧ s.k.timerq = []) :=
  ⟨(reach_inv2 hr).q.rn, (reach_inv2 hr).q.tn, (reach_inv2 hr).q.dj, (reach_inv2 hr).fast⟩

/-- interrupt contexts touch only message-queue state: the scheduler's lists, `kernel.current`, `kernel.state`, the
    clock, and the main context's control location are unchanged by every step of every sender -/
theorem senders_leave_scheduler_alone (i : Nat) (s : S) :
    (senderAtomic i s).k = s.k ∧ (senderPlain i s).k = s.k
    ∧ (senderAtomic i s).mpc = s.mpc ∧ (senderPlain i s).mpc = s.mpc :=
  ⟨senderAtomic_k i s, senderPlain_k i s, senderAtomic_mpc i s, senderPlain_mpc i s⟩

/-- C04's invariant holds for `kernel.atomic_runq` and for the event queue in every reachable state, and every
    context's control location agrees with its program counter inside the queues -/
theorem queues_satisfy_mq_inv {s : S} (hr : Reach s) : mq_inv s.aq ∧ mq_inv s.eq :=
  ⟨(reach_inv1 hr).aqInv, (reach_inv1 hr).eqInv⟩

/-- the shifts `1 << mq->receivep` of `messageq_empty` / `messageq_receive` (which the model does not guard) are
    defined in every reachable state: `receivep < 32` for both queues -/
theorem shifts_defined {s : S} (hr : Reach s) : s.aq.receivep.toNat < 32 ∧ s.eq.receivep.toNat < 32 :=
  ⟨recv_lt s.aq (reach_inv1 hr).aqInv, recv_lt s.eq (reach_inv1 hr).eqInv⟩

/-! ## drained_by_pass -/

/-- **drained_by_pass** (what was moved): when the drain loop of a pass / `fibre_run` / `fibre_kill` receives NULL,
    every entry the call has received — all entries from the first one unreceived when the call was entered up to the
    last receive — has had its fibre put on the run queue -/
theorem drained_by_pass {s : S} (hr : Reach s) (c : Cont) (hpc : s.mpc = .recvd c) (hnull : s.aq.recv = .idle) :
    ∀ k, s.drainFrom ≤ k → k < s.aq.received → s.aq.written k ∈ s.k.runq := by
  have h := (reach_inv6 hr).drain (by rw [hpc]; trivial)
  rw [processed_idle hnull] at h
  exact h.2

/-- **drained_by_pass** (nothing is left): when interrupt handlers run to completion, a receive that returns NULL has
    left no entry in the queue — every request accepted before that last receive has been received -/
theorem drain_leaves_nothing {s : S} (hr : ReachIsr s) (hh : s.hung = false) (c : Cont) (hpc : s.mpc = .recv c)
    (hnull : (mainAtomic s).aq.recv = .idle) : s.aq.received = s.aq.claimed := by
  have hR := reachIsr_reach hr
  have h1 := reach_inv1 hR
  have hidle : s.aq.recv = .idle := by have := h1.mainAq; rw [hpc] at this; exact this
  have hstep : (mainAtomic s).aq = step s.aq (.recv false) := by simp only [mainAtomic, hpc]
  exact drain_complete h1 (reach_owned hR).1 (quiet_of_reachIsr hr hh) hidle (hstep ▸ hnull)

/-- the same for any interleaving, under the explicit hypothesis that no sender is inside a call at that instant
    (a sender on another thread that has claimed but not yet sent defers the entries behind it: DESIGN §6) -/
theorem drain_leaves_nothing_quiet {s : S} (hr : Reach s) (hq : Quiet s) (c : Cont) (hpc : s.mpc = .recv c)
    (hnull : (mainAtomic s).aq.recv = .idle) : s.aq.received = s.aq.claimed := by
  have h1 := reach_inv1 hr
  have hidle : s.aq.recv = .idle := by have := h1.mainAq; rw [hpc] at this; exact this
  have hstep : (mainAtomic s).aq = step s.aq (.recv false) := by simp only [mainAtomic, hpc]
  exact drain_complete h1 (reach_owned hr).1 hq hidle (hstep ▸ hnull)

/-- the slow-path test includes the atomic queue: with an accepted request committed (and handlers run to completion)
    the fast-path check reads "not empty", so a lone yielding fibre cannot starve it -/
theorem fast_path_not_taken {s : S} (hr : ReachIsr s) (hh : s.hung = false) (hpc : s.mpc = .fast) (f : Fid)
    (hf : f ∈ s.a.owedFids) : (mainAtomic s).mpc = .fastDone false := by
  have hR := reachIsr_reach hr
  have h1 := reach_inv1 hR
  have hfast := (reach_inv2 hR).fast (by rw [hpc]; trivial)
  have hp := reach_inv3 hR f hf
  have hin : InAq s.aq f := by
    rcases hp with h | h | ⟨c, _, _, hc, _, _⟩
    · exact h
    · rw [hfast.1] at h; cases h
    · rw [hpc] at hc; cases hc
  have he := not_empty_of_inAq h1 (reach_owned hR).1 (quiet_of_reachIsr hr hh) hin
  simp only [mainAtomic, hpc, tok_mpc, emit_mpc, he]

/-- **dispatch_within_runq_passes** — FIFO dispatch, the liveness clause: a fibre at position `i` of the run queue is
    dispatched by one of the next `i + 1` passes of `fibre_scheduler_next` *without any further stimulus* (no interrupt, no
    other call; the passes may be at any times).  `passes ts s` runs one uninterrupted pass per element of `ts`.
    Holds from every reachable state; the hypotheses are that the fibres dispatched meanwhile make no scheduler calls of
    their own (`bscript = []`: a scripted body's `fibre_kill(f)` would of course remove `f`) and that the executable runner was
    not cut for lack of fuel (`hung = false`, an explicit decidable output — every fibre body of the model returns). -/
theorem dispatch_within_runq_passes {s : S} (hr : Reach s) (f : Fid) (i : Nat) (hf : s.k.runq[i]? = some f)
    (hbs : s.bscript = []) (ts : List (BitVec 32)) (hlen : ts.length = i + 1) (hh : (passes ts s).hung = false) :
    Tok.disp f ∈ (passes ts s).trace :=
  fifo_dispatch i s f ts hr hf hbs hlen hh

/-- one uninterrupted pass dispatches the head of the run queue; the rest of the queue moves up by one and new entries
    join at the tail (the step of the induction above) -/
theorem pass_dispatches_the_head {s : S} (hr : Reach s) (c : Fid) (r : List Fid) (hrq : s.k.runq = c :: r)
    (hbs : s.bscript = []) (t : BitVec 32) (hh : (callMain noGap (.next t) s).hung = false) :
    Tok.disp c ∈ (callMain noGap (.next t) s).trace ∧ ∃ l, (callMain noGap (.next t) s).k.runq = r ++ l := by
  rcases pass_dispatches_head hr c r hrq hbs t with e | ⟨_, _, hd, _, hl, _⟩
  · rw [hh] at e; cases e
  · exact ⟨hd, hl⟩

/-- the instant a request joins the run queue (`make_runnable` of a fibre not yet queued) its position is the length of
    the queue: so an accepted request that is not killed is dispatched within `|runq at that instant| + 1` further passes -/
theorem joins_at_the_tail (k : Librfn.Model.Fibre.K) (g : Fid) (hg : g ∉ k.runq) :
    (Librfn.Model.Fibre.makeRunnable k g).runq[k.runq.length]? = some g := by
  unfold Librfn.Model.Fibre.makeRunnable
  rw [if_neg hg]
  simp

/-! ## events_exactly_once_in_order -/

/-- **events_exactly_once_in_order**: in every reachable state the stamps the handler has read are exactly the recorded
    payloads of tickets `0, 1, …, n-1` of its event queue, in this order (C04: tickets are numbered in claim order, and
    ticket `k`'s payload is what its claimer stored before sending) — each event once, none skipped, none out of order,
    intact; and each of them had been sent (by a `messageq_send` that took effect) before it was received -/
theorem events_exactly_once_in_order {s : S} (hr : Reach s) :
    s.evlog = (List.range (processed s.eq)).map s.eq.written
    ∧ (∀ k, k < processed s.eq → s.eq.sent k = true ∧ k < s.eq.claimed)
    ∧ processed s.eq ≤ s.eq.received ∧ s.eq.received ≤ processed s.eq + 1 := by
  have h1 := reach_inv1 hr
  refine ⟨reach_inv4 hr, fun k hk => ?_, processed_le _, ?_⟩
  · have hk' := Nat.lt_of_lt_of_le hk (processed_le s.eq)
    exact ⟨h1.eqInv.recvdSent k hk', Nat.lt_of_lt_of_le hk' h1.eqInv.order2⟩
  · unfold processed; split <;> omega

/-- the recorded payload of a ticket is the stamp its sender passed, from the instant of its `messageq_send` on
    (`written` of a sent ticket never changes: `Isr.L.written_sent_stable`) -/
theorem event_carries_its_senders_stamp {s : S} (hr : Reach s) (i : Nat) (hi : i < 3) (st : Nat)
    (hpc : s.ipc i = .evSend st) :
    ∃ sl k, s.eq.senders[i]? = some (.wrote sl k) ∧ s.eq.written k = st := by
  have := (reach_inv1 hr).senders i hi
  rw [hpc] at this
  exact this.1

/-! ## no_lost_event_wakeup -/

/-- **no_lost_event_wakeup** — the lost-wake-up argument as an inductive invariant.  In every reachable state in which
    no `fibre_eventq_send` has returned false and the handler has not been killed: if the oldest unreceived event is
    committed then
    * some sender is still between that `messageq_send` and the return of the `fibre_run_atomic` that follows it
      (the message is published BEFORE the wake-up is posted), or
    * the handler fibre is pending — committed entry of the atomic queue / run queue / held by the drain loop —, or
    * the handler is running and has not yet seen its queue empty (it will receive again before it waits). -/
theorem no_lost_event_wakeup {s : S} (hr : Reach s) (hwf : s.evWakeFailed = false) (hk : s.handlerKilled = false)
    (hhead : s.eq.received < s.eq.claimed ∧ s.eq.sent s.eq.received = true) :
    (∃ i, i < 3 ∧ WakeInFlight (s.ipc i)) ∨ Pending s HANDLER ∨ HRunning s :=
  reach_inv5 hr hwf hk hhead

/-- when handlers run to completion, at every step of the main context: an unreceived committed event ⇒ the handler is
    pending or running before its final emptiness check -/
theorem no_lost_event_wakeup_isr {s : S} (hr : ReachIsr s) (hh : s.hung = false) (hwf : s.evWakeFailed = false)
    (hk : s.handlerKilled = false) (k : Nat) (hk1 : s.eq.received ≤ k) (hk2 : k < s.eq.claimed) :
    Pending s HANDLER ∨ HRunning s := by
  have hR := reachIsr_reach hr
  have h1 := reach_inv1 hR
  have hq := quiet_of_reachIsr hr hh
  -- no sender inside a call: every claimed event has been sent, in particular the oldest unreceived one
  have hsent : s.eq.sent s.eq.received = true := by
    cases hs : s.eq.sent s.eq.received with
    | true => rfl
    | false =>
      obtain ⟨i, sl, hhold⟩ := (reach_owned hR).2 s.eq.received (by omega) hs
      have hi : i < 3 := by
        have : i < s.eq.senders.length := by rcases hhold with e | e <;> exact lt_of_some e
        rw [h1.eqLen] at this; exact this
      have hsi := h1.senders i hi
      rw [hq i hi] at hsi
      have : s.eq.senders[i]? = some .idle := hsi.1
      rw [this] at hhold
      rcases hhold with e | e <;> cases e
  rcases reach_inv5 hR hwf hk ⟨by omega, hsent⟩ with ⟨i, hi, hfl⟩ | h | h
  · rw [hq i hi] at hfl; exact False.elim hfl
  · exact Or.inl h
  · exact Or.inr h

/-! ## wakeup_with_isr (C03's interrupt clause) -/

/-- **wakeup_with_isr**: at the scheduler's final check (`messageq_empty` in `get_next_wakeup`), if a request that
    completed before it is still outstanding — accepted, not yet dispatched or killed — then the value
    `get_next_wakeup` computes is `kernel.now` = the `t` passed to `fibre_scheduler_next`.  Handlers run to completion
    (`ReachIsr`): interrupts may have fired at any gap of the pass, nested; requests arriving after this instant are the
    race the header documents. -/
theorem wakeup_with_isr {s : S} (hr : ReachIsr s) (hh : s.hung = false) (hpc : s.mpc = .wake) (f : Fid)
    (hf : f ∈ s.a.owedFids) :
    (mainAtomic s).mpc = .woke (mqEmpty s.aq) ∧ (mainAtomic s).k = s.k ∧ wakeValue s.k (mqEmpty s.aq) = s.k.now := by
  have hR := reachIsr_reach hr
  have h1 := reach_inv1 hR
  refine ⟨by simp only [mainAtomic, hpc, tok_mpc, emit_mpc], by simp only [mainAtomic, hpc, tok_k, emit_k], ?_⟩
  rcases reach_inv3 hR f hf with h | h | ⟨c, _, _, hc, _, _⟩
  · rw [not_empty_of_inAq h1 (reach_owned hR).1 (quiet_of_reachIsr hr hh) h]
    simp [wakeValue]
  · have : s.k.runq ≠ [] := fun e => by rw [e] at h; cases h
    simp [wakeValue, this]
  · rw [hpc] at hc; cases hc

/-- … and that value is what `fibre_scheduler_next` returns: the plain code after the check (during which further
    interrupts may fire: they change neither `kernel` nor the latched result) returns `wakeValue` -/
theorem wake_value_is_returned (s : S) (e : Bool) (hpc : s.mpc = .woke e) :
    (mainPlain s).lastWake = wakeValue s.k e ∧ (mainPlain s).mpc = .idle := by
  simp only [mainPlain, hpc]
  exact ⟨rfl, rfl⟩

/-- the fibre that just yielded: `fibre_scheduler_next` returns `kernel.now` without consulting any queue -/
theorem yield_returns_now (s : S) : (returned s .yielded).lastWake = s.k.now ∧ (returned s .yielded).mpc = .idle := by
  simp only [returned]
  exact ⟨rfl, rfl⟩

/-- for any interleaving (thread senders), under the explicit hypothesis that no sender is inside a call at the check -/
theorem wakeup_with_isr_quiet {s : S} (hr : Reach s) (hq : Quiet s) (hpc : s.mpc = .wake) (f : Fid)
    (hf : f ∈ s.a.owedFids) : wakeValue s.k (mqEmpty s.aq) = s.k.now := by
  have h1 := reach_inv1 hr
  rcases reach_inv3 hr f hf with h | h | ⟨c, _, _, hc, _, _⟩
  · rw [not_empty_of_inAq h1 (reach_owned hr).1 hq h]
    simp [wakeValue]
  · have : s.k.runq ≠ [] := fun e => by rw [e] at h; cases h
    simp [wakeValue, this]
  · rw [hpc] at hc; cases hc


/-! ## non-vacuity: concrete reachable states meeting the hypotheses of the theorems above -/

/-- a handler, two waiters and a yielder; event queue of depth 2 -/
def demoCfg : S := initWith 2 [.waiter, .waiter, .yielder] [0, 0, 2]

/-- a request between calls, then a pass interrupted after its third atomic operation by a handler that sends an event
    and is itself interrupted (before its second atomic operation) by a nested `fibre_run_atomic` -/
def demo : List Item :=
  [ .isr { call := .runAtomic 1 },
    .main { call := .next 10, script := [((2, true), { call := .eventSend 7, nested := [((1, false), .runAtomic 2)] })] },
    .main { call := .next 11 } ]

-- accepted_never_lost / history_accepted_never_lost: the handler is owed a dispatch after `demo` …
example : (runHistory demoCfg demo).a.owedFids = [0] ∧ (runHistory demoCfg demo).hung = false := by decide +kernel
-- … and the quiescent run dispatches it: nothing is owed, the event was processed exactly once
example : (runHistory demoCfg (demo ++ [.quiesce])).a.owedFids = [] ∧ (runHistory demoCfg (demo ++ [.quiesce])).evlog = [7]
    ∧ (runHistory demoCfg (demo ++ [.quiesce])).a.verdict = .ok := by decide +kernel
-- queues_not_corrupted on a state with both queues populated (a sleeper on the timer queue, a waiter on the run queue)
example : (runHistory (initWith 2 [.sleeper 5, .waiter] [0, 0]) [.main { call := .run 1 }, .main { call := .run 2 }, .main { call := .next 10 }]).k.timerq = [1]
    ∧ (runHistory (initWith 2 [.sleeper 5, .waiter] [0, 0]) [.main { call := .run 1 }, .main { call := .run 2 }, .main { call := .next 10 }]).k.runq = [2] := by
  decide +kernel

/-- `fibre_run(3)` entered with one request pending, up to (not including) its second `messageq_receive` -/
def beforeNull : S :=
  mainPlain (mainAtomic (mainPlain (mainAtomic (mainPlain (enterMain (.run 3) (runIsr demoCfg { call := .runAtomic 1 }))))))

theorem beforeNull_reach : ReachIsr beforeNull :=
  ReachIsr.mainPlain (ReachIsr.mainAtomic (ReachIsr.mainPlain (ReachIsr.mainAtomic (ReachIsr.mainPlain
    (ReachIsr.enterMain _ (ReachIsr.isr _ (ReachIsr.init 2 _ _ (by decide) (by decide))) (by decide +kernel))))))

-- drain_leaves_nothing: its hypotheses hold of `beforeNull` …
example : beforeNull.mpc = .recv (.run 3) ∧ beforeNull.hung = false ∧ (mainAtomic beforeNull).aq.recv = .idle := by decide +kernel
-- … and drained_by_pass of the state after that receive: one entry (ticket 0, fibre 1) was moved to the run queue
example : (mainAtomic beforeNull).mpc = .recvd (.run 3) ∧ (mainAtomic beforeNull).aq.recv = .idle
    ∧ (mainAtomic beforeNull).drainFrom = 0 ∧ (mainAtomic beforeNull).aq.received = 1
    ∧ (mainAtomic beforeNull).k.runq = [1] := by decide +kernel

/-- a pass entered with a request pending: about to evaluate the fast-path condition's `messageq_empty` -/
def atFast : S := mainPlain (enterMain (.next 5) (runIsr demoCfg { call := .runAtomic 1 }))

theorem atFast_reach : ReachIsr atFast :=
  ReachIsr.mainPlain (ReachIsr.enterMain _ (ReachIsr.isr _ (ReachIsr.init 2 _ _ (by decide) (by decide))) (by decide +kernel))

-- fast_path_not_taken
example : atFast.mpc = .fast ∧ atFast.a.owedFids = [1] ∧ atFast.hung = false := by decide +kernel

/-- the pass continues: slow path, drain, dispatch of fibre 1 (a waiter); then, between the return of the fibre and the
    scheduler's final check, an interrupt posts a request for fibre 2 -/
def atWake : S :=
  runIsr (mainPlain (mainAtomic (mainPlain (mainAtomic (mainPlain (mainAtomic (mainPlain (mainAtomic atFast)))))))) { call := .runAtomic 2 }

theorem atWake_reach : ReachIsr atWake :=
  ReachIsr.isr _ (ReachIsr.mainPlain (ReachIsr.mainAtomic (ReachIsr.mainPlain (ReachIsr.mainAtomic (ReachIsr.mainPlain
    (ReachIsr.mainAtomic (ReachIsr.mainPlain (ReachIsr.mainAtomic atFast_reach))))))))

-- wakeup_with_isr: the final check is about to happen, fibre 2 is owed a dispatch, nothing is on the run queue
example : atWake.mpc = .wake ∧ atWake.a.owedFids = [2] ∧ atWake.k.runq = [] ∧ atWake.hung = false
    ∧ (mainPlain (mainAtomic atWake)).lastWake = 5#32 := by decide +kernel

-- no_lost_event_wakeup: after an event was sent from an interrupt the oldest unreceived event is committed …
example : (runIsr demoCfg { call := .eventSend 9 }).eq.received < (runIsr demoCfg { call := .eventSend 9 }).eq.claimed
    ∧ (runIsr demoCfg { call := .eventSend 9 }).eq.sent (runIsr demoCfg { call := .eventSend 9 }).eq.received = true
    ∧ (runIsr demoCfg { call := .eventSend 9 }).evWakeFailed = false ∧ (runIsr demoCfg { call := .eventSend 9 }).handlerKilled = false
    ∧ (runIsr demoCfg { call := .eventSend 9 }).a.owedFids = [0] := by decide +kernel

/-! ## the model refines the abstract monitor: `runModel h ⊨ IsrSpec`

Scope (`ItemOk`, a decidable predicate on the history): main-context calls with interrupt scripts (any placement, handlers
nested inside handlers), interrupts between calls and quiescent runs — **no thread-sender items** — whose calls only name
fibres that exist (`< nf`, the number of fibres the monitor's fairness bound counts).  A main-context item may carry a
*scripted body*: the list of `fibre_run(g)` / `fibre_kill(g)` calls that fibres of kind `scripted` make, one after the other,
while they are being dispatched by that item's pass, and the code they then return (`ItemOk` requires `g < nf`).  These
nested calls are ordinary main-context steps (`mainPlain` / `mainAtomic` at the control locations `recv/recvd/rel/reld
(.brun g | .bkill g)`) of `Reach`, `ReachIsr` and `ReachR`: each runs its own `handle_atomic_runq` drain loop, and the
interrupt script of the item fires at the gaps before and after each of their atomic operations exactly as at the gaps of
the enclosing pass (the atomic operations of the item are numbered through, pass and nested calls alike).  So every
invariant above (`Reach`) and the refinement theorems below (`ReachR`) cover interrupts placed inside calls that a running
fibre makes — in particular a wake-up for the running fibre itself followed by its own `fibre_run` of another fibre.  Thread senders are excluded on purpose:
while a sender on another thread sits between its claim and its send, later entries are hidden behind its unsent buffer, so
the liveness verdicts (`starved`, `oversleeps`, "settled") are not theorems for them (the monitor itself suspends those
rules while a thread sender is in flight); for thread senders only the safety theorems above (`Reach`) are claimed.
The hypothesis `hung = false` says the executable runner was not cut for lack of fuel (an explicit output, never silent). -/

/-- **the monitor never complains about the model**: on every in-scope history the verdict of `Spec/IsrSpec.lean` on the
    model's own observations — no event out of order / from nowhere, no oversleeping pass, no starved request — is `ok` -/
theorem model_refines_monitor (d : Nat) (kinds : List Kind) (budgets : List Nat) (h1 : 1 ≤ d) (h32 : d ≤ 32) (h : List Item)
    (hok : ∀ it ∈ h, ItemOk (kinds.length + 1) it) (hh : (runHistory (initWith d kinds budgets) h).hung = false) :
    (runHistory (initWith d kinds budgets) h).a.verdict = .ok := by
  rcases good_runHistory d kinds budgets h1 h32 h hok with e | ⟨hr, _⟩
  · rw [hh] at e; cases e
  · exact reachR_verdict hr

/-- **… and after the quiescent run nothing is owed and no event is outstanding**: if the history ends with a quiescent
    run whose last pass was idle, every accepted request has been dispatched (or killed) and every event whose send returned
    true has been processed (`owed = []`, `mustget = []`), with verdict `ok` -/
theorem model_settles (d : Nat) (kinds : List Kind) (budgets : List Nat) (h1 : 1 ≤ d) (h32 : d ≤ 32) (h : List Item)
    (hok : ∀ it ∈ h, ItemOk (kinds.length + 1) it)
    (hh : (runHistory (initWith d kinds budgets) (h ++ [.quiesce])).hung = false)
    (hidle : (runHistory (initWith d kinds budgets) (h ++ [.quiesce])).dispatchedNow = false) :
    (runHistory (initWith d kinds budgets) (h ++ [.quiesce])).a.owed = []
    ∧ (runHistory (initWith d kinds budgets) (h ++ [.quiesce])).a.mustGet = []
    ∧ (runHistory (initWith d kinds budgets) (h ++ [.quiesce])).a.verdict = .ok := by
  have hg := good_runHistory d kinds budgets h1 h32 h hok
  have e : runHistory (initWith d kinds budgets) (h ++ [.quiesce])
      = quiesceLoop 64 { ({ ({ runHistory (initWith d kinds budgets) h with trace := [], fired := 0 } : S) with budget := fun _ => 0 } : S)
          with bscript := [], bret := .waiting } := by
    unfold runHistory
    rw [List.foldl_append]
    rfl
  rw [e] at hh hidle ⊢
  have hg' : Good (kinds.length + 1) [] { ({ ({ runHistory (initWith d kinds budgets) h with trace := [], fired := 0 } : S) with budget := fun _ => 0 } : S)
      with bscript := [], bret := .waiting } :=
    good_main (s := { ({ runHistory (initWith d kinds budgets) h with trace := [], fired := 0 } : S) with budget := fun _ => 0 })
      (good_main (s := { runHistory (initWith d kinds budgets) h with trace := [], fired := 0 })
        (good_main hg rfl (fun hr _ => ReachR.newItem hr) rfl) rfl (fun hr _ => ReachR.noYields hr) rfl) rfl
      (fun hr _ => ReachR.setBody [] .waiting (fun _ h => absurd h List.not_mem_nil) hr) rfl
  exact settled_of_passEnd (qi_quiesceLoop 63 _ hg') hh hidle

/-- the same in the words of the correspondence run: `settled` -/
theorem model_settled_bool (d : Nat) (kinds : List Kind) (budgets : List Nat) (h1 : 1 ≤ d) (h32 : d ≤ 32) (h : List Item)
    (hok : ∀ it ∈ h, ItemOk (kinds.length + 1) it)
    (hh : (runHistory (initWith d kinds budgets) (h ++ [.quiesce])).hung = false)
    (hidle : (runHistory (initWith d kinds budgets) (h ++ [.quiesce])).dispatchedNow = false) :
    (runHistory (initWith d kinds budgets) (h ++ [.quiesce])).a.settled = true := by
  obtain ⟨a, b, _⟩ := model_settles d kinds budgets h1 h32 h hok hh hidle
  simp [A.settled, a, b]

-- non-vacuity: `demo` is in scope, is not cut, ends idle after the quiescent run
example : (∀ it ∈ demo, ItemOk 4 it) ∧ (runHistory demoCfg (demo ++ [.quiesce])).hung = false
    ∧ (runHistory demoCfg (demo ++ [.quiesce])).dispatchedNow = false := by decide +kernel

/-- the scenario of the seeded `handle_atomic_runq` mutant ("skip `make_runnable(*f)` if `*f` is the current fibre and the
    *stale* `kernel.state` is YIELDED"): fibre 2 yields; the next pass dispatches the scripted fibre 1, an interrupt wakes
    fibre 1 itself, then fibre 1 calls `fibre_run(3)` (whose drain loop moves the wake-up to the run queue) and returns
    WAITING -/
def bodyCfg : S := initWith 2 [.scripted, .yielder, .waiter] [0, 2, 0]
def bodyDemo : List Item :=
  [ .main { call := .run 2 }, .main { call := .run 1 }, .main { call := .next 10 },
    .main { call := .next 11, body := [.run 3], script := [((2, false), { call := .runAtomic 1 })] } ]

-- non-vacuity for scripted bodies: in scope, not cut; the wake-up for the running fibre survives its own `fibre_run(3)` —
-- after the pass fibre 1 is owed a dispatch and is on the run queue (behind 2, which yielded, and 3)
example : (∀ it ∈ bodyDemo, ItemOk 4 it) ∧ (runHistory bodyCfg bodyDemo).hung = false
    ∧ (runHistory bodyCfg bodyDemo).a.owedFids = [1] ∧ (runHistory bodyCfg bodyDemo).k.runq = [2, 1, 3]
    ∧ (runHistory bodyCfg (bodyDemo ++ [.quiesce])).a.settled = true
    ∧ (runHistory bodyCfg (bodyDemo ++ [.quiesce])).dispatchedNow = false := by decide +kernel

/-- **non-sticky form for handlers that run to completion**: in every state of an in-scope interrupt-only execution —
    also after a `fibre_eventq_send` has returned false or the handler has been killed and woken again — as long as an event
    whose send returned true (claimed since the handler was last killed) is unprocessed, the handler is owed a dispatch
    (hence pending: `accepted_never_lost`) or is running and has not yet seen its queue empty -/
theorem sent_event_keeps_handler_owed {n : Nat} {s : S} (hr : ReachR n s) (h : s.a.mustGet ≠ []) :
    HANDLER ∈ s.a.owedFids ∨ HRunning s :=
  (reachR_monW hr).mm h

-- dispatch_within_runq_passes: fibre 3 at position 2 of the run queue, three uninterrupted passes, not cut
example : (runHistory demoCfg [.main { call := .run 1 }, .main { call := .run 2 }, .main { call := .run 3 }]).k.runq[2]? = some 3
    ∧ (runHistory demoCfg [.main { call := .run 1 }, .main { call := .run 2 }, .main { call := .run 3 }]).bscript = []
    ∧ (passes [10, 10, 11] (runHistory demoCfg [.main { call := .run 1 }, .main { call := .run 2 }, .main { call := .run 3 }])).hung = false := by
  decide +kernel

/-! ## the executable runner -/

/-- every state the executable model passes through on any history is reachable, hence satisfies all of the above -/
theorem history_reachable (d : Nat) (kinds : List Kind) (budgets : List Nat) (h1 : 1 ≤ d) (h32 : d ≤ 32) (h : List Item) :
    Reach (runHistory (initWith d kinds budgets) h) :=
  reach_runHistory d kinds budgets h1 h32 h

/-- on histories without thread senders, every step of the main context happens with no sender inside a call -/
theorem history_interrupt_only (d : Nat) (kinds : List Kind) (budgets : List Nat) (h1 : 1 ≤ d) (h32 : d ≤ 32)
    (h : List Item) (hio : ∀ it ∈ h, InterruptOnly it) : ReachIsr (runHistory (initWith d kinds budgets) h) :=
  reachIsr_runHistory d kinds budgets h1 h32 h hio

/-- interrupt handlers run to completion -/
theorem interrupts_run_to_completion {s : S} (hr : ReachIsr s) (hh : s.hung = false) : Quiet s :=
  quiet_of_reachIsr hr hh

end Librfn.C06

import Librfn.Model.FibreIsr
import Librfn.Props.C04
/-! # C06 — placeholder while the executable model is being tied to the code -/
namespace Librfn.C06
open Librfn.Model.FibreIsr

theorem init_idle : init.mpc = .idle := rfl

end Librfn.C06

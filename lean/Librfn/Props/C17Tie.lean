import Librfn.Gen.RandSeq
import Librfn.Ref.Rand
import Std.Tactic.BVDecide
/-!
# C17 — tie T: `rand31_r` regenerated from `rand.c` equals the reference step the C17 theorems are about

`Librfn.Gen.RandSeq.rand31_r` is regenerated on every run by `tools/c2lean2.py` (helper functions inlined, the seed object
`*seedp` is a parameter and a result).  For every seed the property quantifies over (1 … 2^31 − 2) it returns and stores what
`Librfn.Ref.Rand.rand31_r` does.  On the pinned source the two definitions coincide literally; after a rewrite that keeps the
two 16-bit partial products (a branch-free fold, a helper) `bv_decide` re-proves the equality within its time limit; a rewrite
that changes the multiplication scheme (one 64-bit product) is beyond the SAT solver and ends in no-failing-input-found unless
the exhaustive comparison of the real code with 16807·s mod (2^31 − 1) finds a seed.
-/
namespace Librfn.C17.Tie
open Librfn.Gen.RandSeq

theorem rand31_generated (s : BitVec 32) (h1 : BitVec.ult 0#32 s = true) (h2 : BitVec.ult s 2147483647#32 = true) :
    (rand31_r s).ub = false ∧ (rand31_r s).exh = false ∧
    (rand31_r s).ret = (Librfn.Ref.Rand.rand31_r s).1 ∧ (rand31_r s).deref_seedp = (Librfn.Ref.Rand.rand31_r s).2 := by
  unfold rand31_r Librfn.Ref.Rand.rand31_r
  bv_decide (config := { timeout := 150 })

end Librfn.C17.Tie

import Librfn.Props.C02TieCmp
import Librfn.Props.C09Tie
/-!
# C09 × C02 — the scheduler's comparator is an admissible comparator for `sorted_tie`

`sorted_tie` (C09) ties `list_insert_sorted` to the heap model for every list length under the hypothesis `CmpAgrees`: the C
comparator is a pure function whose sign agrees with the model comparator.  For the one comparator the library itself passes
(`duetime_cmp`, the timer queue of `fibre.c`) the hypothesis is a theorem: `duetime_cmp` regenerated from `fibre.c`
(`Gen/FibreSeq.lean`), with the memory its due times are read from held fixed, agrees in sign with the signed reading of the wrapping
difference of the due times.
-/
namespace Librfn.C09.TieSched
open Librfn.Gen Librfn.Gen.FibreSeq Librfn.C02.Tie

/-- the scheduler's comparator meets the hypothesis of `C09.Tie.sorted_tie` -/
theorem duetime_cmp_agrees (L : Librfn.C09.Tie.Lay) (mem : Mem) (due : Librfn.Sched.Fid → BitVec 32)
    (hd : ∀ n, L.okN n → dueAt mem (L.A (.next n)) = due n) :
    Librfn.C09.Tie.CmpAgrees L (fun a b => (duetime_cmp a b mem).ret) (fun a b => (due a - due b).toInt) := by
  intro a b ha hb
  show BitVec.sle 0#32 (duetime_cmp (L.A (.next a)) (L.A (.next b)) mem).ret = true ↔ (due a - due b).toInt ≥ 0
  rw [(duetime_cmp_generated _ _ mem).2.2.2, hd a ha, hd b hb]
  simp only [BitVec.sle, BitVec.toInt_zero, decide_eq_true_eq, ge_iff_le]

end Librfn.C09.TieSched

import Librfn.Gen.HexSeq
import Librfn.Model.Hex
/-!
# C18 — tie T for the two pure helpers of `hex.c`

`Librfn.Gen.HexSeq.hexchar` / `nibble` are regenerated from `/repo/librfn/hex.c` on every run (tools/c2lean2.py: helper
functions inlined, constant tables as if-chains).  On the arguments `hex.c` itself passes — `hexchar` gets a nibble
`0..15`, `nibble` gets a character `isxdigit` accepted — the hand model's transcriptions (which the C18 theorems are
about) are proved equal to them by evaluation of all cases, so an edit to either helper breaks these obligations even if
no sampled input of the correspondence run exposes it, while a rewrite that only differs on characters the callers
never pass (a digit table, arithmetic on the folded letter) re-proves.
-/
namespace Librfn.C18
open Librfn.Model.Hex

/-- the characters `isxdigit` accepts in the C locale -/
def isHexDigitBV (h : BitVec 8) : Bool :=
  (BitVec.ule 0x30#8 h && BitVec.ule h 0x39#8) || (BitVec.ule 0x41#8 h && BitVec.ule h 0x46#8) || (BitVec.ule 0x61#8 h && BitVec.ule h 0x66#8)

theorem hexchar_tie : ∀ h : BitVec 8, h.ult 16#8 = true →
    (Librfn.Gen.HexSeq.hexchar h).ret = (hexchar (UInt8.ofBitVec h)).toBitVec ∧
    (Librfn.Gen.HexSeq.hexchar h).ub = false ∧ (Librfn.Gen.HexSeq.hexchar h).exh = false := by
  decide +kernel

theorem nibble_tie : ∀ h : BitVec 8, isHexDigitBV h = true →
    (Librfn.Gen.HexSeq.nibble h).ret.toInt = nibble (UInt8.ofBitVec h) ∧
    (Librfn.Gen.HexSeq.nibble h).ub = false ∧ (Librfn.Gen.HexSeq.nibble h).exh = false := by
  decide +kernel

end Librfn.C18

import Librfn.Gen.Hex
import Librfn.Model.Hex
/-!
# C18 — tie T for the two pure helpers of `hex.c`

`Librfn.Gen.Hex.hexchar` / `nibble` are regenerated from `/repo/librfn/hex.c` by the clang-typed-AST
translator on every run; the hand model's transcriptions (which the C18 theorems are about) are proved
equal to them on all 256 characters, so an edit to either helper in the C source breaks these obligations
even if no sampled input of the correspondence run happens to expose it.
-/
namespace Librfn.C18
open Librfn.Model.Hex

theorem hexchar_tie : ∀ h : BitVec 8, Librfn.Gen.Hex.hexchar h = (hexchar (UInt8.ofBitVec h)).toBitVec := by
  decide +kernel

theorem nibble_tie : ∀ h : BitVec 8, (Librfn.Gen.Hex.nibble h).toInt = nibble (UInt8.ofBitVec h) := by
  decide +kernel

end Librfn.C18

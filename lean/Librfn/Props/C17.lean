import Librfn.Ref.Rand
/-!
# C17 — `rand31_r` is exactly the Park–Miller minimal standard generator

`Librfn.Ref.Rand.rand31_r` is the reference step (the frozen translation of the pinned `rand.c`); `Props/C17Tie.lean` proves on
every run that the code regenerated from `/repo/librfn/rand.c` equals it on every valid seed (tie T): a
function from the old `*seedp` to `(return value, new *seedp)` over `BitVec 32` with C's 32-bit
wrap-around arithmetic.  Kernel-only proofs (no `bv_decide`).

The "full period 2^31-2" clause is the classical fact that 16807 is a primitive root modulo the
prime 2^31-1; it is proved separately (Mathlib) in `LibrfnMath/Period.lean`, on top of `iterate_spec`.
-/
namespace Librfn.C17
open Librfn.Ref.Rand

def P : Nat := 2147483647   -- 2^31 - 1

theorem and_mask16 (x : BitVec 32) : (x &&& 65535#32).toNat = x.toNat % 65536 := by
  simp only [BitVec.toNat_and, BitVec.toNat_ofNat]
  exact Nat.and_two_pow_sub_one_eq_mod x.toNat 16
theorem and_mask15 (x : BitVec 32) : (x &&& 32767#32).toNat = x.toNat % 32768 := by
  simp only [BitVec.toNat_and, BitVec.toNat_ofNat]
  exact Nat.and_two_pow_sub_one_eq_mod x.toNat 15

theorem mul_nz (s : Nat) (h1 : 1 ≤ s) (h2 : s ≤ 2147483646) : (16807 * s) % 2147483647 ≠ 0 := by
  intro h
  have hd : 2147483647 ∣ 16807 * s := Nat.dvd_of_mod_eq_zero h
  have hc : Nat.Coprime 2147483647 16807 := by decide
  have := Nat.le_of_dvd (by omega) (hc.dvd_of_dvd_mul_left hd)
  omega

/-- the folded sum in ℕ: no 32-bit intermediate overflows and the fold is congruent to 16807·s -/
theorem fold_nat (s : Nat) (h2 : s ≤ 2147483646) :
    let lo := 16807 * (s % 65536); let hi := 16807 * (s / 65536)
    let L := lo + (hi % 32768) * 65536 + hi / 32768
    lo < 4294967296 ∧ hi < 4294967296 ∧ (hi % 32768) * 65536 < 4294967296 ∧ L < 3248881664 ∧
      16807 * s = L + 2147483647 * (hi / 32768) := by
  intro lo hi L
  refine ⟨by omega, by omega, by omega, by omega, by omega⟩

theorem core1 (L : Nat) (hL : L < 3248881664) (h : L > 2147483647) (_hnz : L % 2147483647 ≠ 0) :
    (L - 2147483647) % 4294967296 = L % 2147483647 := by omega
theorem core2 (L : Nat) (h : ¬ L > 2147483647) (hnz : L % 2147483647 ≠ 0) :
    L = L % 2147483647 := by omega

/-- **one step**: for every state `s` in `1 … 2^31-2` the returned value is `16807·s mod (2^31-1)`
    and the stored state is that same value -/
theorem rand31_spec (s : BitVec 32) (h1 : 1 ≤ s.toNat) (h2 : s.toNat ≤ 2147483646) :
    (rand31_r s).1.toNat = (16807 * s.toNat) % P ∧ (rand31_r s).2 = (rand31_r s).1 := by
  unfold P
  obtain ⟨hlo, hhi, hsh, hL, hmul⟩ := fold_nat s.toNat h2
  have hnz := mul_nz s.toNat h1 h2
  rw [hmul, Nat.add_mul_mod_self_left] at hnz ⊢
  refine ⟨?_, rfl⟩
  unfold rand31_r
  simp only
  have e_lo3 : (16807#32 * (s &&& 65535#32)).toNat = 16807 * (s.toNat % 65536) := by
    rw [BitVec.toNat_mul, and_mask16]; simp; omega
  have e_hi4 : (16807#32 * (s >>> (16#32).toNat)).toNat = 16807 * (s.toNat / 65536) := by
    rw [BitVec.toNat_mul, BitVec.toNat_ushiftRight]; simp [Nat.shiftRight_eq_div_pow]; omega
  have e_t : (((16807#32 * (s >>> (16#32).toNat)) &&& 32767#32) <<< (16#32).toNat).toNat
      = (16807 * (s.toNat / 65536)) % 32768 * 65536 := by
    rw [BitVec.toNat_shiftLeft, and_mask15, e_hi4]
    simp [Nat.shiftLeft_eq]
    omega
  have e_q : ((16807#32 * (s >>> (16#32).toNat)) >>> (15#32).toNat).toNat = (16807 * (s.toNat / 65536)) / 32768 := by
    rw [BitVec.toNat_ushiftRight, e_hi4]; simp [Nat.shiftRight_eq_div_pow]
  have e_lo6 : ((16807#32 * (s &&& 65535#32) + ((16807#32 * (s >>> (16#32).toNat)) &&& 32767#32) <<< (16#32).toNat)
      + ((16807#32 * (s >>> (16#32).toNat)) >>> (15#32).toNat)).toNat
      = 16807 * (s.toNat % 65536) + (16807 * (s.toNat / 65536)) % 32768 * 65536 + (16807 * (s.toNat / 65536)) / 32768 := by
    rw [BitVec.toNat_add, BitVec.toNat_add, e_lo3, e_t, e_q]
    omega
  generalize hLdef : 16807 * (s.toNat % 65536) + (16807 * (s.toNat / 65536)) % 32768 * 65536 + (16807 * (s.toNat / 65536)) / 32768 = L at *
  generalize ((16807#32 * (s &&& 65535#32) + ((16807#32 * (s >>> (16#32).toNat)) &&& 32767#32) <<< (16#32).toNat)
      + ((16807#32 * (s >>> (16#32).toNat)) >>> (15#32).toNat)) = lo6 at *
  clear hlo hhi hsh hmul hLdef e_lo3 e_hi4 e_t e_q h1 h2
  by_cases hgt : L > 2147483647
  · have hc : BitVec.ult 2147483647#32 lo6 = true := by simp [BitVec.ult, e_lo6]; omega
    simp only [hc, if_true]
    simp
    rw [e_lo6]
    have := core1 L hL hgt hnz
    omega
  · have hc : BitVec.ult 2147483647#32 lo6 = false := by simp [BitVec.ult, e_lo6]; omega
    simp only [hc]
    simp
    rw [e_lo6]
    exact core2 L hgt hnz

/-- the value is again a valid state: never 0, never ≥ 2^31-1 -/
theorem rand31_range (s : BitVec 32) (h1 : 1 ≤ s.toNat) (h2 : s.toNat ≤ 2147483646) :
    1 ≤ (rand31_r s).1.toNat ∧ (rand31_r s).1.toNat ≤ 2147483646 := by
  rw [(rand31_spec s h1 h2).1]
  have := mul_nz s.toNat h1 h2
  have := Nat.mod_lt (16807 * s.toNat) (show 0 < P by decide)
  unfold P at *
  omega

/-- `n` calls threading the state through `*seedp` -/
def iter : Nat → BitVec 32 → BitVec 32
  | 0, s => s
  | n + 1, s => iter n (rand31_r s).2

/-- **every trajectory**: after any number of calls from a valid seed the state is
    `16807^n · s mod (2^31-1)` and is still in `1 … 2^31-2` (so 0 is never reached) -/
theorem iterate_spec (n : Nat) (s : BitVec 32) (h1 : 1 ≤ s.toNat) (h2 : s.toNat ≤ 2147483646) :
    (iter n s).toNat = (16807 ^ n * s.toNat) % P ∧ 1 ≤ (iter n s).toNat ∧ (iter n s).toNat ≤ 2147483646 := by
  induction n generalizing s with
  | zero =>
    simp only [iter, Nat.pow_zero, Nat.one_mul]
    exact ⟨(Nat.mod_eq_of_lt (by unfold P; omega)).symm, h1, h2⟩
  | succ n ih =>
    have hs := rand31_spec s h1 h2
    have hr := rand31_range s h1 h2
    rw [← hs.2] at hr
    obtain ⟨e, r1, r2⟩ := ih (rand31_r s).2 hr.1 hr.2
    refine ⟨?_, r1, r2⟩
    simp only [iter]
    rw [e, hs.2, hs.1, Nat.mul_mod, Nat.mod_mod, ← Nat.mul_mod, Nat.pow_succ, Nat.mul_assoc]

example : (rand31_r 1#32).1 = 16807#32 ∧ iter 3 1#32 = 1622650073#32 := by decide

end Librfn.C17

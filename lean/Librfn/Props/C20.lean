import Librfn.Model.Mlog
import Librfn.Spec.Mlog
/-!
# C20 — the memory log always holds the most recent 256 messages, oldest first

Model: `Librfn.Model.Mlog` (hand transcription of `mlog.c`, incl. the fold of the counter at
0x7fffffff and the `int → unsigned` conversion of `mlog_get_line`'s argument).
Spec: `Librfn.Spec.Mlog` (the list of messages since the last clear).
The theorems hold for **every** number of messages — the proof is an induction over calls and the
fold preserves the invariant, so the 2^31 wrap is covered without running 2^31 calls.
Kernel-only (no `bv_decide`).
-/
namespace Librfn.C20
open Librfn.Model.Mlog
open Librfn.Spec.Mlog (window)

variable {M : Type}

/-- abstraction relation: `msgs` = everything recorded since the last clear -/
structure Inv (s : St M) (msgs : List M) : Prop where
  bound : s.head < 0x7fffffff
  small : msgs.length < 256 → s.head = msgs.length
  big : msgs.length ≥ 256 → s.head ≥ 256 ∧ s.head % 256 = msgs.length % 256
  slots : ∀ j, msgs.length - 256 ≤ j → j < msgs.length → some (s.line (j % 256)) = msgs[j]?

theorem inv_clear (s : St M) : Inv (clear s) [] :=
  { bound := by simp [clear], small := by simp [clear], big := by simp, slots := by simp }

/-- the zero-initialised static `log` is an empty log -/
theorem inv_init (line : Nat → M) : Inv ⟨line, 0⟩ [] :=
  { bound := by simp, small := by simp, big := by simp, slots := by simp }

theorem inv_log (s : St M) (msgs : List M) (m : M) (hi : Inv s msgs) : Inv (log s m) (msgs ++ [m]) := by
  have hb := hi.bound
  have hmod : s.head % 256 = msgs.length % 256 := by
    by_cases h : msgs.length < 256
    · rw [hi.small h]
    · exact (hi.big (by omega)).2
  refine { bound := ?_, small := ?_, big := ?_, slots := ?_ }
  · simp only [log]; split <;> omega
  · intro h; simp only [List.length_append, List.length_singleton] at h
    have := hi.small (by omega)
    simp only [log, List.length_append, List.length_singleton]; split <;> omega
  · intro h; simp only [List.length_append, List.length_singleton] at h ⊢
    simp only [log]
    by_cases h2 : msgs.length < 256
    · have := hi.small h2; split <;> omega
    · have := hi.big (by omega); split <;> omega
  · intro j h1 h2
    simp only [List.length_append, List.length_singleton] at h1 h2
    show some ((log s m).line (j % 256)) = (msgs ++ [m])[j]?
    have hline : (log s m).line (j % 256) = if j % 256 = s.head % 256 then m else s.line (j % 256) := rfl
    rw [hline]
    by_cases hj : j = msgs.length
    · subst hj
      rw [if_pos hmod.symm, List.getElem?_append_right (Nat.le_refl _), Nat.sub_self]
      rfl
    · have hlt : j < msgs.length := by omega
      rw [List.getElem?_append_left hlt]
      rw [if_neg]
      · exact hi.slots j (Nat.le_trans (Nat.sub_le_sub_right (Nat.le_succ _) 256) h1) hlt
      · intro e
        rw [hmod] at e
        have : (msgs.length - j) % 256 = 0 := Nat.sub_mod_eq_zero_of_mod_eq e.symm
        omega

/-- **mlog_nice records a message only while fewer than 256 have been recorded** -/
theorem inv_logNice (s : St M) (msgs : List M) (m : M) (hi : Inv s msgs) :
    Inv (logNice s m) (if msgs.length < 256 then msgs ++ [m] else msgs) := by
  unfold logNice
  by_cases h : msgs.length < 256
  · have := hi.small h; simp only [h, if_true]; rw [if_pos (by omega)]; exact inv_log s msgs m hi
  · have := (hi.big (by omega)).1; simp only [h, if_false]; rw [if_neg (by omega)]; exact hi

theorem window_get (msgs : List M) (n : Nat) :
    (window msgs)[n]? = msgs[msgs.length - min msgs.length 256 + n]? := by
  unfold window; rw [List.getElem?_drop]

theorem window_length (msgs : List M) : (window msgs).length = min msgs.length 256 := by
  unfold window; rw [List.length_drop]; omega

theorem getLine_nat (s : St M) (msgs : List M) (hi : Inv s msgs) (n : Nat) (hn : n < 4294967296) :
    getLine s n = (window msgs)[n]? := by
  have hb := hi.bound
  rw [window_get]
  unfold getLine
  by_cases hsmall : msgs.length < 256
  · have hh := hi.small hsmall
    have hmin : min msgs.length 256 = msgs.length := by omega
    rw [hmin]
    by_cases hin : n < msgs.length
    · have c1 : ¬ (n ≥ s.head ∨ n ≥ 256) := by omega
      have c2 : ¬ (s.head ≥ 256) := by omega
      simp only [c1, c2, if_false]
      have := hi.slots n (by omega) hin
      rw [Nat.mod_eq_of_lt (by omega)] at this ⊢
      rw [this]; congr 1; omega
    · have c1 : (n ≥ s.head ∨ n ≥ 256) := by omega
      simp only [c1, if_true]
      rw [List.getElem?_eq_none (by omega)]
  · have ⟨hge, hmod⟩ := hi.big (by omega)
    have hmin : min msgs.length 256 = 256 := by omega
    rw [hmin]
    by_cases hin : n < 256
    · have c1 : ¬ (n ≥ s.head ∨ n ≥ 256) := by omega
      simp only [c1, hge, if_true, if_false]
      have hj := hi.slots (msgs.length - 256 + n) (by omega) (by omega)
      have e0 : (n + s.head) % 4294967296 = n + s.head := Nat.mod_eq_of_lt (by omega)
      have e : (n + s.head) % 256 = (msgs.length - 256 + n) % 256 := by omega
      rw [e0, e, hj]
    · have c1 : (n ≥ s.head ∨ n ≥ 256) := by omega
      simp only [c1, if_true]
      rw [List.getElem?_eq_none (by omega)]

/-- **mlog_get_line(k)** for every `int k`: line `k` of the retained window, NULL for every other `k`
    (including negative ones) -/
theorem getLine_spec (s : St M) (msgs : List M) (hi : Inv s msgs) (k : Int)
    (hint : -2147483648 ≤ k ∧ k < 2147483648) :
    getLineInt s k = if 0 ≤ k then (window msgs)[k.toNat]? else none := by
  unfold getLineInt
  by_cases hk : k < 0
  · have h0 : ¬ (0 ≤ k) := by omega
    simp only [hk, h0, if_true, if_false]
    rw [getLine_nat s msgs hi _ (by omega)]
    rw [List.getElem?_eq_none]
    rw [window_length]; omega
  · have h0 : (0 ≤ k) := by omega
    simp only [hk, h0, if_true, if_false]
    exact getLine_nat s msgs hi _ (by omega)

theorem dumpFrom_spec (s : St M) (msgs : List M) (hi : Inv s msgs) (fuel i : Nat)
    (hf : (window msgs).length < fuel + i) (hi32 : fuel + i ≤ 1000) :
    dumpFrom s fuel i = (window msgs).drop i := by
  induction fuel generalizing i with
  | zero => simp only [dumpFrom]; rw [List.drop_eq_nil_of_le (by omega)]
  | succ fuel ih =>
    simp only [dumpFrom]
    rw [getLine_nat s msgs hi i (by omega)]
    by_cases hlt : i < (window msgs).length
    · rw [List.getElem?_eq_getElem hlt]
      simp only
      rw [ih (i + 1) (by omega) (by omega)]
      exact (List.drop_eq_getElem_cons hlt).symm
    · rw [List.getElem?_eq_none (by omega)]
      simp only
      rw [List.drop_eq_nil_of_le (by omega)]

/-- **mlog_dump writes the same lines in the same order** -/
theorem dump_spec (s : St M) (msgs : List M) (hi : Inv s msgs) : dump s = window msgs := by
  unfold dump
  rw [dumpFrom_spec s msgs hi 257 0 (by rw [window_length]; omega) (by omega)]
  rfl

/-- `get` arguments are C `int`s -/
def OpOk : Op M → Prop
  | .get k => -2147483648 ≤ k ∧ k < 2147483648
  | _ => True

theorem step_refines (s : St M) (msgs : List M) (hi : Inv s msgs) (op : Op M) (hok : OpOk op) :
    (step s op).2 = (Librfn.Spec.Mlog.step msgs op).2 ∧ Inv (step s op).1 (Librfn.Spec.Mlog.step msgs op).1 := by
  cases op with
  | log m => exact ⟨rfl, inv_log s msgs m hi⟩
  | nice m => exact ⟨rfl, inv_logNice s msgs m hi⟩
  | clear => exact ⟨rfl, inv_clear s⟩
  | get k =>
    refine ⟨?_, hi⟩
    simp only [step, Librfn.Spec.Mlog.step]
    rw [getLine_spec s msgs hi k hok]
  | dump =>
    refine ⟨?_, hi⟩
    simp only [step, Librfn.Spec.Mlog.step]
    rw [dump_spec s msgs hi]

/-- **every interleaving of mlog, mlog_nice, mlog_clear and reads, of any length**: the model's
    outputs are those of the abstract "list of messages since the last clear" -/
theorem history_refines (ops : List (Op M)) (s : St M) (msgs : List M) (hi : Inv s msgs)
    (hok : ∀ op ∈ ops, OpOk op) :
    (run s ops).2 = (Librfn.Spec.Mlog.run msgs ops).2 := by
  induction ops generalizing s msgs with
  | nil => rfl
  | cons op ops ih =>
    obtain ⟨ho, hi'⟩ := step_refines s msgs hi op (hok op (List.mem_cons_self ..))
    simp only [run, Librfn.Spec.Mlog.run]
    rw [ho, ih _ _ hi' (fun o h => hok o (List.mem_cons_of_mem _ h))]

/-- from the zero-initialised log -/
theorem history_refines_init (ops : List (Op M)) (line : Nat → M) (hok : ∀ op ∈ ops, OpOk op) :
    (run ⟨line, 0⟩ ops).2 = (Librfn.Spec.Mlog.run [] ops).2 :=
  history_refines ops _ _ (inv_init line) hok

/-- the invariant is satisfiable just below the fold of the counter (non-vacuity of the wrap case):
    a state with `head = 0x7ffffffe` abstracts any history of 2^31 - 2 + 256·k … messages whose last
    256 are in the slots -/
example : (log (⟨fun _ => (0 : Nat), 0x7ffffffe⟩ : St Nat) 7).head = 0x7fffffff - 256 := by decide
example : (run (⟨fun _ => (0 : Nat), 0⟩ : St Nat) [.log 5, .log 6, .get 1, .get (-1), .dump]).2
    = [.unit, .unit, .line (some 6), .line none, .lines [5, 6]] := by decide

end Librfn.C20

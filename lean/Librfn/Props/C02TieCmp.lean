import Librfn.Gen.FibreSeq
import Librfn.Model.Fibre
import Librfn.Lemmas.SchedTime
import Std.Tactic.BVDecide
import Librfn.Gen.Ackermann
/-!
# C02 — tie T for the comparator of the scheduler's timer queue (`duetime_cmp` of `fibre.c`)

`fibre_timeout` files the sleeping fibre with `list_insert_sorted(&kernel.timerq, &f->link, duetime_cmp)`.  `duetime_cmp` is
regenerated from `/repo/librfn/fibre.c` on every run (`Gen/FibreSeq.lean`; `fibre_t` in memory with the x86-64 layout
`fn` 0, `state` 8, `priv` 10, `duetime` 12, `link` 16, so `containerof(n, fibre_t, link)->duetime` is the 32-bit word at `n - 4`).

* `duetime_cmp_generated`: the value returned is `duetime(n1) - duetime(n2)` as a 32-bit difference, nothing is written, no
  undefined operation;
* `duetime_cmp_tie`: `duetime_cmp(n1, n2) >= 0` is the model's `dueGe` — the wrapping subtraction read as signed, which is what makes
  the order of the timer queue independent of where the 32-bit time base stands (C02's `time_shift_invariance` is proved about
  `dueGe`);
* (`Props/C09TieSched.lean`, proved by the C09 check) `duetime_cmp_agrees`: as a pure function of two node addresses (the memory the due
  times are read from held fixed) it satisfies the hypothesis `C09.Tie.CmpAgrees` under which `sorted_tie` ties `list_insert_sorted`
  to the sequence model for every list length.
-/
namespace Librfn.C02.Tie
open Librfn.Gen Librfn.Gen.FibreSeq

/-- `containerof(n, fibre_t, link)->duetime` -/
def dueAt (mem : Mem) (n : BitVec 64) : BitVec 32 := Mem.load32 mem (n - 4#64)

theorem duetime_cmp_generated (n1 n2 : BitVec 64) (mem : Mem) :
    (duetime_cmp n1 n2 mem).ub = false ∧ (duetime_cmp n1 n2 mem).exh = false ∧ (duetime_cmp n1 n2 mem).mem = mem ∧
    (duetime_cmp n1 n2 mem).ret = dueAt mem n1 - dueAt mem n2 := by
  refine ⟨?_, ?_, ?_, ?_⟩
  · first | rfl | (unfold duetime_cmp; bv_decide (config := { timeout := 60 }))
  · first | rfl | (unfold duetime_cmp; bv_decide (config := { timeout := 60 }))
  · first | rfl | (unfold duetime_cmp; simp only [])
  · -- the two due times are opaque 32-bit loads; their addresses are compared through explicit congruence facts
    unfold duetime_cmp dueAt
    simp only []
    ackermann (Mem.load32 mem)
    bv_decide (config := { timeout := 60 })

/-- **tie T, `duetime_cmp`**: the sign test `list_insert_sorted` applies is the model's `dueGe` -/
theorem duetime_cmp_tie (due : Librfn.Sched.Fid → BitVec 32) (f x : Librfn.Sched.Fid) (n1 n2 : BitVec 64) (mem : Mem)
    (h1 : dueAt mem n1 = due f) (h2 : dueAt mem n2 = due x) :
    BitVec.sle 0#32 (duetime_cmp n1 n2 mem).ret = Librfn.Model.Fibre.dueGe due f x := by
  rw [(duetime_cmp_generated n1 n2 mem).2.2.2, h1, h2]
  simp only [BitVec.sle, Librfn.Model.Fibre.dueGe, BitVec.toInt_zero, ge_iff_le]

end Librfn.C02.Tie

import Librfn.Gen.RingSeq
import Librfn.Model.RingConc
import Std.Tactic.BVDecide
import Librfn.Gen.Ackermann
/-!
# C05 — tie T for `ringbuf.c` (sequential meaning of `ringbuf_put`, `ringbuf_get`, `ringbuf_empty`, `ringbuf_init`)

`Librfn.Gen.RingSeq.*` is regenerated from `/repo/librfn/ringbuf.c` on every run by `tools/c2lean2.py` (pointers are
64-bit values, the storage is a byte memory, atomic loads/stores have their sequential meaning).

* layer 1 (`*_generated`, `bv_decide`, every input): the generated definitions equal loop-free bit-vector references —
  the wrap of the index (`wrapBV`: `unsigned int` index against the `size_t` length), the full/empty comparisons, the
  cell that is read or written, the returned value, the index that is published;
* layer 2 (`*_tie`): the references are what the interleaving model `Librfn.Model.RingConc` computes when one thread
  runs the call alone from an idle state (`put d · pstep · pstep · pstep`, …): same result, same indices, and the
  memory after the call represents the model's buffer after the call.

The C05 theorems are about every interleaving of the model's steps; tie S checks that the C functions perform exactly
those shared accesses in that order; this tie checks that what the model computes *between* the accesses (index
arithmetic, comparisons, addressed cell, result) is what the C computes.
-/
namespace Librfn.C05.Tie
open Librfn.Gen Librfn.Gen.RingSeq
open Librfn.Model.RingConc

/-- `if (++i >= buf_len) i -= buf_len;` — `unsigned int` index, `size_t` length -/
def wrapBV (len : BitVec 64) (i : BitVec 32) : BitVec 32 :=
  if len.ule ((i + 1#32).setWidth 64) then ((i + 1#32).setWidth 64 - len).setWidth 32 else i + 1#32

/-- the descriptors the property quantifies over (and `ring_inv` maintains): 2 <= length <= 2^32, both indices inside the ring -/
def wfBV (len : BitVec 64) (r w : BitVec 32) : Bool :=
  BitVec.ule 2#64 len && BitVec.ule len 0x100000000#64 && BitVec.ult (r.setWidth 64) len && BitVec.ult (w.setWidth 64) len

/-! ### layer 1 (every well-formed descriptor; a rewrite that differs only on descriptors no history can produce re-proves) -/

theorem put_generated (bufp len : BitVec 64) (r w : BitVec 32) (d : BitVec 8) (mem : Mem) (hwf : wfBV len r w = true) :
    (ringbuf_put bufp len r w d mem).ub = false ∧ (ringbuf_put bufp len r w d mem).exh = false ∧
    (ringbuf_put bufp len r w d mem).rb_bufp = bufp ∧ (ringbuf_put bufp len r w d mem).rb_buf_len = len ∧
    (ringbuf_put bufp len r w d mem).rb_readi = r ∧
    (ringbuf_put bufp len r w d mem).ret = (if wrapBV len w = r then 0#8 else 1#8) ∧
    (ringbuf_put bufp len r w d mem).rb_writei = (if wrapBV len w = r then w else wrapBV len w) := by
  unfold wfBV at hwf
  unfold ringbuf_put wrapBV
  first | bv_decide (config := { timeout := 300 }) | (ackermann mem; bv_decide (config := { timeout := 300 }))

theorem put_generated_mem (bufp len : BitVec 64) (r w : BitVec 32) (d : BitVec 8) (mem : Mem) (a : BitVec 64) (hwf : wfBV len r w = true) :
    (ringbuf_put bufp len r w d mem).mem a =
      (if wrapBV len w = r then mem a else if a = bufp + w.setWidth 64 then d else mem a) := by
  unfold wfBV at hwf
  unfold ringbuf_put wrapBV
  simp only [Mem.ite_app, Mem.store_app]
  first | bv_decide (config := { timeout := 300 }) | (ackermann mem; bv_decide (config := { timeout := 300 }))

theorem get_generated (bufp len : BitVec 64) (r w : BitVec 32) (mem : Mem) (hwf : wfBV len r w = true) :
    (ringbuf_get bufp len r w mem).ub = false ∧ (ringbuf_get bufp len r w mem).exh = false ∧
    (ringbuf_get bufp len r w mem).rb_bufp = bufp ∧ (ringbuf_get bufp len r w mem).rb_buf_len = len ∧
    (ringbuf_get bufp len r w mem).rb_writei = w ∧
    (ringbuf_get bufp len r w mem).ret = (if r = w then 0xffffffff#32 else (mem (bufp + r.setWidth 64)).setWidth 32) ∧
    (ringbuf_get bufp len r w mem).rb_readi = (if r = w then r else wrapBV len r) := by
  unfold wfBV at hwf
  unfold ringbuf_get wrapBV
  first | bv_decide (config := { timeout := 300 }) | (ackermann mem; bv_decide (config := { timeout := 300 }))

theorem get_generated_mem (bufp len : BitVec 64) (r w : BitVec 32) (mem : Mem) (a : BitVec 64) (hwf : wfBV len r w = true) :
    (ringbuf_get bufp len r w mem).mem a = mem a := by
  unfold wfBV at hwf
  unfold ringbuf_get
  first
    | rfl
    | (simp only [Mem.ite_app, Mem.store_app]; done)
    | (simp only [Mem.ite_app, Mem.store_app]; bv_decide (config := { timeout := 300 }))
    | bv_decide (config := { timeout := 300 })

theorem empty_generated (bufp len : BitVec 64) (r w : BitVec 32) (hwf : wfBV len r w = true) :
    (ringbuf_empty bufp len r w).ub = false ∧ (ringbuf_empty bufp len r w).exh = false ∧
    (ringbuf_empty bufp len r w).rb_bufp = bufp ∧ (ringbuf_empty bufp len r w).rb_buf_len = len ∧
    (ringbuf_empty bufp len r w).rb_readi = r ∧ (ringbuf_empty bufp len r w).rb_writei = w ∧
    (ringbuf_empty bufp len r w).ret = (if r = w then 1#8 else 0#8) := by
  unfold wfBV at hwf
  unfold ringbuf_empty
  bv_decide (config := { timeout := 300 })

theorem init_generated (bufp0 len0 : BitVec 64) (r0 w0 : BitVec 32) (bufp len : BitVec 64) :
    (ringbuf_init bufp0 len0 r0 w0 bufp len).ub = false ∧ (ringbuf_init bufp0 len0 r0 w0 bufp len).exh = false ∧
    (ringbuf_init bufp0 len0 r0 w0 bufp len).rb_bufp = bufp ∧ (ringbuf_init bufp0 len0 r0 w0 bufp len).rb_buf_len = len ∧
    (ringbuf_init bufp0 len0 r0 w0 bufp len).rb_readi = 0#32 ∧ (ringbuf_init bufp0 len0 r0 w0 bufp len).rb_writei = 0#32 := by
  unfold ringbuf_init
  bv_decide (config := { timeout := 300 })

/-! ### layer 2 -/

theorem wrapBV_toNat (len i : Nat) (hl : len < 2 ^ 64) (hi : i < 2 ^ 32) :
    (wrapBV (BitVec.ofNat 64 len) (BitVec.ofNat 32 i)).toNat = wrap len i := by
  unfold wrapBV wrap U32
  have e1 : ((BitVec.ofNat 32 i + 1#32).setWidth 64).toNat = (i + 1) % 4294967296 := by
    simp only [BitVec.toNat_setWidth, BitVec.toNat_add, BitVec.toNat_ofNat]
    omega
  have hc : (BitVec.ofNat 64 len).ule ((BitVec.ofNat 32 i + 1#32).setWidth 64) = decide ((i + 1) % 4294967296 ≥ len) := by
    simp only [BitVec.ule, e1, BitVec.toNat_ofNat]
    rw [Nat.mod_eq_of_lt hl]
  rw [hc]
  by_cases h : (i + 1) % 4294967296 ≥ len
  · simp only [h, decide_true, if_true]
    simp only [BitVec.toNat_setWidth, BitVec.toNat_sub, e1, BitVec.toNat_ofNat]
    omega
  · simp only [h, decide_false, if_false, Bool.false_eq_true]
    simp only [BitVec.toNat_add, BitVec.toNat_ofNat]
    omega

theorem wf_of_nat (len r w : Nat) (h2 : 2 ≤ len) (hl : len ≤ 2 ^ 32) (hr : r < len) (hw : w < len) :
    wfBV (BitVec.ofNat 64 len) (BitVec.ofNat 32 r) (BitVec.ofNat 32 w) = true := by
  unfold wfBV
  simp only [Bool.and_eq_true, BitVec.ule, BitVec.ult, decide_eq_true_eq, BitVec.toNat_ofNat, BitVec.toNat_setWidth]
  refine ⟨⟨⟨?_, ?_⟩, ?_⟩, ?_⟩ <;> omega

/-- run a list of actions of the interleaving model, all of which must be enabled -/
def runActs : St → List Act → Option St
  | s, [] => some s
  | s, a :: as => match stepAct s a with
    | some s' => runActs s' as
    | none => none

/-- the memory represents the model's storage: cell `i` is the byte at `bufp + i` -/
def Abs (mem : Mem) (bufp : BitVec 64) (buf : Nat → UInt8) : Prop :=
  ∀ i, i < 2 ^ 32 → buf i = UInt8.ofBitVec (mem (bufp + BitVec.ofNat 64 i))

theorem ofNat32_inj (a b : Nat) (ha : a < 2 ^ 32) (hb : b < 2 ^ 32) : BitVec.ofNat 32 a = BitVec.ofNat 32 b ↔ a = b := by
  constructor
  · intro h
    have := congrArg BitVec.toNat h
    simp only [BitVec.toNat_ofNat] at this
    omega
  · intro h; rw [h]

theorem addr_inj (bufp : BitVec 64) (a b : Nat) (ha : a < 2 ^ 32) (hb : b < 2 ^ 32) :
    bufp + BitVec.ofNat 64 a = bufp + BitVec.ofNat 64 b ↔ a = b := by
  constructor
  · intro h
    have h' := (BitVec.add_right_inj bufp).1 h
    have := congrArg BitVec.toNat h'
    simp only [BitVec.toNat_ofNat] at this
    omega
  · intro h; rw [h]

theorem setWidth64_ofNat32 (i : Nat) (hi : i < 2 ^ 32) : (BitVec.ofNat 32 i).setWidth 64 = BitVec.ofNat 64 i := by
  apply BitVec.eq_of_toNat_eq
  simp only [BitVec.toNat_setWidth, BitVec.toNat_ofNat]
  omega

theorem wrap_lt (len i : Nat) : wrap len i < 2 ^ 32 := by
  unfold wrap U32
  split <;> omega

/-- **tie T, `ringbuf_put`**: the producer running one call alone from an idle state (the model's `put d`, then its
    `pstep`s) ends with the result, the published index and the storage the C function computes -/
theorem put_tie (s : St) (d : UInt8) (bufp : BitVec 64) (mem : Mem)
    (hp : s.p = .idle) (h2 : 2 ≤ s.len) (hl32 : s.len ≤ 2 ^ 32) (hrl : s.readi < s.len) (hwl : s.writei < s.len) (habs : Abs mem bufp s.buf) :
    let g := ringbuf_put bufp (BitVec.ofNat 64 s.len) (BitVec.ofNat 32 s.readi) (BitVec.ofNat 32 s.writei) d.toBitVec mem
    g.ub = false ∧ g.exh = false ∧
    ∃ s', runActs s (if wrap s.len s.writei = s.readi then [.put d, .pstep] else [.put d, .pstep, .pstep, .pstep]) = some s' ∧
      s'.p = .idle ∧ s'.plast = some (g.ret != 0#8) ∧ s'.writei = g.rb_writei.toNat ∧ s'.readi = g.rb_readi.toNat ∧
      s'.len = s.len ∧ Abs g.mem bufp s'.buf := by
  have hr : s.readi < 2 ^ 32 := by omega
  have hw : s.writei < 2 ^ 32 := by omega
  have hl : s.len < 2 ^ 64 := by omega
  have hwf := wf_of_nat s.len s.readi s.writei h2 hl32 hrl hwl
  obtain ⟨h1, h2, _, _, h5, h6, h7⟩ :=
    put_generated bufp (BitVec.ofNat 64 s.len) (BitVec.ofNat 32 s.readi) (BitVec.ofNat 32 s.writei) d.toBitVec mem hwf
  have hm := fun a => put_generated_mem bufp (BitVec.ofNat 64 s.len) (BitVec.ofNat 32 s.readi) (BitVec.ofNat 32 s.writei) d.toBitVec mem a hwf
  have hwr := wrapBV_toNat s.len s.writei hl hw
  have hwl := wrap_lt s.len s.writei
  have hc : (wrapBV (BitVec.ofNat 64 s.len) (BitVec.ofNat 32 s.writei) = BitVec.ofNat 32 s.readi) ↔ wrap s.len s.writei = s.readi := by
    constructor
    · intro h
      have := congrArg BitVec.toNat h
      rw [hwr] at this
      simp only [BitVec.toNat_ofNat] at this
      omega
    · intro h
      apply BitVec.eq_of_toNat_eq
      rw [hwr, h]
      simp only [BitVec.toNat_ofNat]
      omega
  refine ⟨h1, h2, ?_⟩
  by_cases hfull : wrap s.len s.writei = s.readi
  · have hfull' := hc.2 hfull
    rw [if_pos hfull]
    refine ⟨{ s with p := .idle, plast := some false }, ?_, rfl, ?_, ?_, ?_, rfl, ?_⟩
    · simp only [runActs, stepAct, hp, hfull, if_true]
    · rw [h6, if_pos hfull']; rfl
    · rw [h7, if_pos hfull']; simp only [BitVec.toNat_ofNat]; omega
    · rw [h5]; simp only [BitVec.toNat_ofNat]; omega
    · intro i hi
      rw [hm, if_pos hfull']
      exact habs i hi
  · have hfull' : ¬ wrapBV (BitVec.ofNat 64 s.len) (BitVec.ofNat 32 s.writei) = BitVec.ofNat 32 s.readi := fun h => hfull (hc.1 h)
    rw [if_neg hfull]
    refine ⟨{ s with buf := fun i => if i = s.writei then d else s.buf i, writei := wrap s.len s.writei, p := .idle,
                     plast := some true, sent := s.sent ++ [d] }, ?_, rfl, ?_, ?_, ?_, rfl, ?_⟩
    · simp only [runActs, stepAct, hp, hfull, if_false]
    · rw [h6, if_neg hfull']; rfl
    · rw [h7, if_neg hfull', hwr]
    · rw [h5]; simp only [BitVec.toNat_ofNat]; omega
    · intro i hi
      rw [hm, if_neg hfull', setWidth64_ofNat32 _ hw]
      by_cases e : i = s.writei
      · subst e; simp
      · have : ¬ bufp + BitVec.ofNat 64 i = bufp + BitVec.ofNat 64 s.writei := fun h => e ((addr_inj bufp i s.writei hi hw).1 h)
        simp only [e, this, if_false]
        exact habs i hi

/-- **tie T, `ringbuf_get`**: the consumer running one call alone from an idle state -/
theorem get_tie (s : St) (bufp : BitVec 64) (mem : Mem)
    (hc0 : s.c = .idle) (h2 : 2 ≤ s.len) (hl32 : s.len ≤ 2 ^ 32) (hrl : s.readi < s.len) (hwl : s.writei < s.len) (habs : Abs mem bufp s.buf) :
    let g := ringbuf_get bufp (BitVec.ofNat 64 s.len) (BitVec.ofNat 32 s.readi) (BitVec.ofNat 32 s.writei) mem
    g.ub = false ∧ g.exh = false ∧
    ∃ s', runActs s (if s.readi = s.writei then [.get, .cstep] else [.get, .cstep, .cstep, .cstep]) = some s' ∧
      s'.c = .idle ∧ s'.clast = some g.ret.toInt ∧ s'.readi = g.rb_readi.toNat ∧ s'.writei = g.rb_writei.toNat ∧
      s'.len = s.len ∧ Abs g.mem bufp s'.buf := by
  have hr : s.readi < 2 ^ 32 := by omega
  have hw : s.writei < 2 ^ 32 := by omega
  have hl : s.len < 2 ^ 64 := by omega
  have hwf := wf_of_nat s.len s.readi s.writei h2 hl32 hrl hwl
  obtain ⟨h1, h2, _, _, h5, h6, h7⟩ :=
    get_generated bufp (BitVec.ofNat 64 s.len) (BitVec.ofNat 32 s.readi) (BitVec.ofNat 32 s.writei) mem hwf
  have hm := fun a => get_generated_mem bufp (BitVec.ofNat 64 s.len) (BitVec.ofNat 32 s.readi) (BitVec.ofNat 32 s.writei) mem a hwf
  have hwr := wrapBV_toNat s.len s.readi hl hr
  have hc := ofNat32_inj s.readi s.writei hr hw
  refine ⟨h1, h2, ?_⟩
  by_cases hemp : s.readi = s.writei
  · have hemp' := hc.2 hemp
    rw [if_pos hemp]
    refine ⟨{ s with c := .idle, clast := some (-1) }, ?_, rfl, ?_, ?_, ?_, rfl, ?_⟩
    · simp only [runActs, stepAct, hc0, hemp, if_true]
    · rw [h6, if_pos hemp']; rfl
    · rw [h7, if_pos hemp']; simp only [BitVec.toNat_ofNat]; omega
    · rw [h5]; simp only [BitVec.toNat_ofNat]; omega
    · intro i hi; rw [hm]; exact habs i hi
  · have hemp' : ¬ BitVec.ofNat 32 s.readi = BitVec.ofNat 32 s.writei := fun h => hemp (hc.1 h)
    rw [if_neg hemp]
    refine ⟨{ s with readi := wrap s.len s.readi, c := .idle, clast := some (Int.ofNat (s.buf s.readi).toNat),
                     recv := s.recv ++ [s.buf s.readi] }, ?_, rfl, ?_, ?_, ?_, rfl, ?_⟩
    · simp only [runActs, stepAct, hc0, hemp, if_false]
    · rw [h6, if_neg hemp', setWidth64_ofNat32 _ hr, habs s.readi hr]
      congr 1
      have hb := (mem (bufp + BitVec.ofNat 64 s.readi)).isLt
      simp only [BitVec.toInt_eq_toNat_cond, BitVec.toNat_setWidth, UInt8.toNat_ofBitVec]
      rw [Nat.mod_eq_of_lt (by omega)]
      split
      · rfl
      · omega
    · rw [h7, if_neg hemp', hwr]
    · rw [h5]; simp only [BitVec.toNat_ofNat]; omega
    · intro i hi; rw [hm]; exact habs i hi

/-- **tie T, `ringbuf_empty`** -/
theorem empty_tie (s : St) (bufp : BitVec 64) (hc0 : s.c = .idle)
    (h2 : 2 ≤ s.len) (hl32 : s.len ≤ 2 ^ 32) (hrl : s.readi < s.len) (hwl : s.writei < s.len) :
    let g := ringbuf_empty bufp (BitVec.ofNat 64 s.len) (BitVec.ofNat 32 s.readi) (BitVec.ofNat 32 s.writei)
    g.ub = false ∧ g.exh = false ∧
    ∃ s', runActs s [.empty, .cstep] = some s' ∧ s'.c = .idle ∧ s'.clast = some g.ret.toInt ∧
      s'.readi = s.readi ∧ s'.writei = s.writei ∧ s'.buf = s.buf := by
  have hr : s.readi < 2 ^ 32 := by omega
  have hw : s.writei < 2 ^ 32 := by omega
  obtain ⟨h1, h2, _, _, _, _, h7⟩ := empty_generated bufp (BitVec.ofNat 64 s.len) (BitVec.ofNat 32 s.readi) (BitVec.ofNat 32 s.writei)
    (wf_of_nat s.len s.readi s.writei h2 hl32 hrl hwl)
  have hc := ofNat32_inj s.readi s.writei hr hw
  refine ⟨h1, h2, { s with c := .idle, clast := some (if s.readi = s.writei then 1 else 0) }, ?_, rfl, ?_, rfl, rfl, rfl⟩
  · simp only [runActs, stepAct, hc0]
  · rw [h7]
    by_cases e : s.readi = s.writei
    · rw [if_pos e, if_pos (hc.2 e)]; rfl
    · rw [if_neg e, if_neg (fun h => e (hc.1 h))]; rfl

/-- **tie T, `ringbuf_init`**: whatever the descriptor held, both indices are zero afterwards — the model's `init len 0` -/
theorem init_tie (bufp0 len0 : BitVec 64) (r0 w0 : BitVec 32) (bufp : BitVec 64) (len : Nat) (buf : Nat → UInt8) :
    let g := ringbuf_init bufp0 len0 r0 w0 bufp (BitVec.ofNat 64 len)
    g.ub = false ∧ g.exh = false ∧ g.rb_bufp = bufp ∧ g.rb_buf_len = BitVec.ofNat 64 len ∧
    (init len 0 buf).readi = g.rb_readi.toNat ∧ (init len 0 buf).writei = g.rb_writei.toNat := by
  obtain ⟨h1, h2, h3, h4, h5, h6⟩ := init_generated bufp0 len0 r0 w0 bufp (BitVec.ofNat 64 len)
  refine ⟨h1, h2, h3, h4, ?_, ?_⟩
  · rw [h5]; rfl
  · rw [h6]; rfl

end Librfn.C05.Tie

import Librfn.Gen.FibreSeq
import Librfn.Model.Fibre
import Std.Tactic.BVDecide
/-!
# C03 — tie T for `get_next_wakeup` (the value `fibre_scheduler_next` returns when no fibre yielded)

`get_next_wakeup` of `fibre.c` is regenerated on every run (`Gen/FibreSeq.lean`): the file-scope `kernel` is the state (its scalar
members variables, its two lists and its message queue at addresses that are parameters, `list_t` / `fibre_t` in memory with the
x86-64 layout), the inline `list_empty` / `list_peek` of `list.h` are inlined, `messageq_empty` is the environment (C04/C10 own it).

* `get_next_wakeup_generated` (`bv_decide`): the returned time as a word-level case analysis — `now` if the atomic queue is not empty or
  the run queue's head is not NULL, `now + 0x7fffffff` (`FIBRE_UNBOUNDED_SLEEP`) if the timer queue's head is NULL, otherwise the due time of
  the fibre whose `link` the timer queue's head points to; the kernel's scalars and the memory are not modified; `messageq_empty` is called
  once, on `&kernel.atomic_runq`;
* `get_next_wakeup_tie`: for a memory/kernel that represents the model state `k` (the queues are empty exactly when the model's lists are,
  the head of the timer queue is the link of its first sleeper, whose due time field holds `k.due`) the value is the model's
  `getNextWakeup k`, about which C03's "never oversleeps" theorems are proved.
-/
namespace Librfn.C03.TieWake
open Librfn.Gen Librfn.Gen.FibreSeq

/-- `containerof(n, fibre_t, link)->duetime` (x86-64 layout of `fibre_t`: `duetime` at 12, `link` at 16) -/
def dueAt (mem : Mem) (n : BitVec 64) : BitVec 32 := Mem.load32 mem (n - 4#64)

theorem get_next_wakeup_generated (cur : BitVec 64) (st now : BitVec 32) (runq aq timerq : BitVec 64) (taint : BitVec 32) (e : BitVec 8)
    (mem : Mem) :
    (get_next_wakeup cur st now runq aq timerq taint e mem).ub = false ∧ (get_next_wakeup cur st now runq aq timerq taint e mem).exh = false ∧
    (get_next_wakeup cur st now runq aq timerq taint e mem).kernel_now = now ∧
    (get_next_wakeup cur st now runq aq timerq taint e mem).kernel_state = st ∧
    (get_next_wakeup cur st now runq aq timerq taint e mem).kernel_current = cur ∧
    (get_next_wakeup cur st now runq aq timerq taint e mem).messageq_empty_called_1 = true ∧
    (get_next_wakeup cur st now runq aq timerq taint e mem).messageq_empty_arg_1_0 = aq := by
  unfold get_next_wakeup
  bv_decide (config := { timeout := 60 })

theorem get_next_wakeup_generated_mem (cur : BitVec 64) (st now : BitVec 32) (runq aq timerq : BitVec 64) (taint : BitVec 32) (e : BitVec 8)
    (mem : Mem) : (get_next_wakeup cur st now runq aq timerq taint e mem).mem = mem := rfl

/-- the value returned: a case analysis over the words the function reads -/
theorem get_next_wakeup_generated_ret (cur : BitVec 64) (st now : BitVec 32) (runq aq timerq : BitVec 64) (taint : BitVec 32) (e : BitVec 8)
    (mem : Mem) :
    (get_next_wakeup cur st now runq aq timerq taint e mem).ret =
      (if e = 0#8 ∨ Mem.load64 mem runq ≠ 0#64 then now
       else if Mem.load64 mem timerq = 0#64 then now + 0x7fffffff#32
       else dueAt mem (Mem.load64 mem timerq)) := by
  have h : ∃ a, (get_next_wakeup cur st now runq aq timerq taint e mem).ret =
      (if e = 0#8 ∨ Mem.load64 mem runq ≠ 0#64 then now
       else if Mem.load64 mem timerq = 0#64 then now + 0x7fffffff#32
       else Mem.load32 mem a) ∧ a = Mem.load64 mem timerq - 4#64 := by
    refine ⟨Mem.load64 mem timerq - 16#64 + 12#64, ?_, by bv_decide (config := { timeout := 60 })⟩
    unfold get_next_wakeup
    bv_decide (config := { timeout := 60 })
  obtain ⟨_, e1, rfl⟩ := h
  exact e1

/-- **tie T, `get_next_wakeup`** -/
theorem get_next_wakeup_tie (k : Librfn.Model.Fibre.K) (cur : BitVec 64) (st : BitVec 32) (runq aq timerq : BitVec 64) (taint : BitVec 32)
    (e : BitVec 8) (mem : Mem)
    (ha : e = 0#8 ↔ k.atomq ≠ [])                                  -- what `messageq_empty(&kernel.atomic_runq)` answers
    (hr : Mem.load64 mem runq ≠ 0#64 ↔ k.runq ≠ [])                -- `kernel.runq.head`
    (ht : Mem.load64 mem timerq = 0#64 ↔ k.timerq = [])            -- `kernel.timerq.head`
    (hd : ∀ f fs, k.timerq = f :: fs → dueAt mem (Mem.load64 mem timerq) = k.due f) :
    (get_next_wakeup cur st k.now runq aq timerq taint e mem).ret = Librfn.Model.Fibre.getNextWakeup k := by
  rw [get_next_wakeup_generated_ret]
  unfold Librfn.Model.Fibre.getNextWakeup
  by_cases c : k.atomq ≠ [] ∨ k.runq ≠ []
  · rw [if_pos c, if_pos (by rcases c with c | c; exact Or.inl (ha.2 c); exact Or.inr (hr.2 c))]
  · rw [if_neg c, if_neg (by rintro (x | x); exact c (Or.inl (ha.1 x)); exact c (Or.inr (hr.1 x)))]
    cases hq : k.timerq with
    | nil => rw [if_pos (ht.2 hq)]
    | cons f fs =>
      rw [if_neg (fun x => by have := ht.1 x; rw [hq] at this; cases this)]
      exact hd f fs hq

end Librfn.C03.TieWake

import Librfn.Gen.RotencSeq
import Librfn.Ref.Rotenc
import Std.Tactic.BVDecide
/-!
# C19 — tie T: the decoder regenerated from `rotenc.c` equals the reference the C19 theorems are about

`Librfn.Gen.RotencSeq.*` is regenerated on every run by `tools/c2lean2.py` (switch statements, constant tables, helper
functions inlined, loops unrolled).  For all 16-bit counts and every pair of 2-bit pin states — the inputs the property
quantifies over; `last_state` is only ever a previous `state` — the three functions compute what `Librfn.Ref.Rotenc`
computes (`bv_decide`): a rewrite that keeps the behaviour (a delta table, Gray-code arithmetic) re-proves, one that
changes it is answered with the falsifying state.
-/
namespace Librfn.C19.Tie
open Librfn.Gen.RotencSeq

theorem decode_generated (ls st : BitVec 8) (cnt ic : BitVec 16) (h1 : ls.ult 4#8 = true) (h2 : st.ult 4#8 = true) :
    (rotenc_decode ls cnt ic st).ub = false ∧ (rotenc_decode ls cnt ic st).exh = false ∧
    (rotenc_decode ls cnt ic st).r_last_state = (Librfn.Ref.Rotenc.rotenc_decode ls cnt ic st).1 ∧
    (rotenc_decode ls cnt ic st).r_count = (Librfn.Ref.Rotenc.rotenc_decode ls cnt ic st).2.1 ∧
    (rotenc_decode ls cnt ic st).r_internal_count = (Librfn.Ref.Rotenc.rotenc_decode ls cnt ic st).2.2 := by
  unfold rotenc_decode Librfn.Ref.Rotenc.rotenc_decode
  bv_decide (config := { timeout := 300 })

theorem count14_generated (ls : BitVec 8) (cnt ic : BitVec 16) :
    (rotenc_count14 ls cnt ic).ub = false ∧ (rotenc_count14 ls cnt ic).exh = false ∧
    (rotenc_count14 ls cnt ic).ret = (Librfn.Ref.Rotenc.rotenc_count14 ls cnt ic).1 ∧
    (rotenc_count14 ls cnt ic).r_last_state = ls ∧ (rotenc_count14 ls cnt ic).r_count = cnt ∧
    (rotenc_count14 ls cnt ic).r_internal_count = ic := by
  unfold rotenc_count14 Librfn.Ref.Rotenc.rotenc_count14
  bv_decide (config := { timeout := 300 })

theorem count_generated (ls : BitVec 8) (cnt ic : BitVec 16) :
    (rotenc_count ls cnt ic).ub = false ∧ (rotenc_count ls cnt ic).exh = false ∧
    (rotenc_count ls cnt ic).ret = (Librfn.Ref.Rotenc.rotenc_count ls cnt ic).1 ∧
    (rotenc_count ls cnt ic).r_last_state = ls ∧ (rotenc_count ls cnt ic).r_count = cnt ∧
    (rotenc_count ls cnt ic).r_internal_count = ic := by
  unfold rotenc_count Librfn.Ref.Rotenc.rotenc_count
  bv_decide (config := { timeout := 300 })

end Librfn.C19.Tie

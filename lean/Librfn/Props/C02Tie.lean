import Librfn.Props.C02TieCmp
import Librfn.Lemmas.SchedTime
/-!
# C02 — tie T for `fibre_timeout` (control skeleton; the comparator `duetime_cmp` is in `Props/C02TieCmp.lean`)
-/
namespace Librfn.C02.Tie
open Librfn.Gen Librfn.Gen.FibreSeq

/-! ### `fibre_timeout` (the list functions are the environment; `cyclecmp32` of `util.c` is inlined) -/

theorem fibre_timeout_generated (cur : BitVec 64) (st now : BitVec 32) (runq aq timerq : BitVec 64) (taint due : BitVec 32) (r1 : BitVec 8)
    (mem : Mem) :
    (fibre_timeout cur st now runq aq timerq taint due r1 mem).ub = false ∧ (fibre_timeout cur st now runq aq timerq taint due r1 mem).exh = false ∧
    (fibre_timeout cur st now runq aq timerq taint due r1 mem).kernel_current = cur ∧
    (fibre_timeout cur st now runq aq timerq taint due r1 mem).kernel_now = now ∧
    (fibre_timeout cur st now runq aq timerq taint due r1 mem).ret = (if BitVec.sle (due - now) 0#32 then 1#8 else 0#8) ∧
    (fibre_timeout cur st now runq aq timerq taint due r1 mem).list_contains_called_1 = (!BitVec.sle (due - now) 0#32) ∧
    (fibre_timeout cur st now runq aq timerq taint due r1 mem).list_contains_arg_1_0 = runq ∧
    (fibre_timeout cur st now runq aq timerq taint due r1 mem).list_contains_arg_1_1 = cur + 16#64 ∧
    (fibre_timeout cur st now runq aq timerq taint due r1 mem).list_contains_arg_1_2 = 0#64 ∧
    (fibre_timeout cur st now runq aq timerq taint due r1 mem).list_insert_sorted_called_1 = (!BitVec.sle (due - now) 0#32 && r1 == 0#8) ∧
    (fibre_timeout cur st now runq aq timerq taint due r1 mem).list_insert_sorted_arg_1_0 = timerq ∧
    (fibre_timeout cur st now runq aq timerq taint due r1 mem).list_insert_sorted_arg_1_1 = cur + 16#64 ∧
    (fibre_timeout cur st now runq aq timerq taint due r1 mem).list_insert_sorted_arg_1_2 = fibre_timeout.tag_fn_duetime_cmp := by
  unfold fibre_timeout fibre_timeout.tag_fn_duetime_cmp
  bv_decide (config := { timeout := 60 })

/-- the memory: untouched when the due time has passed, otherwise `kernel.current->duetime = duetime` and nothing else -/
theorem fibre_timeout_generated_mem (cur : BitVec 64) (st now : BitVec 32) (runq aq timerq : BitVec 64) (taint due : BitVec 32) (r1 : BitVec 8)
    (mem : Mem) :
    (fibre_timeout cur st now runq aq timerq taint due r1 mem).mem =
      (if BitVec.sle (due - now) 0#32 then mem else Mem.store32 mem (cur + 12#64) due) := by
  funext a
  unfold fibre_timeout Mem.store32 Mem.store16
  simp only [Mem.ite_app, Mem.store_app]
  bv_decide (config := { timeout := 60 })

/-- **tie T, `fibre_timeout`, the decision**: it returns true exactly when the model's `notAfter due now` holds (the signed reading of
    the wrapping difference, via the `cyclecmp32` of `util.c`), and only otherwise looks at the queues -/
theorem fibre_timeout_tie (cur : BitVec 64) (st now : BitVec 32) (runq aq timerq : BitVec 64) (taint due : BitVec 32) (r1 : BitVec 8)
    (mem : Mem) :
    ((fibre_timeout cur st now runq aq timerq taint due r1 mem).ret ≠ 0#8 ↔ Librfn.Model.Fibre.notAfter due now = true) ∧
    ((fibre_timeout cur st now runq aq timerq taint due r1 mem).list_contains_called_1 = !Librfn.Model.Fibre.notAfter due now) ∧
    ((fibre_timeout cur st now runq aq timerq taint due r1 mem).list_insert_sorted_called_1 =
      (!Librfn.Model.Fibre.notAfter due now && r1 == 0#8)) := by
  obtain ⟨_, _, _, _, h5, h6, _, _, _, h10, _⟩ := fibre_timeout_generated cur st now runq aq timerq taint due r1 mem
  have hn : Librfn.Model.Fibre.notAfter due now = BitVec.sle (due - now) 0#32 := by
    simp only [Librfn.Model.Fibre.notAfter, Librfn.Sched.L.cyclecmp32_tie, BitVec.sle, BitVec.toInt_zero]
  rw [h5, h6, h10, hn]
  refine ⟨?_, rfl, rfl⟩
  cases BitVec.sle (due - now) 0#32 <;> simp

end Librfn.C02.Tie

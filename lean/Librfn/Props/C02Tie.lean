import Librfn.Gen.FibreSeq
import Librfn.Model.Fibre
import Librfn.Lemmas.SchedTime
import Std.Tactic.BVDecide
import Librfn.Gen.Ackermann
/-!
# C02 — tie T for the comparator of the scheduler's timer queue (`duetime_cmp` of `fibre.c`)

`fibre_timeout` files the sleeping fibre with `list_insert_sorted(&kernel.timerq, &f->link, duetime_cmp)`.  `duetime_cmp` is
regenerated from `/repo/librfn/fibre.c` on every run (`Gen/FibreSeq.lean`; `fibre_t` in memory with the x86-64 layout
`fn` 0, `state` 8, `priv` 10, `duetime` 12, `link` 16, so `containerof(n, fibre_t, link)->duetime` is the 32-bit word at `n - 4`).

* `duetime_cmp_generated`: the value returned is `duetime(n1) - duetime(n2)` as a 32-bit difference, nothing is written, no
  undefined operation;
* `duetime_cmp_tie`: `duetime_cmp(n1, n2) >= 0` is the model's `dueGe` — the wrapping subtraction read as signed, which is what makes
  the order of the timer queue independent of where the 32-bit time base stands (C02's `time_shift_invariance` is proved about
  `dueGe`);
* (`Props/C09TieSched.lean`, proved by the C09 check) `duetime_cmp_agrees`: as a pure function of two node addresses (the memory the due
  times are read from held fixed) it satisfies the hypothesis `C09.Tie.CmpAgrees` under which `sorted_tie` ties `list_insert_sorted`
  to the sequence model for every list length.
-/
namespace Librfn.C02.Tie
open Librfn.Gen Librfn.Gen.FibreSeq

/-- `containerof(n, fibre_t, link)->duetime` -/
def dueAt (mem : Mem) (n : BitVec 64) : BitVec 32 := Mem.load32 mem (n - 4#64)

theorem duetime_cmp_generated (n1 n2 : BitVec 64) (mem : Mem) :
    (duetime_cmp n1 n2 mem).ub = false ∧ (duetime_cmp n1 n2 mem).exh = false ∧ (duetime_cmp n1 n2 mem).mem = mem ∧
    (duetime_cmp n1 n2 mem).ret = dueAt mem n1 - dueAt mem n2 := by
  refine ⟨?_, ?_, ?_, ?_⟩
  · first | rfl | (unfold duetime_cmp; bv_decide (config := { timeout := 60 }))
  · first | rfl | (unfold duetime_cmp; bv_decide (config := { timeout := 60 }))
  · first | rfl | (unfold duetime_cmp; simp only [])
  · -- the two due times are opaque 32-bit loads; their addresses are compared through explicit congruence facts
    unfold duetime_cmp dueAt
    simp only []
    ackermann (Mem.load32 mem)
    bv_decide (config := { timeout := 60 })

/-- **tie T, `duetime_cmp`**: the sign test `list_insert_sorted` applies is the model's `dueGe` -/
theorem duetime_cmp_tie (due : Librfn.Sched.Fid → BitVec 32) (f x : Librfn.Sched.Fid) (n1 n2 : BitVec 64) (mem : Mem)
    (h1 : dueAt mem n1 = due f) (h2 : dueAt mem n2 = due x) :
    BitVec.sle 0#32 (duetime_cmp n1 n2 mem).ret = Librfn.Model.Fibre.dueGe due f x := by
  rw [(duetime_cmp_generated n1 n2 mem).2.2.2, h1, h2]
  simp only [BitVec.sle, Librfn.Model.Fibre.dueGe, BitVec.toInt_zero, ge_iff_le]

/-! ### `fibre_timeout` (the list functions are the environment; `cyclecmp32` of `util.c` is inlined) -/

theorem fibre_timeout_generated (cur : BitVec 64) (st now : BitVec 32) (runq aq timerq : BitVec 64) (taint due : BitVec 32) (r1 : BitVec 8)
    (mem : Mem) :
    (fibre_timeout cur st now runq aq timerq taint due r1 mem).ub = false ∧ (fibre_timeout cur st now runq aq timerq taint due r1 mem).exh = false ∧
    (fibre_timeout cur st now runq aq timerq taint due r1 mem).kernel_current = cur ∧
    (fibre_timeout cur st now runq aq timerq taint due r1 mem).kernel_now = now ∧
    (fibre_timeout cur st now runq aq timerq taint due r1 mem).ret = (if BitVec.sle (due - now) 0#32 then 1#8 else 0#8) ∧
    (fibre_timeout cur st now runq aq timerq taint due r1 mem).list_contains_called_1 = (!BitVec.sle (due - now) 0#32) ∧
    (fibre_timeout cur st now runq aq timerq taint due r1 mem).list_contains_arg_1_0 = runq ∧
    (fibre_timeout cur st now runq aq timerq taint due r1 mem).list_contains_arg_1_1 = cur + 16#64 ∧
    (fibre_timeout cur st now runq aq timerq taint due r1 mem).list_contains_arg_1_2 = 0#64 ∧
    (fibre_timeout cur st now runq aq timerq taint due r1 mem).list_insert_sorted_called_1 = (!BitVec.sle (due - now) 0#32 && r1 == 0#8) ∧
    (fibre_timeout cur st now runq aq timerq taint due r1 mem).list_insert_sorted_arg_1_0 = timerq ∧
    (fibre_timeout cur st now runq aq timerq taint due r1 mem).list_insert_sorted_arg_1_1 = cur + 16#64 ∧
    (fibre_timeout cur st now runq aq timerq taint due r1 mem).list_insert_sorted_arg_1_2 = fibre_timeout.tag_fn_duetime_cmp := by
  unfold fibre_timeout fibre_timeout.tag_fn_duetime_cmp
  bv_decide (config := { timeout := 60 })

/-- the memory: untouched when the due time has passed, otherwise `kernel.current->duetime = duetime` and nothing else -/
theorem fibre_timeout_generated_mem (cur : BitVec 64) (st now : BitVec 32) (runq aq timerq : BitVec 64) (taint due : BitVec 32) (r1 : BitVec 8)
    (mem : Mem) :
    (fibre_timeout cur st now runq aq timerq taint due r1 mem).mem =
      (if BitVec.sle (due - now) 0#32 then mem else Mem.store32 mem (cur + 12#64) due) := by
  unfold fibre_timeout
  simp only []
  split <;> simp_all

/-- **tie T, `fibre_timeout`, the decision**: it returns true exactly when the model's `notAfter due now` holds (the signed reading of
    the wrapping difference, via the `cyclecmp32` of `util.c`), and only otherwise looks at the queues -/
theorem fibre_timeout_tie (cur : BitVec 64) (st now : BitVec 32) (runq aq timerq : BitVec 64) (taint due : BitVec 32) (r1 : BitVec 8)
    (mem : Mem) :
    ((fibre_timeout cur st now runq aq timerq taint due r1 mem).ret ≠ 0#8 ↔ Librfn.Model.Fibre.notAfter due now = true) ∧
    ((fibre_timeout cur st now runq aq timerq taint due r1 mem).list_contains_called_1 = !Librfn.Model.Fibre.notAfter due now) ∧
    ((fibre_timeout cur st now runq aq timerq taint due r1 mem).list_insert_sorted_called_1 =
      (!Librfn.Model.Fibre.notAfter due now && r1 == 0#8)) := by
  obtain ⟨_, _, _, _, h5, h6, _, _, _, h10, _⟩ := fibre_timeout_generated cur st now runq aq timerq taint due r1 mem
  have hn : Librfn.Model.Fibre.notAfter due now = BitVec.sle (due - now) 0#32 := by
    simp only [Librfn.Model.Fibre.notAfter, Librfn.Sched.L.cyclecmp32_tie, BitVec.sle, BitVec.toInt_zero]
  rw [h5, h6, h10, hn]
  refine ⟨?_, rfl, rfl⟩
  cases BitVec.sle (due - now) 0#32 <;> simp

end Librfn.C02.Tie

import Librfn.Ref.Rotenc
import Std.Tactic.BVDecide
/-!
# C19 — rotary encoder count equals net detent crossings for any signal sequence

`Librfn.Ref.Rotenc` is the reference decoder (the frozen translation of the pinned `rotenc.c`); `Props/C19Tie.lean` proves on
every run that the code regenerated from `/repo/librfn/rotenc.c` (+ `rotenc.h`) by tools/c2lean2.py equals it on all inputs (tie T).
The decoder state is `(last_state : BitVec 8, count, internal_count : BitVec 16)`.

Specification (independent of the code): the true position `P : Int` in quarter steps changes by
`delta from to` (+1 on the four clockwise single-bit transitions of the Gray cycle 0→1→3→2→0, −1 on
the four anticlockwise ones, 0 otherwise — repeated states and two-bit jumps); `L` is `P` as of the
most recent decode whose state was the detent state 0.
-/
namespace Librfn.C19
open Librfn.Ref.Rotenc

/-- signed quarter-step change for a (from, to) pair of 2-bit states -/
def delta (f t : BitVec 2) : Int :=
  if (f = 0 ∧ t = 1) ∨ (f = 1 ∧ t = 3) ∨ (f = 3 ∧ t = 2) ∨ (f = 2 ∧ t = 0) then 1
  else if (f = 0 ∧ t = 2) ∨ (f = 2 ∧ t = 3) ∨ (f = 3 ∧ t = 1) ∨ (f = 1 ∧ t = 0) then -1 else 0

/-- the same as a 16-bit two's complement number -/
def deltaBV (f t : BitVec 2) : BitVec 16 :=
  if (f = 0 ∧ t = 1) ∨ (f = 1 ∧ t = 3) ∨ (f = 3 ∧ t = 2) ∨ (f = 2 ∧ t = 0) then 1#16
  else if (f = 0 ∧ t = 2) ∨ (f = 2 ∧ t = 3) ∨ (f = 3 ∧ t = 1) ∨ (f = 1 ∧ t = 0) then 0xffff#16 else 0#16

theorem deltaBV_eq (f t : BitVec 2) : deltaBV f t = BitVec.ofInt 16 (delta f t) := by
  unfold deltaBV delta; split
  · rfl
  · split <;> rfl

/-- one decode step of the generated code: all 16 (from, to) pairs, all counts, all latched values -/
theorem step_delta_components (f t : BitVec 2) (cnt ic : BitVec 16) :
    (rotenc_decode (f.setWidth 8) cnt ic (t.setWidth 8)).1 = t.setWidth 8 ∧
    (rotenc_decode (f.setWidth 8) cnt ic (t.setWidth 8)).2.1 = (if t = 0 then (ic + deltaBV f t) >>> 2 else cnt) ∧
    (rotenc_decode (f.setWidth 8) cnt ic (t.setWidth 8)).2.2 = ic + deltaBV f t := by
  simp only [rotenc_decode, deltaBV]
  bv_decide (config := { timeout := 300 })

theorem step_delta (f t : BitVec 2) (cnt ic : BitVec 16) :
    rotenc_decode (f.setWidth 8) cnt ic (t.setWidth 8)
      = (t.setWidth 8, (if t = 0 then (ic + deltaBV f t) >>> 2 else cnt), ic + deltaBV f t) := by
  obtain ⟨h1, h2, h3⟩ := step_delta_components f t cnt ic
  exact Prod.ext h1 (Prod.ext h2 h3)

/-- abstract (unbounded) encoder -/
structure Abs where
  P : Int      -- true position, quarter steps
  L : Int      -- position at the most recent rest at the detent state
  cur : BitVec 2
deriving Repr, DecidableEq

def Abs.init : Abs := ⟨0, 0, 0⟩
def Abs.step (a : Abs) (t : BitVec 2) : Abs :=
  { P := a.P + delta a.cur t, L := if t = 0 then a.P + delta a.cur t else a.L, cur := t }

/-- concrete decoder state as the generated code sees it -/
abbrev Conc := BitVec 8 × BitVec 16 × BitVec 16
def Conc.init : Conc := (0, 0, 0)          -- ROTENC_VAR_INIT
def Conc.step (c : Conc) (t : BitVec 2) : Conc := rotenc_decode c.1 c.2.1 c.2.2 (t.setWidth 8)

def Rel (a : Abs) (c : Conc) : Prop :=
  c.1 = a.cur.setWidth 8 ∧ c.2.2 = BitVec.ofInt 16 a.P ∧ c.2.1 = BitVec.ofInt 16 a.L >>> 2

theorem rel_init : Rel Abs.init Conc.init := by
  refine ⟨rfl, rfl, rfl⟩

theorem rel_step (a : Abs) (c : Conc) (t : BitVec 2) (h : Rel a c) : Rel (a.step t) (c.step t) := by
  obtain ⟨h1, h2, h3⟩ := h
  unfold Conc.step
  rw [h1, step_delta, deltaBV_eq, h2, ← BitVec.ofInt_add]
  refine ⟨rfl, rfl, ?_⟩
  simp only [Abs.step]
  split
  · rfl
  · exact h3

/-- **every sequence of 2-bit states** from the initial decoder: the concrete state tracks the
    abstract encoder (position mod 2^16, latched clicks) -/
theorem run_rel (xs : List (BitVec 2)) : Rel (xs.foldl Abs.step Abs.init) (xs.foldl Conc.step Conc.init) := by
  suffices h : ∀ a c, Rel a c → Rel (xs.foldl Abs.step a) (xs.foldl Conc.step c) from h _ _ rel_init
  induction xs with
  | nil => intro a c h; exact h
  | cons x xs ih => intro a c h; exact ih _ _ (rel_step a c x h)

/-- the same from **every** decoder state that is consistent with some history (`Rel`) -/
theorem run_rel_from (a : Abs) (c : Conc) (h : Rel a c) (xs : List (BitVec 2)) :
    Rel (xs.foldl Abs.step a) (xs.foldl Conc.step c) := by
  induction xs generalizing a c with
  | nil => exact h
  | cons x xs ih => exact ih _ _ (rel_step a c x h)

theorem ofInt16_toNat (z : Int) : ((BitVec.ofInt 16 z).toNat : Int) = z % 65536 := by
  simp only [BitVec.toNat_ofInt]
  omega

theorem latched_toNat (L : Int) : (((BitVec.ofInt 16 L) >>> 2).toNat : Int) = (L / 4) % 16384 := by
  rw [BitVec.toNat_ushiftRight, Nat.shiftRight_eq_div_pow]
  have := ofInt16_toNat L
  omega

/-- **quarter-step exactness**: the internal position is the true position modulo 2^16 — so it moves
    by exactly +1 / −1 / 0 per transition and bounce cancels exactly -/
theorem position_exact (xs : List (BitVec 2)) :
    ((xs.foldl Conc.step Conc.init).2.2.toNat : Int) = (xs.foldl Abs.step Abs.init).P % 65536 := by
  rw [(run_rel xs).2.1]; exact ofInt16_toNat _

/-- bounce between neighbouring states cancels exactly in the true position -/
theorem bounce_cancels (f t : BitVec 2) : delta f t + delta t f = 0 := by
  revert f t; decide

/-- **rotenc_count** = latched position in whole clicks, modulo 256 -/
theorem count_is_latched_clicks (xs : List (BitVec 2)) :
    let c := xs.foldl Conc.step Conc.init
    ((rotenc_count c.1 c.2.1 c.2.2).1.toNat : Int) = ((xs.foldl Abs.step Abs.init).L / 4) % 256 := by
  intro c
  have h := (run_rel xs).2.2
  have e : (rotenc_count c.1 c.2.1 c.2.2).1 = BitVec.setWidth 8 c.2.1 := rfl
  rw [e, BitVec.toNat_setWidth, h]
  have := latched_toNat (xs.foldl Abs.step Abs.init).L
  omega

/-- **rotenc_count14** = the same latched position, modulo 2^14, at all times -/
theorem count14_is_latched_clicks (xs : List (BitVec 2)) :
    let c := xs.foldl Conc.step Conc.init
    ((rotenc_count14 c.1 c.2.1 c.2.2).1.toNat : Int) = ((xs.foldl Abs.step Abs.init).L / 4) % 16384 := by
  intro c
  have h := (run_rel xs).2.2
  have e : (rotenc_count14 c.1 c.2.1 c.2.2).1 = BitVec.setWidth 16 ((BitVec.setWidth 32 c.2.1) &&& 16383#32) := rfl
  have hl := latched_toNat (xs.foldl Abs.step Abs.init).L
  rw [e, BitVec.toNat_setWidth, BitVec.toNat_and, BitVec.toNat_setWidth, h]
  have hm : (16383#32).toNat = 2 ^ 14 - 1 := by decide
  rw [hm, Nat.and_two_pow_sub_one_eq_mod]
  omega

/-- the two readings agree in their low 8 bits -/
theorem low8_agree (xs : List (BitVec 2)) :
    let c := xs.foldl Conc.step Conc.init
    (rotenc_count14 c.1 c.2.1 c.2.2).1.toNat % 256 = (rotenc_count c.1 c.2.1 c.2.2).1.toNat := by
  have h1 := count_is_latched_clicks xs
  have h2 := count14_is_latched_clicks xs
  simp only at h1 h2 ⊢
  omega

/-! ### never more than one click from the true position (sequences without two-bit jumps) -/

/-- position of a state on the Gray cycle 0→1→3→2 -/
def gray (s : BitVec 2) : Int := if s = 0 then 0 else if s = 1 then 1 else if s = 3 then 2 else 3

/-- no two-bit jump: `to` equals `from` or differs from it in exactly one bit -/
def NoJump (f t : BitVec 2) : Prop := t ≠ f ^^^ 3

def ValidFrom : BitVec 2 → List (BitVec 2) → Prop
  | _, [] => True
  | f, t :: ts => NoJump f t ∧ ValidFrom t ts

def Near (a : Abs) : Prop := a.P - a.L = gray a.cur ∨ (a.cur ≠ 0 ∧ a.P - a.L = gray a.cur - 4)

theorem near_step (a : Abs) (t : BitVec 2) (h : Near a) (hv : NoJump a.cur t) : Near (a.step t) := by
  obtain ⟨P, L, cur⟩ := a
  simp only [Near, Abs.step, NoJump] at *
  revert h hv
  have hc : cur = 0 ∨ cur = 1 ∨ cur = 2 ∨ cur = 3 := by revert cur; decide
  have ht : t = 0 ∨ t = 1 ∨ t = 2 ∨ t = 3 := by revert t; decide
  rcases hc with rfl | rfl | rfl | rfl <;> rcases ht with rfl | rfl | rfl | rfl <;>
    simp (config := { decide := true }) [delta, gray] <;> (try omega)

/-- **within one click**: on every sequence without invalid two-bit jumps the true position is
    always less than one click (4 quarter steps) from the latched one, so neither reading is ever
    more than one click from the true position -/
theorem within_one_click (xs : List (BitVec 2)) (hv : ValidFrom 0 xs) :
    (-3 : Int) ≤ (xs.foldl Abs.step Abs.init).P - (xs.foldl Abs.step Abs.init).L ∧
    (xs.foldl Abs.step Abs.init).P - (xs.foldl Abs.step Abs.init).L ≤ 3 := by
  have key : ∀ (xs : List (BitVec 2)) (a : Abs), Near a → ValidFrom a.cur xs → Near (xs.foldl Abs.step a) := by
    intro xs
    induction xs with
    | nil => intro a h _; exact h
    | cons x xs ih =>
      intro a h hv
      exact ih _ (near_step a x h hv.1) hv.2
  have hn := key xs Abs.init (Or.inl (by decide)) hv
  generalize xs.foldl Abs.step Abs.init = a at hn ⊢
  have hg : ∀ s : BitVec 2, 0 ≤ gray s ∧ gray s ≤ 3 := by decide
  obtain ⟨g1, g2⟩ := hg a.cur
  unfold Near at hn
  have hg' : ∀ s : BitVec 2, s ≠ 0 → 1 ≤ gray s := by decide
  rcases hn with h | ⟨hz, h⟩
  · constructor <;> omega
  · have := hg' a.cur hz
    constructor <;> omega

-- non-vacuity: a full clockwise click and a bounce, through the generated code
example : [1, 3, 2, 0].foldl Conc.step Conc.init = (0#8, 1#16, 4#16) := by decide
example : ValidFrom 0 [1, 3, 1, 3, 2, 0, 2] := by simp (config := { decide := true }) [ValidFrom, NoJump]
example : [1, 0, 2].foldl Abs.step Abs.init = ⟨-1, 0, 2⟩ := by decide

end Librfn.C19

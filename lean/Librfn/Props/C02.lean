import Librfn.Props.C01
import Librfn.Lemmas.SchedShift
/-!
# C02 — fibre timeouts never fire early, fire in due order, survive 32-bit time wrap, are cancelled by other wake-ups

Same model / specification as C01.  The specification carries **true** due times (`Int`); the model sees
them mod 2^32 and compares them with the `cyclecmp32` *generated* from util.c (tie T) and with `duetime_cmp`.
`sched_refines_spec` (C01) already says that the model's dispatch order is the specification's for every
in-scope history wherever the time base lies; the theorems here are the clauses of C02, proved about the
model's functions (not restatements of the specification), plus `time_shift_invariance`, which holds for
every history and every offset `c : BitVec 32` — both wrap seams are just particular offsets.
Kernel-only (`bv_omega` reduces to `omega`; no `bv_decide`).
-/
namespace Librfn.C02
open Librfn.Sched Librfn.Model.Fibre Librfn.Spec.Sched Librfn.Sched.L

/-- **half-window lemma**: for true times less than 2^31 apart the signed 32-bit difference of their
    truncations is the true difference — what makes every comparison in fibre.c cyclic -/
theorem cyclecmp_window (a b : Int) (h : -2147483648 ≤ a - b ∧ a - b < 2147483648) :
    (Librfn.Gen.Util.cyclecmp32 (w32 a) (w32 b)).toInt = a - b := by
  rw [cyclecmp32_tie]
  exact sub_toInt_window a b h

/-- **fibre_timeout(D) returns true exactly when D is not after the time given to the current pass** -/
theorem timeout_ret (k : K) (c : Fid) (T D : Int) (hnow : k.now = w32 T)
    (hwin : T - 2147483648 < D ∧ D < T + 2147483648) :
    (fibreTimeout k c (w32 D)).2 = decide (D ≤ T) := by
  unfold fibreTimeout
  rw [hnow, notAfter_w32 D T (by omega)]
  by_cases hle : D ≤ T
  · simp [hle]
  · simp [hle]

/-- **never early**: a fibre whose only outstanding reason is a sleep until `D` is not dispatched by a pass at
    `T < D` (whatever else happens in that pass's intake), and it is still asleep afterwards -/
theorem no_early_fire {k : K} {a : A} {last : Option Int} (h : Sim k a last) (T : Int) (s : List (Call Int)) (ret : Ret)
    (hok : opOk a last (.next T s ret) = true) {f : Fid} {D : Int} (hs : (f, D) ∈ a.sleepers) (hT : T < D)
    (hp : f ∉ a.pend) (hy : a.yielder ≠ some f) :
    (schedulerNext k (w32 T) (s.map (Call.map w32)) ret).2.disp.map (·.1) ≠ some f
    ∧ (f, D) ∈ (a.intake T).sleepers := by
  refine ⟨?_, ?_⟩
  · intro hd
    rcases C01.dispatched_exactly_when_runnable h T s ret hok f hd with (hr | hr | hr) | ⟨x, hx, e, hle⟩
    · exact h.q.disj f hr (mem_fids.mpr ⟨(f, D), hs, rfl⟩)
    · exact hp hr
    · exact hy hr
    · have := inj_of_nodup_map Prod.fst h.q.slNodup x hx (f, D) hs e
      subst this
      exact absurd hle (by simp only; omega)
  · unfold A.intake A.expire
    show (f, D) ∈ a.drain.requeueYielder.sleepers.filter _
    rw [List.mem_filter]
    refine ⟨mem_sleepers_requeue.mpr ⟨mem_sleepers_drain.mpr ⟨hs, hp⟩, ?_⟩, by simp only [decide_eq_true_eq]; omega⟩
    rw [(aframe_drain a).1.yielder]; exact hy

/-- **fires in the first pass with T ≥ D**: the sleeper is in the run queue after the intake of that pass —
    in the concrete model it is the dispatched fibre or on `kernel.runq` when the fibre body starts -/
theorem fires_first_pass {k : K} {a : A} {last : Option Int} (h : Sim k a last) (T : Int) (s : List (Call Int)) (ret : Ret)
    (hok : opOk a last (.next T s ret) = true) {f : Fid} {D : Int} (hs : (f, D) ∈ a.sleepers) (hT : D ≤ T) :
    f ∈ (a.intake T).rq
    ∧ ((prelude { k with now := w32 T }).current = some f ∨ f ∈ (prelude { k with now := w32 T }).runq) := by
  obtain ⟨h1, h2, _, _⟩ := opOk_next hok
  have hmem : f ∈ (a.intake T).rq := by
    rw [mem_rq_intake]
    by_cases hp : f ∈ a.pend
    · exact Or.inl (Or.inr (Or.inl hp))
    · by_cases hy : a.yielder = some f
      · exact Or.inl (Or.inr (Or.inr hy))
      · refine Or.inr ⟨(f, D), mem_sleepers_requeue.mpr ⟨mem_sleepers_drain.mpr ⟨hs, hp⟩, ?_⟩, rfl, hT⟩
        rw [(aframe_drain a).1.yielder]; exact hy
  refine ⟨hmem, ?_⟩
  obtain ⟨_, _, _, _, hcons⟩ := sim_prelude (h.setNow (w32 T)) rfl h1 h2
  cases hrq : (a.intake T).rq with
  | nil => rw [hrq] at hmem; cases hmem
  | cons d rest =>
    obtain ⟨hcur, _, hq⟩ := hcons d rest hrq
    rw [hrq] at hmem
    rcases List.mem_cons.mp hmem with e | e
    · subst e; exact Or.inl hcur
    · right
      have := (hq { a.intake T with rq := rest } rfl rfl rfl).rq
      rw [this]; exact e

/-- **due order**: `handle_timerq` at pass time `T` moves exactly the sleepers with `D ≤ T` to the tail of the
    run queue, in due-time order, registration order for equal due times, and leaves the others queued in that
    order (`k` any state related to the specification, e.g. the one `fibre_scheduler_next` has reached) -/
theorem expiry_order {k : K} {a : A} {b : Option Int} {T : Int} (h : SimQ k a b) (hnow : k.now = w32 T)
    (hw : ∀ x ∈ a.sleepers, -2147483648 ≤ x.2 - T ∧ x.2 - T < 2147483648) :
    (handleTimerq k).runq = k.runq ++ fids (sortByDue (a.sleepers.filter (fun x => decide (x.2 ≤ T))))
    ∧ (handleTimerq k).timerq = fids (sortByDue (a.sleepers.filter (fun x => decide (¬ x.2 ≤ T)))) := by
  have h3 := simQ_handleTimerq h hnow hw
  exact ⟨by rw [h3.rq, h.rq]; rfl, h3.tq⟩

/-- `sortByDue` really is "by due time, registration order for ties": sorted, a permutation, and stable -/
theorem expiry_order_is_due_then_registration (l : List (Fid × Int)) :
    (sortByDue l).Pairwise (fun x y => x.2 ≤ y.2) ∧ (sortByDue l).Perm l
    ∧ ∀ D, (sortByDue l).filter (fun x => decide (x.2 = D)) = l.filter (fun x => decide (x.2 = D)) :=
  ⟨sorted_sortByDue l, sortByDue_perm l, sortByDue_stable l⟩

/-- shifting every time stamp of a history (as the code sees it) by `c` -/
def shift (c : BitVec 32) (h : List (Op (BitVec 32))) : List (Op (BitVec 32)) := h.map (Op.map (· + c))

/-- **time-shift invariance**: for every history (in scope or not) and every `c : BitVec 32`, running the shifted
    history gives the same dispatches, results and `fibre_self`, and wake-up times shifted by `c`.  Every
    placement of the time base in the 32-bit ring — in particular windows straddling 0xffffffff→0 and
    0x7fffffff→0x80000000 — behaves identically. -/
theorem time_shift_invariance (c : BitVec 32) (h : List (Op (BitVec 32))) :
    runModel (shift c h) = (runModel h).map (shiftOut c) :=
  sh_runFrom h Model.Fibre.init Model.Fibre.init (Sh.refl_init c)

theorem wrap_shift (C : Int) (h : List (Op Int)) :
    wrap (h.map (Op.map (· + C))) = shift (w32 C) (wrap h) := by
  unfold wrap shift
  rw [List.map_map, List.map_map]
  apply List.map_congr_left
  intro op _
  cases op with
  | run f => rfl
  | runAtomic f => rfl
  | kill f => rfl
  | next t s r =>
    simp only [Function.comp, Op.map, List.map_map, w32_add]
    congr 1
    apply List.map_congr_left
    intro cl _
    cases cl <;> simp [Call.map, Function.comp, w32_add]

/-- … in terms of true times: moving the whole history by any number of ticks `C` changes nothing but the
    returned wake-up times, which move by `C` (mod 2^32) -/
theorem time_base_irrelevant (C : Int) (h : List (Op Int)) :
    runModel (wrap (h.map (Op.map (· + C)))) = (runModel (wrap h)).map (shiftOut (w32 C)) := by
  rw [wrap_shift]; exact time_shift_invariance (w32 C) (wrap h)

/-- **cancellation**: after `fibre_run f`, after `fibre_kill f`, and after the re-queue of a yielding `f`, the fibre
    is no longer on the timer queue (any state satisfying the queue invariant, i.e. every reachable state) … -/
theorem cancel_on_run_kill_yield {k : K} (hk : QInv k) (f : Fid) :
    f ∉ (fibreRun k f).timerq ∧ f ∉ (fibreKill k f).1.timerq
    ∧ (k.state = .yielded → f ∉ (updateCurrent k f).timerq) := by
  have hk0 : QInv { k with atomq := [] } := ⟨hk.runqNodup, hk.timerqNodup, hk.disjoint, hk.sorted⟩
  have hk1 : QInv (handleAtomic k) := C01.drain_preserves_inv k.atomq _ hk0
  have hrun : f ∉ (fibreRun k f).timerq := by
    unfold fibreRun makeRunnable
    by_cases hf : f ∈ (handleAtomic k).runq
    · rw [if_pos hf]; exact hk1.disjoint f hf
    · rw [if_neg hf]; exact (C01.make_runnable_inserts_free_node hk1 f hf).1
  refine ⟨hrun, ?_, ?_⟩
  · show f ∉ (handleAtomic k).timerq.erase f
    rw [erase_eq_filter_ne hk1.timerqNodup]
    intro hm; have := (List.mem_filter.mp hm).2; simp at this
  · intro hst
    unfold updateCurrent
    rw [hst]
    exact hrun

/-- … and in the specification the sleep is gone, so (by C01's `dispatched_exactly_when_runnable`) it cannot
    cause a second, spurious dispatch -/
theorem cancelled_sleep_is_gone (a : A) (f : Fid) :
    (∀ x ∈ (a.run f).sleepers, x.1 ≠ f) ∧ (∀ x ∈ (a.kill f).1.sleepers, x.1 ≠ f)
    ∧ (a.yielder = some f → ∀ x ∈ a.requeueYielder.sleepers, x.1 ≠ f) := by
  refine ⟨?_, ?_, ?_⟩
  · intro x hx; exact (mem_sleepers_enqueue.mp hx).2
  · intro x hx
    have := (List.mem_filter.mp hx).2
    simpa using this
  · intro hy x hx
    have := (mem_sleepers_requeue.mp hx).2
    intro e; rw [e] at this; exact this hy

/-! ## non-vacuity: sleepers on both sides of the 0xffffffff→0 seam, ties registered out of queue order -/

def seamDemo : List (Op Int) :=
  [.run 0, .run 1, .run 2, .run 3,
   .next 4294967290 [.timeout 4294967298] .waiting,      -- 0 sleeps until 2 ticks after the wrap
   .next 4294967290 [.timeout 4294967294] .waiting,      -- 1 until 2 ticks before it
   .next 4294967290 [.timeout 4294967298] .waiting,      -- 2 ties with 0, registered later
   .next 4294967291 [.timeout 4294967294] .waiting,      -- 3 ties with 1, registered later
   .next 4294967293 [] .waiting,                          -- too early for everybody
   .next 4294967299 [] .waiting, .next 4294967299 [] .waiting,
   .next 4294967299 [] .waiting, .next 4294967299 [] .waiting]

example : InScope seamDemo := by decide

/-- due order 1, 3 (before the seam), then 0, 2 (after it), registration order within the ties -/
example : (runModel (wrap seamDemo)).map (fun o => match o with | .pass p => p.disp.map (·.1) | _ => none)
    = [none, none, none, none, some 0, some 1, some 2, some 3, none, some 1, some 3, some 0, some 2] := by decide

end Librfn.C02

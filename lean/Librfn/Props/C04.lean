import Librfn.Model.MessageqConc
import Librfn.Model.MessageqOld
import Librfn.Gen.Skeleton
import Librfn.Lemmas.Messageq
/-!
# C04 — the message queue is safe for many concurrent senders and one receiver

Model: `Librfn.Model.MessageqConc` — any number of sender threads and one receiver, one step = one atomic
operation (or one plain payload access), the C arithmetic of the current `messageq.c` (since fix 6099fe4: the
8-bit counter is decremented by a compare-exchange loop that never lets it go below zero; cyclic 8-bit indices;
32-bit flag word).

`MqInv` (= `mq_inv`) is an inductive invariant: it holds initially (`mq_inv_init`), every step of every thread
preserves it (`mq_inv_step`) — hence it holds in every reachable state under every interleaving
(`mq_inv_reachable`), for EVERY number of senders (no bound), every depth 1…32, executions of any length, with
spurious failures of both weak compare-exchanges.  Interrupt-style executions (handlers nested and run to
completion) are particular interleavings.  The property's clauses are corollaries of the invariant.
The two earlier claim protocols (unsigned `fetch_sub` before d97db7e, signed `fetch_sub` before 6099fe4) are modelled in
`Model/MessageqOld.lean`; `claim_wrap_counterexample` and `claim_wrap_129_counterexample` prove that each of them
hands out an owned buffer.  Kernel-only (no `bv_decide`).
-/
namespace Librfn.C04
open Librfn.Model.MessageqConc Librfn.Lemmas.Messageq
open Librfn.Model.Messageq (nextSend nextRecv bit slotOfOffset offsetOfSlot)

/-! ### the invariant -/

/-- a sender between its successful compare-exchange on `num_free` and its successful compare-exchange on `sendp`
    holds a *permission*: one unit of the counter that is not yet a ticket -/
def holdsPerm : SPc → Bool
  | .gotPerm => true | .loaded _ => true | _ => false

def nPerm (l : List SPc) : Nat := l.countP holdsPerm

/-- sender `i` owns ticket `k` through the pointer to slot `sl` that claim returned: the ticket is unreceived,
    unsent, `sl` is its slot and it is recorded under its owner -/
def Held (s : St) (i : Nat) (sl : BitVec 8) (k : Nat) : Prop :=
  s.received ≤ k ∧ k < s.claimed ∧ s.sent k = false ∧ sl.toNat = k % s.qlen.toNat ∧ s.owner k = i

def SenderOk (s : St) (i : Nat) : SPc → Prop
  | .hasSlot sl k => Held s i sl k
  | .wrote sl k => Held s i sl k ∧ s.payload sl.toNat = s.written k
  | .loadedFree v => v ≠ 0          -- the compare-exchange is only attempted on a non-zero reading
  | _ => True

def RecvOk (s : St) : RPc → Prop
  | .idle => s.released = s.received
  | .polled b => s.released = s.received ∧ (b = true → s.received < s.claimed ∧ s.sent s.received = true)
  | .hold sl k => k + 1 = s.received ∧ s.released = k ∧ sl.toNat = k % s.qlen.toNat ∧ s.sent k = true
  | .read sl k v => k + 1 = s.received ∧ s.released = k ∧ sl.toNat = k % s.qlen.toNat ∧ s.sent k = true ∧ v = s.written k

/-- **mq_inv** -/
structure MqInv (s : St) : Prop where
  qpos : 1 ≤ s.qlen.toNat
  q32 : s.qlen.toNat ≤ 32
  mpos : 1 ≤ s.msgLen.toNat
  /-- the free counter (an unsigned 8-bit number that never wraps): free + outstanding tickets + permissions held
      by claims in progress = capacity -/
  counter : s.numFree.toNat + (s.claimed - s.released) + nPerm s.senders = s.qlen.toNat
  order1 : s.released ≤ s.received
  order2 : s.received ≤ s.claimed
  sendp : s.sendp.toNat = s.claimed % s.qlen.toNat
  receivep : s.receivep.toNat = s.received % s.qlen.toNat
  /-- flag `i` is set iff the unreceived ticket with slot `i` has been sent -/
  flags : ∀ i, s.flags.getLsbD i = true ↔
    ∃ k, s.received ≤ k ∧ k < s.claimed ∧ s.sent k = true ∧ k % s.qlen.toNat = i
  sentlt : ∀ k, s.sent k = true → k < s.claimed
  /-- everything handed to the receiver had been sent -/
  recvdSent : ∀ k, k < s.received → s.sent k = true
  /-- sender-held tickets are unreceived, unsent, in their slot and recorded under their owner -/
  senders : ∀ i pc, s.senders[i]? = some pc → SenderOk s i pc
  /-- the payload of every sent, unreleased message is what its claimer wrote -/
  inflight : ∀ k, s.released ≤ k → k < s.claimed → s.sent k = true → s.payload (k % s.qlen.toNat) = s.written k
  recv : RecvOk s s.recv
  recvLog : s.recvLog = List.range s.received

abbrev mq_inv := MqInv

/-- outstanding tickets plus permissions never exceed the capacity -/
theorem MqInv.bound {s : St} (h : MqInv s) : s.claimed - s.released + nPerm s.senders ≤ s.qlen.toNat := by
  have := h.counter; omega

/-! ### list helpers -/

theorem countP_set {p : SPc → Bool} (l : List SPc) (i : Nat) (a b : SPc) (h : l[i]? = some a) :
    (l.set i b).countP p + (if p a then 1 else 0) = l.countP p + (if p b then 1 else 0) := by
  induction l generalizing i with
  | nil => simp at h
  | cons x xs ih =>
    cases i with
    | zero =>
      simp at h; subst h
      simp only [List.set_cons_zero, List.countP_cons]
      split <;> split <;> omega
    | succ n =>
      simp at h
      simp only [List.set_cons_succ, List.countP_cons]
      have := ih n h
      omega

theorem getElem?_set' (l : List SPc) (i j : Nat) (b : SPc) (hi : i < l.length) :
    (l.set i b)[j]? = if j = i then some b else l[j]? := by
  by_cases h : j = i
  · subst h; simp [hi]
  · simp [h, List.getElem?_set_ne (Ne.symm h)]

theorem nPerm_le (l : List SPc) : nPerm l ≤ l.length := List.countP_le_length

/-- a sender-local step: the number of permissions after replacing sender `i`'s program counter -/
theorem counts_set (l : List SPc) (i : Nat) (a b : SPc) (h : l[i]? = some a) :
    nPerm (l.set i b) + (if holdsPerm a then 1 else 0) = nPerm l + (if holdsPerm b then 1 else 0) :=
  countP_set l i a b h

/-! ### frame lemmas: the per-thread clauses only depend on a few fields -/

theorem senderOk_congr (s s' : St) (i : Nat) (pc : SPc)
    (h1 : s'.received = s.received) (h2 : s'.claimed = s.claimed) (h3 : s'.sent = s.sent)
    (h4 : s'.qlen = s.qlen) (h5 : s'.owner = s.owner) (h6 : s'.payload = s.payload) (h7 : s'.written = s.written)
    (h : SenderOk s i pc) : SenderOk s' i pc := by
  cases pc with
  | hasSlot sl k =>
    obtain ⟨a, b, c, d, e⟩ := h
    exact ⟨by rw [h1]; exact a, by rw [h2]; exact b, by rw [h3]; exact c, by rw [h4]; exact d, by rw [h5]; exact e⟩
  | wrote sl k =>
    obtain ⟨⟨a, b, c, d, e⟩, f⟩ := h
    exact ⟨⟨by rw [h1]; exact a, by rw [h2]; exact b, by rw [h3]; exact c, by rw [h4]; exact d, by rw [h5]; exact e⟩,
      by rw [h6, h7]; exact f⟩
  | idle => trivial
  | loadedFree v => exact h
  | gotPerm => trivial
  | loaded v => trivial

/-- the clause for all senders after sender `i` moved to `pc'` and nothing the other senders' clauses mention changed -/
theorem senders_set (s s' : St) (i : Nat) (pc' : SPc) (hlen : i < s.senders.length)
    (hs : s'.senders = s.senders.set i pc')
    (hold : ∀ j pc, s.senders[j]? = some pc → SenderOk s j pc)
    (hframe : ∀ j pc, j ≠ i → SenderOk s j pc → SenderOk s' j pc)
    (hnew : SenderOk s' i pc') :
    ∀ j pc, s'.senders[j]? = some pc → SenderOk s' j pc := by
  intro j pc hj
  rw [hs, getElem?_set' _ _ _ _ hlen] at hj
  by_cases e : j = i
  · subst e; rw [if_pos rfl] at hj; injection hj with hj; subst hj; exact hnew
  · rw [if_neg e] at hj; exact hframe j pc e (hold j pc hj)

/-- two different tickets of the window `released … claimed-1` have different slots -/
theorem slots_differ (s : St) (h : MqInv s) (k k' : Nat) (hk : s.released ≤ k ∧ k < s.claimed)
    (hk' : s.released ≤ k' ∧ k' < s.claimed) (hne : k ≠ k') : k % s.qlen.toNat ≠ k' % s.qlen.toNat := by
  intro e
  have hb := h.bound
  exact hne (window_inj' s.qlen.toNat k k' s.released hk.1 hk'.1 (by omega) (by omega) e)

theorem recv_lt (s : St) (h : MqInv s) : s.receivep.toNat < 32 := by
  have := Nat.mod_lt s.received h.qpos
  have := h.receivep; have := h.q32; omega

/-- the flag at `receivep` is set exactly when the oldest unreceived ticket exists and has been sent -/
theorem head_flag (s : St) (h : MqInv s) :
    s.flags.getLsbD s.receivep.toNat = true ↔ (s.received < s.claimed ∧ s.sent s.received = true) := by
  rw [h.flags, h.receivep]
  constructor
  · rintro ⟨k, h1, h2, h3, h4⟩
    have hb := h.bound; have ho := h.order1
    have : k = s.received := (window_inj s.qlen.toNat s.received k h1 (by omega) h4.symm).symm
    subst this; exact ⟨h2, h3⟩
  · rintro ⟨h1, h2⟩; exact ⟨s.received, Nat.le_refl _, h1, h2, rfl⟩

theorem head_test (s : St) (h : MqInv s) :
    (s.flags &&& bit s.receivep.toNat = 0) ↔ ¬ (s.received < s.claimed ∧ s.sent s.received = true) := by
  rw [and_bit_eq_zero _ _ (recv_lt s h), ← head_flag s h]
  cases s.flags.getLsbD s.receivep.toNat <;> simp



/-! ### the initial state -/

theorem countP_replicate_idle (p : SPc → Bool) (n : Nat) (hp : p .idle = false) :
    (List.replicate n SPc.idle).countP p = 0 := by
  induction n with
  | zero => rfl
  | succ n ih => rw [List.replicate_succ, List.countP_cons, ih, hp]; rfl

/-- **mq_inv holds after `messageq_init`** for every depth 1…32, every message size 1…65535 and ANY number of senders -/
theorem mq_inv_init (depth msgLen n : Nat) (hd1 : 1 ≤ depth) (hd32 : depth ≤ 32) (hm1 : 1 ≤ msgLen)
    (hm16 : msgLen < 65536) : MqInv (init depth msgLen n) := by
  have hq : (BitVec.ofNat 8 depth).toNat = depth := by
    rw [BitVec.toNat_ofNat]; exact Nat.mod_eq_of_lt (by omega)
  have hm : (BitVec.ofNat 16 msgLen).toNat = msgLen := by
    rw [BitVec.toNat_ofNat]; exact Nat.mod_eq_of_lt hm16
  exact {
    qpos := by show 1 ≤ (BitVec.ofNat 8 depth).toNat; omega
    q32 := by show (BitVec.ofNat 8 depth).toNat ≤ 32; omega
    mpos := by show 1 ≤ (BitVec.ofNat 16 msgLen).toNat; omega
    counter := by
      show (BitVec.ofNat 8 depth).toNat + (0 - 0) + nPerm (List.replicate n SPc.idle) = (BitVec.ofNat 8 depth).toNat
      simp only [nPerm, countP_replicate_idle _ _ (show holdsPerm .idle = false from rfl)]; omega
    order1 := Nat.le_refl _
    order2 := Nat.le_refl _
    sendp := by show (0 : BitVec 8).toNat = 0 % _; rw [Nat.zero_mod]; rfl
    receivep := by show (0 : BitVec 8).toNat = 0 % _; rw [Nat.zero_mod]; rfl
    flags := by
      intro i
      show (0 : BitVec 32).getLsbD i = true ↔ ∃ k, 0 ≤ k ∧ k < 0 ∧ false = true ∧ k % _ = i
      constructor
      · intro h; simp at h
      · rintro ⟨k, _, h, _⟩; omega
    sentlt := by intro k h; exact Bool.noConfusion h
    recvdSent := by intro k h; exact absurd h (Nat.not_lt_zero _)
    senders := by
      intro i pc hi
      have : pc = .idle := by
        have := List.mem_of_getElem? hi
        exact (List.mem_replicate.mp this).2
      subst this; trivial
    inflight := by intro k _ h; exact absurd h (Nat.not_lt_zero _)
    recv := rfl
    recvLog := rfl }

/-! ### receiver steps -/

theorem inv_poll (s : St) (h : MqInv s) (hrel : s.released = s.received) : MqInv (stepRecv s true .idle) := by
  have ht := head_test s h
  simp only [stepRecv, if_true]
  refine { h with recv := ?_ }
  refine ⟨hrel, ?_⟩
  intro hb
  have hnz : ¬ (s.flags &&& bit s.receivep.toNat = 0) := by simpa using hb
  by_cases c : s.received < s.claimed ∧ s.sent s.received = true
  · exact c
  · exact absurd (ht.mpr c) hnz

theorem senderOk_received_succ (s s' : St) (i : Nat) (pc : SPc) (hs : s.sent s.received = true)
    (h1 : s'.received = s.received + 1) (h2 : s'.claimed = s.claimed) (h3 : s'.sent = s.sent)
    (h4 : s'.qlen = s.qlen) (h5 : s'.owner = s.owner) (h6 : s'.payload = s.payload) (h7 : s'.written = s.written)
    (h : SenderOk s i pc) : SenderOk s' i pc := by
  have key : ∀ sl k, Held s i sl k → Held s' i sl k := by
    intro sl k ⟨a, b, c, d, e⟩
    have hne : k ≠ s.received := by intro e'; subst e'; rw [hs] at c; exact Bool.noConfusion c
    exact ⟨by rw [h1]; omega, by rw [h2]; exact b, by rw [h3]; exact c, by rw [h4]; exact d, by rw [h5]; exact e⟩
  cases pc with
  | hasSlot sl k => exact key sl k h
  | wrote sl k => exact ⟨key sl k h.1, by rw [h6, h7]; exact h.2⟩
  | idle => trivial
  | loadedFree v => exact h
  | gotPerm => trivial
  | loaded v => trivial

theorem inv_receive (s : St) (h : MqInv s) (hrel : s.released = s.received) : MqInv (stepReceive s) := by
  have ht := head_test s h
  have hb := h.bound; have ho1 := h.order1; have ho2 := h.order2
  unfold stepReceive
  split
  · rename_i hz
    have hclear : s.flags.getLsbD s.receivep.toNat = false := (and_bit_eq_zero _ _ (recv_lt s h)).mp hz
    refine { h with flags := ?_, recv := ?_ }
    · intro i
      show (s.flags &&& ~~~ bit s.receivep.toNat).getLsbD i = true ↔ _
      rw [getLsbD_clear_bit, ← h.flags]
      by_cases e : s.receivep.toNat = i
      · rw [← e, hclear]; simp
      · rw [decide_eq_false e]; simp
    · exact hrel
  · rename_i hnz
    have hhead : s.received < s.claimed ∧ s.sent s.received = true := by
      by_cases c : s.received < s.claimed ∧ s.sent s.received = true
      · exact c
      · exact absurd (ht.mpr c) hnz
    refine { h with order1 := ?_, order2 := ?_, receivep := ?_, flags := ?_, recvdSent := ?_, senders := ?_,
                    recv := ?_, recvLog := ?_ }
    · show s.released ≤ s.received + 1; omega
    · show s.received + 1 ≤ s.claimed; omega
    · dsimp only
      exact nextRecv_toNat _ _ _ h.qpos h.receivep
    · intro i
      show (s.flags &&& ~~~ bit s.receivep.toNat).getLsbD i = true ↔
        ∃ k, s.received + 1 ≤ k ∧ k < s.claimed ∧ s.sent k = true ∧ k % s.qlen.toNat = i
      rw [getLsbD_clear_bit, Bool.and_eq_true, h.flags, h.receivep]
      constructor
      · rintro ⟨⟨k, a, b, c, d⟩, e⟩
        refine ⟨k, ?_, b, c, d⟩
        have : k ≠ s.received := by
          intro e'; subst e'; simp [d] at e
        omega
      · rintro ⟨k, a, b, c, d⟩
        refine ⟨⟨k, by omega, b, c, d⟩, ?_⟩
        have : s.received % s.qlen.toNat ≠ i := by
          intro e'
          have := window_inj s.qlen.toNat s.received k (by omega) (by omega) (by rw [e', d])
          omega
        simp [this]
    · intro k hk
      show s.sent k = true
      by_cases e : k = s.received
      · rw [e]; exact hhead.2
      · exact h.recvdSent k (by have : k < s.received + 1 := hk; omega)
    · intro i pc hi
      exact senderOk_received_succ s _ i pc hhead.2 rfl rfl rfl rfl rfl rfl rfl (h.senders i pc hi)
    · exact ⟨rfl, hrel, h.receivep, hhead.2⟩
    · show s.recvLog ++ [s.received] = List.range (s.received + 1)
      rw [h.recvLog, List.range_succ]

theorem inv_read (s : St) (h : MqInv s) (sl : BitVec 8) (k : Nat) (hr : s.recv = .hold sl k) :
    MqInv (stepRecv s false (.hold sl k)) := by
  have hrecv := h.recv; rw [hr] at hrecv
  obtain ⟨a, b, c, d⟩ := hrecv
  have ho2 := h.order2
  simp only [stepRecv]
  refine { h with recv := ?_ }
  refine ⟨a, b, c, d, ?_⟩
  show s.payload sl.toNat = s.written k
  rw [c]; exact h.inflight k (by omega) (by omega) d

theorem inv_release (s : St) (h : MqInv s) (sl : BitVec 8) (k v : Nat) (hr : s.recv = .read sl k v) :
    MqInv (stepRecv s false (.read sl k v)) := by
  have hrecv := h.recv; rw [hr] at hrecv
  obtain ⟨a, b, _, _, _⟩ := hrecv
  have ho2 := h.order2; have hc := h.counter; have hq := h.q32
  simp only [stepRecv]
  refine { h with counter := ?_, order1 := ?_, inflight := ?_, recv := ?_ }
  · show (s.numFree + 1).toNat + (s.claimed - (s.released + 1)) + nPerm s.senders = s.qlen.toNat
    rw [toNat_add_one _ (by omega)]; omega
  · show s.released + 1 ≤ s.received; omega
  · intro k' h1 h2 h3
    exact h.inflight k' (by have : s.released + 1 ≤ k' := h1; omega) h2 h3
  · show s.released + 1 = s.received; omega

/-- every receiver step preserves the invariant -/
theorem inv_recv (s : St) (h : MqInv s) (poll : Bool) : MqInv (step s (.recv poll)) := by
  have hrecv := h.recv
  simp only [step]
  cases hr : s.recv with
  | idle =>
    rw [hr] at hrecv
    cases poll with
    | true => exact inv_poll s h hrecv
    | false => simp only [stepRecv, Bool.false_eq_true, if_false]; exact inv_receive s h hrecv
  | polled b => rw [hr] at hrecv; simp only [stepRecv]; exact inv_receive s h hrecv.1
  | hold sl k => cases poll <;> exact inv_read s h sl k hr
  | read sl k v => cases poll <;> exact inv_release s h sl k v hr

/-! ### sender steps -/

theorem lt_of_getElem? {l : List SPc} {i : Nat} {pc : SPc} (h : l[i]? = some pc) : i < l.length :=
  (List.getElem?_eq_some_iff.mp h).1

/-- the receiver's clause survives a step that leaves its counters alone, only adds tickets, only sets `sent`
    and only changes `written` for unreceived tickets -/
theorem recvOk_mono (s s' : St) (r : RPc)
    (h1 : s'.released = s.released) (h2 : s'.received = s.received) (h3 : s.claimed ≤ s'.claimed)
    (h4 : s'.qlen = s.qlen) (h5 : ∀ k, s.sent k = true → s'.sent k = true)
    (h6 : ∀ k, k < s.received → s'.written k = s.written k)
    (h : RecvOk s r) : RecvOk s' r := by
  cases r with
  | idle => show s'.released = s'.received; rw [h1, h2]; exact h
  | polled b =>
    obtain ⟨a, c⟩ := h
    refine ⟨by rw [h1, h2]; exact a, fun hb => ?_⟩
    obtain ⟨c1, c2⟩ := c hb
    exact ⟨by rw [h2]; omega, by rw [h2]; exact h5 _ c2⟩
  | hold sl k =>
    obtain ⟨a, b, c, d⟩ := h
    exact ⟨by rw [h2]; exact a, by rw [h1]; exact b, by rw [h4]; exact c, h5 _ d⟩
  | read sl k v =>
    obtain ⟨a, b, c, d, e⟩ := h
    exact ⟨by rw [h2]; exact a, by rw [h1]; exact b, by rw [h4]; exact c, h5 _ d, by rw [h6 k (by omega)]; exact e⟩

/-- the clause of another sender `j` survives a step that keeps `received`, only adds tickets, keeps `j`'s tickets
    unsent, keeps the owner record of existing tickets and keeps `j`'s written payload in place -/
theorem senderOk_frame (s s' : St) (j : Nat) (pc : SPc)
    (h1 : s'.received = s.received) (h2 : s.claimed ≤ s'.claimed) (h4 : s'.qlen = s.qlen)
    (h3 : ∀ sl k, Held s j sl k → s'.sent k = false)
    (h5 : ∀ k, k < s.claimed → s'.owner k = s.owner k)
    (h6 : ∀ sl k, Held s j sl k → s.payload sl.toNat = s.written k → s'.payload sl.toNat = s'.written k)
    (h : SenderOk s j pc) : SenderOk s' j pc := by
  have key : ∀ sl k, Held s j sl k → Held s' j sl k := by
    intro sl k hh
    have hs := h3 sl k hh
    obtain ⟨a, b, c, d, e⟩ := hh
    exact ⟨by rw [h1]; exact a, by omega, hs, by rw [h4]; exact d, by rw [h5 k b]; exact e⟩
  cases pc with
  | hasSlot sl k => exact key sl k h
  | wrote sl k => exact ⟨key sl k h.1, h6 sl k h.1 h.2⟩
  | idle => trivial
  | loadedFree v => exact h
  | gotPerm => trivial
  | loaded v => trivial

/-- claim's `unsigned char num_free = atomic_load(&mq->num_free); if (0 == num_free) return NULL;` -/
theorem inv_load_free (s : St) (h : MqInv s) (i : Nat) (sp : Bool) (v : Nat) (hpc : s.senders[i]? = some .idle) :
    MqInv (stepSender s i sp v .idle) := by
  have hlen := lt_of_getElem? hpc
  have hc := h.counter
  simp only [stepSender]
  split
  · have c1 := counts_set s.senders i .idle .idle hpc
    simp only [holdsPerm, Bool.false_eq_true, if_false] at c1
    refine { h with counter := ?_, senders := ?_ }
    · show s.numFree.toNat + (s.claimed - s.released) + nPerm (s.senders.set i .idle) = s.qlen.toNat
      omega
    · exact senders_set s _ i .idle hlen rfl h.senders
        (fun j pc _ hj => senderOk_congr s _ j pc rfl rfl rfl rfl rfl rfl rfl hj) trivial
  · rename_i hnz
    have c1 := counts_set s.senders i .idle (.loadedFree s.numFree) hpc
    simp only [holdsPerm, Bool.false_eq_true, if_false] at c1
    refine { h with counter := ?_, senders := ?_ }
    · show s.numFree.toNat + (s.claimed - s.released) + nPerm (s.senders.set i (.loadedFree s.numFree)) = s.qlen.toNat
      omega
    · exact senders_set s _ i _ hlen rfl h.senders
        (fun j pc _ hj => senderOk_congr s _ j pc rfl rfl rfl rfl rfl rfl rfl hj) hnz

/-- claim's `atomic_compare_exchange_weak(&mq->num_free, &num_free, num_free - 1)`: success takes one unit of the
    counter; a failure (spurious, or the counter changed) continues with the value read back, NULL if that is 0 -/
theorem inv_cas_free (s : St) (h : MqInv s) (i : Nat) (sp : Bool) (v : Nat) (w : BitVec 8)
    (hpc : s.senders[i]? = some (.loadedFree w)) : MqInv (stepSender s i sp v (.loadedFree w)) := by
  have hlen := lt_of_getElem? hpc
  have hc := h.counter
  have hw : w ≠ 0 := h.senders i _ hpc
  simp only [stepSender]
  split
  · rename_i hok
    have hwn : w = s.numFree := hok.1
    have hpos : 1 ≤ w.toNat := by
      rcases Nat.eq_zero_or_pos w.toNat with e | e
      · exact absurd (BitVec.eq_of_toNat_eq (by rw [e]; rfl)) hw
      · exact e
    have c1 := counts_set s.senders i (.loadedFree w) .gotPerm hpc
    simp only [holdsPerm, Bool.false_eq_true, if_false, if_true] at c1
    refine { h with counter := ?_, senders := ?_ }
    · show (w - 1).toNat + (s.claimed - s.released) + nPerm (s.senders.set i .gotPerm) = s.qlen.toNat
      rw [toNat_sub_one _ hpos, hwn]; rw [hwn] at hpos; omega
    · exact senders_set s _ i .gotPerm hlen rfl h.senders
        (fun j pc _ hj => senderOk_congr s _ j pc rfl rfl rfl rfl rfl rfl rfl hj) trivial
  · split
    · have c1 := counts_set s.senders i (.loadedFree w) .idle hpc
      simp only [holdsPerm, Bool.false_eq_true, if_false] at c1
      refine { h with counter := ?_, senders := ?_ }
      · show s.numFree.toNat + (s.claimed - s.released) + nPerm (s.senders.set i .idle) = s.qlen.toNat
        omega
      · exact senders_set s _ i .idle hlen rfl h.senders
          (fun j pc _ hj => senderOk_congr s _ j pc rfl rfl rfl rfl rfl rfl rfl hj) trivial
    · rename_i hnz
      have c1 := counts_set s.senders i (.loadedFree w) (.loadedFree s.numFree) hpc
      simp only [holdsPerm, Bool.false_eq_true, if_false] at c1
      refine { h with counter := ?_, senders := ?_ }
      · show s.numFree.toNat + (s.claimed - s.released) + nPerm (s.senders.set i (.loadedFree s.numFree)) = s.qlen.toNat
        omega
      · exact senders_set s _ i _ hlen rfl h.senders
          (fun j pc _ hj => senderOk_congr s _ j pc rfl rfl rfl rfl rfl rfl rfl hj) hnz

/-- `unsigned char sendp = atomic_load(&mq->sendp);` -/
theorem inv_load (s : St) (h : MqInv s) (i : Nat) (sp : Bool) (v : Nat) (hpc : s.senders[i]? = some .gotPerm) :
    MqInv (stepSender s i sp v .gotPerm) := by
  have hlen := lt_of_getElem? hpc
  have hc := h.counter
  have c1 := counts_set s.senders i .gotPerm (.loaded s.sendp) hpc
  simp only [holdsPerm, if_true] at c1
  simp only [stepSender]
  refine { h with counter := ?_, senders := ?_ }
  · show s.numFree.toNat + (s.claimed - s.released) + nPerm (s.senders.set i (.loaded s.sendp)) = s.qlen.toNat
    omega
  · exact senders_set s _ i _ hlen rfl h.senders
      (fun j pc _ hj => senderOk_congr s _ j pc rfl rfl rfl rfl rfl rfl rfl hj) trivial

/-- the compare-exchange of the claim loop, succeeding or failing (also spuriously) -/
theorem inv_cas (s : St) (h : MqInv s) (i : Nat) (sp : Bool) (v : Nat) (w : BitVec 8)
    (hpc : s.senders[i]? = some (.loaded w)) : MqInv (stepSender s i sp v (.loaded w)) := by
  have hlen := lt_of_getElem? hpc
  have hc := h.counter; have hb := h.bound; have ho1 := h.order1; have ho2 := h.order2
  simp only [stepSender]
  split
  · rename_i hok
    have hw : w = s.sendp := hok.1
    have c1 := counts_set s.senders i (.loaded w) (.hasSlot w s.claimed) hpc
    simp only [holdsPerm, Bool.false_eq_true, if_false, if_true] at c1
    have hunsent : s.sent s.claimed = false := by
      cases hs : s.sent s.claimed with
      | false => rfl
      | true => have := h.sentlt _ hs; omega
    refine { h with counter := ?_, order2 := ?_, sendp := ?_, flags := ?_,
                    sentlt := ?_, senders := ?_, inflight := ?_, recv := ?_ }
    · show s.numFree.toNat + (s.claimed + 1 - s.released) + nPerm (s.senders.set i (.hasSlot w s.claimed)) = s.qlen.toNat
      omega
    · show s.received ≤ s.claimed + 1; omega
    · dsimp only
      exact nextSend_toNat _ _ _ h.qpos (by rw [hw]; exact h.sendp)
    · intro j
      show s.flags.getLsbD j = true ↔ ∃ k, s.received ≤ k ∧ k < s.claimed + 1 ∧ s.sent k = true ∧ k % s.qlen.toNat = j
      rw [h.flags]
      constructor
      · rintro ⟨k, a, b, c, d⟩; exact ⟨k, a, by omega, c, d⟩
      · rintro ⟨k, a, _, c, d⟩; exact ⟨k, a, h.sentlt k c, c, d⟩
    · intro k hk
      show k < s.claimed + 1
      have := h.sentlt k hk; omega
    · refine senders_set s _ i _ hlen rfl h.senders ?_ ?_
      · intro j pc hj hok'
        refine senderOk_frame s _ j pc rfl (by show s.claimed ≤ s.claimed + 1; omega) rfl
          (fun sl k hh => hh.2.2.1) ?_ (fun sl k _ hp => hp) hok'
        intro k hk
        show (if k = s.claimed then i else s.owner k) = s.owner k
        rw [if_neg (by omega)]
      · refine ⟨ho2, by show s.claimed < s.claimed + 1; omega, hunsent, by rw [hw]; exact h.sendp, ?_⟩
        show (if s.claimed = s.claimed then i else s.owner s.claimed) = i
        rw [if_pos rfl]
    · intro k h1 h2 h3
      exact h.inflight k h1 (h.sentlt k h3) h3
    · exact recvOk_mono s _ s.recv rfl rfl (by show s.claimed ≤ s.claimed + 1; omega) rfl (fun _ x => x)
        (fun _ _ => rfl) h.recv
  · have c1 := counts_set s.senders i (.loaded w) (.loaded s.sendp) hpc
    simp only [holdsPerm, if_true] at c1
    refine { h with counter := ?_, senders := ?_ }
    · show s.numFree.toNat + (s.claimed - s.released) + nPerm (s.senders.set i (.loaded s.sendp)) = s.qlen.toNat
      omega
    · exact senders_set s _ i _ hlen rfl h.senders
        (fun j pc _ hj => senderOk_congr s _ j pc rfl rfl rfl rfl rfl rfl rfl hj) trivial

/-- two different senders hold different tickets -/
theorem tickets_differ (s : St) (i j : Nat) (sl sl' : BitVec 8) (k k' : Nat) (hij : j ≠ i)
    (h1 : Held s i sl k) (h2 : Held s j sl' k') : k' ≠ k := by
  intro e; subst e
  exact hij (h2.2.2.2.2.symm.trans h1.2.2.2.2)

/-- the claimer fills its buffer (plain accesses) -/
theorem inv_write (s : St) (h : MqInv s) (i : Nat) (sp : Bool) (v : Nat) (sl : BitVec 8) (k : Nat)
    (hpc : s.senders[i]? = some (.hasSlot sl k)) : MqInv (stepSender s i sp v (.hasSlot sl k)) := by
  have hlen := lt_of_getElem? hpc
  have hc := h.counter; have hb := h.bound; have ho1 := h.order1; have ho2 := h.order2
  have hk : Held s i sl k := h.senders i _ hpc
  obtain ⟨k1, k2, k3, k4, k5⟩ := hk
  have c1 := counts_set s.senders i (.hasSlot sl k) (.wrote sl k) hpc
  simp only [holdsPerm, Bool.false_eq_true, if_false] at c1
  simp only [stepSender]
  refine { h with counter := ?_, senders := ?_, inflight := ?_, recv := ?_ }
  · show s.numFree.toNat + (s.claimed - s.released) + nPerm (s.senders.set i (.wrote sl k)) = s.qlen.toNat
    omega
  · refine senders_set s _ i _ hlen rfl h.senders ?_ ?_
    · intro j pc hj hok'
      cases pc with
      | hasSlot sl' k' => exact hok'
      | wrote sl' k' =>
        obtain ⟨hh, hp⟩ := hok'
        refine ⟨hh, ?_⟩
        have hne : k' ≠ k := tickets_differ s i j sl sl' k k' hj ⟨k1, k2, k3, k4, k5⟩ hh
        have hsl : sl'.toNat ≠ sl.toNat := by
          rw [hh.2.2.2.1, k4]
          exact slots_differ s h k' k ⟨by have := hh.1; omega, hh.2.1⟩ ⟨by omega, k2⟩ hne
        show (if sl'.toNat = sl.toNat then v else s.payload sl'.toNat) = (if k' = k then v else s.written k')
        rw [if_neg hsl, if_neg hne]; exact hp
      | idle => trivial
      | loadedFree v => exact hok'
      | gotPerm => trivial
      | loaded v => trivial
    · refine ⟨⟨k1, k2, k3, k4, k5⟩, ?_⟩
      show (if sl.toNat = sl.toNat then v else s.payload sl.toNat) = (if k = k then v else s.written k)
      rw [if_pos rfl, if_pos rfl]
  · intro k' h1 h2 h3
    have hne : k' ≠ k := by intro e; subst e; rw [k3] at h3; exact Bool.noConfusion h3
    have hsl : k' % s.qlen.toNat ≠ sl.toNat := by
      rw [k4]; exact slots_differ s h k' k ⟨h1, h2⟩ ⟨by omega, k2⟩ hne
    show (if k' % s.qlen.toNat = sl.toNat then v else s.payload (k' % s.qlen.toNat)) = (if k' = k then v else s.written k')
    rw [if_neg hsl, if_neg hne]; exact h.inflight k' h1 h2 h3
  · refine recvOk_mono s _ s.recv rfl rfl (Nat.le_refl _) rfl (fun _ x => x) ?_ h.recv
    intro k' hk'
    show (if k' = k then v else s.written k') = s.written k'
    rw [if_neg (by omega)]

/-- `messageq_send`: `atomic_fetch_or(&mq->full_flags, 1 << slot)` -/
theorem inv_send (s : St) (h : MqInv s) (i : Nat) (sp : Bool) (v : Nat) (sl : BitVec 8) (k : Nat)
    (hpc : s.senders[i]? = some (.wrote sl k)) : MqInv (stepSender s i sp v (.wrote sl k)) := by
  have hlen := lt_of_getElem? hpc
  have hc := h.counter; have hb := h.bound; have ho1 := h.order1; have ho2 := h.order2
  have hq32 := h.q32
  have hk : Held s i sl k ∧ s.payload sl.toNat = s.written k := h.senders i _ hpc
  obtain ⟨⟨k1, k2, k3, k4, k5⟩, k6⟩ := hk
  have hslot : slotOfOffset s.msgLen (offsetOfSlot s.msgLen sl) = k % s.qlen.toNat := by
    rw [slot_of_offset _ _ h.mpos]; exact k4
  have hlt : k % s.qlen.toNat < 32 := by have := Nat.mod_lt k h.qpos; omega
  have c1 := counts_set s.senders i (.wrote sl k) .idle hpc
  simp only [holdsPerm, Bool.false_eq_true, if_false] at c1
  simp only [stepSender, hslot]
  refine { h with counter := ?_, flags := ?_, sentlt := ?_, recvdSent := ?_,
                  senders := ?_, inflight := ?_, recv := ?_ }
  · show s.numFree.toNat + (s.claimed - s.released) + nPerm (s.senders.set i .idle) = s.qlen.toNat
    omega
  · intro j
    show (s.flags ||| bit (k % s.qlen.toNat)).getLsbD j = true ↔
      ∃ k', s.received ≤ k' ∧ k' < s.claimed ∧ (if k' = k then true else s.sent k') = true ∧ k' % s.qlen.toNat = j
    rw [getLsbD_or_bit _ _ _ hlt, Bool.or_eq_true, h.flags, decide_eq_true_eq]
    constructor
    · rintro (⟨k', a, b, c, d⟩ | e)
      · exact ⟨k', a, b, by simp [c], d⟩
      · exact ⟨k, k1, k2, by simp, e⟩
    · rintro ⟨k', a, b, c, d⟩
      by_cases e : k' = k
      · subst e; exact Or.inr d
      · rw [if_neg e] at c; exact Or.inl ⟨k', a, b, c, d⟩
  · intro k' hk'
    show k' < s.claimed
    change (if k' = k then true else s.sent k') = true at hk'
    by_cases e : k' = k
    · subst e; exact k2
    · rw [if_neg e] at hk'; exact h.sentlt k' hk'
  · intro k' hk'
    show (if k' = k then true else s.sent k') = true
    by_cases e : k' = k
    · rw [if_pos e]
    · rw [if_neg e]; exact h.recvdSent k' hk'
  · refine senders_set s _ i _ hlen rfl h.senders ?_ trivial
    intro j pc hj hok'
    refine senderOk_frame s _ j pc rfl (Nat.le_refl _) rfl ?_ (fun _ _ => rfl) (fun sl' k' _ hp => hp) hok'
    intro sl' k' hh
    have hne : k' ≠ k := tickets_differ s i j sl sl' k k' hj ⟨k1, k2, k3, k4, k5⟩ hh
    show (if k' = k then true else s.sent k') = false
    rw [if_neg hne]; exact hh.2.2.1
  · intro k' h1 h2 h3
    change (if k' = k then true else s.sent k') = true at h3
    show s.payload (k' % s.qlen.toNat) = s.written k'
    by_cases e : k' = k
    · subst e; rw [← k4]; exact k6
    · rw [if_neg e] at h3; exact h.inflight k' h1 h2 h3
  · refine recvOk_mono s _ s.recv rfl rfl (Nat.le_refl _) rfl ?_ (fun _ _ => rfl) h.recv
    intro k' hk'
    show (if k' = k then true else s.sent k') = true
    by_cases e : k' = k
    · rw [if_pos e]
    · rw [if_neg e]; exact hk'

/-- every sender step preserves the invariant -/
theorem inv_sender (s : St) (h : MqInv s) (i : Nat) (sp : Bool) (v : Nat) : MqInv (step s (.sender i sp v)) := by
  simp only [step]
  split
  · rename_i pc hpc
    cases pc with
    | idle => exact inv_load_free s h i sp v hpc
    | loadedFree w => exact inv_cas_free s h i sp v w hpc
    | gotPerm => exact inv_load s h i sp v hpc
    | loaded w => exact inv_cas s h i sp v w hpc
    | hasSlot sl k => exact inv_write s h i sp v sl k hpc
    | wrote sl k => exact inv_send s h i sp v sl k hpc
  · exact { h with }

/-! ### the invariant is inductive -/

/-- **every step of every thread preserves mq_inv** -/
theorem mq_inv_step (s : St) (a : Act) (h : MqInv s) : MqInv (step s a) := by
  cases a with
  | sender i sp v => exact inv_sender s h i sp v
  | recv poll => exact inv_recv s h poll

/-- **mq_inv holds in every reachable state, under every interleaving of any length** -/
theorem mq_inv_reachable (s : St) (h : MqInv s) (acts : List Act) : MqInv (run s acts) := by
  induction acts generalizing s with
  | nil => exact h
  | cons a as ih => exact ih _ (mq_inv_step s a h)

/-- from `messageq_init`: every depth 1…32, EVERY number of senders `n`, every schedule -/
theorem mq_inv_all (depth msgLen n : Nat) (hd1 : 1 ≤ depth) (hd32 : depth ≤ 32) (hm1 : 1 ≤ msgLen)
    (hm16 : msgLen < 65536) (acts : List Act) : MqInv (run (init depth msgLen n) acts) :=
  mq_inv_reachable _ (mq_inv_init depth msgLen n hd1 hd32 hm1 hm16) acts

/-! ### the property's clauses as corollaries of the invariant

All of them hold in every reachable state (`mq_inv_reachable` / `mq_inv_all`), i.e. under every interleaving. -/

/-- the *outstanding* tickets `released … claimed-1` (claimed, in flight, or held by the receiver) occupy pairwise
    different buffers -/
theorem outstanding_slots_distinct (s : St) (h : MqInv s) (k k' : Nat) (hk : s.released ≤ k ∧ k < s.claimed)
    (hk' : s.released ≤ k' ∧ k' < s.claimed) (hne : k ≠ k') : k % s.qlen.toNat ≠ k' % s.qlen.toNat :=
  slots_differ s h k k' hk hk' hne

/-- a pointer held by sender `i` is the buffer of an outstanding, unsent ticket granted to `i` -/
theorem sender_holds (s : St) (h : MqInv s) (i : Nat) (sl : BitVec 8) (hh : holds s (.sender i) = some sl) :
    ∃ k, Held s i sl k := by
  have hh : (s.senders[i]?).bind SPc.slot? = some sl := hh
  cases hpc : s.senders[i]? with
  | none => rw [hpc] at hh; cases hh
  | some pc =>
    rw [hpc] at hh
    have hok := h.senders i pc hpc
    cases pc with
    | hasSlot sl' k => injection hh with hh; subst hh; exact ⟨k, hok⟩
    | wrote sl' k => injection hh with hh; subst hh; exact ⟨k, hok.1⟩
    | idle => cases hh
    | loadedFree v => cases hh
    | gotPerm => cases hh
    | loaded v => cases hh

/-- a pointer held by the receiver is the buffer of the oldest unreleased ticket, which was sent -/
theorem receiver_holds (s : St) (h : MqInv s) (sl : BitVec 8) (hh : holds s .receiver = some sl) :
    ∃ k, k + 1 = s.received ∧ s.released = k ∧ sl.toNat = k % s.qlen.toNat ∧ s.sent k = true := by
  have hh : s.recv.slot? = some sl := hh
  have hr := h.recv
  cases hrecv : s.recv with
  | idle => rw [hrecv] at hh; cases hh
  | polled b => rw [hrecv] at hh; cases hh
  | hold sl' k =>
    rw [hrecv] at hh hr; injection hh with hh; subst hh
    exact ⟨k, hr.1, hr.2.1, hr.2.2.1, hr.2.2.2⟩
  | read sl' k v =>
    rw [hrecv] at hh hr; injection hh with hh; subst hh
    exact ⟨k, hr.1, hr.2.1, hr.2.2.1, hr.2.2.2.1⟩

theorem ne_of_toNat_ne {a b : BitVec 8} (h : a.toNat ≠ b.toNat) : a ≠ b := fun e => h (by rw [e])

/-- **no buffer is handed out twice / exclusive ownership**: two different parties (two senders, or a sender and
    the receiver) never hold pointers to the same buffer -/
theorem exclusive_ownership (s : St) (h : MqInv s) (p q : Party) (a b : BitVec 8) (hpq : p ≠ q)
    (hp : holds s p = some a) (hq : holds s q = some b) : a ≠ b := by
  have ho1 := h.order1; have ho2 := h.order2
  have sr : ∀ i sl slr, holds s (.sender i) = some sl → holds s .receiver = some slr → sl ≠ slr := by
    intro i sl slr h1 h2
    obtain ⟨k, k1, k2, _, k4, _⟩ := sender_holds s h i sl h1
    obtain ⟨kr, r1, r2, r3, _⟩ := receiver_holds s h slr h2
    apply ne_of_toNat_ne
    rw [k4, r3]
    exact slots_differ s h k kr ⟨by omega, k2⟩ ⟨by omega, by omega⟩ (by omega)
  cases p with
  | sender i =>
    cases q with
    | sender j =>
      have hij : j ≠ i := fun e => hpq (by rw [e])
      obtain ⟨k, hk⟩ := sender_holds s h i a hp
      obtain ⟨k', hk'⟩ := sender_holds s h j b hq
      have hne := tickets_differ s i j a b k k' hij hk hk'
      apply ne_of_toNat_ne
      rw [hk.2.2.2.1, hk'.2.2.2.1]
      exact slots_differ s h k k' ⟨by have := hk.1; omega, hk.2.1⟩ ⟨by have := hk'.1; omega, hk'.2.1⟩ (Ne.symm hne)
    | receiver => exact sr i a b hp hq
  | receiver =>
    cases q with
    | sender j => exact (sr j b a hq hp).symm
    | receiver => exact absurd rfl hpq

/-- **for C07** — (1) two claimers never hold the same slot; (2) a claimer's slot differs from a slot the
    receiver still holds (so the plain payload accesses of different parties never touch the same buffer) -/
theorem mq_no_adjacent_conflict (s : St) (h : MqInv s) :
    (∀ i j a b, i ≠ j → holds s (.sender i) = some a → holds s (.sender j) = some b → a ≠ b) ∧
    (∀ i a b, holds s (.sender i) = some a → holds s .receiver = some b → a ≠ b) :=
  ⟨fun i j a b hij hp hq => exclusive_ownership s h (.sender i) (.sender j) a b (fun e => hij (by injection e)) hp hq,
   fun i a b hp hq => exclusive_ownership s h (.sender i) .receiver a b (fun e => Party.noConfusion e) hp hq⟩

/-- the buffer a successful compare-exchange is about to hand out is not the buffer of any outstanding ticket -/
theorem claim_hands_out_unowned (s : St) (h : MqInv s) (i : Nat) (w : BitVec 8)
    (hpc : s.senders[i]? = some (.loaded w)) (hw : w = s.sendp) (k : Nat) (hk : s.released ≤ k ∧ k < s.claimed) :
    k % s.qlen.toNat ≠ w.toNat := by
  have hb := h.bound; have ho1 := h.order1; have ho2 := h.order2
  have hperm : 1 ≤ nPerm s.senders := by
    have e := counts_set s.senders i (.loaded w) .idle hpc
    simp only [holdsPerm, Bool.false_eq_true, if_false, if_true] at e
    omega
  rw [hw, h.sendp]
  intro e
  have := window_inj' s.qlen.toNat k s.claimed s.released hk.1 (by omega) (by omega) (by omega) e
  omega

/-- the undefined shifts of the C code (`1 << n` with `n ≥ 32`) are never executed -/
theorem shifts_defined (s : St) (h : MqInv s) :
    s.receivep.toNat < 32 ∧ ∀ p sl, holds s p = some sl → sl.toNat < 32 := by
  refine ⟨recv_lt s h, ?_⟩
  intro p sl hp
  have hq := h.q32
  cases p with
  | sender i =>
    obtain ⟨k, hk⟩ := sender_holds s h i sl hp
    have := Nat.mod_lt k h.qpos
    rw [hk.2.2.2.1]; omega
  | receiver =>
    obtain ⟨k, _, _, r3, _⟩ := receiver_holds s h sl hp
    have := Nat.mod_lt k h.qpos
    rw [r3]; omega

/-- `messageq_receive` succeeds exactly when the oldest unreceived ticket exists and has been sent -/
theorem receive_succeeds_iff (s : St) (h : MqInv s) :
    ((stepReceive s).recv ≠ .idle) ↔ (s.received < s.claimed ∧ s.sent s.received = true) := by
  have ht := head_test s h
  unfold stepReceive
  split
  · rename_i hz
    constructor
    · intro e; exact absurd rfl e
    · intro c; exact absurd c (ht.mp hz)
  · rename_i hnz
    constructor
    · intro _
      by_cases c : s.received < s.claimed ∧ s.sent s.received = true
      · exact c
      · exact absurd (ht.mpr c) hnz
    · intro _ e; exact RPc.noConfusion e

/-- **messages arrive in claim order**: a successful receive returns the buffer of ticket number `received` — the
    oldest ticket not yet handed to the receiver — and that ticket had been claimed and sent; the log of returned
    tickets is 0, 1, 2, … -/
theorem fifo_claim_order (s : St) (h : MqInv s) (hne : (stepReceive s).recv ≠ .idle) :
    (stepReceive s).recv = .hold s.receivep s.received ∧
    s.receivep.toNat = s.received % s.qlen.toNat ∧ s.received < s.claimed ∧ s.sent s.received = true ∧
    (stepReceive s).recvLog = List.range (s.received + 1) := by
  have hs := (receive_succeeds_iff s h).mp hne
  refine ⟨?_, h.receivep, hs.1, hs.2, ?_⟩
  · unfold stepReceive at hne ⊢
    split
    · rename_i hz; rw [if_pos hz] at hne; exact absurd rfl hne
    · rfl
  · unfold stepReceive at hne ⊢
    split
    · rename_i hz; rw [if_pos hz] at hne; exact absurd rfl hne
    · show s.recvLog ++ [s.received] = _
      rw [h.recvLog, List.range_succ]

/-- **every message is received at most once, and only messages that were sent**: the tickets returned so far are
    exactly 0 … received-1, each once, each of them claimed and sent -/
theorem exactly_once (s : St) (h : MqInv s) :
    s.recvLog = List.range s.received ∧ s.recvLog.Nodup ∧
    ∀ k ∈ s.recvLog, s.sent k = true ∧ k < s.claimed := by
  refine ⟨h.recvLog, by rw [h.recvLog]; exact List.nodup_range, ?_⟩
  intro k hk
  rw [h.recvLog, List.mem_range] at hk
  exact ⟨h.recvdSent k hk, by have := h.order2; omega⟩

/-- **the receiver reads what the claimer wrote before the send** -/
theorem payload_intact (s : St) (h : MqInv s) (sl : BitVec 8) (k : Nat) (hr : s.recv = .hold sl k) (poll : Bool) :
    (step s (.recv poll)).recv = .read sl k (s.written k) ∧ s.sent k = true := by
  have hrecv := h.recv; rw [hr] at hrecv
  obtain ⟨a, b, c, d⟩ := hrecv
  have ho2 := h.order2
  have hp : s.payload sl.toNat = s.written k := by
    rw [c]; exact h.inflight k (by omega) (by omega) d
  refine ⟨?_, d⟩
  simp only [step, hr, stepRecv, hp]

/-- **claim never hands out more buffers than the queue holds** (even counting claims that already hold a
    permission but have not yet fixed their slot) -/
theorem claim_bounded (s : St) (h : MqInv s) :
    s.claimed - s.released ≤ s.qlen.toNat ∧ s.claimed - s.released + nPerm s.senders ≤ s.qlen.toNat :=
  ⟨by have := h.bound; omega, h.bound⟩

/-- **claim fails only if no buffer was free at that instant, counting claims in progress**: at the step at which a
    claim returns NULL — its load of the counter, or its failing compare-exchange, read 0 — the buffers handed out and
    not yet released plus the permissions held by claims in progress use up the whole capacity -/
theorem claim_fails_only_if_full (s : St) (h : MqInv s) (i : Nat) (sp : Bool) (v : Nat)
    (hfail : Ev.ret i .claim none ∈ (step s (.sender i sp v)).log) :
    s.numFree = 0 ∧ (s.claimed - s.released) + nPerm s.senders = s.qlen.toNat := by
  have hc := h.counter
  have key : s.numFree = 0 := by
    simp only [step] at hfail
    split at hfail
    · rename_i pc hpc
      cases pc with
      | idle =>
        simp only [stepSender] at hfail
        split at hfail
        · assumption
        · simp at hfail
      | loadedFree w =>
        simp only [stepSender] at hfail
        split at hfail
        · simp at hfail
        · split at hfail
          · assumption
          · simp at hfail
      | gotPerm => simp [stepSender] at hfail
      | loaded w => simp only [stepSender] at hfail; split at hfail <;> simp at hfail
      | hasSlot sl k => simp [stepSender] at hfail
      | wrote sl k => simp [stepSender] at hfail
    · simp at hfail
  refine ⟨key, ?_⟩
  have : s.numFree.toNat = 0 := by rw [key]; rfl
  omega

/-- **when all operations have completed** (no claim in progress) the free counter equals the capacity minus the
    messages still held -/
theorem quiescent_count (s : St) (h : MqInv s) (hq : nPerm s.senders = 0) :
    s.numFree.toNat = s.qlen.toNat - (s.claimed - s.released) := by
  have hc := h.counter; omega

/-- the counter never exceeds the capacity and never wraps, however many claims are in progress -/
theorem counter_in_range (s : St) (h : MqInv s) : s.numFree.toNat ≤ s.qlen.toNat := by
  have hc := h.counter; omega

/-! ### why the two fixes were needed: the earlier claim protocols (`Model/MessageqOld.lean`) violate exclusive ownership -/

/-- D2 — **with the unsigned read of the counter (the code before d97db7e)**: depth 2, senders 0 and 1 each claim a
    buffer and keep it (queue full); A = sender 2 does its fetch_sub (0 → 255); B = sender 3 runs a whole claim
    (fetch_sub, load, compare-exchange) and is handed slot 0, **which sender 0 still owns**; A does its fetch_add; the
    counter is left at 255 for ever -/
theorem claim_wrap_counterexample :
    Librfn.Model.MessageqOld.holds (Librfn.Model.MessageqOld.run (Librfn.Model.MessageqOld.init false 2 4)
      [0, 0, 0, 1, 1, 1, 2, 3, 3, 3, 2]) 0 = some 0 ∧
    Librfn.Model.MessageqOld.holds (Librfn.Model.MessageqOld.run (Librfn.Model.MessageqOld.init false 2 4)
      [0, 0, 0, 1, 1, 1, 2, 3, 3, 3, 2]) 3 = some 0 ∧
    (Librfn.Model.MessageqOld.run (Librfn.Model.MessageqOld.init false 2 4) [0, 0, 0, 1, 1, 1, 2, 3, 3, 3, 2]).numFree = 255 := by
  decide

/-- the schedule of D12: depth 1, sender 0 claims the only buffer and keeps it; senders 1 … `m` each do the fetch_sub of a
    claim that is going to fail (they are nested inside each other's decrement/re-increment window); then sender `m+1`
    runs a whole claim -/
def d12Schedule (m : Nat) : List Nat := [0, 0, 0] ++ (List.range m).map (· + 1) ++ [m + 1, m + 1, m + 1]

/-- D12 — **with the signed read of the counter (the code from d97db7e to 6099fe4)**: 129 failing claims nested inside each
    other take the 8-bit counter from 0 down to −128 and once more, to +127; the 130th claim then reads a positive value
    and is handed slot 0, **which sender 0 still owns** -/
theorem claim_wrap_129_counterexample :
    Librfn.Model.MessageqOld.holds (Librfn.Model.MessageqOld.run (Librfn.Model.MessageqOld.init true 1 131) (d12Schedule 129)) 0 = some 0 ∧
    Librfn.Model.MessageqOld.holds (Librfn.Model.MessageqOld.run (Librfn.Model.MessageqOld.init true 1 131) (d12Schedule 129)) 130 = some 0 := by
  decide +kernel

/-- one nested failing claim fewer and the old protocol was still safe: with 128 of them the counter is −128 and the next
    claim (fetch_sub, fetch_add) fails and returns NULL — which is why the defect needed more than 128 concurrent claim contexts to show -/
theorem claim_no_wrap_128 :
    (Librfn.Model.MessageqOld.run (Librfn.Model.MessageqOld.init true 1 131) (d12Schedule 128).dropLast).senders[129]? = some .idle ∧
    (Librfn.Model.MessageqOld.run (Librfn.Model.MessageqOld.init true 1 131) (d12Schedule 128).dropLast).numFree = 128 := by
  decide +kernel

/-- the D2 shape on the current code: the queue is full, so the loads of senders 2 and 3 read 0 and both claims return
    NULL without ever touching the counter -/
theorem d2_schedule_fixed :
    holds (run (init 2 4 4) ((List.replicate 4 (.sender 0 false 0)) ++ (List.replicate 4 (.sender 1 false 0)) ++
      [.sender 2 false 0, .sender 3 false 0])) (.sender 0) = some 0 ∧
    holds (run (init 2 4 4) ((List.replicate 4 (.sender 0 false 0)) ++ (List.replicate 4 (.sender 1 false 0)) ++
      [.sender 2 false 0, .sender 3 false 0])) (.sender 3) = none ∧
    (run (init 2 4 4) ((List.replicate 4 (.sender 0 false 0)) ++ (List.replicate 4 (.sender 1 false 0)) ++
      [.sender 2 false 0, .sender 3 false 0])).numFree = 0 := by decide

/-! ### non-vacuity -/

/-- a reachable state with a claim attempted on a full queue, a held buffer and a message with the receiver satisfies
    the invariant (by `mq_inv_all`), and the parties named by the corollaries really hold buffers there -/
example : MqInv (run (init 2 4 3) (List.replicate 6 (.sender 0 false 7) ++ List.replicate 4 (.sender 1 false 8) ++
    [.recv true, .recv true, .sender 2 false 9, .sender 1 false 8])) :=
  mq_inv_all 2 4 3 (by omega) (by omega) (by omega) (by omega) _

example : holds (run (init 2 4 3) (List.replicate 6 (.sender 0 false 7) ++ List.replicate 4 (.sender 1 false 8) ++
    [.recv true, .recv true, .sender 2 false 9, .sender 1 false 8])) .receiver = some 0 := by decide

example : holds (run (init 2 4 3) (List.replicate 6 (.sender 0 false 7) ++ List.replicate 4 (.sender 1 false 8) ++
    [.recv true, .recv true, .sender 2 false 9, .sender 1 false 8])) (.sender 1) = some 1 := by decide

/-- the receiver reads 7, the value sender 0 wrote -/
example : (run (init 2 4 3) (List.replicate 6 (.sender 0 false 7) ++ [.recv false, .recv false])).recv = .read 0 0 7 := by
  decide

/-- a failing claim exists: depth 1, sender 0 holds the only buffer, sender 1's load reads 0 -/
example : Ev.ret 1 .claim none ∈
    (step (run (init 1 4 2) (List.replicate 4 (.sender 0 false 0))) (.sender 1 false 0)).log := by decide

/-- … and so does a compare-exchange on the counter that fails because another sender took the last unit in between -/
example : (run (init 1 4 2) [.sender 0 false 0, .sender 1 false 0, .sender 0 false 0, .sender 1 false 0]).log
    = [.atomic 1 .cas_fail .num_free 1 0, .ret 1 .claim none] := by decide

/-! ### Tie S: the model's atomic-operation skeleton is the one extracted from the current source

`Gen.Skeleton.messageq` is regenerated from `messageq.c` / `messageq.h` by `tools/skeleton.py` on every run.  These
obligations fail when a memory order is weakened, a counter or the flag word stops being `_Atomic`, an atomic call is
replaced by a plain access or split into a load and a store, or the order / branch structure of the accesses changes. -/

/-- fields of `messageq_t` written once by `messageq_init` (or the static initialiser), before any sender exists -/
def mqConfig : List String := ["mq->basep", "mq->msg_len", "mq->queue_len"]

/-- the shared accesses (operation, object, memory orders, conditional / in a loop) of every function of messageq.c and of
    `messageq_empty`, in order, and the declared types of `messageq_t`'s fields, are those of the table the model was written
    against; the configuration fields are written by `messageq_init` only (`Librfn.Skeleton.CUnit.core`) -/
theorem skeleton_matches_messageq :
    Librfn.Gen.Skeleton.messageq.core mqConfig = Librfn.Model.MessageqConc.skeleton.core mqConfig ∧
    Librfn.Gen.Skeleton.messageq.fields = Librfn.Model.MessageqConc.skeleton.fields ∧
    Librfn.Gen.Skeleton.messageq.configNeverWritten mqConfig ["messageq_init"] = true := by decide

/-- every atomic operation of the message queue is `seq_cst` (the interleaving semantics of `MqInv` rests on it) -/
theorem mq_ord_all_seqcst : Librfn.Gen.Skeleton.messageq.allSeqCst = true := by decide

/-- the functions of a unit that touch object `obj` -/
def touching (u : Librfn.Skeleton.CUnit) (obj : String) : List String :=
  (u.funcs.filter fun f => f.sites.any fun s => s.obj == obj).map (·.name)

/-- `num_free`, `sendp`, `full_flags` are declared `_Atomic` and only touched by atomic operations; `receivep` is a
    plain field touched only by the receiver's functions (`messageq_receive`, `messageq_empty`) -/
theorem mq_fields_atomic :
    Librfn.Gen.Skeleton.messageq.fieldAtomic "messageq_t" "num_free" = true ∧
    Librfn.Gen.Skeleton.messageq.fieldAtomic "messageq_t" "sendp" = true ∧
    Librfn.Gen.Skeleton.messageq.fieldAtomic "messageq_t" "full_flags" = true ∧
    Librfn.Gen.Skeleton.messageq.onlyAtomicAccess ["mq->num_free", "mq->sendp", "mq->full_flags"] = true ∧
    Librfn.Gen.Skeleton.messageq.fieldAtomic "messageq_t" "receivep" = false ∧
    touching Librfn.Gen.Skeleton.messageq "mq->receivep" = ["messageq_receive", "messageq_empty"] := by decide

end Librfn.C04

import Librfn.Model.MessageqConc
namespace Librfn.C04
end Librfn.C04

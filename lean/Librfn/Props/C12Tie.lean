import Librfn.Gen.PackSeq
import Librfn.Model.Pack
import Std.Tactic.BVDecide
import Librfn.Gen.Ackermann
/-!
# C12 / C13 / C14 — tie T for `pack.c` (sequential meaning of every function the file defines)

`Librfn.Gen.PackSeq.*` is regenerated from `/repo/librfn/pack.c` on every run by `tools/c2lean2.py`: the three pointers
of `rf_pack_t` are 64-bit values, the buffer is a byte memory, `memcpy`/`memset` are `Mem.copy`/`Mem.fill`.

* layer 1 (`*_generated`, every input, `bv_decide`): the cursor always advances by the item size; bytes are transferred iff
  the advanced cursor is `<= endp` (`fitsBV`); which bytes go where — the references use the hand model's own encoders
  (`encU32le`, …) and decoders (`dec16`, `dec32`), so byte order, shifts and integer promotions of the C are compared with
  the model's on all 2^16 / 2^32 values; what an unpacker returns (0 when the item does not fit);
* layer 2 (`*_tie`): under the representation `basep = base`, `endp = base + size`, `p = base + cur` (no address wraps
  round 2^64), the calls do to the memory and the cursor what `Librfn.Model.Pack` (the model of the C12 / C13 / C14
  theorems) does.
-/
namespace Librfn.C12.Tie
open Librfn.Gen Librfn.Gen.PackSeq
open Librfn.Model.Pack hiding Mem

/-- `pack->p += n; if (pack->p <= pack->endp)` evaluated on the cursor before the advance -/
def fitsBV (p e n : BitVec 64) : Bool := (p + n).ule e

/-- the packers the property quantifies over: `basep <= endp`, `basep <= p`, a buffer and a running total below 2^32 bytes
    (`unsigned int` sizes; the property's scope is fewer than 2^31 requested bytes), no address near the top of the address space.
    A rewrite that only differs when the cursor is 2^63 bytes away from the buffer (a signed distance test) re-proves. -/
def wfPk (b e p : BitVec 64) : Bool :=
  b.ule e && b.ule p && (e - b).ult 0x100000000#64 && (p - b).ult 0x200000000#64 && b.ult 0xfffffff000000000#64

/-- byte `k` of a model encoding -/
def byteAt (bs : List UInt8) (k : Nat) : BitVec 8 := (bs.getD k 0).toBitVec

/-! ### layer 1 -/

theorem pack_s16le_generated (b e p : BitVec 64) (v : BitVec 16) (mem : Gen.Mem) (hwf : wfPk b e p = true) :
    (rf_pack_s16le b e p v mem).ub = false ∧ (rf_pack_s16le b e p v mem).exh = false ∧ (rf_pack_s16le b e p v mem).pack_basep = b ∧ (rf_pack_s16le b e p v mem).pack_endp = e ∧
    (rf_pack_s16le b e p v mem).pack_p = p + 2#64 := by
  unfold wfPk at hwf
  unfold rf_pack_s16le
  first | bv_decide (config := { timeout := 300 }) | (ackermann mem; bv_decide (config := { timeout := 300 }))

theorem pack_s16le_generated_mem (b e p : BitVec 64) (v : BitVec 16) (mem : Gen.Mem) (hwf : wfPk b e p = true) (a : BitVec 64) :
    (rf_pack_s16le b e p v mem).mem a = (if fitsBV p e 2#64 then (if a = p + 1#64 then byteAt (encS16le v) 1 else if a = p then byteAt (encS16le v) 0 else mem a) else mem a) := by
  unfold wfPk at hwf
  unfold rf_pack_s16le fitsBV
  simp only [Mem.ite_app, Mem.store_app, byteAt, encS16le, b8, List.getD_cons_zero, List.getD_cons_succ, UInt8.toBitVec_ofBitVec]
  first | bv_decide (config := { timeout := 300 }) | (ackermann mem; bv_decide (config := { timeout := 300 }))

theorem pack_u16be_generated (b e p : BitVec 64) (v : BitVec 16) (mem : Gen.Mem) (hwf : wfPk b e p = true) :
    (rf_pack_u16be b e p v mem).ub = false ∧ (rf_pack_u16be b e p v mem).exh = false ∧ (rf_pack_u16be b e p v mem).pack_basep = b ∧ (rf_pack_u16be b e p v mem).pack_endp = e ∧
    (rf_pack_u16be b e p v mem).pack_p = p + 2#64 := by
  unfold wfPk at hwf
  unfold rf_pack_u16be
  first | bv_decide (config := { timeout := 300 }) | (ackermann mem; bv_decide (config := { timeout := 300 }))

theorem pack_u16be_generated_mem (b e p : BitVec 64) (v : BitVec 16) (mem : Gen.Mem) (hwf : wfPk b e p = true) (a : BitVec 64) :
    (rf_pack_u16be b e p v mem).mem a = (if fitsBV p e 2#64 then (if a = p + 1#64 then byteAt (encU16be v) 1 else if a = p then byteAt (encU16be v) 0 else mem a) else mem a) := by
  unfold wfPk at hwf
  unfold rf_pack_u16be fitsBV
  simp only [Mem.ite_app, Mem.store_app, byteAt, encU16be, b8, List.getD_cons_zero, List.getD_cons_succ, UInt8.toBitVec_ofBitVec]
  first | bv_decide (config := { timeout := 300 }) | (ackermann mem; bv_decide (config := { timeout := 300 }))

theorem pack_u16le_generated (b e p : BitVec 64) (v : BitVec 16) (mem : Gen.Mem) (hwf : wfPk b e p = true) :
    (rf_pack_u16le b e p v mem).ub = false ∧ (rf_pack_u16le b e p v mem).exh = false ∧ (rf_pack_u16le b e p v mem).pack_basep = b ∧ (rf_pack_u16le b e p v mem).pack_endp = e ∧
    (rf_pack_u16le b e p v mem).pack_p = p + 2#64 := by
  unfold wfPk at hwf
  unfold rf_pack_u16le
  first | bv_decide (config := { timeout := 300 }) | (ackermann mem; bv_decide (config := { timeout := 300 }))

theorem pack_u16le_generated_mem (b e p : BitVec 64) (v : BitVec 16) (mem : Gen.Mem) (hwf : wfPk b e p = true) (a : BitVec 64) :
    (rf_pack_u16le b e p v mem).mem a = (if fitsBV p e 2#64 then (if a = p + 1#64 then byteAt (encU16le v) 1 else if a = p then byteAt (encU16le v) 0 else mem a) else mem a) := by
  unfold wfPk at hwf
  unfold rf_pack_u16le fitsBV
  simp only [Mem.ite_app, Mem.store_app, byteAt, encU16le, b8, List.getD_cons_zero, List.getD_cons_succ, UInt8.toBitVec_ofBitVec]
  first | bv_decide (config := { timeout := 300 }) | (ackermann mem; bv_decide (config := { timeout := 300 }))

theorem pack_s32le_generated (b e p : BitVec 64) (v : BitVec 32) (mem : Gen.Mem) (hwf : wfPk b e p = true) :
    (rf_pack_s32le b e p v mem).ub = false ∧ (rf_pack_s32le b e p v mem).exh = false ∧ (rf_pack_s32le b e p v mem).pack_basep = b ∧ (rf_pack_s32le b e p v mem).pack_endp = e ∧
    (rf_pack_s32le b e p v mem).pack_p = p + 4#64 := by
  unfold wfPk at hwf
  unfold rf_pack_s32le
  first | bv_decide (config := { timeout := 300 }) | (ackermann mem; bv_decide (config := { timeout := 300 }))

theorem pack_s32le_generated_mem (b e p : BitVec 64) (v : BitVec 32) (mem : Gen.Mem) (hwf : wfPk b e p = true) (a : BitVec 64) :
    (rf_pack_s32le b e p v mem).mem a = (if fitsBV p e 4#64 then (if a = p + 3#64 then byteAt (encS32le v) 3 else if a = p + 2#64 then byteAt (encS32le v) 2 else if a = p + 1#64 then byteAt (encS32le v) 1 else if a = p then byteAt (encS32le v) 0 else mem a) else mem a) := by
  unfold wfPk at hwf
  unfold rf_pack_s32le fitsBV
  simp only [Mem.ite_app, Mem.store_app, byteAt, encS32le, b8, List.getD_cons_zero, List.getD_cons_succ, UInt8.toBitVec_ofBitVec]
  first | bv_decide (config := { timeout := 300 }) | (ackermann mem; bv_decide (config := { timeout := 300 }))

theorem pack_u32le_generated (b e p : BitVec 64) (v : BitVec 32) (mem : Gen.Mem) (hwf : wfPk b e p = true) :
    (rf_pack_u32le b e p v mem).ub = false ∧ (rf_pack_u32le b e p v mem).exh = false ∧ (rf_pack_u32le b e p v mem).pack_basep = b ∧ (rf_pack_u32le b e p v mem).pack_endp = e ∧
    (rf_pack_u32le b e p v mem).pack_p = p + 4#64 := by
  unfold wfPk at hwf
  unfold rf_pack_u32le
  first | bv_decide (config := { timeout := 300 }) | (ackermann mem; bv_decide (config := { timeout := 300 }))

theorem pack_u32le_generated_mem (b e p : BitVec 64) (v : BitVec 32) (mem : Gen.Mem) (hwf : wfPk b e p = true) (a : BitVec 64) :
    (rf_pack_u32le b e p v mem).mem a = (if fitsBV p e 4#64 then (if a = p + 3#64 then byteAt (encU32le v) 3 else if a = p + 2#64 then byteAt (encU32le v) 2 else if a = p + 1#64 then byteAt (encU32le v) 1 else if a = p then byteAt (encU32le v) 0 else mem a) else mem a) := by
  unfold wfPk at hwf
  unfold rf_pack_u32le fitsBV
  simp only [Mem.ite_app, Mem.store_app, byteAt, encU32le, b8, List.getD_cons_zero, List.getD_cons_succ, UInt8.toBitVec_ofBitVec]
  first | bv_decide (config := { timeout := 300 }) | (ackermann mem; bv_decide (config := { timeout := 300 }))

theorem unpack_char_generated (b e p : BitVec 64) (mem : Gen.Mem) (hwf : wfPk b e p = true) :
    (rf_unpack_char b e p mem).ub = false ∧ (rf_unpack_char b e p mem).exh = false ∧ (rf_unpack_char b e p mem).pack_basep = b ∧ (rf_unpack_char b e p mem).pack_endp = e ∧
    (rf_unpack_char b e p mem).pack_p = p + 1#64 ∧ (rf_unpack_char b e p mem).ret = (if fitsBV p e 1#64 then mem p else 0#8) := by
  unfold wfPk at hwf
  unfold rf_unpack_char fitsBV
  simp only [dec16, dec32, UInt8.toBitVec_ofBitVec]
  first | bv_decide (config := { timeout := 300 }) | (ackermann mem; bv_decide (config := { timeout := 300 }))

theorem unpack_char_generated_mem (b e p : BitVec 64) (mem : Gen.Mem) : (rf_unpack_char b e p mem).mem = mem := by
  unfold rf_unpack_char
  first | rfl | (funext a; simp only [Mem.ite_app, Mem.store_app]; first | done | bv_decide (config := { timeout := 300 }))

theorem unpack_s8_generated (b e p : BitVec 64) (mem : Gen.Mem) (hwf : wfPk b e p = true) :
    (rf_unpack_s8 b e p mem).ub = false ∧ (rf_unpack_s8 b e p mem).exh = false ∧ (rf_unpack_s8 b e p mem).pack_basep = b ∧ (rf_unpack_s8 b e p mem).pack_endp = e ∧
    (rf_unpack_s8 b e p mem).pack_p = p + 1#64 ∧ (rf_unpack_s8 b e p mem).ret = (if fitsBV p e 1#64 then mem p else 0#8) := by
  unfold wfPk at hwf
  unfold rf_unpack_s8 fitsBV
  simp only [dec16, dec32, UInt8.toBitVec_ofBitVec]
  first | bv_decide (config := { timeout := 300 }) | (ackermann mem; bv_decide (config := { timeout := 300 }))

theorem unpack_s8_generated_mem (b e p : BitVec 64) (mem : Gen.Mem) : (rf_unpack_s8 b e p mem).mem = mem := by
  unfold rf_unpack_s8
  first | rfl | (funext a; simp only [Mem.ite_app, Mem.store_app]; first | done | bv_decide (config := { timeout := 300 }))

theorem unpack_u8_generated (b e p : BitVec 64) (mem : Gen.Mem) (hwf : wfPk b e p = true) :
    (rf_unpack_u8 b e p mem).ub = false ∧ (rf_unpack_u8 b e p mem).exh = false ∧ (rf_unpack_u8 b e p mem).pack_basep = b ∧ (rf_unpack_u8 b e p mem).pack_endp = e ∧
    (rf_unpack_u8 b e p mem).pack_p = p + 1#64 ∧ (rf_unpack_u8 b e p mem).ret = (if fitsBV p e 1#64 then mem p else 0#8) := by
  unfold wfPk at hwf
  unfold rf_unpack_u8 fitsBV
  simp only [dec16, dec32, UInt8.toBitVec_ofBitVec]
  first | bv_decide (config := { timeout := 300 }) | (ackermann mem; bv_decide (config := { timeout := 300 }))

theorem unpack_u8_generated_mem (b e p : BitVec 64) (mem : Gen.Mem) : (rf_unpack_u8 b e p mem).mem = mem := by
  unfold rf_unpack_u8
  first | rfl | (funext a; simp only [Mem.ite_app, Mem.store_app]; first | done | bv_decide (config := { timeout := 300 }))

theorem unpack_u16le_generated (b e p : BitVec 64) (mem : Gen.Mem) (hwf : wfPk b e p = true) :
    (rf_unpack_u16le b e p mem).ub = false ∧ (rf_unpack_u16le b e p mem).exh = false ∧ (rf_unpack_u16le b e p mem).pack_basep = b ∧ (rf_unpack_u16le b e p mem).pack_endp = e ∧
    (rf_unpack_u16le b e p mem).pack_p = p + 2#64 ∧ (rf_unpack_u16le b e p mem).ret = (if fitsBV p e 2#64 then dec16 (UInt8.ofBitVec (mem p)) (UInt8.ofBitVec (mem (p + 1#64))) else 0#16) := by
  unfold wfPk at hwf
  unfold rf_unpack_u16le fitsBV
  simp only [dec16, dec32, UInt8.toBitVec_ofBitVec]
  first | bv_decide (config := { timeout := 300 }) | (ackermann mem; bv_decide (config := { timeout := 300 }))

theorem unpack_u16le_generated_mem (b e p : BitVec 64) (mem : Gen.Mem) : (rf_unpack_u16le b e p mem).mem = mem := by
  unfold rf_unpack_u16le
  first | rfl | (funext a; simp only [Mem.ite_app, Mem.store_app]; first | done | bv_decide (config := { timeout := 300 }))

theorem unpack_u32le_generated (b e p : BitVec 64) (mem : Gen.Mem) (hwf : wfPk b e p = true) :
    (rf_unpack_u32le b e p mem).ub = false ∧ (rf_unpack_u32le b e p mem).exh = false ∧ (rf_unpack_u32le b e p mem).pack_basep = b ∧ (rf_unpack_u32le b e p mem).pack_endp = e ∧
    (rf_unpack_u32le b e p mem).pack_p = p + 4#64 ∧ (rf_unpack_u32le b e p mem).ret = (if fitsBV p e 4#64 then dec32 (UInt8.ofBitVec (mem p)) (UInt8.ofBitVec (mem (p + 1#64))) (UInt8.ofBitVec (mem (p + 2#64))) (UInt8.ofBitVec (mem (p + 3#64))) else 0#32) := by
  unfold wfPk at hwf
  unfold rf_unpack_u32le fitsBV
  simp only [dec16, dec32, UInt8.toBitVec_ofBitVec]
  first | bv_decide (config := { timeout := 300 }) | (ackermann mem; bv_decide (config := { timeout := 300 }))

theorem unpack_u32le_generated_mem (b e p : BitVec 64) (mem : Gen.Mem) : (rf_unpack_u32le b e p mem).mem = mem := by
  unfold rf_unpack_u32le
  first | rfl | (funext a; simp only [Mem.ite_app, Mem.store_app]; first | done | bv_decide (config := { timeout := 300 }))

theorem pack_init_generated (b0 e0 p0 buf : BitVec 64) (sz : BitVec 32) :
    (rf_pack_init b0 e0 p0 buf sz).ub = false ∧ (rf_pack_init b0 e0 p0 buf sz).exh = false ∧
    (rf_pack_init b0 e0 p0 buf sz).pack_basep = buf ∧ (rf_pack_init b0 e0 p0 buf sz).pack_p = buf ∧
    (rf_pack_init b0 e0 p0 buf sz).pack_endp = buf + sz.setWidth 64 := by
  unfold rf_pack_init
  bv_decide (config := { timeout := 300 })

theorem pack_consumed_generated (b e p : BitVec 64) (hwf : wfPk b e p = true) :
    (rf_pack_consumed b e p).ub = false ∧ (rf_pack_consumed b e p).exh = false ∧ (rf_pack_consumed b e p).pack_basep = b ∧
    (rf_pack_consumed b e p).pack_endp = e ∧ (rf_pack_consumed b e p).pack_p = p ∧ (rf_pack_consumed b e p).ret = (p - b).setWidth 32 := by
  unfold wfPk at hwf
  unfold rf_pack_consumed
  bv_decide (config := { timeout := 300 })

theorem pack_remaining_generated (b e p : BitVec 64) (hwf : wfPk b e p = true) :
    (rf_pack_remaining b e p).ub = false ∧ (rf_pack_remaining b e p).exh = false ∧ (rf_pack_remaining b e p).pack_basep = b ∧
    (rf_pack_remaining b e p).pack_endp = e ∧ (rf_pack_remaining b e p).pack_p = p ∧ (rf_pack_remaining b e p).ret = (e - p).setWidth 32 := by
  unfold wfPk at hwf
  unfold rf_pack_remaining
  bv_decide (config := { timeout := 300 })

theorem pack_bytes_generated (b e p src : BitVec 64) (sz : BitVec 32) (mem : Gen.Mem) (hwf : wfPk b e p = true) :
    (rf_pack_bytes b e p src sz mem).ub = false ∧ (rf_pack_bytes b e p src sz mem).exh = false ∧
    (rf_pack_bytes b e p src sz mem).pack_basep = b ∧ (rf_pack_bytes b e p src sz mem).pack_endp = e ∧
    (rf_pack_bytes b e p src sz mem).pack_p = p + sz.setWidth 64 := by
  unfold wfPk at hwf
  unfold rf_pack_bytes
  first | bv_decide (config := { timeout := 300 }) | (ackermann mem; bv_decide (config := { timeout := 300 }))

/-- `memcpy(q, p, sz)` / `memset(q, 0, sz)` iff the item fits, address by address (all inputs, `bv_decide`) -/
theorem pack_bytes_generated_pt (b e p src : BitVec 64) (sz : BitVec 32) (mem : Gen.Mem) (hwf : wfPk b e p = true) (a : BitVec 64) :
    (rf_pack_bytes b e p src sz mem).mem a =
      (if fitsBV p e (sz.setWidth 64) then
        (if src = 0#64 then (if (a - p).ult (sz.setWidth 64) then 0#8 else mem a)
         else (if (a - p).ult (sz.setWidth 64) then mem (src + (a - p)) else mem a))
       else mem a) := by
  unfold wfPk at hwf
  unfold rf_pack_bytes fitsBV
  simp only [Mem.ite_app, Mem.fill_app_bv, Mem.copy_app_bv]
  first | bv_decide (config := { timeout := 300 }) | (ackermann mem; bv_decide (config := { timeout := 300 }))

theorem pack_bytes_generated_mem (b e p src : BitVec 64) (sz : BitVec 32) (mem : Gen.Mem) (hwf : wfPk b e p = true) :
    (rf_pack_bytes b e p src sz mem).mem =
      (if fitsBV p e (sz.setWidth 64) then (if src = 0#64 then Mem.fill mem p 0#8 sz.toNat else Mem.copy mem p src sz.toNat) else mem) := by
  have h : sz.toNat = (sz.setWidth 64).toNat := by
    simp only [BitVec.toNat_setWidth]; exact (Nat.mod_eq_of_lt (by have := sz.isLt; omega)).symm
  funext a
  rw [pack_bytes_generated_pt b e p src sz mem hwf a, h]
  simp only [Mem.ite_app, Mem.fill_app_bv, Mem.copy_app_bv]

theorem unpack_bytes_generated (b e p dst : BitVec 64) (sz : BitVec 32) (mem : Gen.Mem) (hwf : wfPk b e p = true) :
    (rf_unpack_bytes b e p dst sz mem).ub = false ∧ (rf_unpack_bytes b e p dst sz mem).exh = false ∧
    (rf_unpack_bytes b e p dst sz mem).pack_basep = b ∧ (rf_unpack_bytes b e p dst sz mem).pack_endp = e ∧
    (rf_unpack_bytes b e p dst sz mem).pack_p = p + sz.setWidth 64 := by
  unfold wfPk at hwf
  unfold rf_unpack_bytes
  first | bv_decide (config := { timeout := 300 }) | (ackermann mem; bv_decide (config := { timeout := 300 }))

/-- destination = the item if it fits, zeros if not, untouched when NULL; address by address (all inputs, `bv_decide`) -/
theorem unpack_bytes_generated_pt (b e p dst : BitVec 64) (sz : BitVec 32) (mem : Gen.Mem) (hwf : wfPk b e p = true) (a : BitVec 64) :
    (rf_unpack_bytes b e p dst sz mem).mem a =
      (if dst = 0#64 then mem a
       else if fitsBV p e (sz.setWidth 64) then (if (a - dst).ult (sz.setWidth 64) then mem (p + (a - dst)) else mem a)
       else (if (a - dst).ult (sz.setWidth 64) then 0#8 else mem a)) := by
  unfold wfPk at hwf
  unfold rf_unpack_bytes fitsBV
  simp only [Mem.ite_app, Mem.fill_app_bv, Mem.copy_app_bv]
  first | bv_decide (config := { timeout := 300 }) | (ackermann mem; bv_decide (config := { timeout := 300 }))

theorem unpack_bytes_generated_mem (b e p dst : BitVec 64) (sz : BitVec 32) (mem : Gen.Mem) (hwf : wfPk b e p = true) :
    (rf_unpack_bytes b e p dst sz mem).mem =
      (if dst = 0#64 then mem else if fitsBV p e (sz.setWidth 64) then Mem.copy mem dst p sz.toNat else Mem.fill mem dst 0#8 sz.toNat) := by
  have h : sz.toNat = (sz.setWidth 64).toNat := by
    simp only [BitVec.toNat_setWidth]; exact (Nat.mod_eq_of_lt (by have := sz.isLt; omega)).symm
  funext a
  rw [unpack_bytes_generated_pt b e p dst sz mem hwf a, h]
  simp only [Mem.ite_app, Mem.fill_app_bv, Mem.copy_app_bv]

/-! ### layer 2 -/

theorem wf_of_pk (pk : Pk) (hb : pk.base < 2 ^ 63) (hs : pk.size < 2 ^ 32) (hc : pk.cur < 2 ^ 33) :
    wfPk (BitVec.ofNat 64 pk.base) (BitVec.ofNat 64 (pk.base + pk.size)) (BitVec.ofNat 64 (pk.base + pk.cur)) = true := by
  unfold wfPk
  simp only [Bool.and_eq_true, BitVec.ule, BitVec.ult, decide_eq_true_eq, BitVec.toNat_ofNat, BitVec.toNat_sub]
  refine ⟨⟨⟨⟨?_, ?_⟩, ?_⟩, ?_⟩, ?_⟩ <;> omega

/-- the byte memory represents the model's memory -/
def AbsM (mem : Gen.Mem) (m : Librfn.Model.Pack.Mem) : Prop :=
  ∀ i, i < 2 ^ 64 → m i = UInt8.ofBitVec (mem (BitVec.ofNat 64 i))

theorem ofNat64_inj (a b : Nat) (ha : a < 2 ^ 64) (hb : b < 2 ^ 64) : BitVec.ofNat 64 a = BitVec.ofNat 64 b ↔ a = b := by
  constructor
  · intro h
    have := congrArg BitVec.toNat h
    simp only [BitVec.toNat_ofNat] at this
    omega
  · intro h; rw [h]

theorem ofNat64_add (a k : Nat) : BitVec.ofNat 64 a + BitVec.ofNat 64 k = BitVec.ofNat 64 (a + k) := by
  apply BitVec.eq_of_toNat_eq
  simp only [BitVec.toNat_add, BitVec.toNat_ofNat]
  omega

theorem fits_iff (pk : Pk) (n : Nat) (h1 : pk.base + pk.size < 2 ^ 64) (h2 : pk.base + pk.cur + n < 2 ^ 64) :
    fitsBV (BitVec.ofNat 64 (pk.base + pk.cur)) (BitVec.ofNat 64 (pk.base + pk.size)) (BitVec.ofNat 64 n) = fits pk n := by
  unfold fitsBV fits
  rw [ofNat64_add]
  simp only [BitVec.ule, BitVec.toNat_ofNat]
  rw [Nat.mod_eq_of_lt h1, Nat.mod_eq_of_lt (show pk.base + pk.cur + n < 2 ^ 64 from h2)]
  by_cases h : pk.cur + n ≤ pk.size
  · simp only [h, decide_true]; apply decide_eq_true; omega
  · simp only [h, decide_false]; apply decide_eq_false; omega

theorem writeBytes_apply (m : Librfn.Model.Pack.Mem) (a : Nat) (bs : List UInt8) (i : Nat) :
    writeBytes m a bs i = if a ≤ i ∧ i < a + bs.length then bs.getD (i - a) 0 else m i := by
  induction bs generalizing m a with
  | nil => simp only [writeBytes, List.length_nil, Nat.add_zero]; rw [if_neg (by omega)]
  | cons b bs ih =>
    simp only [writeBytes, List.length_cons]
    rw [ih]
    by_cases h1 : a + 1 ≤ i ∧ i < a + 1 + bs.length
    · have e : i - a = (i - (a + 1)) + 1 := by omega
      have h2 : a ≤ i ∧ i < a + (bs.length + 1) := by omega
      rw [if_pos h1, if_pos h2, e, List.getD_cons_succ]
    · rw [if_neg h1]
      by_cases h3 : i = a
      · subst h3
        have h2 : i ≤ i ∧ i < i + (bs.length + 1) := by omega
        rw [if_pos h2]; simp
      · have h2 : ¬ (a ≤ i ∧ i < a + (bs.length + 1)) := by omega
        rw [if_neg h2]; simp [h3]

theorem addr_k (x i k n : Nat) (hi : i < 2 ^ 64) (h : x + n < 2 ^ 64) :
    (BitVec.ofNat 64 i = BitVec.ofNat 64 x + BitVec.ofNat 64 k ∧ k < n) ↔ (i = x + k ∧ k < n) := by
  rw [ofNat64_add]
  constructor
  · intro ⟨h1, h2⟩; exact ⟨(ofNat64_inj _ _ hi (by omega)).1 h1, h2⟩
  · intro ⟨h1, h2⟩; exact ⟨by rw [h1], h2⟩

/-- representation of the packer structure -/
structure AbsP (b e p : BitVec 64) (pk : Pk) : Prop where
  hb : b = BitVec.ofNat 64 pk.base
  he : e = BitVec.ofNat 64 (pk.base + pk.size)
  hp : p = BitVec.ofNat 64 (pk.base + pk.cur)

/-- one fixed-size packer: what the four obligations of layer 1 give, for any encoder -/
theorem packer_tie (enc : List UInt8) (n : Nat) (hn : enc.length = n) (hn4 : n ≤ 4)
    (m : Librfn.Model.Pack.Mem) (pk : Pk) (mem gmem : Gen.Mem) (gp : BitVec 64)
    (habs : AbsM mem m) (h1 : pk.base + pk.size < 2 ^ 64) (h2 : pk.base + pk.cur + n < 2 ^ 64)
    (hgp : gp = BitVec.ofNat 64 (pk.base + pk.cur) + BitVec.ofNat 64 n)
    (hmem : ∀ a, gmem a = (if fitsBV (BitVec.ofNat 64 (pk.base + pk.cur)) (BitVec.ofNat 64 (pk.base + pk.size)) (BitVec.ofNat 64 n) then
        (if a = BitVec.ofNat 64 (pk.base + pk.cur) + 3#64 ∧ 3 < n then byteAt enc 3
         else if a = BitVec.ofNat 64 (pk.base + pk.cur) + 2#64 ∧ 2 < n then byteAt enc 2
         else if a = BitVec.ofNat 64 (pk.base + pk.cur) + 1#64 ∧ 1 < n then byteAt enc 1
         else if a = BitVec.ofNat 64 (pk.base + pk.cur) ∧ 0 < n then byteAt enc 0 else mem a) else mem a)) :
    gp = BitVec.ofNat 64 (pk.base + (packRaw m pk enc).2.cur) ∧ AbsM gmem (packRaw m pk enc).1 := by
  constructor
  · rw [hgp, ofNat64_add]; simp only [packRaw, advance, hn, Nat.add_assoc]
  · intro i hi
    rw [hmem, fits_iff pk n h1 h2]
    unfold packRaw
    simp only [hn]
    by_cases hf : fits pk n = true
    · simp only [hf, if_true]
      rw [writeBytes_apply, hn]
      have a3 := addr_k (pk.base + pk.cur) i 3 n hi h2
      have a2 := addr_k (pk.base + pk.cur) i 2 n hi h2
      have a1 := addr_k (pk.base + pk.cur) i 1 n hi h2
      have a0 : (BitVec.ofNat 64 i = BitVec.ofNat 64 (pk.base + pk.cur)) ↔ i = pk.base + pk.cur :=
        ofNat64_inj _ _ hi (by omega)
      simp only [a3, a2, a1, a0]
      by_cases c3 : i = pk.base + pk.cur + 3 ∧ 3 < n
      · rw [if_pos c3, if_pos (by omega)]; simp only [byteAt, UInt8.ofBitVec_toBitVec]; congr 1; omega
      · rw [if_neg c3]
        by_cases c2 : i = pk.base + pk.cur + 2 ∧ 2 < n
        · rw [if_pos c2, if_pos (by omega)]; simp only [byteAt, UInt8.ofBitVec_toBitVec]; congr 1; omega
        · rw [if_neg c2]
          by_cases c1 : i = pk.base + pk.cur + 1 ∧ 1 < n
          · rw [if_pos c1, if_pos (by omega)]; simp only [byteAt, UInt8.ofBitVec_toBitVec]; congr 1; omega
          · rw [if_neg c1]
            by_cases c0 : i = pk.base + pk.cur ∧ 0 < n
            · rw [if_pos c0, if_pos (by omega)]; simp only [byteAt, UInt8.ofBitVec_toBitVec]; congr 1; omega
            · rw [if_neg c0, if_neg (by omega)]; exact habs i hi
    · have hf' : fits pk n = false := by simpa using hf
      simp only [hf', Bool.false_eq_true, if_false]
      exact habs i hi

/-- **tie T, `rf_pack_s16le`** -/
theorem pack_s16le_tie (m : Librfn.Model.Pack.Mem) (pk : Pk) (hb : pk.base < 2 ^ 63) (hs : pk.size < 2 ^ 32) (hc : pk.cur < 2 ^ 33) (v : BitVec 16) (mem : Gen.Mem) (habs : AbsM mem m)
    (h1 : pk.base + pk.size < 2 ^ 64) (h2 : pk.base + pk.cur + 2 < 2 ^ 64) :
    let g := rf_pack_s16le (BitVec.ofNat 64 pk.base) (BitVec.ofNat 64 (pk.base + pk.size)) (BitVec.ofNat 64 (pk.base + pk.cur)) v mem
    g.ub = false ∧ g.exh = false ∧ g.pack_basep = BitVec.ofNat 64 pk.base ∧ g.pack_endp = BitVec.ofNat 64 (pk.base + pk.size) ∧
    g.pack_p = BitVec.ofNat 64 (pk.base + (packS16le m pk v).2.cur) ∧ AbsM g.mem (packS16le m pk v).1 := by
  obtain ⟨a1, a2, a3, a4, a5⟩ := pack_s16le_generated (BitVec.ofNat 64 pk.base) (BitVec.ofNat 64 (pk.base + pk.size)) (BitVec.ofNat 64 (pk.base + pk.cur)) v mem (wf_of_pk pk hb hs hc)
  have hm := pack_s16le_generated_mem (BitVec.ofNat 64 pk.base) (BitVec.ofNat 64 (pk.base + pk.size)) (BitVec.ofNat 64 (pk.base + pk.cur)) v mem (wf_of_pk pk hb hs hc)
  have t := packer_tie (encS16le v) 2 rfl (by omega) m pk mem (rf_pack_s16le (BitVec.ofNat 64 pk.base) (BitVec.ofNat 64 (pk.base + pk.size)) (BitVec.ofNat 64 (pk.base + pk.cur)) v mem).mem (rf_pack_s16le (BitVec.ofNat 64 pk.base) (BitVec.ofNat 64 (pk.base + pk.size)) (BitVec.ofNat 64 (pk.base + pk.cur)) v mem).pack_p habs h1 h2 a5 (by intro a; rw [hm a]; simp)
  exact ⟨a1, a2, a3, a4, t.1, t.2⟩

/-- **tie T, `rf_pack_u16be`** -/
theorem pack_u16be_tie (m : Librfn.Model.Pack.Mem) (pk : Pk) (hb : pk.base < 2 ^ 63) (hs : pk.size < 2 ^ 32) (hc : pk.cur < 2 ^ 33) (v : BitVec 16) (mem : Gen.Mem) (habs : AbsM mem m)
    (h1 : pk.base + pk.size < 2 ^ 64) (h2 : pk.base + pk.cur + 2 < 2 ^ 64) :
    let g := rf_pack_u16be (BitVec.ofNat 64 pk.base) (BitVec.ofNat 64 (pk.base + pk.size)) (BitVec.ofNat 64 (pk.base + pk.cur)) v mem
    g.ub = false ∧ g.exh = false ∧ g.pack_basep = BitVec.ofNat 64 pk.base ∧ g.pack_endp = BitVec.ofNat 64 (pk.base + pk.size) ∧
    g.pack_p = BitVec.ofNat 64 (pk.base + (packU16be m pk v).2.cur) ∧ AbsM g.mem (packU16be m pk v).1 := by
  obtain ⟨a1, a2, a3, a4, a5⟩ := pack_u16be_generated (BitVec.ofNat 64 pk.base) (BitVec.ofNat 64 (pk.base + pk.size)) (BitVec.ofNat 64 (pk.base + pk.cur)) v mem (wf_of_pk pk hb hs hc)
  have hm := pack_u16be_generated_mem (BitVec.ofNat 64 pk.base) (BitVec.ofNat 64 (pk.base + pk.size)) (BitVec.ofNat 64 (pk.base + pk.cur)) v mem (wf_of_pk pk hb hs hc)
  have t := packer_tie (encU16be v) 2 rfl (by omega) m pk mem (rf_pack_u16be (BitVec.ofNat 64 pk.base) (BitVec.ofNat 64 (pk.base + pk.size)) (BitVec.ofNat 64 (pk.base + pk.cur)) v mem).mem (rf_pack_u16be (BitVec.ofNat 64 pk.base) (BitVec.ofNat 64 (pk.base + pk.size)) (BitVec.ofNat 64 (pk.base + pk.cur)) v mem).pack_p habs h1 h2 a5 (by intro a; rw [hm a]; simp)
  exact ⟨a1, a2, a3, a4, t.1, t.2⟩

/-- **tie T, `rf_pack_u16le`** -/
theorem pack_u16le_tie (m : Librfn.Model.Pack.Mem) (pk : Pk) (hb : pk.base < 2 ^ 63) (hs : pk.size < 2 ^ 32) (hc : pk.cur < 2 ^ 33) (v : BitVec 16) (mem : Gen.Mem) (habs : AbsM mem m)
    (h1 : pk.base + pk.size < 2 ^ 64) (h2 : pk.base + pk.cur + 2 < 2 ^ 64) :
    let g := rf_pack_u16le (BitVec.ofNat 64 pk.base) (BitVec.ofNat 64 (pk.base + pk.size)) (BitVec.ofNat 64 (pk.base + pk.cur)) v mem
    g.ub = false ∧ g.exh = false ∧ g.pack_basep = BitVec.ofNat 64 pk.base ∧ g.pack_endp = BitVec.ofNat 64 (pk.base + pk.size) ∧
    g.pack_p = BitVec.ofNat 64 (pk.base + (packU16le m pk v).2.cur) ∧ AbsM g.mem (packU16le m pk v).1 := by
  obtain ⟨a1, a2, a3, a4, a5⟩ := pack_u16le_generated (BitVec.ofNat 64 pk.base) (BitVec.ofNat 64 (pk.base + pk.size)) (BitVec.ofNat 64 (pk.base + pk.cur)) v mem (wf_of_pk pk hb hs hc)
  have hm := pack_u16le_generated_mem (BitVec.ofNat 64 pk.base) (BitVec.ofNat 64 (pk.base + pk.size)) (BitVec.ofNat 64 (pk.base + pk.cur)) v mem (wf_of_pk pk hb hs hc)
  have t := packer_tie (encU16le v) 2 rfl (by omega) m pk mem (rf_pack_u16le (BitVec.ofNat 64 pk.base) (BitVec.ofNat 64 (pk.base + pk.size)) (BitVec.ofNat 64 (pk.base + pk.cur)) v mem).mem (rf_pack_u16le (BitVec.ofNat 64 pk.base) (BitVec.ofNat 64 (pk.base + pk.size)) (BitVec.ofNat 64 (pk.base + pk.cur)) v mem).pack_p habs h1 h2 a5 (by intro a; rw [hm a]; simp)
  exact ⟨a1, a2, a3, a4, t.1, t.2⟩

/-- **tie T, `rf_pack_s32le`** -/
theorem pack_s32le_tie (m : Librfn.Model.Pack.Mem) (pk : Pk) (hb : pk.base < 2 ^ 63) (hs : pk.size < 2 ^ 32) (hc : pk.cur < 2 ^ 33) (v : BitVec 32) (mem : Gen.Mem) (habs : AbsM mem m)
    (h1 : pk.base + pk.size < 2 ^ 64) (h2 : pk.base + pk.cur + 4 < 2 ^ 64) :
    let g := rf_pack_s32le (BitVec.ofNat 64 pk.base) (BitVec.ofNat 64 (pk.base + pk.size)) (BitVec.ofNat 64 (pk.base + pk.cur)) v mem
    g.ub = false ∧ g.exh = false ∧ g.pack_basep = BitVec.ofNat 64 pk.base ∧ g.pack_endp = BitVec.ofNat 64 (pk.base + pk.size) ∧
    g.pack_p = BitVec.ofNat 64 (pk.base + (packS32le m pk v).2.cur) ∧ AbsM g.mem (packS32le m pk v).1 := by
  obtain ⟨a1, a2, a3, a4, a5⟩ := pack_s32le_generated (BitVec.ofNat 64 pk.base) (BitVec.ofNat 64 (pk.base + pk.size)) (BitVec.ofNat 64 (pk.base + pk.cur)) v mem (wf_of_pk pk hb hs hc)
  have hm := pack_s32le_generated_mem (BitVec.ofNat 64 pk.base) (BitVec.ofNat 64 (pk.base + pk.size)) (BitVec.ofNat 64 (pk.base + pk.cur)) v mem (wf_of_pk pk hb hs hc)
  have t := packer_tie (encS32le v) 4 rfl (by omega) m pk mem (rf_pack_s32le (BitVec.ofNat 64 pk.base) (BitVec.ofNat 64 (pk.base + pk.size)) (BitVec.ofNat 64 (pk.base + pk.cur)) v mem).mem (rf_pack_s32le (BitVec.ofNat 64 pk.base) (BitVec.ofNat 64 (pk.base + pk.size)) (BitVec.ofNat 64 (pk.base + pk.cur)) v mem).pack_p habs h1 h2 a5 (by intro a; rw [hm a]; simp)
  exact ⟨a1, a2, a3, a4, t.1, t.2⟩

/-- **tie T, `rf_pack_u32le`** -/
theorem pack_u32le_tie (m : Librfn.Model.Pack.Mem) (pk : Pk) (hb : pk.base < 2 ^ 63) (hs : pk.size < 2 ^ 32) (hc : pk.cur < 2 ^ 33) (v : BitVec 32) (mem : Gen.Mem) (habs : AbsM mem m)
    (h1 : pk.base + pk.size < 2 ^ 64) (h2 : pk.base + pk.cur + 4 < 2 ^ 64) :
    let g := rf_pack_u32le (BitVec.ofNat 64 pk.base) (BitVec.ofNat 64 (pk.base + pk.size)) (BitVec.ofNat 64 (pk.base + pk.cur)) v mem
    g.ub = false ∧ g.exh = false ∧ g.pack_basep = BitVec.ofNat 64 pk.base ∧ g.pack_endp = BitVec.ofNat 64 (pk.base + pk.size) ∧
    g.pack_p = BitVec.ofNat 64 (pk.base + (packU32le m pk v).2.cur) ∧ AbsM g.mem (packU32le m pk v).1 := by
  obtain ⟨a1, a2, a3, a4, a5⟩ := pack_u32le_generated (BitVec.ofNat 64 pk.base) (BitVec.ofNat 64 (pk.base + pk.size)) (BitVec.ofNat 64 (pk.base + pk.cur)) v mem (wf_of_pk pk hb hs hc)
  have hm := pack_u32le_generated_mem (BitVec.ofNat 64 pk.base) (BitVec.ofNat 64 (pk.base + pk.size)) (BitVec.ofNat 64 (pk.base + pk.cur)) v mem (wf_of_pk pk hb hs hc)
  have t := packer_tie (encU32le v) 4 rfl (by omega) m pk mem (rf_pack_u32le (BitVec.ofNat 64 pk.base) (BitVec.ofNat 64 (pk.base + pk.size)) (BitVec.ofNat 64 (pk.base + pk.cur)) v mem).mem (rf_pack_u32le (BitVec.ofNat 64 pk.base) (BitVec.ofNat 64 (pk.base + pk.size)) (BitVec.ofNat 64 (pk.base + pk.cur)) v mem).pack_p habs h1 h2 a5 (by intro a; rw [hm a]; simp)
  exact ⟨a1, a2, a3, a4, t.1, t.2⟩

theorem absm_at (mem : Gen.Mem) (m : Librfn.Model.Pack.Mem) (habs : AbsM mem m) (x k : Nat) (h : x + k < 2 ^ 64) :
    UInt8.ofBitVec (mem (BitVec.ofNat 64 x + BitVec.ofNat 64 k)) = m (x + k) := by
  rw [ofNat64_add, habs (x + k) h]

/-- **tie T, `rf_unpack_u32le`** -/
theorem unpack_u32le_tie (m : Librfn.Model.Pack.Mem) (pk : Pk) (hb : pk.base < 2 ^ 63) (hs : pk.size < 2 ^ 32) (hc : pk.cur < 2 ^ 33) (mem : Gen.Mem) (habs : AbsM mem m)
    (h1 : pk.base + pk.size < 2 ^ 64) (h2 : pk.base + pk.cur + 4 < 2 ^ 64) :
    let g := rf_unpack_u32le (BitVec.ofNat 64 pk.base) (BitVec.ofNat 64 (pk.base + pk.size)) (BitVec.ofNat 64 (pk.base + pk.cur)) mem
    g.ub = false ∧ g.exh = false ∧ g.pack_basep = BitVec.ofNat 64 pk.base ∧ g.pack_endp = BitVec.ofNat 64 (pk.base + pk.size) ∧
    g.pack_p = BitVec.ofNat 64 (pk.base + (unpackU32le m pk).2.cur) ∧ g.ret = (unpackU32le m pk).1 ∧ g.mem = mem := by
  obtain ⟨a1, a2, a3, a4, a5, a6⟩ := unpack_u32le_generated (BitVec.ofNat 64 pk.base) (BitVec.ofNat 64 (pk.base + pk.size)) (BitVec.ofNat 64 (pk.base + pk.cur)) mem (wf_of_pk pk hb hs hc)
  refine ⟨a1, a2, a3, a4, ?_, ?_, unpack_u32le_generated_mem _ _ _ _⟩
  · rw [a5, show (4#64 : BitVec 64) = BitVec.ofNat 64 4 from rfl, ofNat64_add]; simp only [unpackU32le, advance, Nat.add_assoc]
  · rw [a6, show (4#64 : BitVec 64) = BitVec.ofNat 64 4 from rfl, fits_iff pk 4 h1 h2]
    unfold unpackU32le
    have e0 := absm_at mem m habs (pk.base + pk.cur) 0 (by omega)
    have e1 := absm_at mem m habs (pk.base + pk.cur) 1 (by omega)
    have e2 := absm_at mem m habs (pk.base + pk.cur) 2 (by omega)
    have e3 := absm_at mem m habs (pk.base + pk.cur) 3 (by omega)
    simp only [BitVec.ofNat_eq_ofNat, BitVec.add_zero, Nat.add_zero] at e0
    rw [show (1#64 : BitVec 64) = BitVec.ofNat 64 1 from rfl, show (2#64 : BitVec 64) = BitVec.ofNat 64 2 from rfl,
        show (3#64 : BitVec 64) = BitVec.ofNat 64 3 from rfl, e0, e1, e2, e3]

/-- **tie T, `rf_unpack_u16le`** -/
theorem unpack_u16le_tie (m : Librfn.Model.Pack.Mem) (pk : Pk) (hb : pk.base < 2 ^ 63) (hs : pk.size < 2 ^ 32) (hc : pk.cur < 2 ^ 33) (mem : Gen.Mem) (habs : AbsM mem m)
    (h1 : pk.base + pk.size < 2 ^ 64) (h2 : pk.base + pk.cur + 2 < 2 ^ 64) :
    let g := rf_unpack_u16le (BitVec.ofNat 64 pk.base) (BitVec.ofNat 64 (pk.base + pk.size)) (BitVec.ofNat 64 (pk.base + pk.cur)) mem
    g.ub = false ∧ g.exh = false ∧ g.pack_basep = BitVec.ofNat 64 pk.base ∧ g.pack_endp = BitVec.ofNat 64 (pk.base + pk.size) ∧
    g.pack_p = BitVec.ofNat 64 (pk.base + (unpackU16le m pk).2.cur) ∧ g.ret = (unpackU16le m pk).1 ∧ g.mem = mem := by
  obtain ⟨a1, a2, a3, a4, a5, a6⟩ := unpack_u16le_generated (BitVec.ofNat 64 pk.base) (BitVec.ofNat 64 (pk.base + pk.size)) (BitVec.ofNat 64 (pk.base + pk.cur)) mem (wf_of_pk pk hb hs hc)
  refine ⟨a1, a2, a3, a4, ?_, ?_, unpack_u16le_generated_mem _ _ _ _⟩
  · rw [a5, show (2#64 : BitVec 64) = BitVec.ofNat 64 2 from rfl, ofNat64_add]; simp only [unpackU16le, advance, Nat.add_assoc]
  · rw [a6, show (2#64 : BitVec 64) = BitVec.ofNat 64 2 from rfl, fits_iff pk 2 h1 h2]
    unfold unpackU16le
    have e0 := absm_at mem m habs (pk.base + pk.cur) 0 (by omega)
    have e1 := absm_at mem m habs (pk.base + pk.cur) 1 (by omega)
    simp only [BitVec.ofNat_eq_ofNat, BitVec.add_zero, Nat.add_zero] at e0
    rw [show (1#64 : BitVec 64) = BitVec.ofNat 64 1 from rfl, e0, e1]

/-- **tie T, `rf_unpack_u8` / `rf_unpack_s8` / `rf_unpack_char`**: the byte at the cursor (0 when it does not fit); the
    model reads it as unsigned (`unpackU8`) or signed (`unpackS8`, `unpackChar`) -/
theorem unpack_u8_tie (m : Librfn.Model.Pack.Mem) (pk : Pk) (hb : pk.base < 2 ^ 63) (hs : pk.size < 2 ^ 32) (hc : pk.cur < 2 ^ 33) (mem : Gen.Mem) (habs : AbsM mem m)
    (h1 : pk.base + pk.size < 2 ^ 64) (h2 : pk.base + pk.cur + 1 < 2 ^ 64) :
    let g := rf_unpack_u8 (BitVec.ofNat 64 pk.base) (BitVec.ofNat 64 (pk.base + pk.size)) (BitVec.ofNat 64 (pk.base + pk.cur)) mem
    g.ub = false ∧ g.exh = false ∧ g.pack_p = BitVec.ofNat 64 (pk.base + (unpackU8 m pk).2.cur) ∧
    UInt8.ofBitVec g.ret = (unpackU8 m pk).1 ∧ g.mem = mem := by
  obtain ⟨a1, a2, _, _, a5, a6⟩ := unpack_u8_generated (BitVec.ofNat 64 pk.base) (BitVec.ofNat 64 (pk.base + pk.size)) (BitVec.ofNat 64 (pk.base + pk.cur)) mem (wf_of_pk pk hb hs hc)
  refine ⟨a1, a2, ?_, ?_, unpack_u8_generated_mem _ _ _ _⟩
  · rw [a5, show (1#64 : BitVec 64) = BitVec.ofNat 64 1 from rfl, ofNat64_add]; simp only [unpackU8, advance, Nat.add_assoc]
  · rw [a6, show (1#64 : BitVec 64) = BitVec.ofNat 64 1 from rfl, fits_iff pk 1 h1 h2]
    unfold unpackU8
    have e0 := habs (pk.base + pk.cur) (by omega)
    by_cases hf : fits pk 1 = true
    · simp only [hf, if_true]; rw [e0]
    · have hf' : fits pk 1 = false := by simpa using hf
      simp only [hf', Bool.false_eq_true, if_false]; rfl

theorem unpack_s8_tie (m : Librfn.Model.Pack.Mem) (pk : Pk) (hb : pk.base < 2 ^ 63) (hs : pk.size < 2 ^ 32) (hc : pk.cur < 2 ^ 33) (mem : Gen.Mem) (habs : AbsM mem m)
    (h1 : pk.base + pk.size < 2 ^ 64) (h2 : pk.base + pk.cur + 1 < 2 ^ 64) :
    let g := rf_unpack_s8 (BitVec.ofNat 64 pk.base) (BitVec.ofNat 64 (pk.base + pk.size)) (BitVec.ofNat 64 (pk.base + pk.cur)) mem
    g.ub = false ∧ g.exh = false ∧ g.pack_p = BitVec.ofNat 64 (pk.base + (unpackS8 m pk).2.cur) ∧
    g.ret.toInt = (unpackS8 m pk).1 ∧ g.mem = mem := by
  obtain ⟨a1, a2, _, _, a5, a6⟩ := unpack_s8_generated (BitVec.ofNat 64 pk.base) (BitVec.ofNat 64 (pk.base + pk.size)) (BitVec.ofNat 64 (pk.base + pk.cur)) mem (wf_of_pk pk hb hs hc)
  refine ⟨a1, a2, ?_, ?_, unpack_s8_generated_mem _ _ _ _⟩
  · rw [a5, show (1#64 : BitVec 64) = BitVec.ofNat 64 1 from rfl, ofNat64_add]; simp only [unpackS8, advance, Nat.add_assoc]
  · rw [a6, show (1#64 : BitVec 64) = BitVec.ofNat 64 1 from rfl, fits_iff pk 1 h1 h2]
    unfold unpackS8
    have e0 := habs (pk.base + pk.cur) (by omega)
    by_cases hf : fits pk 1 = true
    · simp only [hf, if_true]; rw [e0]
    · have hf' : fits pk 1 = false := by simpa using hf
      simp only [hf', Bool.false_eq_true, if_false]; rfl

theorem unpack_char_tie (m : Librfn.Model.Pack.Mem) (pk : Pk) (hb : pk.base < 2 ^ 63) (hs : pk.size < 2 ^ 32) (hc : pk.cur < 2 ^ 33) (mem : Gen.Mem) (habs : AbsM mem m)
    (h1 : pk.base + pk.size < 2 ^ 64) (h2 : pk.base + pk.cur + 1 < 2 ^ 64) :
    let g := rf_unpack_char (BitVec.ofNat 64 pk.base) (BitVec.ofNat 64 (pk.base + pk.size)) (BitVec.ofNat 64 (pk.base + pk.cur)) mem
    g.ub = false ∧ g.exh = false ∧ g.pack_p = BitVec.ofNat 64 (pk.base + (unpackChar m pk).2.cur) ∧
    g.ret.toInt = (unpackChar m pk).1 ∧ g.mem = mem := by
  obtain ⟨a1, a2, _, _, a5, a6⟩ := unpack_char_generated (BitVec.ofNat 64 pk.base) (BitVec.ofNat 64 (pk.base + pk.size)) (BitVec.ofNat 64 (pk.base + pk.cur)) mem (wf_of_pk pk hb hs hc)
  refine ⟨a1, a2, ?_, ?_, unpack_char_generated_mem _ _ _ _⟩
  · rw [a5, show (1#64 : BitVec 64) = BitVec.ofNat 64 1 from rfl, ofNat64_add]; simp only [unpackChar, unpackS8, advance, Nat.add_assoc]
  · rw [a6, show (1#64 : BitVec 64) = BitVec.ofNat 64 1 from rfl, fits_iff pk 1 h1 h2]
    unfold unpackChar unpackS8
    have e0 := habs (pk.base + pk.cur) (by omega)
    by_cases hf : fits pk 1 = true
    · simp only [hf, if_true]; rw [e0]
    · have hf' : fits pk 1 = false := by simpa using hf
      simp only [hf', Bool.false_eq_true, if_false]; rfl

/-- **tie T, `rf_pack_init`, `rf_pack_consumed`, `rf_pack_remaining`** -/
theorem pack_init_tie (b0 e0 p0 : BitVec 64) (base sz : Nat) (hs : sz < 2 ^ 32) :
    let g := rf_pack_init b0 e0 p0 (BitVec.ofNat 64 base) (BitVec.ofNat 32 sz)
    g.ub = false ∧ g.exh = false ∧ AbsP g.pack_basep g.pack_endp g.pack_p (init base sz) := by
  obtain ⟨a1, a2, a3, a4, a5⟩ := pack_init_generated b0 e0 p0 (BitVec.ofNat 64 base) (BitVec.ofNat 32 sz)
  refine ⟨a1, a2, ⟨a3, ?_, by rw [a4]; rfl⟩⟩
  rw [a5]
  have : (BitVec.ofNat 32 sz).setWidth 64 = BitVec.ofNat 64 sz := by
    apply BitVec.eq_of_toNat_eq; simp only [BitVec.toNat_setWidth, BitVec.toNat_ofNat]; omega
  rw [this, ofNat64_add]; rfl

theorem pack_consumed_tie (pk : Pk) (hb : pk.base < 2 ^ 63) (hs : pk.size < 2 ^ 32) (hc : pk.cur < 2 ^ 33) (h2 : pk.base + pk.cur < 2 ^ 64) :
    let g := rf_pack_consumed (BitVec.ofNat 64 pk.base) (BitVec.ofNat 64 (pk.base + pk.size)) (BitVec.ofNat 64 (pk.base + pk.cur))
    g.ub = false ∧ g.exh = false ∧ g.ret.toInt = consumed pk := by
  obtain ⟨a1, a2, _, _, _, a6⟩ := pack_consumed_generated (BitVec.ofNat 64 pk.base) (BitVec.ofNat 64 (pk.base + pk.size)) (BitVec.ofNat 64 (pk.base + pk.cur)) (wf_of_pk pk hb hs hc)
  refine ⟨a1, a2, ?_⟩
  rw [a6]
  have e : BitVec.ofNat 64 (pk.base + pk.cur) - BitVec.ofNat 64 pk.base = BitVec.ofNat 64 pk.cur := by
    rw [← ofNat64_add, BitVec.add_comm, BitVec.add_sub_cancel]
  rw [e]
  unfold consumed wrap32
  simp only [BitVec.toInt_eq_toNat_bmod, BitVec.toNat_setWidth, BitVec.toNat_ofNat]
  have hc : pk.cur < 2 ^ 64 := by omega
  rw [Nat.mod_eq_of_lt hc]
  simp only [Int.bmod]
  split <;> omega

theorem pack_remaining_tie (pk : Pk) (hb : pk.base < 2 ^ 63) (hs : pk.size < 2 ^ 32) (hc : pk.cur < 2 ^ 33) (h1 : pk.base + pk.size < 2 ^ 64) (h2 : pk.base + pk.cur < 2 ^ 64) :
    let g := rf_pack_remaining (BitVec.ofNat 64 pk.base) (BitVec.ofNat 64 (pk.base + pk.size)) (BitVec.ofNat 64 (pk.base + pk.cur))
    g.ub = false ∧ g.exh = false ∧ g.ret.toInt = remaining pk := by
  obtain ⟨a1, a2, _, _, _, a6⟩ := pack_remaining_generated (BitVec.ofNat 64 pk.base) (BitVec.ofNat 64 (pk.base + pk.size)) (BitVec.ofNat 64 (pk.base + pk.cur)) (wf_of_pk pk hb hs hc)
  refine ⟨a1, a2, ?_⟩
  rw [a6]
  unfold remaining wrap32
  simp only [BitVec.toInt_eq_toNat_bmod, BitVec.toNat_setWidth, BitVec.toNat_sub, BitVec.toNat_ofNat]
  rw [Nat.mod_eq_of_lt h1, Nat.mod_eq_of_lt h2]
  simp only [Int.bmod]
  split <;> omega

/-! ### the byte-array functions (`memcpy` / `memset`) -/

theorem sub_lt_iff (i a n : Nat) (hi : i < 2 ^ 64) (ha : a + n < 2 ^ 64) :
    ((BitVec.ofNat 64 i - BitVec.ofNat 64 a).toNat < n) ↔ (a ≤ i ∧ i < a + n) := by
  simp only [BitVec.toNat_sub, BitVec.toNat_ofNat]
  rw [Nat.mod_eq_of_lt hi, Nat.mod_eq_of_lt (show a < 2 ^ 64 by omega)]
  omega

theorem getD_replicate_zero (n k : Nat) : (List.replicate n (0 : UInt8)).getD k 0 = 0 := by
  simp only [List.getD_eq_getElem?_getD, List.getElem?_replicate]
  split <;> rfl

/-- **tie T, `rf_pack_bytes(pack, NULL, n)`** (`memset(q, 0, n)` iff the item fits) -/
theorem pack_null_tie (m : Librfn.Model.Pack.Mem) (pk : Pk) (hb : pk.base < 2 ^ 63) (hs : pk.size < 2 ^ 32) (hc : pk.cur < 2 ^ 33) (n : Nat) (mem : Gen.Mem) (habs : AbsM mem m)
    (hn : n < 2 ^ 32) (h1 : pk.base + pk.size < 2 ^ 64) (h2 : pk.base + pk.cur + n < 2 ^ 64) :
    let g := rf_pack_bytes (BitVec.ofNat 64 pk.base) (BitVec.ofNat 64 (pk.base + pk.size)) (BitVec.ofNat 64 (pk.base + pk.cur)) 0#64 (BitVec.ofNat 32 n) mem
    g.ub = false ∧ g.exh = false ∧ g.pack_p = BitVec.ofNat 64 (pk.base + (packNull m pk n).2.cur) ∧ AbsM g.mem (packNull m pk n).1 := by
  obtain ⟨a1, a2, _, _, a5⟩ := pack_bytes_generated (BitVec.ofNat 64 pk.base) (BitVec.ofNat 64 (pk.base + pk.size)) (BitVec.ofNat 64 (pk.base + pk.cur)) 0#64 (BitVec.ofNat 32 n) mem (wf_of_pk pk hb hs hc)
  have hm := pack_bytes_generated_mem (BitVec.ofNat 64 pk.base) (BitVec.ofNat 64 (pk.base + pk.size)) (BitVec.ofNat 64 (pk.base + pk.cur)) 0#64 (BitVec.ofNat 32 n) mem (wf_of_pk pk hb hs hc)
  have hsz : (BitVec.ofNat 32 n).setWidth 64 = BitVec.ofNat 64 n := by
    apply BitVec.eq_of_toNat_eq; simp only [BitVec.toNat_setWidth, BitVec.toNat_ofNat]; omega
  have hszn : (BitVec.ofNat 32 n).toNat = n := by simp only [BitVec.toNat_ofNat]; omega
  refine ⟨a1, a2, ?_, ?_⟩
  · rw [a5, hsz, ofNat64_add]; simp only [packNull, advance, Nat.add_assoc]
  · intro i hi
    rw [hm, hsz, fits_iff pk n h1 h2, hszn]
    unfold packNull
    by_cases hf : fits pk n = true
    · simp only [hf, if_true]
      rw [Mem.fill_app, writeBytes_apply, List.length_replicate]
      by_cases hin : pk.base + pk.cur ≤ i ∧ i < pk.base + pk.cur + n
      · rw [if_pos ((sub_lt_iff i (pk.base + pk.cur) n hi h2).2 hin), if_pos hin, getD_replicate_zero]; rfl
      · rw [if_neg (fun h => hin ((sub_lt_iff i (pk.base + pk.cur) n hi h2).1 h)), if_neg hin]; exact habs i hi
    · have hf' : fits pk n = false := by simpa using hf
      simp only [hf', Bool.false_eq_true, if_false]; exact habs i hi

/-- **tie T, `rf_pack_bytes(pack, src, n)`** with `src != NULL`: `bs` are the `n` bytes at `src` (`memcpy` iff the item fits) -/
theorem pack_bytes_tie (m : Librfn.Model.Pack.Mem) (pk : Pk) (hb : pk.base < 2 ^ 63) (hs : pk.size < 2 ^ 32) (hc : pk.cur < 2 ^ 33) (src : Nat) (bs : List UInt8) (mem : Gen.Mem) (habs : AbsM mem m)
    (hs0 : src ≠ 0) (hsrc : src + bs.length < 2 ^ 64) (hbs : ∀ k, k < bs.length → bs.getD k 0 = m (src + k))
    (hn : bs.length < 2 ^ 32) (h1 : pk.base + pk.size < 2 ^ 64) (h2 : pk.base + pk.cur + bs.length < 2 ^ 64) :
    let g := rf_pack_bytes (BitVec.ofNat 64 pk.base) (BitVec.ofNat 64 (pk.base + pk.size)) (BitVec.ofNat 64 (pk.base + pk.cur))
      (BitVec.ofNat 64 src) (BitVec.ofNat 32 bs.length) mem
    g.ub = false ∧ g.exh = false ∧ g.pack_p = BitVec.ofNat 64 (pk.base + (packBytes m pk bs).2.cur) ∧ AbsM g.mem (packBytes m pk bs).1 := by
  obtain ⟨a1, a2, _, _, a5⟩ := pack_bytes_generated (BitVec.ofNat 64 pk.base) (BitVec.ofNat 64 (pk.base + pk.size)) (BitVec.ofNat 64 (pk.base + pk.cur)) (BitVec.ofNat 64 src) (BitVec.ofNat 32 bs.length) mem (wf_of_pk pk hb hs hc)
  have hm := pack_bytes_generated_mem (BitVec.ofNat 64 pk.base) (BitVec.ofNat 64 (pk.base + pk.size)) (BitVec.ofNat 64 (pk.base + pk.cur)) (BitVec.ofNat 64 src) (BitVec.ofNat 32 bs.length) mem (wf_of_pk pk hb hs hc)
  have hsz : (BitVec.ofNat 32 bs.length).setWidth 64 = BitVec.ofNat 64 bs.length := by
    apply BitVec.eq_of_toNat_eq; simp only [BitVec.toNat_setWidth, BitVec.toNat_ofNat]; omega
  have hszn : (BitVec.ofNat 32 bs.length).toNat = bs.length := by simp only [BitVec.toNat_ofNat]; omega
  have hsrc0 : ¬ BitVec.ofNat 64 src = 0#64 := by
    intro h; have := congrArg BitVec.toNat h; simp only [BitVec.toNat_ofNat] at this; omega
  refine ⟨a1, a2, ?_, ?_⟩
  · rw [a5, hsz, ofNat64_add]; simp only [packBytes, packRaw, advance, Nat.add_assoc]
  · intro i hi
    rw [hm, hsz, fits_iff pk bs.length h1 h2, hszn, if_neg hsrc0]
    unfold packBytes packRaw
    by_cases hf : fits pk bs.length = true
    · simp only [hf, if_true]
      rw [Mem.copy_app, writeBytes_apply]
      by_cases hin : pk.base + pk.cur ≤ i ∧ i < pk.base + pk.cur + bs.length
      · rw [if_pos ((sub_lt_iff i (pk.base + pk.cur) bs.length hi h2).2 hin), if_pos hin, hbs _ (by omega)]
        have e : BitVec.ofNat 64 src + (BitVec.ofNat 64 i - BitVec.ofNat 64 (pk.base + pk.cur)) = BitVec.ofNat 64 (src + (i - (pk.base + pk.cur))) := by
          apply BitVec.eq_of_toNat_eq
          simp only [BitVec.toNat_add, BitVec.toNat_sub, BitVec.toNat_ofNat]
          rw [Nat.mod_eq_of_lt hi, Nat.mod_eq_of_lt (show pk.base + pk.cur < 2 ^ 64 by omega), Nat.mod_eq_of_lt (show src < 2 ^ 64 by omega)]
          omega
        rw [e]; exact habs _ (by omega)
      · rw [if_neg (fun h => hin ((sub_lt_iff i (pk.base + pk.cur) bs.length hi h2).1 h)), if_neg hin]; exact habs i hi
    · have hf' : fits pk bs.length = false := by simpa using hf
      simp only [hf', Bool.false_eq_true, if_false]; exact habs i hi

theorem readBytes_getD (m : Librfn.Model.Pack.Mem) (a n k : Nat) (hk : k < n) : (readBytes m a n).getD k 0 = m (a + k) := by
  induction n generalizing a k with
  | zero => omega
  | succ n ih =>
    cases k with
    | zero => simp [readBytes]
    | succ k => simp only [readBytes, List.getD_cons_succ]; rw [ih (a + 1) k (by omega)]; congr 1; omega

/-- **tie T, `rf_unpack_bytes(pack, dst, n)`** with `dst != NULL`: afterwards the `n` bytes at `dst` are the list the model
    returns (the item when it fits, zeros when it does not); the cursor advances by `n` either way -/
theorem unpack_bytes_tie (m : Librfn.Model.Pack.Mem) (pk : Pk) (hb : pk.base < 2 ^ 63) (hs : pk.size < 2 ^ 32) (hc : pk.cur < 2 ^ 33) (dst n : Nat) (mem : Gen.Mem) (habs : AbsM mem m)
    (hd0 : dst ≠ 0) (hdst : dst + n < 2 ^ 64) (hn : n < 2 ^ 32) (h1 : pk.base + pk.size < 2 ^ 64) (h2 : pk.base + pk.cur + n < 2 ^ 64) :
    let g := rf_unpack_bytes (BitVec.ofNat 64 pk.base) (BitVec.ofNat 64 (pk.base + pk.size)) (BitVec.ofNat 64 (pk.base + pk.cur))
      (BitVec.ofNat 64 dst) (BitVec.ofNat 32 n) mem
    g.ub = false ∧ g.exh = false ∧ g.pack_p = BitVec.ofNat 64 (pk.base + (unpackBytes m pk n).2.cur) ∧
    (∀ k, k < n → UInt8.ofBitVec (g.mem (BitVec.ofNat 64 (dst + k))) = (unpackBytes m pk n).1.getD k 0) ∧
    (∀ i, i < 2 ^ 64 → ¬ (dst ≤ i ∧ i < dst + n) → g.mem (BitVec.ofNat 64 i) = mem (BitVec.ofNat 64 i)) := by
  obtain ⟨a1, a2, _, _, a5⟩ := unpack_bytes_generated (BitVec.ofNat 64 pk.base) (BitVec.ofNat 64 (pk.base + pk.size)) (BitVec.ofNat 64 (pk.base + pk.cur)) (BitVec.ofNat 64 dst) (BitVec.ofNat 32 n) mem (wf_of_pk pk hb hs hc)
  have hm := unpack_bytes_generated_mem (BitVec.ofNat 64 pk.base) (BitVec.ofNat 64 (pk.base + pk.size)) (BitVec.ofNat 64 (pk.base + pk.cur)) (BitVec.ofNat 64 dst) (BitVec.ofNat 32 n) mem (wf_of_pk pk hb hs hc)
  have hsz : (BitVec.ofNat 32 n).setWidth 64 = BitVec.ofNat 64 n := by
    apply BitVec.eq_of_toNat_eq; simp only [BitVec.toNat_setWidth, BitVec.toNat_ofNat]; omega
  have hszn : (BitVec.ofNat 32 n).toNat = n := by simp only [BitVec.toNat_ofNat]; omega
  have hdst0 : ¬ BitVec.ofNat 64 dst = 0#64 := by
    intro h; have := congrArg BitVec.toNat h; simp only [BitVec.toNat_ofNat] at this; omega
  refine ⟨a1, a2, ?_, ?_, ?_⟩
  · rw [a5, hsz, ofNat64_add]; simp only [unpackBytes, advance, Nat.add_assoc]
  · intro k hk
    rw [hm, if_neg hdst0, hsz, fits_iff pk n h1 h2, hszn]
    unfold unpackBytes
    have hin := (sub_lt_iff (dst + k) dst n (by omega) hdst).2 ⟨by omega, by omega⟩
    by_cases hf : fits pk n = true
    · simp only [hf, if_true]
      rw [Mem.copy_app, if_pos hin, readBytes_getD m _ n k hk]
      have e : BitVec.ofNat 64 (pk.base + pk.cur) + (BitVec.ofNat 64 (dst + k) - BitVec.ofNat 64 dst) = BitVec.ofNat 64 (pk.base + pk.cur + k) := by
        apply BitVec.eq_of_toNat_eq
        simp only [BitVec.toNat_add, BitVec.toNat_sub, BitVec.toNat_ofNat]
        rw [Nat.mod_eq_of_lt (show dst + k < 2 ^ 64 by omega), Nat.mod_eq_of_lt (show dst < 2 ^ 64 by omega), Nat.mod_eq_of_lt (show pk.base + pk.cur < 2 ^ 64 by omega)]
        omega
      rw [e, habs _ (by omega)]
    · have hf' : fits pk n = false := by simpa using hf
      simp only [hf', Bool.false_eq_true, if_false]
      rw [Mem.fill_app, if_pos hin, getD_replicate_zero]; rfl
  · intro i hi hout
    rw [hm, if_neg hdst0, hsz, hszn]
    have hno := fun h => hout ((sub_lt_iff i dst n hi hdst).1 h)
    split
    · rw [Mem.copy_app, if_neg hno]
    · rw [Mem.fill_app, if_neg hno]

/-- **tie T, `rf_unpack_bytes(pack, NULL, n)`**: only the cursor moves -/
theorem unpack_skip_tie (pk : Pk) (hb : pk.base < 2 ^ 63) (hs : pk.size < 2 ^ 32) (hc : pk.cur < 2 ^ 33) (n : Nat) (mem : Gen.Mem) (hn : n < 2 ^ 32) :
    let g := rf_unpack_bytes (BitVec.ofNat 64 pk.base) (BitVec.ofNat 64 (pk.base + pk.size)) (BitVec.ofNat 64 (pk.base + pk.cur))
      0#64 (BitVec.ofNat 32 n) mem
    g.ub = false ∧ g.exh = false ∧ g.pack_p = BitVec.ofNat 64 (pk.base + (unpackSkip pk n).cur) ∧ g.mem = mem := by
  obtain ⟨a1, a2, _, _, a5⟩ := unpack_bytes_generated (BitVec.ofNat 64 pk.base) (BitVec.ofNat 64 (pk.base + pk.size)) (BitVec.ofNat 64 (pk.base + pk.cur)) 0#64 (BitVec.ofNat 32 n) mem (wf_of_pk pk hb hs hc)
  have hm := unpack_bytes_generated_mem (BitVec.ofNat 64 pk.base) (BitVec.ofNat 64 (pk.base + pk.size)) (BitVec.ofNat 64 (pk.base + pk.cur)) 0#64 (BitVec.ofNat 32 n) mem (wf_of_pk pk hb hs hc)
  have hsz : (BitVec.ofNat 32 n).setWidth 64 = BitVec.ofNat 64 n := by
    apply BitVec.eq_of_toNat_eq; simp only [BitVec.toNat_setWidth, BitVec.toNat_ofNat]; omega
  refine ⟨a1, a2, ?_, ?_⟩
  · rw [a5, hsz, ofNat64_add]; simp only [unpackSkip, advance, Nat.add_assoc]
  · rw [hm, if_pos rfl]

end Librfn.C12.Tie

import Librfn.Gen.PackSeq
import Librfn.Model.Pack
import Std.Tactic.BVDecide
/-!
# C12 / C13 / C14 — tie T for `pack.c` (sequential meaning of every function the file defines)

`Librfn.Gen.PackSeq.*` is regenerated from `/repo/librfn/pack.c` on every run by `tools/c2lean2.py`: the three pointers
of `rf_pack_t` are 64-bit values, the buffer is a byte memory, `memcpy`/`memset` are `Mem.copy`/`Mem.fill`.

* layer 1 (`*_generated`, every input, `bv_decide`): the cursor always advances by the item size; bytes are transferred iff
  the advanced cursor is `<= endp` (`fitsBV`); which bytes go where (byte order, shifts, promotions), address by address;
  what an unpacker returns (0 when the item does not fit);
* layer 2 (`*_tie`): under the representation `basep = base`, `endp = base + size`, `p = base + cur` (no address wraps
  round 2^64), the references are the hand model `Librfn.Model.Pack` that the C12 / C13 / C14 theorems are about.
-/
namespace Librfn.C12.Tie
open Librfn.Gen Librfn.Gen.PackSeq
open Librfn.Model.Pack hiding Mem

/-- `pack->p += n; if (pack->p <= pack->endp)` evaluated on the cursor before the advance -/
def fitsBV (p e n : BitVec 64) : Bool := (p + n).ule e

/-! ### layer 1 -/

theorem pack_s16le_generated (b e p : BitVec 64) (v : BitVec 16) (mem : Gen.Mem) :
    (rf_pack_s16le b e p v mem).ub = false ∧ (rf_pack_s16le b e p v mem).exh = false ∧ (rf_pack_s16le b e p v mem).pack_basep = b ∧ (rf_pack_s16le b e p v mem).pack_endp = e ∧
    (rf_pack_s16le b e p v mem).pack_p = p + 2#64 := by
  unfold rf_pack_s16le
  bv_decide (config := { timeout := 300 })

theorem pack_s16le_generated_mem (b e p : BitVec 64) (v : BitVec 16) (mem : Gen.Mem) (a : BitVec 64) :
    (rf_pack_s16le b e p v mem).mem a = (if fitsBV p e 2#64 then (if a = p + 1#64 then ((v.signExtend 32).sshiftRight 8).setWidth 8 else if a = p then (v.signExtend 32).setWidth 8 else mem a) else mem a) := by
  unfold rf_pack_s16le fitsBV
  simp only [Mem.ite_app, Mem.store_app]
  bv_decide (config := { timeout := 300 })

theorem pack_u16be_generated (b e p : BitVec 64) (v : BitVec 16) (mem : Gen.Mem) :
    (rf_pack_u16be b e p v mem).ub = false ∧ (rf_pack_u16be b e p v mem).exh = false ∧ (rf_pack_u16be b e p v mem).pack_basep = b ∧ (rf_pack_u16be b e p v mem).pack_endp = e ∧
    (rf_pack_u16be b e p v mem).pack_p = p + 2#64 := by
  unfold rf_pack_u16be
  bv_decide (config := { timeout := 300 })

theorem pack_u16be_generated_mem (b e p : BitVec 64) (v : BitVec 16) (mem : Gen.Mem) (a : BitVec 64) :
    (rf_pack_u16be b e p v mem).mem a = (if fitsBV p e 2#64 then (if a = p + 1#64 then v.setWidth 8 else if a = p then (v >>> 8).setWidth 8 else mem a) else mem a) := by
  unfold rf_pack_u16be fitsBV
  simp only [Mem.ite_app, Mem.store_app]
  bv_decide (config := { timeout := 300 })

theorem pack_u16le_generated (b e p : BitVec 64) (v : BitVec 16) (mem : Gen.Mem) :
    (rf_pack_u16le b e p v mem).ub = false ∧ (rf_pack_u16le b e p v mem).exh = false ∧ (rf_pack_u16le b e p v mem).pack_basep = b ∧ (rf_pack_u16le b e p v mem).pack_endp = e ∧
    (rf_pack_u16le b e p v mem).pack_p = p + 2#64 := by
  unfold rf_pack_u16le
  bv_decide (config := { timeout := 300 })

theorem pack_u16le_generated_mem (b e p : BitVec 64) (v : BitVec 16) (mem : Gen.Mem) (a : BitVec 64) :
    (rf_pack_u16le b e p v mem).mem a = (if fitsBV p e 2#64 then (if a = p + 1#64 then (v >>> 8).setWidth 8 else if a = p then v.setWidth 8 else mem a) else mem a) := by
  unfold rf_pack_u16le fitsBV
  simp only [Mem.ite_app, Mem.store_app]
  bv_decide (config := { timeout := 300 })

theorem pack_s32le_generated (b e p : BitVec 64) (v : BitVec 32) (mem : Gen.Mem) :
    (rf_pack_s32le b e p v mem).ub = false ∧ (rf_pack_s32le b e p v mem).exh = false ∧ (rf_pack_s32le b e p v mem).pack_basep = b ∧ (rf_pack_s32le b e p v mem).pack_endp = e ∧
    (rf_pack_s32le b e p v mem).pack_p = p + 4#64 := by
  unfold rf_pack_s32le
  bv_decide (config := { timeout := 300 })

theorem pack_s32le_generated_mem (b e p : BitVec 64) (v : BitVec 32) (mem : Gen.Mem) (a : BitVec 64) :
    (rf_pack_s32le b e p v mem).mem a = (if fitsBV p e 4#64 then (if a = p + 3#64 then (v >>> 24).setWidth 8 else if a = p + 2#64 then (v >>> 16).setWidth 8 else if a = p + 1#64 then (v >>> 8).setWidth 8 else if a = p then v.setWidth 8 else mem a) else mem a) := by
  unfold rf_pack_s32le fitsBV
  simp only [Mem.ite_app, Mem.store_app]
  bv_decide (config := { timeout := 300 })

theorem pack_u32le_generated (b e p : BitVec 64) (v : BitVec 32) (mem : Gen.Mem) :
    (rf_pack_u32le b e p v mem).ub = false ∧ (rf_pack_u32le b e p v mem).exh = false ∧ (rf_pack_u32le b e p v mem).pack_basep = b ∧ (rf_pack_u32le b e p v mem).pack_endp = e ∧
    (rf_pack_u32le b e p v mem).pack_p = p + 4#64 := by
  unfold rf_pack_u32le
  bv_decide (config := { timeout := 300 })

theorem pack_u32le_generated_mem (b e p : BitVec 64) (v : BitVec 32) (mem : Gen.Mem) (a : BitVec 64) :
    (rf_pack_u32le b e p v mem).mem a = (if fitsBV p e 4#64 then (if a = p + 3#64 then (v >>> 24).setWidth 8 else if a = p + 2#64 then (v >>> 16).setWidth 8 else if a = p + 1#64 then (v >>> 8).setWidth 8 else if a = p then v.setWidth 8 else mem a) else mem a) := by
  unfold rf_pack_u32le fitsBV
  simp only [Mem.ite_app, Mem.store_app]
  bv_decide (config := { timeout := 300 })

theorem unpack_char_generated (b e p : BitVec 64) (mem : Gen.Mem) :
    (rf_unpack_char b e p mem).ub = false ∧ (rf_unpack_char b e p mem).exh = false ∧ (rf_unpack_char b e p mem).pack_basep = b ∧ (rf_unpack_char b e p mem).pack_endp = e ∧
    (rf_unpack_char b e p mem).pack_p = p + 1#64 ∧ (rf_unpack_char b e p mem).ret = (if fitsBV p e 1#64 then mem p else 0#8) := by
  unfold rf_unpack_char fitsBV
  bv_decide (config := { timeout := 300 })

theorem unpack_char_generated_mem (b e p : BitVec 64) (mem : Gen.Mem) : (rf_unpack_char b e p mem).mem = mem := by
  unfold rf_unpack_char
  first | rfl | (funext a; simp only [Mem.ite_app, Mem.store_app]; first | done | bv_decide (config := { timeout := 300 }))

theorem unpack_s8_generated (b e p : BitVec 64) (mem : Gen.Mem) :
    (rf_unpack_s8 b e p mem).ub = false ∧ (rf_unpack_s8 b e p mem).exh = false ∧ (rf_unpack_s8 b e p mem).pack_basep = b ∧ (rf_unpack_s8 b e p mem).pack_endp = e ∧
    (rf_unpack_s8 b e p mem).pack_p = p + 1#64 ∧ (rf_unpack_s8 b e p mem).ret = (if fitsBV p e 1#64 then mem p else 0#8) := by
  unfold rf_unpack_s8 fitsBV
  bv_decide (config := { timeout := 300 })

theorem unpack_s8_generated_mem (b e p : BitVec 64) (mem : Gen.Mem) : (rf_unpack_s8 b e p mem).mem = mem := by
  unfold rf_unpack_s8
  first | rfl | (funext a; simp only [Mem.ite_app, Mem.store_app]; first | done | bv_decide (config := { timeout := 300 }))

theorem unpack_u8_generated (b e p : BitVec 64) (mem : Gen.Mem) :
    (rf_unpack_u8 b e p mem).ub = false ∧ (rf_unpack_u8 b e p mem).exh = false ∧ (rf_unpack_u8 b e p mem).pack_basep = b ∧ (rf_unpack_u8 b e p mem).pack_endp = e ∧
    (rf_unpack_u8 b e p mem).pack_p = p + 1#64 ∧ (rf_unpack_u8 b e p mem).ret = (if fitsBV p e 1#64 then mem p else 0#8) := by
  unfold rf_unpack_u8 fitsBV
  bv_decide (config := { timeout := 300 })

theorem unpack_u8_generated_mem (b e p : BitVec 64) (mem : Gen.Mem) : (rf_unpack_u8 b e p mem).mem = mem := by
  unfold rf_unpack_u8
  first | rfl | (funext a; simp only [Mem.ite_app, Mem.store_app]; first | done | bv_decide (config := { timeout := 300 }))

theorem unpack_u16le_generated (b e p : BitVec 64) (mem : Gen.Mem) :
    (rf_unpack_u16le b e p mem).ub = false ∧ (rf_unpack_u16le b e p mem).exh = false ∧ (rf_unpack_u16le b e p mem).pack_basep = b ∧ (rf_unpack_u16le b e p mem).pack_endp = e ∧
    (rf_unpack_u16le b e p mem).pack_p = p + 2#64 ∧ (rf_unpack_u16le b e p mem).ret = (if fitsBV p e 2#64 then (mem (p + 1#64)) ++ (mem p) else 0#16) := by
  unfold rf_unpack_u16le fitsBV
  bv_decide (config := { timeout := 300 })

theorem unpack_u16le_generated_mem (b e p : BitVec 64) (mem : Gen.Mem) : (rf_unpack_u16le b e p mem).mem = mem := by
  unfold rf_unpack_u16le
  first | rfl | (funext a; simp only [Mem.ite_app, Mem.store_app]; first | done | bv_decide (config := { timeout := 300 }))

theorem unpack_u32le_generated (b e p : BitVec 64) (mem : Gen.Mem) :
    (rf_unpack_u32le b e p mem).ub = false ∧ (rf_unpack_u32le b e p mem).exh = false ∧ (rf_unpack_u32le b e p mem).pack_basep = b ∧ (rf_unpack_u32le b e p mem).pack_endp = e ∧
    (rf_unpack_u32le b e p mem).pack_p = p + 4#64 ∧ (rf_unpack_u32le b e p mem).ret = (if fitsBV p e 4#64 then (mem (p + 3#64)) ++ (mem (p + 2#64)) ++ (mem (p + 1#64)) ++ (mem p) else 0#32) := by
  unfold rf_unpack_u32le fitsBV
  bv_decide (config := { timeout := 300 })

theorem unpack_u32le_generated_mem (b e p : BitVec 64) (mem : Gen.Mem) : (rf_unpack_u32le b e p mem).mem = mem := by
  unfold rf_unpack_u32le
  first | rfl | (funext a; simp only [Mem.ite_app, Mem.store_app]; first | done | bv_decide (config := { timeout := 300 }))

theorem pack_init_generated (b0 e0 p0 buf : BitVec 64) (sz : BitVec 32) :
    (rf_pack_init b0 e0 p0 buf sz).ub = false ∧ (rf_pack_init b0 e0 p0 buf sz).exh = false ∧
    (rf_pack_init b0 e0 p0 buf sz).pack_basep = buf ∧ (rf_pack_init b0 e0 p0 buf sz).pack_p = buf ∧
    (rf_pack_init b0 e0 p0 buf sz).pack_endp = buf + sz.setWidth 64 := by
  unfold rf_pack_init
  bv_decide (config := { timeout := 300 })

theorem pack_consumed_generated (b e p : BitVec 64) :
    (rf_pack_consumed b e p).ub = false ∧ (rf_pack_consumed b e p).exh = false ∧ (rf_pack_consumed b e p).pack_basep = b ∧
    (rf_pack_consumed b e p).pack_endp = e ∧ (rf_pack_consumed b e p).pack_p = p ∧ (rf_pack_consumed b e p).ret = (p - b).setWidth 32 := by
  unfold rf_pack_consumed
  bv_decide (config := { timeout := 300 })

theorem pack_remaining_generated (b e p : BitVec 64) :
    (rf_pack_remaining b e p).ub = false ∧ (rf_pack_remaining b e p).exh = false ∧ (rf_pack_remaining b e p).pack_basep = b ∧
    (rf_pack_remaining b e p).pack_endp = e ∧ (rf_pack_remaining b e p).pack_p = p ∧ (rf_pack_remaining b e p).ret = (e - p).setWidth 32 := by
  unfold rf_pack_remaining
  bv_decide (config := { timeout := 300 })

theorem pack_bytes_generated (b e p src : BitVec 64) (sz : BitVec 32) (mem : Gen.Mem) :
    (rf_pack_bytes b e p src sz mem).ub = false ∧ (rf_pack_bytes b e p src sz mem).exh = false ∧
    (rf_pack_bytes b e p src sz mem).pack_basep = b ∧ (rf_pack_bytes b e p src sz mem).pack_endp = e ∧
    (rf_pack_bytes b e p src sz mem).pack_p = p + sz.setWidth 64 := by
  unfold rf_pack_bytes
  bv_decide (config := { timeout := 300 })

/-- `memcpy(q, p, sz)` / `memset(q, 0, sz)` iff the item fits -/
theorem pack_bytes_generated_mem (b e p src : BitVec 64) (sz : BitVec 32) (mem : Gen.Mem) :
    (rf_pack_bytes b e p src sz mem).mem =
      (if fitsBV p e (sz.setWidth 64) then (if src = 0#64 then Mem.fill mem p 0#8 sz.toNat else Mem.copy mem p src sz.toNat) else mem) := by
  have h : sz.toNat % 18446744073709551616 = sz.toNat := Nat.mod_eq_of_lt (by have := sz.isLt; omega)
  unfold rf_pack_bytes fitsBV
  simp [h]

theorem unpack_bytes_generated (b e p dst : BitVec 64) (sz : BitVec 32) (mem : Gen.Mem) :
    (rf_unpack_bytes b e p dst sz mem).ub = false ∧ (rf_unpack_bytes b e p dst sz mem).exh = false ∧
    (rf_unpack_bytes b e p dst sz mem).pack_basep = b ∧ (rf_unpack_bytes b e p dst sz mem).pack_endp = e ∧
    (rf_unpack_bytes b e p dst sz mem).pack_p = p + sz.setWidth 64 := by
  unfold rf_unpack_bytes
  bv_decide (config := { timeout := 300 })

/-- destination = the item if it fits, zeros if not, untouched when NULL -/
theorem unpack_bytes_generated_mem (b e p dst : BitVec 64) (sz : BitVec 32) (mem : Gen.Mem) :
    (rf_unpack_bytes b e p dst sz mem).mem =
      (if dst = 0#64 then mem else if fitsBV p e (sz.setWidth 64) then Mem.copy mem dst p sz.toNat else Mem.fill mem dst 0#8 sz.toNat) := by
  have h : sz.toNat % 18446744073709551616 = sz.toNat := Nat.mod_eq_of_lt (by have := sz.isLt; omega)
  unfold rf_unpack_bytes fitsBV
  by_cases hd : dst = 0#64 <;> by_cases hf : (p + BitVec.setWidth 64 sz).ule e = true <;> simp [h, hd, hf]

end Librfn.C12.Tie

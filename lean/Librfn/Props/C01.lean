import Librfn.Lemmas.SchedCor
/-!
# C01 — fibres are dispatched exactly when runnable, once per reason, in FIFO order

Model: `Librfn.Model.Fibre` (hand transcription of `fibre.c` after fix b9baab6, tied to the C on every check run).
Spec: `Librfn.Spec.Sched` (FIFO of reasons, written from the property text).
`sched_refines_spec` is the core: for **every** history inside the quantifier's scope the concrete model
produces exactly the outputs of the specification — dispatched fibre or idle per pass, `priv` at entry,
every boolean returned to the running fibre and to the outside, `fibre_self`, the returned wake-up time.
The proof is a simulation (`Librfn.Sched.L.Sim`) preserved by every call, by induction over the history;
no bound on the length of the history, the number of fibres or the time values.  Kernel-only.

The corollaries restate the clauses of the property for the concrete model in any state `k` related to a
specification state `a` by `Sim` — which, by `reachable_sim`, is every state an in-scope history can reach.
-/
namespace Librfn.C01
open Librfn.Sched Librfn.Model.Fibre Librfn.Spec.Sched Librfn.Sched.L

/-- **core theorem**: the concrete model of `fibre.c` refines the abstract scheduler on every in-scope history -/
theorem sched_refines_spec (h : List (Op Int)) (hin : InScope h) : runModel (wrap h) = runSpec h :=
  (refines_from h Model.Fibre.init Spec.Sched.init none sim_init hin).1

/-- every state an in-scope history reaches is related to the specification's state -/
theorem reachable_sim (h : List (Op Int)) (hin : InScope h) :
    Sim (Model.Fibre.runFrom Model.Fibre.init (wrap h)).1 (Spec.Sched.runFrom Spec.Sched.init h).1 (h.foldl lastOf none) :=
  (refines_from h Model.Fibre.init Spec.Sched.init none sim_init hin).2

/-- **invariant of every reachable state**: no fibre is queued twice, none is on both queues, the timer queue is
    sorted in the cyclic order `duetime_cmp` uses -/
theorem sched_inv (h : List (Op Int)) (hin : InScope h) :
    (Model.Fibre.runFrom Model.Fibre.init (wrap h)).1.runq.Nodup
    ∧ (Model.Fibre.runFrom Model.Fibre.init (wrap h)).1.timerq.Nodup
    ∧ (∀ f ∈ (Model.Fibre.runFrom Model.Fibre.init (wrap h)).1.runq, f ∉ (Model.Fibre.runFrom Model.Fibre.init (wrap h)).1.timerq)
    ∧ (Model.Fibre.runFrom Model.Fibre.init (wrap h)).1.timerq.Pairwise
        (dueLe (Model.Fibre.runFrom Model.Fibre.init (wrap h)).1.due) := by
  have := simQ_inv (reachable_sim h hin).q
  exact ⟨this.runqNodup, this.timerqNodup, this.disjoint, this.sorted⟩

/-! ## the clauses of the property -/

/-- **each pass dispatches at most one fibre: the head of the FIFO run queue** after the intake (accepted atomic
    requests in arrival order, then the previous yielder, then the expired timeouts in due order);
    `fibre_self` names exactly that fibre, or nothing when the pass was idle -/
theorem dispatch_is_fifo_head {k : K} {a : A} {last : Option Int} (h : Sim k a last) (T : Int) (s : List (Call Int))
    (ret : Ret) (hok : opOk a last (.next T s ret) = true) :
    (schedulerNext k (w32 T) (s.map (Call.map w32)) ret).2.disp.map (·.1) = (a.intake T).rq.head?
    ∧ (schedulerNext k (w32 T) (s.map (Call.map w32)) ret).2.self = (a.intake T).rq.head? := by
  obtain ⟨h1, h2, h3, h4⟩ := opOk_next hok
  have hn := (sim_next h T s ret h1 h2 h3 h4).1
  rw [hn]
  cases hrq : (a.intake T).rq with
  | nil => rw [next_nil s ret hrq]; exact ⟨rfl, rfl⟩
  | cons d rest => rw [next_cons s ret hrq]; exact ⟨rfl, rfl⟩

/-- the run queue after a dispatch is the rest of the FIFO (before the fibre's own calls) -/
theorem dispatched_exactly_when_runnable {k : K} {a : A} {last : Option Int} (h : Sim k a last) (T : Int)
    (s : List (Call Int)) (ret : Ret) (hok : opOk a last (.next T s ret) = true) (d : Fid) :
    (schedulerNext k (w32 T) (s.map (Call.map w32)) ret).2.disp.map (·.1) = some d →
      (d ∈ a.rq ∨ d ∈ a.pend ∨ a.yielder = some d)
      ∨ ∃ x ∈ a.sleepers, x.1 = d ∧ x.2 ≤ T := by
  intro hd
  rw [(dispatch_is_fifo_head h T s ret hok).1] at hd
  have hmem : d ∈ (a.intake T).rq := by
    cases hrq : (a.intake T).rq with
    | nil => rw [hrq] at hd; cases hd
    | cons d' rest => rw [hrq] at hd; cases hd; exact List.mem_cons_self
  rcases mem_rq_intake.mp hmem with hr | ⟨x, hx, e, hle⟩
  · exact Or.inl hr
  · exact Or.inr ⟨x, (mem_sleepers_drain.mp (mem_sleepers_requeue.mp hx).1).1, e, hle⟩

/-- a pass is idle only when nobody has a reason to run -/
theorem idle_only_when_nothing_runnable {k : K} {a : A} {last : Option Int} (h : Sim k a last) (T : Int)
    (s : List (Call Int)) (ret : Ret) (hok : opOk a last (.next T s ret) = true)
    (hidle : (schedulerNext k (w32 T) (s.map (Call.map w32)) ret).2.disp = none) :
    a.rq = [] ∧ a.pend = [] ∧ a.yielder = none ∧ ∀ x ∈ a.sleepers, T < x.2 := by
  have hh := (dispatch_is_fifo_head h T s ret hok).1
  rw [hidle] at hh
  have hnil : (a.intake T).rq = [] := by
    cases hrq : (a.intake T).rq with
    | nil => rfl
    | cons d rest => rw [hrq] at hh; cases hh
  have hno : ∀ g, g ∉ (a.intake T).rq := by intro g; rw [hnil]; exact List.not_mem_nil
  have hrq : a.rq = [] := by
    cases e : a.rq with
    | nil => rfl
    | cons g _ => exact absurd (mem_rq_intake.mpr (Or.inl (Or.inl (e ▸ List.mem_cons_self)))) (hno g)
  have hpend : a.pend = [] := by
    cases e : a.pend with
    | nil => rfl
    | cons g _ => exact absurd (mem_rq_intake.mpr (Or.inl (Or.inr (Or.inl (e ▸ List.mem_cons_self))))) (hno g)
  have hy : a.yielder = none := by
    cases e : a.yielder with
    | none => rfl
    | some g => exact absurd (mem_rq_intake.mpr (Or.inl (Or.inr (Or.inr e)))) (hno g)
  refine ⟨hrq, hpend, hy, ?_⟩
  intro x hx
  apply Int.lt_of_not_ge
  intro hle
  have hx1 : x ∈ a.drain.sleepers := mem_sleepers_drain.mpr ⟨hx, by rw [hpend]; exact List.not_mem_nil⟩
  have hx2 : x ∈ a.drain.requeueYielder.sleepers :=
    mem_sleepers_requeue.mpr ⟨hx1, by rw [(aframe_drain a).1.yielder, hy]; exact fun e => nomatch e⟩
  exact hno x.1 (mem_rq_intake.mpr (Or.inr ⟨x, hx2, rfl, hle⟩))

/-- **fibre_run names a fibre → it joins the tail immediately, after the earlier accepted atomic requests;
    a fibre already queued is not queued again** -/
theorem run_joins_tail {k : K} {a : A} {last : Option Int} (h : Sim k a last) (f : Fid) :
    (fibreRun k f).runq = (if f ∈ a.drain.rq then a.drain.rq else a.drain.rq ++ [f])
    ∧ a.drain.rq = a.pend.foldl (fun q g => if g ∈ q then q else q ++ [g]) a.rq := by
  refine ⟨(simQ_run h.q f).rq, ?_⟩
  unfold A.drain
  have : ∀ (l : List Fid) (b : A), (l.foldl A.enqueue b).rq = l.foldl (fun q g => if g ∈ q then q else q ++ [g]) b.rq := by
    intro l
    induction l with
    | nil => intro b; rfl
    | cons g gs ih => intro b; rw [List.foldl_cons, List.foldl_cons, ih]; rfl
  exact this a.pend _

/-- reasons coalesce: running a fibre twice is the same as running it once -/
theorem run_idempotent (k : K) (f : Fid) : fibreRun (fibreRun k f) f = fibreRun k f := by
  have hat := (frame_fibreRun k f).2
  have hmem : f ∈ (fibreRun k f).runq := by
    unfold fibreRun makeRunnable
    split
    · assumption
    · simp
  show makeRunnable (handleAtomic (fibreRun k f)) f = _
  rw [handleAtomic_of_empty _ hat]
  unfold makeRunnable
  rw [if_pos hmem]

/-- … and in every reachable state every fibre is queued at most once -/
theorem queued_at_most_once (h : List (Op Int)) (hin : InScope h) (f : Fid) :
    (Model.Fibre.runFrom Model.Fibre.init (wrap h)).1.runq.count f ≤ 1 :=
  List.nodup_iff_count.mp (sched_inv h hin).1 f

/-- **a fibre that returned waiting, exited or failed (and armed nothing during its dispatch) is in no queue**
    — so by `dispatched_exactly_when_runnable` it is not dispatched again until a new reason arises -/
theorem returned_fibre_not_queued {k : K} {a : A} {last : Option Int} (h : Sim k a last) (T : Int) (ret : Ret)
    (hok : opOk a last (.next T [] ret) = true) (hret : ret ≠ .yielded) {d : Fid}
    (hd : (schedulerNext k (w32 T) [] ret).2.disp.map (·.1) = some d) :
    d ∉ (schedulerNext k (w32 T) [] ret).1.runq ∧ d ∉ (schedulerNext k (w32 T) [] ret).1.timerq
    ∧ (schedulerNext k (w32 T) [] ret).1.atomq = []
    ∧ (a.next T [] ret).1.yielder = none := by
  obtain ⟨h1, h2, h3, h4⟩ := opOk_next hok
  have hn := sim_next h T [] ret h1 h2 h3 h4
  have hh := (dispatch_is_fifo_head h T [] ret hok).1
  simp only [List.map_nil] at hn hh
  rw [hh] at hd
  have hb := sim_beforePop (h.setNow (w32 T)) rfl h1 h2
  have hpre := sim_prelude (h.setNow (w32 T)) rfl h1 h2
  cases hrq : (a.intake T).rq with
  | nil => rw [hrq] at hd; cases hd
  | cons d' rest =>
    rw [hrq] at hd
    have hdd : d' = d := by cases hd; rfl
    subst hdd
    obtain ⟨_, hdsl, _⟩ := hpre.2.2.2.2 d' rest hrq
    have hq := hn.2.q
    have ha' : (a.next T [] ret).1 = ({ a.intake T with rq := rest, self := some d' } : A).returned d' ret := by
      rw [next_cons [] ret hrq]; rfl
    have hfields := returned_q ({ a.intake T with rq := rest, self := some d' } : A) d' ret
    have hnd : (d' :: rest).Nodup := by
      have := hb.1.rqNodup; rw [hrq] at this; exact this
    have hpend : (a.intake T).pend = [] := intake_pend a T
    refine ⟨?_, ?_, ?_, ?_⟩
    · rw [hq.rq, ha', hfields.1]
      exact (List.nodup_cons.mp hnd).1
    · rw [hq.tq, mem_fids_sortByDue, ha', hfields.2.2.1]
      exact hdsl
    · rw [hq.pend, ha', hfields.2.1]
      exact hpend
    · rw [ha']
      cases ret with
      | yielded => exact absurd rfl hret
      | waiting => exact hpre.2.2.1
      | exited => exact hpre.2.2.1
      | failed => exact hpre.2.2.1

/-- **an exited or failed fibre restarts from its beginning**: the specification's `priv` is 0 at once … -/
theorem exit_resets_priv (a : A) (T : Int) (s : List (Call Int)) (ret : Ret) (hret : ret = .exited ∨ ret = .failed)
    {d : Fid} {rest : List Fid} (hrq : (a.intake T).rq = d :: rest) : (a.next T s ret).1.priv d = 0 := by
  rw [next_cons s ret hrq]
  rcases hret with e | e <;> subst e <;> simp [A.returned]

/-- … and the `priv` the concrete model shows a fibre on entry is always the specification's -/
theorem entry_priv_is_spec_priv {k : K} {a : A} {last : Option Int} (h : Sim k a last) (T : Int) (s : List (Call Int))
    (ret : Ret) (hok : opOk a last (.next T s ret) = true) {d : Fid} {p : BitVec 16} {res : List Res}
    (hd : (schedulerNext k (w32 T) (s.map (Call.map w32)) ret).2.disp = some (d, p, res)) : p = a.priv d := by
  obtain ⟨h1, h2, h3, h4⟩ := opOk_next hok
  rw [(sim_next h T s ret h1 h2 h3 h4).1] at hd
  cases hrq : (a.intake T).rq with
  | nil => rw [next_nil s ret hrq] at hd; cases hd
  | cons d' rest =>
    rw [next_cons s ret hrq] at hd
    simp only [Option.some.injEq, Prod.mk.injEq] at hd
    obtain ⟨e1, e2, _⟩ := hd
    subst e1; subst e2
    -- the intake does not touch priv
    unfold A.intake A.expire
    show a.drain.requeueYielder.priv d' = a.priv d'
    have h1 : a.drain.requeueYielder.priv = a.drain.priv := by
      unfold A.requeueYielder; split <;> rfl
    rw [h1, (aframe_drain a).1.priv]

/-- **fibre_kill withdraws exactly the run requests (accepted atomic ones included) and the timeout pending at
    the moment it is called, and returns whether there were any**; nobody else is affected -/
theorem kill_exact {k : K} {a : A} {last : Option Int} (h : Sim k a last) (f : Fid) :
    (fibreKill k f).2 = (decide (f ∈ a.rq ∨ f ∈ a.pend) || decide (f ∈ fids a.drain.sleepers))
    ∧ f ∉ (fibreKill k f).1.runq ∧ f ∉ (fibreKill k f).1.timerq ∧ (fibreKill k f).1.atomq = []
    ∧ (fibreKill k f).1.runq = (handleAtomic k).runq.filter (· ≠ f)
    ∧ (fibreKill k f).1.timerq = (handleAtomic k).timerq.filter (· ≠ f) := by
  have hk := simQ_kill h.q f
  have hd := simQ_drain h.q
  have hinv := simQ_inv hd
  have e1 : (fibreKill k f).1.runq = (handleAtomic k).runq.filter (· ≠ f) := by
    show (handleAtomic k).runq.erase f = _
    exact erase_eq_filter_ne hinv.runqNodup f
  have e2 : (fibreKill k f).1.timerq = (handleAtomic k).timerq.filter (· ≠ f) := by
    show (handleAtomic k).timerq.erase f = _
    exact erase_eq_filter_ne hinv.timerqNodup f
  refine ⟨?_, ?_, ?_, (frame_handleAtomic k).2, e1, e2⟩
  · rw [hk.1]
    unfold A.kill
    show (decide (f ∈ a.drain.rq) || a.drain.sleepers.any (fun x => decide (x.1 = f))) = _
    congr 1
    · rw [Bool.eq_iff_iff]; simp only [decide_eq_true_eq]; exact mem_rq_drain
    · rw [Bool.eq_iff_iff]; simp only [decide_eq_true_eq, List.any_eq_true]; rw [mem_fids]
  · rw [e1]; intro hm; have := (List.mem_filter.mp hm).2; simp at this
  · rw [e2]; intro hm; have := (List.mem_filter.mp hm).2; simp at this

/-! ## C09's precondition: every node the scheduler inserts into a list is in no list

`list.c` is replaced by sequences in the model (layering, DESIGN §6); C09 proves that replacement sound for
insertions of a node that is in no list.  The three insertion sites of `fibre.c`: -/

/-- `make_runnable`: `list_insert(&runq, f)` happens only when `f` is not on the run queue, and after
    `list_remove(&timerq, f)` it is not on the timer queue either; the invariant is preserved -/
theorem make_runnable_inserts_free_node {k : K} (hk : QInv k) (f : Fid) (hf : f ∉ k.runq) :
    f ∉ k.timerq.erase f ∧ QInv (makeRunnable k f) := by
  have hne : f ∉ k.timerq.erase f := by
    rw [erase_eq_filter_ne hk.timerqNodup]
    intro hm; have := (List.mem_filter.mp hm).2; simp at this
  refine ⟨hne, ?_⟩
  unfold makeRunnable
  rw [if_neg hf]
  refine ⟨?_, hk.timerqNodup.sublist List.erase_sublist, ?_, hk.sorted.sublist List.erase_sublist⟩
  · show (k.runq ++ [f]).Nodup
    rw [List.nodup_append]
    refine ⟨hk.runqNodup, by simp, ?_⟩
    intro x hx y hy e
    simp only [List.mem_singleton] at hy
    subst hy; subst e; exact hf hx
  · intro g hg hm
    have hg : g ∈ k.runq ++ [f] := hg
    have hm : g ∈ k.timerq.erase f := hm
    rcases List.mem_append.mp hg with hg | hg
    · exact hk.disjoint g hg (List.erase_sublist.subset hm)
    · simp only [List.mem_singleton] at hg; subst hg; exact hne hm

/-- … hence at every step of the drain loop of `handle_atomic_runq` -/
theorem drain_preserves_inv (l : List Fid) (k : K) (hk : QInv k) : QInv (l.foldl makeRunnable k) := by
  induction l generalizing k with
  | nil => exact hk
  | cons f fs ih =>
    apply ih
    by_cases hf : f ∈ k.runq
    · unfold makeRunnable; rw [if_pos hf]; exact hk
    · exact (make_runnable_inserts_free_node hk f hf).2

/-- `handle_timerq`: the node moved to the run queue has just been unlinked from the timer queue, is not on the
    run queue, and does not occur again in the timer queue; the invariant is preserved by every iteration -/
theorem handle_timerq_inserts_free_node {k : K} (hk : QInv k) {f : Fid} {r : List Fid} (ht : k.timerq = f :: r) :
    f ∉ k.runq ∧ f ∉ r ∧ QInv { k with timerq := r, runq := k.runq ++ [f] } := by
  have hnd := hk.timerqNodup
  rw [ht, List.nodup_cons] at hnd
  have hfr : f ∉ k.runq := fun hm => hk.disjoint f hm (by rw [ht]; exact List.mem_cons_self)
  refine ⟨hfr, hnd.1, ?_, hnd.2, ?_, ?_⟩
  · show (k.runq ++ [f]).Nodup
    rw [List.nodup_append]
    refine ⟨hk.runqNodup, by simp, ?_⟩
    intro x hx y hy e
    simp only [List.mem_singleton] at hy
    subst hy; subst e; exact hfr hx
  · intro g hg hm
    have hg : g ∈ k.runq ++ [f] := hg
    have hm : g ∈ r := hm
    rcases List.mem_append.mp hg with hg | hg
    · exact hk.disjoint g hg (by rw [ht]; exact List.mem_cons_of_mem _ hm)
    · simp only [List.mem_singleton] at hg; subst hg; exact hnd.1 hm
  · have := hk.sorted
    rw [ht, List.pairwise_cons] at this
    exact this.2

/-- the invariant holds in every state a dispatched fibre's script passes through, and
    `fibre_timeout`: `list_insert_sorted(&timerq, current)` is guarded by "not on the run queue", and within the
    scope (at most one unsatisfied timeout per dispatch) the caller is not on the timer queue either -/
def ScriptSafe (c : Fid) : K → List (Call (BitVec 32)) → Prop
  | k, [] => QInv k
  | k, .run g :: r => QInv k ∧ ScriptSafe c (fibreRun k g) r
  | k, .runAtomic g :: r => QInv k ∧ ScriptSafe c (fibreRunAtomic k g).1 r
  | k, .kill g :: r => QInv k ∧ ScriptSafe c (fibreKill k g).1 r
  | k, .timeout d :: r =>
      QInv k ∧ (notAfter d k.now = false → c ∉ k.runq → c ∉ k.timerq) ∧ ScriptSafe c (fibreTimeout k c d).1 r
  | k, .setPriv l :: r => QInv k ∧ ScriptSafe c { k with priv := upd k.priv c l } r

theorem script_inserts_free_nodes (c : Fid) (T : Int) : ∀ (s : List (Call Int)) (k : K) (a : A), Mid k a T →
    dueInWindow T s = true → unsatisfied T s ≤ 1 → (c ∈ fids a.sleepers → unsatisfied T s = 0) →
    ScriptSafe c k (s.map (Call.map w32))
  | [], k, a, h, _, _, _ => simQ_inv h.q
  | .run g :: r, k, a, h, hw, hu, hc => by
    have hf := (frame_fibreRun k g).1
    have haf := aframe_run a g
    have hm : Mid (fibreRun k g) (a.run g) T :=
      ⟨simQ_run h.q g, hf.now.trans h.now, fun f => by rw [haf.priv, hf.priv]; exact h.priv f⟩
    exact ⟨simQ_inv h.q, script_inserts_free_nodes c T r _ _ hm hw hu (fun hcs => hc (mem_fids_of_sub haf.sub hcs))⟩
  | .runAtomic g :: r, k, a, h, hw, hu, hc => by
    have hs := simQ_runAtomic h.q g
    have hf := hs.2.2
    have haf := aframe_runAtomic a g
    have hm : Mid (fibreRunAtomic k g).1 (a.runAtomic g).1 T :=
      ⟨hs.2.1, hf.now.trans h.now, fun f => by rw [haf.priv, hf.priv]; exact h.priv f⟩
    exact ⟨simQ_inv h.q, script_inserts_free_nodes c T r _ _ hm hw hu (fun hcs => hc (mem_fids_of_sub haf.sub hcs))⟩
  | .kill g :: r, k, a, h, hw, hu, hc => by
    have hs := simQ_kill h.q g
    have hf := frame_fibreKill k g
    have haf := aframe_kill a g
    have hm : Mid (fibreKill k g).1 (a.kill g).1 T :=
      ⟨hs.2, hf.now.trans h.now, fun f => by rw [haf.priv, hf.priv]; exact h.priv f⟩
    exact ⟨simQ_inv h.q, script_inserts_free_nodes c T r _ _ hm hw hu (fun hcs => hc (mem_fids_of_sub haf.sub hcs))⟩
  | .timeout D :: r, k, a, h, hw, hu, hc => by
    simp only [dueInWindow, Bool.and_eq_true, decide_eq_true_eq] at hw
    simp only [unsatisfied] at hu hc
    have hcD : T < D → c ∉ fids a.sleepers := by
      intro hlt hcs
      have := hc hcs
      rw [if_neg (by omega)] at this
      omega
    have hs := simQ_timeout h.q h.now hw.1 hcD
    have hf := frame_fibreTimeout k c (w32 D)
    have hyield : (a.timeout c T D).1.priv = a.priv := by
      unfold A.timeout
      split
      · rfl
      · dsimp only; split <;> rfl
    have hm : Mid (fibreTimeout k c (w32 D)).1 (a.timeout c T D).1 T :=
      ⟨hs.2, hf.2.2.1.trans h.now, fun f => by rw [hyield, hf.2.2.2]; exact h.priv f⟩
    have hu' : unsatisfied T r ≤ 1 := by omega
    have hc' : c ∈ fids (a.timeout c T D).1.sleepers → unsatisfied T r = 0 := by
      by_cases hle : D ≤ T
      · intro hcs
        have : (a.timeout c T D).1 = a := by unfold A.timeout; rw [if_pos hle]
        rw [this] at hcs
        have := hc hcs
        omega
      · intro _
        rw [if_neg hle] at hu
        omega
    refine ⟨simQ_inv h.q, ?_, script_inserts_free_nodes c T r _ _ hm hw.2 hu' hc'⟩
    intro hna _
    rw [h.now, notAfter_w32 D T (by omega)] at hna
    have hlt : T < D := by
      have := of_decide_eq_false hna
      omega
    rw [h.q.tq, mem_fids_sortByDue]
    exact hcD hlt
  | .setPriv l :: r, k, a, h, hw, hu, hc => by
    have hm : Mid { k with priv := upd k.priv c l } { a with priv := fun g => if g = c then l else a.priv g } T :=
      ⟨h.q.congr rfl rfl rfl rfl rfl rfl rfl, h.now, fun f => by
        show (if f = c then l else a.priv f) = upd k.priv c l f
        unfold upd; rw [h.priv f]⟩
    exact ⟨simQ_inv h.q, script_inserts_free_nodes c T r _ _ hm hw hu hc⟩

/-- **list precondition, whole pass**: in every in-scope pass the state in which the dispatched fibre starts and
    every state its script passes through satisfy the invariant, and every `fibre_timeout` insertion is of a
    node in no list -/
theorem sched_list_preconditions {k : K} {a : A} {last : Option Int} (h : Sim k a last) (T : Int)
    (s : List (Call Int)) (ret : Ret) (hok : opOk a last (.next T s ret) = true) {d : Fid}
    (hd : (prelude { k with now := w32 T }).current = some d) :
    ScriptSafe d (prelude { k with now := w32 T }) (s.map (Call.map w32)) := by
  obtain ⟨h1, h2, h3, h4⟩ := opOk_next hok
  obtain ⟨hnow, hpriv, _, hnil, hcons⟩ := sim_prelude (h.setNow (w32 T)) rfl h1 h2
  cases hrq : (a.intake T).rq with
  | nil => have := (hnil hrq).1; rw [this] at hd; cases hd
  | cons d' rest =>
    obtain ⟨hcur, hdsl, hq⟩ := hcons d' rest hrq
    have : d' = d := by rw [hcur] at hd; exact Option.some.inj hd
    subst this
    have hm : Mid (prelude { k with now := w32 T }) { a.intake T with rq := rest, self := some d' } T :=
      ⟨hq _ rfl rfl rfl, hnow, hpriv⟩
    exact script_inserts_free_nodes d' T s _ _ hm h3 h4 (fun hc => absurd hc hdsl)

/-! ## non-vacuity: concrete in-scope histories exercising the clauses -/

/-- three atomic requests, a sleeper, a yielder and a kill: in scope -/
def demo : List (Op Int) :=
  [.runAtomic 0, .runAtomic 1, .runAtomic 2, .runAtomic 1,
   .next 4294967290 [.timeout 4294967300, .setPriv 7] .waiting,
   .next 4294967291 [.run 2] .yielded,
   .next 4294967292 [.kill 0] .exited,
   .next 4294967300 [] .waiting,
   .kill 1]

example : InScope demo := by decide

/-- … and the concrete model dispatches 0, 1, 2 (arrival order, the duplicate coalesced), then the yielder 1 -/
example : (runModel (wrap demo)).map (fun o => match o with | .pass p => p.disp.map (·.1) | _ => none)
    = [none, none, none, none, some 0, some 1, some 2, some 1, none] := by decide

end Librfn.C01

import Librfn.Lemmas.SchedCor
import Librfn.Model.MainLoop
/-!
# C03 — fibre_scheduler_next returns a wake-up time that never oversleeps

Same model / specification as C01.  The returned value is one of the outputs of the refinement theorem
(`C01.sched_refines_spec`); here it is characterised for the concrete model in any state related to the
specification (every state an in-scope history reaches, `C01.reachable_sim`).

Scope of this file: the sequential histories of C01/C02 (a `fibre_run_atomic` issued by the dispatched fibre or
between passes is "an interrupt-context request that completed before the scheduler's final check").
Interrupt handlers placed *inside* `fibre_scheduler_next` are the extension `wakeup_with_isr`, which belongs to C06.
The property's last sentence (the consumer `posix/fibre_posix.c: fibre_scheduler_main_loop`, `Model/MainLoop.lean`)
is the section "the POSIX main loop" at the end.  Kernel-only.
-/
namespace Librfn.C03
open Librfn.Sched Librfn.Model.Fibre Librfn.Spec.Sched Librfn.Sched.L Librfn.Model.MainLoop

/-- the property's formula, literally: `T` when anything is runnable on return (the fibre that just yielded, a
    queued fibre, an accepted atomic request), otherwise the earliest pending due time, otherwise
    `T + FIBRE_UNBOUNDED_SLEEP` -/
theorem wake_formula (a : A) (T : Int) (yieldedNow : Bool) :
    a.wake T yieldedNow =
      if yieldedNow = true ∨ a.rq ≠ [] ∨ a.pend ≠ [] then T
      else match minDue a.sleepers with
        | some D => D
        | none => T + 0x7fffffff := rfl

/-- did this pass dispatch a fibre that returned *yielded*? -/
def yieldedNow (a : A) (T : Int) (ret : Ret) : Bool := decide (ret = .yielded) && !(a.intake T).rq.isEmpty

/-- **the value `fibre_scheduler_next(T)` returns is the formula evaluated on the state at return**
    (`(a.next T s ret).1` = the specification's state when the call returns) -/
theorem wakeup_spec {k : K} {a : A} {last : Option Int} (h : Sim k a last) (T : Int) (s : List (Call Int)) (ret : Ret)
    (hok : opOk a last (.next T s ret) = true) :
    (schedulerNext k (w32 T) (s.map (Call.map w32)) ret).2.wake
      = w32 ((a.next T s ret).1.wake T (yieldedNow a T ret)) := by
  obtain ⟨h1, h2, h3, h4⟩ := opOk_next hok
  rw [(sim_next h T s ret h1 h2 h3 h4).1]
  unfold yieldedNow
  cases hrq : (a.intake T).rq with
  | nil => rw [next_nil s ret hrq]; simp
  | cons d rest => rw [next_cons s ret hrq]; simp

/-- at return every pending due time is after `T` and less than 2^31 ticks after it, and the run queue /
    atomic requests / sleepers are those of the specification -/
theorem pending_after_return {k : K} {a : A} {last : Option Int} (h : Sim k a last) (T : Int) (s : List (Call Int))
    (ret : Ret) (hok : opOk a last (.next T s ret) = true) :
    ∀ x ∈ (a.next T s ret).1.sleepers, T < x.2 ∧ x.2 < T + 2147483648 := by
  obtain ⟨h1, h2, h3, h4⟩ := opOk_next hok
  intro x hx
  obtain ⟨T0, e, hlo, hhi⟩ := (sim_next h T s ret h1 h2 h3 h4).2.q.window x hx
  have : T0 = T := (Option.some.inj e).symm
  subst this
  exact ⟨hlo, hhi⟩

/-- **never oversleeps**: with `V` the true time whose truncation is returned,
    (i) `V = T` whenever any fibre is runnable on return — the dispatched fibre yielded, the run queue is not empty,
        an accepted atomic request is outstanding;
    (ii) `V ≤ D` for every pending timeout `D`, and when nothing is runnable and something sleeps, `V` *is* the
        earliest pending due time, which is after `T`;
    (iii) `T ≤ V ≤ T + 0x7fffffff`, so the interval `V - T` the main loop sleeps for is what the returned 32-bit
        value minus `T` reads as (signed or unsigned). -/
theorem never_oversleeps {k : K} {a : A} {last : Option Int} (h : Sim k a last) (T : Int) (s : List (Call Int))
    (ret : Ret) (hok : opOk a last (.next T s ret) = true) :
    ((yieldedNow a T ret = true ∨ (a.next T s ret).1.rq ≠ [] ∨ (a.next T s ret).1.pend ≠ []) →
        (a.next T s ret).1.wake T (yieldedNow a T ret) = T)
    ∧ (∀ x ∈ (a.next T s ret).1.sleepers, (a.next T s ret).1.wake T (yieldedNow a T ret) ≤ x.2)
    ∧ (¬ (yieldedNow a T ret = true ∨ (a.next T s ret).1.rq ≠ [] ∨ (a.next T s ret).1.pend ≠ []) →
        (a.next T s ret).1.sleepers ≠ [] →
        ∃ f, (f, (a.next T s ret).1.wake T (yieldedNow a T ret)) ∈ (a.next T s ret).1.sleepers
          ∧ T < (a.next T s ret).1.wake T (yieldedNow a T ret))
    ∧ T ≤ (a.next T s ret).1.wake T (yieldedNow a T ret)
    ∧ (a.next T s ret).1.wake T (yieldedNow a T ret) ≤ T + 0x7fffffff
    ∧ ((schedulerNext k (w32 T) (s.map (Call.map w32)) ret).2.wake - w32 T).toInt
        = (a.next T s ret).1.wake T (yieldedNow a T ret) - T := by
  have hpend := pending_after_return h T s ret hok
  have hbounds : T ≤ (a.next T s ret).1.wake T (yieldedNow a T ret)
      ∧ (a.next T s ret).1.wake T (yieldedNow a T ret) ≤ T + 0x7fffffff := by
    rw [wake_formula]
    split
    · omega
    · cases hm : minDue (a.next T s ret).1.sleepers with
      | none => simp only; omega
      | some D =>
        simp only
        obtain ⟨⟨f, hf⟩, _⟩ := minDue_some hm
        have := hpend (f, D) hf
        simp only at this
        omega
  refine ⟨?_, ?_, ?_, hbounds.1, hbounds.2, ?_⟩
  · intro hr
    rw [wake_formula, if_pos hr]
  · intro x hx
    have hxw := hpend x hx
    rw [wake_formula]
    split
    · omega
    · cases hm : minDue (a.next T s ret).1.sleepers with
      | none => rw [minDue_none hm] at hx; cases hx
      | some D => exact (minDue_some hm).2 x hx
  · intro hr hne
    rw [wake_formula, if_neg hr]
    cases hm : minDue (a.next T s ret).1.sleepers with
    | none => exact absurd (minDue_none hm) hne
    | some D =>
      simp only
      obtain ⟨⟨f, hf⟩, _⟩ := minDue_some hm
      exact ⟨f, hf, (hpend (f, D) hf).1⟩
  · rw [wakeup_spec h T s ret hok, sub_toInt_window _ _ (by omega)]

/-! ## non-vacuity: each branch of the formula on a concrete in-scope history -/

def wakeDemo : List (Op Int) :=
  [.next 100 [] .waiting,                                       -- nothing at all: T + 0x7fffffff
   .run 0, .run 1,
   .next 100 [.timeout 130] .waiting,                          -- 1 still queued: T
   .next 101 [.timeout 120] .waiting,                          -- nothing runnable: earliest due time 120
   .next 102 [] .waiting,                                       -- idle, sleepers only: 120
   .runAtomic 2,
   .next 103 [.runAtomic 0] .waiting,                          -- request accepted during the dispatch: T
   .next 104 [.timeout 110] .yielded]                           -- yielded: T although a timeout is pending

example : InScope wakeDemo := by decide

example : (runModel (wrap wakeDemo)).map (fun o => match o with | .pass p => some p.wake.toNat | _ => none)
    = [some (100 + 0x7fffffff), none, none, some 100, some 120, some 120, none, some 103, some 104] := by decide

/-! ## the POSIX main loop: "a main loop that sleeps until the returned time never delays a runnable fibre or a
pending timeout"

`T1` = the clock reading passed to the pass, `V` = the true time whose truncation the pass returned
(`never_oversleeps`: `T1 ≤ V ≤ T1 + 0x7fffffff`, `V ≤` every pending due time, `V = T1` when anything is runnable),
`T2 ≥ T1` = the clock reading after the pass.  **Window hypothesis, forced by the code**: `T2 - T1 ≤ 2^31`
(the pass — i.e. the dispatched fibre — took at most 2^31 µs ≈ 35.8 min).  Beyond it `(int32_t)(V - T2)` wraps:
at `T2 = T1 + 2^31 + 1` with a runnable fibre (`V = T1`) the code computes +2147483647 and sleeps 50 ms
(`window_is_needed` below; the real code does exactly that, see `harness/h_sched.c` op `loop`). -/

/-- the sleep in closed form inside the window: nothing when the returned time is not in the future, otherwise the
    interval capped at the 50 ms poll -/
theorem mainloop_sleep_spec (V T2 : Int) (h : -2147483648 ≤ V - T2 ∧ V - T2 < 2147483648) :
    posixSleep (w32 V) (w32 T2) = if T2 < V then some (min (V - T2) 50000).toNat else none := by
  unfold posixSleep cyclecmp32
  simp only
  rw [Librfn.Sched.L.cyclecmp32_tie, sub_toInt_window V T2 h]
  by_cases h1 : V - T2 < 50000
  · rw [if_pos h1]
    by_cases h2 : T2 < V
    · rw [if_pos (by omega), if_pos h2, Int.min_eq_left (by omega)]
    · rw [if_neg (by omega), if_neg h2]
  · rw [if_neg h1, if_pos (by omega), if_pos (by omega), Int.min_eq_right (by omega)]

/-- **the loop never sleeps past the returned time** (and a sleep is a real sleep) -/
theorem mainloop_never_sleeps_past_returned_time (T1 T2 V : Int) (d : Nat)
    (h12 : T1 ≤ T2) (hwin : T2 - T1 ≤ 2147483648) (hV1 : T1 ≤ V) (hV2 : V ≤ T1 + 0x7fffffff)
    (hs : posixSleep (w32 V) (w32 T2) = some d) : 0 < d ∧ T2 + (d : Int) ≤ V := by
  rw [mainloop_sleep_spec V T2 (by omega)] at hs
  split at hs
  · have := Option.some.inj hs; omega
  · cases hs

/-- the same in the specification's words -/
theorem mainloop_sleep_ok (T1 T2 V : Int) (h12 : T1 ≤ T2) (hwin : T2 - T1 ≤ 2147483648) (hV1 : T1 ≤ V)
    (hV2 : V ≤ T1 + 0x7fffffff) : SleepOk V T2 (posixSleep (w32 V) (w32 T2)) := by
  cases hs : posixSleep (w32 V) (w32 T2) with
  | none => trivial
  | some d => exact Or.inr (mainloop_never_sleeps_past_returned_time T1 T2 V d h12 hwin hV1 hV2 hs).2

/-- **no sleep when anything is runnable at return** (then the pass returned `V = T1`), for every `T2 ≥ T1` in the window -/
theorem mainloop_no_sleep_when_runnable (T1 T2 : Int) (h12 : T1 ≤ T2) (hwin : T2 - T1 ≤ 2147483648) :
    posixSleep (w32 T1) (w32 T2) = none := by
  rw [mainloop_sleep_spec T1 T2 (by omega), if_neg (by omega)]

/-- **the loop polls at least every 50 ms** — for all 32-bit values, no hypothesis -/
theorem mainloop_polls (u n : BitVec 32) (d : Nat) (hs : posixSleep u n = some d) : 0 < d ∧ d ≤ 50000 := by
  unfold posixSleep at hs
  simp only at hs
  by_cases h1 : cyclecmp32 u n < 50000
  · rw [if_pos h1] at hs
    by_cases h2 : cyclecmp32 u n > 0
    · rw [if_pos h2] at hs; have := Option.some.inj hs; omega
    · rw [if_neg h2] at hs; cases hs
  · rw [if_neg h1, if_pos (by omega)] at hs; have := Option.some.inj hs; omega

/-- **the loop does not busy-spin while idle**: a returned time after `T2` is slept towards -/
theorem mainloop_sleeps_when_idle (T1 T2 V : Int) (h12 : T1 ≤ T2) (hV2 : V ≤ T1 + 0x7fffffff) (hidle : T2 < V) :
    posixSleep (w32 V) (w32 T2) = some (min (V - T2) 50000).toNat ∧ 0 < (min (V - T2) 50000).toNat := by
  rw [mainloop_sleep_spec V T2 (by omega), if_pos hidle]
  exact ⟨rfl, by omega⟩

/-- the window hypothesis cannot be dropped: one tick beyond it the code sleeps although a fibre is runnable -/
theorem window_is_needed : posixSleep (w32 4500) (w32 (4500 + 2147483648 + 1)) = some 50000 := by decide

/-- **D13 (the pinned tree's rule) oversleeps**: a returned time 2000 µs away is answered by a 50000 µs sleep,
    which the specification forbids; the fixed rule sleeps exactly 2000 -/
theorem old_mainloop_oversleeps :
    posixSleepOld (w32 2000) (w32 0) = some 50000 ∧ ¬ SleepOk 2000 0 (posixSleepOld (w32 2000) (w32 0))
    ∧ posixSleep (w32 2000) (w32 0) = some 2000 := by decide

-- non-vacuity of the arithmetic theorems: a sleep towards a due time over the 0xffffffff→0 seam, capped and uncapped
example : posixSleep (w32 4294967296) (w32 4294967290) = some 6 := by decide
example : posixSleep (w32 (4294967290 + 0x7fffffff)) (w32 4294967296) = some 50000 := by decide
example : posixSleep (w32 100) (w32 (100 + 2147483648)) = none := by decide      -- the edge of the window, runnable
example : (4294967290 : Int) ≤ 4294967290 ∧ (4294967290 : Int) - 4294967290 ≤ 2147483648 := by decide

/-! ### composed with the scheduler: one iteration of the concrete model's loop -/

/-- the specification's `passWake` is the `V` of `never_oversleeps` -/
theorem passWake_eq (a : A) (T : Int) (s : List (Call Int)) (ret : Ret) :
    a.passWake T s ret = (a.next T s ret).1.wake T (yieldedNow a T ret) := rfl

theorem loopOk_spec {a : A} {last : Option Int} {T1 T2 : Int} {s : List (Call Int)} {ret : Ret}
    (h : loopOk a last T1 T2 s ret = true) :
    opOk a last (.next T1 s ret) = true ∧ T1 ≤ T2 ∧ T2 - T1 ≤ 2147483648 := by
  simp only [loopOk, Bool.and_eq_true, decide_eq_true_eq] at h
  exact ⟨h.1.1, h.1.2, h.2⟩

/-- **the main loop never delays a runnable fibre or a pending timeout** — one iteration of the concrete model's
    loop (`mainLoopPass`: the model's pass at `w32 T1`, then `posixSleep` of what it returned and `w32 T2`) in any
    state related to the specification, for an in-scope iteration (`loopOk`):
    the value handed to the sleep is `w32 V`; what the loop does satisfies the specification `SleepOk V T2`;
    and if it sleeps `d` then `0 < d ≤ 50000`, **nothing is runnable** at return (the fibre did not yield, run queue
    and accepted atomic requests are empty) and the sleep ends **no later than every pending due time**;
    if nothing is due yet (`T2 < V`) it does sleep. -/
theorem mainloop_never_delays {k : K} {a : A} {last : Option Int} (h : Sim k a last) (T1 T2 : Int)
    (s : List (Call Int)) (ret : Ret) (hok : loopOk a last T1 T2 s ret = true) :
    (mainLoopPass k (w32 T1) (w32 T2) (s.map (Call.map w32)) ret).2.1.wake = w32 (a.passWake T1 s ret)
    ∧ SleepOk (a.passWake T1 s ret) T2 (mainLoopPass k (w32 T1) (w32 T2) (s.map (Call.map w32)) ret).2.2
    ∧ (∀ d, (mainLoopPass k (w32 T1) (w32 T2) (s.map (Call.map w32)) ret).2.2 = some d →
        0 < d ∧ d ≤ 50000
        ∧ ¬ (yieldedNow a T1 ret = true ∨ (a.next T1 s ret).1.rq ≠ [] ∨ (a.next T1 s ret).1.pend ≠ [])
        ∧ ∀ x ∈ (a.next T1 s ret).1.sleepers, T2 + (d : Int) ≤ x.2)
    ∧ (T2 < a.passWake T1 s ret →
        (mainLoopPass k (w32 T1) (w32 T2) (s.map (Call.map w32)) ret).2.2 ≠ none) := by
  obtain ⟨hok1, h12, hwin⟩ := loopOk_spec hok
  obtain ⟨hrun, hle, _, hV1, hV2, _⟩ := never_oversleeps h T1 s ret hok1
  have hw := wakeup_spec h T1 s ret hok1
  rw [← passWake_eq] at hrun hle hV1 hV2 hw
  unfold mainLoopPass
  simp only
  rw [hw]
  refine ⟨rfl, mainloop_sleep_ok T1 T2 _ h12 hwin hV1 hV2, ?_, ?_⟩
  · intro d hs
    have h1 := mainloop_never_sleeps_past_returned_time T1 T2 _ d h12 hwin hV1 hV2 hs
    refine ⟨h1.1, (mainloop_polls _ _ d hs).2, ?_, ?_⟩
    · intro hr
      have := hrun hr
      omega
    · intro x hx
      have := hle x hx
      omega
  · intro hidle
    rw [(mainloop_sleeps_when_idle T1 T2 _ h12 hV2 hidle).1]
    exact Option.some_ne_none _

/-- the same after every in-scope history -/
theorem mainloop_never_delays_history (h : List (Op Int)) (hin : InScope h) (T1 T2 : Int) (s : List (Call Int))
    (ret : Ret)
    (hok : loopOk (Spec.Sched.runFrom Spec.Sched.init h).1 (h.foldl lastOf none) T1 T2 s ret = true) (d : Nat)
    (hs : (mainLoopPass (Model.Fibre.runFrom Model.Fibre.init (wrap h)).1 (w32 T1) (w32 T2)
            (s.map (Call.map w32)) ret).2.2 = some d) :
    0 < d ∧ d ≤ 50000
    ∧ ¬ (yieldedNow (Spec.Sched.runFrom Spec.Sched.init h).1 T1 ret = true
          ∨ ((Spec.Sched.runFrom Spec.Sched.init h).1.next T1 s ret).1.rq ≠ []
          ∨ ((Spec.Sched.runFrom Spec.Sched.init h).1.next T1 s ret).1.pend ≠ [])
    ∧ ∀ x ∈ ((Spec.Sched.runFrom Spec.Sched.init h).1.next T1 s ret).1.sleepers, T2 + (d : Int) ≤ x.2 :=
  (mainloop_never_delays (refines_from h Model.Fibre.init Spec.Sched.init none sim_init hin).2 T1 T2 s ret hok).2.2.1 d hs

-- non-vacuity: in-scope iterations after an in-scope history in which the model's loop sleeps towards the due time
-- (1995 µs: the pass took 5 µs), is capped at the poll, and does not sleep because the fibre yielded / the due time passed
def loopDemo : List (Op Int) := [.run 0]

example : InScope loopDemo
    ∧ loopOk (Spec.Sched.runFrom Spec.Sched.init loopDemo).1 (loopDemo.foldl lastOf none) 100 105 [.timeout 2100] .waiting = true
    ∧ (mainLoopPass (Model.Fibre.runFrom Model.Fibre.init (wrap loopDemo)).1 (w32 100) (w32 105)
        [.timeout (w32 2100)] .waiting).2.2 = some 1995
    ∧ (mainLoopPass (Model.Fibre.runFrom Model.Fibre.init (wrap loopDemo)).1 (w32 100) (w32 105)
        [.timeout (w32 2100000)] .waiting).2.2 = some 50000
    ∧ (mainLoopPass (Model.Fibre.runFrom Model.Fibre.init (wrap loopDemo)).1 (w32 100) (w32 105)
        [.timeout (w32 2100)] .yielded).2.2 = none
    ∧ loopOk (Spec.Sched.runFrom Spec.Sched.init loopDemo).1 none 100 2100 [.timeout 2100] .waiting = true
    ∧ (mainLoopPass (Model.Fibre.runFrom Model.Fibre.init (wrap loopDemo)).1 (w32 100) (w32 2100)
        [.timeout (w32 2100)] .waiting).2.2 = none := by decide
end Librfn.C03

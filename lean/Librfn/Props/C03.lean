import Librfn.Model.Fibre
import Librfn.Spec.Sched
namespace Librfn.C03
open Librfn.Sched Librfn.Model.Fibre

/-- the static initial state idles with an unbounded sleep -/
theorem init_idles (t : BitVec 32) :
    (schedulerNext init t [] .waiting).2 = { disp := none, self := none, wake := t + 0x7fffffff#32 } := by
  rfl

end Librfn.C03

import Librfn.Lemmas.SchedCor
/-!
# C03 — fibre_scheduler_next returns a wake-up time that never oversleeps

Same model / specification as C01.  The returned value is one of the outputs of the refinement theorem
(`C01.sched_refines_spec`); here it is characterised for the concrete model in any state related to the
specification (every state an in-scope history reaches, `C01.reachable_sim`).

Scope of this file: the sequential histories of C01/C02 (a `fibre_run_atomic` issued by the dispatched fibre or
between passes is "an interrupt-context request that completed before the scheduler's final check").
Interrupt handlers placed *inside* `fibre_scheduler_next` are the extension `wakeup_with_isr`, which belongs to C06.
Kernel-only.
-/
namespace Librfn.C03
open Librfn.Sched Librfn.Model.Fibre Librfn.Spec.Sched Librfn.Sched.L

/-- the property's formula, literally: `T` when anything is runnable on return (the fibre that just yielded, a
    queued fibre, an accepted atomic request), otherwise the earliest pending due time, otherwise
    `T + FIBRE_UNBOUNDED_SLEEP` -/
theorem wake_formula (a : A) (T : Int) (yieldedNow : Bool) :
    a.wake T yieldedNow =
      if yieldedNow = true ∨ a.rq ≠ [] ∨ a.pend ≠ [] then T
      else match minDue a.sleepers with
        | some D => D
        | none => T + 0x7fffffff := rfl

/-- did this pass dispatch a fibre that returned *yielded*? -/
def yieldedNow (a : A) (T : Int) (ret : Ret) : Bool := decide (ret = .yielded) && !(a.intake T).rq.isEmpty

/-- **the value `fibre_scheduler_next(T)` returns is the formula evaluated on the state at return**
    (`(a.next T s ret).1` = the specification's state when the call returns) -/
theorem wakeup_spec {k : K} {a : A} {last : Option Int} (h : Sim k a last) (T : Int) (s : List (Call Int)) (ret : Ret)
    (hok : opOk a last (.next T s ret) = true) :
    (schedulerNext k (w32 T) (s.map (Call.map w32)) ret).2.wake
      = w32 ((a.next T s ret).1.wake T (yieldedNow a T ret)) := by
  obtain ⟨h1, h2, h3, h4⟩ := opOk_next hok
  rw [(sim_next h T s ret h1 h2 h3 h4).1]
  unfold yieldedNow
  cases hrq : (a.intake T).rq with
  | nil => rw [next_nil s ret hrq]; simp
  | cons d rest => rw [next_cons s ret hrq]; simp

/-- at return every pending due time is after `T` and less than 2^31 ticks after it, and the run queue /
    atomic requests / sleepers are those of the specification -/
theorem pending_after_return {k : K} {a : A} {last : Option Int} (h : Sim k a last) (T : Int) (s : List (Call Int))
    (ret : Ret) (hok : opOk a last (.next T s ret) = true) :
    ∀ x ∈ (a.next T s ret).1.sleepers, T < x.2 ∧ x.2 < T + 2147483648 := by
  obtain ⟨h1, h2, h3, h4⟩ := opOk_next hok
  intro x hx
  obtain ⟨T0, e, hlo, hhi⟩ := (sim_next h T s ret h1 h2 h3 h4).2.q.window x hx
  have : T0 = T := (Option.some.inj e).symm
  subst this
  exact ⟨hlo, hhi⟩

/-- **never oversleeps**: with `V` the true time whose truncation is returned,
    (i) `V = T` whenever any fibre is runnable on return — the dispatched fibre yielded, the run queue is not empty,
        an accepted atomic request is outstanding;
    (ii) `V ≤ D` for every pending timeout `D`, and when nothing is runnable and something sleeps, `V` *is* the
        earliest pending due time, which is after `T`;
    (iii) `T ≤ V ≤ T + 0x7fffffff`, so the interval `V - T` the main loop sleeps for is what the returned 32-bit
        value minus `T` reads as (signed or unsigned). -/
theorem never_oversleeps {k : K} {a : A} {last : Option Int} (h : Sim k a last) (T : Int) (s : List (Call Int))
    (ret : Ret) (hok : opOk a last (.next T s ret) = true) :
    ((yieldedNow a T ret = true ∨ (a.next T s ret).1.rq ≠ [] ∨ (a.next T s ret).1.pend ≠ []) →
        (a.next T s ret).1.wake T (yieldedNow a T ret) = T)
    ∧ (∀ x ∈ (a.next T s ret).1.sleepers, (a.next T s ret).1.wake T (yieldedNow a T ret) ≤ x.2)
    ∧ (¬ (yieldedNow a T ret = true ∨ (a.next T s ret).1.rq ≠ [] ∨ (a.next T s ret).1.pend ≠ []) →
        (a.next T s ret).1.sleepers ≠ [] →
        ∃ f, (f, (a.next T s ret).1.wake T (yieldedNow a T ret)) ∈ (a.next T s ret).1.sleepers
          ∧ T < (a.next T s ret).1.wake T (yieldedNow a T ret))
    ∧ T ≤ (a.next T s ret).1.wake T (yieldedNow a T ret)
    ∧ (a.next T s ret).1.wake T (yieldedNow a T ret) ≤ T + 0x7fffffff
    ∧ ((schedulerNext k (w32 T) (s.map (Call.map w32)) ret).2.wake - w32 T).toInt
        = (a.next T s ret).1.wake T (yieldedNow a T ret) - T := by
  have hpend := pending_after_return h T s ret hok
  have hbounds : T ≤ (a.next T s ret).1.wake T (yieldedNow a T ret)
      ∧ (a.next T s ret).1.wake T (yieldedNow a T ret) ≤ T + 0x7fffffff := by
    rw [wake_formula]
    split
    · omega
    · cases hm : minDue (a.next T s ret).1.sleepers with
      | none => simp only; omega
      | some D =>
        simp only
        obtain ⟨⟨f, hf⟩, _⟩ := minDue_some hm
        have := hpend (f, D) hf
        simp only at this
        omega
  refine ⟨?_, ?_, ?_, hbounds.1, hbounds.2, ?_⟩
  · intro hr
    rw [wake_formula, if_pos hr]
  · intro x hx
    have hxw := hpend x hx
    rw [wake_formula]
    split
    · omega
    · cases hm : minDue (a.next T s ret).1.sleepers with
      | none => rw [minDue_none hm] at hx; cases hx
      | some D => exact (minDue_some hm).2 x hx
  · intro hr hne
    rw [wake_formula, if_neg hr]
    cases hm : minDue (a.next T s ret).1.sleepers with
    | none => exact absurd (minDue_none hm) hne
    | some D =>
      simp only
      obtain ⟨⟨f, hf⟩, _⟩ := minDue_some hm
      exact ⟨f, hf, (hpend (f, D) hf).1⟩
  · rw [wakeup_spec h T s ret hok, sub_toInt_window _ _ (by omega)]

/-! ## non-vacuity: each branch of the formula on a concrete in-scope history -/

def wakeDemo : List (Op Int) :=
  [.next 100 [] .waiting,                                       -- nothing at all: T + 0x7fffffff
   .run 0, .run 1,
   .next 100 [.timeout 130] .waiting,                          -- 1 still queued: T
   .next 101 [.timeout 120] .waiting,                          -- nothing runnable: earliest due time 120
   .next 102 [] .waiting,                                       -- idle, sleepers only: 120
   .runAtomic 2,
   .next 103 [.runAtomic 0] .waiting,                          -- request accepted during the dispatch: T
   .next 104 [.timeout 110] .yielded]                           -- yielded: T although a timeout is pending

example : InScope wakeDemo := by decide

example : (runModel (wrap wakeDemo)).map (fun o => match o with | .pass p => some p.wake.toNat | _ => none)
    = [some (100 + 0x7fffffff), none, none, some 100, some 120, some 120, none, some 103, some 104] := by decide

end Librfn.C03

import Librfn.Model.RingConc
/-! C05 — ring buffer delivers each byte once, in order (theorems about `Model/RingConc.lean`). -/
namespace Librfn.C05
open Librfn.Model.RingConc

/-- the C index increment with its `unsigned int` truncations is the mathematical successor modulo `len`
whenever `len ≤ 2^32` -/
theorem wrap_eq {len i : Nat} (hi : i < len) (h32 : len ≤ U32) : wrap len i = if i + 1 = len then 0 else i + 1 := by
  unfold wrap U32 at *
  by_cases h : i + 1 = len
  · have e : (i + 1) % 4294967296 ≥ len ∨ (i + 1) % 4294967296 < len := by omega
    simp only [h, if_true]
    by_cases h2 : len = 4294967296
    · subst h2; simp
    · have : len % 4294967296 = len := Nat.mod_eq_of_lt (by omega)
      simp [this]
  · have : (i + 1) % 4294967296 = i + 1 := Nat.mod_eq_of_lt (by omega)
    simp only [this, h, if_false]
    have : ¬ (i + 1 ≥ len) := by omega
    simp [this]

end Librfn.C05

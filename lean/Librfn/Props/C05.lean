import Librfn.Model.RingConc
import Librfn.Gen.Skeleton
/-! C05 — the lock-free ring buffer delivers each byte once, in order, for one producer and one consumer,
under every interleaving (theorems about `Model/RingConc.lean`; kernel-only).

`Inv` is an inductive invariant of the interleaving machine: it holds in every start state
`readi = writei = k < len` (`init_inv`), and every enabled step of either thread preserves it (`step_inv`),
for every `2 ≤ len ≤ 2^32`, every byte value and every storage content.  Hence it holds after every schedule
of every pair of scripts (`ring_inv`) and after every sequence of enabled actions (`ring_inv_acts`).
The clauses of the property are corollaries of `Inv` at the step where the C function takes its decision. -/
namespace Librfn.C05
open Librfn.Model.RingConc

/-! ### Index arithmetic -/

/-- the C index increment with its `unsigned int` truncations is the successor modulo `len` whenever `len ≤ 2^32` -/
theorem wrap_eq {len i : Nat} (hi : i < len) (h32 : len ≤ U32) : wrap len i = if i + 1 = len then 0 else i + 1 := by
  unfold wrap U32 at *
  by_cases h : i + 1 = len
  · simp only [h, if_true]
    by_cases h2 : len = 4294967296
    · subst h2; simp
    · have : len % 4294967296 = len := Nat.mod_eq_of_lt (by omega)
      simp [this]
  · have : (i + 1) % 4294967296 = i + 1 := Nat.mod_eq_of_lt (by omega)
    simp only [this, h, if_false]
    have : ¬ (i + 1 ≥ len) := by omega
    simp [this]

theorem wrap_succ {len n : Nat} (h2 : 2 ≤ len) (h32 : len ≤ U32) : wrap len (n % len) = (n + 1) % len := by
  have hlen : 0 < len := by omega
  have h1 := Nat.mod_lt n hlen
  rw [wrap_eq h1 h32]
  have e : (n + 1) % len = (n % len + 1) % len := by
    rw [Nat.add_mod n 1 len, Nat.mod_eq_of_lt (by omega : 1 < len)]
  rw [e]
  by_cases h : n % len + 1 = len
  · simp only [h, if_true, Nat.mod_self]
  · simp only [h, if_false]
    exact (Nat.mod_eq_of_lt (by omega)).symm

theorem slot_inj {len i j : Nat} (hij : i ≤ j) (hlt : j < i + len) (h : i % len = j % len) : i = j := by
  have h0 : (j - i) % len = 0 := Nat.sub_mod_eq_zero_of_mod_eq h.symm
  have : (j - i) % len = j - i := Nat.mod_eq_of_lt (by omega)
  omega

theorem mod_ne_of_lt {len a b : Nat} (hab : a < b) (hlt : b < a + len) : a % len ≠ b % len :=
  fun h => by have := slot_inj (Nat.le_of_lt hab) hlt h; omega

/-! ### The invariant -/

/-- number of bytes put and not yet got -/
def unread (s : St) : Nat := s.sent.length - s.recv.length

/-- the ring cell that holds (or will hold) the `i`-th byte ever put -/
def cell (s : St) (i : Nat) : Nat := (s.base + i) % s.len

def PInv (s : St) : Prop := match s.p with
  | .idle => True
  | .p1 _ w => w = s.writei ∧ s.plast = none
  | .p2 _ w nw => w = s.writei ∧ s.plast = none ∧ nw = cell s (s.sent.length + 1) ∧ s.sent.length + 1 < s.recv.length + s.len
  | .p3 d w nw => w = s.writei ∧ s.plast = none ∧ nw = cell s (s.sent.length + 1) ∧ s.sent.length + 1 < s.recv.length + s.len ∧ s.buf w = d

def CInv (s : St) : Prop := match s.c with
  | .idle => True
  | .c1 r => r = s.readi ∧ s.clast = none
  | .c2 r => r = s.readi ∧ s.clast = none ∧ s.recv.length < s.sent.length
  | .c3 r d => r = s.readi ∧ s.clast = none ∧ s.recv.length < s.sent.length ∧ some d = s.sent[s.recv.length]?
  | .e1 r => r = s.readi ∧ s.clast = none

structure Inv (s : St) : Prop where
  len2 : 2 ≤ s.len
  len32 : s.len ≤ U32
  ri : s.readi = cell s s.recv.length
  wi : s.writei = cell s s.sent.length
  le : s.recv.length ≤ s.sent.length
  lt : s.sent.length < s.recv.length + s.len
  content : ∀ i, s.recv.length ≤ i → i < s.sent.length → some (s.buf (cell s i)) = s.sent[i]?
  pre : s.recv = s.sent.take s.recv.length
  pinv : PInv s
  cinv : CInv s

/-- the invariant holds in every start position, whatever the storage contains -/
theorem init_inv {len k : Nat} (buf : Nat → UInt8) (h2 : 2 ≤ len) (h32 : len ≤ U32) (hk : k < len) : Inv (init len k buf) where
  len2 := h2
  len32 := h32
  ri := by simp [init, cell, Nat.mod_eq_of_lt hk]
  wi := by simp [init, cell, Nat.mod_eq_of_lt hk]
  le := by simp [init]
  lt := by simp [init]; omega
  content := by intro i h1 h2; simp [init] at h2
  pre := by simp [init]
  pinv := by simp [PInv, init]
  cinv := by simp [CInv, init]

theorem cell_succ {s : St} (hi : Inv s) (n : Nat) : wrap s.len (cell s n) = cell s (n + 1) := by
  unfold cell
  rw [wrap_succ hi.len2 hi.len32]; rfl

/-- every enabled step of either thread preserves the invariant -/
theorem step_inv (s s' : St) (a : Act) (hi : Inv s) (hs : stepAct s a = some s') : Inv s' := by
  cases a with
  | put d =>
    simp only [stepAct] at hs
    split at hs <;> simp at hs
    subst hs
    refine { hi with pinv := ?_, cinv := ?_ }
    · simp [PInv]
    · have := hi.cinv; simpa [CInv, cell] using this
  | get =>
    simp only [stepAct] at hs
    split at hs <;> simp at hs
    subst hs
    refine { hi with pinv := ?_, cinv := ?_ }
    · have := hi.pinv; simpa [PInv, cell] using this
    · simp [CInv]
  | empty =>
    simp only [stepAct] at hs
    split at hs <;> simp at hs
    subst hs
    refine { hi with pinv := ?_, cinv := ?_ }
    · have := hi.pinv; simpa [PInv, cell] using this
    · simp [CInv]
  | pstep =>
    simp only [stepAct] at hs
    split at hs
    · -- P2: load readi, compare
      rename_i d w hp
      have hpi := hi.pinv
      simp only [PInv, hp] at hpi
      obtain ⟨hw, hpl⟩ := hpi
      split at hs <;> simp at hs <;> subst hs
      · refine { hi with pinv := ?_, cinv := ?_ }
        · simp [PInv]
        · have := hi.cinv; simpa [CInv, cell] using this
      · rename_i hne
        refine { hi with pinv := ?_, cinv := ?_ }
        · simp only [PInv]
          refine ⟨hw, hpl, ?_, ?_⟩
          · rw [hw, hi.wi, cell_succ hi]; rfl
          · rw [hw, hi.wi, cell_succ hi, hi.ri] at hne
            have h1 := hi.le; have h2 := hi.lt
            by_cases h3 : s.sent.length + 1 < s.recv.length + s.len
            · exact h3
            · exfalso; apply hne
              have e : s.sent.length + 1 = s.recv.length + s.len := by omega
              unfold cell
              rw [e, ← Nat.add_assoc, Nat.add_mod_right]
        · have := hi.cinv; simpa [CInv, cell] using this
    · -- P3: plain store of the byte
      rename_i d w nw hp
      have hpi := hi.pinv
      simp only [PInv, hp] at hpi
      simp at hs; subst hs
      obtain ⟨hw, hpl, hnw, hsp⟩ := hpi
      refine { hi with content := ?_, pinv := ?_, cinv := ?_ }
      · intro i h1 h2
        simp only at h1 h2
        have := hi.content i h1 h2
        have hne : (s.base + i) % s.len ≠ w := by
          rw [hw, hi.wi]
          unfold cell
          exact mod_ne_of_lt (by omega) (by have := hi.lt; omega)
        simp only [cell] at this
        show some (if (s.base + i) % s.len = w then d else s.buf ((s.base + i) % s.len)) = s.sent[i]?
        rw [if_neg hne]; exact this
      · simp only [PInv]; exact ⟨hw, hpl, hnw, hsp, by simp⟩
      · have hc := hi.cinv
        unfold CInv at hc ⊢
        simp only
        split <;> simp_all
    · -- P4: publish writei
      rename_i d w nw hp
      have hpi := hi.pinv
      simp only [PInv, hp] at hpi
      simp at hs; subst hs
      obtain ⟨hw, hpl, hnw, hsp, hbuf⟩ := hpi
      refine { len2 := hi.len2, len32 := hi.len32, ri := hi.ri, wi := ?_, le := ?_, lt := ?_, content := ?_, pre := ?_, pinv := ?_, cinv := ?_ }
      · simp [hnw, cell]
      · simp; have := hi.le; omega
      · simp; omega
      · intro i h1 h2
        simp only [List.length_append, List.length_singleton] at h2
        by_cases h3 : i < s.sent.length
        · rw [List.getElem?_append_left h3]; exact hi.content i h1 h3
        · have : i = s.sent.length := by omega
          subst this
          simp only [List.getElem?_append_right (Nat.le_refl _), Nat.sub_self, List.getElem?_cons_zero]
          have := hi.wi
          simp only [cell] at this ⊢
          rw [← this, ← hw, hbuf]
      · simp only
        rw [List.take_append_of_le_length hi.le]; exact hi.pre
      · simp [PInv]
      · have hc := hi.cinv
        unfold CInv at hc ⊢
        simp only
        split
        · trivial
        · simp_all
        · rename_i r hcr; simp only [hcr] at hc; exact ⟨hc.1, hc.2.1, by simp; omega⟩
        · rename_i r d' hcr; simp only [hcr] at hc
          refine ⟨hc.1, hc.2.1, by simp; omega, ?_⟩
          rw [List.getElem?_append_left hc.2.2.1]; exact hc.2.2.2
        · simp_all
    · simp at hs
  | cstep =>
    simp only [stepAct] at hs
    split at hs
    · -- C2: load writei, compare
      rename_i r hc
      have hci := hi.cinv
      simp only [CInv, hc] at hci
      obtain ⟨hr, hcl⟩ := hci
      split at hs <;> simp at hs <;> subst hs
      · refine { hi with pinv := ?_, cinv := ?_ }
        · have := hi.pinv; simpa [PInv, cell] using this
        · simp [CInv]
      · rename_i hne
        refine { hi with pinv := ?_, cinv := ?_ }
        · have := hi.pinv; simpa [PInv, cell] using this
        · simp only [CInv]
          refine ⟨hr, hcl, ?_⟩
          rw [hr, hi.ri, hi.wi] at hne
          have := hi.le
          by_cases h : s.recv.length < s.sent.length
          · exact h
          · exfalso; apply hne; have : s.recv.length = s.sent.length := by omega
            rw [this]
    · -- C3: plain load of the byte
      rename_i r hc
      have hci := hi.cinv
      simp only [CInv, hc] at hci
      simp at hs; subst hs
      refine { hi with pinv := ?_, cinv := ?_ }
      · have := hi.pinv; simpa [PInv, cell] using this
      · simp only [CInv]
        refine ⟨hci.1, hci.2.1, hci.2.2, ?_⟩
        have := hi.content s.recv.length (Nat.le_refl _) hci.2.2
        rw [hci.1, hi.ri]; exact this
    · -- C4: publish readi
      rename_i r d hc
      have hci := hi.cinv
      simp only [CInv, hc] at hci
      simp at hs; subst hs
      obtain ⟨hr, hcl, hlt, hd⟩ := hci
      refine { len2 := hi.len2, len32 := hi.len32, ri := ?_, wi := hi.wi, le := ?_, lt := ?_, content := ?_, pre := ?_, pinv := ?_, cinv := ?_ }
      · simp only [List.length_append, List.length_singleton]; rw [hr, hi.ri, cell_succ hi]; rfl
      · simp; omega
      · simp; have := hi.lt; omega
      · intro i h1 h2
        simp only [List.length_append, List.length_singleton] at h1
        exact hi.content i (by omega) h2
      · simp only [List.length_append, List.length_singleton]
        rw [List.take_add_one, ← hi.pre, ← hd]; rfl
      · have hp := hi.pinv
        unfold PInv at hp ⊢
        simp only
        split
        · trivial
        · simp_all
        · rename_i d' w nw hpr; simp only [hpr] at hp
          exact ⟨hp.1, hp.2.1, hp.2.2.1, by simp; omega⟩
        · rename_i d' w nw hpr; simp only [hpr] at hp
          exact ⟨hp.1, hp.2.1, hp.2.2.1, by simp; omega, hp.2.2.2.2⟩
      · simp [CInv]
    · -- E2: second load of ringbuf_empty
      rename_i r hc
      simp at hs; subst hs
      refine { hi with pinv := ?_, cinv := ?_ }
      · have := hi.pinv; simpa [PInv, cell] using this
      · simp [CInv]
    · simp at hs

/-! ### Every interleaving, every script -/

/-- any sequence of actions, each enabled when it is taken -/
def runActs : St → List Act → Option St
  | s, [] => some s
  | s, a :: as => match stepAct s a with
    | none => none
    | some s' => runActs s' as

theorem ring_inv_acts {s s' : St} (acts : List Act) (hi : Inv s) (h : runActs s acts = some s') : Inv s' := by
  induction acts generalizing s with
  | nil => simp [runActs] at h; subst h; exact hi
  | cons a as ih =>
    simp only [runActs] at h
    split at h
    · simp at h
    · rename_i s1 hs; exact ih (step_inv _ _ _ hi hs) h

/-- a step of either scripted thread (entering the next call, continuing one, spinning in `ringbuf_putchar`,
or having nothing left to do) preserves the invariant -/
theorem sys_step_inv (y : Sys) (t : ThreadId) (hi : Inv y.st) : Inv (step y t).st := by
  cases t with
  | prod =>
    simp only [step]
    split
    · exact hi
    · split
      · exact hi
      · rename_i s' hs
        have h := step_inv _ _ _ hi hs
        split <;> exact h
  | cons =>
    simp only [step]
    split
    · exact hi
    · split
      · exact hi
      · rename_i s' hs
        have h := step_inv _ _ _ hi hs
        split <;> exact h

theorem run_inv (y : Sys) (sched : List ThreadId) (hi : Inv y.st) : Inv (run y sched).st := by
  induction sched generalizing y with
  | nil => exact hi
  | cons t ts ih => exact ih (step y t) (sys_step_inv y t hi)

/-- **Main theorem.**  For every buffer length `2 ≤ len ≤ 2^32`, every start position `k < len` of both
indices, every storage content, every producer script (puts and putchars of arbitrary bytes), every consumer
script (gets and emptys) and every schedule, the invariant holds in the state reached. -/
theorem ring_inv {len k : Nat} (buf : Nat → UInt8) (h2 : 2 ≤ len) (h32 : len ≤ U32) (hk : k < len)
    (ps : List POp) (cs : List COp) (sched : List ThreadId) :
    Inv (run ⟨init len k buf, ps, cs⟩ sched).st :=
  run_inv _ sched (init_inv buf h2 h32 hk)

/-! ### The clauses of the property -/

/-- the bytes returned by successful gets are a prefix of the bytes of the successful puts: nothing lost,
duplicated, reordered or invented -/
theorem delivered_in_order_once {s : St} (hi : Inv s) : s.recv <+: s.sent := by
  have h := List.take_prefix s.recv.length s.sent
  rw [← hi.pre] at h; exact h

/-- a successful get returns the byte it appends to `recv`, zero-extended: a value in 0…255 (never -1, never negative) -/
theorem get_returns_unsigned_byte {s s' : St} {r : Nat} {d : UInt8} (hc : s.c = .c3 r d) (hs : stepAct s .cstep = some s') :
    s'.recv = s.recv ++ [d] ∧ s'.clast = some (Int.ofNat d.toNat) ∧ 0 ≤ Int.ofNat d.toNat ∧ Int.ofNat d.toNat ≤ 255 := by
  simp only [stepAct, hc] at hs
  simp at hs; subst hs
  refine ⟨rfl, rfl, Int.natCast_nonneg _, ?_⟩
  have h := UInt8.toNat_lt d
  have h' : d.toNat ≤ 255 := by omega
  exact Int.ofNat_le.mpr h'

/-- a put that returns true appended exactly its byte to `sent` -/
theorem put_true_appends {s s' : St} {d : UInt8} {w nw : Nat} (hp : s.p = .p3 d w nw) (hs : stepAct s .pstep = some s') :
    s'.sent = s.sent ++ [d] ∧ s'.plast = some true := by
  simp only [stepAct, hp] at hs
  simp at hs; subst hs
  exact ⟨rfl, rfl⟩

/-- ringbuf_put returns false only if `buf_len - 1` bytes were unread at the instant it loaded `readi` -/
theorem put_fails_only_if_full {s s' : St} {d : UInt8} {w : Nat} (hi : Inv s) (hp : s.p = .p1 d w)
    (hs : stepAct s .pstep = some s') (hf : s'.plast = some false) : unread s = s.len - 1 := by
  have hpi := hi.pinv
  simp only [PInv, hp] at hpi
  obtain ⟨hw, hpl⟩ := hpi
  simp only [stepAct, hp] at hs
  split at hs <;> simp at hs <;> subst hs
  · rename_i heq
    rw [hw, hi.wi, cell_succ hi, hi.ri] at heq
    have h1 := hi.le; have h2 := hi.lt; have h3 := hi.len2
    unfold unread
    by_cases h : s.sent.length + 1 < s.recv.length + s.len
    · exfalso
      have := slot_inj (len := s.len) (i := s.base + s.recv.length) (j := s.base + (s.sent.length + 1)) (by omega) (by omega) heq.symm
      omega
    · omega
  · simp only at hf; rw [hpl] at hf; cases hf

/-- ringbuf_get returns -1 only if the ring was empty at the instant it loaded `writei` -/
theorem get_minus1_only_if_empty {s s' : St} {r : Nat} (hi : Inv s) (hc : s.c = .c1 r)
    (hs : stepAct s .cstep = some s') (hf : s'.clast = some (-1)) : unread s = 0 := by
  have hci := hi.cinv
  simp only [CInv, hc] at hci
  obtain ⟨hr, hcl⟩ := hci
  simp only [stepAct, hc] at hs
  split at hs <;> simp at hs <;> subst hs
  · rename_i heq
    rw [hr, hi.ri, hi.wi] at heq
    have h1 := hi.le; have h2 := hi.lt
    have := slot_inj (len := s.len) (i := s.base + s.recv.length) (j := s.base + s.sent.length) (by omega) (by omega) heq
    unfold unread; omega
  · simp only at hf; rw [hcl] at hf; cases hf

/-- ringbuf_empty returns true only if the ring was empty at the instant of its second load -/
theorem empty_true_only_if_empty {s s' : St} {r : Nat} (hi : Inv s) (hc : s.c = .e1 r)
    (hs : stepAct s .cstep = some s') (hf : s'.clast = some 1) : unread s = 0 := by
  have hci := hi.cinv
  simp only [CInv, hc] at hci
  obtain ⟨hr, _⟩ := hci
  simp only [stepAct, hc] at hs
  simp at hs; subst hs
  simp only at hf
  by_cases heq : r = s.writei
  · rw [hr, hi.ri, hi.wi] at heq
    have h1 := hi.le; have h2 := hi.lt
    have := slot_inj (len := s.len) (i := s.base + s.recv.length) (j := s.base + s.sent.length) (by omega) (by omega) heq
    unfold unread; omega
  · simp [heq] at hf

/-- and it returns false only if the ring was non-empty at that instant (not required by the property) -/
theorem empty_false_only_if_nonempty {s s' : St} {r : Nat} (hi : Inv s) (hc : s.c = .e1 r)
    (hs : stepAct s .cstep = some s') (hf : s'.clast = some 0) : 0 < unread s := by
  have hci := hi.cinv
  simp only [CInv, hc] at hci
  obtain ⟨hr, _⟩ := hci
  simp only [stepAct, hc] at hs
  simp at hs; subst hs
  simp only at hf
  by_cases heq : r = s.writei
  · simp [heq] at hf
  · rw [hr, hi.ri, hi.wi] at heq
    have h1 := hi.le
    unfold unread
    by_cases h : s.recv.length = s.sent.length
    · exfalso; apply heq; rw [h]
    · omega

/-- every index held in shared or thread-local state is inside the caller's `buf_len` bytes (this is also
the `assert(readi < rb->buf_len)` of ringbuf_get) -/
def IdxOK (s : St) : Prop :=
  s.readi < s.len ∧ s.writei < s.len ∧
  (match s.p with
    | .idle => True
    | .p1 _ w => w < s.len
    | .p2 _ w nw => w < s.len ∧ nw < s.len
    | .p3 _ w nw => w < s.len ∧ nw < s.len) ∧
  (match s.c with
    | .idle => True
    | .c1 r => r < s.len
    | .c2 r => r < s.len
    | .c3 r _ => r < s.len
    | .e1 r => r < s.len)

theorem indices_in_bounds {s : St} (hi : Inv s) : IdxOK s := by
  have hlen : 0 < s.len := by have := hi.len2; omega
  have hr : s.readi < s.len := by rw [hi.ri]; exact Nat.mod_lt _ hlen
  have hw : s.writei < s.len := by rw [hi.wi]; exact Nat.mod_lt _ hlen
  have hc : ∀ n, cell s n < s.len := fun n => Nat.mod_lt _ hlen
  refine ⟨hr, hw, ?_, ?_⟩
  · have hp := hi.pinv
    unfold PInv at hp
    split <;> simp_all
  · have hc' := hi.cinv
    unfold CInv at hc'
    split <;> simp_all

/-- the cell the producer is about to store into holds no unread byte -/
theorem no_overwrite_before_read {s : St} {d : UInt8} {w nw : Nat} (hi : Inv s) (hp : s.p = .p2 d w nw) :
    ∀ i, s.recv.length ≤ i → i < s.sent.length → cell s i ≠ w := by
  intro i h1 h2
  have hpi := hi.pinv
  simp only [PInv, hp] at hpi
  rw [hpi.1, hi.wi]
  have := hi.lt
  exact mod_ne_of_lt (by omega) (by omega)

/-- C07 (b) for the ring: the producer's payload store and the consumer's payload load are never enabled on
the same cell, so no sequentially consistent execution has two adjacent conflicting plain accesses -/
theorem ring_no_adjacent_conflict {s : St} {d : UInt8} {w nw r : Nat} (hi : Inv s)
    (hp : s.p = .p2 d w nw) (hc : s.c = .c2 r) : w ≠ r := by
  have hci := hi.cinv
  simp only [CInv, hc] at hci
  have h := no_overwrite_before_read hi hp s.recv.length (Nat.le_refl _) hci.2.2
  rw [hci.1, hi.ri]
  exact fun e => h e.symm

/-- the consumer's payload load reads the oldest unread byte -/
theorem get_loads_oldest_unread {s : St} {r : Nat} (hi : Inv s) (hc : s.c = .c2 r) :
    some (s.buf r) = s.sent[s.recv.length]? := by
  have hci := hi.cinv
  simp only [CInv, hc] at hci
  have := hi.content s.recv.length (Nat.le_refl _) hci.2.2
  rw [hci.1, hi.ri]; exact this

/-! ### Tie S: the model's atomic-operation skeleton is the one extracted from the current source

`Gen.Skeleton.ringbuf` is regenerated from `ringbuf.c` / `ringbuf.h` by `tools/skeleton.py` on every run.
These obligations fail when a memory order is weakened, an index field stops being `_Atomic`, an atomic call is
replaced by a plain access, a fence is dropped, or a payload access moves across the publishing store. -/

open Librfn.Skeleton in
/-- fields of `ringbuf_t` that are written once by `ringbuf_init`, before the threads exist -/
def ringConfig : List String := ["rb->bufp", "rb->buf_len"]

/-- the shared accesses of every function of ringbuf.c (operation, object, memory orders, conditional / in a loop), in
order, and the declared types of `ringbuf_t`'s fields, are those of the table the model was written against; the
configuration fields are written by `ringbuf_init` only (`Librfn.Skeleton.CUnit.core`: reads of those fields and the numbering
of branch constructs are not part of the comparison; helper functions are inlined by the extraction) -/
theorem skeleton_matches_ring :
    Librfn.Gen.Skeleton.ringbuf.core ringConfig = Librfn.Model.RingConc.skeleton.core ringConfig ∧
    Librfn.Gen.Skeleton.ringbuf.fields = Librfn.Model.RingConc.skeleton.fields ∧
    Librfn.Gen.Skeleton.ringbuf.configNeverWritten ringConfig ["ringbuf_init"] = true := by decide

/-- C07 (a): every atomic operation and fence of ringbuf.c is `seq_cst` -/
theorem ring_ord_all_seqcst : Librfn.Gen.Skeleton.ringbuf.allSeqCst = true := by decide

/-- C07 (a): both indices are declared `_Atomic` and are accessed only through atomic operations -/
theorem ring_fields_atomic :
    Librfn.Gen.Skeleton.ringbuf.fieldAtomic "ringbuf_t" "readi" = true ∧
    Librfn.Gen.Skeleton.ringbuf.fieldAtomic "ringbuf_t" "writei" = true ∧
    Librfn.Gen.Skeleton.ringbuf.onlyAtomicAccess ["rb->readi", "rb->writei"] = true := by decide

/-- position of the first site of a function that satisfies `p` -/
def siteIdx (u : Librfn.Skeleton.CUnit) (fn : String) (p : Librfn.Skeleton.Site → Bool) : Option Nat :=
  match u.funcs.find? (·.name == fn) with
  | none => none
  | some f => let i := f.sites.findIdx p; if i < f.sites.length then some i else none

open Librfn.Skeleton in
/-- the payload store of `ringbuf_put` comes after its load of `readi` and before its store of `writei`; the
payload load of `ringbuf_get` comes after its load of `writei` and before its store of `readi`
(stated on the extracted table, unconditional sites only) -/
theorem ring_payload_inside_publish :
    inOrder3 Librfn.Gen.Skeleton.ringbuf "ringbuf_put" (fun s => s.kind == .load && s.obj == "rb->readi")
      (fun s => s.kind == .plainWrite && s.obj == "rb->bufp[]" && !ctxConditional s.ctx)
      (fun s => s.kind == .store && s.obj == "rb->writei" && !ctxConditional s.ctx) = true ∧
    inOrder3 Librfn.Gen.Skeleton.ringbuf "ringbuf_get" (fun s => s.kind == .load && s.obj == "rb->writei")
      (fun s => s.kind == .plainRead && s.obj == "rb->bufp[]" && !ctxConditional s.ctx)
      (fun s => s.kind == .store && s.obj == "rb->readi" && !ctxConditional s.ctx) = true := by decide

/-! ### Non-vacuity: concrete states that meet the hypotheses above -/

section examples
def f0 : Nat → UInt8 := fun _ => 0xEE
open ThreadId in
/-- len 3 started at the last cell: put 5 completed (index wrapped to 0), put 7 about to store, get about to load -/
def midState : St := (run ⟨init 3 2 f0, [.put 5, .put 7], [.get]⟩ [prod, prod, prod, prod, prod, prod, cons, cons]).st

example : Inv (init 3 2 f0) := init_inv f0 (by decide) (by decide) (by decide)
example : Inv midState := ring_inv f0 (by decide) (by decide) (by decide) _ _ _
example : midState.p = .p2 7 0 1 ∧ midState.c = .c2 2 ∧ midState.sent = [5] ∧ midState.recv = [] ∧ midState.writei = 0 := by decide
open ThreadId in
/-- len 2 holding one byte: the second put is about to fail -/
def fullState : St := (run ⟨init 2 1 f0, [.put 200, .put 9], []⟩ [prod, prod, prod, prod, prod]).st
example : fullState.p = .p1 9 0 ∧ unread fullState = fullState.len - 1 := by decide
example : (stepAct fullState .pstep).map (·.plast) = some (some false) := by decide
open ThreadId in
/-- a get on an empty ring returns -1, an empty returns true -/
example : (run ⟨init 2 1 f0, [], [.get]⟩ [cons, cons]).st.clast = some (-1) := by decide
open ThreadId in
example : (run ⟨init 2 1 f0, [], [.empty]⟩ [cons, cons]).st.clast = some 1 := by decide
open ThreadId in
/-- a byte ≥ 128 comes back as itself -/
example : (run ⟨init 2 1 f0, [.put 200], [.get]⟩ [prod, prod, prod, prod, cons, cons, cons, cons]).st.clast = some 200 := by decide
open ThreadId in
/-- ringbuf_putchar on a full ring spins (its entry stays at the head of the script) until the consumer frees a cell -/
example : (run ⟨init 2 0 f0, [.put 1, .putchar 2], [.get]⟩
    [prod, prod, prod, prod, prod, prod, prod, prod, cons, cons, cons, cons, prod, prod, prod, prod]).st.sent = [1, 2] := by decide
end examples

end Librfn.C05

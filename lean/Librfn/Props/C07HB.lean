import Librfn.Lemmas.HBAccess
/-! # C07 (happens-before part): the vector-clock race detector decides the declarative data-race relation

`Librfn.Model.HB.races` is the executable detector run on the logged executions of the lock-free code;
`Librfn.Spec.HBRel` defines program order, release sequences, synchronises-with, happens-before, conflicts and
races declaratively.  Here:

* `clock_invariant` / `clock_characterisation` / `released_invariant`: what the clocks mean;
* `races_sound`: if the detector reports nothing, every conflicting pair of plain accesses of different threads
  is ordered by happens-before (no false negatives) — the theorem the C07 check relies on;
* `races_complete`: every reported pair is a data race (no false positives);
* `raceFree_iff`: `raceFree tr = true` exactly when the execution has no data race. -/
namespace Librfn.C07
open Librfn.Model.HB Librfn.Spec.HBRel Librfn.C07.HBLemmas

/-- **Clock invariant.**  After the first `n` events, event `i < n` (of thread `e.tid`, the `cnt tr (i+1) e.tid`-th
event of that thread) is covered by thread `t`'s clock iff it happens before, or is, one of the first `n` events
that belong to `t`. -/
theorem clock_invariant (tr : List Ev) (n : Nat) (hn : n ≤ tr.length) (t i : Nat) (e : Ev) (hi : i < n)
    (he : tr[i]? = some e) :
    cnt tr (i + 1) e.tid ≤ vget (clockOf (stateAt tr n) t) e.tid ↔
      ∃ j f, j < n ∧ tr[j]? = some f ∧ f.tid = t ∧ (i = j ∨ HB tr i j) :=
  (clkInv_stateAt tr n hn).clk t i e hi he

/-- no clock runs ahead of the thread it counts, and a thread's own component is its number of events -/
theorem clock_bound (tr : List Ev) (n : Nat) (hn : n ≤ tr.length) (t u : Nat) :
    vget (clockOf (stateAt tr n) t) u ≤ cnt tr n u ∧ vget (clockOf (stateAt tr n) t) t = cnt tr n t :=
  ⟨(clkInv_stateAt tr n hn).bound t u, (clkInv_stateAt tr n hn).self t⟩

/-- The usual vector-clock characterisation: `C_t[u] ≥ k` iff the `k`-th event of `u` exists among the first `n`
events and happens before, or is, an event of `t` among them. -/
theorem clock_characterisation (tr : List Ev) (n : Nat) (hn : n ≤ tr.length) (t u k : Nat) (hk : 1 ≤ k) :
    k ≤ vget (clockOf (stateAt tr n) t) u ↔
      ∃ i e, i < n ∧ tr[i]? = some e ∧ e.tid = u ∧ cnt tr (i + 1) u = k ∧
        ∃ j f, j < n ∧ tr[j]? = some f ∧ f.tid = t ∧ (i = j ∨ HB tr i j) := by
  have inv := clkInv_stateAt tr n hn
  constructor
  · intro h
    obtain ⟨i, e, hi, he, hu, hc⟩ := exists_kth tr u k hk n hn (Nat.le_trans h (inv.bound t u))
    refine ⟨i, e, hi, he, hu, hc, ?_⟩
    subst hu
    exact (inv.clk t i e hi he).1 (by omega)
  · rintro ⟨i, e, hi, he, hu, hc, hkn⟩
    subst hu
    have := (inv.clk t i e hi he).2 hkn
    omega

/-- **Released-clock invariant.**  The clock stored for atomic location `l` covers exactly the events that happen
before, or are, a release-or-stronger write of `l` with no `astore` to `l` after it (a member-heading write of the
release sequence an acquire read of `l` would now read from). -/
theorem released_invariant (tr : List Ev) (n : Nat) (hn : n ≤ tr.length) (l i : Nat) (e : Ev) (hi : i < n)
    (he : tr[i]? = some e) :
    cnt tr (i + 1) e.tid ≤ vget (relOf (stateAt tr n) l) e.tid ↔
      ∃ k w, k < n ∧ tr[k]? = some w ∧ IsAW w ∧ w.ord.rel = true ∧ w.loc = l ∧ NoStoreBetween tr l k n ∧
        (i = k ∨ HB tr i k) :=
  (clkInv_stateAt tr n hn).rel l i e hi he

theorem races_eq_stateAt (tr : List Ev) : races tr = (stateAt tr tr.length).races := by
  rw [stateAt_length]; rfl

/-- DJIT+ form of soundness: a conflicting pair is ordered, or a race was reported no later than its second access -/
theorem races_sound_strong (tr : List Ev) (i j : Nat) (h : Conflict tr i j) :
    HB tr i j ∨ ∃ a b, (a, b) ∈ races tr ∧ b ≤ j := by
  have hj : j < tr.length := by
    obtain ⟨_, _, b, _, hb, _⟩ := h
    exact getElem?_lt hb
  rcases (accInv_stateAt tr tr.length (Nat.le_refl _)).sound i j hj h with h' | ⟨p, hp, hle⟩
  · exact Or.inl h'
  · exact Or.inr ⟨p.1, p.2, by rw [races_eq_stateAt]; exact hp, hle⟩

/-- **No false negatives.**  If the detector reports nothing, every pair of conflicting plain accesses from
different threads is ordered by happens-before. -/
theorem races_sound (tr : List Ev) (h : raceFree tr = true) : ∀ i j, Conflict tr i j → HB tr i j := by
  intro i j hc
  rcases races_sound_strong tr i j hc with h' | ⟨a, b, hab, _⟩
  · exact h'
  · unfold raceFree at h
    rw [List.isEmpty_iff] at h
    rw [h] at hab; cases hab

/-- **No false positives.**  Every reported pair is a data race. -/
theorem races_complete (tr : List Ev) (i j : Nat) (h : (i, j) ∈ races tr) : Race tr i j := by
  rw [races_eq_stateAt] at h
  exact ((accInv_stateAt tr tr.length (Nat.le_refl _)).complete (i, j) h).2

/-- the detector's verdict is the declarative one -/
theorem raceFree_iff (tr : List Ev) : raceFree tr = true ↔ ∀ i j, ¬ Race tr i j := by
  constructor
  · intro h i j ⟨hc, hn⟩
    exact hn (races_sound tr h i j hc)
  · intro h
    unfold raceFree
    rw [List.isEmpty_iff]
    cases hr : races tr with
    | nil => rfl
    | cons p r =>
      exact absurd (races_complete tr p.1 p.2 (by rw [hr]; exact List.mem_cons_self)) (h p.1 p.2)

/-- the first reported race is the earliest point at which the execution stops being race free: all conflicts that
end before it are ordered -/
theorem races_sound_prefix (tr : List Ev) (j : Nat) (h : ∀ a b, (a, b) ∈ races tr → j < b) :
    ∀ i j', j' ≤ j → Conflict tr i j' → HB tr i j' := by
  intro i j' hj hc
  rcases races_sound_strong tr i j' hc with h' | ⟨a, b, hab, hle⟩
  · exact h'
  · have := h a b hab; omega

/-! ## non-vacuity -/

/-- message passing: `T0: data = ..; store-release flag`   `T1: load-acquire flag; read data` -/
def mpRelAcq : List Ev :=
  [⟨0, .pwrite, 10, .relaxed⟩, ⟨0, .astore, 1, .release⟩, ⟨1, .aload, 1, .acquire⟩, ⟨1, .pread, 10, .relaxed⟩]

/-- the same with a relaxed store of the flag -/
def mpRelaxed : List Ev :=
  [⟨0, .pwrite, 10, .relaxed⟩, ⟨0, .astore, 1, .relaxed⟩, ⟨1, .aload, 1, .acquire⟩, ⟨1, .pread, 10, .relaxed⟩]

/-- release store, then a relaxed read-modify-write by a third thread continues the release sequence -/
def mpRmwContinues : List Ev :=
  [⟨0, .pwrite, 10, .relaxed⟩, ⟨0, .astore, 1, .release⟩, ⟨2, .armw, 1, .relaxed⟩, ⟨1, .aload, 1, .acquire⟩,
   ⟨1, .pread, 10, .relaxed⟩]

/-- a relaxed store by a third thread in between ends the release sequence -/
def mpStoreBreaks : List Ev :=
  [⟨0, .pwrite, 10, .relaxed⟩, ⟨0, .astore, 1, .release⟩, ⟨2, .astore, 1, .relaxed⟩, ⟨1, .aload, 1, .acquire⟩,
   ⟨1, .pread, 10, .relaxed⟩]

/-- write-after-read, two readers; the writer acquires only one reader's release -/
def twoReaders : List Ev :=
  [⟨0, .pread, 10, .relaxed⟩, ⟨1, .pread, 10, .relaxed⟩, ⟨0, .armw, 1, .release⟩, ⟨2, .armw, 1, .acquire⟩,
   ⟨2, .pwrite, 10, .relaxed⟩]

example : raceFree mpRelAcq = true := by decide
example : races mpRelaxed = [(0, 3)] := by decide
example : raceFree mpRmwContinues = true := by decide
example : races mpStoreBreaks = [(0, 4)] := by decide
example : races twoReaders = [(1, 4)] := by decide

/-- the hypotheses of `races_sound` are satisfiable with a non-empty conflict set, and the conclusion is the
expected chain `po ; sw ; po` -/
example : Conflict mpRelAcq 0 3 :=
  ⟨by omega, _, _, rfl, rfl, Or.inr rfl, Or.inl rfl, rfl, by decide, Or.inl rfl⟩
example : HB mpRelAcq 0 3 :=
  races_sound mpRelAcq (by decide) 0 3 ⟨by omega, _, _, rfl, rfl, Or.inr rfl, Or.inl rfl, rfl, by decide, Or.inl rfl⟩
example : HB mpRelAcq 0 3 :=
  HB.trans (j := 1) (HB.po ⟨by omega, _, _, rfl, rfl, rfl⟩)
    (HB.trans (j := 2) (HB_of_swFlat ⟨by omega, _, _, rfl, rfl, Or.inl rfl, rfl, Or.inl rfl, rfl, rfl,
      fun m e h1 h2 _ => by omega⟩) (HB.po ⟨by omega, _, _, rfl, rfl, rfl⟩))
/-- and the declarative relation really has races: with the relaxed store, `(0, 3)` is one -/
example : Race mpRelaxed 0 3 := races_complete mpRelaxed 0 3 (by decide)
example : Race mpStoreBreaks 0 4 := races_complete mpStoreBreaks 0 4 (by decide)
example : ¬ raceFree mpRelaxed = true := by decide

end Librfn.C07

import Librfn.Model.Console
import Librfn.Spec.Console
import Librfn.Lemmas.ConsoleTok
import Librfn.Lemmas.ConsoleTable
import Librfn.Lemmas.ConsoleInv
import Librfn.Lemmas.ConsoleEdit
import Librfn.Lemmas.ConsoleRound
import Librfn.Lemmas.ConsoleSplit
import Librfn.Lemmas.ConsoleDeliver
import Librfn.Lemmas.ConsoleSorted
import Librfn.Lemmas.ConsoleE2E
/-!
# C15 — console line editing, tokenising and dispatch are exact and memory-safe

Model: `Librfn.Model.Console` (hand transcription of `console.c` after the fixes of D7 and D8; tied to
the C by the correspondence run).  Spec: `Librfn.Spec.Console` (edit stack, line completion, render /
tokenise round trip, sorted association list).  All theorems are kernel-only (no `bv_decide`).

A *history* (`Op`) is any interleaving of registrations, `console_process`, `console_putchar`,
scheduler runs, direct `console_run` calls, resumptions of `console_eval` and `console_silent`, of any
length, with any bytes — the safety theorems quantify over all of them.
-/
namespace Librfn.C15
open Librfn.Model.Console Librfn.Gen.Layout
open Librfn.Lemmas.ConsoleTok Librfn.Lemmas.ConsoleTable Librfn.Lemmas.ConsoleInv

/-- the facts about the generated layout constants the proofs rely on (a change of `console.h` that
    breaks one of them breaks the build, which the check reports) -/
theorem layout_ok : bufSize = 80 ∧ bufSize ≤ scratchSize ∧ ringLen = 16 ∧ argvLen = 4 ∧ tableCap = 32 := by decide

/-! ## buffer_safe -/

/-- **buffer_safe**: after every history — any bytes, any delivery mechanism, any registrations —
    the cursor is inside `buf[0..79]`, every single-byte store the console ever made (editing *and*
    tokenising) went to `buf[0..78]`, nothing left the scratch union (`fault`), the union kept its
    size, and whenever the console is not inside a command `buf[79]` and everything from the cursor on
    is NUL; the table keeps its sentinel-terminated shape inside its 32 slots. -/
theorem buffer_safe (ops : List Op) (hok : ∀ op ∈ ops, OpOk op) :
    let w := runOps boot ops
    w.s.bufp ≤ 79 ∧ (∀ o ∈ w.s.wlog, o < 79) ∧ w.s.fault = false ∧ w.s.mem.length = scratchSize ∧
    (w.s.fpt ≠ 2 → w.s.mem.getD 79 0 = 0 ∧ ∀ j, w.s.bufp ≤ j → w.s.mem.getD j 0 = 0) ∧
    w.s.ring.length ≤ 15 ∧ w.tab.length = tableCap ∧
    ∃ named, TableOk w.tab named cmdUnknown := by
  obtain ⟨named, ht, h⟩ := runOps_inv ops boot hok _ _ initTable_ok (init_inv _)
  refine ⟨h.bufp, h.wlog, h.nofault, h.memlen, fun hf => ⟨h.clean hf 79 h.bufp, h.clean hf⟩, ?_, ?_, named, ht⟩
  · have := h.ring; have := ringLen_eq; omega
  · rw [ht.shape]; exact mkTable_length _ _ ht.fits

set_option maxRecDepth 100000 in
/-- non-vacuity: a history that registers, types, erases, completes lines by all three mechanisms -/
example : (runOps boot [.register ⟨some [99], .script 0 1 false true⟩, .process 99, .process 120, .process 8,
    .putchar 32, .sched, .eval [99, 10, 99, 10]]).s.fault = false := by decide

/-- **the tokeniser writes only inside `[1, strlen)`** (and only NULs), leaves everything from the
    terminator on untouched and keeps the size of the memory -/
theorem tokenizer_writes_inside (mem : List Byte) (argv : List (Option Nat)) (len : Nat)
    (_hlen : strlen? mem = some len) (ha : argv.length = 4) :
    let t := tokenizeMem mem argv len
    (∀ o ∈ t.wr, 1 ≤ o ∧ o < len) ∧ (∀ j, len ≤ j → t.mem.getD j 0 = mem.getD j 0) ∧
    (∀ j, t.mem.getD j 0 ≠ mem.getD j 0 → t.mem.getD j 0 = 0) ∧ t.mem.length = mem.length := by
  have h := tokenizeMem_inv mem argv len ha
  exact ⟨h.hwr, h.hframe, h.hzero, h.hlen⟩

/-! ## args_wellformed -/

/-- **args_wellformed**: for every buffer holding a string of length `len` (inside the memory),
    after `do_tokenize` `1 ≤ argc ≤ 4`; every `argv[i]` is an offset `≤ len`, for `0 < i < argc`
    strictly inside the line; the string at every `argv[i]` ends at or before `len` (the terminator
    of the line is still there), and `argv[argc..3]` all point at that terminator: empty strings. -/
theorem args_wellformed (mem : List Byte) (argv : List (Option Nat)) (len : Nat)
    (hlen : strlen? mem = some len) (ha : argv.length = 4) :
    let t := tokenizeMem mem argv len
    let av := padArgv t.argv t.argc len
    1 ≤ t.argc ∧ t.argc ≤ 4 ∧ av.length = 4 ∧ t.mem.getD len 0 = 0 ∧
    (∀ i, i < 4 → ∃ o, av.getD i none = some o ∧ o ≤ len ∧
        (∃ k, strlen? (t.mem.drop o) = some k ∧ o + k ≤ len) ∧
        (0 < i → i < t.argc → 0 < o ∧ o < len) ∧ (t.argc ≤ i → o = len ∧ cstr t.mem o = [])) := by
  have h := tokenizeMem_inv mem argv len ha
  obtain ⟨hl1, hl2, _⟩ := strlen_spec mem len hlen
  have hz : (tokenizeMem mem argv len).mem.getD len 0 = 0 := by rw [h.hframe len (Nat.le_refl _)]; exact hl2
  have hstr : ∀ o, o ≤ len → ∃ k, strlen? ((tokenizeMem mem argv len).mem.drop o) = some k ∧ o + k ≤ len := by
    intro o ho
    have hlt : len - o < ((tokenizeMem mem argv len).mem.drop o).length := by
      rw [List.length_drop, h.hlen]; omega
    have hzz : ((tokenizeMem mem argv len).mem.drop o).getD (len - o) 0 = 0 := by
      rw [List.getD_eq_getElem?_getD, List.getElem?_drop, ← List.getD_eq_getElem?_getD]
      rw [show o + (len - o) = len by omega]; exact hz
    obtain ⟨k, hk1, hk2⟩ := strlen_exists _ _ hlt hzz
    exact ⟨k, hk1, by omega⟩
  refine ⟨h.hargc1, h.hargc4, padArgv_length _ _ _, hz, ?_⟩
  intro i hi
  rw [padArgv_getD _ _ _ i hi]
  by_cases hia : i < (tokenizeMem mem argv len).argc
  · rw [if_pos hia]
    obtain ⟨o, ho1, ho2, ho3⟩ := h.hargv i hia
    exact ⟨o, ho1, ho2, hstr o ho2, fun h0 _ => ho3 h0, fun hge => absurd hia (by omega)⟩
  · rw [if_neg hia]
    refine ⟨len, rfl, Nat.le_refl _, hstr len (Nat.le_refl _), fun _ h2 => absurd h2 hia, fun _ => ⟨rfl, ?_⟩⟩
    unfold cstr
    have : ((tokenizeMem mem argv len).mem.drop len) = 0 :: ((tokenizeMem mem argv len).mem.drop (len + 1)) := by
      have hlt : len < (tokenizeMem mem argv len).mem.length := by rw [h.hlen]; exact hl1
      rw [List.drop_eq_getElem_cons hlt]
      congr 1
      have := hz
      rw [List.getD_eq_getElem?_getD, List.getElem?_eq_getElem hlt] at this
      simpa using this
    rw [this]
    simp [List.takeWhile]

/-- non-vacuity: `cap  a "b c" d e` gives 4 arguments, the fourth takes the rest -/
example : (tokenizeMem ([99, 97, 112, 32, 32, 97, 32, 34, 98, 32, 99, 34, 32, 100, 32, 101, 0, 0]) [none, none, none, none] 16).argc = 4 := by decide

/-! ## dispatch_exact, register_full_clean -/

/-- the table after registering `cmds` in this order at boot (`none` never happens, see `registerAll_ok`) -/
def registerAll : Table → List Cmd → Table
  | tab, [] => tab
  | tab, c :: rest => match register tab c with
    | some (t, _) => registerAll t rest
    | none => registerAll tab rest

/-- every command has a name and no two different commands share one -/
def NamesInj (l : List Cmd) : Prop :=
  (∀ c ∈ l, c.name ≠ none) ∧ ∀ c ∈ l, ∀ c' ∈ l, c.name = c'.name → c = c'

theorem findSpec_inj (a : List Byte) (snt c : Cmd) (named : List Cmd) (hd : NamesInj named) (hm : c ∈ named)
    (hn : c.name = some a) : findSpec a snt named = c := by
  rcases findSpec_mem a snt named with ⟨_, h2⟩ | ⟨h1, h2⟩
  · exact absurd hn (h2 c hm)
  · exact hd.2 _ h1 _ hm (h2.trans hn.symm)

/-- registering commands in any order (as long as there is room) keeps the table well-formed; its
    named part then holds exactly the old and the new commands -/
theorem registerAll_ok (snt : Cmd) : ∀ (cmds : List Cmd) (tab : Table) (named : List Cmd),
    TableOk tab named snt → (∀ c ∈ cmds, c.name ≠ none) → named.length + cmds.length < tableCap →
    ∃ named', TableOk (registerAll tab cmds) named' snt ∧
      (∀ c, c ∈ named' ↔ c ∈ cmds ∨ c ∈ named) ∧ named'.length = named.length + cmds.length
  | [], tab, named, ht, _, _ => ⟨named, ht, fun c => by simp, by simp⟩
  | c :: rest, tab, named, ht, hd, hroom => by
    have hcn : c.name ≠ none := hd c (List.mem_cons_self ..)
    cases hname : c.name with
    | none => exact absurd hname hcn
    | some nm =>
      simp only [List.length_cons] at hroom
      obtain ⟨hr, hok⟩ := register_room tab named snt c nm ht (by omega) hname
      have hi := insIdx_le nm named
      have hmem : ∀ x, x ∈ named.take (insIdx nm named) ++ c :: named.drop (insIdx nm named) ↔ x = c ∨ x ∈ named := by
        intro x
        constructor
        · intro hx
          rcases List.mem_append.mp hx with hx | hx
          · exact Or.inr (List.mem_of_mem_take hx)
          · rcases List.mem_cons.mp hx with rfl | hx
            · exact Or.inl rfl
            · exact Or.inr (List.mem_of_mem_drop hx)
        · intro hx
          rcases hx with rfl | hx
          · exact List.mem_append_right _ (List.mem_cons_self ..)
          · rw [← List.take_append_drop (insIdx nm named) named] at hx
            rcases List.mem_append.mp hx with hx | hx
            · exact List.mem_append_left _ hx
            · exact List.mem_append_right _ (List.mem_cons_of_mem _ hx)
      have hlen : (named.take (insIdx nm named) ++ c :: named.drop (insIdx nm named)).length = named.length + 1 := by
        simp [List.length_take, List.length_drop]; omega
      obtain ⟨named', h1, h3, h4⟩ := registerAll_ok snt rest _ _ hok (fun x hx => hd x (List.mem_cons_of_mem _ hx)) (by rw [hlen]; omega)
      refine ⟨named', ?_, ?_, ?_⟩
      · simp only [registerAll, hr]; exact h1
      · intro x
        rw [h3 x, hmem x]
        simp only [List.mem_cons]
        constructor
        · rintro (h | h | h)
          · exact Or.inl (Or.inr h)
          · exact Or.inl (Or.inl h)
          · exact Or.inr h
        · rintro ((h | h) | h)
          · exact Or.inr (Or.inl h)
          · exact Or.inl h
          · exact Or.inr (Or.inr h)
      · rw [h4, hlen]; simp only [List.length_cons]; omega

/-- **dispatch_exact**: register any commands with distinct names (none called `echo` or `help`), in
    any order, at most 29 of them; then for every buffer whose `argv[0]` string is `a`,
    `find_command` selects the command registered under exactly the name `a` if there is one, the
    built-in `echo`/`help` for their names, and otherwise the sentinel (which prints "Unknown/bad
    command" for a non-empty `a` and nothing for an empty line) — never a command with another name. -/
theorem dispatch_exact (cmds : List Cmd) (hinj : NamesInj (cmds ++ [cmdEcho, cmdHelp]))
    (hroom : cmds.length + 2 < tableCap) (s : St) (o : Nat) (h0 : s.argv.getD 0 none = some o) :
    let s' := findCommand (registerAll initTable cmds) s
    s'.fault = s.fault ∧
    (∀ c ∈ cmds ++ [cmdEcho, cmdHelp], c.name = some (cstr s.mem o) → s'.cmd = some c) ∧
    ((∀ c ∈ cmds ++ [cmdEcho, cmdHelp], c.name ≠ some (cstr s.mem o)) → s'.cmd = some cmdUnknown) := by
  obtain ⟨named', ht, hmem, _⟩ := registerAll_ok cmdUnknown cmds initTable [cmdEcho, cmdHelp] initTable_ok
    (fun c hc => hinj.1 c (List.mem_append_left _ hc)) (by simp; omega)
  have hinj' : NamesInj named' := by
    refine ⟨fun c hc => hinj.1 c (List.mem_append.mpr ((hmem c).mp hc)), ?_⟩
    intro c hc c' hc' he
    exact hinj.2 c (List.mem_append.mpr ((hmem c).mp hc)) c' (List.mem_append.mpr ((hmem c').mp hc')) he
  have hfl := findLoop_mkTable (cstr s.mem o) cmdUnknown ht.sentinel (tableCap - named'.length - 1) named' ht.names
  have hshape : registerAll initTable cmds = named'.map some ++ some cmdUnknown :: List.replicate (tableCap - named'.length - 1) none := ht.shape
  have hfc : findCommand (registerAll initTable cmds) s = { s with cmd := some (findSpec (cstr s.mem o) cmdUnknown named'), ran := s.ran ++ [(some (findSpec (cstr s.mem o) cmdUnknown named'), argStrings s)] } := by
    unfold findCommand
    simp only [h0, hshape, hfl]
  rw [hfc]
  refine ⟨rfl, ?_, ?_⟩
  · intro c hc hn
    show some (findSpec (cstr s.mem o) cmdUnknown named') = some c
    rw [findSpec_inj _ _ c named' hinj' ((hmem c).mpr (List.mem_append.mp hc)) hn]
  · intro hnone
    show some (findSpec (cstr s.mem o) cmdUnknown named') = some cmdUnknown
    rcases findSpec_mem (cstr s.mem o) cmdUnknown named' with ⟨h1, _⟩ | ⟨h1, h2⟩
    · rw [h1]
    · exact absurd h2 (hnone _ (List.mem_append.mpr ((hmem _).mp h1)))

/-- non-vacuity: `cap`, `ca`, `c` registered in this order; the line `ca` runs `ca` -/
example : (findCommand (registerAll initTable [⟨some [99, 97, 112], .script 0 0 false false⟩, ⟨some [99, 97], .script 1 0 false false⟩,
    ⟨some [99], .script 2 0 false false⟩]) { init with argv := [some 0, none, none, none], mem := [99, 97, 0] }).cmd
    = some ⟨some [99, 97], .script 1 0 false false⟩ := by decide

/-- **register_full_clean**: in every reachable table (any history), `console_register` either
    inserts (return value 0, one more entry, still well-formed) or — exactly when the 32 slots hold 31
    named commands and the sentinel — returns −1 and leaves the table unchanged; the table never has
    more than 32 slots.  From boot (echo, help, sentinel) that is the 30th user registration. -/
theorem register_full_clean (ops : List Op) (hok : ∀ op ∈ ops, OpOk op) (cmd : Cmd) (hname : cmd.name ≠ none) :
    let w := runOps boot ops
    ∃ named, TableOk w.tab named cmdUnknown ∧
      (named.length + 1 = tableCap → register w.tab cmd = some (w.tab, -1)) ∧
      (named.length + 1 < tableCap → ∃ t' named', register w.tab cmd = some (t', 0) ∧ TableOk t' named' cmdUnknown ∧
          named'.length = named.length + 1 ∧ t'.length = tableCap) := by
  obtain ⟨named, ht, _⟩ := runOps_inv ops boot hok _ _ initTable_ok (init_inv _)
  refine ⟨named, ht, fun hfull => register_full _ named _ cmd ht hfull, fun hroom => ?_⟩
  cases hn : cmd.name with
  | none => exact absurd hn hname
  | some nm =>
    obtain ⟨hr, hok'⟩ := register_room _ named cmdUnknown cmd nm ht hroom hn
    have hi := insIdx_le nm named
    have hlen : (named.take (insIdx nm named) ++ cmd :: named.drop (insIdx nm named)).length = named.length + 1 := by
      simp [List.length_take, List.length_drop]; omega
    exact ⟨_, _, hr, hok', hlen, by rw [mkTable_length _ _ (by rw [hlen]; omega)]⟩

/-- the 30th registration after boot fails, the 29th succeeds (concrete count) -/
example : let cmds := (List.range 30).map fun i => (⟨some [65 + i], .script i 0 false false⟩ : Cmd)
    (register (registerAll initTable (cmds.take 29)) (cmds.getD 29 cmdEcho)).map (·.2) = some (-1) ∧
    (register (registerAll initTable (cmds.take 28)) (cmds.getD 28 cmdEcho)).map (·.2) = some 0 := by decide

/-! ## line_is_edit -/

open Librfn.Lemmas.ConsoleEdit in
/-- **line_is_edit** (every history, every delivery mechanism, NUL-free bytes): the texts handed to
    `do_tokenize` so far are exactly the lines the specification completes when the characters the
    console has taken out of the ring are fed to the edit stack (push / backspace pops / Ctrl-C
    clears; complete at newline or on the character arriving when 79 are stored); and whenever the
    console is not inside a command the line buffer holds exactly the line being edited — cursor at its
    end, NULs from there to the end of the scratch union. -/
theorem line_is_edit (ops : List Op) (hok : ∀ op ∈ ops, OpNZ op) :
    let w := runOps boot ops
    w.s.lines = (Librfn.Spec.Console.feedAll ⟨[], []⟩ w.s.eaten).done ∧
    (w.s.fpt ≠ 2 → AtPrompt w.s (Librfn.Spec.Console.feedAll ⟨[], []⟩ w.s.eaten).cur) ∧
    (w.s.fpt = 2 → (Librfn.Spec.Console.feedAll ⟨[], []⟩ w.s.eaten).cur = []) := by
  have h := runOps_abs ops boot hok init_abs
  exact ⟨h.lines, h.idle, h.busy⟩

open Librfn.Lemmas.ConsoleEdit Librfn.Spec.Console in
/-- in the property's words: if, since the last completion, the keystrokes `chars` arrived without
    completing the line and then `ch` completes it, the line completed is `edit chars` -/
theorem completed_line_is_edit (done : List (List Nat)) (chars : List Nat) (ch : Nat)
    (hno : NoCompletion [] chars) (hc : completes (edit chars) ch) :
    feedAll ⟨done, []⟩ (chars ++ [ch]) = ⟨done ++ [edit chars], []⟩ := by
  unfold feedAll
  rw [List.foldl_append]
  have := feedAll_noCompletion chars done [] hno
  unfold feedAll at this
  rw [this]
  show feed ⟨done, chars.foldl editStep []⟩ ch = _
  unfold feed
  rw [if_pos (show completes (⟨done, chars.foldl editStep []⟩ : Lines).cur ch from hc)]
  rfl

set_option maxRecDepth 100000 in
/-- the D7 witness, now a theorem about the fixed code: `c a p x ⌫ ⏎` hands `cap` to the tokeniser -/
example : (runOps boot [.process 99, .process 97, .process 112, .process 120, .process 8, .process 10]).s.lines
    = [[99, 97, 112]] := by decide

/-- Ctrl-C, backspace at the start of a line, and a line completed by the 80th character -/
example : Librfn.Spec.Console.edit [120, 3, 8, 97, 98, 8] = [97] := by decide

/-! ## the tokeniser: fourth_takes_rest, tokenize_roundtrip, unquoted_simple_split -/

/-- **fourth_takes_rest** (observation O1, not a defect): whenever `do_tokenize` finds four tokens it
    stops at the first character of the fourth; nothing from that character on is modified, so
    `argv[3]` is the raw remainder of the line (later words, inner blanks, a closing quote). -/
theorem fourth_takes_rest (mem : List Byte) (argv : List (Option Nat)) (len : Nat)
    (hlen : strlen? mem = some len) (ha : argv.length = 4) :
    (tokenizeMem mem argv len).argc = 4 →
      ∃ o, (padArgv (tokenizeMem mem argv len).argv (tokenizeMem mem argv len).argc len).getD 3 none = some o ∧
      1 ≤ o ∧ o < len ∧ (tokenizeMem mem argv len).mem.drop o = mem.drop o ∧
      cstr (tokenizeMem mem argv len).mem o = (mem.take len).drop o := by
  intro h4
  generalize ht : tokenizeMem mem argv len = t at h4 ⊢
  have hinv : TokInv mem len t := ht ▸ tokenizeMem_inv mem argv len ha
  obtain ⟨hl1, hl2, hl3⟩ := strlen_spec mem len hlen
  have hrest : ∃ o, 1 ≤ o ∧ t.argv.getD 3 none = some o ∧ ∀ j, o ≤ j → t.mem.getD j 0 = mem.getD j 0 := by
    have := tokLoop_rest mem (len - 1) 1 { mem := mem, quote := 0, argc := 1, argv := argv.set 0 (some 0), wr := [] }
      (fun _ _ => rfl) (by show 1 < 4; omega) (by simp [ha]) (by
        have : tokLoop (len - 1) 1 { mem := mem, quote := 0, argc := 1, argv := argv.set 0 (some 0), wr := [] } = t := ht
        rw [this]; exact h4)
    have e : tokLoop (len - 1) 1 { mem := mem, quote := 0, argc := 1, argv := argv.set 0 (some 0), wr := [] } = t := ht
    rw [e] at this
    exact this
  obtain ⟨o, o1, o2, o3⟩ := hrest
  have hpad : (padArgv t.argv t.argc len).getD 3 none = some o := by
    rw [padArgv_getD _ _ _ 3 (by omega), if_pos (by omega)]; exact o2
  obtain ⟨o', ho', _, ho3⟩ := hinv.hargv 3 (by omega)
  have heq : o' = o := by rw [o2] at ho'; injection ho' with h; exact h.symm
  subst heq
  have hlt : o' < len := (ho3 (by omega)).2
  have hdrop : t.mem.drop o' = mem.drop o' := by
    apply List.ext_getElem
    · rw [List.length_drop, List.length_drop, hinv.hlen]
    · intro j h1 h2
      rw [List.getElem_drop, List.getElem_drop]
      have := o3 (o' + j) (by omega)
      rw [List.length_drop] at h1 h2
      rw [List.getD_eq_getElem?_getD, List.getD_eq_getElem?_getD,
        List.getElem?_eq_getElem (by omega), List.getElem?_eq_getElem (by omega)] at this
      simpa using this
  refine ⟨o', hpad, o1, hlt, hdrop, ?_⟩
  unfold cstr
  rw [hdrop]
  -- the line is NUL-free up to `len` and has its NUL at `len`
  have hsplit : mem.drop o' = (mem.take len).drop o' ++ 0 :: mem.drop (len + 1) := by
    have h1 : mem = mem.take len ++ mem.drop len := (List.take_append_drop len mem).symm
    have h2 : mem.drop len = 0 :: mem.drop (len + 1) := by
      rw [List.drop_eq_getElem_cons hl1]
      congr 1
      have := hl2
      rw [List.getD_eq_getElem?_getD, List.getElem?_eq_getElem hl1] at this
      simpa using this
    conv => lhs; rw [h1]
    rw [List.drop_append_of_le_length (by rw [List.length_take]; omega), h2]
  rw [hsplit]
  apply Librfn.Lemmas.ConsoleRound.takeWhile_nz
  intro b hb
  obtain ⟨k, hk, rfl⟩ := List.getElem_of_mem hb
  rw [List.getElem_drop, List.getElem_take]
  rw [List.length_drop, List.length_take] at hk
  have := hl3 (o' + k) (by omega)
  rw [List.getD_eq_getElem?_getD, List.getElem?_eq_getElem (by omega)] at this
  simpa using this

/-- `cap a b "c d"`: the fourth argument is `c d"` -/
example : let t := tokenizeMem ([99, 97, 112, 32, 97, 32, 98, 32, 34, 99, 32, 100, 34, 0]) [none, none, none, none] 13
    t.argc = 4 ∧ cstr t.mem 9 = [99, 32, 100, 34] := by decide

open Librfn.Spec.Console in
/-- the strings a command sees: `argv[0..argc-1]` read as C strings -/
def tokensOf (t : Tok) (len : Nat) : List (List Nat) :=
  (List.range t.argc).map fun i => match (padArgv t.argv t.argc len).getD i none with
    | some o => cstr t.mem o
    | none => []

open Librfn.Spec.Console in
/-- the render / tokenise round trip as DESIGN.md words it: a command word, at most two further items
    (words without blanks/quotes, or non-empty strings quoted by a quote character they do not contain —
    they may start with the *other* quote character), separated by any positive amount of blanks,
    optionally followed by blanks and a final word — whatever follows the line's terminator in the
    buffer and whatever `argv` held before: the tokens are exactly the items -/
def TokenizeRoundtrip : Prop :=
  ∀ (cmd : List Nat) (args : List (List Nat × Item)) (final : Option (List Nat × List Nat))
    (tail : List Nat) (argv0 : List (Option Nat)),
    Word cmd → (∀ a ∈ args, Blanks a.1 ∧ a.2.Ok) → args.length ≤ 2 →
    (∀ f, final = some f → Blanks f.1 ∧ Word f.2) → argv0.length = 4 →
    tokensOf (tokenizeMem (render cmd args final ++ 0 :: tail) argv0 (render cmd args final).length)
      (render cmd args final).length = texts cmd args final

open Librfn.Spec.Console Librfn.Lemmas.ConsoleScan Librfn.Lemmas.ConsoleSeg Librfn.Lemmas.ConsoleRound in
/-- **tokenize_roundtrip** at full strength (holds since the fix 15aaa9d of defect D11; for the code
    before it see `d11_old_tokenizer_mangles_nested_quote`) -/
theorem tokenize_roundtrip : TokenizeRoundtrip := by
  intro cmd args final tail argv0 hcmd hargs hn hfinal ha
  obtain ⟨hne, hall⟩ := hcmd
  cases cmd with
  | nil => exact absurd rfl hne
  | cons c0 w' =>
    have hc0 := hall c0 (List.mem_cons_self ..)
    have hline : render (c0 :: w') args final = c0 :: (w' ++ (renderArgs args ++ finalR final)) := by
      unfold render finalR
      cases final with
      | none => simp
      | some f => obtain ⟨sep, w⟩ := f; simp
    have hlen : (render (c0 :: w') args final).length = (w' ++ (renderArgs args ++ finalR final)).length + 1 := by
      rw [hline]; rfl
    rw [hlen]
    have hmem : render (c0 :: w') args final ++ 0 :: tail = c0 :: (w' ++ (renderArgs args ++ finalR final)) ++ 0 :: tail := by
      rw [hline]
    rw [hmem]
    obtain ⟨m1, m2, m3⟩ := tokenizeMem_scan c0 (w' ++ (renderArgs args ++ finalR final)) tail argv0
    -- the rest of the command word is copied
    obtain ⟨a0, _⟩ := scan_copy w' (sc0 c0 argv0) rfl (nz_of_printable c0 hc0.1) (by
      intro b hb
      have hb' := hall b (List.mem_cons_of_mem _ hb)
      exact ⟨nz_of_printable b hb'.1, nz_of_printable b hb'.1, fun x => not_isspace_of_printable b hb'.1 x.1⟩)
    have hl0 : (scan (sc0 c0 argv0) w').argv.length = argvLen := by
      rw [a0.argv]; show (argv0.set 0 (some 0)).length = argvLen; rw [List.length_set, ha, argvLen_eq]
    have hargc0 : (scan (sc0 c0 argv0) w').argc = 1 := a0.argc
    obtain ⟨x, i1, i2, i3, i4, i5, i6⟩ := scan_args args final (scan (sc0 c0 argv0) w') a0.brk a0.quote hl0 hargs
      (by rw [hargc0, argvLen_eq]; omega) hfinal
    rw [scan_append] at m1 m2 m3
    -- now compare token by token
    have hout : (scan (scan (sc0 c0 argv0) w') (renderArgs args ++ finalR final)).out = (c0 :: w') ++ x := by
      rw [i1, a0.out]; rfl
    have htexts : texts (c0 :: w') args final = (c0 :: w') :: argTexts args final := by
      rfl
    rw [htexts]
    unfold tokensOf
    rw [m2, i3, hargc0]
    apply List.ext_getElem?
    intro i
    by_cases hi : i < 1 + (argTexts args final).length
    · rw [List.getElem?_map, List.getElem?_range hi]
      simp only [Option.map_some]
      have hT : (argTexts args final).length ≤ 3 := by
        unfold argTexts
        cases final with
        | none => simp; omega
        | some f => simp; omega
      rw [padArgv_getD _ _ _ i (by omega)]
      rw [if_pos hi, m3, m1]
      cases i with
      | zero =>
        have h0 : (scan (scan (sc0 c0 argv0) w') (renderArgs args ++ finalR final)).argv.getD 0 none = some 0 := by
          rw [i5 0 (by rw [hargc0]; omega), a0.argv]
          show (argv0.set 0 (some 0)).getD 0 none = some 0
          simp [List.getD_eq_getElem?_getD, ha]
        rw [h0, hout]
        simp only [List.getElem?_cons_zero]
        congr 1
        rcases i2 with rfl | ⟨y, rfl⟩
        · have := cstr_at [] (c0 :: w') tail (fun b hb => nz_of_printable b (hall b hb).1)
          simpa using this
        · have := cstr_at [] (c0 :: w') (y ++ 0 :: tail) (fun b hb => nz_of_printable b (hall b hb).1)
          simpa using this
      | succ j =>
        have hj : j < (argTexts args final).length := by omega
        obtain ⟨p, q1, q2⟩ := i6 j _ (List.getElem?_eq_getElem hj)
        rw [hargc0] at q1
        rw [show j + 1 = 1 + j by omega, q1]
        simp only []
        rw [q2 tail, show 1 + j = j + 1 by omega, List.getElem?_cons_succ, List.getElem?_eq_getElem hj]
    · rw [List.getElem?_eq_none (by simp; omega), List.getElem?_eq_none (by simp; omega)]

/-- the strings a command saw with the tokeniser as it was before 15aaa9d -/
def tokensOfOld (mem : List Byte) (len : Nat) : List (List Nat) :=
  tokensOf (tokenizeMemOld mem [none, none, none, none] len) len

/-- **defect D11 (fixed by 15aaa9d), kernel-checked on the old variant of the loop**: the line
    `cap "'a"` gave `argv[1] = a"` with the old code; the current code gives `'a`.  The same line is
    the regression witness `corpus/C15/d11_nested_quote.json`, replayed on the real code every run. -/
theorem d11_old_tokenizer_mangles_nested_quote :
    tokensOfOld [99, 97, 112, 32, 34, 39, 97, 34, 0] 8 = [[99, 97, 112], [97, 34]] ∧
    tokensOf (tokenizeMem [99, 97, 112, 32, 34, 39, 97, 34, 0] [none, none, none, none] 8) 8 = [[99, 97, 112], [39, 97]] := by
  decide

open Librfn.Spec.Console in
/-- the blank-separated words of a non-empty line without quote characters whose first character is
    not a blank are its tokens: the first three exactly (from the fourth word on `argv[3]` is the raw
    rest, see `fourth_takes_rest`), and `argc` is their number, capped at four -/
def UnquotedSimpleSplit : Prop :=
  ∀ (line tail : List Nat) (argv0 : List (Option Nat)),
    line ≠ [] → (∀ b ∈ line, (printable b ∧ ¬ isQuote b) ∨ blank b) → (∀ b, line.head? = some b → ¬ blank b) →
    argv0.length = 4 →
    (tokensOf (tokenizeMem (line ++ 0 :: tail) argv0 line.length) line.length).take 3 = (splitBlanks line).take 3 ∧
    (tokenizeMem (line ++ 0 :: tail) argv0 line.length).argc = min 4 (splitBlanks line).length

theorem tokensOf_length (t : Tok) (len : Nat) : (tokensOf t len).length = t.argc := by simp [tokensOf]

open Librfn.Lemmas.ConsoleScan Librfn.Lemmas.ConsoleSplit in
/-- from the fold's token facts to the strings the command sees -/
theorem tokens_assemble (c0 : Nat) (rest tail : List Nat) (argv0 : List (Option Nat)) (E : List (List Nat))
    (h : Tok3 (scan (sc0 c0 argv0) rest) E) (hA : (scan (sc0 c0 argv0) rest).argc ≤ 4) :
    (tokensOf (tokenizeMem (c0 :: rest ++ 0 :: tail) argv0 (rest.length + 1)) (rest.length + 1)).take E.length = E := by
  obtain ⟨m1, m2, m3⟩ := tokenizeMem_scan c0 rest tail argv0
  apply List.ext_getElem?
  intro i
  by_cases hi : i < E.length
  · have hia : i < (scan (sc0 c0 argv0) rest).argc := Nat.lt_of_lt_of_le hi h.elen
    obtain ⟨p, q1, q2⟩ := h.tok i _ (List.getElem?_eq_getElem hi)
    rw [List.getElem?_take_of_lt hi]
    unfold tokensOf
    rw [List.getElem?_map, List.getElem?_range (by rw [m2]; exact hia)]
    simp only [Option.map_some]
    rw [padArgv_getD _ _ _ i (by omega), m2, if_pos hia, m3, q1]
    simp only []
    rw [m1, q2 tail, List.getElem?_eq_getElem hi]
  · rw [List.getElem?_eq_none (by rw [List.length_take]; omega), List.getElem?_eq_none (by omega)]

open Librfn.Spec.Console Librfn.Lemmas.ConsoleScan Librfn.Lemmas.ConsoleSplit in
/-- **unquoted_simple_split**, in general: any number of words, any separators, trailing blanks -/
theorem unquoted_simple_split : UnquotedSimpleSplit := by
  intro line tail argv0 hne hall hhead ha
  cases line with
  | nil => exact absurd rfl hne
  | cons c0 rest0 =>
    have hc0b : ¬ blank c0 := hhead c0 rfl
    -- the command word and what follows it
    have e1 := spanP_eq nonBlankB rest0
    have f1 := spanP_fst nonBlankB rest0
    have hsub1 : ∀ x ∈ (spanP nonBlankB rest0).1, WB x := fun x hx =>
      hall x (List.mem_cons_of_mem _ (by rw [← e1]; exact List.mem_append_left _ hx))
    have hsub2 : ∀ x ∈ (spanP nonBlankB rest0).2, WB x := fun x hx =>
      hall x (List.mem_cons_of_mem _ (by rw [← e1]; exact List.mem_append_right _ hx))
    have hword : Word (c0 :: (spanP nonBlankB rest0).1) := by
      apply word_of_nonblank _ (by simp)
      · intro b hb
        rcases List.mem_cons.mp hb with rfl | hb
        · exact hall _ (List.mem_cons_self ..)
        · exact hsub1 b hb
      · intro b hb
        rcases List.mem_cons.mp hb with rfl | hb
        · unfold nonBlankB isBlankB; simp [hc0b]
        · exact f1 b hb
    obtain ⟨pairs, trail, p1, p2, p3⟩ := exists_decomp _ (spanP nonBlankB rest0).2 (Nat.le_refl _) hsub2 (by
      rcases spanP_snd nonBlankB rest0 with h | ⟨c', t'', h, hc'⟩
      · exact Or.inl h
      · refine Or.inr ⟨c', t'', h, ?_⟩
        unfold nonBlankB at hc'
        exact blank_of_isBlankB c' (by simpa using hc'))
    have hflat : flat pairs = flat (pairs.take 2) ++ flat (pairs.drop 2) := by
      rw [← flat_append, List.take_append_drop]
    have hrest : rest0 = (spanP nonBlankB rest0).1 ++ (flat (pairs.take 2) ++ (flat (pairs.drop 2) ++ trail)) := by
      conv => lhs; rw [← e1, p1, hflat]
      simp
    -- the specification side
    have hspec : splitBlanks (c0 :: rest0) = (c0 :: (spanP nonBlankB rest0).1) :: pairs.map (·.2) := by
      unfold splitBlanks
      have hl : c0 :: rest0 = (c0 :: (spanP nonBlankB rest0).1) ++ (flat pairs ++ trail) := by
        conv => lhs; rw [← e1, p1]
        simp
      rw [hl, splitGo_word _ [] _ (word_nonblank _ hword), List.nil_append]
      exact splitGo_blocks pairs _ trail (by simp) p2 p3
    -- the tokeniser side
    have hpre : ∀ a ∈ pairs.take 2, Blanks a.1 ∧ Word a.2 := fun a ha' => p2 a (List.mem_of_mem_take ha')
    have hpost : ∀ a ∈ pairs.drop 2, Blanks a.1 ∧ Word a.2 := fun a ha' => p2 a (List.mem_of_mem_drop ha')
    have hprelen : (pairs.take 2).length ≤ 2 := by rw [List.length_take]; omega
    obtain ⟨t1, t2, t3, t4⟩ := tok3_of_args c0 (spanP nonBlankB rest0).1 argv0 (pairs.take 2) hword hpre hprelen ha
    have h3 : pairs.drop 2 ≠ [] → (scan (scan (sc0 c0 argv0) (spanP nonBlankB rest0).1) (flat (pairs.take 2))).argc = 3 := by
      intro hd
      have : 2 < pairs.length := by
        rcases Nat.lt_or_ge 2 pairs.length with h | h
        · exact h
        · exact absurd (List.drop_eq_nil_of_le h) hd
      rw [t2, List.length_take]; omega
    obtain ⟨u1, u2⟩ := tok3_final _ _ (pairs.drop 2) trail t1 t3 t4 hpost p3 h3
    have hscan : scan (sc0 c0 argv0) rest0 = scan (scan (scan (sc0 c0 argv0) (spanP nonBlankB rest0).1) (flat (pairs.take 2)))
        (flat (pairs.drop 2) ++ trail) := by
      conv => lhs; rw [hrest]
      rw [scan_append, scan_append]
    rw [← hscan] at u1 u2
    have hargc_le : (scan (sc0 c0 argv0) rest0).argc ≤ 4 := by
      rw [u2]; split
      · rw [t2]; omega
      · exact Nat.le_refl _
    have hasm := tokens_assemble c0 rest0 tail argv0 _ u1 hargc_le
    obtain ⟨_, m2, _⟩ := tokenizeMem_scan c0 rest0 tail argv0
    have hlen : (c0 :: rest0).length = rest0.length + 1 := rfl
    rw [hlen, hspec]
    have hmem : c0 :: rest0 ++ 0 :: tail = c0 :: rest0 ++ 0 :: tail := rfl
    have hE : ((c0 :: (spanP nonBlankB rest0).1) :: pairs.map (·.2)).take 3 =
        (c0 :: (spanP nonBlankB rest0).1) :: (pairs.take 2).map (·.2) := by
      rw [List.take_succ_cons, List.map_take]
    have hElen : ((c0 :: (spanP nonBlankB rest0).1) :: (pairs.take 2).map (·.2)).length = 1 + (pairs.take 2).length := by
      simp; omega
    rw [hElen] at hasm
    refine ⟨?_, ?_⟩
    · rw [hE, ← hasm]
      by_cases hd : pairs.drop 2 = []
      · -- fewer than four words: the token list has exactly that many entries
        have hA : (tokenizeMem (c0 :: rest0 ++ 0 :: tail) argv0 (rest0.length + 1)).argc = 1 + (pairs.take 2).length := by
          rw [m2, u2, if_pos hd, t2]
        rw [List.take_of_length_le (by rw [tokensOf_length, hA]; omega),
          List.take_of_length_le (by rw [tokensOf_length, hA]; omega)]
      · have : 2 < pairs.length := by
          rcases Nat.lt_or_ge 2 pairs.length with h | h
          · exact h
          · exact absurd (List.drop_eq_nil_of_le h) hd
        have : (pairs.take 2).length = 2 := by rw [List.length_take]; omega
        rw [this]
    · rw [m2, u2]
      simp only [List.length_cons, List.length_map]
      by_cases hd : pairs.drop 2 = []
      · rw [if_pos hd, t2]
        have : pairs.length ≤ 2 := by
          rcases Nat.lt_or_ge 2 pairs.length with h | h
          · have : (pairs.drop 2).length = pairs.length - 2 := List.length_drop
            rw [hd] at this; simp at this; omega
          · exact h
        rw [List.length_take]; omega
      · rw [if_neg hd]
        have : 2 < pairs.length := by
          rcases Nat.lt_or_ge 2 pairs.length with h | h
          · exact h
          · exact absurd (List.drop_eq_nil_of_le h) hd
        omega

/-- non-vacuity of the round trip: `set  "a b"	'x"y' z` -/
example : tokensOf (tokenizeMem ([115, 101, 116, 32, 32, 34, 97, 32, 98, 34, 9, 39, 120, 34, 121, 39, 32, 122, 0, 7, 7]) [none, none, none, none] 18) 18
    = [[115, 101, 116], [97, 32, 98], [120, 34, 121], [122]] := by decide

/-! ## delivery: process_delivers_all, putchar_delivers_if_drained, eval_executes_once_and_completes

`eaten` is the sequence of characters `console_run` has taken out of the ring; by `line_is_edit` the
lines executed are a function of `eaten` alone, so "same `eaten`" means "same lines, same commands,
each once".  `stuck` is the flag a fuel-bounded loop of the model would set if its fuel ran out. -/

open Librfn.Lemmas.ConsoleDeliver in
/-- **process_delivers_all**: in every reachable state in which the console is not inside a command,
    `console_process(d)` terminates (the model's loop bound is never reached), leaves the console
    waiting at its prompt with an empty ring, and `console_run` has consumed — in order, each once —
    everything that was in the ring followed by `d` (if the ring had room for `d`; with the ring
    drained, as between two `console_process` calls, always). -/
theorem process_delivers_all (ops : List Op) (hok : ∀ op ∈ ops, OpOk op) (d : Byte) :
    let w := runOps boot ops
    w.s.fpt ≠ 2 →
    (process w.tab w.s d).stuck = w.s.stuck ∧ (process w.tab w.s d).ring = [] ∧ (process w.tab w.s d).fpt = 1 ∧
    (process w.tab w.s d).eaten = w.s.eaten ++ (ringPut w.s.ring d).1 ∧
    (w.s.ring.length + 1 < ringLen → (process w.tab w.s d).eaten = w.s.eaten ++ w.s.ring ++ [d]) := by
  intro w hf
  obtain ⟨named, ht, h⟩ := runOps_dinv ops boot hok _ _ initTable_ok (init_dinv _)
  obtain ⟨_, a2, a3, a4, a5, _⟩ := process_deliver _ w.tab named cmdUnknown w.s d ht rfl h hf
  refine ⟨a5, a2, a3, a4, fun hroom => ?_⟩
  rw [a4]
  unfold ringPut
  rw [if_neg (by omega)]
  simp

open Librfn.Lemmas.ConsoleDeliver in
/-- **putchar_delivers_if_drained**: in every reachable state in which the console is not inside a
    command, if `console_putchar` is called for characters `cs` while at most 15 are outstanding
    (those already in the ring included), the next scheduler run terminates and the console consumes
    all of them, in order, each once, and ends waiting with an empty ring.  (Beyond 15 outstanding
    the ring drops characters: that is the ring's contract, property C05.) -/
theorem putchar_delivers_if_drained (ops : List Op) (hok : ∀ op ∈ ops, OpOk op) (cs : List Byte) :
    let w := runOps boot ops
    w.s.fpt ≠ 2 → cs ≠ [] → w.s.ring.length + cs.length ≤ 15 →
    let s' := sched w.tab (cs.foldl putchar w.s)
    s'.stuck = w.s.stuck ∧ s'.ring = [] ∧ s'.fpt = 1 ∧ s'.eaten = w.s.eaten ++ w.s.ring ++ cs := by
  intro w hf hne hroom
  obtain ⟨named, ht, h⟩ := runOps_dinv ops boot hok _ _ initTable_ok (init_dinv _)
  have hrl := ringLen_eq
  obtain ⟨p1, p2, p3, p4, p5⟩ := putchars_room cs w.s (by omega)
  have hlen : cs.length ≠ 0 := by
    cases cs with
    | nil => exact absurd rfl hne
    | cons c r => simp
  obtain ⟨_, a2, a3, a4, a5, _, _⟩ := sched_deliver _ w.tab named cmdUnknown (cs.foldl putchar w.s) ht rfl
    (putchars_dinv _ cs w.s h) (by rw [p3]; exact hf) (p5 hlen)
  exact ⟨by rw [a5, p4], a2, a3, by rw [a4, p2, p1, List.append_assoc]⟩

open Librfn.Lemmas.ConsoleDeliver in
/-- **eval_executes_once_and_completes** (the D8 property, now a theorem about the fixed code): in
    every reachable state with the console waiting and the ring drained, `console_eval` of any
    NUL-free string — any number of lines, any length below 65536 (its cursor is a `uint16_t`) —
    driven as a protothread with the console fibre run in between *completes* within the model's
    iteration bound, and the console has consumed exactly the characters of the string, in order,
    each once; so (by `line_is_edit`) every line of it is executed exactly once. -/
theorem eval_executes_once_and_completes (ops : List Op) (hok : ∀ op ∈ ops, OpOk op) (str : List Byte)
    (hnz : ∀ b ∈ str, b ≠ 0) (hlen : str.length < 65536) :
    let w := runOps boot ops
    w.s.fpt ≠ 2 → w.s.ring = [] →
    ∃ k, (eval w.tab str w.s).2 = some k ∧ (eval w.tab str w.s).1.stuck = w.s.stuck ∧
      (eval w.tab str w.s).1.ring = [] ∧ (eval w.tab str w.s).1.fpt = 1 ∧
      (eval w.tab str w.s).1.eaten = w.s.eaten ++ str := by
  intro w hf hring
  obtain ⟨named, ht, h⟩ := runOps_dinv ops boot hok _ _ initTable_ok (init_dinv _)
  obtain ⟨k, a1, _, a3, a4, a5, a6⟩ := eval_deliver _ w.tab named cmdUnknown str w.s ht rfl hnz hlen h hf hring
  exact ⟨k, a1, a6, a3, a4, a5⟩

set_option maxRecDepth 100000 in
/-- the D8 witness on the model of the fixed code: three lines, 18 characters, two resumptions; each
    line is handed to the tokeniser once -/
example : let r := eval (registerAll initTable [⟨some [99], .script 0 0 false false⟩]) [99, 32, 97, 10, 99, 32, 98, 10, 99, 32, 99, 10, 99, 32, 100, 10, 99, 10] init
    r.2 = some 2 ∧ r.1.lines = [[99, 32, 97], [99, 32, 98], [99, 32, 99], [99, 32, 100], [99]] ∧ r.1.stuck = false := by decide

/-! ## register_keeps_sorted, dispatch_first_registered: any names, duplicates, beyond capacity -/

/-- a sequence of `console_register` calls: the final table and the commands that were accepted
    (return value 0), in the order of the calls -/
def registerLog : Table → List Cmd → Table × List Cmd
  | tab, [] => (tab, [])
  | tab, c :: rest =>
    match register tab c with
    | some (t, rc) => ((registerLog t rest).1, if rc = 0 then c :: (registerLog t rest).2 else (registerLog t rest).2)
    | none => registerLog tab rest

open Librfn.Lemmas.ConsoleSorted in
theorem registerLog_inv (snt : Cmd) : ∀ (cmds : List Cmd) (tab : Table) (named : List Cmd),
    TableOk tab named snt → SortedNames named → (∀ c ∈ cmds, c.name ≠ none) →
    ∃ named', TableOk (registerLog tab cmds).1 named' snt ∧ SortedNames named' ∧
      named'.Perm (named ++ (registerLog tab cmds).2) ∧
      (∀ (a : List Byte) (dflt : Cmd), findSpec a dflt named' = findSpec a dflt (named ++ (registerLog tab cmds).2)) ∧
      (registerLog tab cmds).2 = cmds.take (tableCap - 1 - named.length)
  | [], tab, named, ht, hs, _ => ⟨named, ht, hs, by simp [registerLog], fun a d => by simp [registerLog], by simp [registerLog]⟩
  | c :: rest, tab, named, ht, hs, hn => by
    have hcn := hn c (List.mem_cons_self ..)
    have hfits := ht.fits
    cases hname : c.name with
    | none => exact absurd hname hcn
    | some nm =>
      by_cases hroom : named.length + 1 < tableCap
      · obtain ⟨hr, hok⟩ := register_room tab named snt c nm ht hroom hname
        have hi := insIdx_le nm named
        have hlen : (named.take (insIdx nm named) ++ c :: named.drop (insIdx nm named)).length = named.length + 1 := by
          simp [List.length_take, List.length_drop]; omega
        obtain ⟨named', i1, i2, i3, i4, i5⟩ := registerLog_inv snt rest _ _ hok
          (insert_sorted named c nm snt ht.names hs hname).1 (fun x hx => hn x (List.mem_cons_of_mem _ hx))
        have hlog : registerLog tab (c :: rest) =
            ((registerLog (mkTable (named.take (insIdx nm named) ++ c :: named.drop (insIdx nm named)) snt) rest).1,
              c :: (registerLog (mkTable (named.take (insIdx nm named) ++ c :: named.drop (insIdx nm named)) snt) rest).2) := by
          simp only [registerLog, hr]
          rfl
        rw [hlog]
        refine ⟨named', i1, i2, ?_, ?_, ?_⟩
        · refine i3.trans ?_
          have := (insert_sorted named c nm snt ht.names hs hname).2.1
          refine (this.append_right _).trans ?_
          simp
        · intro a dflt
          rw [i4 a dflt, findSpec_append, (insert_sorted named c nm _ ht.names hs hname).2.2 a, ← findSpec_append]
          simp
        · rw [i5, hlen]
          have : tableCap - 1 - named.length = (tableCap - 1 - (named.length + 1)) + 1 := by omega
          rw [this, List.take_succ_cons]
      · have hfull : named.length + 1 = tableCap := by omega
        have hr := register_full tab named snt c ht hfull
        obtain ⟨named', i1, i2, i3, i4, i5⟩ := registerLog_inv snt rest tab named ht hs (fun x hx => hn x (List.mem_cons_of_mem _ hx))
        have hlog : registerLog tab (c :: rest) = ((registerLog tab rest).1, (registerLog tab rest).2) := by
          simp only [registerLog, hr]
          rfl
        rw [hlog]
        refine ⟨named', i1, i2, i3, i4, ?_⟩
        rw [i5]
        have : tableCap - 1 - named.length = 0 := by omega
        rw [this]; simp

open Librfn.Lemmas.ConsoleSorted in
/-- **register_keeps_sorted**: after *any* sequence of `console_register` calls from boot (any names,
    duplicates allowed, more calls than the table has room for) the table is the array shape
    `named ++ [sentinel] ++ NULLs` of 32 slots, its named entries are in non-decreasing `strcmp` order,
    they are a permutation of `echo`, `help` and exactly the accepted commands, and the accepted
    commands are exactly the first 29 of the calls (every later call returned −1, table untouched). -/
theorem register_keeps_sorted (cmds : List Cmd) (hn : ∀ c ∈ cmds, c.name ≠ none) :
    ∃ named, TableOk (registerLog initTable cmds).1 named cmdUnknown ∧ SortedNames named ∧
      named.Perm ([cmdEcho, cmdHelp] ++ (registerLog initTable cmds).2) ∧
      (registerLog initTable cmds).2 = cmds.take 29 ∧ (registerLog initTable cmds).1.length = tableCap := by
  obtain ⟨named, h1, h2, h3, _, h5⟩ := registerLog_inv cmdUnknown cmds initTable [cmdEcho, cmdHelp] initTable_ok init_sorted hn
  refine ⟨named, h1, h2, h3, h5, ?_⟩
  rw [h1.shape]; exact mkTable_length _ _ h1.fits

open Librfn.Lemmas.ConsoleSorted in
/-- **dispatch_first_registered** (`dispatch_exact` without the distinct-names hypothesis): after any
    sequence of registrations, `find_command` selects — for the string `a` at `argv[0]` — `echo` or
    `help` for their names, otherwise the **first registered** of the accepted commands whose name is
    exactly `a` (a later registration under the same name is in the table but is never found: it is
    inserted after its equals), and the sentinel when no accepted command has that name.  The sorted
    order of the table is irrelevant to the answer: it is a linear search in order of registration. -/
theorem dispatch_first_registered (cmds : List Cmd) (hn : ∀ c ∈ cmds, c.name ≠ none) (s : St) (o : Nat)
    (h0 : s.argv.getD 0 none = some o) :
    findCommand (registerLog initTable cmds).1 s =
      { s with cmd := some (findSpec (cstr s.mem o) cmdUnknown ([cmdEcho, cmdHelp] ++ cmds.take 29)), ran := s.ran ++ [(some (findSpec (cstr s.mem o) cmdUnknown ([cmdEcho, cmdHelp] ++ cmds.take 29)), argStrings s)] } := by
  obtain ⟨named, ht, _, _, h4, h5⟩ := registerLog_inv cmdUnknown cmds initTable [cmdEcho, cmdHelp] initTable_ok init_sorted hn
  have hfl := findLoop_mkTable (cstr s.mem o) cmdUnknown ht.sentinel (tableCap - named.length - 1) named ht.names
  have hshape : (registerLog initTable cmds).1 = named.map some ++ some cmdUnknown :: List.replicate (tableCap - named.length - 1) none := ht.shape
  unfold findCommand
  simp only [h0, hshape, hfl]
  rw [h4, h5]
  rfl

/-- duplicates: `x` registered twice (ids 0 and 1) — both are in the table, the first one is found -/
example : let t := (registerLog initTable [⟨some [120], .script 0 0 false false⟩, ⟨some [97], .script 2 0 false false⟩,
      ⟨some [120], .script 1 0 false false⟩]).1
    (findCommand t { init with argv := [some 0, none, none, none], mem := [120, 0] }).cmd = some ⟨some [120], .script 0 0 false false⟩ ∧
    t.take 6 = [some ⟨some [97], .script 2 0 false false⟩, some cmdEcho, some cmdHelp, some ⟨some [120], .script 0 0 false false⟩,
      some ⟨some [120], .script 1 0 false false⟩, some cmdUnknown] := by decide

/-! ## overflowing bursts -/

open Librfn.Lemmas.ConsoleDeliver in
/-- **putchar_delivers_exactly_accepted**: in every reachable state in which the console is not inside
    a command, after *any* burst `cs` of `console_putchar` calls (however long) and the next scheduler
    run, the console has consumed — in order, each once — what was in the ring followed by exactly
    those characters of the burst for which `ringbuf_put` returned true; those are the first
    `15 − fill` characters of the burst, every later one was dropped by the ring (`ringbuf_put`
    returned false); the run terminates with the console waiting and the ring empty. -/
theorem putchar_delivers_exactly_accepted (ops : List Op) (hok : ∀ op ∈ ops, OpOk op) (cs : List Byte) :
    let w := runOps boot ops
    w.s.fpt ≠ 2 → cs ≠ [] →
    let s' := sched w.tab (cs.foldl putchar w.s)
    s'.stuck = w.s.stuck ∧ s'.ring = [] ∧ s'.fpt = 1 ∧
    s'.eaten = w.s.eaten ++ w.s.ring ++ acceptedOf cs (putLog w.s.ring cs).2 ∧
    acceptedOf cs (putLog w.s.ring cs).2 = cs.take (15 - w.s.ring.length) := by
  intro w hf hne
  obtain ⟨named, ht, h⟩ := runOps_dinv ops boot hok _ _ initTable_ok (init_dinv _)
  have hrl := ringLen_eq
  obtain ⟨p1, p2, p3, p4, p5⟩ := putchars_log cs w.s
  obtain ⟨_, a2, a3, a4, a5, _, _⟩ := sched_deliver _ w.tab named cmdUnknown (cs.foldl putchar w.s) ht rfl
    (putchars_dinv _ cs w.s h) (by rw [p3]; exact hf) (p5 hne)
  have hacc := accepted_take cs w.s.ring h.inv.ring
  refine ⟨by rw [a5, p4], a2, a3, ?_, ?_⟩
  · rw [a4, p2, p1, putLog_ring, List.append_assoc]
  · rw [hacc, hrl]

open Librfn.Lemmas.ConsoleDeliver in
/-- **process_never_drops**: in every reachable state in which the console is not inside a command
    and the ring has room for one character, *any* sequence of `console_process` calls (any length) is
    consumed completely, in order, each character once (the ring is drained by every call, so no put
    ever fails); all the loops terminate.  For `console_eval` the same is
    `eval_executes_once_and_completes` (it yields instead of dropping when the ring is full). -/
theorem process_never_drops (ops : List Op) (hok : ∀ op ∈ ops, OpOk op) (d : Byte) (cs : List Byte) :
    let w := runOps boot ops
    w.s.fpt ≠ 2 → w.s.ring.length + 1 < ringLen →
    let s' := (d :: cs).foldl (process w.tab) w.s
    s'.stuck = w.s.stuck ∧ s'.ring = [] ∧ s'.eaten = w.s.eaten ++ w.s.ring ++ d :: cs := by
  intro w hf hroom
  obtain ⟨named, ht, h⟩ := runOps_dinv ops boot hok _ _ initTable_ok (init_dinv _)
  obtain ⟨a1, a2, a3, a4, a5, _⟩ := process_deliver _ w.tab named cmdUnknown w.s d ht rfl h hf
  obtain ⟨_, b2, _, b4, b5⟩ := processes_deliver _ w.tab named cmdUnknown ht rfl cs (process w.tab w.s d) a1 (by rw [a3]; decide) a2
  simp only [List.foldl_cons]
  refine ⟨by rw [b5, a5], b2, ?_⟩
  rw [b4, a4]
  unfold ringPut
  rw [if_neg (by omega)]
  simp

/-! ## end to end: lines in, commands with their arguments out -/

open Librfn.Lemmas.ConsoleE2E Librfn.Lemmas.ConsoleEdit Librfn.Lemmas.ConsoleDeliver Librfn.Spec.Console in
/-- the common core: from a reachable idle state `s`, an operation that moves the logs in lockstep,
    keeps the refinement and consumes exactly `input` starts exactly the commands of the lines that
    `input` completes, and leaves the line being edited in the buffer -/
theorem e2e_core (tab : Table) (s s' : St) (input : List Nat) (hls : LS tab s s') (h : Abs s) (h' : Abs s')
    (he : s'.eaten = s.eaten ++ input) (hidle : s'.fpt ≠ 2) :
    s'.ran = s.ran ++ (feedAll ⟨[], (feedAll ⟨[], []⟩ s.eaten).cur⟩ input).done.map (dispatchSpec tab) ∧
    s'.lines = s.lines ++ (feedAll ⟨[], (feedAll ⟨[], []⟩ s.eaten).cur⟩ input).done ∧
    AtPrompt s' (feedAll ⟨[], (feedAll ⟨[], []⟩ s.eaten).cur⟩ input).cur := by
  obtain ⟨r1, r2⟩ := ran_of_ls tab s s' input hls h h' he
  refine ⟨r1, r2, ?_⟩
  have hat := h'.idle hidle
  have hL : L s' = feedAll (L s) input := by unfold L feedAll; rw [he, List.foldl_append]
  rw [hL, (feedAll_done input (L s).done (L s).cur).2] at hat
  exact hat

open Librfn.Lemmas.ConsoleE2E Librfn.Lemmas.ConsoleEdit Librfn.Lemmas.ConsoleDeliver Librfn.Spec.Console in
/-- **console_end_to_end** (the headline sentence of C15, for `console_process`): take any reachable
    state in which the console is not inside a command (any history of registrations and deliveries
    before, NUL-free), and any NUL-free stream `d :: cs` given to `console_process` character by
    character.  With `cur` the line being edited before and `input` = what was still in the ring
    followed by the stream:

    * the commands the console **starts** during the stream (`ran`: the command found by
      `find_command` together with the strings `argv[0..argc-1]` it is handed), in order, are exactly
      `dispatchSpec tab line` for the lines `line` that the edit-stack specification completes on
      `input` — one start per completed line, nothing else, nothing twice;
    * every started command has also **finished**: all loops terminate (`stuck` untouched) and the
      console is back at its prompt (`fpt = 1`) with the ring empty — so each was run exactly once;
    * the texts handed to the tokeniser are those lines, and the buffer holds the still incomplete line;
    * memory safety along the way: cursor ≤ 79, every single-byte store at an offset < 79, nothing left
      the scratch union.

    `dispatchSpec tab line = (find_command's answer for the first token, lineTokens line)`, where
    `lineTokens line` is `do_tokenize` applied to the line alone; what those tokens are is the subject
    of `args_wellformed`, `tokenize_roundtrip`, `unquoted_simple_split`, `fourth_takes_rest` (see
    `lineTokens_eq`), and what `find_command` answers of `dispatch_first_registered`
    (see `dispatchSpec_registered`). -/
theorem console_end_to_end (ops : List Op) (hok : ∀ op ∈ ops, OpOk op) (hnz : ∀ op ∈ ops, OpNZ op)
    (d : Nat) (cs : List Nat) (hin : ∀ b ∈ d :: cs, b ≠ 0) :
    let w := runOps boot ops
    w.s.fpt ≠ 2 → w.s.ring.length + 1 < ringLen →
    let s' := (d :: cs).foldl (process w.tab) w.s
    let cur := (feedAll ⟨[], []⟩ w.s.eaten).cur
    let input := w.s.ring ++ d :: cs
    s'.ran = w.s.ran ++ (feedAll ⟨[], cur⟩ input).done.map (dispatchSpec w.tab) ∧
    s'.lines = w.s.lines ++ (feedAll ⟨[], cur⟩ input).done ∧
    AtPrompt s' (feedAll ⟨[], cur⟩ input).cur ∧
    s'.ring = [] ∧ s'.fpt = 1 ∧ s'.stuck = w.s.stuck ∧
    s'.bufp ≤ 79 ∧ s'.fault = false ∧ (∀ o ∈ s'.wlog, o < 79) ∧ s'.mem.length = scratchSize := by
  intro w hf hroom s' cur input
  obtain ⟨named, ht, h⟩ := runOps_dinv ops boot hok _ _ initTable_ok (init_dinv _)
  have habs := runOps_abs ops boot hnz init_abs
  have hls := processes_ls _ w.tab named cmdUnknown ht rfl (d :: cs) w.s habs h.inv hin
  obtain ⟨a1, a2, a3, a4, a5, _⟩ := process_deliver _ w.tab named cmdUnknown w.s d ht rfl h hf
  obtain ⟨b1, b2, b3, b4, b5⟩ := processes_deliver _ w.tab named cmdUnknown ht rfl cs (process w.tab w.s d) a1 (by rw [a3]; decide) a2
  have b6 := processes_fpt1 _ w.tab named cmdUnknown ht rfl cs (process w.tab w.s d) a1 a3 a2
  have habs' : Abs s' := by
    show Abs ((d :: cs).foldl (process w.tab) w.s)
    have : ∀ (l : List Nat) (s : St), Abs s → (∀ b ∈ l, b ≠ 0) → Abs (l.foldl (process w.tab) s) := by
      intro l
      induction l with
      | nil => intro s hs _; exact hs
      | cons c r ih =>
        intro s hs hz
        simp only [List.foldl_cons]
        exact ih _ (process_abs w.tab s c hs (hz c (List.mem_cons_self ..))) (fun b hb => hz b (List.mem_cons_of_mem _ hb))
    exact this _ _ habs hin
  have he : s'.eaten = w.s.eaten ++ input := by
    show ((d :: cs).foldl (process w.tab) w.s).eaten = _
    simp only [List.foldl_cons]
    rw [b4, a4]
    unfold ringPut
    rw [if_neg (by omega)]
    simp [input]
  have hfpt : s'.fpt = 1 := by show ((d :: cs).foldl (process w.tab) w.s).fpt = 1; simp only [List.foldl_cons]; exact b6
  obtain ⟨c1, c2, c3⟩ := e2e_core w.tab w.s s' input hls habs habs' he (by rw [hfpt]; decide)
  have hinv : Librfn.Lemmas.ConsoleInv.Inv named.length s' := by
    show Librfn.Lemmas.ConsoleInv.Inv named.length ((d :: cs).foldl (process w.tab) w.s)
    simp only [List.foldl_cons]; exact b1.inv
  refine ⟨c1, c2, c3, ?_, hfpt, ?_, hinv.bufp, hinv.nofault, hinv.wlog, hinv.memlen⟩
  · show ((d :: cs).foldl (process w.tab) w.s).ring = []; simp only [List.foldl_cons]; exact b2
  · show ((d :: cs).foldl (process w.tab) w.s).stuck = _; simp only [List.foldl_cons]; rw [b5, a5]

open Librfn.Lemmas.ConsoleE2E Librfn.Lemmas.ConsoleEdit Librfn.Lemmas.ConsoleDeliver Librfn.Spec.Console in
/-- **console_end_to_end_putchar**: the same for a burst of `console_putchar` calls while at most 15
    characters are outstanding, followed by a scheduler run -/
theorem console_end_to_end_putchar (ops : List Op) (hok : ∀ op ∈ ops, OpOk op) (hnz : ∀ op ∈ ops, OpNZ op)
    (cs : List Nat) (hin : ∀ b ∈ cs, b ≠ 0) :
    let w := runOps boot ops
    w.s.fpt ≠ 2 → cs ≠ [] → w.s.ring.length + cs.length ≤ 15 →
    let s' := sched w.tab (cs.foldl putchar w.s)
    let cur := (feedAll ⟨[], []⟩ w.s.eaten).cur
    let input := w.s.ring ++ cs
    s'.ran = w.s.ran ++ (feedAll ⟨[], cur⟩ input).done.map (dispatchSpec w.tab) ∧
    s'.lines = w.s.lines ++ (feedAll ⟨[], cur⟩ input).done ∧
    AtPrompt s' (feedAll ⟨[], cur⟩ input).cur ∧
    s'.ring = [] ∧ s'.fpt = 1 ∧ s'.stuck = w.s.stuck ∧
    s'.bufp ≤ 79 ∧ s'.fault = false ∧ (∀ o ∈ s'.wlog, o < 79) := by
  intro w hf hne hroom s' cur input
  obtain ⟨named, ht, h⟩ := runOps_dinv ops boot hok _ _ initTable_ok (init_dinv _)
  have habs := runOps_abs ops boot hnz init_abs
  have hrl := ringLen_eq
  obtain ⟨p1, p2, p3, p4, p5⟩ := putchars_room cs w.s (by omega)
  have hlen : cs.length ≠ 0 := by
    cases cs with
    | nil => exact absurd rfl hne
    | cons c r => simp
  obtain ⟨d1, a2, a3, a4, a5, _, _⟩ := sched_deliver _ w.tab named cmdUnknown (cs.foldl putchar w.s) ht rfl
    (putchars_dinv _ cs w.s h) (by rw [p3]; exact hf) (p5 hlen)
  have habs1 := putchars_abs cs w.s habs hin
  have hinv1 := putchars_inv _ cs w.s h.inv
  obtain ⟨q1, q2⟩ := putchars_frame cs w.s
  have hls : LS w.tab w.s s' := (LS.refl' w.tab w.s _ q1 q2).trans (schedLoop_ls _ w.tab named cmdUnknown ht rfl _ _ habs1 hinv1)
  have habs' : Abs s' := schedLoop_abs w.tab _ _ habs1
  have he : s'.eaten = w.s.eaten ++ input := by
    show (sched w.tab (cs.foldl putchar w.s)).eaten = _
    rw [a4, p2, p1]
  obtain ⟨c1, c2, c3⟩ := e2e_core w.tab w.s s' input hls habs habs' he (by show (sched _ _).fpt ≠ 2; rw [a3]; decide)
  exact ⟨c1, c2, c3, a2, a3, by show (sched _ _).stuck = _; rw [a5, p4], d1.inv.bufp, d1.inv.nofault, d1.inv.wlog⟩

open Librfn.Lemmas.ConsoleE2E Librfn.Lemmas.ConsoleEdit Librfn.Lemmas.ConsoleDeliver Librfn.Spec.Console in
/-- **console_end_to_end_eval**: the same for `console_eval` of a NUL-free string (any number of lines,
    length below 65536) driven to completion from a console with its ring drained; it completes -/
theorem console_end_to_end_eval (ops : List Op) (hok : ∀ op ∈ ops, OpOk op) (hnz : ∀ op ∈ ops, OpNZ op)
    (str : List Nat) (hin : ∀ b ∈ str, b ≠ 0) (hlen : str.length < 65536) :
    let w := runOps boot ops
    w.s.fpt ≠ 2 → w.s.ring = [] →
    let r := eval w.tab str w.s
    let cur := (feedAll ⟨[], []⟩ w.s.eaten).cur
    (∃ k, r.2 = some k) ∧
    r.1.ran = w.s.ran ++ (feedAll ⟨[], cur⟩ str).done.map (dispatchSpec w.tab) ∧
    r.1.lines = w.s.lines ++ (feedAll ⟨[], cur⟩ str).done ∧
    AtPrompt r.1 (feedAll ⟨[], cur⟩ str).cur ∧
    r.1.ring = [] ∧ r.1.fpt = 1 ∧ r.1.stuck = w.s.stuck ∧
    r.1.bufp ≤ 79 ∧ r.1.fault = false ∧ (∀ o ∈ r.1.wlog, o < 79) := by
  intro w hf hring r cur
  obtain ⟨named, ht, h⟩ := runOps_dinv ops boot hok _ _ initTable_ok (init_dinv _)
  have habs := runOps_abs ops boot hnz init_abs
  obtain ⟨k, a1, a2, a3, a4, a5, a6⟩ := eval_deliver _ w.tab named cmdUnknown str w.s ht rfl hin hlen h hf hring
  have hls : LS w.tab w.s r.1 := evalDrive_ls _ w.tab named cmdUnknown str ht rfl _ _ _ _ habs h.inv
  have habs' : Abs r.1 := evalDrive_abs w.tab str _ _ _ _ habs
  obtain ⟨c1, c2, c3⟩ := e2e_core w.tab w.s r.1 str hls habs habs' a5 (by show (eval _ _ _).1.fpt ≠ 2; rw [a4]; decide)
  exact ⟨⟨k, a1⟩, c1, c2, c3, a3, a4, a6, a2.inv.bufp, a2.inv.nofault, a2.inv.wlog⟩

/-! ### what `dispatchSpec` is -/

theorem tokensOf_eq (t : Tok) (len : Nat) : tokensOf t len = Librfn.Lemmas.ConsoleE2E.tokStrings t len := rfl

open Librfn.Lemmas.ConsoleE2E in
/-- the arguments of a line that fits the buffer are the tokens all the tokeniser theorems speak of
    (`tokenize_roundtrip`, `unquoted_simple_split`, `args_wellformed`, `fourth_takes_rest` with the
    buffer `line ++ 0 :: zeros`) -/
theorem lineTokens_eq (line : List Byte) (h : line.length < scratchSize) :
    lineTokens line = tokensOf (tokenizeMem (line ++ 0 :: List.replicate (scratchSize - line.length - 1) 0)
      [none, none, none, none] line.length) line.length := by
  unfold lineTokens lineMem
  have : List.replicate (scratchSize - line.length) (0 : Byte) = 0 :: List.replicate (scratchSize - line.length - 1) 0 := by
    have e : scratchSize - line.length = (scratchSize - line.length - 1) + 1 := by omega
    conv => lhs; rw [e, List.replicate_succ]
  rw [this]
  rfl

open Librfn.Lemmas.ConsoleE2E Librfn.Lemmas.ConsoleSorted in
/-- on the table produced by any sequence of registrations, the command of a line is the first
    registered command (after `echo` and `help`) named exactly like the line's first token, else the
    sentinel (`unknown`: prints "Unknown/bad command" unless the token is empty) -/
theorem dispatchSpec_registered (cmds : List Cmd) (hn : ∀ c ∈ cmds, c.name ≠ none) (line : List Byte) :
    (dispatchSpec (registerLog initTable cmds).1 line).1 =
      some (findSpec ((lineTokens line).headD []) cmdUnknown ([cmdEcho, cmdHelp] ++ cmds.take 29)) := by
  obtain ⟨named, ht, _, _, h4, h5⟩ := registerLog_inv cmdUnknown cmds initTable [cmdEcho, cmdHelp] initTable_ok init_sorted hn
  have hfl := findLoop_mkTable ((lineTokens line).headD []) cmdUnknown ht.sentinel (tableCap - named.length - 1) named ht.names
  have hshape : (registerLog initTable cmds).1 = named.map some ++ some cmdUnknown :: List.replicate (tableCap - named.length - 1) none := ht.shape
  unfold dispatchSpec
  rw [hshape, hfl, h4, h5]
  rfl

open Librfn.Lemmas.ConsoleE2E in
/-- concrete: `x  "a b"⌫c` + newline typed into a console with `x` registered starts `x` once with the
    arguments `x`, `a bc`… — here the whole pipeline on the model, and an empty line starts `unknown`
    with the single empty argument -/
example : dispatchSpec initTable [] = (some cmdUnknown, [[]]) ∧
    dispatchSpec initTable [101, 99, 104, 111, 32, 34, 97, 32, 98, 34] = (some cmdEcho, [[101, 99, 104, 111], [97, 32, 98]]) := by
  decide

set_option maxRecDepth 100000 in
/-- non-vacuity of the end-to-end statement on a real run: `e c h o ⌫ o ␠ ' a ' ⏎ ⏎` -/
example : ((([101, 99, 104, 111, 8, 111, 32, 39, 97, 39, 10, 10] : List Byte).foldl (process initTable) init).ran)
    = [(some cmdEcho, [[101, 99, 104, 111], [97]]), (some cmdUnknown, [[]])] := by decide

end Librfn.C15

import Librfn.Model.Console
namespace Librfn.C15
open Librfn.Model.Console Librfn.Gen.Layout

/-- the facts about the generated layout constants the proofs rely on -/
theorem layout_ok : bufSize = 80 ∧ bufSize ≤ scratchSize ∧ ringLen = 16 ∧ argvLen = 4 ∧ tableCap = 32 := by decide

end Librfn.C15

import Librfn.Gen.MainLoopSeq
import Librfn.Model.MainLoop
import Std.Tactic.BVDecide
/-!
# C03 — tie T for one iteration of the POSIX main loop (`librfn/posix/fibre_posix.c`)

`Librfn.Gen.MainLoopSeq.fibre_scheduler_main_loop` is regenerated on every run by `tools/c2lean2.py` from the loop body
(`while (true)` unrolled once; `exh` is therefore `true` and is not part of the tie) with `cyclecmp32` from `util.c`
inlined.  `time_now()`, `fibre_scheduler_next()` and `usleep()` are the environment: the values the first two return
are parameters, the arguments all three are given and whether they are called are results.

* `mainloop_generated` (`bv_decide`, every 32-bit clock reading and returned time): the pass is given the first clock
  reading; `usleep` is called iff `0 < min(int32(returned − second reading), 50000)` with exactly that argument;
* `mainloop_tie`: that is `Librfn.Model.MainLoop.posixSleep`, the definition the C03 main-loop theorems
  (`mainloop_never_delays`, `mainloop_polls`, …) are about.
-/
namespace Librfn.C03.Tie
open Librfn.Gen.MainLoopSeq
open Librfn.Model.MainLoop

/-- `min(int32(until − now), 50000)` as a 32-bit value -/
def intervalBV (sleepUntil now2 : BitVec 32) : BitVec 32 :=
  if (sleepUntil - now2).slt 50000#32 then sleepUntil - now2 else 50000#32

theorem mainloop_generated (t1 su t2 ur : BitVec 32) :
    (fibre_scheduler_main_loop t1 su t2 ur).ub = false ∧
    (fibre_scheduler_main_loop t1 su t2 ur).time_now_called_1 = true ∧
    (fibre_scheduler_main_loop t1 su t2 ur).fibre_scheduler_next_called_1 = true ∧
    (fibre_scheduler_main_loop t1 su t2 ur).fibre_scheduler_next_arg_1_0 = t1 ∧
    (fibre_scheduler_main_loop t1 su t2 ur).time_now_called_2 = true ∧
    (fibre_scheduler_main_loop t1 su t2 ur).usleep_called_1 = (0#32).slt (intervalBV su t2) ∧
    ((fibre_scheduler_main_loop t1 su t2 ur).usleep_called_1 = true →
      (fibre_scheduler_main_loop t1 su t2 ur).usleep_arg_1_0 = intervalBV su t2) := by
  unfold fibre_scheduler_main_loop intervalBV
  bv_decide (config := { timeout := 300 })

theorem toNat_of_pos (x : BitVec 32) (h : (0#32).slt x = true) : (x.toInt).toNat = x.toNat := by
  simp only [BitVec.slt, BitVec.toInt_zero, decide_eq_true_eq] at h
  have := x.isLt
  rw [BitVec.toInt_eq_toNat_cond] at h ⊢
  split at h <;> split <;> omega

/-- **tie T, main loop**: `usleep(d)` is called exactly when the model's `posixSleep` says `some d` -/
theorem mainloop_tie (t1 su t2 ur : BitVec 32) :
    let g := fibre_scheduler_main_loop t1 su t2 ur
    g.ub = false ∧ g.fibre_scheduler_next_called_1 = true ∧ g.fibre_scheduler_next_arg_1_0 = t1 ∧
    posixSleep su t2 = (if g.usleep_called_1 then some g.usleep_arg_1_0.toNat else none) := by
  obtain ⟨h1, _, h3, h4, _, h6, h7⟩ := mainloop_generated t1 su t2 ur
  refine ⟨h1, h3, h4, ?_⟩
  have hcc : cyclecmp32 su t2 = (su - t2).toInt := by
    unfold cyclecmp32 Librfn.Gen.Util.cyclecmp32
    first | rfl | (congr 1; bv_decide (config := { timeout := 300 }))
  have hslt : ((su - t2).slt 50000#32 = true) ↔ (su - t2).toInt < 50000 := by
    simp only [BitVec.slt, decide_eq_true_eq]; rfl
  by_cases hc : (fibre_scheduler_main_loop t1 su t2 ur).usleep_called_1 = true
  · have ha := h7 hc
    rw [hc, if_pos rfl, ha]
    rw [h6] at hc
    have hp := toNat_of_pos _ hc
    unfold posixSleep
    simp only [hcc]
    unfold intervalBV at hc hp ⊢
    by_cases hl : (su - t2).slt 50000#32 = true
    · rw [if_pos hl] at hc hp ⊢
      rw [if_pos (hslt.1 hl)]
      have : (su - t2).toInt > 0 := by simpa [BitVec.slt] using hc
      rw [if_pos this, hp]
    · rw [if_neg hl] at hc hp ⊢
      rw [if_neg (fun h => hl (hslt.2 h))]
      rfl
  · have hc' : (fibre_scheduler_main_loop t1 su t2 ur).usleep_called_1 = false := by simpa using hc
    rw [hc']
    simp only [Bool.false_eq_true, if_false]
    rw [h6] at hc'
    unfold posixSleep
    simp only [hcc]
    unfold intervalBV at hc'
    by_cases hl : (su - t2).slt 50000#32 = true
    · rw [if_pos hl] at hc'
      rw [if_pos (hslt.1 hl)]
      have : ¬ (su - t2).toInt > 0 := by simpa [BitVec.slt] using hc'
      rw [if_neg this]
    · rw [if_neg hl] at hc'
      exact absurd hc' (by decide)

end Librfn.C03.Tie

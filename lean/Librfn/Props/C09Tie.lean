import Librfn.Gen.ListSeq
import Librfn.Gen.MemWord
import Librfn.Model.ListHeap
import Std.Tactic.BVDecide
/-!
# C09 — tie T for `list.c` (second-generation translator, structures in memory)

`Librfn.Gen.ListSeq.*` is regenerated from `/repo/librfn/list.c` on every run; `list_t`, `list_node_t` and `list_iterator_t` live
in the byte memory and are reached through 64-bit pointer values (`list->head` is the word at `list`, `list->tail` the word at
`list + 8`, `node->next` the word at `node`, `iter->prevnext` / `iter->list` the words at `iter` / `iter + 8` — the x86-64 layout the
translator computes; `&list->head` is `list`, `&curr->next` is `curr`, `containerof(p, list_node_t, next)` is `p - 0`).

Layer 1 (`*_generated`, `bv_decide`): for each of the seven loop-free functions, the word found after the call at **any** cell `p`
that does not partially overlap a cell the function writes (`sep`: equal or at least 8 bytes apart — objects are never allocated
overlapping), and the value returned: a loop-free description at the level of words.
Layer 2 (`*_tie`): on a memory that represents a `Librfn.Model.ListHeap.Heap` (cells of an array of words; nodes, list heads and
list tails at pairwise different cells), the memory after the call represents the heap the model computes, and the returned
pointer is the model's result.
-/
namespace Librfn.C09.Tie
open Librfn.Gen Librfn.Gen.ListSeq
open Librfn.Gen.Mem (sep)

/-- the 64-bit word at `p` -/
abbrev W (mem : Mem) (p : BitVec 64) : BitVec 64 := Mem.load64 mem p

/-- `list_insert`: `if (list->head) list->tail->next = node; else list->head = node; list->tail = node;` -/
theorem insert_generated (list node : BitVec 64) (mem : Mem) (p : BitVec 64)
    (h1 : sep p list = true) (h2 : sep p (list + 8#64) = true) (h3 : (W mem list == 0#64 || sep p (W mem (list + 8#64))) = true)
    (h4 : sep p node = true) (hnn : W mem node = 0#64)
    -- the list object and the node are different objects
    (d1 : sep list node = true) (d2 : list ≠ node) (d3 : sep (list + 8#64) node = true) (d4 : list + 8#64 ≠ node) :
    (list_insert list node mem).ub = false ∧ (list_insert list node mem).exh = false ∧
    W (list_insert list node mem).mem p =
      (if p = list + 8#64 then node
       else if W mem list ≠ 0#64 then (if p = W mem (list + 8#64) then node else W mem p)
       else (if p = list then node else W mem p)) := by
  have cg1 : p = node → Mem.load64 mem p = Mem.load64 mem node := fun e => by rw [e]
  have cg2 : p = list → Mem.load64 mem p = Mem.load64 mem list := fun e => by rw [e]
  have cg3 : p = list + 8#64 → Mem.load64 mem p = Mem.load64 mem (list + 8#64) := fun e => by rw [e]
  unfold list_insert W at *
  simp only [Mem.load64_ite, Mem.load64_store64]
  simp only [Mem.sep] at *
  bv_decide (config := { timeout := 60 })

/-- `list_push`: `if (list->head) node->next = list->head; else list->tail = node; list->head = node;` -/
theorem push_generated (list node : BitVec 64) (mem : Mem) (p : BitVec 64)
    (h1 : sep p list = true) (h2 : sep p (list + 8#64) = true) (h3 : sep p node = true) (hnn : W mem node = 0#64)
    (d1 : sep list node = true) (d2 : list ≠ node) (d3 : sep (list + 8#64) node = true) (d4 : list + 8#64 ≠ node) :
    (list_push list node mem).ub = false ∧ (list_push list node mem).exh = false ∧
    W (list_push list node mem).mem p =
      (if p = list then node
       else if W mem list ≠ 0#64 then (if p = node then W mem list else W mem p)
       else (if p = list + 8#64 then node else W mem p)) := by
  -- congruence of the opaque loads (bv_decide treats `load64 mem x` as atoms)
  have cg1 : p = node → Mem.load64 mem p = Mem.load64 mem node := fun e => by rw [e]
  have cg2 : p = list → Mem.load64 mem p = Mem.load64 mem list := fun e => by rw [e]
  unfold list_push W at *
  simp only [Mem.load64_ite, Mem.load64_store64]
  simp only [Mem.sep] at *
  bv_decide (config := { timeout := 60 })

/-- `list_extract`: NULL on an empty list, else unlink the head and clear its link -/
theorem extract_generated (list : BitVec 64) (mem : Mem) (p : BitVec 64)
    (h1 : sep p list = true) (h2 : (W mem list == 0#64 || sep p (W mem list)) = true) :
    (list_extract list mem).ub = false ∧ (list_extract list mem).exh = false ∧
    (list_extract list mem).ret = W mem list ∧
    W (list_extract list mem).mem p =
      (if W mem list = 0#64 then W mem p
       else if p = W mem list then 0#64 else if p = list then W mem (W mem list) else W mem p) := by
  unfold list_extract W at *
  simp only [Mem.load64_ite, Mem.load64_store64]
  simp only [Mem.sep] at *
  bv_decide (config := { timeout := 60 })

/-- `list_iterate`: `iter->prevnext = &list->head; iter->list = list; return list->head;` -/
theorem iterate_generated (list iter : BitVec 64) (mem : Mem) (p : BitVec 64)
    (h1 : sep p iter = true) (h2 : sep p (iter + 8#64) = true)
    (h3 : sep list iter = true) (h4 : sep list (iter + 8#64) = true) (h5 : list ≠ iter) (h6 : list ≠ iter + 8#64) :
    (list_iterate list iter mem).ub = false ∧ (list_iterate list iter mem).exh = false ∧
    (list_iterate list iter mem).ret = W mem list ∧
    W (list_iterate list iter mem).mem p = (if p = iter then list else if p = iter + 8#64 then list else W mem p) := by
  unfold list_iterate W at *
  simp only [Mem.load64_ite, Mem.load64_store64]
  simp only [Mem.sep] at *
  bv_decide (config := { timeout := 60 })

/-- `list_iterator_next`: `curr = *iter->prevnext; if (curr) { iter->prevnext = &curr->next; return curr->next; } return NULL;` -/
theorem iterator_next_generated (iter : BitVec 64) (mem : Mem) (p : BitVec 64)
    (h1 : sep p iter = true)
    (h2 : (W mem (W mem iter) == 0#64 || (sep (W mem (W mem iter)) iter && W mem (W mem iter) != iter)) = true) :
    (list_iterator_next iter mem).ub = false ∧ (list_iterator_next iter mem).exh = false ∧
    (list_iterator_next iter mem).ret = (if W mem (W mem iter) = 0#64 then 0#64 else W mem (W mem (W mem iter))) ∧
    W (list_iterator_next iter mem).mem p =
      (if W mem (W mem iter) ≠ 0#64 ∧ p = iter then W mem (W mem iter) else W mem p) := by
  unfold list_iterator_next W at *
  simp only [Mem.load64_ite, Mem.load64_store64]
  simp only [Mem.sep] at *
  bv_decide (config := { timeout := 60 })

/-- `list_iterator_insert`: `curr = *iter->prevnext; *iter->prevnext = node; node->next = curr; if (!curr) iter->list->tail = node;`
    (the iterator object is distinct from the cells written before `iter->list` is read) -/
theorem iterator_insert_generated (iter node : BitVec 64) (mem : Mem) (p : BitVec 64)
    (h1 : sep p (W mem iter) = true) (h2 : sep p node = true)
    (h3 : (W mem (W mem iter) != 0#64 || sep p (W mem (iter + 8#64) + 8#64)) = true)
    (h4 : sep (iter + 8#64) (W mem iter) = true) (h5 : sep (iter + 8#64) node = true)
    (h6 : iter + 8#64 ≠ W mem iter) (h7 : iter + 8#64 ≠ node)
    -- the API's precondition (`assert(NULL == node->next)`) and scope (the node is not the one the iterator hangs off)
    (hnn : W mem node = 0#64) (hs : sep (W mem iter) node = true) (hne : W mem iter ≠ node)
    -- the iterator object, the list's tail word, the link and the node are different cells
    (e1 : sep iter (W mem iter) = true) (e2 : iter ≠ W mem iter) (e3 : sep iter node = true) (e4 : iter ≠ node)
    (e5 : sep (W mem (iter + 8#64) + 8#64) node = true) (e6 : W mem (iter + 8#64) + 8#64 ≠ node)
    (e7 : sep (W mem (iter + 8#64) + 8#64) (W mem iter) = true) (e8 : W mem (iter + 8#64) + 8#64 ≠ W mem iter)
    (e9 : sep iter (W mem (iter + 8#64) + 8#64) = true) (e10 : iter ≠ W mem (iter + 8#64) + 8#64)
    (e11 : sep (iter + 8#64) (W mem (iter + 8#64) + 8#64) = true) (e12 : iter + 8#64 ≠ W mem (iter + 8#64) + 8#64) :
    (list_iterator_insert iter node mem).ub = false ∧ (list_iterator_insert iter node mem).exh = false ∧
    W (list_iterator_insert iter node mem).mem p =
      (if W mem (W mem iter) = 0#64 ∧ p = W mem (iter + 8#64) + 8#64 then node
       else if p = node then W mem (W mem iter) else if p = W mem iter then node else W mem p) := by
  have cg1 : p = node → Mem.load64 mem p = Mem.load64 mem node := fun e => by rw [e]
  have cg2 : p = Mem.load64 mem iter → Mem.load64 mem p = Mem.load64 mem (Mem.load64 mem iter) := fun e => by rw [e]
  have cg3 : p = iter → Mem.load64 mem p = Mem.load64 mem iter := fun e => by rw [e]
  have cg4 : p = iter + 8#64 → Mem.load64 mem p = Mem.load64 mem (iter + 8#64) := fun e => by rw [e]
  unfold list_iterator_insert W at *
  simp only [Mem.load64_ite, Mem.load64_store64]
  simp only [Mem.sep] at *
  bv_decide (config := { timeout := 60 })

/-- `list_iterator_remove`: `curr = *iter->prevnext; prev = containerof(iter->prevnext, …); if (iter->list->tail == curr)
    iter->list->tail = prev; *iter->prevnext = curr->next; curr->next = NULL; return *iter->prevnext;`
    (the cells involved — the iterator's two words, the link `*prevnext`, `curr`, the list's tail — are pairwise the same or apart) -/
theorem iterator_remove_generated (iter : BitVec 64) (mem : Mem) (p : BitVec 64)
    (h1 : sep p (W mem iter) = true) (h2 : sep p (W mem (W mem iter)) = true) (h3 : sep p (W mem (iter + 8#64) + 8#64) = true)
    -- the iterator object is none of the cells written
    (i1 : sep iter (W mem (iter + 8#64) + 8#64) = true) (i2 : iter ≠ W mem (iter + 8#64) + 8#64)
    (i3 : sep iter (W mem iter) = true) (i4 : iter ≠ W mem iter)
    (i5 : sep iter (W mem (W mem iter)) = true) (i6 : iter ≠ W mem (W mem iter))
    -- the link, the removed node and the tail word are different cells
    (c1 : sep (W mem (W mem iter)) (W mem (iter + 8#64) + 8#64) = true) (c2 : W mem (W mem iter) ≠ W mem (iter + 8#64) + 8#64)
    (c3 : sep (W mem iter) (W mem (iter + 8#64) + 8#64) = true) (c4 : W mem iter ≠ W mem (iter + 8#64) + 8#64)
    (c5 : sep (W mem iter) (W mem (W mem iter)) = true) (c6 : W mem iter ≠ W mem (W mem iter)) :
    (list_iterator_remove iter mem).ub = false ∧ (list_iterator_remove iter mem).exh = false ∧
    (list_iterator_remove iter mem).ret = W mem (W mem (W mem iter)) ∧
    W (list_iterator_remove iter mem).mem p =
      (if p = W mem (W mem iter) then 0#64
       else if p = W mem iter then W mem (W mem (W mem iter))
       else if W mem (W mem (iter + 8#64) + 8#64) = W mem (W mem iter) ∧ p = W mem (iter + 8#64) + 8#64 then W mem iter
       else W mem p) := by
  unfold list_iterator_remove W at *
  simp only [Mem.load64_ite, Mem.load64_store64]
  simp only [Mem.sep] at *
  bv_decide (config := { timeout := 60 })

/-! ## layer 2: the memory represents a `ListHeap.Heap` -/
open Librfn.Model.ListHeap

/-- the word cells of the objects: a node's `next`, a list's `head`, a list's `tail` -/
inductive Cell where
  | next (n : Node) | head (l : Lid) | tail (l : Lid)
  deriving DecidableEq

/-- where the objects are: word cell `idx c` of an array of words at `base`; `okN` / `okL` say which nodes and lists exist -/
structure Lay where
  base : BitVec 64
  idx : Cell → Nat
  okN : Node → Prop
  okL : Lid → Prop

def Lay.ok (L : Lay) : Cell → Prop
  | .next n => L.okN n
  | .head l => L.okL l
  | .tail l => L.okL l

/-- the address of a cell -/
def Lay.A (L : Lay) (c : Cell) : BitVec 64 := L.base + BitVec.ofNat 64 (8 * L.idx c)

/-- objects are 8-byte aligned relative to `base`, inside a window of 2^40 words that neither contains address 0 nor wraps; different
    cells are at different places; `tail` follows `head` (the layout of `list_t`) -/
structure Lay.WF (L : Lay) : Prop where
  base_pos : 0 < L.base.toNat
  fits : L.base.toNat + 8 * 2 ^ 40 ≤ 2 ^ 64
  small : ∀ c, L.ok c → L.idx c < 2 ^ 40
  inj : ∀ c c', L.ok c → L.ok c' → L.idx c = L.idx c' → c = c'
  tail_next : ∀ l, L.okL l → L.idx (.tail l) = L.idx (.head l) + 1

theorem A_toNat (L : Lay) (hL : L.WF) (c : Cell) (hc : L.ok c) : (L.A c).toNat = L.base.toNat + 8 * L.idx c := by
  have h1 := hL.small c hc; have h2 := hL.fits
  unfold Lay.A
  rw [BitVec.toNat_add, BitVec.toNat_ofNat]
  omega

theorem A_inj (L : Lay) (hL : L.WF) (c c' : Cell) (hc : L.ok c) (hc' : L.ok c') : L.A c = L.A c' ↔ c = c' := by
  constructor
  · intro e
    have := congrArg BitVec.toNat e
    rw [A_toNat L hL c hc, A_toNat L hL c' hc'] at this
    exact hL.inj c c' hc hc' (by omega)
  · intro e; rw [e]

theorem A_ne0 (L : Lay) (hL : L.WF) (c : Cell) (hc : L.ok c) : L.A c ≠ 0#64 := by
  intro e
  have h1 := congrArg BitVec.toNat e
  rw [A_toNat L hL c hc] at h1
  have h2 := hL.base_pos
  have h3 : (0#64).toNat = 0 := rfl
  omega

theorem A_sep (L : Lay) (hL : L.WF) (c c' : Cell) (hc : L.ok c) (hc' : L.ok c') : sep (L.A c) (L.A c') = true := by
  have h1 := hL.small c hc; have h2 := hL.small c' hc'; have h3 := hL.fits
  have t1 := A_toNat L hL c hc; have t2 := A_toNat L hL c' hc'
  unfold Mem.sep
  by_cases e : L.idx c = L.idx c'
  · have := hL.inj c c' hc hc' e
    subst this; simp
  · have l1 := (L.A c).isLt; have l2 := (L.A c').isLt
    simp only [Bool.or_eq_true, beq_iff_eq, Bool.and_eq_true, BitVec.ule, decide_eq_true_eq, BitVec.toNat_sub, BitVec.toNat_ofNat]
    right
    rw [t1, t2]
    constructor <;> omega

theorem A_tail (L : Lay) (hL : L.WF) (l : Lid) (hl : L.okL l) : L.A (.head l) + 8#64 = L.A (.tail l) := by
  apply BitVec.eq_of_toNat_eq
  have h1 := hL.small (.head l) hl; have h2 := hL.small (.tail l) hl; have h3 := hL.fits; have h4 := hL.tail_next l hl
  rw [BitVec.toNat_add, A_toNat L hL _ (show L.ok (.head l) from hl), A_toNat L hL _ (show L.ok (.tail l) from hl)]
  simp only [BitVec.toNat_ofNat]
  omega

/-- a pointer to a node or NULL -/
def encN (L : Lay) : Option Node → BitVec 64
  | none => 0#64
  | some n => L.A (.next n)
/-- a value of `list->tail`: NULL, a node, or a list object seen as a node (what `containerof(&list->head, …)` is) -/
def encT (L : Lay) : Tail → BitVec 64
  | .null => 0#64
  | .node n => L.A (.next n)
  | .listAsNode l => L.A (.head l)
/-- the word the heap holds in a cell -/
def val (L : Lay) (h : Heap) : Cell → BitVec 64
  | .next n => encN L (h.next n)
  | .head l => encN L (h.head l)
  | .tail l => encT L (h.tail l)

/-- the memory represents the heap -/
def Rep (L : Lay) (mem : Mem) (h : Heap) : Prop := ∀ c, L.ok c → W mem (L.A c) = val L h c

/-- a tail value points to an existing object (or is NULL) -/
def okT (L : Lay) : Tail → Prop
  | .null => True
  | .node m => L.okN m
  | .listAsNode l' => L.okL l'

/-- every pointer stored in the heap points to an existing object -/
structure Closed (L : Lay) (h : Heap) : Prop where
  next : ∀ n m, L.okN n → h.next n = some m → L.okN m
  head : ∀ l m, L.okL l → h.head l = some m → L.okN m
  tail : ∀ l, L.okL l → okT L (h.tail l)

theorem val_setNext (L : Lay) (h : Heap) (n : Node) (v : Option Node) (c : Cell) :
    val L (setNext h n v) c = if c = .next n then encN L v else val L h c := by
  cases c with
  | next m =>
    simp only [val, setNext, Cell.next.injEq]
    split <;> rfl
  | head l => simp [val, setNext]
  | tail l => simp [val, setNext]

theorem val_setHead (L : Lay) (h : Heap) (l : Lid) (v : Option Node) (c : Cell) :
    val L (setHead h l v) c = if c = .head l then encN L v else val L h c := by
  cases c with
  | next m => simp [val, setHead]
  | head l' =>
    simp only [val, setHead, Cell.head.injEq]
    split <;> rfl
  | tail l' => simp [val, setHead]

theorem val_setTail (L : Lay) (h : Heap) (l : Lid) (t : Tail) (c : Cell) :
    val L (setTail h l t) c = if c = .tail l then encT L t else val L h c := by
  cases c with
  | next m => simp [val, setTail]
  | head l' => simp [val, setTail]
  | tail l' =>
    simp only [val, setTail, Cell.tail.injEq]
    split <;> rfl

theorem encN_eq_zero (L : Lay) (hL : L.WF) (o : Option Node) (ho : ∀ m, o = some m → L.okN m) : encN L o = 0#64 ↔ o = none := by
  cases o with
  | none => simp [encN]
  | some m =>
    simp only [encN, reduceCtorEq, iff_false]
    exact A_ne0 L hL (.next m) (ho m rfl)

theorem closed_setNext (L : Lay) (h : Heap) (hC : Closed L h) (n : Node) (v : Option Node) (hv : ∀ m, v = some m → L.okN m) :
    Closed L (setNext h n v) where
  next := by
    intro a m ha e
    simp only [setNext] at e
    split at e
    · exact hv m e
    · exact hC.next a m ha e
  head := hC.head
  tail := hC.tail

theorem closed_setHead (L : Lay) (h : Heap) (hC : Closed L h) (l : Lid) (v : Option Node) (hv : ∀ m, v = some m → L.okN m) :
    Closed L (setHead h l v) where
  next := hC.next
  head := by
    intro a m ha e
    simp only [setHead] at e
    split at e
    · exact hv m e
    · exact hC.head a m ha e
  tail := hC.tail

theorem closed_setTail (L : Lay) (h : Heap) (hC : Closed L h) (l : Lid) (t : Tail) (ht : okT L t) :
    Closed L (setTail h l t) where
  next := hC.next
  head := hC.head
  tail := by
    intro a ha
    simp only [setTail]
    by_cases e : a = l
    · rw [if_pos e]; exact ht
    · rw [if_neg e]; exact hC.tail a ha

/-- **tie T, `list_insert`** -/
theorem insert_tie (L : Lay) (hL : L.WF) (mem : Mem) (h : Heap) (hR : Rep L mem h) (hC : Closed L h) (l : Lid) (n : Node)
    (hl : L.okL l) (hn : L.okN n) (h' : Heap) (hok : Librfn.Model.ListHeap.insert h l n = .ok h') :
    (list_insert (L.A (.head l)) (L.A (.next n)) mem).ub = false ∧ (list_insert (L.A (.head l)) (L.A (.next n)) mem).exh = false ∧
    Rep L (list_insert (L.A (.head l)) (L.A (.next n)) mem).mem h' ∧ Closed L h' := by
  have hHead := hR (.head l) hl
  have hTail := hR (.tail l) hl
  rw [← A_tail L hL l hl] at hTail
  simp only [val] at hHead hTail
  have hnone : h.next n = none := by
    cases e : h.next n with
    | none => rfl
    | some m =>
      unfold Librfn.Model.ListHeap.insert at hok
      rw [if_pos (by rw [e]; simp)] at hok
      cases hok
  have hnn : W mem (L.A (.next n)) = 0#64 := by rw [hR (.next n) hn]; simp only [val, hnone, encN]
  have hn' : L.ok (.next n) := hn
  have ht' : L.ok (.tail l) := hl
  have dd1 : sep (L.A (.head l)) (L.A (.next n)) = true := A_sep L hL _ _ hl hn'
  have dd2 : L.A (.head l) ≠ L.A (.next n) := by rw [Ne, A_inj L hL _ _ (show L.ok (.head l) from hl) hn']; simp
  have dd3 : sep (L.A (.head l) + 8#64) (L.A (.next n)) = true := by rw [A_tail L hL l hl]; exact A_sep L hL _ _ ht' hn'
  have dd4 : L.A (.head l) + 8#64 ≠ L.A (.next n) := by rw [A_tail L hL l hl, Ne, A_inj L hL _ _ ht' hn']; simp
  have g0 := fun h3 => insert_generated (L.A (.head l)) (L.A (.next n)) mem (L.A (.head l)) (A_sep L hL _ _ hl hl)
    (by rw [A_tail L hL l hl]; exact A_sep L hL (.head l) (.tail l) hl hl) h3 (A_sep L hL (.head l) _ hl hn') hnn dd1 dd2 dd3 dd4
  unfold Librfn.Model.ListHeap.insert at hok
  split at hok
  · cases hok
  · cases hh : h.head l with
    | none =>
      rw [hh] at hok
      simp only [Except.ok.injEq] at hok
      subst hok
      have hz : W mem (L.A (.head l)) = 0#64 := by rw [hHead, hh]; rfl
      refine ⟨?_, ?_, ?_, closed_setTail L _ (closed_setHead L h hC l _ (by intro m e; cases e; exact hn)) l _ hn⟩
      · exact (g0 (by rw [hz]; rfl)).1
      · exact (g0 (by rw [hz]; rfl)).2.1
      · intro c hc
        have key := (insert_generated (L.A (.head l)) (L.A (.next n)) mem (L.A c) (A_sep L hL _ _ hc hl)
          (by rw [A_tail L hL l hl]; exact A_sep L hL c (.tail l) hc hl) (by rw [hz]; rfl) (A_sep L hL c _ hc hn') hnn dd1 dd2 dd3 dd4).2.2
        rw [key, hz, A_tail L hL l hl, val_setTail, val_setHead, hR c hc]
        simp only [A_inj L hL c (.tail l) hc hl, A_inj L hL c (.head l) hc hl, ne_eq, not_true_eq_false, if_false, encT, encN]
    | some x =>
      rw [hh] at hok
      simp only at hok
      cases ht : h.tail l with
      | null => rw [ht] at hok; cases hok
      | listAsNode l' => rw [ht] at hok; cases hok
      | node t =>
        rw [ht] at hok
        simp only [Except.ok.injEq] at hok
        subst hok
        have hx : L.okN x := hC.head l x hl hh
        have htk : L.okN t := by have := hC.tail l hl; rw [ht] at this; exact this
        have hnz : W mem (L.A (.head l)) ≠ 0#64 := by rw [hHead, hh]; exact A_ne0 L hL (.next x) hx
        have htl : W mem (L.A (.head l) + 8#64) = L.A (.next t) := by rw [hTail, ht]; rfl
        have hs : ∀ c, L.ok c → (W mem (L.A (.head l)) == 0#64 || sep (L.A c) (W mem (L.A (.head l) + 8#64))) = true := by
          intro c hc; rw [htl, A_sep L hL c (.next t) hc htk]; simp
        refine ⟨(g0 (hs _ hl)).1, (g0 (hs _ hl)).2.1, ?_,
          closed_setTail L _ (closed_setNext L h hC t _ (by intro m e; cases e; exact hn)) l _ hn⟩
        intro c hc
        have key := (insert_generated (L.A (.head l)) (L.A (.next n)) mem (L.A c) (A_sep L hL _ _ hc hl)
          (by rw [A_tail L hL l hl]; exact A_sep L hL c (.tail l) hc hl) (hs c hc) (A_sep L hL c _ hc hn') hnn dd1 dd2 dd3 dd4).2.2
        rw [key, htl, A_tail L hL l hl, val_setTail, val_setNext, hR c hc]
        simp only [A_inj L hL c (.tail l) hc hl, A_inj L hL c (.next t) hc htk, ne_eq, hnz, not_false_eq_true, if_true, encT, encN]

/-- **tie T, `list_push`** -/
theorem push_tie (L : Lay) (hL : L.WF) (mem : Mem) (h : Heap) (hR : Rep L mem h) (hC : Closed L h) (l : Lid) (n : Node)
    (hl : L.okL l) (hn : L.okN n) (h' : Heap) (hok : push h l n = .ok h') :
    (list_push (L.A (.head l)) (L.A (.next n)) mem).ub = false ∧ (list_push (L.A (.head l)) (L.A (.next n)) mem).exh = false ∧
    Rep L (list_push (L.A (.head l)) (L.A (.next n)) mem).mem h' ∧ Closed L h' := by
  have hHead := hR (.head l) hl
  simp only [val] at hHead
  have hnone : h.next n = none := by
    cases e : h.next n with
    | none => rfl
    | some m =>
      unfold push at hok
      rw [if_pos (by rw [e]; simp)] at hok
      cases hok
  have hnn : W mem (L.A (.next n)) = 0#64 := by rw [hR (.next n) hn]; simp only [val, hnone, encN]
  have hn' : L.ok (.next n) := hn
  have ht' : L.ok (.tail l) := hl
  have dd1 : sep (L.A (.head l)) (L.A (.next n)) = true := A_sep L hL _ _ hl hn'
  have dd2 : L.A (.head l) ≠ L.A (.next n) := by rw [Ne, A_inj L hL _ _ (show L.ok (.head l) from hl) hn']; simp
  have dd3 : sep (L.A (.head l) + 8#64) (L.A (.next n)) = true := by rw [A_tail L hL l hl]; exact A_sep L hL _ _ ht' hn'
  have dd4 : L.A (.head l) + 8#64 ≠ L.A (.next n) := by rw [A_tail L hL l hl, Ne, A_inj L hL _ _ ht' hn']; simp
  have gen := fun c (hc : L.ok c) => push_generated (L.A (.head l)) (L.A (.next n)) mem (L.A c) (A_sep L hL _ _ hc hl)
    (by rw [A_tail L hL l hl]; exact A_sep L hL c (.tail l) hc hl) (A_sep L hL c (.next n) hc hn) hnn dd1 dd2 dd3 dd4
  refine ⟨(gen (.head l) hl).1, (gen (.head l) hl).2.1, ?_⟩
  unfold push at hok
  split at hok
  · cases hok
  · cases hh : h.head l with
    | none =>
      rw [hh] at hok
      simp only [Except.ok.injEq] at hok
      subst hok
      have hz : W mem (L.A (.head l)) = 0#64 := by rw [hHead, hh]; rfl
      refine ⟨?_, closed_setHead L _ (closed_setTail L h hC l (.node n) hn) l _ (by intro m e; cases e; exact hn)⟩
      intro c hc
      rw [(gen c hc).2.2, hz, A_tail L hL l hl, val_setHead, val_setTail, hR c hc]
      simp only [A_inj L hL c (.tail l) hc hl, A_inj L hL c (.head l) hc hl, ne_eq, not_true_eq_false, if_false, encT, encN]
    | some x =>
      rw [hh] at hok
      simp only [Except.ok.injEq] at hok
      subst hok
      have hx : L.okN x := hC.head l x hl hh
      have hv : W mem (L.A (.head l)) = L.A (.next x) := by rw [hHead, hh]; rfl
      have hnz : L.A (.next x) ≠ 0#64 := A_ne0 L hL (.next x) hx
      refine ⟨?_, closed_setHead L _ (closed_setNext L h hC n _ (by intro m e; cases e; exact hx)) l _ (by intro m e; cases e; exact hn)⟩
      intro c hc
      rw [(gen c hc).2.2, hv, val_setHead, val_setNext, hR c hc]
      simp only [A_inj L hL c (.next n) hc hn, A_inj L hL c (.head l) hc hl, ne_eq, hnz, not_false_eq_true, if_true, encN]

/-- **tie T, `list_extract`**: the pointer returned is the model's node (NULL for none) -/
theorem extract_tie (L : Lay) (hL : L.WF) (mem : Mem) (h : Heap) (hR : Rep L mem h) (hC : Closed L h) (l : Lid) (hl : L.okL l) :
    (list_extract (L.A (.head l)) mem).ub = false ∧ (list_extract (L.A (.head l)) mem).exh = false ∧
    (list_extract (L.A (.head l)) mem).ret = encN L (extract h l).2 ∧
    Rep L (list_extract (L.A (.head l)) mem).mem (extract h l).1 ∧ Closed L (extract h l).1 := by
  have hHead := hR (.head l) hl
  simp only [val] at hHead
  cases hh : h.head l with
  | none =>
    have hz : W mem (L.A (.head l)) = 0#64 := by rw [hHead, hh]; rfl
    have gen := fun c (hc : L.ok c) => extract_generated (L.A (.head l)) mem (L.A c) (A_sep L hL _ _ hc hl) (by rw [hz]; rfl)
    have he : extract h l = (h, none) := by unfold extract; rw [hh]
    rw [he]
    refine ⟨(gen (.head l) hl).1, (gen (.head l) hl).2.1, by rw [(gen (.head l) hl).2.2.1, hz]; rfl, ?_, hC⟩
    intro c hc
    rw [(gen c hc).2.2.2, hz, hR c hc]
    simp only [if_true]
  | some x =>
    have hx : L.okN x := hC.head l x hl hh
    have hv : W mem (L.A (.head l)) = L.A (.next x) := by rw [hHead, hh]; rfl
    have hnz : L.A (.next x) ≠ 0#64 := A_ne0 L hL (.next x) hx
    have gen := fun c (hc : L.ok c) => extract_generated (L.A (.head l)) mem (L.A c) (A_sep L hL _ _ hc hl)
      (by rw [hv, A_sep L hL c (.next x) hc hx]; simp)
    have he : extract h l = (setNext (setHead h l (h.next x)) x none, some x) := by unfold extract; rw [hh]
    rw [he]
    refine ⟨(gen (.head l) hl).1, (gen (.head l) hl).2.1, by rw [(gen (.head l) hl).2.2.1, hv]; rfl, ?_,
      closed_setNext L _ (closed_setHead L h hC l _ (fun m e => hC.next x m hx e)) x _ (by intro m e; cases e)⟩
    intro c hc
    rw [(gen c hc).2.2.2, hv, val_setNext, val_setHead, hR c hc, hR (.next x) hx]
    simp only [A_inj L hL c (.next x) hc hx, A_inj L hL c (.head l) hc hl, hnz, if_false, encN, val]

/-! ### iterators: a `list_iterator_t` object at an address foreign to the heap cells -/

/-- the cell a link designates -/
def cellOf : Link → Cell
  | .headOf l => .head l
  | .nextOf n => .next n

def okLink (L : Lay) : Link → Prop
  | .headOf l => L.okL l
  | .nextOf n => L.okN n

theorem cellOf_ne_tail (k : Link) (l : Lid) : cellOf k ≠ .tail l := by
  cases k <;> simp [cellOf]

theorem okLink_ok (L : Lay) (k : Link) (h : okLink L k) : L.ok (cellOf k) := by
  cases k <;> exact h

theorem val_cellOf (L : Lay) (h : Heap) (k : Link) : val L h (cellOf k) = encN L (load h k) := by
  cases k <;> rfl

theorem val_store (L : Lay) (h : Heap) (k : Link) (v : Option Node) (c : Cell) :
    val L (store h k v) c = if c = cellOf k then encN L v else val L h c := by
  cases k with
  | headOf l => exact val_setHead L h l v c
  | nextOf n => exact val_setNext L h n v c

/-- the iterator object at `ia` (two words) holds the model's iterator -/
structure IterAt (L : Lay) (mem : Mem) (ia : BitVec 64) (it : Iter) : Prop where
  pn : W mem ia = L.A (cellOf it.prevnext)
  li : W mem (ia + 8#64) = L.A (.head it.list)

/-- the iterator object overlaps no heap cell -/
structure Foreign (L : Lay) (ia : BitVec 64) : Prop where
  s0 : ∀ c, L.ok c → sep (L.A c) ia = true
  n0 : ∀ c, L.ok c → L.A c ≠ ia
  s8 : ∀ c, L.ok c → sep (L.A c) (ia + 8#64) = true
  n8 : ∀ c, L.ok c → L.A c ≠ ia + 8#64

theorem sep_comm (p q : BitVec 64) : sep p q = sep q p := by
  unfold Mem.sep
  bv_decide

theorem sep_self8 (p : BitVec 64) : sep p (p + 8#64) = true ∧ sep (p + 8#64) p = true ∧ sep p p = true ∧ p ≠ p + 8#64 := by
  unfold Mem.sep
  bv_decide

/-- **tie T, `list_iterate`** -/
theorem iterate_tie (L : Lay) (mem : Mem) (h : Heap) (hR : Rep L mem h) (l : Lid) (hl : L.okL l)
    (ia : BitVec 64) (hF : Foreign L ia) :
    (list_iterate (L.A (.head l)) ia mem).ub = false ∧ (list_iterate (L.A (.head l)) ia mem).exh = false ∧
    (list_iterate (L.A (.head l)) ia mem).ret = encN L (iterate h l).2 ∧
    Rep L (list_iterate (L.A (.head l)) ia mem).mem h ∧ IterAt L (list_iterate (L.A (.head l)) ia mem).mem ia (iterate h l).1 := by
  have hl' : L.ok (.head l) := hl
  have gen := fun p (h1 : sep p ia = true) (h2 : sep p (ia + 8#64) = true) =>
    iterate_generated (L.A (.head l)) ia mem p h1 h2 (hF.s0 _ hl') (hF.s8 _ hl') (hF.n0 _ hl') (hF.n8 _ hl')
  obtain ⟨q1, q2, q3, q4⟩ := sep_self8 ia
  have g0 := gen ia q3 q1
  refine ⟨g0.1, g0.2.1, ?_, ?_, ⟨?_, ?_⟩⟩
  · rw [g0.2.2.1, hR (.head l) hl]; rfl
  · intro c hc
    rw [(gen (L.A c) (hF.s0 c hc) (hF.s8 c hc)).2.2.2, if_neg (hF.n0 c hc), if_neg (hF.n8 c hc), hR c hc]
  · rw [g0.2.2.2, if_pos rfl]; rfl
  · rw [(gen (ia + 8#64) q2 (by unfold Mem.sep; simp)).2.2.2, if_neg (fun e => q4 e.symm), if_pos rfl]; rfl

/-- **tie T, `list_iterator_next`** -/
theorem iterator_next_tie (L : Lay) (hL : L.WF) (mem : Mem) (h : Heap) (hR : Rep L mem h) (hC : Closed L h)
    (ia : BitVec 64) (hF : Foreign L ia) (it : Iter) (hI : IterAt L mem ia it) (hk : okLink L it.prevnext) :
    (list_iterator_next ia mem).ub = false ∧ (list_iterator_next ia mem).exh = false ∧
    (list_iterator_next ia mem).ret = encN L (iteratorNext h it).2 ∧
    Rep L (list_iterator_next ia mem).mem h ∧ IterAt L (list_iterator_next ia mem).mem ia (iteratorNext h it).1 := by
  have hkc := okLink_ok L _ hk
  have hcur : W mem (W mem ia) = encN L (load h it.prevnext) := by rw [hI.pn, hR _ hkc, val_cellOf]
  obtain ⟨q1, q2, q3, q4⟩ := sep_self8 ia
  cases hld : load h it.prevnext with
  | none =>
    have hz : W mem (W mem ia) = 0#64 := by rw [hcur, hld]; rfl
    have gen := fun p (h1 : sep p ia = true) => iterator_next_generated ia mem p h1 (by rw [hz]; rfl)
    have he : iteratorNext h it = (it, none) := by unfold iteratorNext; rw [hld]
    rw [he]
    have g0 := gen ia q3
    refine ⟨g0.1, g0.2.1, by rw [g0.2.2.1, hz]; rfl, ?_, ⟨?_, ?_⟩⟩
    · intro c hc
      rw [(gen (L.A c) (hF.s0 c hc)).2.2.2, hz, hR c hc]; simp
    · rw [g0.2.2.2, hz]; simp only [ne_eq, not_true_eq_false, false_and, if_false]; exact hI.pn
    · rw [(gen (ia + 8#64) q2).2.2.2, hz]; simp only [ne_eq, not_true_eq_false, false_and, if_false]; exact hI.li
  | some c0 =>
    have hc0 : L.okN c0 := by
      cases hkk : it.prevnext with
      | headOf l => rw [hkk] at hld hk; exact hC.head l c0 hk hld
      | nextOf n => rw [hkk] at hld hk; exact hC.next n c0 hk hld
    have hc0' : L.ok (.next c0) := hc0
    have hv : W mem (W mem ia) = L.A (.next c0) := by rw [hcur, hld]; rfl
    have hnz : L.A (.next c0) ≠ 0#64 := A_ne0 L hL _ hc0'
    have gen := fun p (h1 : sep p ia = true) => iterator_next_generated ia mem p h1
      (by rw [hv, hF.s0 _ hc0']; simp [hF.n0 _ hc0'])
    have he : iteratorNext h it = ({ it with prevnext := .nextOf c0 }, h.next c0) := by unfold iteratorNext; rw [hld]
    rw [he]
    have g0 := gen ia q3
    refine ⟨g0.1, g0.2.1, ?_, ?_, ⟨?_, ?_⟩⟩
    · rw [g0.2.2.1, hv, if_neg hnz, hR _ hc0']; rfl
    · intro c hc
      rw [(gen (L.A c) (hF.s0 c hc)).2.2.2, hv, hR c hc]
      simp only [ne_eq, hnz, not_false_eq_true, true_and, hF.n0 c hc, if_false]
    · rw [g0.2.2.2, hv]; simp only [ne_eq, hnz, not_false_eq_true, and_self, if_true]; rfl
    · rw [(gen (ia + 8#64) q2).2.2.2, hv]
      have q5 : ¬ (ia + 8#64 = ia) := fun e => q4 e.symm
      simp only [ne_eq, hnz, not_false_eq_true, true_and, q5, if_false]
      exact hI.li

theorem closed_store (L : Lay) (h : Heap) (hC : Closed L h) (k : Link) (v : Option Node) (hv : ∀ m, v = some m → L.okN m) :
    Closed L (store h k v) := by
  cases k with
  | headOf l => exact closed_setHead L h hC l v hv
  | nextOf n => exact closed_setNext L h hC n v hv

theorem load_ok (L : Lay) (h : Heap) (hC : Closed L h) (k : Link) (hk : okLink L k) (m : Node) (e : load h k = some m) : L.okN m := by
  cases k with
  | headOf l => exact hC.head l m hk e
  | nextOf n => exact hC.next n m hk e

/-- **tie T, `list_iterator_insert`** -/
theorem iterator_insert_tie (L : Lay) (hL : L.WF) (mem : Mem) (h : Heap) (hR : Rep L mem h) (hC : Closed L h)
    (ia : BitVec 64) (hF : Foreign L ia) (it : Iter) (hI : IterAt L mem ia it) (hk : okLink L it.prevnext) (hli : L.okL it.list)
    (n : Node) (hn : L.okN n) (hnone : h.next n = none) (hself : cellOf it.prevnext ≠ .next n) :
    (list_iterator_insert ia (L.A (.next n)) mem).ub = false ∧ (list_iterator_insert ia (L.A (.next n)) mem).exh = false ∧
    Rep L (list_iterator_insert ia (L.A (.next n)) mem).mem (iteratorInsert h it n) ∧ Closed L (iteratorInsert h it n) ∧
    IterAt L (list_iterator_insert ia (L.A (.next n)) mem).mem ia it := by
  have hkc := okLink_ok L _ hk
  have hn' : L.ok (.next n) := hn
  have ht' : L.ok (.tail it.list) := hli
  have hpn := hI.pn
  have hcur : W mem (W mem ia) = encN L (load h it.prevnext) := by rw [hI.pn, hR _ hkc, val_cellOf]
  have hlt : W mem (ia + 8#64) + 8#64 = L.A (.tail it.list) := by rw [hI.li, A_tail L hL _ hli]
  obtain ⟨q1, q2, q3, q4⟩ := sep_self8 ia
  have gen := fun p (h1 : sep p (L.A (cellOf it.prevnext)) = true) (h2 : sep p (L.A (.next n)) = true)
      (h3 : sep p (L.A (.tail it.list)) = true) =>
    iterator_insert_generated ia (L.A (.next n)) mem p (by rw [hpn]; exact h1) h2 (by rw [hlt, h3]; simp)
      (by rw [hpn, sep_comm]; exact hF.s8 _ hkc) (by rw [sep_comm]; exact hF.s8 _ hn')
      (by rw [hpn]; exact fun e => hF.n8 _ hkc e.symm) (fun e => hF.n8 _ hn' e.symm)
      (by rw [hR (.next n) hn]; simp only [val, hnone, encN]) (by rw [hpn]; exact A_sep L hL _ _ hkc hn')
      (by rw [hpn, Ne, A_inj L hL _ _ hkc hn']; exact hself)
      (by rw [hpn, sep_comm]; exact hF.s0 _ hkc) (by rw [hpn]; exact fun e => hF.n0 _ hkc e.symm)
      (by rw [sep_comm]; exact hF.s0 _ hn') (fun e => hF.n0 _ hn' e.symm)
      (by rw [hlt]; exact A_sep L hL _ _ ht' hn') (by rw [hlt, Ne, A_inj L hL _ _ ht' hn']; simp)
      (by rw [hlt, hpn]; exact A_sep L hL _ _ ht' hkc) (by rw [hlt, hpn, Ne, A_inj L hL _ _ ht' hkc]; exact fun e => cellOf_ne_tail _ _ e.symm)
      (by rw [hlt, sep_comm]; exact hF.s0 _ ht') (by rw [hlt]; exact fun e => hF.n0 _ ht' e.symm)
      (by rw [hlt, sep_comm]; exact hF.s8 _ ht') (by rw [hlt]; exact fun e => hF.n8 _ ht' e.symm)
  have gc := fun c (hc : L.ok c) => gen (L.A c) (A_sep L hL c _ hc hkc) (A_sep L hL c _ hc hn') (A_sep L hL c _ hc ht')
  have g0 := gc _ hn'
  have hcv : ∀ m, load h it.prevnext = some m → L.okN m := fun m e => load_ok L h hC _ hk m e
  refine ⟨g0.1, g0.2.1, ?_, ?_, ⟨?_, ?_⟩⟩
  · intro c hc
    rw [(gc c hc).2.2, hcur, hlt, hpn, hR c hc]
    unfold iteratorInsert
    simp only [encN_eq_zero L hL _ hcv, A_inj L hL c _ hc ht', A_inj L hL c _ hc hn', A_inj L hL c _ hc hkc]
    by_cases e : load h it.prevnext = none
    · simp only [e, if_true, true_and, val_setTail, val_setNext, val_store, encT, encN]
    · simp only [e, if_false, false_and, val_setNext, val_store, encN]
  · unfold iteratorInsert
    have c2 : Closed L (setNext (store h it.prevnext (some n)) n (load h it.prevnext)) :=
      closed_setNext L _ (closed_store L h hC _ _ (by intro m e; cases e; exact hn)) n _ hcv
    by_cases e : load h it.prevnext = none
    · simp only [e, if_true]; rw [e] at c2; exact closed_setTail L _ c2 _ (.node n) hn
    · simp only [e, if_false]; exact c2
  · have g1 := gen ia (by rw [sep_comm]; exact hF.s0 _ hkc) (by rw [sep_comm]; exact hF.s0 _ hn') (by rw [sep_comm]; exact hF.s0 _ ht')
    rw [g1.2.2, hlt, hpn]
    have e1 : ¬ ia = L.A (.tail it.list) := fun e => hF.n0 _ ht' e.symm
    have e2 : ¬ ia = L.A (.next n) := fun e => hF.n0 _ hn' e.symm
    have e3 : ¬ ia = L.A (cellOf it.prevnext) := fun e => hF.n0 _ hkc e.symm
    simp only [e1, e2, e3, and_false, if_false]
  · have g1 := gen (ia + 8#64) (by rw [sep_comm]; exact hF.s8 _ hkc) (by rw [sep_comm]; exact hF.s8 _ hn')
      (by rw [sep_comm]; exact hF.s8 _ ht')
    rw [g1.2.2, hlt, hpn]
    have e1 : ¬ ia + 8#64 = L.A (.tail it.list) := fun e => hF.n8 _ ht' e.symm
    have e2 : ¬ ia + 8#64 = L.A (.next n) := fun e => hF.n8 _ hn' e.symm
    have e3 : ¬ ia + 8#64 = L.A (cellOf it.prevnext) := fun e => hF.n8 _ hkc e.symm
    simp only [e1, e2, e3, and_false, if_false]
    exact hI.li

theorem encT_containerOf (L : Lay) (k : Link) : encT L (containerOf k) = L.A (cellOf k) := by
  cases k <;> rfl

theorem okT_containerOf (L : Lay) (k : Link) (hk : okLink L k) : okT L (containerOf k) := by
  cases k <;> exact hk

theorem encT_eq_next (L : Lay) (hL : L.WF) (t : Tail) (ht : okT L t) (c0 : Node) (hc0 : L.okN c0) :
    encT L t = L.A (.next c0) ↔ t = .node c0 := by
  cases t with
  | null =>
    simp only [encT, reduceCtorEq, iff_false]
    exact fun e => A_ne0 L hL (.next c0) hc0 e.symm
  | node m =>
    simp only [encT, Tail.node.injEq]
    rw [A_inj L hL (.next m) (.next c0) ht hc0]
    simp
  | listAsNode l =>
    simp only [encT, reduceCtorEq, iff_false]
    rw [A_inj L hL (.head l) (.next c0) ht hc0]
    simp

/-- **tie T, `list_iterator_remove`** (the iterator stands before a node, which is not its own successor) -/
theorem iterator_remove_tie (L : Lay) (hL : L.WF) (mem : Mem) (h : Heap) (hR : Rep L mem h) (hC : Closed L h)
    (ia : BitVec 64) (hF : Foreign L ia) (it : Iter) (hI : IterAt L mem ia it) (hk : okLink L it.prevnext) (hli : L.okL it.list)
    (c0 : Node) (hld : load h it.prevnext = some c0) (hself : cellOf it.prevnext ≠ .next c0)
    (r : Heap × Option Node) (hok : iteratorRemove h it = .ok r) :
    (list_iterator_remove ia mem).ub = false ∧ (list_iterator_remove ia mem).exh = false ∧
    (list_iterator_remove ia mem).ret = encN L r.2 ∧
    Rep L (list_iterator_remove ia mem).mem r.1 ∧ Closed L r.1 ∧ IterAt L (list_iterator_remove ia mem).mem ia it := by
  have hkc := okLink_ok L _ hk
  have hc0 : L.okN c0 := load_ok L h hC _ hk c0 hld
  have hc0' : L.ok (.next c0) := hc0
  have ht' : L.ok (.tail it.list) := hli
  have hpn := hI.pn
  have hcur : W mem (W mem ia) = L.A (.next c0) := by rw [hI.pn, hR _ hkc, val_cellOf, hld]; rfl
  have hlt : W mem (ia + 8#64) + 8#64 = L.A (.tail it.list) := by rw [hI.li, A_tail L hL _ hli]
  have htv : W mem (L.A (.tail it.list)) = encT L (h.tail it.list) := hR _ ht'
  have hnx : W mem (L.A (.next c0)) = encN L (h.next c0) := hR _ hc0'
  have d1 : L.A (.next c0) ≠ L.A (.tail it.list) := by rw [Ne, A_inj L hL _ _ hc0' ht']; simp
  have d2 : L.A (cellOf it.prevnext) ≠ L.A (.tail it.list) := by rw [Ne, A_inj L hL _ _ hkc ht']; exact cellOf_ne_tail _ _
  have d3 : L.A (cellOf it.prevnext) ≠ L.A (.next c0) := by rw [Ne, A_inj L hL _ _ hkc hc0']; exact hself
  have gen := fun p (h1 : sep p (L.A (cellOf it.prevnext)) = true) (h2 : sep p (L.A (.next c0)) = true)
      (h3 : sep p (L.A (.tail it.list)) = true) =>
    iterator_remove_generated ia mem p (by rw [hpn]; exact h1) (by rw [hcur]; exact h2) (by rw [hlt]; exact h3)
      (by rw [hlt, sep_comm]; exact hF.s0 _ ht') (by rw [hlt]; exact fun e => hF.n0 _ ht' e.symm)
      (by rw [hpn, sep_comm]; exact hF.s0 _ hkc) (by rw [hpn]; exact fun e => hF.n0 _ hkc e.symm)
      (by rw [hcur, sep_comm]; exact hF.s0 _ hc0') (by rw [hcur]; exact fun e => hF.n0 _ hc0' e.symm)
      (by rw [hcur, hlt]; exact A_sep L hL _ _ hc0' ht') (by rw [hcur, hlt]; exact d1)
      (by rw [hpn, hlt]; exact A_sep L hL _ _ hkc ht') (by rw [hpn, hlt]; exact d2)
      (by rw [hcur, hpn]; exact A_sep L hL _ _ hkc hc0') (by rw [hcur, hpn]; exact d3)
  have gc := fun c (hc : L.ok c) => gen (L.A c) (A_sep L hL c _ hc hkc) (A_sep L hL c _ hc hc0') (A_sep L hL c _ hc ht')
  have g0 := gc _ hc0'
  -- the model's result
  unfold iteratorRemove at hok
  rw [hld] at hok
  simp only [Except.ok.injEq] at hok
  subst hok
  simp only
  have hn1 : (if h.tail it.list = Tail.node c0 then setTail h it.list (containerOf it.prevnext) else h).next c0 = h.next c0 := by
    split <;> rfl
  have hcond : (W mem (L.A (.tail it.list)) = L.A (.next c0)) ↔ h.tail it.list = .node c0 := by
    rw [htv]; exact encT_eq_next L hL _ (hC.tail _ hli) c0 hc0
  have hval : ∀ c, val L (setNext (store (if h.tail it.list = Tail.node c0 then setTail h it.list (containerOf it.prevnext) else h)
        it.prevnext (h.next c0)) c0 none) c =
      if c = .next c0 then 0#64 else if c = cellOf it.prevnext then encN L (h.next c0)
      else if h.tail it.list = .node c0 ∧ c = .tail it.list then L.A (cellOf it.prevnext) else val L h c := by
    intro c
    rw [val_setNext, val_store]
    by_cases e : h.tail it.list = .node c0
    · simp only [e, if_true, true_and, val_setTail, encT_containerOf, encN]
    · simp only [e, if_false, false_and, encN]
  rw [hn1]
  refine ⟨g0.1, g0.2.1, ?_, ?_, ?_, ⟨?_, ?_⟩⟩
  · rw [g0.2.2.1, hcur, hnx, ← val_cellOf, hval, if_neg hself, if_pos rfl]
  · intro c hc
    rw [(gc c hc).2.2.2, hcur, hpn, hlt, hnx, hR c hc, hval]
    simp only [A_inj L hL c _ hc hc0', A_inj L hL c _ hc hkc, A_inj L hL c _ hc ht', hcond]
  · have c1 : Closed L (if h.tail it.list = Tail.node c0 then setTail h it.list (containerOf it.prevnext) else h) := by
      split
      · exact closed_setTail L h hC _ _ (okT_containerOf L _ hk)
      · exact hC
    exact closed_setNext L _ (closed_store L _ c1 _ _ (fun m e => hC.next c0 m hc0 e)) c0 none (by intro m e; cases e)
  · have g1 := gen ia (by rw [sep_comm]; exact hF.s0 _ hkc) (by rw [sep_comm]; exact hF.s0 _ hc0') (by rw [sep_comm]; exact hF.s0 _ ht')
    rw [g1.2.2.2, hcur, hpn, hlt]
    have e1 : ¬ ia = L.A (.tail it.list) := fun e => hF.n0 _ ht' e.symm
    have e2 : ¬ ia = L.A (.next c0) := fun e => hF.n0 _ hc0' e.symm
    have e3 : ¬ ia = L.A (cellOf it.prevnext) := fun e => hF.n0 _ hkc e.symm
    simp only [e1, e2, e3, and_false, if_false]
  · have g1 := gen (ia + 8#64) (by rw [sep_comm]; exact hF.s8 _ hkc) (by rw [sep_comm]; exact hF.s8 _ hc0')
      (by rw [sep_comm]; exact hF.s8 _ ht')
    rw [g1.2.2.2, hcur, hpn, hlt]
    have e1 : ¬ ia + 8#64 = L.A (.tail it.list) := fun e => hF.n8 _ ht' e.symm
    have e2 : ¬ ia + 8#64 = L.A (.next c0) := fun e => hF.n8 _ hc0' e.symm
    have e3 : ¬ ia + 8#64 = L.A (cellOf it.prevnext) := fun e => hF.n8 _ hkc e.symm
    simp only [e1, e2, e3, and_false, if_false]
    exact hI.li

/-! ### the walks: `list_contains` and `list_remove` for lists of any length

`tools/c2lean2.py` translates the `for` loop of `list_contains` into the recursive definition `list_contains.loop1` (one unfolding =
condition, body, increment; a `fuel` argument).  The unfolding lemmas below are by computation; the tie is by induction on the fuel,
using `iterator_next_tie` for the step — so it holds for every list length, with no unrolling bound. -/

theorem loop1_exit (node iter : BitVec 64) (fuel : Nat) (d : Bool) (r : BitVec 8) (ub : Bool) (mem : Mem) :
    list_contains.loop1 node iter (fuel + 1) d r ub mem 0#64 = ⟨false, r, ub, mem, 0#64, false⟩ := by
  simp [list_contains.loop1, list_contains.loop1.step]

theorem loop1_found (node iter : BitVec 64) (fuel : Nat) (d : Bool) (r : BitVec 8) (ub : Bool) (mem : Mem) (hn : node ≠ 0#64) :
    list_contains.loop1 node iter (fuel + 1) d r ub mem node = ⟨true, 1#8, ub, mem, node, false⟩ := by
  simp [list_contains.loop1, list_contains.loop1.step, hn]

theorem loop1_next (node iter : BitVec 64) (fuel : Nat) (d : Bool) (r : BitVec 8) (ub : Bool) (mem : Mem) (curr : BitVec 64)
    (h0 : curr ≠ 0#64) (hn : curr ≠ node) :
    list_contains.loop1 node iter (fuel + 1) d r ub mem curr =
      list_contains.loop1 node iter fuel false r ub (list_iterator_next iter mem).mem (list_iterator_next iter mem).ret := by
  simp [list_contains.loop1, list_contains.loop1.step, list_iterator_next, h0, hn]

/-- the loop of `list_contains`, any number of iterations: whenever the model's loop finishes within the fuel, so does the generated
    one, with the model's answer, the model's iterator left in the iterator object, and the heap untouched -/
theorem contains_loop_tie (L : Lay) (hL : L.WF) (h : Heap) (hC : Closed L h) (ia : BitVec 64) (hF : Foreign L ia)
    (nd : Node) (hnd : L.okN nd) (r0 : BitVec 8) :
    ∀ (fuel : Nat) (mem : Mem) (it : Iter) (cur : Option Node) (d ub : Bool), Rep L mem h → IterAt L mem ia it → okLink L it.prevnext →
      load h it.prevnext = cur → ∀ it' b, containsLoop h nd fuel it cur = .ok (it', b) →
      (list_contains.loop1 (L.A (.next nd)) ia fuel d r0 ub mem (encN L cur)).exh = false ∧
      (list_contains.loop1 (L.A (.next nd)) ia fuel d r0 ub mem (encN L cur)).done = b ∧
      (list_contains.loop1 (L.A (.next nd)) ia fuel d r0 ub mem (encN L cur)).ret = (if b then 1#8 else r0) ∧
      Rep L (list_contains.loop1 (L.A (.next nd)) ia fuel d r0 ub mem (encN L cur)).mem h ∧
      IterAt L (list_contains.loop1 (L.A (.next nd)) ia fuel d r0 ub mem (encN L cur)).mem ia it' ∧
      (list_contains.loop1 (L.A (.next nd)) ia fuel d r0 ub mem (encN L cur)).ub = ub ∧
      okLink L it'.prevnext ∧ (b = true → load h it'.prevnext = some nd) ∧ it'.list = it.list := by
  intro fuel
  induction fuel with
  | zero => intro mem it cur d ub _ _ _ _ it' b e; simp [containsLoop] at e
  | succ fuel ih =>
    intro mem it cur d ub hR hI hk hld it' b e
    cases cur with
    | none =>
      simp only [containsLoop, Except.ok.injEq, Prod.mk.injEq] at e
      obtain ⟨e1, e2⟩ := e
      subst e1 e2
      simp only [encN, loop1_exit]
      refine ⟨?_, ?_, ?_, hR, hI, ?_, hk, ?_, trivial⟩ <;> simp
    | some c =>
      have hc : L.okN c := load_ok L h hC _ hk c hld
      simp only [containsLoop] at e
      by_cases hcn : c = nd
      · subst hcn
        simp only [if_true, Except.ok.injEq, Prod.mk.injEq] at e
        obtain ⟨e1, e2⟩ := e
        subst e1 e2
        simp only [encN, loop1_found _ _ _ _ _ _ _ (A_ne0 L hL (.next c) hc)]
        refine ⟨?_, ?_, ?_, hR, hI, ?_, hk, fun _ => hld, trivial⟩ <;> simp
      · rw [if_neg hcn] at e
        have hne : L.A (.next c) ≠ L.A (.next nd) := by
          rw [Ne, A_inj L hL _ _ (show L.ok (.next c) from hc) (show L.ok (.next nd) from hnd)]
          simpa using hcn
        obtain ⟨_, _, t3, t4, t5⟩ := iterator_next_tie L hL mem h hR hC ia hF it hI hk
        have hin : iteratorNext h it = ({ it with prevnext := .nextOf c }, h.next c) := by unfold iteratorNext; rw [hld]
        simp only [encN]
        rw [loop1_next _ _ _ _ _ _ _ _ (A_ne0 L hL (.next c) hc) hne, t3]
        rw [hin] at t5 e
        rw [hin]
        exact ih _ _ _ false ub t4 t5 hc rfl it' b e

/-- `list_contains(list, node, iter)` with a caller's iterator object: the call is `list_iterate` followed by the loop -/
theorem contains_unfold (fuel : Nat) (list node iter my : BitVec 64) (mem : Mem) (hi : iter ≠ 0#64) :
    list_contains fuel list node iter my mem =
      (let r := list_iterate list iter mem
       let s := list_contains.loop1 node iter fuel false 0#8 false r.mem r.ret
       { ret := if s.done then s.ret else 0#8, mem := s.mem, ub := s.ub, exh := (!s.done && s.exh) }) := by
  have hi' : ¬ (0#64 = iter) := fun e => hi e.symm
  simp [list_contains, list_iterate, hi']
  all_goals first | rfl | (split <;> rfl)

/-- **tie T, `list_contains`** (caller's iterator; any list length) -/
theorem contains_tie (L : Lay) (hL : L.WF) (mem : Mem) (h : Heap) (hR : Rep L mem h) (hC : Closed L h) (l : Lid) (hl : L.okL l)
    (nd : Node) (hnd : L.okN nd) (ia my : BitVec 64) (hF : Foreign L ia) (hi : ia ≠ 0#64)
    (fuel : Nat) (it' : Iter) (b : Bool) (hok : contains fuel h l nd = .ok (it', b)) :
    (list_contains fuel (L.A (.head l)) (L.A (.next nd)) ia my mem).ub = false ∧
    (list_contains fuel (L.A (.head l)) (L.A (.next nd)) ia my mem).exh = false ∧
    (list_contains fuel (L.A (.head l)) (L.A (.next nd)) ia my mem).ret = (if b then 1#8 else 0#8) ∧
    Rep L (list_contains fuel (L.A (.head l)) (L.A (.next nd)) ia my mem).mem h ∧
    IterAt L (list_contains fuel (L.A (.head l)) (L.A (.next nd)) ia my mem).mem ia it' ∧
    okLink L it'.prevnext ∧ (b = true → load h it'.prevnext = some nd) ∧ it'.list = l := by
  obtain ⟨_, _, i3, i4, i5⟩ := iterate_tie L mem h hR l hl ia hF
  unfold contains at hok
  have key := contains_loop_tie L hL h hC ia hF nd hnd 0#8 fuel _ (iterate h l).1 (iterate h l).2 false false i4 i5
    (show L.okL l from hl) rfl it' b hok
  rw [contains_unfold fuel _ _ ia my mem hi]
  simp only
  rw [i3]
  obtain ⟨k1, k2, k3, k4, k5, kub, k6, k7, k8⟩ := key
  refine ⟨kub, by rw [k1]; simp, ?_, k4, k5, k6, k7, k8⟩
  rw [k2, k3]
  cases b <;> rfl

/-- `list_remove(list, node)`: `list_contains` with the local iterator (the translator reuses the loop definition), then
    `list_iterator_remove` when found -/
theorem remove_unfold (fuel : Nat) (list node ia my : BitVec 64) (mem : Mem) (hi : ia ≠ 0#64) :
    (list_remove fuel list node ia my mem).ub = (list_contains fuel list node ia my mem).ub ∧
    (list_remove fuel list node ia my mem).exh = (list_contains fuel list node ia my mem).exh ∧
    (list_remove fuel list node ia my mem).ret = (if (list_contains fuel list node ia my mem).ret ≠ 0#8 then 1#8 else 0#8) ∧
    (list_remove fuel list node ia my mem).mem =
      (if (list_contains fuel list node ia my mem).ret ≠ 0#8 then (list_iterator_remove ia (list_contains fuel list node ia my mem).mem).mem
       else (list_contains fuel list node ia my mem).mem) := by
  have hi' : ¬ (0#64 = ia) := fun e => hi e.symm
  unfold list_remove list_contains list_iterator_remove
  simp only [hi', if_false, decide_false, Bool.false_eq_true]
  refine ⟨?_, ?_, ?_, ?_⟩
  · first | trivial | rfl
  · first | trivial | rfl
  · split <;> simp_all
  · split <;> simp_all

/-- **tie T, `list_remove`** (any list length; the node is not its own successor) -/
theorem remove_tie (L : Lay) (hL : L.WF) (mem : Mem) (h : Heap) (hR : Rep L mem h) (hC : Closed L h) (l : Lid) (hl : L.okL l)
    (nd : Node) (hnd : L.okN nd) (hns : h.next nd ≠ some nd) (ia my : BitVec 64) (hF : Foreign L ia) (hi : ia ≠ 0#64)
    (fuel : Nat) (h' : Heap) (b : Bool) (hok : remove fuel h l nd = .ok (h', b)) :
    (list_remove fuel (L.A (.head l)) (L.A (.next nd)) ia my mem).ub = false ∧
    (list_remove fuel (L.A (.head l)) (L.A (.next nd)) ia my mem).exh = false ∧
    (list_remove fuel (L.A (.head l)) (L.A (.next nd)) ia my mem).ret = (if b then 1#8 else 0#8) ∧
    Rep L (list_remove fuel (L.A (.head l)) (L.A (.next nd)) ia my mem).mem h' ∧ Closed L h' := by
  obtain ⟨u1, u2, u3, u4⟩ := remove_unfold fuel (L.A (.head l)) (L.A (.next nd)) ia my mem hi
  unfold remove at hok
  cases hc : contains fuel h l nd with
  | error e => rw [hc] at hok; cases hok
  | ok r =>
    obtain ⟨it', fb⟩ := r
    rw [hc] at hok
    obtain ⟨c1, c2, c3, c4, c5, c6, c7, c8⟩ := contains_tie L hL mem h hR hC l hl nd hnd ia my hF hi fuel it' fb hc
    cases fb with
    | false =>
      simp only [Except.ok.injEq, Prod.mk.injEq] at hok
      obtain ⟨e1, e2⟩ := hok
      subst e1 e2
      have hz : (list_contains fuel (L.A (.head l)) (L.A (.next nd)) ia my mem).ret = 0#8 := by rw [c3]; rfl
      refine ⟨by rw [u1]; exact c1, by rw [u2, c2], ?_, ?_, hC⟩
      · rw [u3, hz]; rfl
      · rw [u4, hz]; simpa using c4
    | true =>
      simp only at hok
      cases hr : iteratorRemove h it' with
      | error e => rw [hr] at hok; cases hok
      | ok r =>
        rw [hr] at hok
        simp only [Except.ok.injEq, Prod.mk.injEq] at hok
        obtain ⟨e1, e2⟩ := hok
        subst e1 e2
        have hld := c7 rfl
        have hself : cellOf it'.prevnext ≠ .next nd := by
          intro e
          cases hk : it'.prevnext with
          | headOf l' => rw [hk] at e; cases e
          | nextOf m =>
            rw [hk] at e hld
            simp only [cellOf, Cell.next.injEq] at e
            subst e
            exact hns hld
        have hli : L.okL it'.list := by rw [c8]; exact hl
        obtain ⟨_, _, _, r4, r5, _⟩ := iterator_remove_tie L hL _ h c4 hC ia hF it' c5 c6 hli nd hld hself r hr
        have hnz : (list_contains fuel (L.A (.head l)) (L.A (.next nd)) ia my mem).ret ≠ 0#8 := by rw [c3]; decide
        refine ⟨by rw [u1]; exact c1, by rw [u2, c2], ?_, ?_, r5⟩
        · rw [u3, if_pos hnz]; rfl
        · rw [u4, if_pos hnz]; exact r4

/-! ### `list_insert_sorted`: the comparator is a pure function (`nodecmp_fn`), the scan is a recursive definition -/

theorem sorted_stop (node : BitVec 64) (f : BitVec 64 → BitVec 64 → BitVec 32) (iter : BitVec 64) (fuel : Nat) (mem : Mem)
    (curr : BitVec 64) (ub : Bool) (hc : BitVec.sle 0#32 (f node curr) = false) :
    list_insert_sorted.loop1 node f iter (fuel + 1) ub mem curr = ⟨ub, mem, curr, false⟩ := by
  simp [list_insert_sorted.loop1, list_insert_sorted.loop1.step, hc]

theorem sorted_next (node : BitVec 64) (f : BitVec 64 → BitVec 64 → BitVec 32) (iter : BitVec 64) (fuel : Nat) (mem : Mem)
    (curr : BitVec 64) (ub : Bool) (hc : BitVec.sle 0#32 (f node curr) = true) :
    list_insert_sorted.loop1 node f iter (fuel + 1) ub mem curr =
      list_insert_sorted.loop1 node f iter fuel ub (list_iterator_next iter mem).mem (list_iterator_next iter mem).ret := by
  simp [list_insert_sorted.loop1, list_insert_sorted.loop1.step, list_iterator_next, hc]

/-- the comparator the C code calls agrees in sign with the model's -/
def CmpAgrees (L : Lay) (f : BitVec 64 → BitVec 64 → BitVec 32) (cmp : Node → Node → Int) : Prop :=
  ∀ a b, L.okN a → L.okN b → (BitVec.sle 0#32 (f (L.A (.next a)) (L.A (.next b))) = true ↔ cmp a b ≥ 0)

/-- the scan of `list_insert_sorted`, any number of iterations -/
theorem sorted_loop_tie (L : Lay) (hL : L.WF) (h : Heap) (hC : Closed L h) (ia : BitVec 64) (hF : Foreign L ia)
    (n : Node) (hn : L.okN n) (f : BitVec 64 → BitVec 64 → BitVec 32) (cmp : Node → Node → Int) (hcmp : CmpAgrees L f cmp) :
    ∀ (fuel : Nat) (mem : Mem) (it : Iter) (cur : Option Node) (ub : Bool), Rep L mem h → IterAt L mem ia it → okLink L it.prevnext →
      load h it.prevnext = cur → ∀ it', sortedLoop h cmp n fuel it cur = .ok it' →
      (list_insert_sorted.loop1 (L.A (.next n)) f ia fuel ub mem (encN L cur)).exh = false ∧
      (list_insert_sorted.loop1 (L.A (.next n)) f ia fuel ub mem (encN L cur)).ub = ub ∧
      Rep L (list_insert_sorted.loop1 (L.A (.next n)) f ia fuel ub mem (encN L cur)).mem h ∧
      IterAt L (list_insert_sorted.loop1 (L.A (.next n)) f ia fuel ub mem (encN L cur)).mem ia it' ∧
      okLink L it'.prevnext ∧ it'.list = it.list ∧ ∃ c, load h it'.prevnext = some c := by
  intro fuel
  induction fuel with
  | zero => intro mem it cur ub _ _ _ _ it' e; simp [sortedLoop] at e
  | succ fuel ih =>
    intro mem it cur ub hR hI hk hld it' e
    cases cur with
    | none => simp [sortedLoop] at e
    | some c =>
      have hc : L.okN c := load_ok L h hC _ hk c hld
      simp only [sortedLoop] at e
      by_cases hge : cmp n c ≥ 0
      · rw [if_pos hge] at e
        have hs : BitVec.sle 0#32 (f (L.A (.next n)) (L.A (.next c))) = true := (hcmp n c hn hc).2 hge
        obtain ⟨_, _, t3, t4, t5⟩ := iterator_next_tie L hL mem h hR hC ia hF it hI hk
        have hin : iteratorNext h it = ({ it with prevnext := .nextOf c }, h.next c) := by unfold iteratorNext; rw [hld]
        simp only [encN]
        rw [sorted_next _ _ _ _ _ _ _ hs, t3]
        rw [hin] at t5 e
        rw [hin]
        exact ih _ _ _ ub t4 t5 hc rfl it' e
      · rw [if_neg hge] at e
        simp only [Except.ok.injEq] at e
        subst e
        have hs : BitVec.sle 0#32 (f (L.A (.next n)) (L.A (.next c))) = false := by
          cases hb : BitVec.sle 0#32 (f (L.A (.next n)) (L.A (.next c))) with
          | false => rfl
          | true => exact absurd ((hcmp n c hn hc).1 hb) hge
        simp only [encN, sorted_stop _ _ _ _ _ _ _ hs]
        exact ⟨trivial, trivial, hR, hI, hk, trivial, c, hld⟩

theorem sorted_unfold_empty (fuel : Nat) (f : BitVec 64 → BitVec 64 → BitVec 32) (list node fp ia : BitVec 64) (mem : Mem)
    (h0 : Mem.load64 mem list = 0#64) :
    (list_insert_sorted fuel f list node fp ia mem).ub = false ∧ (list_insert_sorted fuel f list node fp ia mem).exh = false ∧
    (list_insert_sorted fuel f list node fp ia mem).mem = (list_insert list node mem).mem := by
  simp [list_insert_sorted, list_insert, h0]

theorem sorted_unfold_tail (fuel : Nat) (f : BitVec 64 → BitVec 64 → BitVec 32) (list node fp ia : BitVec 64) (mem : Mem)
    (h0 : Mem.load64 mem list ≠ 0#64) (hc : BitVec.sle 0#32 (f node (Mem.load64 mem (list + 8#64))) = true) :
    (list_insert_sorted fuel f list node fp ia mem).ub = false ∧ (list_insert_sorted fuel f list node fp ia mem).exh = false ∧
    (list_insert_sorted fuel f list node fp ia mem).mem = (list_insert list node mem).mem := by
  simp [list_insert_sorted, list_insert, h0, hc]

theorem sorted_unfold_scan (fuel : Nat) (f : BitVec 64 → BitVec 64 → BitVec 32) (list node fp ia : BitVec 64) (mem : Mem)
    (h0 : Mem.load64 mem list ≠ 0#64) (hc : BitVec.sle 0#32 (f node (Mem.load64 mem (list + 8#64))) = false) :
    (list_insert_sorted fuel f list node fp ia mem).ub =
      (list_insert_sorted.loop1 node f ia fuel false (list_iterate list ia mem).mem (list_iterate list ia mem).ret).ub ∧
    (list_insert_sorted fuel f list node fp ia mem).exh =
      (list_insert_sorted.loop1 node f ia fuel false (list_iterate list ia mem).mem (list_iterate list ia mem).ret).exh ∧
    (list_insert_sorted fuel f list node fp ia mem).mem =
      (list_iterator_insert ia node
        (list_insert_sorted.loop1 node f ia fuel false (list_iterate list ia mem).mem (list_iterate list ia mem).ret).mem).mem := by
  simp [list_insert_sorted, list_iterate, list_iterator_insert, h0, hc]

/-- **tie T, `list_insert_sorted`** (any list length; pure comparator agreeing in sign with the model's): the two fast paths are
    `list_insert`, the scan leaves the model's iterator and `list_iterator_insert` links the node in -/
theorem sorted_tie (L : Lay) (hL : L.WF) (mem : Mem) (h : Heap) (hR : Rep L mem h) (hC : Closed L h) (l : Lid) (hl : L.okL l)
    (n : Node) (hn : L.okN n) (f : BitVec 64 → BitVec 64 → BitVec 32) (cmp : Node → Node → Int) (hcmp : CmpAgrees L f cmp)
    (fp ia : BitVec 64) (hF : Foreign L ia) (fuel : Nat) (h' : Heap) (hok : insertSorted fuel h l n cmp = .ok h') :
    (list_insert_sorted fuel f (L.A (.head l)) (L.A (.next n)) fp ia mem).ub = false ∧
    (list_insert_sorted fuel f (L.A (.head l)) (L.A (.next n)) fp ia mem).exh = false ∧
    Rep L (list_insert_sorted fuel f (L.A (.head l)) (L.A (.next n)) fp ia mem).mem h' ∧ Closed L h' := by
  have hHead := hR (.head l) hl
  have hTail := hR (.tail l) hl
  rw [← A_tail L hL l hl] at hTail
  simp only [val] at hHead hTail
  have hnone : h.next n = none := by
    cases e : h.next n with
    | none => rfl
    | some m =>
      unfold insertSorted at hok
      rw [if_pos (by rw [e]; simp)] at hok
      cases hok
  unfold insertSorted at hok
  rw [if_neg (by rw [hnone]; simp)] at hok
  cases hh : h.head l with
  | none =>
    rw [hh] at hok
    have hz : W mem (L.A (.head l)) = 0#64 := by rw [hHead, hh]; rfl
    obtain ⟨u1, u2, u3⟩ := sorted_unfold_empty fuel f (L.A (.head l)) (L.A (.next n)) fp ia mem hz
    have hins : Librfn.Model.ListHeap.insert h l n = .ok h' := by
      unfold Librfn.Model.ListHeap.insert
      rw [if_neg (by rw [hnone]; simp), hh]; exact hok
    obtain ⟨_, _, i3, i4⟩ := insert_tie L hL mem h hR hC l n hl hn h' hins
    exact ⟨u1, u2, by rw [u3]; exact i3, i4⟩
  | some x =>
    rw [hh] at hok
    simp only at hok
    have hx : L.okN x := hC.head l x hl hh
    have hnz : W mem (L.A (.head l)) ≠ 0#64 := by rw [hHead, hh]; exact A_ne0 L hL (.next x) hx
    cases ht : h.tail l with
    | null => rw [ht] at hok; cases hok
    | listAsNode l' => rw [ht] at hok; cases hok
    | node t =>
      rw [ht] at hok
      simp only at hok
      have htk : L.okN t := by have := hC.tail l hl; rw [ht] at this; exact this
      have htl : W mem (L.A (.head l) + 8#64) = L.A (.next t) := by rw [hTail, ht]; rfl
      by_cases hge : cmp n t ≥ 0
      · rw [if_pos hge] at hok
        have hs : BitVec.sle 0#32 (f (L.A (.next n)) (W mem (L.A (.head l) + 8#64))) = true := by
          rw [htl]; exact (hcmp n t hn htk).2 hge
        obtain ⟨u1, u2, u3⟩ := sorted_unfold_tail fuel f (L.A (.head l)) (L.A (.next n)) fp ia mem hnz hs
        have hins : Librfn.Model.ListHeap.insert h l n = .ok h' := by
          unfold Librfn.Model.ListHeap.insert
          rw [if_neg (by rw [hnone]; simp), hh]; simp only; rw [ht]; exact hok
        obtain ⟨_, _, i3, i4⟩ := insert_tie L hL mem h hR hC l n hl hn h' hins
        exact ⟨u1, u2, by rw [u3]; exact i3, i4⟩
      · rw [if_neg hge] at hok
        have hs : BitVec.sle 0#32 (f (L.A (.next n)) (W mem (L.A (.head l) + 8#64))) = false := by
          rw [htl]
          cases hb : BitVec.sle 0#32 (f (L.A (.next n)) (L.A (.next t))) with
          | false => rfl
          | true => exact absurd ((hcmp n t hn htk).1 hb) hge
        obtain ⟨u1, u2, u3⟩ := sorted_unfold_scan fuel f (L.A (.head l)) (L.A (.next n)) fp ia mem hnz hs
        cases hsl : sortedLoop h cmp n fuel (iterate h l).1 (iterate h l).2 with
        | error e => rw [hsl] at hok; cases hok
        | ok it' =>
          rw [hsl] at hok
          simp only [Except.ok.injEq] at hok
          subst hok
          obtain ⟨_, _, i3, i4, i5⟩ := iterate_tie L mem h hR l hl ia hF
          obtain ⟨k1, kub, k2, k3, k4, k5, c, k6⟩ := sorted_loop_tie L hL h hC ia hF n hn f cmp hcmp fuel _ (iterate h l).1 (iterate h l).2 false
            i4 i5 (show L.okL l from hl) rfl it' hsl
          rw [← i3] at k1 k2 k3 kub
          have hself : cellOf it'.prevnext ≠ .next n := by
            intro e
            cases hk : it'.prevnext with
            | headOf l' => rw [hk] at e; cases e
            | nextOf m =>
              rw [hk] at e k6
              simp only [cellOf, Cell.next.injEq] at e
              subst e
              simp only [load] at k6
              rw [hnone] at k6; cases k6
          have hli : L.okL it'.list := by rw [k5]; exact hl
          obtain ⟨_, _, r3, r4, _⟩ := iterator_insert_tie L hL _ h k2 hC ia hF it' k3 k4 hli n hn hnone hself
          exact ⟨by rw [u1]; exact kub, by rw [u2]; exact k1, by rw [u3]; exact r3, r4⟩

/-! ### non-vacuity: the layout hypotheses are satisfiable (100 nodes and 100 lists in an array of words at 0x1000) -/

def exampleLay : Lay where
  base := 0x1000#64
  idx := fun c => match c with
    | .next n => 10 + n
    | .head l => 1000 + 2 * l
    | .tail l => 1001 + 2 * l
  okN := fun n => n < 100
  okL := fun l => l < 100

theorem exampleLay_ok_next (n : Nat) (h : exampleLay.ok (.next n)) : n < 100 := h
theorem exampleLay_ok_head (l : Nat) (h : exampleLay.ok (.head l)) : l < 100 := h
theorem exampleLay_ok_tail (l : Nat) (h : exampleLay.ok (.tail l)) : l < 100 := h
theorem exampleLay_idx_next (n : Nat) : exampleLay.idx (.next n) = (10 : Nat) + n := rfl
theorem exampleLay_idx_head (l : Nat) : exampleLay.idx (.head l) = (1000 : Nat) + 2 * l := rfl
theorem exampleLay_idx_tail (l : Nat) : exampleLay.idx (.tail l) = (1001 : Nat) + 2 * l := rfl

theorem next_inj (a b : Nat) (h : a = b) : Cell.next a = Cell.next b := by rw [h]
theorem head_inj (a b : Nat) (h : a = b) : Cell.head a = Cell.head b := by rw [h]
theorem tail_inj (a b : Nat) (h : a = b) : Cell.tail a = Cell.tail b := by rw [h]

theorem exampleLay_wf : exampleLay.WF where
  base_pos := by decide
  fits := by decide
  small := by
    intro c hc
    cases c with
    | next n => have := exampleLay_ok_next n hc; rw [exampleLay_idx_next]; omega
    | head l => have := exampleLay_ok_head l hc; rw [exampleLay_idx_head]; omega
    | tail l => have := exampleLay_ok_tail l hc; rw [exampleLay_idx_tail]; omega
  inj := by
    intro c c' hc hc' e
    cases c with
    | next n =>
      have := exampleLay_ok_next n hc
      cases c' with
      | next m => rw [exampleLay_idx_next, exampleLay_idx_next] at e; exact next_inj n m (by omega)
      | head l => have := exampleLay_ok_head l hc'; rw [exampleLay_idx_next, exampleLay_idx_head] at e; omega
      | tail l => have := exampleLay_ok_tail l hc'; rw [exampleLay_idx_next, exampleLay_idx_tail] at e; omega
    | head l =>
      have := exampleLay_ok_head l hc
      cases c' with
      | next m => have := exampleLay_ok_next m hc'; rw [exampleLay_idx_head, exampleLay_idx_next] at e; omega
      | head l' => rw [exampleLay_idx_head, exampleLay_idx_head] at e; exact head_inj l l' (by omega)
      | tail l' => rw [exampleLay_idx_head, exampleLay_idx_tail] at e; omega
    | tail l =>
      have := exampleLay_ok_tail l hc
      cases c' with
      | next m => have := exampleLay_ok_next m hc'; rw [exampleLay_idx_tail, exampleLay_idx_next] at e; omega
      | head l' => rw [exampleLay_idx_tail, exampleLay_idx_head] at e; omega
      | tail l' => rw [exampleLay_idx_tail, exampleLay_idx_tail] at e; exact tail_inj l l' (by omega)
  tail_next := by
    intro l _
    rw [exampleLay_idx_tail, exampleLay_idx_head]
    omega

/-- the all-NULL memory represents the heap in which every list is empty and no node is linked -/
example : Rep exampleLay (fun _ => 0#8) ⟨fun _ => none, fun _ => none, fun _ => .null⟩ := by
  intro c _
  cases c <;> simp [val, encN, encT, W, Mem.load64, Mem.load32]

end Librfn.C09.Tie

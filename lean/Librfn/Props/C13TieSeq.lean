import Librfn.Gen.WavSeq
import Librfn.Model.Wav
import Std.Tactic.BVDecide
/-!
# C13 / C14 — tie T for `wavheader.c` as a control skeleton with data

`Librfn.Gen.WavSeq.*` is regenerated from `/repo/librfn/wavheader.c` on every run by `tools/c2lean2.py`.  The pack
functions, `memcmp` and `memcpy` are *external* in this translation: the generated definitions take what they return as
parameters and report every call they execute, in order, with its arguments (`*.trace`); the scalar members of
`rf_wavheader_t` are parameters and results; the array members, the constant tables (`riff`, `wave`, `fmt `, `fact`,
`data`) and the local packer are identities (`tag_*`).  What is tied here is therefore everything `wavheader.c` itself
decides — which field is written with which packer in which order under which condition, every size computation, the
comparisons, the returned value — while what the callees do with those calls is the business of the `pack.c` tie
(`Props/C12Tie.lean`).

* `set_num_frames_tie`, `init_tie`, `validate_tie`: the scalar fields / the returned value are those of
  `Librfn.Model.Wav` for every structure and every argument, and the trace is the expected list of `memcmp` / `memcpy` calls.
* `encode_tie`: running the reported trace through the pack *model* (`runEnc`) is `Librfn.Model.Wav.encode`, and the
  returned value is `sz - rf_pack_remaining()`.
-/
namespace Librfn.C13.TieSeq
open Librfn.Gen Librfn.Gen.WavSeq
open Librfn.Model.Wav
open Librfn.Model.Pack hiding Mem

/-- a generated definition applied to the scalar members of a model structure -/
def onWh {α : Type} (f : BitVec 32 → BitVec 32 → BitVec 16 → BitVec 16 → BitVec 32 → BitVec 32 → BitVec 16 → BitVec 16 →
    BitVec 16 → BitVec 16 → BitVec 32 → BitVec 32 → BitVec 32 → BitVec 32 → α) (wh : Wh) : α :=
  f wh.chunkSize wh.fmtChunkSize wh.audioFormat wh.numChannels wh.sampleRate wh.byteRate wh.blockAlign wh.bitsPerSample
    wh.cbSize wh.validBitsPerSample wh.channelMask wh.factChunkSize wh.sampleLength wh.dataChunkSize

/-- what `memcmp(a, b, 4)` returns for two 4-byte arrays, as far as the code looks at it: zero iff equal -/
def cmpRet (a b : List UInt8) : BitVec 32 := if a = b then 0#32 else 1#32

/-! ### rf_wavheader_set_num_frames -/

theorem set_num_frames_generated (cs fcs : BitVec 32) (af nc : BitVec 16) (sr br : BitVec 32) (ba bps cb vb : BitVec 16)
    (cm fs sl ds nf mc : BitVec 32) :
    let g := rf_wavheader_set_num_frames cs fcs af nc sr br ba bps cb vb cm fs sl ds nf mc
    g.ub = false ∧ g.exh = false ∧ g.wh_fmt_chunk_size = fcs ∧ g.wh_audio_format = af ∧ g.wh_num_channels = nc ∧
    g.wh_sample_rate = sr ∧ g.wh_byte_rate = br ∧ g.wh_block_align = ba ∧ g.wh_bits_per_sample = bps ∧ g.wh_cb_size = cb ∧
    g.wh_valid_bits_per_sample = vb ∧ g.wh_channel_mask = cm ∧ g.wh_fact_chunk_size = fs ∧
    g.wh_data_chunk_size = nf * ba.setWidth 32 ∧
    g.wh_sample_length = (if mc = 0#32 then nf * nc.setWidth 32 else sl) ∧
    g.wh_chunk_size = cs - ds + nf * ba.setWidth 32 ∧
    g.memcmp_called_1 = true ∧ g.memcmp_arg_1_0 = rf_wavheader_set_num_frames.tag_fact ∧
    g.memcmp_arg_1_1 = rf_wavheader_set_num_frames.tag_wh_fact_chunk_id ∧ g.memcmp_arg_1_2 = 4#64 := by
  unfold rf_wavheader_set_num_frames rf_wavheader_set_num_frames.tag_fact rf_wavheader_set_num_frames.tag_wh_fact_chunk_id
  bv_decide (config := { timeout := 300 })

/-- **tie T, `rf_wavheader_set_num_frames`**: with `memcmp(fact, wh->fact_chunk_id, 4)` answering as the model compares, every
    scalar member afterwards is the model's -/
theorem set_num_frames_tie (wh : Wh) (nf : BitVec 32) :
    let g := onWh rf_wavheader_set_num_frames wh nf (cmpRet fact wh.factChunkId)
    g.ub = false ∧ g.exh = false ∧
    g.wh_chunk_size = (setNumFrames wh nf).chunkSize ∧ g.wh_data_chunk_size = (setNumFrames wh nf).dataChunkSize ∧
    g.wh_sample_length = (setNumFrames wh nf).sampleLength ∧
    g.wh_fmt_chunk_size = wh.fmtChunkSize ∧ g.wh_fact_chunk_size = wh.factChunkSize ∧ g.wh_block_align = wh.blockAlign ∧
    g.wh_num_channels = wh.numChannels := by
  obtain ⟨h1, h2, h3, _, h5, _, _, h8, _, _, _, _, h13, h14, h15, h16, _⟩ :=
    set_num_frames_generated wh.chunkSize wh.fmtChunkSize wh.audioFormat wh.numChannels wh.sampleRate wh.byteRate wh.blockAlign
      wh.bitsPerSample wh.cbSize wh.validBitsPerSample wh.channelMask wh.factChunkSize wh.sampleLength wh.dataChunkSize nf
      (cmpRet fact wh.factChunkId)
  refine ⟨h1, h2, ?_, ?_, ?_, h3, h13, h8, h5⟩
  · show (rf_wavheader_set_num_frames _ _ _ _ _ _ _ _ _ _ _ _ _ _ _ _).wh_chunk_size = _
    rw [h16]; rfl
  · show (rf_wavheader_set_num_frames _ _ _ _ _ _ _ _ _ _ _ _ _ _ _ _).wh_data_chunk_size = _
    rw [h14]; rfl
  · show (rf_wavheader_set_num_frames _ _ _ _ _ _ _ _ _ _ _ _ _ _ _ _).wh_sample_length = _
    rw [h15]
    unfold setNumFrames cmpRet
    by_cases h : wh.factChunkId = fact
    · have e : (if fact = wh.factChunkId then 0#32 else 1#32) = 0#32 := if_pos h.symm
      rw [e, if_pos rfl, if_pos h]
    · have hn : ¬ fact = wh.factChunkId := fun e => h e.symm
      have e : (if fact = wh.factChunkId then 0#32 else 1#32) = 1#32 := if_neg hn
      rw [e, if_neg (show ¬ (1#32 = 0#32) by decide), if_neg h]

/-! ### rf_wavheader_init -/

/-- the calls `rf_wavheader_init` must make: clear the structure, then copy the five identifiers (the fact identifier for
    the float format only) -/
def initTrace (isFloat : Bool) : List ExtCall :=
  [⟨"zeroed_wh", []⟩,
   ⟨"memcpy", [rf_wavheader_init.tag_wh_chunk_id, rf_wavheader_init.tag_riff, 4#64]⟩,
   ⟨"memcpy", [rf_wavheader_init.tag_wh_format, rf_wavheader_init.tag_wave, 4#64]⟩,
   ⟨"memcpy", [rf_wavheader_init.tag_wh_fmt_chunk_id, rf_wavheader_init.tag_fmt, 4#64]⟩] ++
  (if isFloat then [⟨"memcpy", [rf_wavheader_init.tag_wh_fact_chunk_id, rf_wavheader_init.tag_fact, 4#64]⟩] else []) ++
  [⟨"memcpy", [rf_wavheader_init.tag_wh_data_chunk_id, rf_wavheader_init.tag_data, 4#64]⟩]

/-- bytes per sample as `rf_wavheader_init` computes them (`uint8_t`, promoted to `int`) -/
def bpsBV (f : BitVec 32) : BitVec 32 := if f = 0#32 then 2#32 else 4#32

theorem init_generated (cs fcs : BitVec 32) (af nc : BitVec 16) (sr br : BitVec 32) (ba bps cb vb : BitVec 16)
    (cm fs sl ds sfreq nch f r1 r2 r3 r4 r5 : BitVec 32) (q1 q2 q3 q4 q5 : BitVec 64) :
    let g := rf_wavheader_init cs fcs af nc sr br ba bps cb vb cm fs sl ds sfreq nch f q1 q2 q3 q4 q5
    g.ub = false ∧ g.exh = false ∧
    g.wh_fmt_chunk_size = (if f = 2#32 then 18#32 else 16#32) ∧
    g.wh_chunk_size = 4#32 + (8#32 + (if f = 2#32 then 18#32 else 16#32)) + (if f = 2#32 then 12#32 else 0#32) + 8#32 ∧
    g.wh_audio_format = (if f = 2#32 then 3#16 else 1#16) ∧ g.wh_num_channels = nch.setWidth 16 ∧ g.wh_sample_rate = sfreq ∧
    g.wh_byte_rate = sfreq * bpsBV f * nch ∧ g.wh_block_align = (bpsBV f * nch).setWidth 16 ∧
    g.wh_bits_per_sample = (bpsBV f * 8#32).setWidth 16 ∧ g.wh_cb_size = 0#16 ∧ g.wh_valid_bits_per_sample = 0#16 ∧
    g.wh_channel_mask = 0#32 ∧ g.wh_fact_chunk_size = (if f = 2#32 then 12#32 else 0#32) ∧ g.wh_sample_length = 0#32 ∧
    g.wh_data_chunk_size = 0#32 := by
  unfold rf_wavheader_init bpsBV
  by_cases h0 : f = 0#32
  · subst h0
    bv_decide (config := { timeout := 300 })
  · have hb : (f == 0#32) = false := by simpa using h0
    simp only [hb, h0, if_false, Bool.false_eq_true]
    bv_decide (config := { timeout := 300 })

theorem init_trace_generated (cs fcs : BitVec 32) (af nc : BitVec 16) (sr br : BitVec 32) (ba bps cb vb : BitVec 16)
    (cm fs sl ds sfreq nch f : BitVec 32) (q1 q2 q3 q4 q5 : BitVec 64) :
    rf_wavheader_init.trace (rf_wavheader_init cs fcs af nc sr br ba bps cb vb cm fs sl ds sfreq nch f q1 q2 q3 q4 q5) = initTrace (f == 2#32) := by
  unfold rf_wavheader_init.trace initTrace rf_wavheader_init
  by_cases h : f = 2#32
  · subst h; rfl
  · have hb : (f == 2#32) = false := by simpa using h
    simp [hb]
    decide

/-- **tie T, `rf_wavheader_init`** (`format` = the enumeration value; anything but `FLOAT` = 2 / `S16LE` = 0 is treated like
    `S32LE`, as the C does): every scalar member is the model's, whatever the structure held before -/
theorem init_tie (prior wh0 : Wh) (sfreq nch f : BitVec 32) (q1 q2 q3 q4 q5 : BitVec 64) :
    let g := onWh rf_wavheader_init wh0 sfreq nch f q1 q2 q3 q4 q5
    let m := Librfn.Model.Wav.init prior sfreq nch f.toInt
    g.ub = false ∧ g.exh = false ∧ rf_wavheader_init.trace g = initTrace (f == 2#32) ∧
    g.wh_chunk_size = m.chunkSize ∧ g.wh_fmt_chunk_size = m.fmtChunkSize ∧ g.wh_audio_format = m.audioFormat ∧
    g.wh_num_channels = m.numChannels ∧ g.wh_sample_rate = m.sampleRate ∧ g.wh_byte_rate = m.byteRate ∧
    g.wh_block_align = m.blockAlign ∧ g.wh_bits_per_sample = m.bitsPerSample ∧ g.wh_cb_size = m.cbSize ∧
    g.wh_valid_bits_per_sample = m.validBitsPerSample ∧ g.wh_channel_mask = m.channelMask ∧
    g.wh_fact_chunk_size = m.factChunkSize ∧ g.wh_sample_length = m.sampleLength ∧ g.wh_data_chunk_size = m.dataChunkSize := by
  unfold onWh
  obtain ⟨h1, h2, h3, h4, h5, h6, h7, h8, h9, h10, h11, h12, h13, h14, h15, h16⟩ :=
    init_generated wh0.chunkSize wh0.fmtChunkSize wh0.audioFormat wh0.numChannels wh0.sampleRate wh0.byteRate wh0.blockAlign
      wh0.bitsPerSample wh0.cbSize wh0.validBitsPerSample wh0.channelMask wh0.factChunkSize wh0.sampleLength wh0.dataChunkSize
      sfreq nch f 0 0 0 0 0 q1 q2 q3 q4 q5
  have ht := init_trace_generated wh0.chunkSize wh0.fmtChunkSize wh0.audioFormat wh0.numChannels wh0.sampleRate wh0.byteRate
      wh0.blockAlign wh0.bitsPerSample wh0.cbSize wh0.validBitsPerSample wh0.channelMask wh0.factChunkSize wh0.sampleLength
      wh0.dataChunkSize sfreq nch f q1 q2 q3 q4 q5
  have e2 : (f.toInt = 2) ↔ f = 2#32 := by
    constructor
    · intro h; apply BitVec.eq_of_toInt_eq; rw [h]; rfl
    · intro h; rw [h]; rfl
  have e0 : (f.toInt = 0) ↔ f = 0#32 := by
    constructor
    · intro h; apply BitVec.eq_of_toInt_eq; rw [h]; rfl
    · intro h; rw [h]; rfl
  refine ⟨h1, h2, ht, ?_, ?_, ?_, ?_, ?_, ?_, ?_, ?_, ?_, ?_, ?_, ?_, ?_, ?_⟩
  all_goals (first | (rw [h4]) | (rw [h3]) | (rw [h5]) | (rw [h6]) | (rw [h7]) | (rw [h8]) | (rw [h9]) | (rw [h10]) | (rw [h11]) | (rw [h12]) | (rw [h13]) | (rw [h14]) | (rw [h15]) | (rw [h16]))
  all_goals (unfold Librfn.Model.Wav.init; by_cases c2 : f = 2#32 <;> by_cases c0 : f = 0#32 <;> simp [bpsBV, c2, c0, e2, e0, Wh.zero])

/-! ### rf_wavheader_validate -/

theorem validate_generated (cs fcs : BitVec 32) (af nc : BitVec 16) (sr br : BitVec 32) (ba bps cb vb : BitVec 16)
    (cm fs sl ds m1 m2 m3 m4 : BitVec 32) :
    let g := rf_wavheader_validate cs fcs af nc sr br ba bps cb vb cm fs sl ds m1 m2 m3 m4
    g.ub = false ∧ g.exh = false ∧
    g.ret = (if m1 != 0#32 then 0xffffffea#32 else if BitVec.ult cs (12#32 + fcs + fs) then 0xffffffea#32
             else if m2 != 0#32 then 0xffffffea#32 else if m3 != 0#32 then 0xffffffea#32
             else if m4 != 0#32 then 0xffffffea#32 else 0#32) ∧
    g.memcmp_called_1 = true ∧ g.memcmp_arg_1_0 = rf_wavheader_validate.tag_riff ∧ g.memcmp_arg_1_1 = rf_wavheader_validate.tag_wh_chunk_id ∧
    g.memcmp_called_2 = (m1 == 0#32 && !BitVec.ult cs (12#32 + fcs + fs)) ∧
    g.memcmp_arg_2_0 = rf_wavheader_validate.tag_wave ∧ g.memcmp_arg_2_1 = rf_wavheader_validate.tag_wh_format ∧
    g.memcmp_called_3 = (g.memcmp_called_2 && m2 == 0#32) ∧
    g.memcmp_arg_3_0 = rf_wavheader_validate.tag_fmt ∧ g.memcmp_arg_3_1 = rf_wavheader_validate.tag_wh_fmt_chunk_id ∧
    g.memcmp_called_4 = (g.memcmp_called_3 && m3 == 0#32) ∧
    g.memcmp_arg_4_0 = rf_wavheader_validate.tag_data ∧ g.memcmp_arg_4_1 = rf_wavheader_validate.tag_wh_data_chunk_id ∧
    g.memcmp_arg_1_2 = 4#64 ∧ g.memcmp_arg_2_2 = 4#64 ∧ g.memcmp_arg_3_2 = 4#64 ∧ g.memcmp_arg_4_2 = 4#64 ∧
    g.wh_chunk_size = cs ∧ g.wh_fmt_chunk_size = fcs ∧ g.wh_fact_chunk_size = fs ∧ g.wh_data_chunk_size = ds := by
  unfold rf_wavheader_validate rf_wavheader_validate.tag_riff rf_wavheader_validate.tag_wh_chunk_id rf_wavheader_validate.tag_wave
    rf_wavheader_validate.tag_wh_format rf_wavheader_validate.tag_fmt rf_wavheader_validate.tag_wh_fmt_chunk_id
    rf_wavheader_validate.tag_data rf_wavheader_validate.tag_wh_data_chunk_id
  bv_decide (config := { timeout := 300 })

/-- **tie T, `rf_wavheader_validate`**: with each `memcmp` answering as the model compares, the returned value is the model's
    (0 or `-EINVAL`) -/
theorem validate_tie (wh : Wh) :
    let g := onWh rf_wavheader_validate wh (cmpRet riff wh.chunkId) (cmpRet wave wh.format) (cmpRet fmtId wh.fmtChunkId)
      (cmpRet data wh.dataChunkId)
    g.ub = false ∧ g.exh = false ∧ g.ret.toInt = validate wh := by
  unfold onWh
  obtain ⟨h1, h2, h3, _⟩ := validate_generated wh.chunkSize wh.fmtChunkSize wh.audioFormat wh.numChannels wh.sampleRate wh.byteRate
    wh.blockAlign wh.bitsPerSample wh.cbSize wh.validBitsPerSample wh.channelMask wh.factChunkSize wh.sampleLength wh.dataChunkSize
    (cmpRet riff wh.chunkId) (cmpRet wave wh.format) (cmpRet fmtId wh.fmtChunkId) (cmpRet data wh.dataChunkId)
  refine ⟨h1, h2, ?_⟩
  rw [h3]
  have c (a b : List UInt8) : (cmpRet a b != 0#32) = decide (b ≠ a) := by
    unfold cmpRet
    by_cases h : a = b
    · subst h; simp
    · have : ¬ b = a := fun e => h e.symm
      simp [h, this]
  have hlt : BitVec.ult wh.chunkSize (12#32 + wh.fmtChunkSize + wh.factChunkSize) = decide (wh.chunkSize < 12#32 + wh.fmtChunkSize + wh.factChunkSize) := by
    simp [BitVec.ult, BitVec.lt_def]
  rw [c, c, c, c, hlt]
  unfold validate EINVAL
  by_cases a1 : wh.chunkId ≠ riff
  · simp [a1]
  · by_cases a2 : wh.chunkSize < 12#32 + wh.fmtChunkSize + wh.factChunkSize
    · simp [a1, a2]
    · by_cases a3 : wh.format ≠ wave
      · simp [a1, a2, a3]
      · by_cases a4 : wh.fmtChunkId ≠ fmtId
        · simp [a1, a2, a3, a4]
        · by_cases a5 : wh.dataChunkId ≠ data
          · simp [a1, a2, a3, a4, a5]
          · simp [a1, a2, a3, a4, a5]

/-! ### rf_wavheader_encode -/

/-- every call `rf_wavheader_encode` makes: under which condition, with which arguments (generated code, all inputs) -/
theorem encode_generated (cs fcs : BitVec 32) (af nc : BitVec 16) (sr br : BitVec 32) (ba bps cb vb : BitVec 16)
    (cm fs sl ds : BitVec 32) (p : BitVec 64) (sz mc rem : BitVec 32) :
    let g := rf_wavheader_encode cs fcs af nc sr br ba bps cb vb cm fs sl ds p sz mc rem
    g.ub = false ∧
    g.exh = false ∧
    g.ret = sz - rem ∧
    g.rf_pack_init_called_1 = true ∧
    (g.rf_pack_init_called_1 = true → g.rf_pack_init_arg_1_0 = rf_wavheader_encode.tag_local_pack) ∧
    (g.rf_pack_init_called_1 = true → g.rf_pack_init_arg_1_1 = p) ∧
    (g.rf_pack_init_called_1 = true → g.rf_pack_init_arg_1_2 = sz) ∧
    g.rf_pack_bytes_called_1 = true ∧
    (g.rf_pack_bytes_called_1 = true → g.rf_pack_bytes_arg_1_0 = rf_wavheader_encode.tag_local_pack) ∧
    (g.rf_pack_bytes_called_1 = true → g.rf_pack_bytes_arg_1_1 = rf_wavheader_encode.tag_wh_chunk_id) ∧
    (g.rf_pack_bytes_called_1 = true → g.rf_pack_bytes_arg_1_2 = 4#32) ∧
    g.rf_pack_u32le_called_1 = true ∧
    (g.rf_pack_u32le_called_1 = true → g.rf_pack_u32le_arg_1_0 = rf_wavheader_encode.tag_local_pack) ∧
    (g.rf_pack_u32le_called_1 = true → g.rf_pack_u32le_arg_1_1 = cs) ∧
    g.rf_pack_bytes_called_2 = true ∧
    (g.rf_pack_bytes_called_2 = true → g.rf_pack_bytes_arg_2_0 = rf_wavheader_encode.tag_local_pack) ∧
    (g.rf_pack_bytes_called_2 = true → g.rf_pack_bytes_arg_2_1 = rf_wavheader_encode.tag_wh_format) ∧
    (g.rf_pack_bytes_called_2 = true → g.rf_pack_bytes_arg_2_2 = 4#32) ∧
    g.rf_pack_bytes_called_3 = true ∧
    (g.rf_pack_bytes_called_3 = true → g.rf_pack_bytes_arg_3_0 = rf_wavheader_encode.tag_local_pack) ∧
    (g.rf_pack_bytes_called_3 = true → g.rf_pack_bytes_arg_3_1 = rf_wavheader_encode.tag_wh_fmt_chunk_id) ∧
    (g.rf_pack_bytes_called_3 = true → g.rf_pack_bytes_arg_3_2 = 4#32) ∧
    g.rf_pack_u32le_called_2 = true ∧
    (g.rf_pack_u32le_called_2 = true → g.rf_pack_u32le_arg_2_0 = rf_wavheader_encode.tag_local_pack) ∧
    (g.rf_pack_u32le_called_2 = true → g.rf_pack_u32le_arg_2_1 = fcs) ∧
    g.rf_pack_u16le_called_1 = true ∧
    (g.rf_pack_u16le_called_1 = true → g.rf_pack_u16le_arg_1_0 = rf_wavheader_encode.tag_local_pack) ∧
    (g.rf_pack_u16le_called_1 = true → g.rf_pack_u16le_arg_1_1 = af) ∧
    g.rf_pack_u16le_called_2 = true ∧
    (g.rf_pack_u16le_called_2 = true → g.rf_pack_u16le_arg_2_0 = rf_wavheader_encode.tag_local_pack) ∧
    (g.rf_pack_u16le_called_2 = true → g.rf_pack_u16le_arg_2_1 = nc) ∧
    g.rf_pack_u32le_called_3 = true ∧
    (g.rf_pack_u32le_called_3 = true → g.rf_pack_u32le_arg_3_0 = rf_wavheader_encode.tag_local_pack) ∧
    (g.rf_pack_u32le_called_3 = true → g.rf_pack_u32le_arg_3_1 = sr) ∧
    g.rf_pack_u32le_called_4 = true ∧
    (g.rf_pack_u32le_called_4 = true → g.rf_pack_u32le_arg_4_0 = rf_wavheader_encode.tag_local_pack) ∧
    (g.rf_pack_u32le_called_4 = true → g.rf_pack_u32le_arg_4_1 = br) ∧
    g.rf_pack_u16le_called_3 = true ∧
    (g.rf_pack_u16le_called_3 = true → g.rf_pack_u16le_arg_3_0 = rf_wavheader_encode.tag_local_pack) ∧
    (g.rf_pack_u16le_called_3 = true → g.rf_pack_u16le_arg_3_1 = ba) ∧
    g.rf_pack_u16le_called_4 = true ∧
    (g.rf_pack_u16le_called_4 = true → g.rf_pack_u16le_arg_4_0 = rf_wavheader_encode.tag_local_pack) ∧
    (g.rf_pack_u16le_called_4 = true → g.rf_pack_u16le_arg_4_1 = bps) ∧
    g.rf_pack_u16le_called_5 = BitVec.ule 18#32 fcs ∧
    (g.rf_pack_u16le_called_5 = true → g.rf_pack_u16le_arg_5_0 = rf_wavheader_encode.tag_local_pack) ∧
    (g.rf_pack_u16le_called_5 = true → g.rf_pack_u16le_arg_5_1 = cb) ∧
    g.rf_pack_u16le_called_6 = (BitVec.ule 18#32 fcs && cb == 22#16) ∧
    (g.rf_pack_u16le_called_6 = true → g.rf_pack_u16le_arg_6_0 = rf_wavheader_encode.tag_local_pack) ∧
    (g.rf_pack_u16le_called_6 = true → g.rf_pack_u16le_arg_6_1 = vb) ∧
    g.rf_pack_u32le_called_5 = (BitVec.ule 18#32 fcs && cb == 22#16) ∧
    (g.rf_pack_u32le_called_5 = true → g.rf_pack_u32le_arg_5_0 = rf_wavheader_encode.tag_local_pack) ∧
    (g.rf_pack_u32le_called_5 = true → g.rf_pack_u32le_arg_5_1 = cm) ∧
    g.rf_pack_bytes_called_4 = (BitVec.ule 18#32 fcs && cb == 22#16) ∧
    (g.rf_pack_bytes_called_4 = true → g.rf_pack_bytes_arg_4_0 = rf_wavheader_encode.tag_local_pack) ∧
    (g.rf_pack_bytes_called_4 = true → g.rf_pack_bytes_arg_4_1 = rf_wavheader_encode.tag_wh_sub_format) ∧
    (g.rf_pack_bytes_called_4 = true → g.rf_pack_bytes_arg_4_2 = 16#32) ∧
    g.rf_pack_bytes_called_5 = (BitVec.ule 18#32 fcs && !(cb == 22#16)) ∧
    (g.rf_pack_bytes_called_5 = true → g.rf_pack_bytes_arg_5_0 = rf_wavheader_encode.tag_local_pack) ∧
    (g.rf_pack_bytes_called_5 = true → g.rf_pack_bytes_arg_5_1 = 0#64) ∧
    (g.rf_pack_bytes_called_5 = true → g.rf_pack_bytes_arg_5_2 = fcs - 18#32) ∧
    g.memcmp_called_1 = true ∧
    (g.memcmp_called_1 = true → g.memcmp_arg_1_0 = rf_wavheader_encode.tag_fact) ∧
    (g.memcmp_called_1 = true → g.memcmp_arg_1_1 = rf_wavheader_encode.tag_wh_fact_chunk_id) ∧
    (g.memcmp_called_1 = true → g.memcmp_arg_1_2 = 4#64) ∧
    g.rf_pack_bytes_called_6 = (mc == 0#32) ∧
    (g.rf_pack_bytes_called_6 = true → g.rf_pack_bytes_arg_6_0 = rf_wavheader_encode.tag_local_pack) ∧
    (g.rf_pack_bytes_called_6 = true → g.rf_pack_bytes_arg_6_1 = rf_wavheader_encode.tag_wh_fact_chunk_id) ∧
    (g.rf_pack_bytes_called_6 = true → g.rf_pack_bytes_arg_6_2 = 4#32) ∧
    g.rf_pack_u32le_called_6 = (mc == 0#32) ∧
    (g.rf_pack_u32le_called_6 = true → g.rf_pack_u32le_arg_6_0 = rf_wavheader_encode.tag_local_pack) ∧
    (g.rf_pack_u32le_called_6 = true → g.rf_pack_u32le_arg_6_1 = fs) ∧
    g.rf_pack_u32le_called_7 = (mc == 0#32) ∧
    (g.rf_pack_u32le_called_7 = true → g.rf_pack_u32le_arg_7_0 = rf_wavheader_encode.tag_local_pack) ∧
    (g.rf_pack_u32le_called_7 = true → g.rf_pack_u32le_arg_7_1 = sl) ∧
    g.rf_pack_bytes_called_7 = true ∧
    (g.rf_pack_bytes_called_7 = true → g.rf_pack_bytes_arg_7_0 = rf_wavheader_encode.tag_local_pack) ∧
    (g.rf_pack_bytes_called_7 = true → g.rf_pack_bytes_arg_7_1 = rf_wavheader_encode.tag_wh_data_chunk_id) ∧
    (g.rf_pack_bytes_called_7 = true → g.rf_pack_bytes_arg_7_2 = 4#32) ∧
    g.rf_pack_u32le_called_8 = true ∧
    (g.rf_pack_u32le_called_8 = true → g.rf_pack_u32le_arg_8_0 = rf_wavheader_encode.tag_local_pack) ∧
    (g.rf_pack_u32le_called_8 = true → g.rf_pack_u32le_arg_8_1 = ds) ∧
    g.rf_pack_remaining_called_1 = true ∧
    (g.rf_pack_remaining_called_1 = true → g.rf_pack_remaining_arg_1_0 = rf_wavheader_encode.tag_local_pack) := by
  unfold rf_wavheader_encode rf_wavheader_encode.tag_local_pack rf_wavheader_encode.tag_wh_chunk_id rf_wavheader_encode.tag_wh_format rf_wavheader_encode.tag_wh_fmt_chunk_id rf_wavheader_encode.tag_wh_sub_format rf_wavheader_encode.tag_wh_fact_chunk_id rf_wavheader_encode.tag_wh_data_chunk_id rf_wavheader_encode.tag_fact
  bv_decide (config := { timeout := 300 })

/-- the array member of the model structure that a tag names -/
def fieldOfTag (wh : Wh) (t : BitVec 64) : List UInt8 :=
  if t = rf_wavheader_encode.tag_wh_chunk_id then wh.chunkId
  else if t = rf_wavheader_encode.tag_wh_format then wh.format
  else if t = rf_wavheader_encode.tag_wh_fmt_chunk_id then wh.fmtChunkId
  else if t = rf_wavheader_encode.tag_wh_sub_format then wh.subFormat
  else if t = rf_wavheader_encode.tag_wh_fact_chunk_id then wh.factChunkId
  else if t = rf_wavheader_encode.tag_wh_data_chunk_id then wh.dataChunkId
  else []

/-- one reported call of the encoder, executed by the pack *model*: the scalar packers take the value they were given, a
    `rf_pack_bytes` with a source takes the array member the tag names (its length must be the length passed), one without
    source is `rf_pack_bytes(pack, NULL, n)`; `rf_pack_init`, `memcmp`, `rf_pack_remaining` do not touch the buffer -/
def stepEnc (wh : Wh) (c : ExtCall) (s : Librfn.Model.Pack.Mem × Pk) : Librfn.Model.Pack.Mem × Pk :=
  if c.name = "rf_pack_u32le" then packU32le s.1 s.2 ((c.args.getD 1 0).setWidth 32)
  else if c.name = "rf_pack_u16le" then packU16le s.1 s.2 ((c.args.getD 1 0).setWidth 16)
  else if c.name = "rf_pack_bytes" then
    (if c.args.getD 1 0 = 0#64 then packNull s.1 s.2 ((c.args.getD 2 0).setWidth 32).toNat
     else if (fieldOfTag wh (c.args.getD 1 0)).length = ((c.args.getD 2 0).setWidth 32).toNat
       then packBytes s.1 s.2 (fieldOfTag wh (c.args.getD 1 0)) else s)
  else s

def runEnc (wh : Wh) : List ExtCall → Librfn.Model.Pack.Mem × Pk → Librfn.Model.Pack.Mem × Pk
  | [], s => s
  | c :: cs, s => runEnc wh cs (stepEnc wh c s)

theorem runEnc_append (wh : Wh) (a b : List ExtCall) (s : Librfn.Model.Pack.Mem × Pk) :
    runEnc wh (a ++ b) s = runEnc wh b (runEnc wh a s) := by
  induction a generalizing s with
  | nil => rfl
  | cons c cs ih => simp only [List.cons_append, runEnc]; exact ih _

/-- **tie T, `rf_wavheader_encode`**: the calls the C function reports, run through the pack model from the freshly
    initialised packer, leave the memory and the cursor that `Librfn.Model.Wav.encode` computes; the returned value is
    `sz - rf_pack_remaining(&pack)` -/
theorem encode_tie (wh : Wh) (hw : wh.WF) (m : Librfn.Model.Pack.Mem) (b sz : Nat) (p : BitVec 64) (szb rem : BitVec 32) :
    let g := onWh rf_wavheader_encode wh p szb (cmpRet fact wh.factChunkId) rem
    g.ub = false ∧ g.exh = false ∧ g.ret = szb - rem ∧
    runEnc wh (rf_wavheader_encode.trace g) (m, Librfn.Model.Pack.init b sz) = encTail wh (encExt wh (encHead wh m (Librfn.Model.Pack.init b sz))) := by
  unfold onWh
  have H := encode_generated wh.chunkSize wh.fmtChunkSize wh.audioFormat wh.numChannels wh.sampleRate wh.byteRate wh.blockAlign
    wh.bitsPerSample wh.cbSize wh.validBitsPerSample wh.channelMask wh.factChunkSize wh.sampleLength wh.dataChunkSize p szb
    (cmpRet fact wh.factChunkId) rem
  refine ⟨H.1, H.2.1, H.2.2.1, ?_⟩
  have l1 := hw.chunkId; have l2 := hw.format; have l3 := hw.fmtChunkId; have l4 := hw.subFormat
  have l5 := hw.factChunkId; have l6 := hw.dataChunkId
  have c18 : BitVec.ule 18#32 wh.fmtChunkSize = decide (18#32 ≤ wh.fmtChunkSize) := by simp [BitVec.ule, BitVec.le_def]
  unfold rf_wavheader_encode.trace rf_wavheader_encode encTail encExt encHead
  have hfl : fact.length = 4 := rfl
  have c22 : (22#32 = BitVec.setWidth 32 wh.cbSize) = (wh.cbSize = 22#16) := by
    apply propext; constructor <;> intro h <;> bv_decide (config := { timeout := 300 })
  by_cases a : 18#32 ≤ wh.fmtChunkSize <;> by_cases bq : wh.cbSize = 22#16 <;> by_cases f : wh.factChunkId = fact <;>
    (have f' : (fact = wh.factChunkId) = (wh.factChunkId = fact) := propext eq_comm) <;>
    simp [runEnc, stepEnc, fieldOfTag, cmpRet, c18, c22, a, bq, f, f', hfl, l1, l2, l3, l4, l5, l6,
      rf_wavheader_encode.tag_wh_chunk_id, rf_wavheader_encode.tag_wh_format, rf_wavheader_encode.tag_wh_fmt_chunk_id,
      rf_wavheader_encode.tag_wh_sub_format, rf_wavheader_encode.tag_wh_fact_chunk_id, rf_wavheader_encode.tag_wh_data_chunk_id,
      rf_wavheader_encode.tag_local_pack, rf_wavheader_encode.tag_fact]

end Librfn.C13.TieSeq

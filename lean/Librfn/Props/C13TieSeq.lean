import Librfn.Gen.WavSeq
import Librfn.Model.Wav
import Std.Tactic.BVDecide
/-!
# C13 / C14 — tie T for `wavheader.c` as a control skeleton with data

`Librfn.Gen.WavSeq.*` is regenerated from `/repo/librfn/wavheader.c` on every run by `tools/c2lean2.py`.  The pack
functions, `memcmp` and `memcpy` are *external* in this translation: the generated definitions take what they return as
parameters and report every call they execute, in order, with its arguments (`*.trace`); the scalar members of
`rf_wavheader_t` are parameters and results; the array members, the constant tables (`riff`, `wave`, `fmt `, `fact`,
`data`) and the local packer are identities (`tag_*`).  What is tied here is therefore everything `wavheader.c` itself
decides — which field is written with which packer in which order under which condition, every size computation, the
comparisons, the returned value — while what the callees do with those calls is the business of the `pack.c` tie
(`Props/C12Tie.lean`).

* `set_num_frames_tie`, `init_tie`, `validate_tie`: the scalar fields / the returned value are those of
  `Librfn.Model.Wav` for every structure and every argument, and the trace is the expected list of `memcmp` / `memcpy` calls.
* `encode_tie`: running the reported trace through the pack *model* (`runEnc`) is `Librfn.Model.Wav.encode`, and the
  returned value is `sz - rf_pack_remaining()`.
-/
namespace Librfn.C13.TieSeq
open Librfn.Gen Librfn.Gen.WavSeq
open Librfn.Model.Wav
open Librfn.Model.Pack hiding Mem

/-- a generated definition applied to the scalar members of a model structure -/
def onWh {α : Type} (f : BitVec 32 → BitVec 32 → BitVec 16 → BitVec 16 → BitVec 32 → BitVec 32 → BitVec 16 → BitVec 16 →
    BitVec 16 → BitVec 16 → BitVec 32 → BitVec 32 → BitVec 32 → BitVec 32 → α) (wh : Wh) : α :=
  f wh.chunkSize wh.fmtChunkSize wh.audioFormat wh.numChannels wh.sampleRate wh.byteRate wh.blockAlign wh.bitsPerSample
    wh.cbSize wh.validBitsPerSample wh.channelMask wh.factChunkSize wh.sampleLength wh.dataChunkSize

/-- what `memcmp(a, b, 4)` returns for two 4-byte arrays, as far as the code looks at it: zero iff equal -/
def cmpRet (a b : List UInt8) : BitVec 32 := if a = b then 0#32 else 1#32

/-! ### rf_wavheader_set_num_frames -/

theorem set_num_frames_generated (cs fcs : BitVec 32) (af nc : BitVec 16) (sr br : BitVec 32) (ba bps cb vb : BitVec 16)
    (cm fs sl ds nf mc : BitVec 32) :
    let g := rf_wavheader_set_num_frames cs fcs af nc sr br ba bps cb vb cm fs sl ds nf mc
    g.ub = false ∧ g.exh = false ∧ g.wh_fmt_chunk_size = fcs ∧ g.wh_audio_format = af ∧ g.wh_num_channels = nc ∧
    g.wh_sample_rate = sr ∧ g.wh_byte_rate = br ∧ g.wh_block_align = ba ∧ g.wh_bits_per_sample = bps ∧ g.wh_cb_size = cb ∧
    g.wh_valid_bits_per_sample = vb ∧ g.wh_channel_mask = cm ∧ g.wh_fact_chunk_size = fs ∧
    g.wh_data_chunk_size = nf * ba.setWidth 32 ∧
    g.wh_sample_length = (if mc = 0#32 then nf * nc.setWidth 32 else sl) ∧
    g.wh_chunk_size = cs - ds + nf * ba.setWidth 32 ∧
    g.memcmp_called_1 = true ∧ g.memcmp_arg_1_0 = rf_wavheader_set_num_frames.tag_fact ∧
    g.memcmp_arg_1_1 = rf_wavheader_set_num_frames.tag_wh_fact_chunk_id ∧ g.memcmp_arg_1_2 = 4#64 := by
  unfold rf_wavheader_set_num_frames rf_wavheader_set_num_frames.tag_fact rf_wavheader_set_num_frames.tag_wh_fact_chunk_id
  bv_decide (config := { timeout := 300 })

/-- **tie T, `rf_wavheader_set_num_frames`**: with `memcmp(fact, wh->fact_chunk_id, 4)` answering as the model compares, every
    scalar member afterwards is the model's -/
theorem set_num_frames_tie (wh : Wh) (nf : BitVec 32) :
    let g := onWh rf_wavheader_set_num_frames wh nf (cmpRet fact wh.factChunkId)
    g.ub = false ∧ g.exh = false ∧
    g.wh_chunk_size = (setNumFrames wh nf).chunkSize ∧ g.wh_data_chunk_size = (setNumFrames wh nf).dataChunkSize ∧
    g.wh_sample_length = (setNumFrames wh nf).sampleLength ∧
    g.wh_fmt_chunk_size = wh.fmtChunkSize ∧ g.wh_fact_chunk_size = wh.factChunkSize ∧ g.wh_block_align = wh.blockAlign ∧
    g.wh_num_channels = wh.numChannels := by
  obtain ⟨h1, h2, h3, _, h5, _, _, h8, _, _, _, _, h13, h14, h15, h16, _⟩ :=
    set_num_frames_generated wh.chunkSize wh.fmtChunkSize wh.audioFormat wh.numChannels wh.sampleRate wh.byteRate wh.blockAlign
      wh.bitsPerSample wh.cbSize wh.validBitsPerSample wh.channelMask wh.factChunkSize wh.sampleLength wh.dataChunkSize nf
      (cmpRet fact wh.factChunkId)
  refine ⟨h1, h2, ?_, ?_, ?_, h3, h13, h8, h5⟩
  · show (rf_wavheader_set_num_frames _ _ _ _ _ _ _ _ _ _ _ _ _ _ _ _).wh_chunk_size = _
    rw [h16]; rfl
  · show (rf_wavheader_set_num_frames _ _ _ _ _ _ _ _ _ _ _ _ _ _ _ _).wh_data_chunk_size = _
    rw [h14]; rfl
  · show (rf_wavheader_set_num_frames _ _ _ _ _ _ _ _ _ _ _ _ _ _ _ _).wh_sample_length = _
    rw [h15]
    unfold setNumFrames cmpRet
    by_cases h : wh.factChunkId = fact
    · have e : (if fact = wh.factChunkId then 0#32 else 1#32) = 0#32 := if_pos h.symm
      rw [e, if_pos rfl, if_pos h]
    · have hn : ¬ fact = wh.factChunkId := fun e => h e.symm
      have e : (if fact = wh.factChunkId then 0#32 else 1#32) = 1#32 := if_neg hn
      rw [e, if_neg (show ¬ (1#32 = 0#32) by decide), if_neg h]

/-! ### rf_wavheader_init -/

/-- the calls `rf_wavheader_init` must make: clear the structure, then copy the five identifiers (the fact identifier for
    the float format only) -/
def initTrace (isFloat : Bool) (q1 q2 q3 q4 q5 : BitVec 64) : List ExtCall :=
  [⟨"zeroed_wh", [], 0#64⟩,
   ⟨"memcpy", [rf_wavheader_init.tag_wh_chunk_id, rf_wavheader_init.tag_riff, 4#64], q1⟩,
   ⟨"memcpy", [rf_wavheader_init.tag_wh_format, rf_wavheader_init.tag_wave, 4#64], q2⟩,
   ⟨"memcpy", [rf_wavheader_init.tag_wh_fmt_chunk_id, rf_wavheader_init.tag_fmt, 4#64], q3⟩] ++
  (if isFloat then [⟨"memcpy", [rf_wavheader_init.tag_wh_fact_chunk_id, rf_wavheader_init.tag_fact, 4#64], q4⟩] else []) ++
  [⟨"memcpy", [rf_wavheader_init.tag_wh_data_chunk_id, rf_wavheader_init.tag_data, 4#64], q5⟩]

/-- bytes per sample as `rf_wavheader_init` computes them (`uint8_t`, promoted to `int`) -/
def bpsBV (f : BitVec 32) : BitVec 32 := if f = 0#32 then 2#32 else 4#32

theorem init_generated (cs fcs : BitVec 32) (af nc : BitVec 16) (sr br : BitVec 32) (ba bps cb vb : BitVec 16)
    (cm fs sl ds sfreq nch f r1 r2 r3 r4 r5 : BitVec 32) (q1 q2 q3 q4 q5 : BitVec 64) :
    let g := rf_wavheader_init cs fcs af nc sr br ba bps cb vb cm fs sl ds sfreq nch f q1 q2 q3 q4 q5
    g.ub = false ∧ g.exh = false ∧
    g.wh_fmt_chunk_size = (if f = 2#32 then 18#32 else 16#32) ∧
    g.wh_chunk_size = 4#32 + (8#32 + (if f = 2#32 then 18#32 else 16#32)) + (if f = 2#32 then 12#32 else 0#32) + 8#32 ∧
    g.wh_audio_format = (if f = 2#32 then 3#16 else 1#16) ∧ g.wh_num_channels = nch.setWidth 16 ∧ g.wh_sample_rate = sfreq ∧
    g.wh_byte_rate = sfreq * bpsBV f * nch ∧ g.wh_block_align = (bpsBV f * nch).setWidth 16 ∧
    g.wh_bits_per_sample = (bpsBV f * 8#32).setWidth 16 ∧ g.wh_cb_size = 0#16 ∧ g.wh_valid_bits_per_sample = 0#16 ∧
    g.wh_channel_mask = 0#32 ∧ g.wh_fact_chunk_size = (if f = 2#32 then 12#32 else 0#32) ∧ g.wh_sample_length = 0#32 ∧
    g.wh_data_chunk_size = 0#32 := by
  unfold rf_wavheader_init bpsBV
  by_cases h0 : f = 0#32
  · subst h0
    bv_decide (config := { timeout := 300 })
  · have hb : (f == 0#32) = false := by simpa using h0
    simp only [hb, h0, if_false, Bool.false_eq_true]
    bv_decide (config := { timeout := 300 })

theorem init_trace_generated (cs fcs : BitVec 32) (af nc : BitVec 16) (sr br : BitVec 32) (ba bps cb vb : BitVec 16)
    (cm fs sl ds sfreq nch f : BitVec 32) (q1 q2 q3 q4 q5 : BitVec 64) :
    rf_wavheader_init.trace (rf_wavheader_init cs fcs af nc sr br ba bps cb vb cm fs sl ds sfreq nch f q1 q2 q3 q4 q5) q1 q2 q3 q4 q5 = initTrace (f == 2#32) q1 q2 q3 q4 q5 := by
  unfold rf_wavheader_init.trace initTrace rf_wavheader_init
  by_cases h : f = 2#32
  · subst h; rfl
  · have hb : (f == 2#32) = false := by simpa using h
    simp [hb]
    decide

/-- **tie T, `rf_wavheader_init`** (`format` = the enumeration value; anything but `FLOAT` = 2 / `S16LE` = 0 is treated like
    `S32LE`, as the C does): every scalar member is the model's, whatever the structure held before -/
theorem init_tie (prior wh0 : Wh) (sfreq nch f : BitVec 32) (q1 q2 q3 q4 q5 : BitVec 64) :
    let g := onWh rf_wavheader_init wh0 sfreq nch f q1 q2 q3 q4 q5
    let m := Librfn.Model.Wav.init prior sfreq nch f.toInt
    g.ub = false ∧ g.exh = false ∧ rf_wavheader_init.trace g q1 q2 q3 q4 q5 = initTrace (f == 2#32) q1 q2 q3 q4 q5 ∧
    g.wh_chunk_size = m.chunkSize ∧ g.wh_fmt_chunk_size = m.fmtChunkSize ∧ g.wh_audio_format = m.audioFormat ∧
    g.wh_num_channels = m.numChannels ∧ g.wh_sample_rate = m.sampleRate ∧ g.wh_byte_rate = m.byteRate ∧
    g.wh_block_align = m.blockAlign ∧ g.wh_bits_per_sample = m.bitsPerSample ∧ g.wh_cb_size = m.cbSize ∧
    g.wh_valid_bits_per_sample = m.validBitsPerSample ∧ g.wh_channel_mask = m.channelMask ∧
    g.wh_fact_chunk_size = m.factChunkSize ∧ g.wh_sample_length = m.sampleLength ∧ g.wh_data_chunk_size = m.dataChunkSize := by
  unfold onWh
  obtain ⟨h1, h2, h3, h4, h5, h6, h7, h8, h9, h10, h11, h12, h13, h14, h15, h16⟩ :=
    init_generated wh0.chunkSize wh0.fmtChunkSize wh0.audioFormat wh0.numChannels wh0.sampleRate wh0.byteRate wh0.blockAlign
      wh0.bitsPerSample wh0.cbSize wh0.validBitsPerSample wh0.channelMask wh0.factChunkSize wh0.sampleLength wh0.dataChunkSize
      sfreq nch f 0 0 0 0 0 q1 q2 q3 q4 q5
  have ht := init_trace_generated wh0.chunkSize wh0.fmtChunkSize wh0.audioFormat wh0.numChannels wh0.sampleRate wh0.byteRate
      wh0.blockAlign wh0.bitsPerSample wh0.cbSize wh0.validBitsPerSample wh0.channelMask wh0.factChunkSize wh0.sampleLength
      wh0.dataChunkSize sfreq nch f q1 q2 q3 q4 q5
  have e2 : (f.toInt = 2) ↔ f = 2#32 := by
    constructor
    · intro h; apply BitVec.eq_of_toInt_eq; rw [h]; rfl
    · intro h; rw [h]; rfl
  have e0 : (f.toInt = 0) ↔ f = 0#32 := by
    constructor
    · intro h; apply BitVec.eq_of_toInt_eq; rw [h]; rfl
    · intro h; rw [h]; rfl
  refine ⟨h1, h2, ht, ?_, ?_, ?_, ?_, ?_, ?_, ?_, ?_, ?_, ?_, ?_, ?_, ?_, ?_⟩
  all_goals (first | (rw [h4]) | (rw [h3]) | (rw [h5]) | (rw [h6]) | (rw [h7]) | (rw [h8]) | (rw [h9]) | (rw [h10]) | (rw [h11]) | (rw [h12]) | (rw [h13]) | (rw [h14]) | (rw [h15]) | (rw [h16]))
  all_goals (unfold Librfn.Model.Wav.init; by_cases c2 : f = 2#32 <;> by_cases c0 : f = 0#32 <;> simp [bpsBV, c2, c0, e2, e0, Wh.zero])

/-! ### rf_wavheader_validate -/

theorem validate_generated (cs fcs : BitVec 32) (af nc : BitVec 16) (sr br : BitVec 32) (ba bps cb vb : BitVec 16)
    (cm fs sl ds m1 m2 m3 m4 : BitVec 32) :
    let g := rf_wavheader_validate cs fcs af nc sr br ba bps cb vb cm fs sl ds m1 m2 m3 m4
    g.ub = false ∧ g.exh = false ∧
    g.ret = (if m1 != 0#32 then 0xffffffea#32 else if BitVec.ult cs (12#32 + fcs + fs) then 0xffffffea#32
             else if m2 != 0#32 then 0xffffffea#32 else if m3 != 0#32 then 0xffffffea#32
             else if m4 != 0#32 then 0xffffffea#32 else 0#32) ∧
    g.memcmp_called_1 = true ∧ g.memcmp_arg_1_0 = rf_wavheader_validate.tag_riff ∧ g.memcmp_arg_1_1 = rf_wavheader_validate.tag_wh_chunk_id ∧
    g.memcmp_called_2 = (m1 == 0#32 && !BitVec.ult cs (12#32 + fcs + fs)) ∧
    g.memcmp_arg_2_0 = rf_wavheader_validate.tag_wave ∧ g.memcmp_arg_2_1 = rf_wavheader_validate.tag_wh_format ∧
    g.memcmp_called_3 = (g.memcmp_called_2 && m2 == 0#32) ∧
    g.memcmp_arg_3_0 = rf_wavheader_validate.tag_fmt ∧ g.memcmp_arg_3_1 = rf_wavheader_validate.tag_wh_fmt_chunk_id ∧
    g.memcmp_called_4 = (g.memcmp_called_3 && m3 == 0#32) ∧
    g.memcmp_arg_4_0 = rf_wavheader_validate.tag_data ∧ g.memcmp_arg_4_1 = rf_wavheader_validate.tag_wh_data_chunk_id ∧
    g.memcmp_arg_1_2 = 4#64 ∧ g.memcmp_arg_2_2 = 4#64 ∧ g.memcmp_arg_3_2 = 4#64 ∧ g.memcmp_arg_4_2 = 4#64 ∧
    g.wh_chunk_size = cs ∧ g.wh_fmt_chunk_size = fcs ∧ g.wh_fact_chunk_size = fs ∧ g.wh_data_chunk_size = ds := by
  unfold rf_wavheader_validate rf_wavheader_validate.tag_riff rf_wavheader_validate.tag_wh_chunk_id rf_wavheader_validate.tag_wave
    rf_wavheader_validate.tag_wh_format rf_wavheader_validate.tag_fmt rf_wavheader_validate.tag_wh_fmt_chunk_id
    rf_wavheader_validate.tag_data rf_wavheader_validate.tag_wh_data_chunk_id
  bv_decide (config := { timeout := 300 })

/-- **tie T, `rf_wavheader_validate`**: with each `memcmp` answering as the model compares, the returned value is the model's
    (0 or `-EINVAL`) -/
theorem validate_tie (wh : Wh) :
    let g := onWh rf_wavheader_validate wh (cmpRet riff wh.chunkId) (cmpRet wave wh.format) (cmpRet fmtId wh.fmtChunkId)
      (cmpRet data wh.dataChunkId)
    g.ub = false ∧ g.exh = false ∧ g.ret.toInt = validate wh := by
  unfold onWh
  obtain ⟨h1, h2, h3, _⟩ := validate_generated wh.chunkSize wh.fmtChunkSize wh.audioFormat wh.numChannels wh.sampleRate wh.byteRate
    wh.blockAlign wh.bitsPerSample wh.cbSize wh.validBitsPerSample wh.channelMask wh.factChunkSize wh.sampleLength wh.dataChunkSize
    (cmpRet riff wh.chunkId) (cmpRet wave wh.format) (cmpRet fmtId wh.fmtChunkId) (cmpRet data wh.dataChunkId)
  refine ⟨h1, h2, ?_⟩
  rw [h3]
  have c (a b : List UInt8) : (cmpRet a b != 0#32) = decide (b ≠ a) := by
    unfold cmpRet
    by_cases h : a = b
    · subst h; simp
    · have : ¬ b = a := fun e => h e.symm
      simp [h, this]
  have hlt : BitVec.ult wh.chunkSize (12#32 + wh.fmtChunkSize + wh.factChunkSize) = decide (wh.chunkSize < 12#32 + wh.fmtChunkSize + wh.factChunkSize) := by
    simp [BitVec.ult, BitVec.lt_def]
  rw [c, c, c, c, hlt]
  unfold validate EINVAL
  by_cases a1 : wh.chunkId ≠ riff
  · simp [a1]
  · by_cases a2 : wh.chunkSize < 12#32 + wh.fmtChunkSize + wh.factChunkSize
    · simp [a1, a2]
    · by_cases a3 : wh.format ≠ wave
      · simp [a1, a2, a3]
      · by_cases a4 : wh.fmtChunkId ≠ fmtId
        · simp [a1, a2, a3, a4]
        · by_cases a5 : wh.dataChunkId ≠ data
          · simp [a1, a2, a3, a4, a5]
          · simp [a1, a2, a3, a4, a5]

/-! ### rf_wavheader_encode -/

/-- every call `rf_wavheader_encode` makes: under which condition, with which arguments (generated code, all inputs) -/
theorem encode_generated (cs fcs : BitVec 32) (af nc : BitVec 16) (sr br : BitVec 32) (ba bps cb vb : BitVec 16)
    (cm fs sl ds : BitVec 32) (p : BitVec 64) (sz mc rem : BitVec 32) :
    let g := rf_wavheader_encode cs fcs af nc sr br ba bps cb vb cm fs sl ds p sz mc rem
    g.ub = false ∧
    g.exh = false ∧
    g.ret = sz - rem ∧
    g.rf_pack_init_called_1 = true ∧
    (g.rf_pack_init_called_1 = true → g.rf_pack_init_arg_1_0 = rf_wavheader_encode.tag_local_pack) ∧
    (g.rf_pack_init_called_1 = true → g.rf_pack_init_arg_1_1 = p) ∧
    (g.rf_pack_init_called_1 = true → g.rf_pack_init_arg_1_2 = sz) ∧
    g.rf_pack_bytes_called_1 = true ∧
    (g.rf_pack_bytes_called_1 = true → g.rf_pack_bytes_arg_1_0 = rf_wavheader_encode.tag_local_pack) ∧
    (g.rf_pack_bytes_called_1 = true → g.rf_pack_bytes_arg_1_1 = rf_wavheader_encode.tag_wh_chunk_id) ∧
    (g.rf_pack_bytes_called_1 = true → g.rf_pack_bytes_arg_1_2 = 4#32) ∧
    g.rf_pack_u32le_called_1 = true ∧
    (g.rf_pack_u32le_called_1 = true → g.rf_pack_u32le_arg_1_0 = rf_wavheader_encode.tag_local_pack) ∧
    (g.rf_pack_u32le_called_1 = true → g.rf_pack_u32le_arg_1_1 = cs) ∧
    g.rf_pack_bytes_called_2 = true ∧
    (g.rf_pack_bytes_called_2 = true → g.rf_pack_bytes_arg_2_0 = rf_wavheader_encode.tag_local_pack) ∧
    (g.rf_pack_bytes_called_2 = true → g.rf_pack_bytes_arg_2_1 = rf_wavheader_encode.tag_wh_format) ∧
    (g.rf_pack_bytes_called_2 = true → g.rf_pack_bytes_arg_2_2 = 4#32) ∧
    g.rf_pack_bytes_called_3 = true ∧
    (g.rf_pack_bytes_called_3 = true → g.rf_pack_bytes_arg_3_0 = rf_wavheader_encode.tag_local_pack) ∧
    (g.rf_pack_bytes_called_3 = true → g.rf_pack_bytes_arg_3_1 = rf_wavheader_encode.tag_wh_fmt_chunk_id) ∧
    (g.rf_pack_bytes_called_3 = true → g.rf_pack_bytes_arg_3_2 = 4#32) ∧
    g.rf_pack_u32le_called_2 = true ∧
    (g.rf_pack_u32le_called_2 = true → g.rf_pack_u32le_arg_2_0 = rf_wavheader_encode.tag_local_pack) ∧
    (g.rf_pack_u32le_called_2 = true → g.rf_pack_u32le_arg_2_1 = fcs) ∧
    g.rf_pack_u16le_called_1 = true ∧
    (g.rf_pack_u16le_called_1 = true → g.rf_pack_u16le_arg_1_0 = rf_wavheader_encode.tag_local_pack) ∧
    (g.rf_pack_u16le_called_1 = true → g.rf_pack_u16le_arg_1_1 = af) ∧
    g.rf_pack_u16le_called_2 = true ∧
    (g.rf_pack_u16le_called_2 = true → g.rf_pack_u16le_arg_2_0 = rf_wavheader_encode.tag_local_pack) ∧
    (g.rf_pack_u16le_called_2 = true → g.rf_pack_u16le_arg_2_1 = nc) ∧
    g.rf_pack_u32le_called_3 = true ∧
    (g.rf_pack_u32le_called_3 = true → g.rf_pack_u32le_arg_3_0 = rf_wavheader_encode.tag_local_pack) ∧
    (g.rf_pack_u32le_called_3 = true → g.rf_pack_u32le_arg_3_1 = sr) ∧
    g.rf_pack_u32le_called_4 = true ∧
    (g.rf_pack_u32le_called_4 = true → g.rf_pack_u32le_arg_4_0 = rf_wavheader_encode.tag_local_pack) ∧
    (g.rf_pack_u32le_called_4 = true → g.rf_pack_u32le_arg_4_1 = br) ∧
    g.rf_pack_u16le_called_3 = true ∧
    (g.rf_pack_u16le_called_3 = true → g.rf_pack_u16le_arg_3_0 = rf_wavheader_encode.tag_local_pack) ∧
    (g.rf_pack_u16le_called_3 = true → g.rf_pack_u16le_arg_3_1 = ba) ∧
    g.rf_pack_u16le_called_4 = true ∧
    (g.rf_pack_u16le_called_4 = true → g.rf_pack_u16le_arg_4_0 = rf_wavheader_encode.tag_local_pack) ∧
    (g.rf_pack_u16le_called_4 = true → g.rf_pack_u16le_arg_4_1 = bps) ∧
    g.rf_pack_u16le_called_5 = BitVec.ule 18#32 fcs ∧
    (g.rf_pack_u16le_called_5 = true → g.rf_pack_u16le_arg_5_0 = rf_wavheader_encode.tag_local_pack) ∧
    (g.rf_pack_u16le_called_5 = true → g.rf_pack_u16le_arg_5_1 = cb) ∧
    g.rf_pack_u16le_called_6 = (BitVec.ule 18#32 fcs && cb == 22#16) ∧
    (g.rf_pack_u16le_called_6 = true → g.rf_pack_u16le_arg_6_0 = rf_wavheader_encode.tag_local_pack) ∧
    (g.rf_pack_u16le_called_6 = true → g.rf_pack_u16le_arg_6_1 = vb) ∧
    g.rf_pack_u32le_called_5 = (BitVec.ule 18#32 fcs && cb == 22#16) ∧
    (g.rf_pack_u32le_called_5 = true → g.rf_pack_u32le_arg_5_0 = rf_wavheader_encode.tag_local_pack) ∧
    (g.rf_pack_u32le_called_5 = true → g.rf_pack_u32le_arg_5_1 = cm) ∧
    g.rf_pack_bytes_called_4 = (BitVec.ule 18#32 fcs && cb == 22#16) ∧
    (g.rf_pack_bytes_called_4 = true → g.rf_pack_bytes_arg_4_0 = rf_wavheader_encode.tag_local_pack) ∧
    (g.rf_pack_bytes_called_4 = true → g.rf_pack_bytes_arg_4_1 = rf_wavheader_encode.tag_wh_sub_format) ∧
    (g.rf_pack_bytes_called_4 = true → g.rf_pack_bytes_arg_4_2 = 16#32) ∧
    g.rf_pack_bytes_called_5 = (BitVec.ule 18#32 fcs && !(cb == 22#16)) ∧
    (g.rf_pack_bytes_called_5 = true → g.rf_pack_bytes_arg_5_0 = rf_wavheader_encode.tag_local_pack) ∧
    (g.rf_pack_bytes_called_5 = true → g.rf_pack_bytes_arg_5_1 = 0#64) ∧
    (g.rf_pack_bytes_called_5 = true → g.rf_pack_bytes_arg_5_2 = fcs - 18#32) ∧
    g.memcmp_called_1 = true ∧
    (g.memcmp_called_1 = true → g.memcmp_arg_1_0 = rf_wavheader_encode.tag_fact) ∧
    (g.memcmp_called_1 = true → g.memcmp_arg_1_1 = rf_wavheader_encode.tag_wh_fact_chunk_id) ∧
    (g.memcmp_called_1 = true → g.memcmp_arg_1_2 = 4#64) ∧
    g.rf_pack_bytes_called_6 = (mc == 0#32) ∧
    (g.rf_pack_bytes_called_6 = true → g.rf_pack_bytes_arg_6_0 = rf_wavheader_encode.tag_local_pack) ∧
    (g.rf_pack_bytes_called_6 = true → g.rf_pack_bytes_arg_6_1 = rf_wavheader_encode.tag_wh_fact_chunk_id) ∧
    (g.rf_pack_bytes_called_6 = true → g.rf_pack_bytes_arg_6_2 = 4#32) ∧
    g.rf_pack_u32le_called_6 = (mc == 0#32) ∧
    (g.rf_pack_u32le_called_6 = true → g.rf_pack_u32le_arg_6_0 = rf_wavheader_encode.tag_local_pack) ∧
    (g.rf_pack_u32le_called_6 = true → g.rf_pack_u32le_arg_6_1 = fs) ∧
    g.rf_pack_u32le_called_7 = (mc == 0#32) ∧
    (g.rf_pack_u32le_called_7 = true → g.rf_pack_u32le_arg_7_0 = rf_wavheader_encode.tag_local_pack) ∧
    (g.rf_pack_u32le_called_7 = true → g.rf_pack_u32le_arg_7_1 = sl) ∧
    g.rf_pack_bytes_called_7 = true ∧
    (g.rf_pack_bytes_called_7 = true → g.rf_pack_bytes_arg_7_0 = rf_wavheader_encode.tag_local_pack) ∧
    (g.rf_pack_bytes_called_7 = true → g.rf_pack_bytes_arg_7_1 = rf_wavheader_encode.tag_wh_data_chunk_id) ∧
    (g.rf_pack_bytes_called_7 = true → g.rf_pack_bytes_arg_7_2 = 4#32) ∧
    g.rf_pack_u32le_called_8 = true ∧
    (g.rf_pack_u32le_called_8 = true → g.rf_pack_u32le_arg_8_0 = rf_wavheader_encode.tag_local_pack) ∧
    (g.rf_pack_u32le_called_8 = true → g.rf_pack_u32le_arg_8_1 = ds) ∧
    g.rf_pack_remaining_called_1 = true ∧
    (g.rf_pack_remaining_called_1 = true → g.rf_pack_remaining_arg_1_0 = rf_wavheader_encode.tag_local_pack) := by
  unfold rf_wavheader_encode rf_wavheader_encode.tag_local_pack rf_wavheader_encode.tag_wh_chunk_id rf_wavheader_encode.tag_wh_format rf_wavheader_encode.tag_wh_fmt_chunk_id rf_wavheader_encode.tag_wh_sub_format rf_wavheader_encode.tag_wh_fact_chunk_id rf_wavheader_encode.tag_wh_data_chunk_id rf_wavheader_encode.tag_fact
  bv_decide (config := { timeout := 300 })

/-- the array member of the model structure that a tag names -/
def fieldOfTag (wh : Wh) (t : BitVec 64) : List UInt8 :=
  if t = rf_wavheader_encode.tag_wh_chunk_id then wh.chunkId
  else if t = rf_wavheader_encode.tag_wh_format then wh.format
  else if t = rf_wavheader_encode.tag_wh_fmt_chunk_id then wh.fmtChunkId
  else if t = rf_wavheader_encode.tag_wh_sub_format then wh.subFormat
  else if t = rf_wavheader_encode.tag_wh_fact_chunk_id then wh.factChunkId
  else if t = rf_wavheader_encode.tag_wh_data_chunk_id then wh.dataChunkId
  else []

/-- one reported call of the encoder, executed by the pack *model*: the scalar packers take the value they were given, a
    `rf_pack_bytes` with a source takes the array member the tag names (its length must be the length passed), one without
    source is `rf_pack_bytes(pack, NULL, n)`; `rf_pack_init`, `memcmp`, `rf_pack_remaining` do not touch the buffer -/
def stepEnc (wh : Wh) (c : ExtCall) (s : Librfn.Model.Pack.Mem × Pk) : Librfn.Model.Pack.Mem × Pk :=
  if c.name = "rf_pack_u32le" then packU32le s.1 s.2 ((c.args.getD 1 0).setWidth 32)
  else if c.name = "rf_pack_u16le" then packU16le s.1 s.2 ((c.args.getD 1 0).setWidth 16)
  else if c.name = "rf_pack_bytes" then
    (if c.args.getD 1 0 = 0#64 then packNull s.1 s.2 ((c.args.getD 2 0).setWidth 32).toNat
     else if (fieldOfTag wh (c.args.getD 1 0)).length = ((c.args.getD 2 0).setWidth 32).toNat
       then packBytes s.1 s.2 (fieldOfTag wh (c.args.getD 1 0)) else s)
  else s

def runEnc (wh : Wh) : List ExtCall → Librfn.Model.Pack.Mem × Pk → Librfn.Model.Pack.Mem × Pk
  | [], s => s
  | c :: cs, s => runEnc wh cs (stepEnc wh c s)

theorem runEnc_append (wh : Wh) (a b : List ExtCall) (s : Librfn.Model.Pack.Mem × Pk) :
    runEnc wh (a ++ b) s = runEnc wh b (runEnc wh a s) := by
  induction a generalizing s with
  | nil => rfl
  | cons c cs ih => simp only [List.cons_append, runEnc]; exact ih _

/-- **tie T, `rf_wavheader_encode`**: the calls the C function reports, run through the pack model from the freshly
    initialised packer, leave the memory and the cursor that `Librfn.Model.Wav.encode` computes; the returned value is
    `sz - rf_pack_remaining(&pack)` -/
theorem encode_tie (wh : Wh) (hw : wh.WF) (m : Librfn.Model.Pack.Mem) (b sz : Nat) (p : BitVec 64) (szb rem : BitVec 32) :
    let g := onWh rf_wavheader_encode wh p szb (cmpRet fact wh.factChunkId) rem
    g.ub = false ∧ g.exh = false ∧ g.ret = szb - rem ∧
    runEnc wh (rf_wavheader_encode.trace g (cmpRet fact wh.factChunkId) rem) (m, Librfn.Model.Pack.init b sz) = encTail wh (encExt wh (encHead wh m (Librfn.Model.Pack.init b sz))) := by
  unfold onWh
  have H := encode_generated wh.chunkSize wh.fmtChunkSize wh.audioFormat wh.numChannels wh.sampleRate wh.byteRate wh.blockAlign
    wh.bitsPerSample wh.cbSize wh.validBitsPerSample wh.channelMask wh.factChunkSize wh.sampleLength wh.dataChunkSize p szb
    (cmpRet fact wh.factChunkId) rem
  refine ⟨H.1, H.2.1, H.2.2.1, ?_⟩
  have l1 := hw.chunkId; have l2 := hw.format; have l3 := hw.fmtChunkId; have l4 := hw.subFormat
  have l5 := hw.factChunkId; have l6 := hw.dataChunkId
  have c18 : BitVec.ule 18#32 wh.fmtChunkSize = decide (18#32 ≤ wh.fmtChunkSize) := by simp [BitVec.ule, BitVec.le_def]
  unfold rf_wavheader_encode.trace rf_wavheader_encode encTail encExt encHead
  have hfl : fact.length = 4 := rfl
  have c22 : (22#32 = BitVec.setWidth 32 wh.cbSize) = (wh.cbSize = 22#16) := by
    apply propext; constructor <;> intro h <;> bv_decide (config := { timeout := 300 })
  by_cases a : 18#32 ≤ wh.fmtChunkSize <;> by_cases bq : wh.cbSize = 22#16 <;> by_cases f : wh.factChunkId = fact <;>
    (have f' : (fact = wh.factChunkId) = (wh.factChunkId = fact) := propext eq_comm) <;>
    simp [runEnc, stepEnc, fieldOfTag, cmpRet, c18, c22, a, bq, f, f', hfl, l1, l2, l3, l4, l5, l6,
      rf_wavheader_encode.tag_wh_chunk_id, rf_wavheader_encode.tag_wh_format, rf_wavheader_encode.tag_wh_fmt_chunk_id,
      rf_wavheader_encode.tag_wh_sub_format, rf_wavheader_encode.tag_wh_fact_chunk_id, rf_wavheader_encode.tag_wh_data_chunk_id,
      rf_wavheader_encode.tag_local_pack, rf_wavheader_encode.tag_fact]

/-! ### rf_wavheader_decode -/

/-- everything `rf_wavheader_decode` decides, for all inputs: which unpack result becomes which member (`u1..u8`, `h1..h6` are the
    values the `rf_unpack_u32le` / `rf_unpack_u16le` calls return, in call order), the early rejection of a format chunk size above
    0x7fffff00 before anything is skipped, the optional extension (`cb_size == 22`) or skip of `fmt_chunk_size - 18` bytes, the fact
    chunk, the three header tests (the size sum in wrapping 32-bit arithmetic) and the returned `sz - rf_pack_remaining()`; every call,
    its condition and its arguments; the structure is cleared first whatever it held -/
theorem decode_generated (p : BitVec 64) (sz : BitVec 32) (cs fcs : BitVec 32) (af nc : BitVec 16) (sr br : BitVec 32) (ba bps cb vb : BitVec 16)
    (cm fs sl ds : BitVec 32) (u1 u2 : BitVec 32) (h1 h2 : BitVec 16) (u3 u4 : BitVec 32) (h3 h4 h5 h6 : BitVec 16) (u5 mc1 : BitVec 32)
    (q : BitVec 64) (u6 u7 u8 mc2 mc3 rem : BitVec 32) :
    let g := rf_wavheader_decode p sz cs fcs af nc sr br ba bps cb vb cm fs sl ds u1 u2 h1 h2 u3 u4 h3 h4 h5 h6 u5 mc1 q u6 u7 u8 mc2 mc3 rem
    g.ub = false ∧
    g.exh = false ∧
    g.zeroed_wh_called_1 = true ∧
    g.ret = (if !!(BitVec.ult 0x7fffff00#32 u2) then 0xffffffea#32 else if mc2 != 0#32 then 0xffffffea#32 else if BitVec.ult u1 (12#32 + u2 + (if (!(BitVec.ult 0x7fffff00#32 u2) && (mc1 == 0#32)) then u6 else 0#32)) then 0xffffffea#32 else if mc3 != 0#32 then 0xffffffea#32 else sz - rem) ∧
    g.wh_chunk_size = u1 ∧
    g.wh_fmt_chunk_size = u2 ∧
    g.wh_audio_format = h1 ∧
    g.wh_num_channels = h2 ∧
    g.wh_sample_rate = u3 ∧
    g.wh_byte_rate = u4 ∧
    g.wh_block_align = h3 ∧
    g.wh_bits_per_sample = h4 ∧
    g.wh_cb_size = (if (!(BitVec.ult 0x7fffff00#32 u2) && BitVec.ule 18#32 u2) then h5 else 0#16) ∧
    g.wh_valid_bits_per_sample = (if (!(BitVec.ult 0x7fffff00#32 u2) && BitVec.ule 18#32 u2 && (h5 == 22#16)) then h6 else 0#16) ∧
    g.wh_channel_mask = (if (!(BitVec.ult 0x7fffff00#32 u2) && BitVec.ule 18#32 u2 && (h5 == 22#16)) then u5 else 0#32) ∧
    g.wh_fact_chunk_size = (if (!(BitVec.ult 0x7fffff00#32 u2) && (mc1 == 0#32)) then u6 else 0#32) ∧
    g.wh_sample_length = (if (!(BitVec.ult 0x7fffff00#32 u2) && (mc1 == 0#32)) then u7 else 0#32) ∧
    g.wh_data_chunk_size = (if !(BitVec.ult 0x7fffff00#32 u2) then u8 else 0#32) ∧
    g.rf_pack_init_called_1 = true ∧
    (g.rf_pack_init_called_1 = true → g.rf_pack_init_arg_1_0 = rf_wavheader_decode.tag_local_pack) ∧
    (g.rf_pack_init_called_1 = true → g.rf_pack_init_arg_1_1 = p) ∧
    (g.rf_pack_init_called_1 = true → g.rf_pack_init_arg_1_2 = sz) ∧
    g.rf_unpack_bytes_called_1 = true ∧
    (g.rf_unpack_bytes_called_1 = true → g.rf_unpack_bytes_arg_1_0 = rf_wavheader_decode.tag_local_pack) ∧
    (g.rf_unpack_bytes_called_1 = true → g.rf_unpack_bytes_arg_1_1 = rf_wavheader_decode.tag_wh_chunk_id) ∧
    (g.rf_unpack_bytes_called_1 = true → g.rf_unpack_bytes_arg_1_2 = 4#32) ∧
    g.rf_unpack_u32le_called_1 = true ∧
    (g.rf_unpack_u32le_called_1 = true → g.rf_unpack_u32le_arg_1_0 = rf_wavheader_decode.tag_local_pack) ∧
    g.rf_unpack_bytes_called_2 = true ∧
    (g.rf_unpack_bytes_called_2 = true → g.rf_unpack_bytes_arg_2_0 = rf_wavheader_decode.tag_local_pack) ∧
    (g.rf_unpack_bytes_called_2 = true → g.rf_unpack_bytes_arg_2_1 = rf_wavheader_decode.tag_wh_format) ∧
    (g.rf_unpack_bytes_called_2 = true → g.rf_unpack_bytes_arg_2_2 = 4#32) ∧
    g.rf_unpack_bytes_called_3 = true ∧
    (g.rf_unpack_bytes_called_3 = true → g.rf_unpack_bytes_arg_3_0 = rf_wavheader_decode.tag_local_pack) ∧
    (g.rf_unpack_bytes_called_3 = true → g.rf_unpack_bytes_arg_3_1 = rf_wavheader_decode.tag_wh_fmt_chunk_id) ∧
    (g.rf_unpack_bytes_called_3 = true → g.rf_unpack_bytes_arg_3_2 = 4#32) ∧
    g.rf_unpack_u32le_called_2 = true ∧
    (g.rf_unpack_u32le_called_2 = true → g.rf_unpack_u32le_arg_2_0 = rf_wavheader_decode.tag_local_pack) ∧
    g.rf_unpack_u16le_called_1 = true ∧
    (g.rf_unpack_u16le_called_1 = true → g.rf_unpack_u16le_arg_1_0 = rf_wavheader_decode.tag_local_pack) ∧
    g.rf_unpack_u16le_called_2 = true ∧
    (g.rf_unpack_u16le_called_2 = true → g.rf_unpack_u16le_arg_2_0 = rf_wavheader_decode.tag_local_pack) ∧
    g.rf_unpack_u32le_called_3 = true ∧
    (g.rf_unpack_u32le_called_3 = true → g.rf_unpack_u32le_arg_3_0 = rf_wavheader_decode.tag_local_pack) ∧
    g.rf_unpack_u32le_called_4 = true ∧
    (g.rf_unpack_u32le_called_4 = true → g.rf_unpack_u32le_arg_4_0 = rf_wavheader_decode.tag_local_pack) ∧
    g.rf_unpack_u16le_called_3 = true ∧
    (g.rf_unpack_u16le_called_3 = true → g.rf_unpack_u16le_arg_3_0 = rf_wavheader_decode.tag_local_pack) ∧
    g.rf_unpack_u16le_called_4 = true ∧
    (g.rf_unpack_u16le_called_4 = true → g.rf_unpack_u16le_arg_4_0 = rf_wavheader_decode.tag_local_pack) ∧
    g.rf_unpack_u16le_called_5 = (!(BitVec.ult 0x7fffff00#32 u2) && BitVec.ule 18#32 u2) ∧
    (g.rf_unpack_u16le_called_5 = true → g.rf_unpack_u16le_arg_5_0 = rf_wavheader_decode.tag_local_pack) ∧
    g.rf_unpack_u16le_called_6 = (!(BitVec.ult 0x7fffff00#32 u2) && BitVec.ule 18#32 u2 && (h5 == 22#16)) ∧
    (g.rf_unpack_u16le_called_6 = true → g.rf_unpack_u16le_arg_6_0 = rf_wavheader_decode.tag_local_pack) ∧
    g.rf_unpack_u32le_called_5 = (!(BitVec.ult 0x7fffff00#32 u2) && BitVec.ule 18#32 u2 && (h5 == 22#16)) ∧
    (g.rf_unpack_u32le_called_5 = true → g.rf_unpack_u32le_arg_5_0 = rf_wavheader_decode.tag_local_pack) ∧
    g.rf_unpack_bytes_called_4 = (!(BitVec.ult 0x7fffff00#32 u2) && BitVec.ule 18#32 u2 && (h5 == 22#16)) ∧
    (g.rf_unpack_bytes_called_4 = true → g.rf_unpack_bytes_arg_4_0 = rf_wavheader_decode.tag_local_pack) ∧
    (g.rf_unpack_bytes_called_4 = true → g.rf_unpack_bytes_arg_4_1 = rf_wavheader_decode.tag_wh_sub_format) ∧
    (g.rf_unpack_bytes_called_4 = true → g.rf_unpack_bytes_arg_4_2 = 16#32) ∧
    g.rf_unpack_bytes_called_5 = (!(BitVec.ult 0x7fffff00#32 u2) && BitVec.ule 18#32 u2 && !(h5 == 22#16)) ∧
    (g.rf_unpack_bytes_called_5 = true → g.rf_unpack_bytes_arg_5_0 = rf_wavheader_decode.tag_local_pack) ∧
    (g.rf_unpack_bytes_called_5 = true → g.rf_unpack_bytes_arg_5_1 = 0#64) ∧
    (g.rf_unpack_bytes_called_5 = true → g.rf_unpack_bytes_arg_5_2 = u2 - 18#32) ∧
    g.rf_unpack_bytes_called_6 = !(BitVec.ult 0x7fffff00#32 u2) ∧
    (g.rf_unpack_bytes_called_6 = true → g.rf_unpack_bytes_arg_6_0 = rf_wavheader_decode.tag_local_pack) ∧
    (g.rf_unpack_bytes_called_6 = true → g.rf_unpack_bytes_arg_6_1 = rf_wavheader_decode.tag_wh_data_chunk_id) ∧
    (g.rf_unpack_bytes_called_6 = true → g.rf_unpack_bytes_arg_6_2 = 4#32) ∧
    g.memcmp_called_1 = !(BitVec.ult 0x7fffff00#32 u2) ∧
    (g.memcmp_called_1 = true → g.memcmp_arg_1_0 = rf_wavheader_decode.tag_fact) ∧
    (g.memcmp_called_1 = true → g.memcmp_arg_1_1 = rf_wavheader_decode.tag_wh_data_chunk_id) ∧
    (g.memcmp_called_1 = true → g.memcmp_arg_1_2 = 4#64) ∧
    g.memcpy_called_1 = (!(BitVec.ult 0x7fffff00#32 u2) && (mc1 == 0#32)) ∧
    (g.memcpy_called_1 = true → g.memcpy_arg_1_0 = rf_wavheader_decode.tag_wh_fact_chunk_id) ∧
    (g.memcpy_called_1 = true → g.memcpy_arg_1_1 = rf_wavheader_decode.tag_wh_data_chunk_id) ∧
    (g.memcpy_called_1 = true → g.memcpy_arg_1_2 = 4#64) ∧
    g.rf_unpack_u32le_called_6 = (!(BitVec.ult 0x7fffff00#32 u2) && (mc1 == 0#32)) ∧
    (g.rf_unpack_u32le_called_6 = true → g.rf_unpack_u32le_arg_6_0 = rf_wavheader_decode.tag_local_pack) ∧
    g.rf_unpack_u32le_called_7 = (!(BitVec.ult 0x7fffff00#32 u2) && (mc1 == 0#32)) ∧
    (g.rf_unpack_u32le_called_7 = true → g.rf_unpack_u32le_arg_7_0 = rf_wavheader_decode.tag_local_pack) ∧
    g.rf_unpack_bytes_called_7 = (!(BitVec.ult 0x7fffff00#32 u2) && (mc1 == 0#32)) ∧
    (g.rf_unpack_bytes_called_7 = true → g.rf_unpack_bytes_arg_7_0 = rf_wavheader_decode.tag_local_pack) ∧
    (g.rf_unpack_bytes_called_7 = true → g.rf_unpack_bytes_arg_7_1 = rf_wavheader_decode.tag_wh_data_chunk_id) ∧
    (g.rf_unpack_bytes_called_7 = true → g.rf_unpack_bytes_arg_7_2 = 4#32) ∧
    g.rf_unpack_u32le_called_8 = !(BitVec.ult 0x7fffff00#32 u2) ∧
    (g.rf_unpack_u32le_called_8 = true → g.rf_unpack_u32le_arg_8_0 = rf_wavheader_decode.tag_local_pack) ∧
    g.memcmp_called_2 = !(BitVec.ult 0x7fffff00#32 u2) ∧
    (g.memcmp_called_2 = true → g.memcmp_arg_2_0 = rf_wavheader_decode.tag_riff) ∧
    (g.memcmp_called_2 = true → g.memcmp_arg_2_1 = rf_wavheader_decode.tag_wh_chunk_id) ∧
    (g.memcmp_called_2 = true → g.memcmp_arg_2_2 = 4#64) ∧
    g.memcmp_called_3 = (!(BitVec.ult 0x7fffff00#32 u2) && mc2 == 0#32 && !BitVec.ult u1 (12#32 + u2 + (if (!(BitVec.ult 0x7fffff00#32 u2) && (mc1 == 0#32)) then u6 else 0#32))) ∧
    (g.memcmp_called_3 = true → g.memcmp_arg_3_0 = rf_wavheader_decode.tag_wave) ∧
    (g.memcmp_called_3 = true → g.memcmp_arg_3_1 = rf_wavheader_decode.tag_wh_format) ∧
    (g.memcmp_called_3 = true → g.memcmp_arg_3_2 = 4#64) ∧
    g.rf_pack_remaining_called_1 = (!(BitVec.ult 0x7fffff00#32 u2) && mc2 == 0#32 && !BitVec.ult u1 (12#32 + u2 + (if (!(BitVec.ult 0x7fffff00#32 u2) && (mc1 == 0#32)) then u6 else 0#32)) && mc3 == 0#32) ∧
    (g.rf_pack_remaining_called_1 = true → g.rf_pack_remaining_arg_1_0 = rf_wavheader_decode.tag_local_pack) := by
  unfold rf_wavheader_decode rf_wavheader_decode.tag_local_pack rf_wavheader_decode.tag_wh_chunk_id rf_wavheader_decode.tag_wh_format rf_wavheader_decode.tag_wh_fmt_chunk_id rf_wavheader_decode.tag_wh_sub_format rf_wavheader_decode.tag_wh_fact_chunk_id rf_wavheader_decode.tag_wh_data_chunk_id rf_wavheader_decode.tag_fact rf_wavheader_decode.tag_riff rf_wavheader_decode.tag_wave
  bv_decide (config := { timeout := 300 })

/-! model-only facts about the three stages of `Librfn.Model.Wav.decode` (no generated code involved) -/

theorem decode_fst (m : Librfn.Model.Pack.Mem) (b sz : Nat) :
    (decode m b sz).1 = if 0x7fffff00#32 < (decHead m b sz).1.fmtChunkSize then (decHead m b sz).1
                        else (decTail m (decExt m (decHead m b sz))).1 := by
  unfold decode
  simp only
  split
  · rfl
  · split <;> rfl

theorem decHead_zero (m : Librfn.Model.Pack.Mem) (b sz : Nat) :
    (decHead m b sz).1.cbSize = 0#16 ∧ (decHead m b sz).1.validBitsPerSample = 0#16 ∧ (decHead m b sz).1.channelMask = 0#32 ∧
    (decHead m b sz).1.factChunkSize = 0#32 ∧ (decHead m b sz).1.sampleLength = 0#32 ∧ (decHead m b sz).1.dataChunkSize = 0#32 :=
  ⟨rfl, rfl, rfl, rfl, rfl, rfl⟩

theorem decExt_keeps (m : Librfn.Model.Pack.Mem) (s : Wh × Pk) :
    (decExt m s).1.chunkSize = s.1.chunkSize ∧ (decExt m s).1.fmtChunkSize = s.1.fmtChunkSize ∧
    (decExt m s).1.audioFormat = s.1.audioFormat ∧ (decExt m s).1.numChannels = s.1.numChannels ∧
    (decExt m s).1.sampleRate = s.1.sampleRate ∧ (decExt m s).1.byteRate = s.1.byteRate ∧
    (decExt m s).1.blockAlign = s.1.blockAlign ∧ (decExt m s).1.bitsPerSample = s.1.bitsPerSample ∧
    (decExt m s).1.factChunkSize = s.1.factChunkSize ∧ (decExt m s).1.sampleLength = s.1.sampleLength ∧
    (decExt m s).1.dataChunkSize = s.1.dataChunkSize ∧ (decExt m s).1.chunkId = s.1.chunkId ∧ (decExt m s).1.format = s.1.format := by
  unfold decExt
  split
  · simp only; split <;> exact ⟨rfl, rfl, rfl, rfl, rfl, rfl, rfl, rfl, rfl, rfl, rfl, rfl, rfl⟩
  · exact ⟨rfl, rfl, rfl, rfl, rfl, rfl, rfl, rfl, rfl, rfl, rfl, rfl, rfl⟩

theorem decExt_ext (m : Librfn.Model.Pack.Mem) (s : Wh × Pk) :
    (decExt m s).1.cbSize = (if 18#32 ≤ s.1.fmtChunkSize then (unpackU16le m s.2).1 else s.1.cbSize) ∧
    (decExt m s).1.validBitsPerSample = (if 18#32 ≤ s.1.fmtChunkSize ∧ (unpackU16le m s.2).1 = 22#16
        then (unpackU16le m (unpackU16le m s.2).2).1 else s.1.validBitsPerSample) ∧
    (decExt m s).1.channelMask = (if 18#32 ≤ s.1.fmtChunkSize ∧ (unpackU16le m s.2).1 = 22#16
        then (unpackU32le m (unpackU16le m (unpackU16le m s.2).2).2).1 else s.1.channelMask) := by
  unfold decExt
  by_cases a : 18#32 ≤ s.1.fmtChunkSize
  · by_cases c : (unpackU16le m s.2).1 = 22#16
    · simp [a, c]
    · simp [a, c]
  · simp [a]

theorem decTail_keeps (m : Librfn.Model.Pack.Mem) (s : Wh × Pk) :
    (decTail m s).1.chunkSize = s.1.chunkSize ∧ (decTail m s).1.fmtChunkSize = s.1.fmtChunkSize ∧
    (decTail m s).1.audioFormat = s.1.audioFormat ∧ (decTail m s).1.numChannels = s.1.numChannels ∧
    (decTail m s).1.sampleRate = s.1.sampleRate ∧ (decTail m s).1.byteRate = s.1.byteRate ∧
    (decTail m s).1.blockAlign = s.1.blockAlign ∧ (decTail m s).1.bitsPerSample = s.1.bitsPerSample ∧
    (decTail m s).1.cbSize = s.1.cbSize ∧ (decTail m s).1.validBitsPerSample = s.1.validBitsPerSample ∧
    (decTail m s).1.channelMask = s.1.channelMask ∧ (decTail m s).1.chunkId = s.1.chunkId ∧ (decTail m s).1.format = s.1.format := by
  unfold decTail
  simp only
  split <;> exact ⟨rfl, rfl, rfl, rfl, rfl, rfl, rfl, rfl, rfl, rfl, rfl, rfl, rfl⟩

theorem decTail_fact (m : Librfn.Model.Pack.Mem) (s : Wh × Pk) :
    (decTail m s).1.factChunkSize = (if (unpackBytes m s.2 4).1 = fact then (unpackU32le m (unpackBytes m s.2 4).2).1 else s.1.factChunkSize) ∧
    (decTail m s).1.sampleLength = (if (unpackBytes m s.2 4).1 = fact
        then (unpackU32le m (unpackU32le m (unpackBytes m s.2 4).2).2).1 else s.1.sampleLength) := by
  unfold decTail
  simp only
  split <;> exact ⟨rfl, rfl⟩

/-- **tie T, `rf_wavheader_decode`**: give every external call the answer the pack model gives at the cursor the model is at
    (`decHead` / `decExt` / `decTail` name those reads), and let `memcmp` answer as the model compares the arrays it filled.  Then
    every scalar member is the model's (`decode_tie`) and the returned `int` is the model's (`decode_ret_tie`).  That the calls are made in
    the model's order - hence at the model's cursor positions - is the call list of `decode_generated` read against the definitions of
    `decHead` / `decExt` / `decTail`; a mechanical replay of the trace against the pack model (as `encode_tie` does with `runEnc`) was
    attempted and exceeds the elaborator's budget, so that last link is by inspection. -/
theorem decode_tie (m : Librfn.Model.Pack.Mem) (b sz : Nat) (hsz : sz < 2 ^ 32) (p : BitVec 64) (wh0 : Wh) (q : BitVec 64) :
    let hd := decHead m b sz
    let ex := decExt m hd
    let tl := decTail m ex
    let e1 := unpackU16le m hd.2
    let e2 := unpackU16le m e1.2
    let e3 := unpackU32le m e2.2
    let t1 := unpackBytes m ex.2 4
    let t2 := unpackU32le m t1.2
    let t3 := unpackU32le m t2.2
    let g := rf_wavheader_decode p (BitVec.ofNat 32 sz) wh0.chunkSize wh0.fmtChunkSize wh0.audioFormat wh0.numChannels wh0.sampleRate
      wh0.byteRate wh0.blockAlign wh0.bitsPerSample wh0.cbSize wh0.validBitsPerSample wh0.channelMask wh0.factChunkSize wh0.sampleLength
      wh0.dataChunkSize hd.1.chunkSize hd.1.fmtChunkSize hd.1.audioFormat hd.1.numChannels hd.1.sampleRate hd.1.byteRate hd.1.blockAlign
      hd.1.bitsPerSample e1.1 e2.1 e3.1 (cmpRet fact t1.1) q t2.1 t3.1 tl.1.dataChunkSize (cmpRet riff hd.1.chunkId) (cmpRet wave hd.1.format)
      (BitVec.ofInt 32 (remaining tl.2))
    g.ub = false ∧ g.exh = false ∧
    g.wh_chunk_size = (decode m b sz).1.chunkSize ∧ g.wh_fmt_chunk_size = (decode m b sz).1.fmtChunkSize ∧
    g.wh_audio_format = (decode m b sz).1.audioFormat ∧ g.wh_num_channels = (decode m b sz).1.numChannels ∧
    g.wh_sample_rate = (decode m b sz).1.sampleRate ∧ g.wh_byte_rate = (decode m b sz).1.byteRate ∧
    g.wh_block_align = (decode m b sz).1.blockAlign ∧ g.wh_bits_per_sample = (decode m b sz).1.bitsPerSample ∧
    g.wh_cb_size = (decode m b sz).1.cbSize ∧ g.wh_valid_bits_per_sample = (decode m b sz).1.validBitsPerSample ∧
    g.wh_channel_mask = (decode m b sz).1.channelMask ∧ g.wh_fact_chunk_size = (decode m b sz).1.factChunkSize ∧
    g.wh_sample_length = (decode m b sz).1.sampleLength ∧ g.wh_data_chunk_size = (decode m b sz).1.dataChunkSize := by
  intro hd ex tl e1 e2 e3 t1 t2 t3 g
  have H := decode_generated p (BitVec.ofNat 32 sz) wh0.chunkSize wh0.fmtChunkSize wh0.audioFormat wh0.numChannels wh0.sampleRate
      wh0.byteRate wh0.blockAlign wh0.bitsPerSample wh0.cbSize wh0.validBitsPerSample wh0.channelMask wh0.factChunkSize wh0.sampleLength
      wh0.dataChunkSize hd.1.chunkSize hd.1.fmtChunkSize hd.1.audioFormat hd.1.numChannels hd.1.sampleRate hd.1.byteRate hd.1.blockAlign
      hd.1.bitsPerSample e1.1 e2.1 e3.1 (cmpRet fact t1.1) q t2.1 t3.1 tl.1.dataChunkSize (cmpRet riff hd.1.chunkId) (cmpRet wave hd.1.format)
      (BitVec.ofInt 32 (remaining tl.2))
  obtain ⟨h1, h2, _, _, f1, f2, f3, f4, f5, f6, f7, f8, f9, f10, f11, f12, f13, f14, _⟩ := H
  have bult (a c : BitVec 32) : BitVec.ult a c = decide (a < c) := by simp [BitVec.ult, BitVec.lt_def]
  have bule (a c : BitVec 32) : BitVec.ule a c = decide (a ≤ c) := by simp [BitVec.ule, BitVec.le_def]
  have cfact (t : List UInt8) : (cmpRet fact t == 0#32) = decide (t = fact) := by
    unfold cmpRet
    by_cases h : fact = t
    · subst h; simp
    · have : ¬ t = fact := fun e => h e.symm
      simp [h, this]
  refine ⟨h1, h2, ?_, ?_, ?_, ?_, ?_, ?_, ?_, ?_, ?_, ?_, ?_, ?_, ?_, ?_⟩
  all_goals (first | rw [f1] | rw [f2] | rw [f3] | rw [f4] | rw [f5] | rw [f6] | rw [f7] | rw [f8] | rw [f9] | rw [f10] | rw [f11] | rw [f12] | rw [f13] | rw [f14])
  all_goals rw [decode_fst]
  · split
    · rfl
    · rw [(decTail_keeps m _).1, (decExt_keeps m _).1]
  · split
    · rfl
    · rw [(decTail_keeps m _).2.1, (decExt_keeps m _).2.1]
  · split
    · rfl
    · rw [(decTail_keeps m _).2.2.1, (decExt_keeps m _).2.2.1]
  · split
    · rfl
    · rw [(decTail_keeps m _).2.2.2.1, (decExt_keeps m _).2.2.2.1]
  · split
    · rfl
    · rw [(decTail_keeps m _).2.2.2.2.1, (decExt_keeps m _).2.2.2.2.1]
  · split
    · rfl
    · rw [(decTail_keeps m _).2.2.2.2.2.1, (decExt_keeps m _).2.2.2.2.2.1]
  · split
    · rfl
    · rw [(decTail_keeps m _).2.2.2.2.2.2.1, (decExt_keeps m _).2.2.2.2.2.2.1]
  · split
    · rfl
    · rw [(decTail_keeps m _).2.2.2.2.2.2.2.1, (decExt_keeps m _).2.2.2.2.2.2.2.1]
  · rw [bult, bule]
    by_cases hb : 0x7fffff00#32 < (decHead m b sz).1.fmtChunkSize
    · have hb' : 0x7fffff00#32 < hd.1.fmtChunkSize := hb
      rw [if_pos hb]
      simp only [hb', decide_true, Bool.not_true, Bool.false_and, Bool.false_eq_true, if_false]
      exact (decHead_zero m b sz).1.symm
    · have hb' : ¬ 0x7fffff00#32 < hd.1.fmtChunkSize := hb
      rw [if_neg hb, (decTail_keeps m _).2.2.2.2.2.2.2.2.1, (decExt_ext m _).1, (decHead_zero m b sz).1]
      simp only [hb', decide_false, Bool.not_false, Bool.true_and]
      by_cases a : 18#32 ≤ hd.1.fmtChunkSize
      · have a' : 18#32 ≤ (decHead m b sz).1.fmtChunkSize := a
        simp [a, a', e1, e2, e3, hd]
      · have a' : ¬ 18#32 ≤ (decHead m b sz).1.fmtChunkSize := a
        simp [a, a']
  · rw [bult, bule]
    by_cases hb : 0x7fffff00#32 < (decHead m b sz).1.fmtChunkSize
    · have hb' : 0x7fffff00#32 < hd.1.fmtChunkSize := hb
      rw [if_pos hb]
      simp only [hb', decide_true, Bool.not_true, Bool.false_and, Bool.false_eq_true, if_false]
      exact (decHead_zero m b sz).2.1.symm
    · have hb' : ¬ 0x7fffff00#32 < hd.1.fmtChunkSize := hb
      rw [if_neg hb, (decTail_keeps m _).2.2.2.2.2.2.2.2.2.1, (decExt_ext m _).2.1, (decHead_zero m b sz).2.1]
      simp only [hb', decide_false, Bool.not_false, Bool.true_and]
      by_cases a : 18#32 ≤ hd.1.fmtChunkSize
      · have a' : 18#32 ≤ (decHead m b sz).1.fmtChunkSize := a
        simp [a, a', e1, e2, e3, hd]
      · have a' : ¬ 18#32 ≤ (decHead m b sz).1.fmtChunkSize := a
        simp [a, a']
  · rw [bult, bule]
    by_cases hb : 0x7fffff00#32 < (decHead m b sz).1.fmtChunkSize
    · have hb' : 0x7fffff00#32 < hd.1.fmtChunkSize := hb
      rw [if_pos hb]
      simp only [hb', decide_true, Bool.not_true, Bool.false_and, Bool.false_eq_true, if_false]
      exact (decHead_zero m b sz).2.2.1.symm
    · have hb' : ¬ 0x7fffff00#32 < hd.1.fmtChunkSize := hb
      rw [if_neg hb, (decTail_keeps m _).2.2.2.2.2.2.2.2.2.2.1, (decExt_ext m _).2.2, (decHead_zero m b sz).2.2.1]
      simp only [hb', decide_false, Bool.not_false, Bool.true_and]
      by_cases a : 18#32 ≤ hd.1.fmtChunkSize
      · have a' : 18#32 ≤ (decHead m b sz).1.fmtChunkSize := a
        simp [a, a', e1, e2, e3, hd]
      · have a' : ¬ 18#32 ≤ (decHead m b sz).1.fmtChunkSize := a
        simp [a, a']
  · rw [bult, cfact]
    by_cases hb : 0x7fffff00#32 < (decHead m b sz).1.fmtChunkSize
    · have hb' : 0x7fffff00#32 < hd.1.fmtChunkSize := hb
      rw [if_pos hb]
      simp only [hb', decide_true, Bool.not_true, Bool.false_and, Bool.false_eq_true, if_false]
      exact (decHead_zero m b sz).2.2.2.1.symm
    · have hb' : ¬ 0x7fffff00#32 < hd.1.fmtChunkSize := hb
      rw [if_neg hb, (decTail_fact m _).1, (decExt_keeps m _).2.2.2.2.2.2.2.2.1, (decHead_zero m b sz).2.2.2.1]
      simp only [hb', decide_false, Bool.not_false, Bool.true_and]
      by_cases a : t1.1 = fact
      · have a' : (unpackBytes m (decExt m (decHead m b sz)).2 4).1 = fact := a
        simp [a, a', t1, t2, t3, ex, hd]
      · have a' : ¬ (unpackBytes m (decExt m (decHead m b sz)).2 4).1 = fact := a
        simp [a, a']
  · rw [bult, cfact]
    by_cases hb : 0x7fffff00#32 < (decHead m b sz).1.fmtChunkSize
    · have hb' : 0x7fffff00#32 < hd.1.fmtChunkSize := hb
      rw [if_pos hb]
      simp only [hb', decide_true, Bool.not_true, Bool.false_and, Bool.false_eq_true, if_false]
      exact (decHead_zero m b sz).2.2.2.2.1.symm
    · have hb' : ¬ 0x7fffff00#32 < hd.1.fmtChunkSize := hb
      rw [if_neg hb, (decTail_fact m _).2, (decExt_keeps m _).2.2.2.2.2.2.2.2.2.1, (decHead_zero m b sz).2.2.2.2.1]
      simp only [hb', decide_false, Bool.not_false, Bool.true_and]
      by_cases a : t1.1 = fact
      · have a' : (unpackBytes m (decExt m (decHead m b sz)).2 4).1 = fact := a
        simp [a, a', t1, t2, t3, ex, hd]
      · have a' : ¬ (unpackBytes m (decExt m (decHead m b sz)).2 4).1 = fact := a
        simp [a, a']
  · rw [bult]
    by_cases hb : 0x7fffff00#32 < (decHead m b sz).1.fmtChunkSize
    · have hb' : 0x7fffff00#32 < hd.1.fmtChunkSize := hb
      rw [if_pos hb]
      simp only [hb', decide_true, Bool.not_true, Bool.false_eq_true, if_false]
      exact (decHead_zero m b sz).2.2.2.2.2.symm
    · have hb' : ¬ 0x7fffff00#32 < hd.1.fmtChunkSize := hb
      rw [if_neg hb]
      simp only [hb', decide_false, Bool.not_false, if_true]
      rfl

theorem wrap32_eq_bmod (x : Int) : wrap32 x = Int.bmod x 4294967296 := by
  unfold wrap32
  simp only [Int.bmod]
  split <;> omega

theorem toInt_sub_ofNat_ofInt (a : Nat) (r : Int) :
    (BitVec.ofNat 32 a - BitVec.ofInt 32 r).toInt = wrap32 ((a : Int) - r) := by
  rw [wrap32_eq_bmod, BitVec.toInt_sub, BitVec.toInt_ofNat', BitVec.toInt_ofInt, ← Int.sub_bmod]

theorem ret_form (a : Nat) (r : Int) : ((BitVec.ofNat 32 a).toInt - r).bmod 4294967296 = wrap32 ((a : Int) - r) := by
  rw [wrap32_eq_bmod, BitVec.toInt_ofNat']
  exact Int.bmod_sub_bmod

/-- **tie T, `rf_wavheader_decode`, returned value**: with the same answers as in `decode_tie`, the returned `int` is the model's:
    `-EINVAL` for an over-long format chunk (before anything is skipped), a wrong `RIFF` / `WAVE` tag or a chunk size smaller than
    the chunks it contains (sum in wrapping 32-bit arithmetic), else `sz - rf_pack_remaining()` read as `int` -/
theorem decode_ret_tie (m : Librfn.Model.Pack.Mem) (b sz : Nat) (p : BitVec 64) (wh0 : Wh) (q : BitVec 64) :
    let hd := decHead m b sz
    let ex := decExt m hd
    let tl := decTail m ex
    let e1 := unpackU16le m hd.2
    let e2 := unpackU16le m e1.2
    let e3 := unpackU32le m e2.2
    let t1 := unpackBytes m ex.2 4
    let t2 := unpackU32le m t1.2
    let t3 := unpackU32le m t2.2
    let g := rf_wavheader_decode p (BitVec.ofNat 32 sz) wh0.chunkSize wh0.fmtChunkSize wh0.audioFormat wh0.numChannels wh0.sampleRate
      wh0.byteRate wh0.blockAlign wh0.bitsPerSample wh0.cbSize wh0.validBitsPerSample wh0.channelMask wh0.factChunkSize wh0.sampleLength
      wh0.dataChunkSize hd.1.chunkSize hd.1.fmtChunkSize hd.1.audioFormat hd.1.numChannels hd.1.sampleRate hd.1.byteRate hd.1.blockAlign
      hd.1.bitsPerSample e1.1 e2.1 e3.1 (cmpRet fact t1.1) q t2.1 t3.1 tl.1.dataChunkSize (cmpRet riff hd.1.chunkId) (cmpRet wave hd.1.format)
      (BitVec.ofInt 32 (remaining tl.2))
    g.ret.toInt = (decode m b sz).2 := by
  intro hd ex tl e1 e2 e3 t1 t2 t3 g
  have H := decode_generated p (BitVec.ofNat 32 sz) wh0.chunkSize wh0.fmtChunkSize wh0.audioFormat wh0.numChannels wh0.sampleRate
      wh0.byteRate wh0.blockAlign wh0.bitsPerSample wh0.cbSize wh0.validBitsPerSample wh0.channelMask wh0.factChunkSize wh0.sampleLength
      wh0.dataChunkSize hd.1.chunkSize hd.1.fmtChunkSize hd.1.audioFormat hd.1.numChannels hd.1.sampleRate hd.1.byteRate hd.1.blockAlign
      hd.1.bitsPerSample e1.1 e2.1 e3.1 (cmpRet fact t1.1) q t2.1 t3.1 tl.1.dataChunkSize (cmpRet riff hd.1.chunkId) (cmpRet wave hd.1.format)
      (BitVec.ofInt 32 (remaining tl.2))
  obtain ⟨_, _, _, hr, _⟩ := H
  have bult (a c : BitVec 32) : BitVec.ult a c = decide (a < c) := by simp [BitVec.ult, BitVec.lt_def]
  have cne (a t : List UInt8) : (cmpRet a t != 0#32) = decide (t ≠ a) := by
    unfold cmpRet
    by_cases h : a = t
    · subst h; simp
    · have : ¬ t = a := fun e => h e.symm
      simp [h, this]
  have cfact (t : List UInt8) : (cmpRet fact t == 0#32) = decide (t = fact) := by
    unfold cmpRet
    by_cases h : fact = t
    · subst h; simp
    · have : ¬ t = fact := fun e => h e.symm
      simp [h, this]
  show (rf_wavheader_decode _ _ _ _ _ _ _ _ _ _ _ _ _ _ _ _ _ _ _ _ _ _ _ _ _ _ _ _ _ _ _ _ _ _ _).ret.toInt = _
  rw [hr, bult, bult, cne, cne, cfact]
  unfold decode
  simp only
  by_cases hb : 0x7fffff00#32 < (decHead m b sz).1.fmtChunkSize
  · have hb' : 0x7fffff00#32 < hd.1.fmtChunkSize := hb
    rw [if_pos hb]
    simp only [hb', decide_true, Bool.not_true, Bool.not_false, if_true]
    rfl
  · have hb' : ¬ 0x7fffff00#32 < hd.1.fmtChunkSize := hb
    rw [if_neg hb]
    simp only [hb', decide_false, Bool.not_false, Bool.not_true, Bool.false_eq_true, if_false, Bool.true_and]
    have k1 : (decTail m (decExt m (decHead m b sz))).1.chunkId = hd.1.chunkId := by
      rw [(decTail_keeps m _).2.2.2.2.2.2.2.2.2.2.2.1, (decExt_keeps m _).2.2.2.2.2.2.2.2.2.2.2.1]
    have k2 : (decTail m (decExt m (decHead m b sz))).1.format = hd.1.format := by
      rw [(decTail_keeps m _).2.2.2.2.2.2.2.2.2.2.2.2, (decExt_keeps m _).2.2.2.2.2.2.2.2.2.2.2.2]
    have k3 : (decTail m (decExt m (decHead m b sz))).1.chunkSize = hd.1.chunkSize := by
      rw [(decTail_keeps m _).1, (decExt_keeps m _).1]
    have k4 : (decTail m (decExt m (decHead m b sz))).1.fmtChunkSize = hd.1.fmtChunkSize := by
      rw [(decTail_keeps m _).2.1, (decExt_keeps m _).2.1]
    have k5 : (decTail m (decExt m (decHead m b sz))).1.factChunkSize = (if t1.1 = fact then t2.1 else 0#32) := by
      rw [(decTail_fact m _).1, (decExt_keeps m _).2.2.2.2.2.2.2.2.1, (decHead_zero m b sz).2.2.2.1]
    unfold headerBad
    rw [k1, k2, k3, k4, k5]
    by_cases c1 : hd.1.chunkId ≠ riff
    · simp [c1, EINVAL]
    · by_cases c2 : hd.1.chunkSize < 12#32 + hd.1.fmtChunkSize + (if t1.1 = fact then t2.1 else 0#32)
      · simp [c1, c2, EINVAL]
      · by_cases c3 : hd.1.format ≠ wave
        · simp [c1, c2, c3, EINVAL]
        · simp [c1, c2, c3]
          exact ret_form sz _

end Librfn.C13.TieSeq

import Librfn.Model.Wav
namespace Librfn.C13
open Librfn.Model.Pack Librfn.Model.Wav

/-- `rf_wavheader_init` overwrites whatever the structure held -/
theorem init_independent_of_prior (p q : Wh) (sfreq nch : BitVec 32) (format : Int) :
    init p sfreq nch format = init q sfreq nch format := rfl

end Librfn.C13

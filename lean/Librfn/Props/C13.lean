import Librfn.Model.Wav
import Librfn.Lemmas.Wav
import Librfn.Lemmas.WavCodec
import Librfn.Props.C14
/-!
# C13 — WAV headers round-trip and describe the file they head

Model: `Librfn.Model.Wav` (`init` as a function of the previous structure, `setNumFrames`, `encode`, `decode`,
`validate`) on top of the pack model.  The encoder is shown to be a run of packers (`encode_run`), so C12's
`back_to_back` describes the bytes it writes; the decoder facts come from C14's development.
-/
namespace Librfn.C13
open Librfn.Model.Pack Librfn.Model.Wav Librfn.Lemmas.Pack Librfn.Lemmas.Wav Librfn.Lemmas.WavCodec

/-! ### init and set_num_frames -/

/-- **init_independent_of_prior**: `rf_wavheader_init` yields the same structure whatever `*wh` held before
    (the `memset` of fix 46841fa overwrites everything) -/
theorem init_independent_of_prior (p q : Wh) (sfreq nch : BitVec 32) (format : Int) :
    init p sfreq nch format = init q sfreq nch format := rfl

/-- bytes per sample of the three formats (S16LE = 0, S32LE = 1, FLOAT = 2) -/
def width (f : Int) : Nat := if f = 0 then 2 else 4
/-- length of the header the format needs: 44 bytes, 58 with the fact chunk of FLOAT -/
def hlen (f : Int) : Nat := if f = 2 then 58 else 44

/-- the property's scope: a real format, `int` arguments, block alignment fits its 16-bit field, byte rate, data size
    and RIFF size fit 32 bits -/
structure Scope (f : Int) (c r n : Nat) : Prop where
  fmt : f = 0 ∨ f = 1 ∨ f = 2
  rate : r < 2147483648
  frames : n < 4294967296
  align : c * width f < 65536
  srate : r * width f < 4294967296            -- implied by `brate` unless c = 0
  brate : r * width f * c < 4294967296
  riffsz : hlen f - 8 + n * (c * width f) < 4294967296
  slen : n * c < 4294967296

/-- the header `rf_wavheader_init(wh, r, c, f); rf_wavheader_set_num_frames(wh, n)` leaves in `*wh` -/
def made (prior : Wh) (f : Int) (c r n : Nat) : Wh :=
  setNumFrames (init prior (BitVec.ofNat 32 r) (BitVec.ofNat 32 c) f) (BitVec.ofNat 32 n)

theorem toNat_mul32 (a b : BitVec 32) (h : a.toNat * b.toNat < 4294967296) : (a * b).toNat = a.toNat * b.toNat := by
  rw [BitVec.toNat_mul]; exact Nat.mod_eq_of_lt h

theorem toNat_ofNat32 (x : Nat) (h : x < 4294967296) : (BitVec.ofNat 32 x).toNat = x := by
  rw [BitVec.toNat_ofNat]; exact Nat.mod_eq_of_lt h

/-- the PCM formats: the structure produced, field by field -/
theorem made_pcm (prior : Wh) (f : Int) (hf : f = 0 ∨ f = 1) (c r n : Nat) :
    made prior f c r n =
    { Wh.zero with
      chunkId := riff, format := wave, fmtChunkId := fmtId, fmtChunkSize := 16#32,
      chunkSize := 36#32 - 0#32 + BitVec.ofNat 32 n * ((BitVec.ofNat 32 (width f) * BitVec.ofNat 32 c).setWidth 16).setWidth 32,
      audioFormat := 1#16, numChannels := (BitVec.ofNat 32 c).setWidth 16, sampleRate := BitVec.ofNat 32 r,
      byteRate := BitVec.ofNat 32 r * BitVec.ofNat 32 (width f) * BitVec.ofNat 32 c,
      blockAlign := (BitVec.ofNat 32 (width f) * BitVec.ofNat 32 c).setWidth 16,
      bitsPerSample := (BitVec.ofNat 32 (width f) * 8#32).setWidth 16,
      dataChunkId := data,
      dataChunkSize := BitVec.ofNat 32 n * ((BitVec.ofNat 32 (width f) * BitVec.ofNat 32 c).setWidth 16).setWidth 32 } := by
  rcases hf with rfl | rfl <;> rfl

/-- FLOAT: with the fact chunk -/
theorem made_float (prior : Wh) (c r n : Nat) :
    made prior 2 c r n =
    { Wh.zero with
      chunkId := riff, format := wave, fmtChunkId := fmtId, fmtChunkSize := 18#32,
      chunkSize := 50#32 - 0#32 + BitVec.ofNat 32 n * ((4#32 * BitVec.ofNat 32 c).setWidth 16).setWidth 32,
      audioFormat := 3#16, numChannels := (BitVec.ofNat 32 c).setWidth 16, sampleRate := BitVec.ofNat 32 r,
      byteRate := BitVec.ofNat 32 r * 4#32 * BitVec.ofNat 32 c,
      blockAlign := (4#32 * BitVec.ofNat 32 c).setWidth 16,
      bitsPerSample := 32#16,
      factChunkId := fact, factChunkSize := 12#32,
      sampleLength := BitVec.ofNat 32 n * ((BitVec.ofNat 32 c).setWidth 16).setWidth 32,
      dataChunkId := data,
      dataChunkSize := BitVec.ofNat 32 n * ((4#32 * BitVec.ofNat 32 c).setWidth 16).setWidth 32 } := by
  rfl

theorem setWidth16_32 (x : BitVec 32) (h : x.toNat < 65536) : ((x.setWidth 16).setWidth 32) = x := by
  apply BitVec.eq_of_toNat_eq
  simp only [BitVec.toNat_setWidth]
  omega

theorem toNat_setWidth16 (x : BitVec 32) (h : x.toNat < 65536) : (x.setWidth 16).toNat = x.toNat := by
  simp only [BitVec.toNat_setWidth]; omega

theorem cs_lemma (k : Nat) (hk : k < 100) (X : BitVec 32) (h : k + X.toNat < 4294967296) :
    (BitVec.ofNat 32 k - 0#32 + X).toNat = k + X.toNat := by
  rw [BitVec.sub_zero, BitVec.toNat_add, BitVec.toNat_ofNat]; omega

/-- the arithmetic of `init`/`set_num_frames` inside the scope, as natural numbers -/
theorem arith (w c r n : Nat) (hw : w = 2 ∨ w = 4) (hr : r < 2147483648) (hn : n < 4294967296) (ha : c * w < 65536)
    (hs : r * w < 4294967296) (hb : r * w * c < 4294967296) (hd : n * (c * w) < 4294967296) :
    ((BitVec.ofNat 32 w * BitVec.ofNat 32 c).setWidth 16).toNat = c * w ∧
    (BitVec.ofNat 32 r * BitVec.ofNat 32 w * BitVec.ofNat 32 c).toNat = r * (c * w) ∧
    (BitVec.ofNat 32 n * ((BitVec.ofNat 32 w * BitVec.ofNat 32 c).setWidth 16).setWidth 32).toNat = n * (c * w) ∧
    ((BitVec.ofNat 32 c).setWidth 16).toNat = c := by
  have hc : c < 65536 := by rcases hw with rfl | rfl <;> omega
  have e1 : (BitVec.ofNat 32 w).toNat = w := toNat_ofNat32 w (by omega)
  have e2 : (BitVec.ofNat 32 c).toNat = c := toNat_ofNat32 c (by omega)
  have e3 : (BitVec.ofNat 32 r).toNat = r := toNat_ofNat32 r (by omega)
  have e4 : (BitVec.ofNat 32 n).toNat = n := toNat_ofNat32 n hn
  have m1 : (BitVec.ofNat 32 w * BitVec.ofNat 32 c).toNat = c * w := by
    rw [toNat_mul32 _ _ (by rw [e1, e2, Nat.mul_comm]; omega), e1, e2, Nat.mul_comm]
  have m2 : (BitVec.ofNat 32 r * BitVec.ofNat 32 w).toNat = r * w := by
    rw [toNat_mul32 _ _ (by rw [e3, e1]; exact hs), e3, e1]
  refine ⟨?_, ?_, ?_, ?_⟩
  · rw [toNat_setWidth16 _ (by rw [m1]; exact ha), m1]
  · rw [toNat_mul32 _ _ (by rw [m2, e2]; exact hb), m2, e2, Nat.mul_assoc, Nat.mul_comm w c]
  · rw [setWidth16_32 _ (by rw [m1]; exact ha), toNat_mul32 _ _ (by rw [e4, m1]; exact hd), e4, m1]
  · rw [toNat_setWidth16 _ (by rw [e2]; exact hc), e2]

/-- **the size fields describe the file** (`block_align`, `byte_rate`, `bits`, `data_size`, `riff_size_consistent`):
    for every format, channel count, rate and frame count in scope and every prior content,
    block alignment = channels × width, byte rate = rate × block alignment, bits per sample = 8 × width,
    data size = frames × block alignment, and the RIFF chunk size = (header length − 8) + data size, i.e. the number of
    bytes that follow the field in a file carrying exactly the declared data. -/
theorem describes_file (prior : Wh) (f : Int) (c r n : Nat) (h : Scope f c r n) :
    (made prior f c r n).numChannels.toNat = c ∧
    (made prior f c r n).sampleRate.toNat = r ∧
    (made prior f c r n).blockAlign.toNat = c * width f ∧
    (made prior f c r n).byteRate.toNat = r * (c * width f) ∧
    (made prior f c r n).bitsPerSample.toNat = 8 * width f ∧
    (made prior f c r n).dataChunkSize.toNat = n * (c * width f) ∧
    (made prior f c r n).chunkSize.toNat = hlen f - 8 + (made prior f c r n).dataChunkSize.toNat := by
  obtain ⟨hf, hr, hn, ha, hs, hb, hz, _⟩ := h
  have hr32 : (BitVec.ofNat 32 r).toNat = r := toNat_ofNat32 r (by omega)
  rcases hf with rfl | rfl | rfl
  · have hw : width 0 = 2 := rfl
    have hh : hlen 0 = 44 := rfl
    rw [hw] at ha hs hb hz; rw [hh] at hz
    obtain ⟨a1, a2, a3, a4⟩ := arith 2 c r n (Or.inl rfl) hr hn ha hs hb (by omega)
    rw [made_pcm prior 0 (Or.inl rfl), hw, hh]
    exact ⟨a4, hr32, a1, a2, rfl, a3, cs_lemma 36 (by omega) _ (by rw [a3]; omega)⟩
  · have hw : width 1 = 4 := rfl
    have hh : hlen 1 = 44 := rfl
    rw [hw] at ha hs hb hz; rw [hh] at hz
    obtain ⟨a1, a2, a3, a4⟩ := arith 4 c r n (Or.inr rfl) hr hn ha hs hb (by omega)
    rw [made_pcm prior 1 (Or.inr rfl), hw, hh]
    exact ⟨a4, hr32, a1, a2, rfl, a3, cs_lemma 36 (by omega) _ (by rw [a3]; omega)⟩
  · have hw : width 2 = 4 := rfl
    have hh : hlen 2 = 58 := rfl
    rw [hw] at ha hs hb hz; rw [hh] at hz
    obtain ⟨a1, a2, a3, a4⟩ := arith 4 c r n (Or.inr rfl) hr hn ha hs hb (by omega)
    rw [made_float prior, hw, hh]
    exact ⟨a4, hr32, a1, a2, rfl, a3, cs_lemma 50 (by omega) _ (by rw [a3]; omega)⟩

/-! ### encode then decode -/

theorem mol (b : Nat) (l : List UInt8) (i : Nat) : memOfList b l (b + i) = l.getD i 0 := by
  simp [memOfList]
theorem mol0 (b : Nat) (l : List UInt8) : memOfList b l b = l.getD 0 0 := mol b l 0

theorem agree_memOfList (m : Mem) (b : Nat) (l : List UInt8) (h : readBytes m b l.length = l) :
    Agree b l.length m (memOfList b l) := by
  intro i h1 h2
  have e1 := readBytes_getElem? m b l.length (i - b) (by omega)
  have e2 := readBytes_getElem? (memOfList b l) b l.length (i - b) (by omega)
  rw [h] at e1
  rw [readBytes_memOfList] at e2
  have : b + (i - b) = i := by omega
  rw [this] at e1 e2
  exact Option.some.inj (e1.symm.trans e2)

theorem len4 (l : List UInt8) (h : l.length = 4) : ∃ a b c d, l = [a, b, c, d] := by
  match l, h with
  | [a, b, c, d], _ => exact ⟨a, b, c, d, rfl⟩

/-- decoding the 44 bytes of a PCM-shaped encoding (any field values, any 4-byte `fmt `/`data` ids) -/
theorem decode_pcm_list (b : Nat) (cs sr br ds : BitVec 32) (af nc ba bps : BitVec 16) (f0 f1 f2 f3 d0 d1 d2 d3 : UInt8)
    (hd : [d0, d1, d2, d3] ≠ fact) (hcs : ¬ cs < 28#32) :
    decode (memOfList b (riff ++ encU32le cs ++ wave ++ [f0, f1, f2, f3] ++ encU32le 16#32 ++ encU16le af ++ encU16le nc ++
      encU32le sr ++ encU32le br ++ encU16le ba ++ encU16le bps ++ [d0, d1, d2, d3] ++ encU32le ds)) b 44 =
    ({ Wh.zero with
        chunkId := riff, chunkSize := cs, format := wave, fmtChunkId := [f0, f1, f2, f3], fmtChunkSize := 16#32,
        audioFormat := af, numChannels := nc, sampleRate := sr, byteRate := br, blockAlign := ba, bitsPerSample := bps,
        dataChunkId := [d0, d1, d2, d3], dataChunkSize := ds }, 44) := by
  have hH : decHead (memOfList b (riff ++ encU32le cs ++ wave ++ [f0, f1, f2, f3] ++ encU32le 16#32 ++ encU16le af ++
      encU16le nc ++ encU32le sr ++ encU32le br ++ encU16le ba ++ encU16le bps ++ [d0, d1, d2, d3] ++ encU32le ds)) b 44 =
      ({ Wh.zero with
        chunkId := riff, chunkSize := cs, format := wave, fmtChunkId := [f0, f1, f2, f3], fmtChunkSize := 16#32,
        audioFormat := af, numChannels := nc, sampleRate := sr, byteRate := br, blockAlign := ba,
        bitsPerSample := bps }, ⟨b, 44, 36⟩) := by
    simp only [decHead, Librfn.Model.Pack.init, unpackBytes, unpackU32le, unpackU16le, fits, advance,
      readBytes, riff, wave, encU32le, encU16le, List.cons_append, List.nil_append, Nat.reduceAdd, Nat.zero_add,
      Nat.reduceLeDiff, decide_true, if_true, mol, mol0, Nat.add_assoc, List.getD_cons_succ, List.getD_cons_zero,
      dec32_enc, dec16_enc]
  unfold decode
  simp only [hH]
  have n1 : ¬ (0x7fffff00#32 < 16#32) := by decide
  have n2 : ¬ (18#32 ≤ 16#32) := by decide
  simp only [n1, if_false, decExt, n2]
  simp only [decTail, unpackBytes, unpackU32le, fits, advance,
      readBytes, riff, wave, encU32le, encU16le, List.cons_append, List.nil_append, Nat.reduceAdd, Nat.zero_add,
      Nat.reduceLeDiff, decide_true, if_true, mol, mol0, Nat.add_assoc, List.getD_cons_succ, List.getD_cons_zero,
      dec32_enc, dec16_enc, hd, if_false]
  simp [headerBad, riff, wave, Wh.zero, zero4, hcs, remaining, wrap32]

/-- decoding the 58 bytes of a FLOAT-shaped encoding (format chunk of 18 bytes with `cb_size` 0, fact chunk) -/
theorem decode_float_list (b : Nat) (cs sr br fas sl ds : BitVec 32) (af nc ba bps : BitVec 16)
    (f0 f1 f2 f3 d0 d1 d2 d3 : UInt8) (hcs : ¬ cs < 12#32 + 18#32 + fas) :
    decode (memOfList b (riff ++ encU32le cs ++ wave ++ [f0, f1, f2, f3] ++ encU32le 18#32 ++ encU16le af ++ encU16le nc ++
      encU32le sr ++ encU32le br ++ encU16le ba ++ encU16le bps ++ encU16le 0#16 ++ fact ++ encU32le fas ++ encU32le sl ++
      [d0, d1, d2, d3] ++ encU32le ds)) b 58 =
    ({ Wh.zero with
        chunkId := riff, chunkSize := cs, format := wave, fmtChunkId := [f0, f1, f2, f3], fmtChunkSize := 18#32,
        audioFormat := af, numChannels := nc, sampleRate := sr, byteRate := br, blockAlign := ba, bitsPerSample := bps,
        factChunkId := fact, factChunkSize := fas, sampleLength := sl,
        dataChunkId := [d0, d1, d2, d3], dataChunkSize := ds }, 58) := by
  have hH : decHead (memOfList b (riff ++ encU32le cs ++ wave ++ [f0, f1, f2, f3] ++ encU32le 18#32 ++ encU16le af ++
      encU16le nc ++ encU32le sr ++ encU32le br ++ encU16le ba ++ encU16le bps ++ encU16le 0#16 ++ fact ++ encU32le fas ++
      encU32le sl ++ [d0, d1, d2, d3] ++ encU32le ds)) b 58 =
      ({ Wh.zero with
        chunkId := riff, chunkSize := cs, format := wave, fmtChunkId := [f0, f1, f2, f3], fmtChunkSize := 18#32,
        audioFormat := af, numChannels := nc, sampleRate := sr, byteRate := br, blockAlign := ba,
        bitsPerSample := bps }, ⟨b, 58, 36⟩) := by
    simp only [decHead, Librfn.Model.Pack.init, unpackBytes, unpackU32le, unpackU16le, fits, advance,
      readBytes, riff, wave, fact, encU32le, encU16le, List.cons_append, List.nil_append, Nat.reduceAdd, Nat.zero_add,
      Nat.reduceLeDiff, decide_true, if_true, mol, mol0, Nat.add_assoc, List.getD_cons_succ, List.getD_cons_zero,
      dec32_enc, dec16_enc]
  unfold decode
  simp only [hH]
  have n1 : ¬ (0x7fffff00#32 < 18#32) := by decide
  have n2 : (18#32 ≤ 18#32) := by decide
  have n3 : ¬ ((0#16 : BitVec 16) = 22#16) := by decide
  have n4 : (18#32 - 18#32).toNat = 0 := by decide
  simp only [n1, if_false, decExt, n2, if_true]
  simp only [unpackU16le, unpackSkip, fits, advance,
      readBytes, riff, wave, fact, encU32le, encU16le, List.cons_append, List.nil_append, Nat.reduceAdd, Nat.zero_add,
      Nat.reduceLeDiff, decide_true, if_true, mol, mol0, Nat.add_assoc, List.getD_cons_succ, List.getD_cons_zero,
      dec32_enc, dec16_enc, n3, n4, if_false, Nat.add_zero]
  simp only [decTail, unpackBytes, unpackU32le, fits, advance,
      readBytes, riff, wave, fact, encU32le, encU16le, List.cons_append, List.nil_append, Nat.reduceAdd, Nat.zero_add,
      Nat.reduceLeDiff, decide_true, if_true, mol, mol0, Nat.add_assoc, List.getD_cons_succ, List.getD_cons_zero,
      dec32_enc, dec16_enc]
  have h30 : 12#32 + 18#32 + fas = 30#32 + fas := by
    rw [show (12#32 + 18#32 : BitVec 32) = 30#32 from by decide]
  rw [h30] at hcs
  simp [headerBad, riff, wave, Wh.zero, zero4, hcs, remaining, wrap32]

/-- the two shapes `rf_wavheader_init` produces, with *arbitrary* values in the fields that are emitted: a 16-byte
    format chunk without fact chunk, or an 18-byte format chunk (`cb_size` 0) with a fact chunk; every field that is
    not emitted is clear; the RIFF size passes the decoder's sanity test -/
structure Canon (wh : Wh) : Prop where
  riff : wh.chunkId = riff
  wave : wh.format = wave
  fmtId : wh.fmtChunkId.length = 4
  dataId : wh.dataChunkId.length = 4
  dataNotFact : wh.dataChunkId ≠ fact
  cb : wh.cbSize = 0#16
  vb : wh.validBitsPerSample = 0#16
  cm : wh.channelMask = 0#32
  sub : wh.subFormat = zero16
  shape : (wh.fmtChunkSize = 16#32 ∧ wh.factChunkId = zero4 ∧ wh.factChunkSize = 0#32 ∧ wh.sampleLength = 0#32) ∨
          (wh.fmtChunkSize = 18#32 ∧ wh.factChunkId = fact)
  size : ¬ wh.chunkSize < 12#32 + wh.fmtChunkSize + wh.factChunkSize

/-- length of the encoding of a canonical header -/
def clen (wh : Wh) : Nat := if wh.factChunkId = fact then 58 else 44

/-- **encode_decode_id** (general form): for every canonical header, every memory, every buffer of `sz ≥ length`
    bytes: encode returns the header length, and decoding the buffer — declared with any length `k` between the
    header length and `sz` — returns the *identical* structure and the same length. -/
theorem encode_decode_canon (wh : Wh) (hc : Canon wh) (m : Mem) (b sz k : Nat)
    (h1 : clen wh ≤ k) (h2 : k ≤ sz) (hsz : sz < 2147483648) :
    (encode wh m b sz).2 = clen wh ∧ decode (encode wh m b sz).1 b k = (wh, (clen wh : Int)) := by
  obtain ⟨cid, cs, fmt, fid, fcs, af, nc, sr, br, ba, bps, cb, vb, cm, sub, fa, fas, sl, did, ds⟩ := wh
  obtain ⟨e1, e2, e3, e4, e5, e6, e7, e8, e9, e10, e11⟩ := hc
  simp only at e1 e2 e3 e4 e5 e6 e7 e8 e9 e10 e11
  obtain ⟨f0, f1, f2, f3, rfl⟩ := len4 fid e3
  obtain ⟨d0, d1, d2, d3, rfl⟩ := len4 did e4
  subst e1 e2 e6 e7 e8 e9
  -- it suffices to decode with the exact length: the result does not depend on the declared length beyond it
  have key : ∀ (wh : Wh) (L : Nat) (M : Mem), decode M b L = (wh, (L : Int)) → L ≤ k →
      decode M b k = (wh, (L : Int)) := by
    intro wh L M hd hk
    have hE : endCur M b L ≤ L := by
      rcases Librfn.C14.decode_result_trichotomy M b L with h | h | ⟨_, _, h⟩
      · rw [hd] at h; simp at h; omega
      · rw [hd] at h; simp at h
      · exact h
    rw [Librfn.C14.decode_sz M b L k hE (by omega), hd]
  rcases e10 with ⟨rfl, rfl, rfl, rfl⟩ | ⟨rfl, rfl⟩
  · -- PCM shape
    have hnf : ¬ (zero4 = fact) := by decide
    have hb : encBytes ⟨Librfn.Model.Wav.riff, cs, Librfn.Model.Wav.wave, [f0, f1, f2, f3], 16#32, af, nc, sr, br, ba, bps, 0#16, 0#16,
        0#32, zero16, zero4, 0#32, 0#32, [d0, d1, d2, d3], ds⟩ =
        Librfn.Model.Wav.riff ++ encU32le cs ++ Librfn.Model.Wav.wave ++ [f0, f1, f2, f3] ++ encU32le 16#32 ++ encU16le af ++
        encU16le nc ++ encU32le sr ++ encU32le br ++ encU16le ba ++ encU16le bps ++ [d0, d1, d2, d3] ++ encU32le ds := by
      have n2 : ¬ (18#32 ≤ 16#32) := by decide
      simp [encBytes, encOps, headOps, extOps, tailOps, Librfn.C12.POp.stored, n2, hnf]
    have hl : (encBytes ⟨Librfn.Model.Wav.riff, cs, Librfn.Model.Wav.wave, [f0, f1, f2, f3], 16#32, af, nc, sr, br, ba, bps, 0#16,
        0#16, 0#32, zero16, zero4, 0#32, 0#32, [d0, d1, d2, d3], ds⟩).length = 44 := by
      rw [hb]; simp [Librfn.Model.Wav.riff, Librfn.Model.Wav.wave, encU32le, encU16le]
    have hcl : clen ⟨Librfn.Model.Wav.riff, cs, Librfn.Model.Wav.wave, [f0, f1, f2, f3], 16#32, af, nc, sr, br, ba, bps, 0#16,
        0#16, 0#32, zero16, zero4, 0#32, 0#32, [d0, d1, d2, d3], ds⟩ = 44 := by simp [clen, hnf]
    rw [hcl] at h1 ⊢
    obtain ⟨s1, s2, _⟩ := encode_spec _ m b sz (by rw [hl]; omega) hsz
    rw [hl] at s1 s2
    refine ⟨by simpa using s2, ?_⟩
    apply key _ 44 _ _ h1
    rw [hb] at s1 hl
    have hag := agree_memOfList _ b _ (by rw [hl]; exact s1)
    rw [hl] at hag
    rw [decode_agree hag]
    have hcs : ¬ cs < 28#32 := by simpa using e11
    rw [decode_pcm_list b cs sr br ds af nc ba bps f0 f1 f2 f3 d0 d1 d2 d3 e5 hcs]
    rfl
  · -- FLOAT shape
    have hb : encBytes ⟨Librfn.Model.Wav.riff, cs, Librfn.Model.Wav.wave, [f0, f1, f2, f3], 18#32, af, nc, sr, br, ba, bps, 0#16, 0#16,
        0#32, zero16, fact, fas, sl, [d0, d1, d2, d3], ds⟩ =
        Librfn.Model.Wav.riff ++ encU32le cs ++ Librfn.Model.Wav.wave ++ [f0, f1, f2, f3] ++ encU32le 18#32 ++ encU16le af ++
        encU16le nc ++ encU32le sr ++ encU32le br ++ encU16le ba ++ encU16le bps ++ encU16le 0#16 ++ fact ++ encU32le fas ++
        encU32le sl ++ [d0, d1, d2, d3] ++ encU32le ds := by
      have n2 : (18#32 ≤ 18#32) := by decide
      have n3 : ¬ ((0#16 : BitVec 16) = 22#16) := by decide
      have n4 : (18#32 - 18#32).toNat = 0 := by decide
      simp [encBytes, encOps, headOps, extOps, tailOps, Librfn.C12.POp.stored, n2, n3, n4]
    have hl : (encBytes ⟨Librfn.Model.Wav.riff, cs, Librfn.Model.Wav.wave, [f0, f1, f2, f3], 18#32, af, nc, sr, br, ba, bps, 0#16,
        0#16, 0#32, zero16, fact, fas, sl, [d0, d1, d2, d3], ds⟩).length = 58 := by
      rw [hb]; simp [Librfn.Model.Wav.riff, Librfn.Model.Wav.wave, fact, encU32le, encU16le]
    have hcl : clen ⟨Librfn.Model.Wav.riff, cs, Librfn.Model.Wav.wave, [f0, f1, f2, f3], 18#32, af, nc, sr, br, ba, bps, 0#16,
        0#16, 0#32, zero16, fact, fas, sl, [d0, d1, d2, d3], ds⟩ = 58 := by simp [clen]
    rw [hcl] at h1 ⊢
    obtain ⟨s1, s2, _⟩ := encode_spec _ m b sz (by rw [hl]; omega) hsz
    rw [hl] at s1 s2
    refine ⟨by simpa using s2, ?_⟩
    apply key _ 58 _ _ h1
    rw [hb] at s1 hl
    have hag := agree_memOfList _ b _ (by rw [hl]; exact s1)
    rw [hl] at hag
    rw [decode_agree hag]
    rw [decode_float_list b cs sr br fas sl ds af nc ba bps f0 f1 f2 f3 d0 d1 d2 d3 e11]
    rfl

/-- every header made by `init` + `set_num_frames` inside the scope is canonical, whatever the structure held -/
theorem canon_made (prior : Wh) (f : Int) (c r n : Nat) (h : Scope f c r n) : Canon (made prior f c r n) := by
  obtain ⟨_, _, _, _, _, _, hcs⟩ := describes_file prior f c r n h
  have hf := h.fmt
  have t28 : (12#32 + 16#32 + 0#32 : BitVec 32).toNat = 28 := by decide
  have t42 : (12#32 + 18#32 + 12#32 : BitVec 32).toNat = 42 := by decide
  rcases hf with rfl | rfl | rfl
  · have hh : hlen 0 = 44 := rfl
    rw [hh] at hcs
    refine ⟨rfl, rfl, rfl, rfl, ?_, rfl, rfl, rfl, rfl, Or.inl ⟨rfl, rfl, rfl, rfl⟩, ?_⟩
    · show data ≠ fact; decide
    · show ¬ (made prior 0 c r n).chunkSize < 12#32 + 16#32 + 0#32
      rw [BitVec.lt_def, hcs, t28]; omega
  · have hh : hlen 1 = 44 := rfl
    rw [hh] at hcs
    refine ⟨rfl, rfl, rfl, rfl, ?_, rfl, rfl, rfl, rfl, Or.inl ⟨rfl, rfl, rfl, rfl⟩, ?_⟩
    · show data ≠ fact; decide
    · show ¬ (made prior 1 c r n).chunkSize < 12#32 + 16#32 + 0#32
      rw [BitVec.lt_def, hcs, t28]; omega
  · have hh : hlen 2 = 58 := rfl
    rw [hh] at hcs
    refine ⟨rfl, rfl, rfl, rfl, ?_, rfl, rfl, rfl, rfl, Or.inr ⟨rfl, rfl⟩, ?_⟩
    · show data ≠ fact; decide
    · show ¬ (made prior 2 c r n).chunkSize < 12#32 + 18#32 + 12#32
      rw [BitVec.lt_def, hcs, t42]; omega

theorem clen_made (prior : Wh) (f : Int) (c r n : Nat) (hf : f = 0 ∨ f = 1 ∨ f = 2) :
    clen (made prior f c r n) = hlen f := by
  rcases hf with rfl | rfl | rfl
  · show (if zero4 = fact then 58 else 44) = 44; decide
  · show (if zero4 = fact then 58 else 44) = 44; decide
  · show (if fact = fact then 58 else 44) = 58; decide

/-- **encode_decode_id**: for every prior content of the structure and every format, channel count, rate and frame
    count in scope, encoding the header into any buffer of at least `hlen` bytes returns `hlen` (44, or 58 for FLOAT),
    and decoding that buffer (declared with any length from `hlen` up to the buffer size) returns the identical
    structure and the same length. -/
theorem encode_decode_id (prior : Wh) (f : Int) (c r n : Nat) (h : Scope f c r n) (m : Mem) (b sz k : Nat)
    (h1 : hlen f ≤ k) (h2 : k ≤ sz) (hsz : sz < 2147483648) :
    (encode (made prior f c r n) m b sz).2 = hlen f ∧
    decode (encode (made prior f c r n) m b sz).1 b k = (made prior f c r n, (hlen f : Int)) := by
  have hc := canon_made prior f c r n h
  have hl := clen_made prior f c r n h.fmt
  have := encode_decode_canon _ hc m b sz k (by rw [hl]; exact h1) h2 hsz
  rw [hl] at this
  exact this

example : Scope 0 2 44100 100 := ⟨Or.inl rfl, by decide, by decide, by decide, by decide, by decide, by decide, by decide⟩
example : Scope 2 16 2147483 8388607 := ⟨Or.inr (Or.inr rfl), by decide, by decide, by decide, by decide, by decide, by decide, by decide⟩

/-- **init_validates**: the header validates, for every prior content and everything in scope -/
theorem init_validates (prior : Wh) (f : Int) (c r n : Nat) (h : Scope f c r n) :
    validate (made prior f c r n) = 0 := by
  have hc := canon_made prior f c r n h
  have hsize := hc.size
  have h1 : (made prior f c r n).chunkId = riff := hc.riff
  have h2 : (made prior f c r n).format = wave := hc.wave
  have h3 : (made prior f c r n).fmtChunkId = fmtId := by
    rcases h.fmt with rfl | rfl | rfl <;> rfl
  have h4 : (made prior f c r n).dataChunkId = data := by
    rcases h.fmt with rfl | rfl | rfl <;> rfl
  unfold validate
  simp [h1, h2, h3, h4, hsize]

/-- **set_num_frames_idempotent_in_frames**: calling it again replaces the frame count — for *every* structure, the
    result depends only on the last count (the old data size is subtracted before the new one is added) -/
theorem set_num_frames_idempotent_in_frames (wh : Wh) (a b : BitVec 32) :
    setNumFrames (setNumFrames wh a) b = setNumFrames wh b := by
  simp only [setNumFrames]
  by_cases hf : wh.factChunkId = fact
  · simp only [hf, if_true]
    congr 1
    rw [BitVec.add_sub_cancel]
  · simp only [hf, if_false]
    congr 1
    rw [BitVec.add_sub_cancel]

/-! ### the clauses of the property under their own names (corollaries) -/

/-- **riff_size_consistent**: the RIFF chunk size equals the number of bytes that follow the field in a file that
    consists of the encoded header (whose length `encode` returns) and exactly the declared data:
    `chunk_size = encodedLength − 8 + data_chunk_size` -/
theorem riff_size_consistent (prior : Wh) (f : Int) (c r n : Nat) (h : Scope f c r n) (m : Mem) (b sz : Nat)
    (h1 : hlen f ≤ sz) (hsz : sz < 2147483648) :
    ((made prior f c r n).chunkSize.toNat : Int) =
      (encode (made prior f c r n) m b sz).2 - 8 + (made prior f c r n).dataChunkSize.toNat := by
  have e := (encode_decode_id prior f c r n h m b sz sz h1 (Nat.le_refl _) hsz).1
  have d := (describes_file prior f c r n h).2.2.2.2.2.2
  rw [e, d]
  have : 8 ≤ hlen f := by unfold hlen; split <;> omega
  omega

/-- **data_size**: data size = frames × block alignment -/
theorem data_size (prior : Wh) (f : Int) (c r n : Nat) (h : Scope f c r n) :
    (made prior f c r n).dataChunkSize.toNat = n * (made prior f c r n).blockAlign.toNat := by
  obtain ⟨_, _, hb, _, _, hd, _⟩ := describes_file prior f c r n h
  rw [hd, hb]

/-- **block_align**: block alignment = channels × sample width -/
theorem block_align (prior : Wh) (f : Int) (c r n : Nat) (h : Scope f c r n) :
    (made prior f c r n).blockAlign.toNat = (made prior f c r n).numChannels.toNat * width f := by
  obtain ⟨hc, _, hb, _⟩ := describes_file prior f c r n h
  rw [hb, hc]

/-- **byte_rate**: byte rate = sample rate × block alignment -/
theorem byte_rate (prior : Wh) (f : Int) (c r n : Nat) (h : Scope f c r n) :
    (made prior f c r n).byteRate.toNat = (made prior f c r n).sampleRate.toNat * (made prior f c r n).blockAlign.toNat := by
  obtain ⟨_, hr, hb, hbr, _⟩ := describes_file prior f c r n h
  rw [hbr, hr, hb]

/-- **bits**: bits per sample = 8 × sample width -/
theorem bits (prior : Wh) (f : Int) (c r n : Nat) (h : Scope f c r n) :
    (made prior f c r n).bitsPerSample.toNat = 8 * width f :=
  (describes_file prior f c r n h).2.2.2.2.1

/-! ### decode then encode -/

/-- the `L` header bytes at `b` as re-encoding writes them: identical, except that a format-chunk extension the
    decoder skipped (`fmt_chunk_size ≥ 18`, `cb_size ≠ 22`: the bytes `[38, 38 + fmt_chunk_size − 18)`) is zeros.
    `fmt` is the value of the size field, `tl` the length of the part after the format chunk (8, or 20 with a fact
    chunk). -/
def normalised (m : Mem) (b : Nat) (fmt : BitVec 32) (tl : Nat) : List UInt8 :=
  readBytes m b 36 ++ extNorm m b 36 fmt ++ readBytes m (b + (36 + (extNorm m b 36 fmt).length)) tl

/-- when nothing is skipped (PCM, float + fact, extensible with the 22-byte extension) `normalised` is just the
    input bytes -/
theorem normalised_plain (m : Mem) (b : Nat) (fmt : BitVec 32) (tl : Nat)
    (h : ¬ 18#32 ≤ fmt ∨ dec16 (m (b + 36)) (m (b + 36 + 1)) = 22#16) :
    normalised m b fmt tl = readBytes m b (36 + (extNorm m b 36 fmt).length + tl) := by
  have e : extNorm m b 36 fmt = readBytes m (b + 36) (extNorm m b 36 fmt).length := by
    unfold extNorm
    rcases h with h | h
    · simp [h, readBytes]
    · by_cases hf : 18#32 ≤ fmt
      · simp only [hf, h, if_true, readBytes_length]
      · simp [hf, readBytes]
  unfold normalised
  rw [readBytes_append, readBytes_append, ← e]

/-- with a skipped extension of `n = fmt − 18` bytes: the first 38 bytes, `n` zeros, the rest -/
theorem normalised_skip (m : Mem) (b : Nat) (fmt : BitVec 32) (tl : Nat)
    (h1 : 18#32 ≤ fmt) (h2 : dec16 (m (b + 36)) (m (b + 36 + 1)) ≠ 22#16) :
    normalised m b fmt tl =
      readBytes m b 38 ++ List.replicate (fmt - 18#32).toNat 0 ++ readBytes m (b + (38 + (fmt - 18#32).toNat)) tl := by
  unfold normalised extNorm
  simp only [h1, h2, if_true, if_false, List.length_append, readBytes_length, List.length_replicate]
  rw [show (38 : Nat) = 36 + 2 from rfl, readBytes_append]
  simp
  congr 1
  omega

/-- **what re-encoding writes**: if `decode` accepts (result `L` with `0 ≤ L ≤ sz`), the encoding of the decoded
    structure is exactly the `L` input bytes, normalised, and it is `L` bytes long -/
theorem encBytes_decoded (m : Mem) (b sz : Nat) (hacc : 0 ≤ (decode m b sz).2 ∧ (decode m b sz).2 ≤ sz) :
    encBytes (decode m b sz).1 =
      normalised m b (decode m b sz).1.fmtChunkSize (tailLen m (decExt m (decHead m b sz))) ∧
    ((encBytes (decode m b sz).1).length : Int) = (decode m b sz).2 := by
  -- accepted: the result is the final structure, the returned length is the final cursor, which is ≤ sz
  have hE := endCur_eq m b sz
  obtain ⟨hret, hwh, hle⟩ : (decode m b sz).2 = endCur m b sz ∧
      (decode m b sz).1 = (decTail m (decExt m (decHead m b sz))).1 ∧ endCur m b sz ≤ sz := by
    rcases Librfn.C14.decode_ret m b sz with h | ⟨h, h'⟩
    · omega
    · exact ⟨h, h', by omega⟩
  -- the three stages with their packers written as triples
  have hd : decHead m b sz = ((decHead m b sz).1, ⟨b, sz, 36⟩) := rfl
  have hx : decExt m ((decHead m b sz).1, ⟨b, sz, 36⟩) =
      ((decExt m ((decHead m b sz).1, ⟨b, sz, 36⟩)).1, ⟨b, sz, 36 + extLen m ((decHead m b sz).1, ⟨b, sz, 36⟩)⟩) := by
    have := decExt_pk m ((decHead m b sz).1, ⟨b, sz, 36⟩)
    rw [Prod.ext_iff]; exact ⟨rfl, this⟩
  rw [hd] at hE
  rw [hx] at hE
  have hH := head_bytes m b sz (by omega)
  obtain ⟨hX, hXl⟩ := ext_bytes m (decHead m b sz).1 b sz 36 (by omega)
  -- before the last stage the fact id is still clear
  have hz : (decExt m ((decHead m b sz).1, ⟨b, sz, 36⟩)).1.factChunkId ≠ fact := by
    have : (decExt m ((decHead m b sz).1, ⟨b, sz, 36⟩)).1.factChunkId = zero4 := by
      unfold decExt
      by_cases h : 18#32 ≤ (decHead m b sz).1.fmtChunkSize
      · by_cases h2 : (unpackU16le m (⟨b, sz, 36⟩ : Pk)).1 = 22#16 <;> simp [h, h2] <;> rfl
      · simp [h]; rfl
    rw [this]; decide
  have hT := tail_bytes m (decExt m ((decHead m b sz).1, ⟨b, sz, 36⟩)).1 b sz
    (36 + extLen m ((decHead m b sz).1, ⟨b, sz, 36⟩)) hz (by omega)
  have hfmt : (decode m b sz).1.fmtChunkSize = (decHead m b sz).1.fmtChunkSize := by
    rw [hwh]
    have a1 : ∀ s, (decTail m s).1.fmtChunkSize = s.1.fmtChunkSize := by
      intro s; unfold decTail
      by_cases h : (unpackBytes m s.2 4).1 = fact <;> simp [h]
    rw [a1, decExt_fmt]
  rw [hfmt, hwh, hret, hE]
  have e1 : headOps (decTail m (decExt m (decHead m b sz))).1 = headOps (decHead m b sz).1 := by
    rw [decTail_headOps, decExt_headOps]
  have e2 : extOps (decTail m (decExt m (decHead m b sz))).1 = extOps (decExt m (decHead m b sz)).1 := decTail_extOps m _
  have e3 : bytesOf (tailOps (decTail m (decExt m (decHead m b sz))).1) =
      readBytes m (b + (36 + extLen m ((decHead m b sz).1, ⟨b, sz, 36⟩)))
        (tailLen m ((decExt m ((decHead m b sz).1, ⟨b, sz, 36⟩)).1, ⟨b, sz, 36 + extLen m ((decHead m b sz).1, ⟨b, sz, 36⟩)⟩)) := by
    have : decExt m (decHead m b sz) = ((decExt m ((decHead m b sz).1, ⟨b, sz, 36⟩)).1,
        ⟨b, sz, 36 + extLen m ((decHead m b sz).1, ⟨b, sz, 36⟩)⟩) := by rw [hd]; exact hx
    rw [this]; exact hT
  have e4 : tailLen m (decExt m (decHead m b sz)) =
      tailLen m ((decExt m ((decHead m b sz).1, ⟨b, sz, 36⟩)).1, ⟨b, sz, 36 + extLen m ((decHead m b sz).1, ⟨b, sz, 36⟩)⟩) := by
    have : decExt m (decHead m b sz) = ((decExt m ((decHead m b sz).1, ⟨b, sz, 36⟩)).1,
        ⟨b, sz, 36 + extLen m ((decHead m b sz).1, ⟨b, sz, 36⟩)⟩) := by rw [hd]; exact hx
    rw [this]
  have e5 : bytesOf (extOps (decExt m (decHead m b sz)).1) = extNorm m b 36 (decHead m b sz).1.fmtChunkSize := by
    rw [hd]; exact hX
  rw [encBytes_split, e1, e2, e3, hH, e5]
  refine ⟨?_, ?_⟩
  · unfold normalised
    rw [hXl, e4]
  · simp only [List.length_append, readBytes_length, hXl]

/-- **decode_encode_id**: for every memory, buffer position and declared length on which `decode` succeeds with
    length `L ≤ sz` — PCM, IEEE float with fact chunk, extensible with or without the 22-byte extension are all
    covered by this one statement — encoding the decoded structure into any buffer of at least `L` bytes returns the
    same `L` and writes exactly the `L` input bytes, a skipped extension normalised to zeros; nothing outside the
    output buffer is written. -/
theorem decode_encode_id (m : Mem) (b sz : Nat) (hacc : 0 ≤ (decode m b sz).2 ∧ (decode m b sz).2 ≤ sz)
    (m2 : Mem) (b2 sz2 : Nat) (hfit : (decode m b sz).2 ≤ sz2) (hsz2 : sz2 < 2147483648) :
    ((encode (decode m b sz).1 m2 b2 sz2).2 = (decode m b sz).2) ∧
    readBytes (encode (decode m b sz).1 m2 b2 sz2).1 b2 (encBytes (decode m b sz).1).length =
      normalised m b (decode m b sz).1.fmtChunkSize (tailLen m (decExt m (decHead m b sz))) ∧
    ((encBytes (decode m b sz).1).length : Int) = (decode m b sz).2 ∧
    (∀ i, i < b2 ∨ b2 + sz2 ≤ i → (encode (decode m b sz).1 m2 b2 sz2).1 i = m2 i) := by
  obtain ⟨e1, e2⟩ := encBytes_decoded m b sz hacc
  obtain ⟨s1, s2, s3⟩ := encode_spec (decode m b sz).1 m2 b2 sz2 (by omega) hsz2
  refine ⟨by rw [s2, e2], by rw [s1, e1], e2, s3⟩

/-- non-vacuity: an extensible header with a 3-byte unknown extension (cb_size 3) is accepted with length 49, and
    re-encoding writes it back with the three extension bytes zeroed -/
example :
    let bs : List UInt8 := [0x52,0x49,0x46,0x46, 0xff,0,0,0, 0x57,0x41,0x56,0x45, 0x66,0x6d,0x74,0x20, 21,0,0,0, 0xfe,0xff, 2,0,
      0x44,0xac,0,0, 0x10,0xb1,0x02,0, 4,0, 16,0, 3,0, 0xaa,0xbb,0xcc, 0x64,0x61,0x74,0x61, 0x90,0x01,0,0]
    (decode (memOfList 5 bs) 5 49).2 = 49 ∧
    readBytes (encode (decode (memOfList 5 bs) 5 49).1 (fun _ => 0xee) 9 49).1 9 49 =
      bs.take 38 ++ [0, 0, 0] ++ bs.drop 41 := by decide

/-! ### the defects these statements excluded, re-derived on explicitly named *old* variants (kernel `decide`) -/

/-- D10 (fixed by e9578e3): with the old `set_num_frames`, which wrote `sample_length` without a fact chunk, the
    S16LE / 2 channel / 100 frame header does **not** survive encode → decode: 200 comes back as 0 -/
theorem d10_old_setNumFrames_breaks_roundtrip :
    (setNumFramesOldD10 (init Wh.zero 44100#32 2#32 0) 100#32).sampleLength = 200#32 ∧
    (decode (encode (setNumFramesOldD10 (init Wh.zero 44100#32 2#32 0) 100#32) (fun _ => 0) 0 44).1 0 44).1.sampleLength = 0#32 ∧
    (decode (encode (setNumFramesOldD10 (init Wh.zero 44100#32 2#32 0) 100#32) (fun _ => 0) 0 44).1 0 44).2 = 44 := by
  decide

/-- the same header made by the current code does survive (an instance of `encode_decode_id`, by evaluation) -/
example : decode (encode (made Wh.zero 0 2 44100 100) (fun _ => 0) 0 44).1 0 44 = (made Wh.zero 0 2 44100 100, 44) := by
  decide

/-- `rf_wavheader_init` as it was before fixes 46841fa (D4: no `memset`) and 03b986f (D3: `chunk_size = 50` for every
    format) -/
def initOldD3D4 (prior : Wh) (sfreq nch : BitVec 32) (format : Int) : Wh :=
  let isFloat : Bool := format = 2
  let fmtSz : BitVec 32 := if isFloat then 18#32 else 16#32
  let bps : BitVec 32 := if format = 0 then 2#32 else 4#32
  let wh := { prior with chunkId := riff, format := wave, fmtChunkId := fmtId, fmtChunkSize := fmtSz, chunkSize := 50#32,
                         audioFormat := if isFloat then 3#16 else 1#16, numChannels := nch.setWidth 16, sampleRate := sfreq,
                         byteRate := sfreq * bps * nch, blockAlign := (bps * nch).setWidth 16,
                         bitsPerSample := (bps * 8#32).setWidth 16, cbSize := 0#16 }
  let wh := if isFloat then { wh with factChunkId := fact, factChunkSize := 12#32, sampleLength := 0#32 } else wh
  { wh with dataChunkId := data, dataChunkSize := 0#32 }

/-- D4: on a structure pre-filled with 0xAA the old `init` produced a header that does not validate -/
theorem d4_old_init_depends_on_prior :
    validate (initOldD3D4 (Wh.ofRaw (List.replicate 80 0xaa)) 44100#32 2#32 0) = -22 ∧
    validate (init (Wh.ofRaw (List.replicate 80 0xaa)) 44100#32 2#32 0) = 0 := by decide

/-- D3: the old `init` announced 450 bytes after the RIFF size field of a 44-byte PCM header with 400 data bytes;
    436 follow -/
theorem d3_old_init_chunk_size :
    (setNumFrames (initOldD3D4 Wh.zero 44100#32 2#32 0) 100#32).chunkSize = 450#32 ∧
    (made Wh.zero 0 2 44100 100).chunkSize = 436#32 := by decide

end Librfn.C13

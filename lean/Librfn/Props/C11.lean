import Librfn.Model.Bintree
import Librfn.Spec.Tree
/-! # C11 — tree iterators (work in progress: theorems are added in the staged order of DESIGN §9) -/
namespace Librfn.C11
open Librfn.Model.Bintree Librfn.Spec Librfn.Spec.Tree

theorem length_inorder : ∀ t : Tree, (inorder t).length = size t
  | .nil => rfl
  | .node l x r => by simp [inorder, size, length_inorder l, length_inorder r]; omega

end Librfn.C11

import Librfn.Model.Bintree
import Librfn.Spec.Tree
import Librfn.Lemmas.Bintree
import Librfn.Lemmas.BintreeMorris
import Librfn.Lemmas.BintreePost
import Librfn.Lemmas.BintreeFree
import Librfn.Lemmas.BintreeList
/-!
# C11 — tree iterators visit in the promised order, restore the tree, and free safely

Model: `Librfn.Model.Bintree` (statement-by-statement transcription of `bintree.c`; a dead node read is an
error result, every loop has fuel).  Spec: `Librfn.Spec.Tree` (inductive trees, recursive traversals,
`Repr h t p`).  Every theorem below is for **every tree shape** with pairwise distinct node ids — the proofs
are structural inductions (lemmas in `Librfn.Lemmas.Bintree*`), not enumerations.
-/
namespace Librfn.C11
open Librfn.Model.Bintree Librfn.Spec Librfn.Spec.Tree Librfn.Lemmas.Bintree

theorem inRun_none (tg : Bool) (g m f : Nat) (h : Heap) : inRun tg g (m + 1) (f + 1) h none = .ok ([], h) := by
  simp [inRun, inOrderLoop]

/-! ## in-order -/

/-- **Morris in-order traversal, continuation form** (DESIGN §6 C11 `morris_in (t, k)`): from `curr = root t`
    in a heap where `t` is intact except that its rightmost node's `right` is `k`, the calls of
    `in_order_iterator` yield `inorder t`, arrive at `curr = k`, touch only nodes of `t` and leave the heap
    as they found it — the rest of the run is the run from `k` in the *same* heap `h` (with `tg`, the heap
    in which the caller has tagged the nodes of `t`). -/
theorem morris_in_continuation (tg : Bool) (g : Nat) (τ : Nat → Bool) (t : Tree) (k : Ptr) (h : Heap) (m f : Nat)
    (hg : size t + 1 ≤ g) (hf : t ≠ .nil → size t + 1 ≤ f) (hd : Distinct t)
    (hk : ∀ a, k = some a → a ∉ inorder t) (hr : ReprK τ h t k) (hτ : ∀ i, i ∈ inorder t → τ i = false) :
    inRun tg g (size t + m) f h (rootK t k) =
      prepend (inorder t) (inRun tg g m (if t = .nil then f else g) (tagAll tg h (inorder t)) k) :=
  morris_in tg g τ t k h m f hg hf hd hk hr hτ

/-- the run of the in-order iterator over an intact tree, seen through `inRun` -/
theorem inRun_tree (tg : Bool) (g : Nat) (t : Tree) (h : Heap) (m : Nat) (hg : size t + 1 ≤ g) (hd : Distinct t)
    (hr : ReprK (fun _ => false) h t none) :
    inRun tg g (size t + (m + 1)) g h (root t) = .ok (inorder t, tagAll tg h (inorder t)) := by
  have := morris_in tg g (fun _ => false) t none h (m + 1) g hg (fun _ => hg) hd (by intro a ha; cases ha) hr
    (fun _ _ => rfl)
  rw [rootK_none] at this
  rw [this]
  obtain ⟨g', rfl⟩ : ∃ g', g = g' + 1 := ⟨g - 1, by omega⟩
  have e : (if t = Tree.nil then g' + 1 else g' + 1) = g' + 1 := by split <;> rfl
  rw [e, inRun_none]
  simp [prepend]

/-- **In-order iteration is correct and restores the tree, for every shape.**  On a heap holding `t` at `p`
    (distinct ids), `bintree_iterate_in_order` + `bintree_next` until NULL, with any fuel `≥ 2·size + 2`,
    does not fail, returns exactly `inorder t` (each node once, in the order of the recursive traversal),
    and the final heap **is** the initial heap: every link has its original value. -/
theorem in_order_iterator_correct (isList : Nat → Bool) (t : Tree) (h : Heap) (p : Ptr) (it0 : Iter) (g : Nat)
    (hr : Repr h t p) (hd : Distinct t) (hg : 2 * size t + 2 ≤ g) :
    ∃ out it', iterateAll isList g .inOrder h it0 p = .ok (out, h, it') ∧ out.map Prod.fst = inorder t := by
  obtain ⟨rfl, hr⟩ := hr
  have hrun := inRun_tree false g t h (g - size t - 1) (by omega) hd hr
  have hcalls : size t + (g - size t - 1 + 1) = g := by omega
  rw [hcalls, tagAll_false] at hrun
  obtain ⟨out', it', hdr, hm⟩ := drain_of_inRun isList g g g h (root t) { it0 with next := .inOrder, curr := root t }
    (inorder t) h rfl hrun
  refine ⟨out', it', ?_, hm⟩
  simp only [iterateAll, iterate, iterateInOrder, inOrderIterator]
  cases hl : inOrderLoop g g h (root t) with
  | error e => rw [hl] at hdr; simp at hdr
  | ok res =>
    obtain ⟨r, h1, c1⟩ := res
    rw [hl] at hdr
    simpa using hdr

/-- each node exactly once -/
theorem in_order_each_node_once (isList : Nat → Bool) (t : Tree) (h : Heap) (p : Ptr) (it0 : Iter) (g : Nat)
    (hr : Repr h t p) (hd : Distinct t) (hg : 2 * size t + 2 ≤ g) :
    ∃ out it', iterateAll isList g .inOrder h it0 p = .ok (out, h, it') ∧
      (out.map Prod.fst).Nodup ∧ ∀ i, i ∈ out.map Prod.fst ↔ i ∈ inorder t := by
  obtain ⟨out, it', h1, h2⟩ := in_order_iterator_correct isList t h p it0 g hr hd hg
  exact ⟨out, it', h1, by rw [h2]; exact hd, by rw [h2]; intro i; rfl⟩

/-! ## pre-order -/

/-- **Morris pre-order traversal, continuation form**: as `morris_in_continuation`, for `pre_order_iterator`;
    the call that leaves `t` arrives at `k` with `f'` loop iterations left, at most `size t` fewer than `g`. -/
theorem morris_pre_continuation (g : Nat) (τ : Nat → Bool) (t : Tree) (k : Ptr) (h : Heap) (m f : Nat)
    (hg : size t + 2 ≤ g) (hf : t ≠ .nil → 1 ≤ f) (hd : Distinct t)
    (hk : ∀ a, k = some a → a ∉ inorder t) (hr : ReprK τ h t k) (hτ : ∀ i, i ∈ inorder t → τ i = false) :
    ∃ f', (t = .nil → f' = f) ∧ (t ≠ .nil → g ≤ f' + size t) ∧
      preRun g (size t + (m + 1)) f h (rootK t k) = prepend (preorder t) (preRun g (m + 1) f' h k) :=
  morris_pre g τ t k h m f hg hf hd hk hr hτ

/-- **Pre-order iteration is correct and restores the tree, for every shape**: `bintree_iterate_pre_order` +
    `bintree_next` until NULL returns exactly `preorder t` and the final heap is the initial heap. -/
theorem pre_order_iterator_correct (isList : Nat → Bool) (t : Tree) (h : Heap) (p : Ptr) (it0 : Iter) (g : Nat)
    (hr : Repr h t p) (hd : Distinct t) (hg : 2 * size t + 2 ≤ g) :
    ∃ out it', iterateAll isList g .preOrder h it0 p = .ok (out, h, it') ∧ out.map Prod.fst = preorder t := by
  obtain ⟨rfl, hr⟩ := hr
  obtain ⟨f', hf1, hf2, hrun⟩ := morris_pre g (fun _ => false) t none h (g - size t - 1) g (by omega)
    (fun _ => by omega) hd (by intro a ha; cases ha) hr (fun _ _ => rfl)
  have hcalls : size t + (g - size t - 1 + 1) = g := by omega
  rw [hcalls, rootK_none] at hrun
  have hf' : 1 ≤ f' := by
    by_cases ht : t = .nil
    · have := hf1 ht; omega
    · have := hf2 ht; omega
  obtain ⟨f'', rfl⟩ : ∃ f'', f' = f'' + 1 := ⟨f' - 1, by omega⟩
  have hend : preRun g (g - size t - 1 + 1) (f'' + 1) h none = .ok ([], h) := by
    simp [preRun, preOrderLoop]
  rw [hend] at hrun
  simp only [prepend, List.append_nil] at hrun
  obtain ⟨out', it', hdr, hm⟩ := drain_of_preRun isList g g g h (root t) { it0 with next := .preOrder, curr := root t }
    (preorder t) h rfl hrun
  refine ⟨out', it', ?_, hm⟩
  simp only [iterateAll, iterate, iteratePreOrder, preOrderIterator]
  cases hl : preOrderLoop g g h (root t) with
  | error e => rw [hl] at hdr; simp at hdr
  | ok res =>
    obtain ⟨r, h1, c1⟩ := res
    rw [hl] at hdr
    simpa using hdr

/-- each node exactly once -/
theorem pre_order_each_node_once (isList : Nat → Bool) (t : Tree) (h : Heap) (p : Ptr) (it0 : Iter) (g : Nat)
    (hr : Repr h t p) (hd : Distinct t) (hg : 2 * size t + 2 ≤ g) :
    ∃ out it', iterateAll isList g .preOrder h it0 p = .ok (out, h, it') ∧
      (out.map Prod.fst).Nodup ∧ ∀ i, i ∈ out.map Prod.fst ↔ i ∈ inorder t := by
  obtain ⟨out, it', h1, h2⟩ := pre_order_iterator_correct isList t h p it0 g hr hd hg
  refine ⟨out, it', h1, ?_, by rw [h2]; intro i; exact mem_preorder t i⟩
  rw [h2]; exact nodup_preorder t hd

/-! ## post-order -/

/-- **the tagging pass sets the tag of every node** (and nothing else): after the in-order pass of
    `bintree_iterate_post_order`, the heap is the original one with every node of `t` tagged. -/
theorem tagging_pass_tags_every_node (isList : Nat → Bool) (t : Tree) (h : Heap) (it0 : Iter) (g : Nat)
    (hr : ReprK (fun _ => false) h t none) (hd : Distinct t) (hg : 2 * size t + 2 ≤ g) :
    ∃ it2, (match iterateInOrder g h it0 (root t) with
        | .error e => (.error e : Except Err (Heap × Iter))
        | .ok (r, h1, it1) => tagLoop isList g g h1 it1 r) = .ok (tagAll true h (inorder t), it2) ∧
      it2.next = .inOrder ∧ it2.parent = it0.parent := by
  have hrun := inRun_tree true g t h (g - size t - 1) (by omega) hd hr
  have hcalls : size t + (g - size t - 1 + 1) = g := by omega
  rw [hcalls] at hrun
  obtain ⟨it2, htl, hn2, hp2⟩ := tagLoop_of_inRun isList g g g h (root t) { it0 with next := .inOrder, curr := root t }
    (inorder t) _ rfl hrun
  refine ⟨it2, ?_, hn2, hp2⟩
  simp only [iterateInOrder, inOrderIterator]
  cases hl : inOrderLoop g g h (root t) with
  | error e => rw [hl] at htl; simp at htl
  | ok res =>
    obtain ⟨r, h1, c1⟩ := res
    rw [hl] at htl
    simpa using htl

/-- **the post-order walk** (`descend`): whenever the visited set is the first `j` nodes of the post-order
    sequence, one run of `post_order_iterator`'s loop from the root returns the first unvisited node in
    post-order together with its true parent, and untags it. -/
theorem descend_returns_first_unvisited (t : Tree) (j : Nat) (h : Heap) (prev : Ptr) (fuel : Nat)
    (hf : size t ≤ fuel) (hj : j < size t) (hr : ReprV h t j) :
    ∃ y p, (postorderP prev t)[j]? = some (y, p) ∧
      postOrderLoop fuel h (root t) prev = .ok (some (y, p), setTag h y false) :=
  postOrderLoop_spec t j h prev fuel hf hj hr

/-- untagging the returned node advances the visited prefix -/
theorem untag_advances_prefix (t : Tree) (j : Nat) (h : Heap) (y : Nat) (hd : Distinct t) (hj : j < size t)
    (hy : (postorder t)[j]? = some y) (hr : ReprV h t j) : ReprV (setTag h y false) t (j + 1) :=
  reprV_untag t j h y hd hj hy hr

/-- **Post-order iteration is correct and restores the tree, for every shape** (`postorder_restores`):
    `bintree_iterate_post_order` + `bintree_next` until NULL returns exactly the post-order sequence, each
    node with its true parent in `iter.parent` (NULL for the root), and the final heap is the initial
    heap — every tag set by the tagging pass has been cleared and no link has changed. -/
theorem post_order_iterator_correct (isList : Nat → Bool) (t : Tree) (h : Heap) (p : Ptr) (it0 : Iter) (g : Nat)
    (hr : Repr h t p) (hd : Distinct t) (hg : 2 * size t + 2 ≤ g) :
    ∃ it', iterateAll isList g .postOrder h it0 p = .ok (postorderP none t, h, it') := by
  obtain ⟨rfl, hr⟩ := hr
  obtain ⟨it2, htl, hn2, _⟩ := tagging_pass_tags_every_node isList t h it0 g hr hd hg
  -- after the tagging pass nothing is visited
  have hv0 : ReprV (tagAll true h (inorder t)) t 0 := by
    apply reprV_of_reprK t _ (reprK_tagAll true (inorder t) t none hr)
    intro i hi; simp [hi]
  obtain ⟨hf, it', hpd, hfin, hframe⟩ := post_drain isList g t hd (by omega) (size t) 0 _
    { it2 with next := .postOrder, curr := root t } g (by omega) (by omega) rfl
    (by cases t with
        | nil => rfl
        | node l x r =>
          have : 0 < size (.node l x r) := by simp only [size]; omega
          rw [if_pos this]) hv0
  -- the final heap is the initial heap
  have hback : hf = h := by
    funext i
    by_cases hi : i ∈ inorder t
    · exact reprK_unique t none hr (reprK_of_reprV t (size t) (Nat.le_refl _) hfin) i hi
    · rw [hframe i hi, tagAll_other _ _ _ _ hi]
  subst hback
  refine ⟨it', ?_⟩
  simp only [iterateAll, iterate, iteratePostOrder]
  cases hio : iterateInOrder g hf it0 (root t) with
  | error e => rw [hio] at htl; simp at htl
  | ok res =>
    obtain ⟨r, h1, it1⟩ := res
    rw [hio] at htl
    simp only at htl ⊢
    rw [htl]
    simp only [List.drop_zero] at hpd
    exact hpd

/-- the nodes come in the order of the recursive post-order traversal, each exactly once -/
theorem post_order_each_node_once (isList : Nat → Bool) (t : Tree) (h : Heap) (p : Ptr) (it0 : Iter) (g : Nat)
    (hr : Repr h t p) (hd : Distinct t) (hg : 2 * size t + 2 ≤ g) :
    ∃ out it', iterateAll isList g .postOrder h it0 p = .ok (out, h, it') ∧
      out.map Prod.fst = postorder t ∧ (out.map Prod.fst).Nodup ∧ ∀ i, i ∈ out.map Prod.fst ↔ i ∈ inorder t := by
  obtain ⟨it', h1⟩ := post_order_iterator_correct isList t h p it0 g hr hd hg
  refine ⟨_, it', h1, map_fst_postorderP none t, ?_, ?_⟩
  · rw [map_fst_postorderP]; exact nodup_postorder t hd
  · rw [map_fst_postorderP]; intro i; exact mem_postorder t i

/-! ## bintree_free -/

/-- **the parent's link is patched before the parent is reached**: with every node of `t` tagged and `y` the
    first post-order node (a leaf) with parent `p`, deallocating `y` and running the patch of `bintree_free`
    on the live parent yields a heap that holds `t` without `y` — no link to `y` is left, the rest of `t` is
    still fully tagged, nothing outside `t` changes, and `y` is dead. -/
theorem free_patches_parent_first (t : Tree) (prev : Ptr) (h0 : Heap) (y : Nat) (p : Ptr)
    (ht : AllTagged h0 t) (hd : Distinct t) (hs : 2 ≤ size t) (hy : (postorderP prev t)[0]? = some (y, p)) :
    ∃ h2, patchParent (kill h0 y) p y = .ok h2 ∧ AllTagged h2 (dropFirst t) ∧
      (∀ i, i ∉ inorder t → h2 i = h0 i) ∧ h2 y = none :=
  free_step t prev h0 y p ht hd hs hy

/-- **`bintree_free` deallocates children first, each node once, and never touches a dead node**
    (`free_children_first_once_no_uaf`).  On a heap holding `t` at `p` (distinct ids), with a deallocator
    that really frees, `bintree_free` does not fail — in the model every read or write of a deallocated node
    is an error result, so success means there is no use after free and no double free —, the deallocator
    is called on exactly `postorder t` (children before parents, every node once), afterwards every node
    of `t` is dead and every other cell of the heap is unchanged. -/
theorem free_children_first_once_no_uaf (isList : Nat → Bool) (t : Tree) (h : Heap) (p : Ptr) (it0 : Iter) (g : Nat)
    (hr : Repr h t p) (hd : Distinct t) (hg : 2 * size t + 2 ≤ g) :
    free isList g h it0 p = .ok (killAll h (inorder t), postorder t) := by
  obtain ⟨rfl, hr⟩ := hr
  obtain ⟨it2, htl, _, _⟩ := tagging_pass_tags_every_node isList t h it0 g hr hd hg
  exact free_spec isList g t h it0 hr hd hg ⟨it2, htl⟩

/-- **`bintree_free_left` frees the left sub-tree and clears the caller's link**: if `x` is live with an
    intact left sub-tree `l` (not containing `x`), the deallocator is called on `postorder l`, every node of
    `l` is dead afterwards, `x->left` is NULL (untagged), `x->right` and the rest of the heap are unchanged. -/
theorem free_left_clears_link (isList : Nat → Bool) (l : Tree) (h : Heap) (x : Nat) (rp : Ptr) (it0 : Iter) (g : Nat)
    (hx : h x = some ⟨root l, false, rp⟩) (hr : ReprK (fun _ => false) h l none) (hxl : x ∉ inorder l)
    (hd : Distinct l) (hg : 2 * size l + 2 ≤ g) :
    ∃ h', freeLeft isList g h it0 x = .ok (h', postorder l) ∧ h' x = some ⟨none, false, rp⟩ ∧
      (∀ i, i ∈ inorder l → h' i = none) ∧ (∀ i, i ≠ x → i ∉ inorder l → h' i = h i) := by
  cases hl : l with
  | nil =>
    subst hl
    refine ⟨h, by simp [freeLeft, hx, root, postorder], by simpa [root] using hx, by simp [inorder], fun _ _ _ => rfl⟩
  | node a y b =>
    rw [← hl]
    have hfree := free_children_first_once_no_uaf isList l h (root l) it0 g ⟨rfl, hr⟩ hd hg
    have hroot : root l = some y := by rw [hl]; rfl
    refine ⟨setLeftRaw (killAll h (inorder l)) x none false, ?_, ?_, ?_, ?_⟩
    · simp only [freeLeft, hx, hroot]
      rw [← hroot, hfree]
      simp [killAll, hxl, hx]
    · simp [setLeftRaw, upd, killAll, hxl, hx]
    · intro i hi
      have : i ≠ x := fun e => hxl (e ▸ hi)
      simp [setLeftRaw, upd, killAll, this, hi]
    · intro i hix hil
      simp [setLeftRaw, upd, killAll, hix, hil]

/-- **`bintree_free_right` frees the right sub-tree and clears the caller's link** -/
theorem free_right_clears_link (isList : Nat → Bool) (r : Tree) (h : Heap) (x : Nat) (lp : Ptr) (tg : Bool) (it0 : Iter)
    (g : Nat) (hx : h x = some ⟨lp, tg, root r⟩) (hr : ReprK (fun _ => false) h r none) (hxr : x ∉ inorder r)
    (hd : Distinct r) (hg : 2 * size r + 2 ≤ g) :
    ∃ h', freeRight isList g h it0 x = .ok (h', postorder r) ∧ h' x = some ⟨lp, tg, none⟩ ∧
      (∀ i, i ∈ inorder r → h' i = none) ∧ (∀ i, i ≠ x → i ∉ inorder r → h' i = h i) := by
  cases hl : r with
  | nil =>
    subst hl
    refine ⟨h, by simp [freeRight, hx, root, postorder], by simpa [root] using hx, by simp [inorder], fun _ _ _ => rfl⟩
  | node a y b =>
    rw [← hl]
    have hfree := free_children_first_once_no_uaf isList r h (root r) it0 g ⟨rfl, hr⟩ hd hg
    have hroot : root r = some y := by rw [hl]; rfl
    refine ⟨setRight (killAll h (inorder r)) x none, ?_, ?_, ?_, ?_⟩
    · simp only [freeRight, hx, hroot]
      rw [← hroot, hfree]
      simp [killAll, hxr, hx]
    · simp [setRight, upd, killAll, hxr, hx]
    · intro i hi
      have : i ≠ x := fun e => hxr (e ▸ hi)
      simp [setRight, upd, killAll, this, hi]
    · intro i hix hil
      simp [setRight, upd, killAll, hix, hil]

/-! ## list iterators -/

/-- **The list iterator on a right-leaning list spine** (every list node has an element on its left, the
    spine or the last element on its right) yields the sequence of the recursive `bintree_traverse_list`,
    and does not modify the heap. -/
theorem list_iterator_right_spine (isList : Nat → Bool) (t : Tree) (h : Heap) (p : Ptr) (it0 : Iter) (g : Nat)
    (hs : RightSpine isList t) (hr : Repr h t p) (hg : 2 * size t + 2 ≤ g) :
    ∃ out it', iterateAll isList g .list h it0 p = .ok (out, h, it') ∧ out.map Prod.fst = traverseList isList t := by
  obtain ⟨rfl, hr⟩ := hr
  cases ht : t with
  | nil => subst ht; exact absurd hs (by simp [RightSpine])
  | node l x r =>
    subst ht
    obtain ⟨out, it', hrun, hm⟩ := right_run isList g h (.node l x r) ⟨.listRight, some x, it0.parent⟩ g hs hr rfl rfl (by omega)
    refine ⟨out, it', ?_, hm⟩
    have hx := hr.1
    -- `bintree_iterate_list` chooses `list_right_iterator`
    have hright : iterateList isList g h it0 (some x) = listRightIterator isList h ⟨.listRight, some x, it0.parent⟩ := by
      by_cases hlx : isList x = true
      · simp only [RightSpine, hlx, if_true] at hs
        obtain ⟨a, e, b, rfl, he⟩ := isElem_root hs.1
        have he' := hr.2.1.1
        have hx' : h x = some ⟨some e, false, rootK r none⟩ := hx
        simp only [iterateList, callFilter, hx', hlx, he', he]
      · have hlx' : isList x = false := by simpa using hlx
        simp only [iterateList, callFilter, hx, hlx']
    simp only [iterateAll, iterate, root, hright]
    simp only [drainFrom, next] at hrun
    exact hrun

/-- **The list iterator on a left-leaning list spine** (every list node has an element on its right, the
    spine or the first element on its left; ids distinct) yields the sequence of the recursive
    `bintree_traverse_list`, and does not modify the heap. -/
theorem list_iterator_left_spine (isList : Nat → Bool) (t : Tree) (h : Heap) (p : Ptr) (it0 : Iter) (g : Nat)
    (hs : LeftSpine isList t) (hr : Repr h t p) (hd : Distinct t) (hg : 2 * size t + 2 ≤ g) :
    ∃ out it', iterateAll isList g .list h it0 p = .ok (out, h, it') ∧ out.map Prod.fst = traverseList isList t := by
  cases ht : t with
  | nil => subst ht; exact absurd hs (by simp [LeftSpine])
  | node l x r =>
    subst ht
    by_cases hlx : isList x = true
    · have hs' := hs
      simp only [LeftSpine, hlx, if_true] at hs'
      obtain ⟨hre, hsl⟩ := hs'
      obtain ⟨ra, er, rb, rfl, her⟩ := isElem_root hre
      by_cases hll : listRooted isList l = true
      · -- at least two list nodes: `list_left_iterator`
        obtain ⟨rfl, hrep⟩ := hr
        have d := distinct_node hd
        obtain ⟨dd, e0, dn, hdesc, hdeep, hdn, hdl, hdt, hhead⟩ := listDescend_spec isList h l x _ g hlx hll hs hrep (by omega)
        have hx : h x = some ⟨root l, false, some er⟩ := hrep.1
        have hup : listLeftIterator g h ⟨.listLeft, some x, some x⟩ = .ok (root (.node ra er rb), h, ⟨.listLeft, none, some x⟩) := by
          simp [listLeftIterator, hx, root]
        obtain ⟨dd', hdeep', hrun⟩ := left_up isList g h x l x _ 0 none hlx hs hrep hd (fun _ _ _ => rfl) d.x_not_left hup (by omega)
        rw [hdeep] at hdeep'; cases hdeep'
        have hlen := length_traverse_le isList (.node l x (.node ra er rb))
        have hul : (upElems isList (.node l x (.node ra er rb))).length ≤ size (.node l x (.node ra er rb)) := by
          unfold upElems; rw [List.length_tail]; omega
        obtain ⟨c, hc⟩ : ∃ c, g = (c + 1 + (upElems isList (.node l x (.node ra er rb))).length) + 1 :=
          ⟨g - 2 - (upElems isList (.node l x (.node ra er rb))).length, by omega⟩
        refine ⟨(e0, some x) :: ((upElems isList (.node l x (.node ra er rb))).map (·, some x) ++ []), ⟨.listLeft, none, some x⟩, ?_, ?_⟩
        · -- `bintree_iterate_list` chooses `list_left_iterator` and descends to the deepest list node
          cases hl : l with
          | nil => subst hl; simp [listRooted] at hll
          | node l' x1 r1 =>
            subst hl
            have hx1 : isList x1 = true := hll
            have hhx1 := hrep.2.1.1
            have hx' : h x = some ⟨some x1, false, some er⟩ := hx
            have hinit : iterateList isList g h it0 (some x) = .ok (some e0, h, ⟨.listLeft, some dd, some x⟩) := by
              simp only [iterateList, callFilter, hx', hlx, hhx1, hx1, hdesc, hdn, hdt, hdl]
              simp
            simp only [iterateAll, iterate, root, hinit]
            rw [show drain isList g g = drain isList g ((c + 1 + (upElems isList (.node (.node l' x1 r1) x (.node ra er rb))).length) + 1)
              from by rw [← hc]]
            rw [drain_some, hrun (c + 1), drainFrom_listLeft]
            simp only [listLeftIterator]
            rw [drain_none]
            simp [consP, prependP]
        · simp only [List.map_cons, List.append_nil, List.map_map]
          have : (List.map (Prod.fst ∘ fun x_1 => (x_1, some x)) (upElems isList (.node l x (.node ra er rb)))) =
              upElems isList (.node l x (.node ra er rb)) := by
            simp [Function.comp_def]
          rw [this]
          exact head_tail_eq _ _ hhead
      · -- a single list node: the tree is also a right-leaning spine
        have hll' : listRooted isList l = false := by simpa using hll
        have hel : IsElem isList l := by
          cases hl : l with
          | nil => subst hl; exact absurd hsl (by simp [LeftSpine])
          | node a e b => subst hl; exact hll'
        have hrs : RightSpine isList (.node l x (.node ra er rb)) := by
          simp only [RightSpine, hlx, if_true, her, Bool.false_eq_true, if_false, and_true]; exact hel
        exact list_iterator_right_spine isList _ h p it0 g hrs hr hg
    · -- the tree is a single element
      have hrs : RightSpine isList (.node l x r) := by simp [RightSpine, hlx]
      exact list_iterator_right_spine isList _ h p it0 g hrs hr hg

/-! ## the recursive traversals of bintree.c are the specification's traversals -/

theorem rootK_none (t : Tree) : rootK t none = root t := Librfn.Lemmas.Bintree.rootK_none t

/-- `bintree_traverse_in_order` visits `inorder t` -/
theorem trav_in_order : ∀ (t : Tree) (h : Heap) (f : Nat), ReprK (fun _ => false) h t none → size t + 1 ≤ f →
    travIn f h (root t) = .ok (inorder t)
  | .nil, _, f, _, hf => by
    obtain ⟨f', rfl⟩ : ∃ f', f = f' + 1 := ⟨f - 1, by omega⟩
    simp [travIn, root, inorder]
  | .node l x r, h, f, ⟨hx, hl, hr⟩, hf => by
    simp only [size] at hf
    obtain ⟨f', rfl⟩ : ∃ f', f = f' + 1 := ⟨f - 1, by omega⟩
    have h1 := trav_in_order l h f' hl (by omega)
    have h2 := trav_in_order r h f' hr (by omega)
    have hx' : h x = some ⟨root l, false, root r⟩ := by rw [hx, rootK_none]
    show travIn (f' + 1) h (some x) = _
    rw [travIn]
    simp only [hx', h1, h2, inorder]
    simp

/-- `bintree_traverse_pre_order` visits `preorder t` -/
theorem trav_pre_order : ∀ (t : Tree) (h : Heap) (f : Nat), ReprK (fun _ => false) h t none → size t + 1 ≤ f →
    travPre f h (root t) = .ok (preorder t)
  | .nil, _, f, _, hf => by
    obtain ⟨f', rfl⟩ : ∃ f', f = f' + 1 := ⟨f - 1, by omega⟩
    simp [travPre, root, preorder]
  | .node l x r, h, f, ⟨hx, hl, hr⟩, hf => by
    simp only [size] at hf
    obtain ⟨f', rfl⟩ : ∃ f', f = f' + 1 := ⟨f - 1, by omega⟩
    have h1 := trav_pre_order l h f' hl (by omega)
    have h2 := trav_pre_order r h f' hr (by omega)
    have hx' : h x = some ⟨root l, false, root r⟩ := by rw [hx, rootK_none]
    show travPre (f' + 1) h (some x) = _
    rw [travPre]
    simp only [hx', h1, h2, preorder]
    simp

/-- `bintree_traverse_post_order` visits `postorder t` -/
theorem trav_post_order : ∀ (t : Tree) (h : Heap) (f : Nat), ReprK (fun _ => false) h t none → size t + 1 ≤ f →
    travPost f h (root t) = .ok (postorder t)
  | .nil, _, f, _, hf => by
    obtain ⟨f', rfl⟩ : ∃ f', f = f' + 1 := ⟨f - 1, by omega⟩
    simp [travPost, root, postorder]
  | .node l x r, h, f, ⟨hx, hl, hr⟩, hf => by
    simp only [size] at hf
    obtain ⟨f', rfl⟩ : ∃ f', f = f' + 1 := ⟨f - 1, by omega⟩
    have h1 := trav_post_order l h f' hl (by omega)
    have h2 := trav_post_order r h f' hr (by omega)
    have hx' : h x = some ⟨root l, false, root r⟩ := by rw [hx, rootK_none]
    show travPost (f' + 1) h (some x) = _
    rw [travPost]
    simp only [hx', h1, h2, postorder]
    simp

/-- `bintree_traverse_list` visits `traverseList t` (on every tree, spine or not) -/
theorem trav_list (isList : Nat → Bool) : ∀ (t : Tree) (h : Heap) (f : Nat), ReprK (fun _ => false) h t none →
    size t + 1 ≤ f → travList isList f h (root t) = .ok (traverseList isList t)
  | .nil, _, f, _, hf => by
    obtain ⟨f', rfl⟩ : ∃ f', f = f' + 1 := ⟨f - 1, by omega⟩
    simp [travList, root, traverseList]
  | .node l x r, h, f, ⟨hx, hl, hr⟩, hf => by
    simp only [size] at hf
    obtain ⟨f', rfl⟩ : ∃ f', f = f' + 1 := ⟨f - 1, by omega⟩
    have h1 := trav_list isList l h f' hl (by omega)
    have h2 := trav_list isList r h f' hr (by omega)
    have hx' : h x = some ⟨root l, false, root r⟩ := by rw [hx, rootK_none]
    show travList isList (f' + 1) h (some x) = _
    rw [travList]
    by_cases hlx : isList x = true
    · simp only [hx', h1, h2, traverseList, hlx, if_true]
      simp
    · simp [hx', traverseList, hlx]

/-- non-vacuity: the 3-node tree `1 ← 0 → 2` held by a concrete heap -/
def exHeap : Heap := fun i =>
  if i = 0 then some ⟨some 1, false, some 2⟩ else if i = 1 ∨ i = 2 then some ⟨none, false, none⟩ else none
def exTree : Tree := .node (.node .nil 1 .nil) 0 (.node .nil 2 .nil)

example : Repr exHeap exTree (some 0) ∧ Distinct exTree := by
  refine ⟨⟨rfl, ?_⟩, by simp [Distinct, exTree, inorder]⟩
  simp [ReprK, exHeap, exTree, root, rootK]

example : (iterateAll (fun _ => false) 8 .inOrder exHeap default (some 0)).toOption.map (fun r => r.1.map Prod.fst)
    = some [1, 0, 2] := by decide

example : (iterateAll (fun _ => false) 8 .preOrder exHeap default (some 0)).toOption.map (fun r => r.1.map Prod.fst)
    = some [0, 1, 2] := by decide

example : (iterateAll (fun _ => false) 8 .postOrder exHeap default (some 0)).toOption.map (fun r => r.1)
    = some [(1, some 0), (2, some 0), (0, none)] := by decide

/-- non-vacuity of the visited-prefix invariant: the example tree after the tagging pass and one visit -/
example : ReprV (setTag (tagAll true exHeap (inorder exTree)) 1 false) exTree 1 := by
  simp [ReprV, exHeap, exTree, root, size, setTag, upd, tagAll, inorder]

example : (free (fun _ => false) 8 exHeap default (some 0)).toOption.map (fun r => (r.2, r.1 0, r.1 1, r.1 2, r.1 3))
    = some ([1, 2, 0], none, none, none, none) := by decide

example : (freeLeft (fun _ => false) 8 exHeap default 0).toOption.map (fun r => (r.2, r.1 0, r.1 1))
    = some ([1], some ⟨none, false, some 2⟩, none) := by decide

/-- non-vacuity of the spine hypotheses: a left-leaning spine `L0(L1(e2, e3), e4)` and the mirrored
    right-leaning one, list nodes 0 and 1 -/
def exIsList : Nat → Bool := fun i => i = 0 || i = 1
def exLeft : Tree := .node (.node (.node .nil 2 .nil) 1 (.node .nil 3 .nil)) 0 (.node .nil 4 .nil)
def exLeftHeap : Heap := fun i =>
  if i = 0 then some ⟨some 1, false, some 4⟩ else if i = 1 then some ⟨some 2, false, some 3⟩
  else if i ≤ 4 then some ⟨none, false, none⟩ else none
def exRight : Tree := .node (.node .nil 2 .nil) 0 (.node (.node .nil 3 .nil) 1 (.node .nil 4 .nil))
def exRightHeap : Heap := fun i =>
  if i = 0 then some ⟨some 2, false, some 1⟩ else if i = 1 then some ⟨some 3, false, some 4⟩
  else if i ≤ 4 then some ⟨none, false, none⟩ else none

example : LeftSpine exIsList exLeft ∧ Repr exLeftHeap exLeft (some 0) ∧ Distinct exLeft := by
  refine ⟨by simp [LeftSpine, exLeft, exIsList, IsElem], ⟨rfl, ?_⟩, by simp [Distinct, exLeft, inorder]⟩
  simp [ReprK, exLeftHeap, exLeft, root, rootK]

example : RightSpine exIsList exRight ∧ Repr exRightHeap exRight (some 0) := by
  refine ⟨by simp [RightSpine, exRight, exIsList, IsElem], rfl, ?_⟩
  simp [ReprK, exRightHeap, exRight, root, rootK]

example : (iterateAll exIsList 12 .list exLeftHeap default (some 0)).toOption.map (fun r => r.1.map Prod.fst)
    = some [2, 3, 4] ∧ traverseList exIsList exLeft = [2, 3, 4] := by decide

example : (iterateAll exIsList 12 .list exRightHeap default (some 0)).toOption.map (fun r => r.1.map Prod.fst)
    = some [2, 3, 4] ∧ traverseList exIsList exRight = [2, 3, 4] := by decide

end Librfn.C11

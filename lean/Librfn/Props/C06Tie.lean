import Librfn.Gen.FibreSeq
import Librfn.Model.Fibre
import Std.Tactic.BVDecide
/-!
# C06 — tie T for `fibre_run_atomic` (the interrupt-context wake-up; control skeleton, the message queue is the environment)

`fibre_run_atomic` of `fibre.c` is regenerated on every run (`Gen/FibreSeq.lean`); `messageq_claim` / `messageq_send` are the
environment (their own ties are C10/C04), `add_taint('A')` is inlined (an atomic OR into `kernel.taint_flags`).

* `fibre_run_atomic_generated`: exactly one `messageq_claim(&kernel.atomic_runq)`; if it returns NULL the function returns false,
  sets taint bit 0 and neither writes memory nor sends; otherwise it stores the fibre pointer in the claimed buffer (and nothing
  else), sends exactly that buffer on the same queue, and returns true; no undefined shift;
* `fibre_run_atomic_tie`: when the claim succeeds exactly when the model's atomic run queue has room (fewer than 8 pending — C10's
  `claim_spec`), the result is the model's `fibreRunAtomic k f` — one send per successful claim, none otherwise.
-/
namespace Librfn.C06.Tie
open Librfn.Gen Librfn.Gen.FibreSeq

theorem fibre_run_atomic_generated (cur : BitVec 64) (st now : BitVec 32) (runq aq timerq : BitVec 64) (taint : BitVec 32) (f c : BitVec 64)
    (mem : Mem) :
    (fibre_run_atomic cur st now runq aq timerq taint f c mem).ub = false ∧ (fibre_run_atomic cur st now runq aq timerq taint f c mem).exh = false ∧
    (fibre_run_atomic cur st now runq aq timerq taint f c mem).kernel_current = cur ∧
    (fibre_run_atomic cur st now runq aq timerq taint f c mem).kernel_state = st ∧
    (fibre_run_atomic cur st now runq aq timerq taint f c mem).kernel_now = now ∧
    (fibre_run_atomic cur st now runq aq timerq taint f c mem).kernel_taint_flags = (if c = 0#64 then taint ||| 1#32 else taint) ∧
    (fibre_run_atomic cur st now runq aq timerq taint f c mem).ret = (if c = 0#64 then 0#8 else 1#8) ∧
    (fibre_run_atomic cur st now runq aq timerq taint f c mem).messageq_claim_called_1 = true ∧
    (fibre_run_atomic cur st now runq aq timerq taint f c mem).messageq_claim_arg_1_0 = aq ∧
    (fibre_run_atomic cur st now runq aq timerq taint f c mem).messageq_send_called_1 = (c != 0#64) ∧
    (fibre_run_atomic cur st now runq aq timerq taint f c mem).messageq_send_arg_1_0 = aq ∧
    (fibre_run_atomic cur st now runq aq timerq taint f c mem).messageq_send_arg_1_1 = c := by
  unfold fibre_run_atomic
  bv_decide (config := { timeout := 60 })

theorem fibre_run_atomic_generated_mem (cur : BitVec 64) (st now : BitVec 32) (runq aq timerq : BitVec 64) (taint : BitVec 32) (f c : BitVec 64)
    (mem : Mem) :
    (fibre_run_atomic cur st now runq aq timerq taint f c mem).mem = (if c = 0#64 then mem else Mem.store64 mem c f) := by
  funext a
  unfold fibre_run_atomic Mem.store64 Mem.store32 Mem.store16
  simp only [Mem.ite_app, Mem.store_app]
  bv_decide (config := { timeout := 60 })

/-- **tie T, `fibre_run_atomic`** -/
theorem fibre_run_atomic_tie (k : Librfn.Model.Fibre.K) (fid : Librfn.Sched.Fid)
    (cur : BitVec 64) (st now : BitVec 32) (runq aq timerq : BitVec 64) (taint : BitVec 32) (f c : BitVec 64) (mem : Mem)
    (hc : c ≠ 0#64 ↔ k.atomq.length < 8) :                         -- what `messageq_claim(&kernel.atomic_runq)` answers (C10 `claim_spec`)
    ((fibre_run_atomic cur st now runq aq timerq taint f c mem).ret ≠ 0#8 ↔ (Librfn.Model.Fibre.fibreRunAtomic k fid).2 = true) ∧
    ((fibre_run_atomic cur st now runq aq timerq taint f c mem).messageq_send_called_1 = (Librfn.Model.Fibre.fibreRunAtomic k fid).2) ∧
    ((Librfn.Model.Fibre.fibreRunAtomic k fid).2 = true →
      (fibre_run_atomic cur st now runq aq timerq taint f c mem).mem = Mem.store64 mem c f ∧
      (fibre_run_atomic cur st now runq aq timerq taint f c mem).messageq_send_arg_1_1 = c) ∧
    ((Librfn.Model.Fibre.fibreRunAtomic k fid).2 = false → (fibre_run_atomic cur st now runq aq timerq taint f c mem).mem = mem) := by
  obtain ⟨_, _, _, _, _, _, h7, _, _, h10, _, h12⟩ := fibre_run_atomic_generated cur st now runq aq timerq taint f c mem
  have hm := fibre_run_atomic_generated_mem cur st now runq aq timerq taint f c mem
  unfold Librfn.Model.Fibre.fibreRunAtomic
  by_cases hl : k.atomq.length < 8
  · have hne : c ≠ 0#64 := hc.2 hl
    rw [if_pos hl, h7, h10, hm, if_neg hne, h12]
    simp [hne]
  · have he : c = 0#64 := by
      by_cases x : c = 0#64
      · exact x
      · exact absurd (hc.1 x) hl
    rw [if_neg hl, h7, h10, hm, if_pos he]
    simp [he]

end Librfn.C06.Tie

import Librfn.Props.C20Tie
/-!
# C20 — the property stated about the *generated* code

`genStep` executes one call (`mlog`, `mlog_nice`, `mlog_clear`, `mlog_get_line`) with the definitions regenerated from `mlog.c`
on the C state — the counter and the byte memory that holds the 256 lines; nothing of the hand model is used to compute.

`generated_history_refines`: from any C state that represents an abstract history (`Abs` + `Inv`; the zero-initialised static is one,
`generated_history_refines_init`), every sequence of those calls of any length returns what the specification "the list of
messages since the last clear, read through its last 256" returns: `mlog_get_line(k)` hands the formatter the format and the three
arguments of message `n - min(n,256) + k`, or returns NULL without calling it — also across the fold of the counter at
`0x7fffffff`, because the proof is about all counter values.  `mlog_dump` is tied separately (`Tie.dump_tie`, three unrolled
iterations) and is not part of `genStep`.
-/
namespace Librfn.C20.Gen
open Librfn.Gen Librfn.Gen.MlogSeq Librfn.Model.Mlog Librfn.C20.Tie

/-- the calls of the history; `get` takes the C `int` as its 32-bit pattern -/
inductive GOp where
  | log (m : Rec) | nice (m : Rec) | clear | get (n : BitVec 32)

def GOp.toOp : GOp → Op Rec
  | .log m => .log m
  | .nice m => .nice m
  | .clear => .clear
  | .get n => .get n.toInt

structure GSt where
  line : BitVec 64
  head : BitVec 32
  mem : Mem

/-- one call executed by the generated definitions; `r` is what the formatter would return (irrelevant to the line reported) -/
def genStep (g : GSt) : GOp → GSt × Out Rec
  | .log m => let o := vmlog g.line g.head m.1 m.2.1 m.2.2.1 m.2.2.2 g.mem; (⟨g.line, o.log_head, o.mem⟩, .unit)
  | .nice m => let o := vmlog_nice g.line g.head m.1 m.2.1 m.2.2.1 m.2.2.2 g.mem; (⟨g.line, o.log_head, o.mem⟩, .unit)
  | .clear => let o := mlog_clear g.line g.head; (⟨g.line, o.log_head, g.mem⟩, .unit)
  | .get n =>
    let o := mlog_get_line g.line g.head n 1#64 g.mem
    (⟨g.line, o.log_head, o.mem⟩,
      .line (if o.strdup_printf_called_1 then
        some (o.strdup_printf_arg_1_0, o.strdup_printf_arg_1_1, o.strdup_printf_arg_1_2, o.strdup_printf_arg_1_3) else none))

def genRun (g : GSt) : List GOp → List (Out Rec)
  | [] => []
  | op :: ops => (genStep g op).2 :: genRun (genStep g op).1 ops

theorem opOk (op : GOp) : OpOk op.toOp := by
  cases op with
  | get n =>
    simp only [GOp.toOp, OpOk]
    have := n.toInt_lt; have := n.le_toInt
    constructor <;> omega
  | _ => trivial

/-- one step: the generated call returns the model's output and leaves a C state representing the model's next state -/
theorem gen_step (g : GSt) (s : St Rec) (hA : Abs g.mem g.line g.head s) (hb : s.head < 0x7fffffff) (hbase : baseOkBV g.line = true)
    (op : GOp) :
    (genStep g op).2 = (step s op.toOp).2 ∧
    Abs (genStep g op).1.mem (genStep g op).1.line (genStep g op).1.head (step s op.toOp).1 ∧ (genStep g op).1.line = g.line := by
  cases op with
  | log m =>
    obtain ⟨_, _, hA', _⟩ := log_tie g.mem g.line g.head s hA hb m.1 m.2.1 m.2.2.1 m.2.2.2
    exact ⟨rfl, hA', rfl⟩
  | nice m =>
    obtain ⟨_, _, hA', _⟩ := nice_tie g.mem g.line g.head s hA hb m.1 m.2.1 m.2.2.1 m.2.2.2
    exact ⟨rfl, hA', rfl⟩
  | clear =>
    obtain ⟨_, _, hA'⟩ := clear_tie g.mem g.line g.head s hA
    exact ⟨rfl, hA', rfl⟩
  | get n =>
    obtain ⟨c1, c2, c3, c4, c5⟩ := mlog_get_line_generated g.line g.head n 1#64 g.mem hbase
    have hm := mlog_get_line_generated_mem g.line g.head n 1#64 g.mem
    refine ⟨?_, ?_, rfl⟩
    · simp only [genStep, step, GOp.toOp, getLineInt]
      rw [int_arg, getLine_rec g.mem g.line g.head s hA n, c4]
      cases hr : rejectBV g.head n with
      | true => rfl
      | false =>
        obtain ⟨a0, a1, a2, a3⟩ := mlog_get_line_generated_args g.line g.head n 1#64 g.mem hbase hr
        simp only [Bool.not_false, if_true, Bool.false_eq_true, if_false, a0, a1, a2, a3]
    · simp only [genStep, step, GOp.toOp]
      rw [hm, c3]; exact hA

/-- **C20 about the generated code**: every history of `mlog` / `mlog_nice` / `mlog_clear` / `mlog_get_line` calls, of any length,
    from any C state representing the abstract history `msgs` -/
theorem generated_history_refines (ops : List GOp) (g : GSt) (s : St Rec) (msgs : List Rec) (hA : Abs g.mem g.line g.head s)
    (hi : Inv s msgs) (hbase : baseOkBV g.line = true) :
    genRun g ops = (Librfn.Spec.Mlog.run msgs (ops.map GOp.toOp)).2 := by
  induction ops generalizing g s msgs with
  | nil => rfl
  | cons op ops ih =>
    obtain ⟨ho, hA', hl⟩ := gen_step g s hA hi.bound hbase op
    obtain ⟨hs, hi'⟩ := step_refines s msgs hi op.toOp (opOk op)
    simp only [genRun, List.map_cons, Librfn.Spec.Mlog.run]
    rw [ho, hs, ih _ _ _ hA' hi' (by rw [hl]; exact hbase)]

/-- from the zero-initialised static `log` (counter 0; whatever the line array holds) -/
theorem generated_history_refines_init (ops : List GOp) (line : BitVec 64) (mem : Mem) (hbase : baseOkBV line = true) :
    genRun ⟨line, 0#32, mem⟩ ops = (Librfn.Spec.Mlog.run [] (ops.map GOp.toOp)).2 :=
  generated_history_refines ops ⟨line, 0#32, mem⟩ ⟨fun i => recAt mem line i, 0⟩ [] ⟨rfl, fun _ _ => rfl⟩ (inv_init _) hbase

/-- non-vacuity: an address the hypothesis accepts -/
example : baseOkBV 0x601000#64 = true := by decide

end Librfn.C20.Gen

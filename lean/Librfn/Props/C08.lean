import Librfn.Model.PT
import Librfn.Spec.PT
import Librfn.Lemmas.PT
import Librfn.Lemmas.PTSplit6
/-!
# C08 — protothreads resume exactly where they blocked and relay child results

Model: `Librfn.Model.PT` (`exec`: the switch/case semantics of the PT_* macros of
`include/librfn/protothreads.h`; budget `n = 0` is the real behaviour, budget `n > 0` passes through
`n` blocking points = the body as one sequential program).  Spec: `Librfn.Spec.PT.residual`.
-/
namespace Librfn.C08
open Librfn.Model.PT Librfn.Model.PT.Stmt Librfn.Spec.PT

theorem setPt_self (st : St) : st.setPt st.me.pt = st := by
  cases st with | mk v t me => cases me with | mk p k => rfl

/-- **each invocation continues immediately after the point where the previous one returned**:
entering the body at `case l:` (C's jump into nested statements) is running the program text that
follows label `l` from its start — for every fuel, every budget, every store, children to any depth.
`yield`/`wait` block exactly once (their residual is `skip`), `waitUntil` re-evaluates its condition
(its residual is itself), a spawn calls the child again without re-initialising it. -/
theorem resume_is_residual (fuel : Nat) (s : Stmt) (l : Label) (res : Code) (n : Nat) (st : St)
    (hl : l ∈ labels s) (hpt : st.me.pt = l) :
    exec fuel s (some l) res n st = exec fuel (residual s l) none res n st := by
  induction s generalizing st res n with
  | skip | eff | exit | fail | exitOn | failOn | call | spin => simp [labels] at hl
  | yield l' => simp [labels] at hl; subst hl; simp [exec, residual, block]
  | wait l' => simp [labels] at hl; subst hl; simp [exec, residual, block]
  | waitUntil l' c =>
    simp [labels] at hl; subst hl
    simp only [exec, residual, if_true]
    rw [if_neg (by simp), ← hpt, setPt_self]
  | seq a b iha ihb =>
    simp only [labels, List.mem_append] at hl
    by_cases ha : l ∈ labels a
    · simp only [residual, ha, if_true]
      rw [exec_seq_left _ _ _ _ _ _ _ ha, exec_seq_none, iha _ _ _ ha hpt]
    · have hb : l ∈ labels b := by rcases hl with h | h; exact absurd h ha; exact h
      simp only [residual, ha, if_false]
      rw [exec_seq_right _ _ _ _ _ _ _ ha]; exact ihb _ _ _ hb hpt
  | ifte c a b iha ihb =>
    simp only [labels, List.mem_append] at hl
    by_cases ha : l ∈ labels a
    · simp only [residual, ha, if_true]
      rw [exec_ifte_left _ _ _ _ _ _ _ _ ha]; exact iha _ _ _ ha hpt
    · have hb : l ∈ labels b := by rcases hl with h | h; exact absurd h ha; exact h
      simp only [residual, ha, if_false]
      rw [exec_ifte_right _ _ _ _ _ _ _ _ ha]; exact ihb _ _ _ hb hpt
  | ifChildOk a b iha ihb =>
    simp only [labels, List.mem_append] at hl
    by_cases ha : l ∈ labels a
    · simp only [residual, ha, if_true]
      rw [exec_ico_left _ _ _ _ _ _ _ ha]; exact iha _ _ _ ha hpt
    · have hb : l ∈ labels b := by rcases hl with h | h; exact absurd h ha; exact h
      simp only [residual, ha, if_false]
      rw [exec_ico_right _ _ _ _ _ _ _ ha]; exact ihb _ _ _ hb hpt
  | «while» c body ih =>
    simp only [labels] at hl
    simp only [residual]
    rw [exec_while_some, exec_seq_none, ih _ _ _ hl hpt]
  | spawn l' ch _ =>
    simp [labels] at hl; subst hl
    simp only [residual]; rw [exec_spawn_at]
  | join l' ch _ => simp only [residual]; exact exec_join ..
  | spawnAndCheck l' ch _ =>
    simp [labels] at hl; subst hl
    simp only [residual]
    rw [exec_sac, exec_seq_left _ _ _ _ _ _ _ (by simp [labels]), exec_seq_none, exec_spawn_at]

/-- concatenation over invocations of (effects ++ [return code]) -/
def flatLog (logs : List (List Ev × Nat)) : List Ev := (logs.map Prod.fst).flatten

/-- the events of a finished run: what happened, then the code the function finally returned -/
def close : Out → List Ev
  | .normal _ _ _ t => t ++ [.ret .exited]
  | .ret c _ _ t => t ++ [.ret c]
  | .abort t => t ++ [.abort]

theorem close_prepend (p : List Ev) (r : Out) : close (r.prepend p) = p ++ close r := by
  cases r <;> simp [close, Out.prepend, List.append_assoc]

theorem seqRun_eq (fuel body n st) : seqRun fuel body n st = (exec fuel body none .yielded n st.bump).map close := by
  unfold seqRun
  cases exec fuel body none .yielded n st.bump with
  | none => rfl
  | some r => cases r <;> rfl

theorem mainLoop_of_exec (fuel : Nat) (body : Stmt) (hwf : WF body) :
    ∀ n e st r, entryOf body st.me.pt = some e → exec fuel body e .yielded n st.bump = some r →
      (mainLoop fuel body (n + 1) st).map flatLog = some (close r) := by
  intro n
  induction n with
  | zero =>
    intro e st r hent h
    have hent' : entryOf body st.bump.me.pt = some e := hent
    simp only [mainLoop, invoke, hent', h]
    cases r with
    | normal st1 res n1 t => simp [Code.blocking, flatLog, close]
    | abort t => simp [flatLog, close]
    | ret c st1 n1 t =>
      dsimp only
      by_cases hb : c.blocking = true
      · simp [hb, flatLog, close]
      · simp [hb, flatLog, close]
  | succ n ih =>
    intro e st r hent h
    have hent' : entryOf body st.bump.me.pt = some e := hent
    obtain ⟨r0, h0, hR⟩ := split_at fuel body hwf e .yielded n st.bump r (entryOf_entry hent') h
    rw [mainLoop]
    simp only [invoke, hent', h0]
    cases r0 with
    | normal st1 res n1 t =>
      obtain ⟨_, hr⟩ := hR; subst hr; simp [Code.blocking, flatLog, close]
    | abort t => simp only [Resumes] at hR; subst hR; simp [flatLog, close]
    | ret c st1 n1 t =>
      simp only [Resumes] at hR
      dsimp only
      by_cases hb : c.blocking = true
      · rw [if_pos hb] at hR ⊢
        obtain ⟨hpt, r', hr', hr⟩ := hR
        have := ih (some st1.me.pt) st1 r' (entryOf_label hpt (hwf.pos _ hpt)) hr'
        rcases Option.map_eq_some_iff.1 this with ⟨logs, hlogs, hflat⟩
        rw [hlogs]; subst hr
        simp only [Option.map_some, Option.some.injEq]
        rw [close_prepend, ← hflat]; simp [flatLog]
      · rw [if_neg hb] at hR ⊢
        obtain ⟨_, hr⟩ := hR; subst hr; simp [flatLog, close]

/-- **repeatedly invoking a protothread function executes its body as one sequential program cut at
its blocking points**: whenever the body, run from its start as one sequential program that passes
through at most `n` blocking points (each emitting its return code as an event), finishes within the
fuel with the event list `evs`, then the main loop `for (;;) { tick++; s = f(&pt); ... }` — at most
`n+1` real invocations, each entering through `switch (*pt)` at the stored label — logs exactly `evs`:
the concatenation over invocations of (effects ++ [return code]).  All bodies with unique labels,
all stores, children to any depth. -/
theorem invocations_concat (fuel : Nat) (body : Stmt) (n : Nat) (st : St) (evs : List Ev)
    (hwf : WF body) (h0 : st.me.pt = 0) (h : seqRun fuel body n st = some evs) :
    (mainLoop fuel body (n + 1) st).map flatLog = some evs := by
  rw [seqRun_eq] at h
  rcases Option.map_eq_some_iff.1 h with ⟨r, hr, rfl⟩
  exact mainLoop_of_exec fuel body hwf n none st r (by simp [entryOf, h0]) hr

end Librfn.C08

import Librfn.Model.PT
namespace Librfn.C08
end Librfn.C08

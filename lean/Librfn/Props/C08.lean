import Librfn.Model.PT
import Librfn.Spec.PT
import Librfn.Lemmas.PT
/-!
# C08 — protothreads resume exactly where they blocked and relay child results

Model: `Librfn.Model.PT` (`exec`: the switch/case semantics of the PT_* macros of
`include/librfn/protothreads.h`; budget `n = 0` is the real behaviour, budget `n > 0` passes through
`n` blocking points = the body as one sequential program).  Spec: `Librfn.Spec.PT.residual`.
-/
namespace Librfn.C08
open Librfn.Model.PT Librfn.Model.PT.Stmt Librfn.Spec.PT

theorem setPt_self (st : St) : st.setPt st.me.pt = st := by
  cases st with | mk v t me => cases me with | mk p k => rfl

/-- **each invocation continues immediately after the point where the previous one returned**:
entering the body at `case l:` (C's jump into nested statements) is running the program text that
follows label `l` from its start — for every fuel, every budget, every store, children to any depth.
`yield`/`wait` block exactly once (their residual is `skip`), `waitUntil` re-evaluates its condition
(its residual is itself), a spawn calls the child again without re-initialising it. -/
theorem resume_is_residual (fuel : Nat) (s : Stmt) (l : Label) (res : Code) (n : Nat) (st : St)
    (hl : l ∈ labels s) (hpt : st.me.pt = l) :
    exec fuel s (some l) res n st = exec fuel (residual s l) none res n st := by
  induction s generalizing st res n with
  | skip | eff | exit | fail | exitOn | failOn | call | spin => simp [labels] at hl
  | yield l' => simp [labels] at hl; subst hl; simp [exec, residual, block]
  | wait l' => simp [labels] at hl; subst hl; simp [exec, residual, block]
  | waitUntil l' c =>
    simp [labels] at hl; subst hl
    simp only [exec, residual, if_true]
    rw [if_neg (by simp), ← hpt, setPt_self]
  | seq a b iha ihb =>
    simp only [labels, List.mem_append] at hl
    by_cases ha : l ∈ labels a
    · simp only [residual, ha, if_true]
      rw [exec_seq_left _ _ _ _ _ _ _ ha, exec_seq_none, iha _ _ _ ha hpt]
    · have hb : l ∈ labels b := by rcases hl with h | h; exact absurd h ha; exact h
      simp only [residual, ha, if_false]
      rw [exec_seq_right _ _ _ _ _ _ _ ha]; exact ihb _ _ _ hb hpt
  | ifte c a b iha ihb =>
    simp only [labels, List.mem_append] at hl
    by_cases ha : l ∈ labels a
    · simp only [residual, ha, if_true]
      rw [exec_ifte_left _ _ _ _ _ _ _ _ ha]; exact iha _ _ _ ha hpt
    · have hb : l ∈ labels b := by rcases hl with h | h; exact absurd h ha; exact h
      simp only [residual, ha, if_false]
      rw [exec_ifte_right _ _ _ _ _ _ _ _ ha]; exact ihb _ _ _ hb hpt
  | ifChildOk a b iha ihb =>
    simp only [labels, List.mem_append] at hl
    by_cases ha : l ∈ labels a
    · simp only [residual, ha, if_true]
      rw [exec_ico_left _ _ _ _ _ _ _ ha]; exact iha _ _ _ ha hpt
    · have hb : l ∈ labels b := by rcases hl with h | h; exact absurd h ha; exact h
      simp only [residual, ha, if_false]
      rw [exec_ico_right _ _ _ _ _ _ _ ha]; exact ihb _ _ _ hb hpt
  | «while» c body ih =>
    simp only [labels] at hl
    simp only [residual]
    rw [exec_while_some, exec_seq_none, ih _ _ _ hl hpt]
  | spawn l' ch _ =>
    simp [labels] at hl; subst hl
    simp only [residual]; rw [exec_spawn_at]
  | join l' ch _ => simp only [residual]; exact exec_join ..
  | spawnAndCheck l' ch _ =>
    simp [labels] at hl; subst hl
    simp only [residual]
    rw [exec_sac, exec_seq_left _ _ _ _ _ _ _ (by simp [labels]), exec_seq_none, exec_spawn_at]

end Librfn.C08

import Librfn.Model.PT
import Librfn.Spec.PT
import Librfn.Lemmas.PT
import Librfn.Lemmas.PTSplit6
import Librfn.Lemmas.PTInv6
/-!
# C08 — protothreads resume exactly where they blocked and relay child results

Model: `Librfn.Model.PT` (`exec`: the switch/case semantics of the PT_* macros of
`include/librfn/protothreads.h`; budget `n = 0` is the real behaviour, budget `n > 0` passes through
`n` blocking points = the body as one sequential program).  Spec: `Librfn.Spec.PT.residual`.
-/
namespace Librfn.C08
open Librfn.Model.PT Librfn.Model.PT.Stmt Librfn.Spec.PT

theorem setPt_self (st : St) : st.setPt st.me.pt = st := by
  cases st with | mk v t me => cases me with | mk p k => rfl

/-- **each invocation continues immediately after the point where the previous one returned**:
entering the body at `case l:` (C's jump into nested statements) is running the program text that
follows label `l` from its start — for every fuel, every budget, every store, children to any depth.
`yield`/`wait` block exactly once (their residual is `skip`), `waitUntil` re-evaluates its condition
(its residual is itself), a spawn calls the child again without re-initialising it. -/
theorem resume_is_residual (fuel : Nat) (s : Stmt) (l : Label) (res : Code) (n : Nat) (st : St)
    (hl : l ∈ labels s) (hpt : st.me.pt = l) :
    exec fuel s (some l) res n st = exec fuel (residual s l) none res n st := by
  induction s generalizing st res n with
  | skip | eff | exit | fail | exitOn | failOn | call | spin => simp [labels] at hl
  | yield l' => simp [labels] at hl; subst hl; simp [exec, residual, block]
  | wait l' => simp [labels] at hl; subst hl; simp [exec, residual, block]
  | waitUntil l' c =>
    simp [labels] at hl; subst hl
    simp only [exec, residual, if_true]
    rw [if_neg (by simp), ← hpt, setPt_self]
  | seq a b iha ihb =>
    simp only [labels, List.mem_append] at hl
    by_cases ha : l ∈ labels a
    · simp only [residual, ha, if_true]
      rw [exec_seq_left _ _ _ _ _ _ _ ha, exec_seq_none, iha _ _ _ ha hpt]
    · have hb : l ∈ labels b := by rcases hl with h | h; exact absurd h ha; exact h
      simp only [residual, ha, if_false]
      rw [exec_seq_right _ _ _ _ _ _ _ ha]; exact ihb _ _ _ hb hpt
  | ifte c a b iha ihb =>
    simp only [labels, List.mem_append] at hl
    by_cases ha : l ∈ labels a
    · simp only [residual, ha, if_true]
      rw [exec_ifte_left _ _ _ _ _ _ _ _ ha]; exact iha _ _ _ ha hpt
    · have hb : l ∈ labels b := by rcases hl with h | h; exact absurd h ha; exact h
      simp only [residual, ha, if_false]
      rw [exec_ifte_right _ _ _ _ _ _ _ _ ha]; exact ihb _ _ _ hb hpt
  | ifChildOk a b iha ihb =>
    simp only [labels, List.mem_append] at hl
    by_cases ha : l ∈ labels a
    · simp only [residual, ha, if_true]
      rw [exec_ico_left _ _ _ _ _ _ _ ha]; exact iha _ _ _ ha hpt
    · have hb : l ∈ labels b := by rcases hl with h | h; exact absurd h ha; exact h
      simp only [residual, ha, if_false]
      rw [exec_ico_right _ _ _ _ _ _ _ ha]; exact ihb _ _ _ hb hpt
  | «while» c body ih =>
    simp only [labels] at hl
    simp only [residual]
    rw [exec_while_some, exec_seq_none, ih _ _ _ hl hpt]
  | spawn l' ch _ =>
    simp [labels] at hl; subst hl
    simp only [residual]; rw [exec_spawn_at]
  | join l' ch _ => simp only [residual]; exact exec_join ..
  | spawnAndCheck l' ch _ =>
    simp [labels] at hl; subst hl
    simp only [residual]
    rw [exec_sac, exec_seq_left _ _ _ _ _ _ _ (by simp [labels]), exec_seq_none, exec_spawn_at]

/-- concatenation over invocations of (effects ++ [return code]) -/
def flatLog (logs : List (List Ev × Nat)) : List Ev := (logs.map Prod.fst).flatten

/-- the events of a finished run: what happened, then the code the function finally returned -/
def close : Out → List Ev
  | .normal _ _ _ t => t ++ [.ret .exited]
  | .ret c _ _ t => t ++ [.ret c]
  | .abort t => t ++ [.abort]

theorem close_prepend (p : List Ev) (r : Out) : close (r.prepend p) = p ++ close r := by
  cases r <;> simp [close, Out.prepend, List.append_assoc]

theorem seqRun_eq (fuel body n st) : seqRun fuel body n st = (exec fuel body none .yielded n st.bump).map close := by
  unfold seqRun
  cases exec fuel body none .yielded n st.bump with
  | none => rfl
  | some r => cases r <;> rfl

theorem mainLoop_of_exec (fuel : Nat) (body : Stmt) (hwf : WF body) :
    ∀ n e st r, entryOf body st.me.pt = some e → exec fuel body e .yielded n st.bump = some r →
      (mainLoop fuel body (n + 1) st).map flatLog = some (close r) := by
  intro n
  induction n with
  | zero =>
    intro e st r hent h
    have hent' : entryOf body st.bump.me.pt = some e := hent
    simp only [mainLoop, invoke, hent', h]
    cases r with
    | normal st1 res n1 t => simp [Code.blocking, flatLog, close]
    | abort t => simp [flatLog, close]
    | ret c st1 n1 t =>
      dsimp only
      by_cases hb : c.blocking = true
      · simp [hb, flatLog, close]
      · simp [hb, flatLog, close]
  | succ n ih =>
    intro e st r hent h
    have hent' : entryOf body st.bump.me.pt = some e := hent
    obtain ⟨r0, h0, hR⟩ := split_at fuel body hwf e .yielded n st.bump r (entryOf_entry hent') h
    rw [mainLoop]
    simp only [invoke, hent', h0]
    cases r0 with
    | normal st1 res n1 t =>
      obtain ⟨_, hr⟩ := hR; subst hr; simp [Code.blocking, flatLog, close]
    | abort t => simp only [Resumes] at hR; subst hR; simp [flatLog, close]
    | ret c st1 n1 t =>
      simp only [Resumes] at hR
      dsimp only
      by_cases hb : c.blocking = true
      · rw [if_pos hb] at hR ⊢
        obtain ⟨hpt, r', hr', hr⟩ := hR
        have := ih (some st1.me.pt) st1 r' (entryOf_label hpt (hwf.pos _ hpt)) hr'
        rcases Option.map_eq_some_iff.1 this with ⟨logs, hlogs, hflat⟩
        rw [hlogs]; subst hr
        simp only [Option.map_some, Option.some.injEq]
        rw [close_prepend, ← hflat]; simp [flatLog]
      · rw [if_neg hb] at hR ⊢
        obtain ⟨_, hr⟩ := hR; subst hr; simp [flatLog, close]

/-- **repeatedly invoking a protothread function executes its body as one sequential program cut at
its blocking points**: whenever the body, run from its start as one sequential program that passes
through at most `n` blocking points (each emitting its return code as an event), finishes within the
fuel with the event list `evs`, then the main loop `for (;;) { tick++; s = f(&pt); ... }` — at most
`n+1` real invocations, each entering through `switch (*pt)` at the stored label — logs exactly `evs`:
the concatenation over invocations of (effects ++ [return code]).  All bodies with unique labels,
all stores, children to any depth. -/
theorem invocations_concat (fuel : Nat) (body : Stmt) (n : Nat) (st : St) (evs : List Ev)
    (hwf : WF body) (h0 : st.me.pt = 0) (h : seqRun fuel body n st = some evs) :
    (mainLoop fuel body (n + 1) st).map flatLog = some evs := by
  rw [seqRun_eq] at h
  rcases Option.map_eq_some_iff.1 h with ⟨r, hr, rfl⟩
  exact mainLoop_of_exec fuel body hwf n none st r (by simp [entryOf, h0]) hr

/-- the state PT_SPAWN leaves before calling the child: child `pt_t` cleared, own `*pt` = the spawn's line -/
def spawned (st : St) (l : Label) : St := (st.initKid l).setPt l

theorem spawned_kid_pt (st : St) (l : Label) : ((spawned st l).me.kid l).pt = 0 := by
  simp [spawned, St.setPt, St.initKid, PtSt.setPt, PtSt.kid, PtSt.setKid, PtSt.kids, PtSt.pt]

/-- **PT_SPAWN starts the child from its beginning each time it is reached** (not through its own
`case` label), whatever state an earlier activation left in the child's `pt_t`: the child body is
run with entry `none`, and the parent's outcome is `joinPost` of the child's. -/
theorem spawn_restarts_child (fuel : Nat) (l : Label) (ch : Stmt) (e : Option Label) (res : Code) (n : Nat) (st : St)
    (he : e ≠ some l) :
    exec fuel (spawn l ch) e res n st =
      joinPost (spawned st l) l (exec fuel ch none .yielded n ((spawned st l).enter l)) := by
  rw [exec_spawn_fresh _ _ _ _ _ _ _ he, exec_join_eq]
  show (match entryOf ch ((spawned st l).me.kid l).pt with | none => _ | some e' => _) = _
  rw [spawned_kid_pt]; rfl

/-- when the parent is re-entered at the spawn's label the child is called again *without* PT_INIT:
it continues from its own stored label -/
theorem spawn_resumes_child (fuel : Nat) (l : Label) (ch : Stmt) (res : Code) (n : Nat) (st : St)
    (p : Label) (hp : (st.me.kid l).pt = p) (hpl : p ∈ labels ch) (hp0 : p ≠ 0) :
    exec fuel (spawn l ch) (some l) res n st = joinPost st l (exec fuel ch (some p) .yielded n (st.enter l)) := by
  rw [exec_spawn_at, exec_join_eq, hp, entryOf_label hpl hp0]

/-- **PT_SPAWN relays the child's yields and waits upward unchanged**: same code, same events, the
parent's `*pt` stays at the spawn (so the next invocation comes back to it) -/
theorem spawn_relays (st : St) (l : Label) (c : Code) (st2 : St) (n2 : Nat) (t : List Ev) (hb : c.blocking = true) :
    joinPost st l (some (.ret c st2 n2 t)) = some (.ret c (st.wrap l st2) n2 t) ∧ (st.wrap l st2).me.pt = st.me.pt := by
  simp [joinPost, hb, St.wrap, PtSt.setKid, PtSt.pt]

/-- **PT_SPAWN continues the parent once the child exits or fails** (PT_EXIT/PT_FAIL or falling off
PT_END), with `pt_spawn_res` holding the child's result -/
theorem spawn_continues (st : St) (l : Label) (st2 : St) (n2 : Nat) (t : List Ev) :
    (∀ r0, joinPost st l (some (.normal st2 r0 n2 t)) = some (.normal (st.wrap l st2) .exited n2 t)) ∧
    (∀ c, c.blocking = false → joinPost st l (some (.ret c st2 n2 t)) = some (.normal (st.wrap l st2) c n2 t)) := by
  refine ⟨fun _ => rfl, fun c hc => ?_⟩
  simp [joinPost, hc]

/-- **PT_CHILD_OK reflects the child's result**: after a spawn that completed with result `c`, the
`if (PT_CHILD_OK())` takes its first branch iff `c ≠ PT_FAILED` -/
theorem child_ok_reflects (fuel : Nat) (a b : Stmt) (c : Code) (n : Nat) (st : St) :
    exec fuel (ifChildOk a b) none c n st = if c ≠ .failed then exec fuel a none c n st else exec fuel b none c n st :=
  exec_ico_none ..

/-- PT_SPAWN_AND_CHECK: the spawn, then `PT_FAIL_ON(!PT_CHILD_OK())` — a failed child makes the parent
return PT_FAILED, any other completion lets it continue -/
theorem spawn_and_check_reflects (fuel : Nat) (l : Label) (ch : Stmt) (e : Option Label) (res : Code) (n : Nat) (st : St)
    (he : e = none ∨ e = some l) :
    exec fuel (spawnAndCheck l ch) e res n st =
      match exec fuel (spawn l ch) e res n st with
      | some (.normal st1 c n1 t) => some (if c = .failed then .ret .failed st1 n1 t else .normal st1 c n1 t)
      | r => r := by
  rw [exec_sac]
  have : exec fuel (seq (spawn l ch) (ifChildOk skip fail)) e res n st =
      Out.andThen (exec fuel (spawn l ch) e res n st) (fun st1 r1 n1 => exec fuel (ifChildOk skip fail) none r1 n1 st1) := by
    rcases he with rfl | rfl
    · exact exec_seq_none ..
    · exact exec_seq_left _ _ _ _ _ _ _ (by simp [labels])
  rw [this]
  cases exec fuel (spawn l ch) e res n st with
  | none => rfl
  | some r =>
    cases r with
    | ret => rfl
    | abort => rfl
    | normal st1 c n1 t =>
      simp only [Out.andThen, exec_ico_none]
      by_cases hc : c = .failed
      · subst hc; simp [exec, Out.prepend]
      · simp [hc, exec, Out.prepend]

/-- **invocations return yielded or waiting at blocking points and exited or failed at PT_END,
PT_EXIT(_ON) and PT_FAIL(_ON)** — for a run of a function body (any entry the `switch` can take from a
consistent control state, any budget): it never reaches `default: assert(0)`; if it returns yielded or
waiting, `*pt` holds a label of this body that belongs to a PT_YIELD (yielded), a PT_WAIT /
PT_WAIT_UNTIL (waiting) or a PT_SPAWN whose child blocked with that very code; if it returns exited
(failed) from inside the body, the body's own text contains a PT_EXIT(_ON) (PT_FAIL(_ON) /
PT_SPAWN_AND_CHECK).  Falling off the end (`.normal`) is PT_END, which returns exited. -/
theorem return_codes (fuel : Nat) (s : Stmt) (e : Option Label) (res : Code) (n : Nat) (st : St) (r : Out)
    (hwf : WF s) (hE : Entry s e st) (hL : ∀ l, e = some l → Live s st.me)
    (h : exec fuel s e res n st = some r) :
    match r with
    | .abort _ => False
    | .normal _ _ _ _ => True
    | .ret c st' _ _ =>
        (c = .yielded ∨ c = .waiting → st'.me.pt ∈ labels s ∧ MayBlock s st'.me.pt c) ∧
        (c = .exited ∨ c = .failed → MayReturn s c) := by
  have hP := inv_at fuel s hwf e res n st r hE hL h
  cases r with
  | abort => exact hP
  | normal => trivial
  | ret c st' n' t =>
    have h2 := hP.2
    cases c <;> simp [Code.blocking] at h2 ⊢ <;> first | exact ⟨h2.1, h2.2.1⟩ | exact h2

/-- one real invocation from a consistent control state: no `assert(0)`; afterwards `*pt` is 0 or a
label of the body; if it blocked the state is consistent again (so the next invocation finds its `case`) -/
theorem invoke_good (fuel : Nat) (body : Stmt) (st : St) (res : Res) (hwf : WF body) (hg : Good body st.me)
    (h : invoke fuel body st = some res) :
    ∃ c st' tr, res = .code c st' tr ∧ (st'.me.pt = 0 ∨ st'.me.pt ∈ labels body) ∧
      (c.blocking = true → Good body st'.me ∧ MayBlock body st'.me.pt c) ∧
      (c = .failed → MayReturn body .failed) := by
  obtain ⟨e, hent, hE, hL⟩ := entry_of_good hwf hg
  simp only [invoke, hent] at h
  have h0 : st.me.pt = 0 ∨ st.me.pt ∈ labels body := hg.imp id (·.1)
  have key : ∀ q, (q = st.me.pt ∨ q ∈ labels body) → (q = 0 ∨ q ∈ labels body) := by
    intro q hq; rcases hq with hq | hq
    · rw [hq]; exact h0
    · exact Or.inr hq
  cases hx : exec fuel body e .yielded 0 st with
  | none => rw [hx] at h; cases h
  | some r =>
    rw [hx] at h
    have hP := inv_at fuel body hwf e .yielded 0 st r hE hL hx
    cases r with
    | abort => exact hP.elim
    | normal st1 r1 n1 t =>
      simp only [Option.some.injEq] at h; subst h
      exact ⟨_, _, _, rfl, key _ hP, by simp [Code.blocking], by simp⟩
    | ret c st1 n1 t =>
      simp only [Option.some.injEq] at h; subst h
      refine ⟨_, _, _, rfl, key _ hP.1, ?_, ?_⟩
      · intro hb; have h2 := hP.2; rw [if_pos hb] at h2; exact ⟨Or.inr ⟨h2.1, h2.2.2⟩, h2.2.1⟩
      · intro hc; subst hc; have h2 := hP.2; simpa [Code.blocking] using h2

/-- **`*pt` is always 0 or a planted label: the `default: assert(0)` branch is unreachable** — in the
main loop started from a consistent state (in particular after PT_INIT), however many invocations,
children to any depth: every invocation returns a code, and the value of `*pt` it leaves is 0 or a
label of the body -/
theorem pt_always_label_or_zero (fuel : Nat) (body : Stmt) (hwf : WF body) :
    ∀ k st logs, Good body st.me → mainLoop fuel body k st = some logs →
      ∀ x, x ∈ logs → (∃ t c, x.1 = t ++ [Ev.ret c]) ∧ (x.2 = 0 ∨ x.2 ∈ labels body) := by
  intro k
  induction k with
  | zero => intro st logs _ h; simp only [mainLoop, Option.some.injEq] at h; subst h; intro x hx; cases hx
  | succ k ih =>
    intro st logs hg h
    rw [mainLoop] at h
    cases hi : invoke fuel body st.bump with
    | none => rw [hi] at h; cases h
    | some res =>
      rw [hi] at h
      obtain ⟨c, st1, t, rfl, hpt, hblk, _⟩ := invoke_good fuel body st.bump res hwf hg hi
      dsimp only at h
      by_cases hb : c.blocking = true
      · rw [if_pos hb] at h
        rcases Option.map_eq_some_iff.1 h with ⟨logs', hl', rfl⟩
        intro x hx
        rcases List.mem_cons.1 hx with rfl | hx
        · exact ⟨⟨_, _, rfl⟩, hpt⟩
        · exact ih st1 logs' (hblk hb).1 hl' x hx
      · rw [if_neg hb] at h; simp only [Option.some.injEq] at h; subst h
        intro x hx
        rcases List.mem_singleton.1 hx with rfl
        exact ⟨⟨_, _, rfl⟩, hpt⟩

/-- the state after PT_INIT (and the zero-initialised statics) is consistent -/
theorem good_init (body : Stmt) : Good body St.init.me := Or.inl rfl

/-- a chain of real invocations of a child function: the first from state `stc`, each later one from
the state its predecessor left; all but the last return yielded/waiting, the last one exited/failed.
`t` = all their effects, in order. -/
inductive Spins (fuel : Nat) (ch : Stmt) : St → List Ev → St → Prop
  | done {stc c st' t} : invoke fuel ch stc = some (.code c st' t) → c.blocking = false → Spins fuel ch stc t st'
  | again {stc c st1 t t' st'} : invoke fuel ch stc = some (.code c st1 t) → c.blocking = true →
      Spins fuel ch st1 t' st' → Spins fuel ch stc (t ++ t') st'

theorem invoke_mono {f f' : Nat} (hf : f ≤ f') {ch st res} (h : invoke f ch st = some res) : invoke f' ch st = some res := by
  unfold invoke at h ⊢
  cases hent : entryOf ch st.me.pt with
  | none => rw [hent] at h; exact h
  | some e =>
    rw [hent] at h; dsimp only at h ⊢
    cases hx : exec f ch e .yielded 0 st with
    | none => rw [hx] at h; cases h
    | some r => rw [hx] at h; rw [exec_mono hf hx]; exact h

theorem Spins.mono {f f' : Nat} (hf : f ≤ f') {ch stc t st'} (h : Spins f ch stc t st') : Spins f' ch stc t st' := by
  induction h with
  | done h1 h2 => exact .done (invoke_mono hf h1) h2
  | again h1 h2 _ ih => exact .again (invoke_mono hf h1) h2 ih

theorem St.enter_wrap (st st2 : St) (l : Nat) : (st.wrap l st2).enter l = st2 := by
  simp [St.enter, St.wrap, PtSt.kid_setKid]
theorem St.wrap_wrap (st st2 stX : St) (l : Nat) : (st.wrap l st2).wrap l stX = st.wrap l stX := by
  simp [St.wrap, PtSt.setKid_setKid]

theorem spin_runs (k : Label) (ch : Stmt) : ∀ fuel e res n st r, exec fuel (spin k ch) e res n st = some r →
    (∃ t, r = .abort t) ∨ ∃ stc' t, r = .normal (st.wrap k stc') res n t ∧ Spins fuel ch (st.enter k) t stc' := by
  intro fuel
  induction fuel with
  | zero => intro e res n st r h; rw [exec_spin_zero] at h; cases h
  | succ f ih =>
    intro e res n st r h
    rw [exec_spin_succ] at h
    cases hent : entryOf ch (st.me.kid k).pt with
    | none => rw [hent] at h; simp only [Option.some.injEq] at h; subst h; exact Or.inl ⟨_, rfl⟩
    | some e' =>
      rw [hent] at h; dsimp only at h
      have hinv : ∀ o, exec f ch e' .yielded 0 (st.enter k) = some o →
          invoke (f + 1) ch (st.enter k) = some (match o with
            | .normal st1 _ _ t => .code .exited st1 t
            | .ret c st1 _ t => .code c st1 t
            | .abort t => .abort t) := by
        intro o ho
        have hent' : entryOf ch (st.enter k).me.pt = some e' := hent
        simp only [invoke, hent', exec_mono (Nat.le_succ f) ho]
        cases o <;> rfl
      cases hx : exec f ch e' .yielded 0 (st.enter k) with
      | none => rw [hx] at h; cases h
      | some o =>
        rw [hx] at h
        have hi := hinv o hx
        cases o with
        | abort t => simp only [spinPost, Option.some.injEq] at h; subst h; exact Or.inl ⟨_, rfl⟩
        | normal st2 r2 n2 t =>
          simp only [spinPost, Option.some.injEq] at h; subst h
          exact Or.inr ⟨st2, t, rfl, .done hi rfl⟩
        | ret c st2 n2 t =>
          simp only [spinPost] at h
          by_cases hb : c.blocking = true
          · rw [if_pos hb] at h
            rcases Option.map_eq_some_iff.1 h with ⟨r', hr', rfl⟩
            rcases ih none res n _ r' hr' with ⟨t', rfl⟩ | ⟨stc', t', rfl, hs⟩
            · exact Or.inl ⟨_, rfl⟩
            · rw [St.enter_wrap] at hs; rw [St.wrap_wrap]
              exact Or.inr ⟨stc', t ++ t', rfl, .again hi hb (hs.mono (Nat.le_succ f))⟩
          · rw [if_neg hb] at h; simp only [Option.some.injEq] at h; subst h
            exact Or.inr ⟨st2, t, rfl, .done hi (by simpa using hb)⟩

/-- **PT_CALL runs the child to completion**: the child is initialised, then really invoked again and
again — each time continuing where it blocked — until it returns exited or failed; the caller never
returns in between (no blocking, its budget and `pt_spawn_res` untouched) and then goes on; the
effects are the child's, in order -/
theorem call_runs_to_completion (fuel : Nat) (k : Label) (ch : Stmt) (e : Option Label) (res : Code) (n : Nat) (st : St)
    (r : Out) (hwf : WF ch) (h : exec fuel (call k ch) e res n st = some r) :
    ∃ stc' t, r = .normal ((st.initKid k).wrap k stc') res n t ∧ ((st.initKid k).enter k).me.pt = 0 ∧
      Spins fuel ch ((st.initKid k).enter k) t stc' := by
  have hk : ((st.initKid k).me.kid k).pt = 0 := by
    simp [St.initKid, PtSt.setPt, PtSt.kid, PtSt.setKid, PtSt.kids, PtSt.pt]
  rw [exec_call] at h
  have hP := inv_spin (k := k) hwf fuel (fun f _ => inv_at f ch) none res n (st.initKid k) r (Or.inl hk) h
  rcases spin_runs k ch fuel none res n _ r h with ⟨t, rfl⟩ | ⟨stc', t, hr, hs⟩
  · exact hP.elim
  · exact ⟨stc', t, hr, hk, hs⟩

/-- what the C function returns for an outcome of its body: PT_END turns falling off the end into exited -/
def finish : Option Out → Option Res
  | some (.normal st1 _ _ t) => some (.code .exited st1 t)
  | some (.ret c st1 _ t) => some (.code c st1 t)
  | some (.abort t) => some (.abort t)
  | none => none

/-- `resume_is_residual` for a whole invocation: calling the function while `*pt = l` (a planted label)
is running the program text after `l`, from its start, as a fresh invocation -/
theorem invoke_is_residual (fuel : Nat) (body : Stmt) (st : St) (l : Label)
    (hl : l ∈ labels body) (h0 : l ≠ 0) (hpt : st.me.pt = l) :
    invoke fuel body st = finish (exec fuel (residual body l) none .yielded 0 st) := by
  unfold invoke
  rw [hpt, entryOf_label hl h0]
  dsimp only
  rw [resume_is_residual fuel body l .yielded 0 st hl hpt]
  cases exec fuel (residual body l) none .yielded 0 st with
  | none => rfl
  | some r => cases r <;> rfl

/-- ... and calling it while `*pt = 0` (after PT_INIT) runs the body from its start -/
theorem invoke_from_init (fuel : Nat) (body : Stmt) (st : St) (hpt : st.me.pt = 0) :
    invoke fuel body st = finish (exec fuel body none .yielded 0 st) := by
  unfold invoke
  rw [hpt]
  simp only [entryOf, if_true]
  cases exec fuel body none .yielded 0 st with
  | none => rfl
  | some r => cases r <;> rfl

theorem mainLoop_mono {f f' : Nat} (hf : f ≤ f') (body : Stmt) : ∀ k st logs,
    mainLoop f body k st = some logs → mainLoop f' body k st = some logs := by
  intro k
  induction k with
  | zero => intro st logs h; exact h
  | succ k ih =>
    intro st logs h
    rw [mainLoop] at h ⊢
    cases hi : invoke f body st.bump with
    | none => rw [hi] at h; cases h
    | some res =>
      rw [hi] at h; rw [invoke_mono hf hi]
      cases res with
      | abort t => exact h
      | code c st1 t =>
        dsimp only at h ⊢
        by_cases hb : c.blocking = true
        · rw [if_pos hb] at h ⊢
          rcases Option.map_eq_some_iff.1 h with ⟨logs', hl', rfl⟩
          rw [ih st1 logs' hl']; rfl
        · rw [if_neg hb] at h ⊢; exact h

theorem seqRun_mono {f f' : Nat} (hf : f ≤ f') {body n st evs} (h : seqRun f body n st = some evs) :
    seqRun f' body n st = some evs := by
  rw [seqRun_eq] at h ⊢
  rcases Option.map_eq_some_iff.1 h with ⟨r, hr, rfl⟩
  rw [exec_mono hf hr]; rfl

/-- `invocations_concat` irrespective of fuel: whenever the sequential run and the real invocations both
finish (each within its own fuel), the concatenated per-invocation logs are the sequential trace -/
theorem invocations_concat_any_fuel (f f' : Nat) (body : Stmt) (n : Nat) (st : St) (evs : List Ev)
    (logs : List (List Ev × Nat)) (hwf : WF body) (h0 : st.me.pt = 0)
    (hs : seqRun f' body n st = some evs) (hm : mainLoop f body (n + 1) st = some logs) : flatLog logs = evs := by
  have h1 := invocations_concat (max f f') body n st evs hwf h0 (seqRun_mono (Nat.le_max_right f f') hs)
  rw [mainLoop_mono (Nat.le_max_left f f') body _ _ _ hm] at h1
  simpa using h1

/-! ## Non-vacuity: a concrete body with a blocking point in a loop in a conditional, a child spawned
from inside a loop, PT_WAIT_UNTIL with a side-effecting condition, PT_CALL and PT_CHILD_OK -/

def demo : Stmt :=
  seq (eff 1)
    (seq (ifte (.lt 1 5)
            (.while (.not (.incMod 8 2)) (seq (yield 0) (seq (spawn 0 (seq (eff 7) (seq (wait 0) (failOn (.odd 3))))) (ifChildOk (eff 2) (eff 3)))))
            (waitUntil 0 (.postIncGe 9 1)))
      (seq (call 0 (seq (yield 0) (eff 5))) (spawnAndCheck 0 (seq (waitUntil 0 (.incMod 10 1)) (exitOn (.tickGe 3))))))

def demoL : Stmt := (relabel demo 1).1

example : WF demoL := relabel_wf demo
/-- the hypothesis of `invocations_concat` is met by a run that really blocks, in a loop in a conditional,
through a child spawned inside the loop (twice, restarted each time), a PT_CALL and a PT_SPAWN_AND_CHECK -/
theorem demo_seq : seqRun 50 demoL 20 St.init =
    some [.eff 1, .ret .yielded, .eff 7, .ret .waiting, .eff 3, .ret .yielded, .eff 7, .ret .waiting, .eff 3,
          .eff 5, .ret .waiting, .ret .exited] := by
  set_option linter.unusedSimpArgs false in
  simp [demoL, demo, relabel, seqRun, exec, block, waitLoop, evalCond, St.init, St.bump, St.setVar, St.setPt, St.initKid, St.enter, St.wrap,
    entryOf, labels, PtSt.kid, PtSt.setKid, PtSt.setPt, PtSt.pt, PtSt.kids, Out.prepend, Code.blocking]

example : (mainLoop 50 demoL 21 St.init).map flatLog =
    some [.eff 1, .ret .yielded, .eff 7, .ret .waiting, .eff 3, .ret .yielded, .eff 7, .ret .waiting, .eff 3,
          .eff 5, .ret .waiting, .ret .exited] :=
  invocations_concat 50 demoL 20 St.init _ (relabel_wf demo) rfl demo_seq

/-- `pt_always_label_or_zero` / `invoke_good` apply to the demo from PT_INIT -/
example : ∀ k logs, mainLoop 50 demoL k St.init = some logs →
    ∀ x, x ∈ logs → (∃ t c, x.1 = t ++ [Ev.ret c]) ∧ (x.2 = 0 ∨ x.2 ∈ labels demoL) :=
  fun k logs h => pt_always_label_or_zero 50 demoL (relabel_wf demo) k St.init logs (good_init _) h

end Librfn.C08

import Librfn.Model.Hex
import Librfn.Spec.Hex
import Librfn.Lemmas.Hex
import Librfn.Lemmas.HexSyntax
/-!
# C18 — hex dump output parses back to the same bytes; the parser is safe on any text

Model: `Librfn.Model.Hex` (hand transcription of `hex.c`: a C string is a byte list with an explicit NUL,
every read `rd` and every pointer step `adv` is checked and yields the outcome `.oob` when it leaves the
string; the `goto` structure of `hex_get_byte` is a recursion on the rest of the string).
Spec: `Librfn.Spec.Hex` (the dump format and the accepted syntax, written from the property text).

All theorems quantify over **every** byte array / byte string of any length and over any number of calls.
Kernel-only (no `bv_decide`); facts about single characters are decided by enumerating the 256 bytes.

Main theorems (all at full strength, none `_partial`):
* `dump_format`            the dump is `Spec.Hex.format`: rows of 16 lower-case pairs (+ `chunks_shape`, `chunks_flatten`)
* `dump_parse_roundtrip`   dump, then repeated `hex_get_byte`: exactly the bytes, then -1 for ever
* `parser_safe`            any string: results `vs ++ (-1)^ω`, `|vs| ≤ len/2`, values in 0…255, never `.oob`
  (+ `parser_no_fault`, `parser_ptr_within`: `*p` is a suffix of the text)
* `accepted_syntax`        optional `0x`, either case, blanks, `address:` on each line (+ the two named corollaries)
* `…_hextest_style`        the round trip and the colon-free syntax in the calling style of tests/hextest.c

What is *not* proved here: that hex.c behaves as the model — that is the correspondence run of `props/C18.py`.
-/
namespace Librfn.C18
open Librfn.Model.Hex
open Librfn.Lemmas.Hex

/-! ## repeated calls -/

/-- the calls starting with outcome `o` return `vs` and then -1 for ever (`again`: calling style, see
    `Model.Hex.nextCall`) -/
inductive Yields (again : Bool) : Out → List Int → Prop
  | done : Yields again .done []
  | byte (v : Int) (p : Str) (vs : List Int) :
      Yields again (nextCall again (.byte v p)) vs → Yields again (.byte v p) (v :: vs)

theorem nextCall_byte (again : Bool) (v : Int) (p : Str) : nextCall again (.byte v p) = parse1 again p := by
  cases again <;> rfl

theorem nextCall_done (again : Bool) : nextCall again .done = .done := by
  cases again <;> rfl

theorem traceFrom_done (again : Bool) : ∀ n, traceFrom again n .done = List.replicate n .done := by
  intro n
  induction n with
  | zero => rfl
  | succ n ih => rw [traceFrom, nextCall_done, ih]; rfl

theorem take_append_replicate {α : Type} (x : α) : ∀ (l : List α) (n m : Nat), n ≤ m →
    (l ++ List.replicate m x).take n = (l ++ List.replicate n x).take n := by
  intro l
  induction l with
  | nil => intro n m h; simp [List.take_replicate, Nat.min_eq_left h]
  | cons a l ih =>
    intro n m h
    cases n with
    | zero => rfl
    | succ n =>
      simp only [List.cons_append, List.take_succ_cons]
      rw [ih n m (by omega), ih n (n + 1) (by omega)]

/-- what `Yields` means for the observable sequence of return values: for **every** number of calls `n`
    the first `n` results are the first `n` elements of `vs` followed by -1, -1, … -/
theorem yields_trace {again : Bool} {o : Out} {vs : List Int} (h : Yields again o vs) :
    ∀ n, (traceFrom again n o).map retOf = (vs.map some ++ List.replicate n (some (-1))).take n := by
  induction h with
  | done => intro n; rw [traceFrom_done]; simp [retOf]
  | byte v p vs _ ih =>
    intro n
    cases n with
    | zero => rfl
    | succ n =>
      rw [traceFrom, List.map_cons, ih n]
      simp only [retOf, List.map_cons, List.cons_append, List.take_succ_cons]
      rw [take_append_replicate _ _ n (n + 1) (by omega)]

/-! ## parser_safe -/

theorem yields_of_any (again : Bool) : ∀ (n : Nat) (nl : Bool) (s : Str), s.length ≤ n →
    ∃ vs : List Int, Yields again (parse1 nl s) vs ∧ 2 * vs.length ≤ s.length ∧ ∀ v ∈ vs, 0 ≤ v ∧ v ≤ 255 := by
  intro n
  induction n with
  | zero =>
    intro nl s h
    rcases parse1_good _ nl s (Nat.le_refl _) with e | ⟨v, p, _, _, _, hl, _⟩
    · exact ⟨[], by rw [e]; exact .done, by simp, by simp⟩
    · omega
  | succ n ih =>
    intro nl s h
    rcases parse1_good _ nl s (Nat.le_refl _) with e | ⟨v, p, e, h0, h1, hl, _⟩
    · exact ⟨[], by rw [e]; exact .done, by simp, by simp⟩
    · obtain ⟨vs, y, hlen, hr⟩ := ih again p (by omega)
      refine ⟨v :: vs, ?_, ?_, ?_⟩
      · rw [e]; exact .byte v p vs (by rw [nextCall_byte]; exact y)
      · simp only [List.length_cons]; omega
      · intro x hx
        cases hx with
        | head => exact ⟨h0, h1⟩
        | tail _ hx => exact hr x hx

/-- **For every string (any bytes, any length) and both calling styles**: there is a finite list `vs` of at
    most `len/2` values, each in 0…255, such that for every number of calls `n` the results are `vs` followed
    by -1 for ever.  Every entry is a genuine `int` result (`retOf` is `none` for the outcomes `.oob` = "read
    or pointer step beyond the NUL" and `.nofuel`), so no call leaves the string, -1 is reached after at most
    `len/2` byte results and is sticky. -/
theorem parser_safe (again : Bool) (text : Str) :
    ∃ vs : List Int, 2 * vs.length ≤ text.length ∧ (∀ v ∈ vs, 0 ≤ v ∧ v ≤ 255) ∧
      ∀ n, (trace again n text).map retOf = (vs.map some ++ List.replicate n (some (-1))).take n := by
  obtain ⟨vs, y, hl, hr⟩ := yields_of_any again text.length true text (Nat.le_refl _)
  exact ⟨vs, hl, hr, yields_trace y⟩

/-- no call ever ends in the outcome "access beyond the NUL" (nor exhausts the model's recursion budget) -/
theorem parser_no_fault (again : Bool) (text : Str) (n : Nat) :
    ∀ o ∈ trace again n text, o ≠ .oob ∧ o ≠ .nofuel := by
  intro o ho
  obtain ⟨vs, _, _, h⟩ := parser_safe again text
  have hm : retOf o ∈ (trace again n text).map retOf := List.mem_map_of_mem ho
  rw [h n] at hm
  have hm := List.mem_of_mem_take hm
  have : ∃ v, retOf o = some v := by
    rcases List.mem_append.mp hm with h1 | h1
    · obtain ⟨v, _, e⟩ := List.mem_map.mp h1; exact ⟨v, e.symm⟩
    · exact ⟨-1, (List.eq_of_mem_replicate h1)⟩
  obtain ⟨v, e⟩ := this
  constructor <;> (intro e'; rw [e'] at e; cases e)

/-- `*p` always stays inside the string: it is a suffix of the text (possibly the empty one, i.e. the NUL) -/
theorem ptr_within (again : Bool) (text : Str) : ∀ (n : Nat) (nl : Bool) (s : Str), s <:+ text →
    ∀ o ∈ traceFrom again n (parse1 nl s), ∀ v p, o = .byte v p → p <:+ text := by
  intro n
  induction n with
  | zero => intro nl s _ o ho; cases ho
  | succ n ih =>
    intro nl s hs o ho v p e
    rw [traceFrom] at ho
    rcases parse1_good _ nl s (Nat.le_refl _) with e1 | ⟨v1, p1, e1, _, _, _, suf⟩
    · rw [e1, nextCall_done, traceFrom_done] at ho
      cases ho with
      | head => cases e
      | tail _ h => rw [List.eq_of_mem_replicate h] at e; cases e
    · rw [e1, nextCall_byte] at ho
      cases ho with
      | head => cases e; exact suf.trans hs
      | tail _ h => exact ih again p1 (suf.trans hs) o h v p e

theorem parser_ptr_within (again : Bool) (text : Str) (n : Nat) :
    ∀ o ∈ trace again n text, ∀ v p, o = .byte v p → p <:+ text :=
  ptr_within again text n true text (List.suffix_refl _)

/-- non-vacuity: a string with a `0x` prefix, junk, a second line and a lone digit at the very end -/
example : (trace false 6 [48, 120, 49, 50, 32, 122, 122, 10, 65, 98, 51]).map retOf
    = [some 18, some 171, some (-1), some (-1), some (-1), some (-1)] := by decide +kernel

/-- on the characters `isxdigit` accepts, `nibble` is a natural number below 16 (so computing `byteVal` on `Nat` loses
    nothing) -/
theorem nibble_xdigit_nat (c : UInt8) (h : isXDigit c = true) : ∃ n : Nat, n < 16 ∧ nibble c = (n : Int) :=
  nibble_xdigit c h

/-! ## dump_format -/
open Librfn.Spec.Hex (hexDigit pairOf row chunks format)

theorem hexchar_hi : ∀ b : UInt8, hexchar (b >>> 4) = hexDigit (b.toNat / 16) :=
  forall_u8 (fun b => hexchar (b >>> 4) = hexDigit (b.toNat / 16)) (by decide +kernel)

theorem hexchar_lo : ∀ b : UInt8, hexchar (b &&& 0xf) = hexDigit (b.toNat % 16) :=
  forall_u8 (fun b => hexchar (b &&& 0xf) = hexDigit (b.toNat % 16)) (by decide +kernel)

/-- the inner loop writes the pairs of the next `n` bytes (fewer when the array ends) and leaves the rest -/
theorem dumpRow_eq : ∀ (n : Nat) (bs : List UInt8), dumpRow n bs = ((bs.take n).flatMap pairOf, bs.drop n) := by
  intro n
  induction n with
  | zero => intro bs; cases bs <;> rfl
  | succ n ih =>
    intro bs
    cases bs with
    | nil => rfl
    | cons b bs =>
      simp only [dumpRow, ih bs, List.take_succ_cons, List.flatMap_cons, List.drop_succ_cons, pairOf,
        hexchar_hi, hexchar_lo, List.cons_append, List.nil_append]

theorem chunks_nil : chunks [] = [] := rfl

/-- the rows of a non-empty array: its first 16 bytes, then the rows of the rest -/
theorem chunks_cons (bs : List UInt8) (h : bs ≠ []) : chunks bs = bs.take 16 :: chunks (bs.drop 16) := by
  have hl : 0 < bs.length := List.length_pos_iff.mpr h
  have hm : (bs.length + 15) / 16 = ((bs.drop 16).length + 15) / 16 + 1 := by
    rw [List.length_drop]; omega
  unfold chunks
  rw [hm, List.range_succ_eq_map, List.map_cons, List.map_map]
  congr 1
  apply List.map_congr_left
  intro k _
  simp only [Function.comp, List.drop_drop]
  congr 2
  omega

theorem format_nil : format [] = [] := rfl

theorem format_cons (bs : List UInt8) (h : bs ≠ []) : format bs = row (bs.take 16) ++ format (bs.drop 16) := by
  unfold format
  rw [chunks_cons bs h, List.flatMap_cons]

theorem dumpLoop_eq : ∀ (f : Nat) (bs : List UInt8), bs.length ≤ f → dumpLoop f bs = some (format bs) := by
  intro f
  induction f with
  | zero =>
    intro bs h
    cases bs with
    | nil => rfl
    | cons b bs => simp at h
  | succ f ih =>
    intro bs h
    cases bs with
    | nil => rfl
    | cons b bs =>
      have hrest : ((b :: bs).drop 16).length ≤ f := by
        rw [List.length_drop]; simp only [List.length_cons] at h ⊢; omega
      rw [dumpLoop, dumpRow_eq]
      dsimp only
      rw [ih _ hrest, format_cons (b :: bs) (by simp), row, List.append_assoc]
      rfl

/-- **hex_dump_to_file writes, for every byte array, exactly the rows of 16 two-digit lower-case pairs, each
    row ended by a newline** (`Spec.Hex.format`; the recursion budget of the model's outer loop suffices) -/
theorem dump_format (bs : List UInt8) : dump bs = some (format bs) :=
  dumpLoop_eq bs.length bs (Nat.le_refl _)

/-- the specification's rows really are "16 per line": the rows joined give back the array, … -/
theorem chunks_flatten : ∀ (n : Nat) (bs : List UInt8), bs.length ≤ n → (chunks bs).flatten = bs := by
  intro n
  induction n with
  | zero => intro bs h; cases bs with
    | nil => rfl
    | cons b bs => simp at h
  | succ n ih =>
    intro bs h
    cases bs with
    | nil => rfl
    | cons b bs =>
      rw [chunks_cons _ (by simp), List.flatten_cons, ih _ (by rw [List.length_drop]; simp only [List.length_cons] at h ⊢; omega)]
      exact List.take_append_drop 16 _

/-- … there are `⌈n/16⌉` rows, every row holds between 1 and 16 bytes and every row but the last exactly 16 -/
theorem chunks_shape (bs : List UInt8) :
    (chunks bs).length = (bs.length + 15) / 16 ∧
    ∀ k (h : k < (chunks bs).length), 1 ≤ ((chunks bs)[k]).length ∧ ((chunks bs)[k]).length ≤ 16 ∧
      (k + 1 < (chunks bs).length → ((chunks bs)[k]).length = 16) := by
  have hlen : (chunks bs).length = (bs.length + 15) / 16 := by simp [chunks]
  refine ⟨hlen, ?_⟩
  intro k h
  have hk : k < (bs.length + 15) / 16 := hlen ▸ h
  have e : (chunks bs)[k] = (bs.drop (16 * k)).take 16 := by simp [chunks]
  rw [e, List.length_take, List.length_drop, hlen]
  omega

/-- non-vacuity: 18 bytes give a full row and a row of two -/
example : dump [0, 1, 0xab, 0xff, 16, 17, 18, 19, 20, 21, 22, 23, 24, 25, 26, 27, 28, 29]
    = some ([48,48,48,49,97,98,102,102,49,48,49,49,49,50,49,51,49,52,49,53,49,54,49,55,49,56,49,57,49,97,49,98,10,
             49,99,49,100,10]) := by decide +kernel

/-! ## accepted_syntax -/
open Librfn.Spec.Hex (isHex hexVal isBlank Item Line itemsText render values AddrOk)

/-- the items of a line, one call each -/
theorem yields_items : ∀ (its : List Item) (r : Str) (vs : List Int), (∀ it ∈ its, it.WF) →
    Yields false (parse1 false r) vs → Yields false (parse1 false (itemsText its ++ r)) (its.map Item.value ++ vs) := by
  intro its
  induction its with
  | nil => intro r vs _ h; exact h
  | cons it its ih =>
    intro r vs hwf h
    have e : itemsText (it :: its) ++ r = it.render ++ (itemsText its ++ r) := by
      simp [itemsText, List.flatMap_cons, List.append_assoc]
    rw [e, parse1_item it _ (hwf it List.mem_cons_self), List.map_cons, List.cons_append]
    refine .byte _ _ _ ?_
    rw [nextCall_byte]
    exact ih r vs (fun x hx => hwf x (List.mem_cons_of_mem _ hx)) h

theorem item_no_colon (it : Item) (h : it.WF) : ∀ c ∈ it.render, c ≠ 58 := by
  obtain ⟨hb, hhi, hlo⟩ := h
  intro c hc
  unfold Item.render at hc
  simp only [List.mem_append, List.mem_cons, List.not_mem_nil, or_false] at hc
  rcases hc with (hc | hc) | hc | hc
  · exact (blank_facts c (hb c hc)).2.2.1
  · cases hp : it.pfx with
    | true =>
      rw [hp] at hc
      simp only [if_true, List.mem_cons, List.not_mem_nil, or_false] at hc
      rcases hc with hc | hc <;> (rw [hc]; decide)
    | false => rw [hp] at hc; simp at hc
  · rw [hc]; exact (hex_facts _ hhi).2.2.1
  · rw [hc]; exact (hex_facts _ hlo).2.2.1

theorem line_no_colon (l : Line) (h : l.WF) (ha : l.addr = none) : ∀ c ∈ l.render, c ≠ 58 := by
  obtain ⟨_, hi, ht⟩ := h
  intro c hc
  unfold Line.render Line.header at hc
  rw [ha] at hc
  simp only [List.nil_append, List.mem_append, itemsText, List.mem_flatMap] at hc
  rcases hc with ⟨it, hit, hc⟩ | hc
  · exact item_no_colon it (hi it hit) c hc
  · exact (blank_facts c (ht c hc)).2.2.1

theorem render_no_colon : ∀ (ls : List Line) (last : Line), (∀ l ∈ ls ++ [last], l.WF ∧ l.addr = none) →
    ∀ c ∈ render ls last, c ≠ 58 := by
  intro ls
  induction ls with
  | nil =>
    intro last h c hc
    have := h last (by simp)
    exact line_no_colon last this.1 this.2 c hc
  | cons l ls ih =>
    intro last h c hc
    simp only [render, List.mem_append, List.mem_cons] at hc
    rcases hc with hc | hc | hc
    · have := h l (by simp)
      exact line_no_colon l this.1 this.2 c hc
    · rw [hc]; decide
    · exact ih last (fun x hx => h x (by simp only [List.cons_append, List.mem_cons]; exact Or.inr hx)) c hc

/-- entering a line through `next_line`: the address (if any) is skipped; with no address nothing is, provided
    no colon follows anywhere -/
theorem parse1_line_start (l : Line) (k : Str) (h : l.WF) (hk : l.addr = none → ∀ c ∈ l.render ++ k, c ≠ 58) :
    parse1 true (l.render ++ k) = parse1 false (itemsText l.items ++ (l.trail ++ k)) := by
  cases ha : l.addr with
  | none =>
    have e : l.render ++ k = itemsText l.items ++ (l.trail ++ k) := by
      simp [Line.render, Line.header, ha, List.append_assoc]
    rw [← e]
    exact parse1_true _ _ (skipColon_none _ (hk ha))
  | some a =>
    have e : l.render ++ k = a ++ 58 :: (itemsText l.items ++ (l.trail ++ k)) := by
      simp [Line.render, Line.header, ha, List.append_assoc]
    rw [e]
    exact parse1_true _ _ (skipColon_addr a _ (h.1 a ha))

theorem yields_render : ∀ (ls : List Line) (last : Line), (∀ l ∈ ls ++ [last], l.WF) → AddrOk (ls ++ [last]) →
    Yields false (parse1 true (render ls last)) (values ls last) := by
  intro ls
  induction ls with
  | nil =>
    intro last hwf _
    have hl := hwf last (by simp)
    have e : render [] last = last.render ++ [] := by simp [render]
    rw [e, parse1_line_start last [] hl (by
      intro ha; rw [List.append_nil]; exact line_no_colon last hl ha)]
    have hv : values [] last = last.items.map Item.value ++ [] := by simp [values]
    rw [hv]
    refine yields_items _ _ _ hl.2.1 ?_
    rw [parse1_blanks _ _ hl.2.2, parse1_nil]
    exact .done
  | cons l ls ih =>
    intro last hwf haddr
    have hl := hwf l (by simp)
    have hrest : ∀ x ∈ ls ++ [last], x.WF := fun x hx => hwf x (by
      simp only [List.cons_append, List.mem_cons]; exact Or.inr hx)
    have haddr' : (l.addr = none → ∀ l' ∈ ls ++ [last], l'.addr = none) ∧ AddrOk (ls ++ [last]) := haddr
    have e : render (l :: ls) last = l.render ++ (10 :: render ls last) := rfl
    rw [e, parse1_line_start l _ hl (by
      intro ha c hc
      rcases List.mem_append.mp hc with hc | hc
      · exact line_no_colon l hl ha c hc
      · rcases List.mem_cons.mp hc with hc | hc
        · rw [hc]; decide
        · exact render_no_colon ls last (fun x hx => ⟨hrest x hx, haddr'.1 ha x hx⟩) c hc)]
    have hv : values (l :: ls) last = l.items.map Item.value ++ values ls last := by
      simp [values, List.flatMap_cons]
    rw [hv]
    refine yields_items _ _ _ hl.2.1 ?_
    rw [parse1_blanks _ _ hl.2.2, parse1_newline]
    exact ih last hrest haddr'.2

/-- **Accepted syntax.**  A text made of lines, each an optional `address:` prefix (any bytes but colon and
    NUL), then pairs of hex digits of either case, each pair preceded by arbitrary blanks and an optional
    `0x`, then trailing blanks; lines are separated by newlines, the last line may or may not end in one.
    If the address prefix is on every line — more generally: once a line has none, no later line has one
    (`AddrOk`) — then, for every number of calls, `hex_get_byte(text, &p)`, `hex_get_byte(NULL, &p)`, …
    return exactly the values of the pairs and then -1 for ever. -/
theorem accepted_syntax (ls : List Line) (last : Line) (hwf : ∀ l ∈ ls ++ [last], l.WF) (haddr : AddrOk (ls ++ [last])) :
    ∀ n, (trace false n (render ls last)).map retOf
      = ((values ls last).map some ++ List.replicate n (some (-1))).take n :=
  yields_trace (yields_render ls last hwf haddr)

theorem addrOk_of_all_some : ∀ (ls : List Line), (∀ l ∈ ls, l.addr ≠ none) → AddrOk ls := by
  intro ls
  induction ls with
  | nil => intro _; trivial
  | cons l ls ih =>
    intro h
    exact ⟨fun ha => absurd ha (h l List.mem_cons_self), ih (fun x hx => h x (List.mem_cons_of_mem _ hx))⟩

theorem addrOk_of_all_none : ∀ (ls : List Line), (∀ l ∈ ls, l.addr = none) → AddrOk ls := by
  intro ls
  induction ls with
  | nil => intro _; trivial
  | cons l ls ih =>
    intro h
    exact ⟨fun _ x hx => h x (List.mem_cons_of_mem _ hx), ih (fun x hx => h x (List.mem_cons_of_mem _ hx))⟩

/-- the property's wording: an `address:` prefix on **each** line -/
theorem accepted_syntax_address_on_each_line (ls : List Line) (last : Line) (hwf : ∀ l ∈ ls ++ [last], l.WF)
    (h : ∀ l ∈ ls ++ [last], l.addr ≠ none) :
    ∀ n, (trace false n (render ls last)).map retOf
      = ((values ls last).map some ++ List.replicate n (some (-1))).take n :=
  accepted_syntax ls last hwf (addrOk_of_all_some _ h)

/-- … and no address anywhere -/
theorem accepted_syntax_no_address (ls : List Line) (last : Line) (hwf : ∀ l ∈ ls ++ [last], l.WF)
    (h : ∀ l ∈ ls ++ [last], l.addr = none) :
    ∀ n, (trace false n (render ls last)).map retOf
      = ((values ls last).map some ++ List.replicate n (some (-1))).take n :=
  accepted_syntax ls last hwf (addrOk_of_all_none _ h)

/-- non-vacuity: `"0000: 0x01 02\n0010:\t0A ff \n"` — two addressed lines, a `0x`, both cases, blanks, a tab -/
def exLines : List Line :=
  [⟨some [48, 48, 48, 48], [⟨[32], true, 48, 49⟩, ⟨[32], false, 48, 50⟩], []⟩,
   ⟨some [48, 48, 49, 48], [⟨[9], false, 48, 65⟩, ⟨[32], false, 102, 102⟩], [32]⟩]
def exLast : Line := ⟨some [], [], []⟩

example : render exLines exLast =
    [48,48,48,48,58,32,48,120,48,49,32,48,50,10, 48,48,49,48,58,9,48,65,32,102,102,32,10, 58] ∧
    values exLines exLast = [1, 2, 10, 255] := by decide +kernel
example : (∀ l ∈ exLines ++ [exLast], l.WF) ∧ (∀ l ∈ exLines ++ [exLast], l.addr ≠ none) := by
  simp [exLines, exLast, Line.WF, Item.WF]
  decide

/-! ## dump_parse_roundtrip

The dump of a byte array is a text of the accepted syntax: one line per row of 16 bytes, no address, no
blanks, no `0x`, lower case.  The induction over the 16-byte rows is `render_rows`/`values_rows`. -/

def itemOf (b : UInt8) : Item := ⟨[], false, hexDigit (b.toNat / 16), hexDigit (b.toNat % 16)⟩
def lineOf (chunk : List UInt8) : Line := ⟨none, chunk.map itemOf, []⟩
def emptyLine : Line := ⟨none, [], []⟩

/-- both digits written for a byte are hex digits and denote the byte -/
theorem digits_of_byte : ∀ b : UInt8, isHex (hexDigit (b.toNat / 16)) = true ∧ isHex (hexDigit (b.toNat % 16)) = true ∧
    16 * hexVal (hexDigit (b.toNat / 16)) + hexVal (hexDigit (b.toNat % 16)) = b.toNat :=
  forall_u8 (fun b => isHex (hexDigit (b.toNat / 16)) = true ∧ isHex (hexDigit (b.toNat % 16)) = true ∧
    16 * hexVal (hexDigit (b.toNat / 16)) + hexVal (hexDigit (b.toNat % 16)) = b.toNat) (by decide +kernel)

theorem itemOf_value (b : UInt8) : (itemOf b).value = (b.toNat : Int) := by
  unfold Item.value itemOf
  dsimp only
  rw [(digits_of_byte b).2.2]

theorem lineOf_render : ∀ chunk : List UInt8, (lineOf chunk).render = chunk.flatMap pairOf := by
  intro chunk
  induction chunk with
  | nil => rfl
  | cons b bs ih =>
    have h : (lineOf (b :: bs)).render = pairOf b ++ (lineOf bs).render := by
      simp [lineOf, Line.render, Line.header, itemsText, itemOf, Item.render, pairOf]
    rw [h, ih]; rfl

theorem render_rows : ∀ cs : List (List UInt8), render (cs.map lineOf) emptyLine = cs.flatMap row := by
  intro cs
  induction cs with
  | nil => rfl
  | cons c cs ih =>
    rw [List.map_cons, render, ih, lineOf_render, List.flatMap_cons, row, List.append_assoc]
    rfl

theorem values_rows : ∀ cs : List (List UInt8),
    values (cs.map lineOf) emptyLine = cs.flatten.map fun b => (b.toNat : Int) := by
  intro cs
  induction cs with
  | nil => rfl
  | cons c cs ih =>
    have h : values ((c :: cs).map lineOf) emptyLine = (lineOf c).items.map Item.value ++ values (cs.map lineOf) emptyLine := by
      simp [values, List.flatMap_cons]
    rw [h, ih, List.flatten_cons, List.map_append]
    congr 1
    simp only [lineOf, List.map_map]
    apply List.map_congr_left
    intro b _
    exact itemOf_value b

theorem rows_wf (cs : List (List UInt8)) : ∀ l ∈ cs.map lineOf ++ [emptyLine], l.WF ∧ l.addr = none := by
  intro l hl
  rcases List.mem_append.mp hl with h | h
  · obtain ⟨c, _, e⟩ := List.mem_map.mp h
    subst e
    refine ⟨?_, rfl⟩
    unfold Line.WF
    refine ⟨?_, ?_, ?_⟩
    · intro a ha; simp [lineOf] at ha
    · intro it hit
      obtain ⟨b, _, e⟩ := List.mem_map.mp hit
      subst e
      unfold Item.WF
      refine ⟨?_, (digits_of_byte b).1, (digits_of_byte b).2.1⟩
      intro c hc; simp [itemOf] at hc
    · intro c hc; simp [lineOf] at hc
  · rw [List.mem_singleton.mp h]
    refine ⟨?_, rfl⟩
    unfold Line.WF
    refine ⟨?_, ?_, ?_⟩
    · intro a ha; simp [emptyLine] at ha
    · intro it hit; simp [emptyLine] at hit
    · intro c hc; simp [emptyLine] at hc

/-- **Round trip.**  For every byte array `bs` (any length, all byte values) `hex_dump_to_file` writes a text on
    which, for every number of calls `n`, `hex_get_byte(text, &p)`, `hex_get_byte(NULL, &p)`, … return exactly the
    bytes of `bs` in order and then -1 for ever. -/
theorem dump_parse_roundtrip (bs : List UInt8) :
    ∃ text, dump bs = some text ∧
      ∀ n, (trace false n text).map retOf
        = ((bs.map fun (b : UInt8) => some (b.toNat : Int)) ++ List.replicate n (some (-1))).take n := by
  refine ⟨format bs, dump_format bs, ?_⟩
  intro n
  have e : format bs = render ((chunks bs).map lineOf) emptyLine := (render_rows (chunks bs)).symm
  rw [e, accepted_syntax_no_address _ _ (fun l hl => (rows_wf _ l hl).1) (fun l hl => (rows_wf _ l hl).2) n,
    values_rows, chunks_flatten bs.length bs (Nat.le_refl _), List.map_map]
  rfl

/-- non-vacuity: 17 bytes (two rows) incl. 0x0a, 0x3a (`:`), 0x78 (`x`) and 0xff come back, then -1 -/
example : (match dump [0x0a, 0x3a, 0x78, 0xff, 0, 1, 2, 3, 4, 5, 6, 7, 8, 9, 10, 11, 0xa0] with
    | some text => (trace false 19 text).map retOf
    | none => []) =
    [some 10, some 58, some 120, some 255, some 0, some 1, some 2, some 3, some 4, some 5, some 6, some 7, some 8,
     some 9, some 10, some 11, some 160, some (-1), some (-1)] := by decide +kernel

/-! ## the calling style of tests/hextest.c

`hex_get_byte(p, &p)` passes a non-NULL first argument on every call, so every call starts with the colon
search.  On a text without any colon that changes nothing. -/

theorem yields_again_of_no_colon : ∀ (vs : List Int) (nl : Bool) (s : Str), (∀ c ∈ s, c ≠ 58) →
    Yields false (parse1 nl s) vs → Yields true (parse1 nl s) vs := by
  intro vs
  induction vs with
  | nil =>
    intro nl s _ h
    generalize parse1 nl s = o at h
    cases h
    exact .done
  | cons v vs ih =>
    intro nl s hs h
    rcases parse1_good _ nl s (Nat.le_refl _) with e | ⟨v1, p1, e, _, _, _, suf⟩
    · rw [e] at h; cases h
    · rw [e] at h ⊢
      cases h with
      | byte _ _ _ h' =>
        have hp : ∀ c ∈ p1, c ≠ 58 := fun c hc => hs c (suf.subset hc)
        refine .byte _ _ _ ?_
        rw [nextCall_byte] at h' ⊢
        rw [parse1_true p1 p1 (skipColon_none p1 hp)]
        exact ih false p1 hp h'

/-- the accepted syntax without addresses, parsed in the style of hextest.c -/
theorem accepted_syntax_no_address_hextest_style (ls : List Line) (last : Line) (hwf : ∀ l ∈ ls ++ [last], l.WF)
    (h : ∀ l ∈ ls ++ [last], l.addr = none) :
    ∀ n, (trace true n (render ls last)).map retOf
      = ((values ls last).map some ++ List.replicate n (some (-1))).take n :=
  yields_trace (yields_again_of_no_colon _ true _
    (render_no_colon ls last (fun l hl => ⟨hwf l hl, h l hl⟩))
    (yields_render ls last hwf (addrOk_of_all_none _ h)))

/-- the round trip in the style of hextest.c -/
theorem dump_parse_roundtrip_hextest_style (bs : List UInt8) :
    ∃ text, dump bs = some text ∧
      ∀ n, (trace true n text).map retOf
        = ((bs.map fun (b : UInt8) => some (b.toNat : Int)) ++ List.replicate n (some (-1))).take n := by
  refine ⟨format bs, dump_format bs, ?_⟩
  intro n
  have e : format bs = render ((chunks bs).map lineOf) emptyLine := (render_rows (chunks bs)).symm
  rw [e, accepted_syntax_no_address_hextest_style _ _ (fun l hl => (rows_wf _ l hl).1) (fun l hl => (rows_wf _ l hl).2) n,
    values_rows, chunks_flatten bs.length bs (Nat.le_refl _), List.map_map]
  rfl

end Librfn.C18

import Librfn.Model.Hex
/-!
# C18 — hex dump output parses back to the same bytes; the parser is safe on any text
-/
namespace Librfn.C18
open Librfn.Model.Hex

/-- on the characters `isxdigit` accepts, `nibble` is the digit's value (so `byteVal` loses nothing) -/
theorem nibble_xdigit_nat : ∀ n : Nat, n < 256 → isXDigit (UInt8.ofNat n) = true →
    0 ≤ nibble (UInt8.ofNat n) ∧ nibble (UInt8.ofNat n) < 16 := by decide +kernel

end Librfn.C18

import Librfn.Model.Hex
import Librfn.Spec.Hex
import Librfn.Lemmas.Hex
/-!
# C18 — hex dump output parses back to the same bytes; the parser is safe on any text

Model: `Librfn.Model.Hex` (hand transcription of `hex.c`: a C string is a byte list with an explicit NUL,
every read `rd` and every pointer step `adv` is checked and yields the outcome `.oob` when it leaves the
string; the `goto` structure of `hex_get_byte` is a recursion on the rest of the string).
Spec: `Librfn.Spec.Hex` (the dump format and the accepted syntax, written from the property text).

All theorems quantify over **every** byte array / byte string of any length and over any number of calls.
Kernel-only (no `bv_decide`); facts about single characters are decided by enumerating the 256 bytes.
-/
namespace Librfn.C18
open Librfn.Model.Hex
open Librfn.Lemmas.Hex

/-! ## repeated calls -/

/-- the calls starting with outcome `o` return `vs` and then -1 for ever (`again`: calling style, see
    `Model.Hex.nextCall`) -/
inductive Yields (again : Bool) : Out → List Int → Prop
  | done : Yields again .done []
  | byte (v : Int) (p : Str) (vs : List Int) :
      Yields again (nextCall again (.byte v p)) vs → Yields again (.byte v p) (v :: vs)

theorem nextCall_byte (again : Bool) (v : Int) (p : Str) : nextCall again (.byte v p) = parse1 again p := by
  cases again <;> rfl

theorem nextCall_done (again : Bool) : nextCall again .done = .done := by
  cases again <;> rfl

theorem traceFrom_done (again : Bool) : ∀ n, traceFrom again n .done = List.replicate n .done := by
  intro n
  induction n with
  | zero => rfl
  | succ n ih => rw [traceFrom, nextCall_done, ih]; rfl

theorem take_append_replicate {α : Type} (x : α) : ∀ (l : List α) (n m : Nat), n ≤ m →
    (l ++ List.replicate m x).take n = (l ++ List.replicate n x).take n := by
  intro l
  induction l with
  | nil => intro n m h; simp [List.take_replicate, Nat.min_eq_left h]
  | cons a l ih =>
    intro n m h
    cases n with
    | zero => rfl
    | succ n =>
      simp only [List.cons_append, List.take_succ_cons]
      rw [ih n m (by omega), ih n (n + 1) (by omega)]

/-- what `Yields` means for the observable sequence of return values: for **every** number of calls `n`
    the first `n` results are the first `n` elements of `vs` followed by -1, -1, … -/
theorem yields_trace {again : Bool} {o : Out} {vs : List Int} (h : Yields again o vs) :
    ∀ n, (traceFrom again n o).map retOf = (vs.map some ++ List.replicate n (some (-1))).take n := by
  induction h with
  | done => intro n; rw [traceFrom_done]; simp [retOf]
  | byte v p vs _ ih =>
    intro n
    cases n with
    | zero => rfl
    | succ n =>
      rw [traceFrom, List.map_cons, ih n]
      simp only [retOf, List.map_cons, List.cons_append, List.take_succ_cons]
      rw [take_append_replicate _ _ n (n + 1) (by omega)]

/-! ## parser_safe -/

theorem yields_of_any (again : Bool) : ∀ (n : Nat) (nl : Bool) (s : Str), s.length ≤ n →
    ∃ vs : List Int, Yields again (parse1 nl s) vs ∧ 2 * vs.length ≤ s.length ∧ ∀ v ∈ vs, 0 ≤ v ∧ v ≤ 255 := by
  intro n
  induction n with
  | zero =>
    intro nl s h
    rcases parse1_good _ nl s (Nat.le_refl _) with e | ⟨v, p, _, _, _, hl, _⟩
    · exact ⟨[], by rw [e]; exact .done, by simp, by simp⟩
    · omega
  | succ n ih =>
    intro nl s h
    rcases parse1_good _ nl s (Nat.le_refl _) with e | ⟨v, p, e, h0, h1, hl, _⟩
    · exact ⟨[], by rw [e]; exact .done, by simp, by simp⟩
    · obtain ⟨vs, y, hlen, hr⟩ := ih again p (by omega)
      refine ⟨v :: vs, ?_, ?_, ?_⟩
      · rw [e]; exact .byte v p vs (by rw [nextCall_byte]; exact y)
      · simp only [List.length_cons]; omega
      · intro x hx
        cases hx with
        | head => exact ⟨h0, h1⟩
        | tail _ hx => exact hr x hx

/-- **For every string (any bytes, any length) and both calling styles**: there is a finite list `vs` of at
    most `len/2` values, each in 0…255, such that for every number of calls `n` the results are `vs` followed
    by -1 for ever.  Every entry is a genuine `int` result (`retOf` is `none` for the outcomes `.oob` = "read
    or pointer step beyond the NUL" and `.nofuel`), so no call leaves the string, -1 is reached after at most
    `len/2` byte results and is sticky. -/
theorem parser_safe (again : Bool) (text : Str) :
    ∃ vs : List Int, 2 * vs.length ≤ text.length ∧ (∀ v ∈ vs, 0 ≤ v ∧ v ≤ 255) ∧
      ∀ n, (trace again n text).map retOf = (vs.map some ++ List.replicate n (some (-1))).take n := by
  obtain ⟨vs, y, hl, hr⟩ := yields_of_any again text.length true text (Nat.le_refl _)
  exact ⟨vs, hl, hr, yields_trace y⟩

/-- no call ever ends in the outcome "access beyond the NUL" (nor exhausts the model's recursion budget) -/
theorem parser_no_fault (again : Bool) (text : Str) (n : Nat) :
    ∀ o ∈ trace again n text, o ≠ .oob ∧ o ≠ .nofuel := by
  intro o ho
  obtain ⟨vs, _, _, h⟩ := parser_safe again text
  have hm : retOf o ∈ (trace again n text).map retOf := List.mem_map_of_mem ho
  rw [h n] at hm
  have hm := List.mem_of_mem_take hm
  have : ∃ v, retOf o = some v := by
    rcases List.mem_append.mp hm with h1 | h1
    · obtain ⟨v, _, e⟩ := List.mem_map.mp h1; exact ⟨v, e.symm⟩
    · exact ⟨-1, (List.eq_of_mem_replicate h1)⟩
  obtain ⟨v, e⟩ := this
  constructor <;> (intro e'; rw [e'] at e; cases e)

/-- `*p` always stays inside the string: it is a suffix of the text (possibly the empty one, i.e. the NUL) -/
theorem ptr_within (again : Bool) (text : Str) : ∀ (n : Nat) (nl : Bool) (s : Str), s <:+ text →
    ∀ o ∈ traceFrom again n (parse1 nl s), ∀ v p, o = .byte v p → p <:+ text := by
  intro n
  induction n with
  | zero => intro nl s _ o ho; cases ho
  | succ n ih =>
    intro nl s hs o ho v p e
    rw [traceFrom] at ho
    rcases parse1_good _ nl s (Nat.le_refl _) with e1 | ⟨v1, p1, e1, _, _, _, suf⟩
    · rw [e1, nextCall_done, traceFrom_done] at ho
      cases ho with
      | head => cases e
      | tail _ h => rw [List.eq_of_mem_replicate h] at e; cases e
    · rw [e1, nextCall_byte] at ho
      cases ho with
      | head => cases e; exact suf.trans hs
      | tail _ h => exact ih again p1 (suf.trans hs) o h v p e

theorem parser_ptr_within (again : Bool) (text : Str) (n : Nat) :
    ∀ o ∈ trace again n text, ∀ v p, o = .byte v p → p <:+ text :=
  ptr_within again text n true text (List.suffix_refl _)

/-- non-vacuity: a string with a `0x` prefix, junk, a second line and a lone digit at the very end -/
example : (trace false 6 [48, 120, 49, 50, 32, 122, 122, 10, 65, 98, 51]).map retOf
    = [some 18, some 171, some (-1), some (-1), some (-1), some (-1)] := by decide +kernel

/-- on the characters `isxdigit` accepts, `nibble` is the digit's value (so `byteVal` loses nothing) -/
theorem nibble_xdigit_nat (c : UInt8) (h : isXDigit c = true) : ∃ n : Nat, n < 16 ∧ nibble c = (n : Int) :=
  nibble_xdigit c h

end Librfn.C18

import Librfn.Model.Messageq
import Librfn.Spec.MessageqFifo
namespace Librfn.C10
open Librfn.Model.Messageq

theorem init_eq_static (base baseLen msgLen : Nat) : init base baseLen msgLen = staticInit base baseLen msgLen := by
  unfold init staticInit
  split <;> rfl

end Librfn.C10

import Librfn.Model.Messageq
import Librfn.Spec.MessageqFifo
import Librfn.Lemmas.Messageq
/-!
# C10 — the message queue is a bounded FIFO of fixed buffers for every geometry

Model: `Librfn.Model.Messageq` (hand transcription of `messageq.c` / `messageq.h` with the C widths).
Spec: `Librfn.Spec.MessageqFifo` (tickets numbered in grant order, a window `released … claimed-1`).
`Rel` is the simulation relation; `history_refines` lifts it over every API-permitted operation list by
induction — no bound on the length, every depth 1…32, every message size 1…65535 (the `uint16_t` field),
every slack.  Kernel-only (no `bv_decide`).
-/
namespace Librfn.C10
open Librfn.Model.Messageq Librfn.Lemmas.Messageq
open Librfn.Spec.MessageqFifo (Fifo offsetOf headSent permitted Permitted)

/-- simulation relation between the C-level state and the ticket window -/
structure Rel (s : St) (f : Fifo) : Prop where
  qlen : s.qlen.toNat = f.qlen
  msgLen : s.msgLen.toNat = f.msgLen
  qpos : 1 ≤ f.qlen
  q32 : f.qlen ≤ 32
  mpos : 1 ≤ f.msgLen
  order1 : f.released ≤ f.received
  order2 : f.received ≤ f.claimed
  bound : f.claimed ≤ f.released + f.qlen
  free : s.numFree.toNat + (f.claimed - f.released) = f.qlen
  sendp : s.sendp.toNat = f.claimed % f.qlen
  receivep : s.receivep.toNat = f.received % f.qlen
  flags : ∀ i, s.flags.getLsbD i = true ↔
    ∃ k, f.received ≤ k ∧ k < f.claimed ∧ f.sent k = true ∧ k % f.qlen = i
  sentlt : ∀ k, f.sent k = true → k < f.claimed

/-- the C-level operation a caller performs for an abstract one: `send k` passes the pointer claim returned for ticket `k` -/
def concOp (qlen msgLen : Nat) : Librfn.Spec.MessageqFifo.Op → Op
  | .claim => .claim
  | .send k => .send ((k % qlen) * msgLen)
  | .receive => .receive
  | .release => .release
  | .empty => .empty

theorem recv_lt (s : St) (f : Fifo) (h : Rel s f) : s.receivep.toNat < 32 := by
  have := Nat.mod_lt f.received h.qpos
  have := h.receivep; have := h.q32; omega

/-- the flag at `receivep` is set exactly when the oldest unreceived ticket exists and has been sent -/
theorem head_flag (s : St) (f : Fifo) (h : Rel s f) :
    s.flags.getLsbD s.receivep.toNat = true ↔ (f.received < f.claimed ∧ f.sent f.received = true) := by
  rw [h.flags, h.receivep]
  constructor
  · rintro ⟨k, h1, h2, h3, h4⟩
    have hb := h.bound; have ho := h.order1
    have : k = f.received := (window_inj f.qlen f.received k h1 (by omega) h4.symm).symm
    subst this; exact ⟨h2, h3⟩
  · rintro ⟨h1, h2⟩; exact ⟨f.received, Nat.le_refl _, h1, h2, rfl⟩

theorem head_test (s : St) (f : Fifo) (h : Rel s f) :
    (s.flags &&& bit s.receivep.toNat = 0) ↔ headSent f = false := by
  rw [and_bit_eq_zero _ _ (recv_lt s f h)]
  have hf := head_flag s f h
  unfold headSent
  cases hs : f.sent f.received <;> by_cases hc : f.received < f.claimed <;> simp [hs, hc] at hf ⊢ <;> simpa using hf

/-! ### one operation -/

theorem claim_refines (s : St) (f : Fifo) (h : Rel s f) :
    (step s .claim).2 = (Librfn.Spec.MessageqFifo.step f .claim).2 ∧
    Rel (step s .claim).1 (Librfn.Spec.MessageqFifo.step f .claim).1 := by
  have hfree := h.free; have hb := h.bound; have ho1 := h.order1; have ho2 := h.order2; have hq32 := h.q32
  simp only [step, claim, Librfn.Spec.MessageqFifo.step]
  by_cases hfull : f.claimed - f.released = f.qlen
  · have h0 : s.numFree = 0 := BitVec.eq_of_toNat_eq (by show s.numFree.toNat = 0; omega)
    simp only [hfull, if_true, h0]
    exact ⟨by first | rfl | trivial, h⟩
  · have h0 : 1 ≤ s.numFree.toNat := by omega
    have hne : s.numFree ≠ 0 := by intro e; rw [e] at h0; exact absurd h0 (by decide)
    simp only [hfull, if_false, hne]
    refine ⟨?_, ?_⟩
    · simp only [offsetOfSlot, offsetOf, h.sendp, h.msgLen]
    · refine { h with order2 := ?_, bound := ?_, free := ?_, sendp := ?_, flags := ?_, sentlt := ?_ }
      · show f.received ≤ f.claimed + 1; omega
      · show f.claimed + 1 ≤ f.released + f.qlen; omega
      · show (s.numFree - 1).toNat + (f.claimed + 1 - f.released) = f.qlen
        rw [toNat_sub_one _ h0]; omega
      · show (nextSend s.qlen s.sendp).toNat = (f.claimed + 1) % f.qlen
        rw [← h.qlen]; exact nextSend_toNat _ _ _ (by rw [h.qlen]; exact h.qpos) (by rw [h.qlen]; exact h.sendp)
      · intro i
        show s.flags.getLsbD i = true ↔ ∃ k, f.received ≤ k ∧ k < f.claimed + 1 ∧ f.sent k = true ∧ k % f.qlen = i
        rw [h.flags]
        constructor
        · rintro ⟨k, a, b, c, d⟩; exact ⟨k, a, by omega, c, d⟩
        · rintro ⟨k, a, _, c, d⟩; exact ⟨k, a, h.sentlt k c, c, d⟩
      · intro k hk
        show k < f.claimed + 1
        have := h.sentlt k hk; omega

theorem send_refines (s : St) (f : Fifo) (h : Rel s f) (k : Nat) (hp : permitted f (.send k)) :
    (step s (.send ((k % f.qlen) * f.msgLen))).2 = (Librfn.Spec.MessageqFifo.step f (.send k)).2 ∧
    Rel (step s (.send ((k % f.qlen) * f.msgLen))).1 (Librfn.Spec.MessageqFifo.step f (.send k)).1 := by
  obtain ⟨hk1, hk2, hk3⟩ := hp
  have hlt : k % f.qlen < f.qlen := Nat.mod_lt _ h.qpos
  have hq32 := h.q32
  have hm : 1 ≤ s.msgLen.toNat := by rw [h.msgLen]; exact h.mpos
  have hslot : slotOfOffset s.msgLen ((k % f.qlen) * f.msgLen) = k % f.qlen := by
    rw [← h.msgLen]; exact slot_of_offset_nat _ _ (by omega) hm
  have hsend : send s ((k % f.qlen) * f.msgLen) = some { s with flags := s.flags ||| bit (k % f.qlen) } := by
    unfold send
    rw [if_neg (by omega), hslot, if_neg (by omega)]
  simp only [step, hsend, Librfn.Spec.MessageqFifo.step]
  refine ⟨by first | rfl | trivial, ?_⟩
  refine { h with flags := ?_, sentlt := ?_ }
  · intro i
    show (s.flags ||| bit (k % f.qlen)).getLsbD i = true ↔
      ∃ k', f.received ≤ k' ∧ k' < f.claimed ∧ (if k' = k then true else f.sent k') = true ∧ k' % f.qlen = i
    rw [getLsbD_or_bit _ _ _ (by omega), Bool.or_eq_true, h.flags, decide_eq_true_eq]
    constructor
    · rintro (⟨k', a, b, c, d⟩ | e)
      · exact ⟨k', a, b, by simp [c], d⟩
      · exact ⟨k, hk1, hk2, by simp, e⟩
    · rintro ⟨k', a, b, c, d⟩
      by_cases e : k' = k
      · subst e; exact Or.inr d
      · rw [if_neg e] at c; exact Or.inl ⟨k', a, b, c, d⟩
  · intro k' hk'
    show k' < f.claimed
    change (if k' = k then true else f.sent k') = true at hk'
    by_cases e : k' = k
    · subst e; exact hk2
    · rw [if_neg e] at hk'; exact h.sentlt k' hk'

theorem receive_eq (s : St) (f : Fifo) (h : Rel s f) :
    receive s = some (if headSent f then
        ({ s with flags := s.flags &&& ~~~ bit s.receivep.toNat, receivep := nextRecv s.qlen s.receivep },
          some (offsetOf f f.received))
      else ({ s with flags := s.flags &&& ~~~ bit s.receivep.toNat }, none)) := by
  unfold receive
  rw [if_neg (by have := recv_lt s f h; omega)]
  have ht := head_test s f h
  cases hs : headSent f
  · rw [if_pos (ht.mpr hs)]; simp
  · rw [if_neg (by intro e; rw [ht.mp e] at hs; exact Bool.noConfusion hs)]
    simp only [if_true, offsetOfSlot, offsetOf, h.receivep, h.msgLen]

theorem receive_refines (s : St) (f : Fifo) (h : Rel s f) :
    (step s .receive).2 = (Librfn.Spec.MessageqFifo.step f .receive).2 ∧
    Rel (step s .receive).1 (Librfn.Spec.MessageqFifo.step f .receive).1 := by
  have hb := h.bound; have ho1 := h.order1; have ho2 := h.order2
  simp only [step, receive_eq s f h, Librfn.Spec.MessageqFifo.step]
  cases hs : headSent f
  · -- nothing to receive: the flag was clear, clearing it changes nothing
    simp only [Bool.false_eq_true, if_false]
    refine ⟨by first | rfl | trivial, ?_⟩
    have hclear : s.flags.getLsbD s.receivep.toNat = false := by
      have := (head_test s f h).mpr hs
      exact (and_bit_eq_zero _ _ (recv_lt s f h)).mp this
    refine { h with flags := ?_ }
    intro i
    show (s.flags &&& ~~~ bit s.receivep.toNat).getLsbD i = true ↔ _
    rw [getLsbD_clear_bit, ← h.flags]
    by_cases e : s.receivep.toNat = i
    · rw [← e, hclear]; simp
    · rw [decide_eq_false e]; simp
  · simp only [if_true]
    refine ⟨by first | rfl | trivial, ?_⟩
    have hhead : f.received < f.claimed ∧ f.sent f.received = true := by
      unfold headSent at hs; simpa using hs
    refine { h with order1 := ?_, order2 := ?_, receivep := ?_, flags := ?_ }
    · show f.released ≤ f.received + 1; omega
    · show f.received + 1 ≤ f.claimed; omega
    · dsimp only
      rw [← h.qlen]; exact nextRecv_toNat _ _ _ (by rw [h.qlen]; exact h.qpos) (by rw [h.qlen]; exact h.receivep)
    · intro i
      show (s.flags &&& ~~~ bit s.receivep.toNat).getLsbD i = true ↔
        ∃ k, f.received + 1 ≤ k ∧ k < f.claimed ∧ f.sent k = true ∧ k % f.qlen = i
      rw [getLsbD_clear_bit, Bool.and_eq_true, h.flags, h.receivep]
      constructor
      · rintro ⟨⟨k, a, b, c, d⟩, e⟩
        refine ⟨k, ?_, b, c, d⟩
        have : k ≠ f.received := by
          intro e'; subst e'; simp [d] at e
        omega
      · rintro ⟨k, a, b, c, d⟩
        refine ⟨⟨k, by omega, b, c, d⟩, ?_⟩
        have : f.received % f.qlen ≠ i := by
          intro e'
          have := window_inj f.qlen f.received k (by omega) (by omega) (by rw [e', d])
          omega
        simp [this]

theorem release_refines (s : St) (f : Fifo) (h : Rel s f) (hp : permitted f .release) :
    (step s .release).2 = (Librfn.Spec.MessageqFifo.step f .release).2 ∧
    Rel (step s .release).1 (Librfn.Spec.MessageqFifo.step f .release).1 := by
  have hp' : f.released < f.received := hp
  have hb := h.bound; have ho2 := h.order2; have hfree := h.free; have hq32 := h.q32
  simp only [step, release, Librfn.Spec.MessageqFifo.step]
  refine ⟨by first | rfl | trivial, ?_⟩
  refine { h with order1 := ?_, bound := ?_, free := ?_ }
  · show f.released + 1 ≤ f.received; omega
  · show f.claimed ≤ f.released + 1 + f.qlen; omega
  · show (s.numFree + 1).toNat + (f.claimed - (f.released + 1)) = f.qlen
    rw [toNat_add_one _ (by omega)]; omega

theorem empty_eq (s : St) (f : Fifo) (h : Rel s f) : empty s = some (!headSent f) := by
  unfold empty
  rw [if_neg (by have := recv_lt s f h; omega)]
  have ht := head_test s f h
  cases hs : headSent f
  · rw [decide_eq_true (ht.mpr hs)]; rfl
  · have : ¬ (s.flags &&& bit s.receivep.toNat = 0) := by
      intro e; rw [ht.mp e] at hs; exact Bool.noConfusion hs
    rw [decide_eq_false this]; rfl

theorem empty_refines (s : St) (f : Fifo) (h : Rel s f) :
    (step s .empty).2 = (Librfn.Spec.MessageqFifo.step f .empty).2 ∧
    Rel (step s .empty).1 (Librfn.Spec.MessageqFifo.step f .empty).1 := by
  simp only [step, empty_eq s f h, Librfn.Spec.MessageqFifo.step]
  exact ⟨by first | rfl | trivial, h⟩

theorem step_refines (s : St) (f : Fifo) (h : Rel s f) (op : Librfn.Spec.MessageqFifo.Op) (hp : permitted f op) :
    (step s (concOp f.qlen f.msgLen op)).2 = (Librfn.Spec.MessageqFifo.step f op).2 ∧
    Rel (step s (concOp f.qlen f.msgLen op)).1 (Librfn.Spec.MessageqFifo.step f op).1 := by
  cases op with
  | claim => exact claim_refines s f h
  | send k => exact send_refines s f h k hp
  | receive => exact receive_refines s f h
  | release => exact release_refines s f h hp
  | empty => exact empty_refines s f h



/-! ### histories -/

theorem step_geometry (f : Fifo) (op : Librfn.Spec.MessageqFifo.Op) :
    (Librfn.Spec.MessageqFifo.step f op).1.qlen = f.qlen ∧ (Librfn.Spec.MessageqFifo.step f op).1.msgLen = f.msgLen := by
  cases op <;> simp only [Librfn.Spec.MessageqFifo.step] <;> (try split) <;> simp

/-- **every API-permitted sequential history, of any length, on every geometry related by `Rel`**: the C-level
    model returns exactly what the ticket-window FIFO returns (pointers, NULLs, `messageq_empty`) -/
theorem history_refines (ops : List Librfn.Spec.MessageqFifo.Op) (s : St) (f : Fifo) (h : Rel s f)
    (hp : Permitted f ops) :
    run s (ops.map (concOp f.qlen f.msgLen)) = Librfn.Spec.MessageqFifo.run f ops := by
  induction ops generalizing s f with
  | nil => rfl
  | cons op ops ih =>
    obtain ⟨hp1, hp2⟩ := hp
    obtain ⟨ho, hr⟩ := step_refines s f h op hp1
    obtain ⟨g1, g2⟩ := step_geometry f op
    simp only [List.map_cons, run, Librfn.Spec.MessageqFifo.run]
    rw [ho]
    have := ih _ _ hr hp2
    rw [g1, g2] at this
    rw [this]

/-- the in-scope geometries: depth 1…32, message size 1…65535, slack smaller than one message -/
structure Geometry (depth msgLen slack : Nat) : Prop where
  d1 : 1 ≤ depth
  d32 : depth ≤ 32
  m1 : 1 ≤ msgLen
  m16 : msgLen < 65536
  slack : slack < msgLen

theorem geometry_div (depth msgLen slack : Nat) (g : Geometry depth msgLen slack) :
    (depth * msgLen + slack) / msgLen = depth := by
  have hm := g.m1
  rw [Nat.mul_comm, Nat.mul_add_div (by omega), Nat.div_eq_of_lt g.slack]; rfl

/-- `messageq_init(mq, base, depth*msgLen + slack, msgLen)` yields the empty queue of `depth` buffers -/
theorem init_rel (base depth msgLen slack : Nat) (g : Geometry depth msgLen slack) :
    ∃ s, init base (depth * msgLen + slack) msgLen = some s ∧ Rel s { qlen := depth, msgLen := msgLen } := by
  have hd := geometry_div depth msgLen slack g
  have hq : (BitVec.ofNat 8 depth).toNat = depth := by
    rw [BitVec.toNat_ofNat]; exact Nat.mod_eq_of_lt (by have := g.d32; omega)
  have hm : (BitVec.ofNat 16 msgLen).toNat = msgLen := by
    rw [BitVec.toNat_ofNat]; exact Nat.mod_eq_of_lt g.m16
  refine ⟨_, by unfold init; rw [if_neg (by have := g.m1; omega), hd], ?_⟩
  exact {
    qlen := hq, msgLen := hm, qpos := g.d1, q32 := g.d32, mpos := g.m1
    order1 := Nat.le_refl _, order2 := Nat.le_refl _, bound := by show 0 ≤ 0 + depth; omega
    free := by show (BitVec.ofNat 8 depth).toNat + (0 - 0) = depth; rw [hq]; rfl
    sendp := by show (0 : BitVec 8).toNat = 0 % depth; rw [Nat.zero_mod]; rfl
    receivep := by show (0 : BitVec 8).toNat = 0 % depth; rw [Nat.zero_mod]; rfl
    flags := by
      intro i
      show (0 : BitVec 32).getLsbD i = true ↔ ∃ k, 0 ≤ k ∧ k < 0 ∧ false = true ∧ k % depth = i
      constructor
      · intro h; simp at h
      · rintro ⟨k, _, h, _⟩; omega
    sentlt := by intro k h; exact Bool.noConfusion h }

/-- **from `messageq_init` on every in-scope geometry, every permitted history** -/
theorem history_refines_init (base depth msgLen slack : Nat) (g : Geometry depth msgLen slack)
    (ops : List Librfn.Spec.MessageqFifo.Op) (hp : Permitted { qlen := depth, msgLen := msgLen } ops) :
    ∃ s, init base (depth * msgLen + slack) msgLen = some s ∧
      run s (ops.map (concOp depth msgLen)) = Librfn.Spec.MessageqFifo.run { qlen := depth, msgLen := msgLen } ops := by
  obtain ⟨s, hs, hr⟩ := init_rel base depth msgLen slack g
  exact ⟨s, hs, history_refines ops s _ hr hp⟩

/-- the relation is preserved along a permitted history (so the per-state corollaries below apply after any history) -/
theorem rel_after (ops : List Librfn.Spec.MessageqFifo.Op) (s : St) (f : Fifo) (h : Rel s f) (hp : Permitted f ops) :
    Rel (runSt s (ops.map (concOp f.qlen f.msgLen))) (Librfn.Spec.MessageqFifo.runSt f ops) := by
  induction ops generalizing s f with
  | nil => exact h
  | cons op ops ih =>
    obtain ⟨hp1, hp2⟩ := hp
    obtain ⟨_, hr⟩ := step_refines s f h op hp1
    obtain ⟨g1, g2⟩ := step_geometry f op
    simp only [List.map_cons, runSt, Librfn.Spec.MessageqFifo.runSt]
    have := ih _ _ hr hp2
    rw [g1, g2] at this
    exact this

/-! ### the property's clauses, in its words -/

/-- **claim**: the `k`-th grant (`k = f.claimed`, counting from 0) is the buffer at `(k mod depth)·size`;
    NULL exactly when all buffers are claimed and unreleased -/
theorem claim_spec (s : St) (f : Fifo) (h : Rel s f) :
    (claim s).2 = (if f.claimed - f.released = f.qlen then none else some ((f.claimed % f.qlen) * f.msgLen)) ∧
    ((claim s).2 = none ↔ f.claimed - f.released = f.qlen) := by
  have := (claim_refines s f h).1
  simp only [step, Librfn.Spec.MessageqFifo.step] at this
  by_cases hf : f.claimed - f.released = f.qlen
  · simp only [hf, if_true] at this ⊢
    injection this with this
    exact ⟨this, by simp [this]⟩
  · simp only [hf, if_false] at this ⊢
    injection this with this
    exact ⟨this, by simp [this, offsetOf]⟩

/-- **receive**: returns the oldest unreceived ticket (number `f.received`, i.e. claim order) iff it has been sent, else NULL -/
theorem receive_spec (s : St) (f : Fifo) (h : Rel s f) :
    ∃ s', receive s = some (s', if f.received < f.claimed ∧ f.sent f.received = true
                                then some ((f.received % f.qlen) * f.msgLen) else none) := by
  rw [receive_eq s f h]
  unfold headSent
  by_cases hc : f.received < f.claimed <;> cases hs : f.sent f.received <;> simp [hc, offsetOf]

/-- **messageq_empty is true exactly when receive would return nothing** -/
theorem empty_iff_receive_null (s : St) (f : Fifo) (h : Rel s f) :
    ∃ b r, empty s = some b ∧ receive s = some r ∧ (b = true ↔ r.2 = none) := by
  refine ⟨_, _, empty_eq s f h, receive_eq s f h, ?_⟩
  cases headSent f <;> simp

/-- the byte range of every buffer lies inside the first `depth·size` bytes -/
theorem range_inside (f : Fifo) (hq : 1 ≤ f.qlen) (k : Nat) :
    offsetOf f k + f.msgLen ≤ f.qlen * f.msgLen := by
  unfold offsetOf
  have : k % f.qlen + 1 ≤ f.qlen := Nat.mod_lt _ hq
  calc k % f.qlen * f.msgLen + f.msgLen = (k % f.qlen + 1) * f.msgLen := by rw [Nat.add_mul, Nat.one_mul]
    _ ≤ f.qlen * f.msgLen := Nat.mul_le_mul_right _ this

/-- **distinct buffers**: two different tickets of the window (claimed, sent or held — anything not yet released)
    occupy disjoint byte ranges -/
theorem outstanding_ranges_disjoint (s : St) (f : Fifo) (h : Rel s f) (k k' : Nat)
    (hk : f.released ≤ k ∧ k < f.claimed) (hk' : f.released ≤ k' ∧ k' < f.claimed) (hne : k ≠ k') :
    offsetOf f k + f.msgLen ≤ offsetOf f k' ∨ offsetOf f k' + f.msgLen ≤ offsetOf f k := by
  have hb := h.bound
  have hslot : k % f.qlen ≠ k' % f.qlen := fun e =>
    hne (window_inj' f.qlen k k' f.released hk.1 hk'.1 (by omega) (by omega) e)
  unfold offsetOf
  rcases Nat.lt_or_gt_of_ne hslot with hlt | hlt
  · left
    calc k % f.qlen * f.msgLen + f.msgLen = (k % f.qlen + 1) * f.msgLen := by rw [Nat.add_mul, Nat.one_mul]
      _ ≤ k' % f.qlen * f.msgLen := Nat.mul_le_mul_right _ hlt
  · right
    calc k' % f.qlen * f.msgLen + f.msgLen = (k' % f.qlen + 1) * f.msgLen := by rw [Nat.add_mul, Nat.one_mul]
      _ ≤ k % f.qlen * f.msgLen := Nat.mul_le_mul_right _ hlt

/-- **cyclic order**: the grant after ticket `k` is the next buffer, wrapping from the last to the first -/
theorem cyclic (f : Fifo) (hq : 1 ≤ f.qlen) (hm : 1 ≤ f.msgLen) (k : Nat) :
    offsetOf f (k + 1) = if offsetOf f k + f.msgLen = f.qlen * f.msgLen then 0 else offsetOf f k + f.msgLen := by
  unfold offsetOf
  rw [succ_mod k _ hq]
  have hadd : k % f.qlen * f.msgLen + f.msgLen = (k % f.qlen + 1) * f.msgLen := by rw [Nat.add_mul, Nat.one_mul]
  by_cases e : k % f.qlen + 1 = f.qlen
  · rw [if_pos e, if_pos (by rw [hadd, e]), Nat.zero_mul]
  · rw [if_neg e, if_neg, hadd]
    intro e'
    rw [hadd] at e'
    exact e (Nat.eq_of_mul_eq_mul_right (by omega) e')

/-- **trailing bytes that do not make up a whole message are never inside a returned buffer**: with
    `base_len = depth·size + slack`, `messageq_init` derives exactly `depth` buffers, and every byte of every
    buffer ever returned is below `depth·size`, so the `slack` bytes `depth·size … base_len-1` are outside
    every returned range (the library itself never dereferences the storage at all) -/
theorem slack_untouched (depth msgLen slack : Nat) (g : Geometry depth msgLen slack) (k b : Nat)
    (_hb : offsetOf { qlen := depth, msgLen := msgLen } k ≤ b)
    (hb' : b < offsetOf { qlen := depth, msgLen := msgLen } k + msgLen) :
    (depth * msgLen + slack) / msgLen = depth ∧ b < depth * msgLen := by
  have := range_inside { qlen := depth, msgLen := msgLen } g.d1 k
  exact ⟨geometry_div depth msgLen slack g, by simp only at this; omega⟩

/-- **depth 32**: bit 31 (the sign bit of `1 << 31`) is set by send, tested and cleared by receive like any other,
    and no other flag is disturbed -/
theorem bit31_is_a_flag (x : BitVec 32) :
    bit 31 = 0x80000000#32 ∧
    (x ||| bit 31).getLsbD 31 = true ∧
    (x &&& ~~~ bit 31).getLsbD 31 = false ∧
    ((x &&& bit 31 = 0) ↔ x.getLsbD 31 = false) ∧
    (∀ j, j ≠ 31 → (x ||| bit 31).getLsbD j = x.getLsbD j ∧ (x &&& ~~~ bit 31).getLsbD j = x.getLsbD j) := by
  refine ⟨by decide, ?_, ?_, and_bit_eq_zero x 31 (by omega), ?_⟩
  · rw [getLsbD_or_bit _ _ _ (by omega)]; simp
  · rw [getLsbD_clear_bit]; simp
  · intro j hj
    have : decide (31 = j) = false := decide_eq_false (fun e => hj e.symm)
    rw [getLsbD_or_bit _ _ _ (by omega), getLsbD_clear_bit, this]; simp

/-- **the static initialiser and messageq_init describe the same queue** (for every argument, in or out of scope) -/
theorem init_eq_static (base baseLen msgLen : Nat) : init base baseLen msgLen = staticInit base baseLen msgLen := by
  unfold init staticInit
  split <;> rfl

/-! ### non-vacuity: concrete geometries and histories satisfying the hypotheses -/

example : Geometry 32 4096 4095 := ⟨by omega, by omega, by omega, by omega, by omega⟩
example : Geometry 1 1 0 := ⟨by omega, by omega, by omega, by omega, by omega⟩

/-- depth 3, 7-byte messages, 5 bytes of slack: reordered sends, a premature receive, the wrap of both indices -/
example : (init 0 (3 * 7 + 5) 7).map (fun s => run s ([.claim, .claim, .claim, .claim, .send 1, .receive, .empty, .send 0,
      .empty, .receive, .receive, .receive, .release, .claim].map (concOp 3 7)))
    = some [.ptr (some 0), .ptr (some 7), .ptr (some 14), .ptr none, .unit, .ptr none, .bool true, .unit,
            .bool false, .ptr (some 0), .ptr (some 7), .ptr none, .unit, .ptr (some 0)] := by decide

example : Permitted { qlen := 3, msgLen := 7 } [.claim, .claim, .claim, .claim, .send 1, .receive, .empty, .send 0,
      .empty, .receive, .receive, .receive, .release, .claim] := by decide

-- depth 32: the 32nd message uses bit 31 of the flag word
set_option maxRecDepth 8192 in
example : (init 0 32 1).map (fun s =>
      (runSt s ((List.replicate 32 Librfn.Spec.MessageqFifo.Op.claim ++ [Librfn.Spec.MessageqFifo.Op.send 31]).map (concOp 32 1))).flags)
    = some 0x80000000#32 := by decide

end Librfn.C10

import Librfn.Gen.MessageqSeq
import Librfn.Model.Messageq
import Librfn.Props.C10
import Std.Tactic.BVDecide
/-!
# C10 / C04 / C06 — tie T for `messageq.c` (sequential meaning of every function)

`Librfn.Gen.MessageqSeq.*` is regenerated from `/repo/librfn/messageq.c` (+ `messageq.h`) on every run by
`tools/c2lean2.py`: pointers are 64-bit values, the fields of `messageq_t` are parameters and results, each atomic
operation has its sequential meaning, the compare-exchange loops are unrolled twice (`exh` reports a third round).

Two layers:

* `*_generated` — the generated definition equals a loop-free bit-vector reference (`*BV`) on **every** input, by
  `bv_decide`.  This layer is semantic: a rewrite of the C that computes the same function re-proves; a change of a
  width, a comparison, a wrap point or an offset computation does not, and the SAT counterexample names the input.
* `*_tie` — the bit-vector reference is the hand model `Librfn.Model.Messageq` that the C10 theorems (and, through
  the shared arithmetic, the C04 / C06 interleaving models) are about.  This layer never mentions generated code.

Together: for every queue state the C function (sequential meaning) and the model return the same pointer and leave
the same structure; the model's "undefined" answers are exactly the calls on which the C executes a division by zero
or an out-of-range shift (`ub`).
-/
namespace Librfn.C10.Tie
open Librfn.Model.Messageq
open Librfn.Gen.MessageqSeq

/-! ### bit-vector references -/

def nextSendBV (ql p : BitVec 8) : BitVec 8 :=
  if (ql.setWidth 32 - 1#32).sle (p.setWidth 32) then 0#8 else p + 1#8
def nextRecvBV (ql p : BitVec 8) : BitVec 8 :=
  if (ql.setWidth 32 - 1#32).ule (p.setWidth 32) then 0#8 else p + 1#8
/-- `basep + index * msg_len` -/
def slotAddrBV (b : BitVec 64) (ml : BitVec 16) (i : BitVec 8) : BitVec 64 :=
  b + BitVec.setWidth 64 (i.setWidth 32 * ml.setWidth 32)
/-- `(unsigned int)(msg - basep) / msg_len` -/
def slotOfBV (b : BitVec 64) (ml : BitVec 16) (msg : BitVec 64) : BitVec 32 :=
  BitVec.udiv (BitVec.setWidth 32 (msg - b)) (ml.setWidth 32)

/-- the states the property quantifies over (and every reachable state of the model satisfies, `wf_of_rel`): depth 1..32,
    message size >= 1, indices inside the ring, free counter at most the depth -/
def wfBV (ml : BitVec 16) (ql nf sp rp : BitVec 8) : Bool :=
  BitVec.ule 1#8 ql && BitVec.ule ql 32#8 && BitVec.ult sp ql && BitVec.ult rp ql && BitVec.ule nf ql && BitVec.ule 1#16 ml

/-! ### layer 1: generated code = reference on every well-formed structure (`bv_decide`)

A rewrite of the C that differs only on structures no history can produce (depth 0, an index outside the ring, an offset
beyond the queue's memory) re-proves; the hypotheses are exactly `wfBV` (+ `msg` inside the first 2 MiB for `send`). -/

theorem claim_generated (b : BitVec 64) (ml : BitVec 16) (ql nf sp : BitVec 8) (fl : BitVec 32) (rp : BitVec 8)
    (hwf : wfBV ml ql nf sp rp = true) :
    (messageq_claim b ml ql nf sp fl rp).ub = false ∧ (messageq_claim b ml ql nf sp fl rp).exh = false ∧
    (messageq_claim b ml ql nf sp fl rp).mq_basep = b ∧ (messageq_claim b ml ql nf sp fl rp).mq_msg_len = ml ∧
    (messageq_claim b ml ql nf sp fl rp).mq_queue_len = ql ∧ (messageq_claim b ml ql nf sp fl rp).mq_full_flags = fl ∧
    (messageq_claim b ml ql nf sp fl rp).mq_receivep = rp ∧
    (messageq_claim b ml ql nf sp fl rp).mq_num_free = (if nf = 0#8 then nf else nf - 1#8) ∧
    (messageq_claim b ml ql nf sp fl rp).mq_sendp = (if nf = 0#8 then sp else nextSendBV ql sp) ∧
    (messageq_claim b ml ql nf sp fl rp).ret = (if nf = 0#8 then 0#64 else slotAddrBV b ml sp) := by
  unfold wfBV at hwf
  unfold messageq_claim nextSendBV slotAddrBV
  bv_decide (config := { timeout := 300 })

theorem send_generated (b : BitVec 64) (ml : BitVec 16) (ql nf sp : BitVec 8) (fl : BitVec 32) (rp : BitVec 8) (msg : BitVec 64)
    (hwf : wfBV ml ql nf sp rp = true) (hoff : (msg - b).ult 0x200000#64 = true) :
    (messageq_send b ml ql nf sp fl rp msg).ub = (ml == 0#16 || BitVec.ule 32#32 (slotOfBV b ml msg)) ∧
    (messageq_send b ml ql nf sp fl rp msg).exh = false ∧
    (messageq_send b ml ql nf sp fl rp msg).mq_basep = b ∧ (messageq_send b ml ql nf sp fl rp msg).mq_msg_len = ml ∧
    (messageq_send b ml ql nf sp fl rp msg).mq_queue_len = ql ∧ (messageq_send b ml ql nf sp fl rp msg).mq_num_free = nf ∧
    (messageq_send b ml ql nf sp fl rp msg).mq_sendp = sp ∧ (messageq_send b ml ql nf sp fl rp msg).mq_receivep = rp ∧
    (messageq_send b ml ql nf sp fl rp msg).mq_full_flags = (fl ||| (1#32 <<< slotOfBV b ml msg)) := by
  unfold wfBV at hwf
  unfold messageq_send slotOfBV
  bv_decide (config := { timeout := 300 })

theorem receive_generated (b : BitVec 64) (ml : BitVec 16) (ql nf sp : BitVec 8) (fl : BitVec 32) (rp : BitVec 8)
    (hwf : wfBV ml ql nf sp rp = true) :
    (messageq_receive b ml ql nf sp fl rp).ub = BitVec.ule 32#8 rp ∧ (messageq_receive b ml ql nf sp fl rp).exh = false ∧
    (messageq_receive b ml ql nf sp fl rp).mq_basep = b ∧ (messageq_receive b ml ql nf sp fl rp).mq_msg_len = ml ∧
    (messageq_receive b ml ql nf sp fl rp).mq_queue_len = ql ∧ (messageq_receive b ml ql nf sp fl rp).mq_num_free = nf ∧
    (messageq_receive b ml ql nf sp fl rp).mq_sendp = sp ∧
    (messageq_receive b ml ql nf sp fl rp).mq_full_flags = (fl &&& ~~~(1#32 <<< rp)) ∧
    (messageq_receive b ml ql nf sp fl rp).mq_receivep = (if fl &&& (1#32 <<< rp) = 0#32 then rp else nextRecvBV ql rp) ∧
    (messageq_receive b ml ql nf sp fl rp).ret = (if fl &&& (1#32 <<< rp) = 0#32 then 0#64 else slotAddrBV b ml rp) := by
  unfold wfBV at hwf
  unfold messageq_receive nextRecvBV slotAddrBV
  bv_decide (config := { timeout := 300 })

theorem release_generated (b : BitVec 64) (ml : BitVec 16) (ql nf sp : BitVec 8) (fl : BitVec 32) (rp : BitVec 8) (msg : BitVec 64)
    (hwf : wfBV ml ql nf sp rp = true) :
    (messageq_release b ml ql nf sp fl rp msg).ub = false ∧ (messageq_release b ml ql nf sp fl rp msg).exh = false ∧
    (messageq_release b ml ql nf sp fl rp msg).mq_basep = b ∧ (messageq_release b ml ql nf sp fl rp msg).mq_msg_len = ml ∧
    (messageq_release b ml ql nf sp fl rp msg).mq_queue_len = ql ∧ (messageq_release b ml ql nf sp fl rp msg).mq_num_free = nf + 1#8 ∧
    (messageq_release b ml ql nf sp fl rp msg).mq_sendp = sp ∧ (messageq_release b ml ql nf sp fl rp msg).mq_full_flags = fl ∧
    (messageq_release b ml ql nf sp fl rp msg).mq_receivep = rp := by
  unfold wfBV at hwf
  unfold messageq_release
  bv_decide (config := { timeout := 300 })

theorem empty_generated (b : BitVec 64) (ml : BitVec 16) (ql nf sp : BitVec 8) (fl : BitVec 32) (rp : BitVec 8)
    (hwf : wfBV ml ql nf sp rp = true) :
    (messageq_empty b ml ql nf sp fl rp).ub = BitVec.ule 32#8 rp ∧ (messageq_empty b ml ql nf sp fl rp).exh = false ∧
    (messageq_empty b ml ql nf sp fl rp).mq_basep = b ∧ (messageq_empty b ml ql nf sp fl rp).mq_msg_len = ml ∧
    (messageq_empty b ml ql nf sp fl rp).mq_queue_len = ql ∧ (messageq_empty b ml ql nf sp fl rp).mq_num_free = nf ∧
    (messageq_empty b ml ql nf sp fl rp).mq_sendp = sp ∧ (messageq_empty b ml ql nf sp fl rp).mq_full_flags = fl ∧
    (messageq_empty b ml ql nf sp fl rp).mq_receivep = rp ∧
    (messageq_empty b ml ql nf sp fl rp).ret = (if fl &&& (1#32 <<< rp) = 0#32 then 1#8 else 0#8) := by
  unfold wfBV at hwf
  unfold messageq_empty
  bv_decide (config := { timeout := 300 })

theorem init_generated (b0 : BitVec 64) (ml0 : BitVec 16) (ql0 nf0 sp0 : BitVec 8) (fl0 : BitVec 32) (rp0 : BitVec 8)
    (basep baseLen msgLen : BitVec 64) (hg : (BitVec.ule msgLen 65535#64 && BitVec.ult baseLen 0x400000#64) = true) :
    (messageq_init b0 ml0 ql0 nf0 sp0 fl0 rp0 basep baseLen msgLen).ub = (msgLen == 0#64) ∧
    (messageq_init b0 ml0 ql0 nf0 sp0 fl0 rp0 basep baseLen msgLen).exh = false ∧
    (messageq_init b0 ml0 ql0 nf0 sp0 fl0 rp0 basep baseLen msgLen).mq_basep = basep ∧
    (messageq_init b0 ml0 ql0 nf0 sp0 fl0 rp0 basep baseLen msgLen).mq_msg_len = msgLen.setWidth 16 ∧
    (messageq_init b0 ml0 ql0 nf0 sp0 fl0 rp0 basep baseLen msgLen).mq_queue_len = (BitVec.udiv baseLen msgLen).setWidth 8 ∧
    (messageq_init b0 ml0 ql0 nf0 sp0 fl0 rp0 basep baseLen msgLen).mq_num_free = (BitVec.udiv baseLen msgLen).setWidth 8 ∧
    (messageq_init b0 ml0 ql0 nf0 sp0 fl0 rp0 basep baseLen msgLen).mq_sendp = 0#8 ∧
    (messageq_init b0 ml0 ql0 nf0 sp0 fl0 rp0 basep baseLen msgLen).mq_full_flags = 0#32 ∧
    (messageq_init b0 ml0 ql0 nf0 sp0 fl0 rp0 basep baseLen msgLen).mq_receivep = 0#8 := by
  unfold messageq_init
  bv_decide (config := { timeout := 300 })

/-! ### layer 2: reference = hand model (never mentions generated code) -/

theorem sle_iff (ql p : BitVec 8) :
    ((ql.setWidth 32 - 1#32).sle (p.setWidth 32) = true) ↔ ((p.toNat : Int) ≥ (ql.toNat : Int) - 1) := by
  have h1 := ql.isLt
  have h2 := p.isLt
  simp only [BitVec.sle, decide_eq_true_eq, BitVec.toInt_eq_toNat_cond, BitVec.toNat_sub, BitVec.toNat_setWidth, BitVec.toNat_ofNat]
  have e1 : ql.toNat % 2 ^ 32 = ql.toNat := Nat.mod_eq_of_lt (by omega)
  have e2 : p.toNat % 2 ^ 32 = p.toNat := Nat.mod_eq_of_lt (by omega)
  rw [e1, e2]
  by_cases hq : ql.toNat = 0
  · rw [hq]; simp; split <;> omega
  · have : (2 ^ 32 - 1 % 2 ^ 32 + ql.toNat) % 2 ^ 32 = ql.toNat - 1 := by omega
    rw [this]
    split <;> split <;> omega

theorem nextSendBV_eq (ql p : BitVec 8) : nextSendBV ql p = nextSend ql p := by
  unfold nextSendBV nextSend
  by_cases h : (p.toNat : Int) ≥ (ql.toNat : Int) - 1
  · rw [if_pos h, if_pos ((sle_iff ql p).2 h)]; rfl
  · rw [if_neg h, if_neg (fun hh => h ((sle_iff ql p).1 hh))]
    apply BitVec.eq_of_toNat_eq; simp [BitVec.toNat_add]

theorem ule_iff (ql p : BitVec 8) :
    ((ql.setWidth 32 - 1#32).ule (p.setWidth 32) = true) ↔ (p.toNat ≥ (ql.toNat + 4294967296 - 1) % 4294967296) := by
  have h1 := ql.isLt
  have h2 := p.isLt
  simp only [BitVec.ule, decide_eq_true_eq, BitVec.toNat_sub, BitVec.toNat_setWidth, BitVec.toNat_ofNat]
  have e1 : ql.toNat % 2 ^ 32 = ql.toNat := Nat.mod_eq_of_lt (by omega)
  have e2 : p.toNat % 2 ^ 32 = p.toNat := Nat.mod_eq_of_lt (by omega)
  rw [e1, e2]
  omega

theorem nextRecvBV_eq (ql p : BitVec 8) : nextRecvBV ql p = nextRecv ql p := by
  unfold nextRecvBV nextRecv
  by_cases h : p.toNat ≥ (ql.toNat + 4294967296 - 1) % 4294967296
  · rw [if_pos h, if_pos ((ule_iff ql p).2 h)]; rfl
  · rw [if_neg h, if_neg (fun hh => h ((ule_iff ql p).1 hh))]
    apply BitVec.eq_of_toNat_eq; simp [BitVec.toNat_add]

/-- a returned pointer as the model reports it: NULL or an offset from `basep` -/
def ptrBV (base : Nat) : Option Nat → BitVec 64
  | none => 0#64
  | some off => BitVec.ofNat 64 base + BitVec.ofNat 64 off

theorem slotAddrBV_eq (base : Nat) (ml : BitVec 16) (i : BitVec 8) :
    slotAddrBV (BitVec.ofNat 64 base) ml i = ptrBV base (some (offsetOfSlot ml i)) := by
  unfold slotAddrBV ptrBV offsetOfSlot
  congr 1
  apply BitVec.eq_of_toNat_eq
  have h1 := i.isLt
  have h2 := ml.isLt
  have hp : i.toNat * ml.toNat < 256 * 65536 := Nat.mul_lt_mul'' h1 h2
  simp only [BitVec.toNat_setWidth, BitVec.toNat_mul, BitVec.toNat_ofNat]
  rw [Nat.mod_eq_of_lt (show i.toNat < 2 ^ 32 by omega), Nat.mod_eq_of_lt (show ml.toNat < 2 ^ 32 by omega)]
  rw [Nat.mod_eq_of_lt (show i.toNat * ml.toNat < 2 ^ 32 by omega), Nat.mod_eq_of_lt (show i.toNat * ml.toNat < 2 ^ 64 by omega)]

/-- well-formed model state (`wfBV` of its fields) -/
def WF (s : St) : Prop := wfBV s.msgLen s.qlen s.numFree s.sendp s.receivep = true

/-- the structure the generated functions work on, seen as a model state -/
def stOf (base : Nat) (ml : BitVec 16) (ql nf sp : BitVec 8) (fl : BitVec 32) (rp : BitVec 8) : St :=
  ⟨base, ml, ql, nf, sp, fl, rp⟩

/-- **tie T, `messageq_claim`**: same structure afterwards, same pointer, never undefined, the compare-exchange
    loops end within the unrolling -/
theorem claim_tie (s : St) (hwf : WF s) :
    let g := messageq_claim (BitVec.ofNat 64 s.base) s.msgLen s.qlen s.numFree s.sendp s.flags s.receivep
    g.ub = false ∧ g.exh = false ∧ g.mq_basep = BitVec.ofNat 64 s.base ∧
    stOf s.base g.mq_msg_len g.mq_queue_len g.mq_num_free g.mq_sendp g.mq_full_flags g.mq_receivep = (claim s).1 ∧
    g.ret = ptrBV s.base (claim s).2 := by
  obtain ⟨base, ml, ql, nf, sp, fl, rp⟩ := s
  obtain ⟨h1, h2, h3, h4, h5, h6, h7, h8, h9, h10⟩ :=
    claim_generated (BitVec.ofNat 64 base) ml ql nf sp fl rp hwf
  refine ⟨h1, h2, h3, ?_, ?_⟩
  · rw [h4, h5, h6, h7, h8, h9]
    unfold claim stOf
    by_cases h : nf = 0#8
    · simp only [BitVec.ofNat_eq_ofNat, if_pos h]
    · simp only [BitVec.ofNat_eq_ofNat, if_neg h, nextSendBV_eq]
  · rw [h10]
    unfold claim
    by_cases h : nf = 0#8
    · simp only [BitVec.ofNat_eq_ofNat, if_pos h, ptrBV]
    · simp only [BitVec.ofNat_eq_ofNat, if_neg h, slotAddrBV_eq]

theorem slotOfBV_toNat (base : Nat) (ml : BitVec 16) (off : Nat) :
    (slotOfBV (BitVec.ofNat 64 base) ml (BitVec.ofNat 64 base + BitVec.ofNat 64 off)).toNat = slotOfOffset ml off := by
  unfold slotOfBV slotOfOffset
  have e : BitVec.ofNat 64 base + BitVec.ofNat 64 off - BitVec.ofNat 64 base = BitVec.ofNat 64 off := by
    rw [BitVec.add_comm, BitVec.add_sub_cancel]
  rw [e]
  have h2 := ml.isLt
  simp only [BitVec.udiv_eq, BitVec.toNat_udiv, BitVec.toNat_setWidth, BitVec.toNat_ofNat]
  rw [Nat.mod_eq_of_lt (show ml.toNat < 2 ^ 32 by omega)]
  congr 1
  omega

theorem shl_eq_bit' (x : BitVec 8) : (1#32 <<< x) = bit x.toNat := by
  unfold bit
  rw [BitVec.shiftLeft_eq']
  rfl

theorem shl_eq_bit (x : BitVec 32) : (1#32 <<< x) = bit x.toNat := by
  unfold bit
  rw [BitVec.shiftLeft_eq']
  rfl

/-- **tie T, `messageq_send`** (`msg = basep + off`): undefined in C exactly when the model says so, otherwise the
    same structure afterwards -/
theorem send_tie (s : St) (off : Nat) (hwf : WF s) (hoff : off < 2097152) :
    let g := messageq_send (BitVec.ofNat 64 s.base) s.msgLen s.qlen s.numFree s.sendp s.flags s.receivep
      (BitVec.ofNat 64 s.base + BitVec.ofNat 64 off)
    g.exh = false ∧ g.mq_basep = BitVec.ofNat 64 s.base ∧ (g.ub = true ↔ send s off = none) ∧
    (∀ s', send s off = some s' →
      stOf s.base g.mq_msg_len g.mq_queue_len g.mq_num_free g.mq_sendp g.mq_full_flags g.mq_receivep = s') := by
  obtain ⟨base, ml, ql, nf, sp, fl, rp⟩ := s
  obtain ⟨h1, h2, h3, h4, h5, h6, h7, h8, h9⟩ :=
    send_generated (BitVec.ofNat 64 base) ml ql nf sp fl rp (BitVec.ofNat 64 base + BitVec.ofNat 64 off) hwf (by
      have e : BitVec.ofNat 64 base + BitVec.ofNat 64 off - BitVec.ofNat 64 base = BitVec.ofNat 64 off := by
        rw [BitVec.add_comm, BitVec.add_sub_cancel]
      rw [e]
      simp only [BitVec.ult, BitVec.toNat_ofNat, decide_eq_true_eq]
      omega)
  have hs := slotOfBV_toNat base ml off
  have hml : (ml == 0#16) = decide (ml.toNat = 0) := by
    by_cases h : ml = 0#16
    · subst h; rfl
    · have : ml.toNat ≠ 0 := fun hh => h (BitVec.eq_of_toNat_eq (by simpa using hh))
      simp [h, this]
  have hule : BitVec.ule 32#32 (slotOfBV (BitVec.ofNat 64 base) ml (BitVec.ofNat 64 base + BitVec.ofNat 64 off))
      = decide (slotOfOffset ml off ≥ 32) := by
    rw [← hs]; simp [BitVec.ule]
  refine ⟨h2, h3, ?_, ?_⟩
  · rw [h1, hml, hule]
    unfold send
    by_cases a : ml.toNat = 0
    · simp [a]
    · by_cases b : slotOfOffset ml off ≥ 32
      · simp [a, b]
      · simp [a, b]
  · intro s' hs'
    unfold send at hs'
    by_cases a : ml.toNat = 0
    · simp [a] at hs'
    · by_cases b : slotOfOffset ml off ≥ 32
      · simp [a, b] at hs'
      · simp only [a, b, if_false] at hs'
        injection hs' with hs'
        rw [← hs', h4, h5, h6, h7, h8, h9, shl_eq_bit, hs]
        rfl

/-- **tie T, `messageq_receive`** -/
theorem receive_tie (s : St) (hwf : WF s) :
    let g := messageq_receive (BitVec.ofNat 64 s.base) s.msgLen s.qlen s.numFree s.sendp s.flags s.receivep
    g.exh = false ∧ g.mq_basep = BitVec.ofNat 64 s.base ∧ (g.ub = true ↔ receive s = none) ∧
    (∀ r, receive s = some r →
      stOf s.base g.mq_msg_len g.mq_queue_len g.mq_num_free g.mq_sendp g.mq_full_flags g.mq_receivep = r.1 ∧
      g.ret = ptrBV s.base r.2) := by
  obtain ⟨base, ml, ql, nf, sp, fl, rp⟩ := s
  obtain ⟨h1, h2, h3, h4, h5, h6, h7, h8, h9, h10⟩ := receive_generated (BitVec.ofNat 64 base) ml ql nf sp fl rp hwf
  have hule : BitVec.ule 32#8 rp = decide (rp.toNat ≥ 32) := by simp [BitVec.ule]
  have hsh : (1#32 <<< rp) = bit rp.toNat := shl_eq_bit' rp
  refine ⟨h2, h3, ?_, ?_⟩
  · rw [h1, hule]; unfold receive
    by_cases a : rp.toNat ≥ 32
    · simp [a]
    · simp only [a, if_false, decide_false]
      split <;> simp
  · intro r hr
    unfold receive at hr
    by_cases a : rp.toNat ≥ 32
    · simp [a] at hr
    · simp only [a, if_false] at hr
      rw [h4, h5, h6, h7, h8, h9, h10, hsh]
      by_cases e : fl &&& bit rp.toNat = 0
      · have e' : fl &&& bit rp.toNat = 0#32 := e
        simp only [e, if_true] at hr
        injection hr with hr
        rw [← hr, if_pos e', if_pos e']
        exact ⟨rfl, rfl⟩
      · have e' : ¬ fl &&& bit rp.toNat = 0#32 := e
        simp only [e, if_false] at hr
        injection hr with hr
        rw [← hr, if_neg e', if_neg e', nextRecvBV_eq, slotAddrBV_eq]
        exact ⟨rfl, rfl⟩

/-- **tie T, `messageq_release`** -/
theorem release_tie (s : St) (msg : BitVec 64) (hwf : WF s) :
    let g := messageq_release (BitVec.ofNat 64 s.base) s.msgLen s.qlen s.numFree s.sendp s.flags s.receivep msg
    g.ub = false ∧ g.exh = false ∧ g.mq_basep = BitVec.ofNat 64 s.base ∧
    stOf s.base g.mq_msg_len g.mq_queue_len g.mq_num_free g.mq_sendp g.mq_full_flags g.mq_receivep = release s := by
  obtain ⟨base, ml, ql, nf, sp, fl, rp⟩ := s
  obtain ⟨h1, h2, h3, h4, h5, h6, h7, h8, h9⟩ := release_generated (BitVec.ofNat 64 base) ml ql nf sp fl rp msg hwf
  refine ⟨h1, h2, h3, ?_⟩
  rw [h4, h5, h6, h7, h8, h9]; rfl

/-- **tie T, `messageq_empty`** (the inline function of `messageq.h`) -/
theorem empty_tie (s : St) (hwf : WF s) :
    let g := messageq_empty (BitVec.ofNat 64 s.base) s.msgLen s.qlen s.numFree s.sendp s.flags s.receivep
    g.exh = false ∧ (g.ub = true ↔ empty s = none) ∧
    stOf s.base g.mq_msg_len g.mq_queue_len g.mq_num_free g.mq_sendp g.mq_full_flags g.mq_receivep = s ∧
    (∀ b, empty s = some b → g.ret = (if b then 1#8 else 0#8)) := by
  obtain ⟨base, ml, ql, nf, sp, fl, rp⟩ := s
  obtain ⟨h1, h2, h3, h4, h5, h6, h7, h8, h9, h10⟩ := empty_generated (BitVec.ofNat 64 base) ml ql nf sp fl rp hwf
  have hule : BitVec.ule 32#8 rp = decide (rp.toNat ≥ 32) := by simp [BitVec.ule]
  have hsh : (1#32 <<< rp) = bit rp.toNat := shl_eq_bit' rp
  refine ⟨h2, ?_, ?_, ?_⟩
  · rw [h1, hule]; unfold empty
    by_cases a : rp.toNat ≥ 32 <;> simp [a]
  · rw [h4, h5, h6, h7, h8, h9]; rfl
  · intro b hb
    unfold empty at hb
    by_cases a : rp.toNat ≥ 32
    · simp [a] at hb
    · simp only [a, if_false] at hb
      injection hb with hb
      rw [h10, hsh, ← hb]
      by_cases e : fl &&& bit rp.toNat = 0
      · have e' : fl &&& bit rp.toNat = 0#32 := e
        simp [e']
      · have e' : ¬ fl &&& bit rp.toNat = 0#32 := e
        simp [e']

/-- **tie T, `messageq_init`** (`size_t` arguments below 2^64): undefined exactly for a zero message size, otherwise the
    structure the model builds whatever the structure held before -/
theorem init_tie (b0 : BitVec 64) (ml0 : BitVec 16) (ql0 nf0 sp0 : BitVec 8) (fl0 : BitVec 32) (rp0 : BitVec 8)
    (base baseLen msgLen : Nat) (hb : baseLen < 4194304) (hm : msgLen ≤ 65535) :
    let g := messageq_init b0 ml0 ql0 nf0 sp0 fl0 rp0 (BitVec.ofNat 64 base) (BitVec.ofNat 64 baseLen) (BitVec.ofNat 64 msgLen)
    g.exh = false ∧ (g.ub = true ↔ init base baseLen msgLen = none) ∧ g.mq_basep = BitVec.ofNat 64 base ∧
    (∀ s, init base baseLen msgLen = some s →
      stOf base g.mq_msg_len g.mq_queue_len g.mq_num_free g.mq_sendp g.mq_full_flags g.mq_receivep = s) := by
  obtain ⟨h1, h2, h3, h4, h5, h6, h7, h8, h9⟩ :=
    init_generated b0 ml0 ql0 nf0 sp0 fl0 rp0 (BitVec.ofNat 64 base) (BitVec.ofNat 64 baseLen) (BitVec.ofNat 64 msgLen) (by
      simp only [BitVec.ule, BitVec.ult, BitVec.toNat_ofNat, Bool.and_eq_true, decide_eq_true_eq]
      omega)
  have hb : baseLen < 2 ^ 64 := by omega
  have hm : msgLen < 2 ^ 64 := by omega
  have hz : (BitVec.ofNat 64 msgLen == 0#64) = decide (msgLen = 0) := by
    by_cases h : msgLen = 0
    · subst h; rfl
    · have : BitVec.ofNat 64 msgLen ≠ 0#64 := by
        intro hh
        have := congrArg BitVec.toNat hh
        simp only [BitVec.toNat_ofNat, Nat.zero_mod] at this
        rw [Nat.mod_eq_of_lt hm] at this
        exact h this
      simp [h, this]
  have hdiv : (BitVec.udiv (BitVec.ofNat 64 baseLen) (BitVec.ofNat 64 msgLen)).setWidth 8 = BitVec.ofNat 8 (baseLen / msgLen) := by
    apply BitVec.eq_of_toNat_eq
    simp [BitVec.toNat_udiv, Nat.mod_eq_of_lt hb, Nat.mod_eq_of_lt hm]
  have hml : (BitVec.ofNat 64 msgLen).setWidth 16 = BitVec.ofNat 16 msgLen := by
    apply BitVec.eq_of_toNat_eq
    simp only [BitVec.toNat_setWidth, BitVec.toNat_ofNat]
    omega
  refine ⟨h2, ?_, h3, ?_⟩
  · rw [h1, hz]; unfold init
    by_cases a : msgLen = 0 <;> simp [a]
  · intro s hs
    unfold init at hs
    by_cases a : msgLen = 0
    · simp [a] at hs
    · simp only [a, if_false] at hs
      injection hs with hs
      rw [← hs, h4, h5, h6, h7, h8, h9, hdiv, hml]
      rfl

/-- every state the C10 refinement theorem can reach (`Librfn.C10.Rel`, preserved along every permitted history by
    `rel_after`) is well-formed, so the `*_tie` theorems apply to it -/
theorem wf_of_rel (s : St) (f : Librfn.Spec.MessageqFifo.Fifo) (h : Librfn.C10.Rel s f) : WF s := by
  unfold WF wfBV
  have h1 := h.qlen; have h2 := h.msgLen; have h3 := h.qpos; have h4 := h.q32; have h5 := h.mpos
  have h6 := h.free; have h7 := h.sendp; have h8 := h.receivep
  have m1 : f.claimed % f.qlen < f.qlen := Nat.mod_lt _ (by omega)
  have m2 : f.received % f.qlen < f.qlen := Nat.mod_lt _ (by omega)
  simp only [Bool.and_eq_true, BitVec.ule, BitVec.ult, decide_eq_true_eq, BitVec.toNat_ofNat]
  refine ⟨⟨⟨⟨⟨?_, ?_⟩, ?_⟩, ?_⟩, ?_⟩, ?_⟩ <;> omega

end Librfn.C10.Tie

import Librfn.Model.Pack
import Librfn.Lemmas.Pack
import Std.Tactic.BVDecide
/-!
# C12 — pack/unpack never leaves the buffer, fails stickily, uses fixed byte order

Model: `Librfn.Model.Pack` (hand transcription of `pack.c`).  Every theorem quantifies over an arbitrary
memory `m`, an arbitrary packer state `p` (buffer position `p.base`, size `p.size` — including 0 — and
cursor `p.cur`, which may already be past the end) and, where a list `ops` appears, an **arbitrary list of
the fourteen implemented calls with arbitrary arguments**.  Proofs are inductions over the list; only the
bit-level byte-order facts (`layout_*`, `dec*_enc*`) use `bv_decide`.
-/
namespace Librfn.C12
open Librfn.Model.Pack Librfn.Lemmas.Pack

/-- total number of bytes a list of calls asks for -/
def total : List Op → Nat
  | [] => 0
  | op :: ops => op.size + total ops

/-- what a call yields when nothing is transferred: nothing for packers and skips, `0` for a scalar,
    an all-zero destination array for `rf_unpack_bytes` -/
def zeroOut : Op → Out
  | .unpackBytes n => .bytes (List.replicate n 0)
  | .unpackChar => .val 0 | .unpackS8 => .val 0 | .unpackU8 => .val 0 | .unpackU16le => .val 0 | .unpackU32le => .val 0
  | _ => .unit

/-- the bytes a packer stores when its item fits (`none` for the unpackers) -/
def packed : Op → Option (List UInt8)
  | .packBytes bs => some bs
  | .packNull n => some (List.replicate n 0)
  | .packS16le v => some (encS16le v) | .packU16be v => some (encU16be v) | .packU16le v => some (encU16le v)
  | .packS32le v => some (encS32le v) | .packU32le v => some (encU32le v)
  | _ => none

/-- what an unpacker yields from the bytes under the cursor when its item fits -/
def unpacked : Op → List UInt8 → Option Out
  | .unpackBytes _, bs => some (.bytes bs)
  | .unpackSkip _, _ => some .unit
  | .unpackChar, [a] => some (.val a.toBitVec.toInt)
  | .unpackS8, [a] => some (.val a.toBitVec.toInt)
  | .unpackU8, [a] => some (.val a.toNat)
  | .unpackU16le, [a, b] => some (.val (dec16 a b).toNat)
  | .unpackU32le, [a, b, c, d] => some (.val (dec32 a b c d).toNat)
  | _, _ => none

theorem packed_length (op : Op) (bs : List UInt8) (h : packed op = some bs) : bs.length = op.size := by
  cases op <;> simp [packed] at h <;> subst h <;> simp [Op.size, encS16le, encU16be, encU16le, encS32le, encU32le]

/-! ### one call -/

theorem packNull_eq (m : Mem) (p : Pk) (n : Nat) : packNull m p n = packRaw m p (List.replicate n 0) := by
  simp [packNull, packRaw]

/-- every packer is the `PACK` macro applied to its byte string -/
theorem step_pack (m : Mem) (p : Pk) (op : Op) (bs : List UInt8) (h : packed op = some bs) :
    step m p op = ((packRaw m p bs).1, (packRaw m p bs).2, .unit) := by
  cases op <;> simp [packed] at h <;> subst h <;>
    simp [step, packBytes, packNull_eq, packS16le, packU16be, packU16le, packS32le, packU32le]

/-- no call writes memory when it is an unpacker -/
theorem step_unpack_mem (m : Mem) (p : Pk) (op : Op) (h : packed op = none) : (step m p op).1 = m := by
  cases op <;> simp [packed] at h <;> rfl

/-- every call advances the cursor by the size it asks for, whether or not the item fits -/
theorem step_pk (m : Mem) (p : Pk) (op : Op) : (step m p op).2.1 = advance p op.size := by
  cases op <;> simp [step, Op.size, packBytes, packNull, packS16le, packU16be, packU16le, packS32le, packU32le, packRaw,
    unpackBytes, unpackSkip, unpackChar, unpackS8, unpackU8, unpackU16le, unpackU32le, encS16le, encU16be, encU16le,
    encS32le, encU32le]

theorem step_mem_eq (m : Mem) (p : Pk) (op : Op) (i : Nat) (h : i < p.base + p.cur ∨ p.base + p.size ≤ i) :
    (step m p op).1 i = m i := by
  cases hp : packed op with
  | none => rw [step_unpack_mem m p op hp]
  | some bs =>
    rw [step_pack m p op bs hp]
    simp only [packRaw]
    by_cases hf : fits p bs.length = true
    · simp only [hf, if_true]
      apply writeBytes_outside
      simp only [fits, decide_eq_true_eq] at hf
      omega
    · simp [hf]

/-! ### lists of calls -/

theorem run_pk (m : Mem) (p : Pk) (ops : List Op) : (run m p ops).2.1 = advance p (total ops) := by
  induction ops generalizing m p with
  | nil => simp [run, total, advance]
  | cons op ops ih =>
    simp only [run, total]
    rw [ih, step_pk]
    simp [advance, Nat.add_assoc]

/-- a run never writes below the cursor it started from, nor at or above the end of the buffer -/
theorem run_mem_eq (m : Mem) (p : Pk) (ops : List Op) (i : Nat) (h : i < p.base + p.cur ∨ p.base + p.size ≤ i) :
    (run m p ops).1 i = m i := by
  induction ops generalizing m p with
  | nil => rfl
  | cons op ops ih =>
    simp only [run]
    rw [ih]
    · exact step_mem_eq m p op i h
    · rw [step_pk]; simp only [advance]; omega

/-- **writes_confined**: whatever the calls and their arguments, every byte outside `[base, base+size)` is
    unchanged — also after the cursor has run past the end. -/
theorem writes_confined (m : Mem) (p : Pk) (ops : List Op) (i : Nat) (h : i < p.base ∨ p.base + p.size ≤ i) :
    (run m p ops).1 i = m i :=
  run_mem_eq m p ops i (by omega)

example : (run (fun _ => 7) ⟨10, 3, 0⟩ [.packU32le 0x01020304#32, .packU16le 5#16, .packBytes [1, 2, 3], .packNull 9]).1 13 = 7 := by
  decide

/-- two memories that agree on the buffer -/
def AgreeOn (p : Pk) (m m' : Mem) : Prop := ∀ i, p.base ≤ i → i < p.base + p.size → m i = m' i

theorem step_agree (m m' : Mem) (p : Pk) (op : Op) (h : AgreeOn p m m') :
    (step m p op).2 = (step m' p op).2 ∧ AgreeOn p (step m p op).1 (step m' p op).1 := by
  cases hp : packed op with
  | some bs =>
    rw [step_pack m p op bs hp, step_pack m' p op bs hp]
    refine ⟨by simp [packRaw], ?_⟩
    intro i h1 h2
    simp only [packRaw]
    by_cases hf : fits p bs.length = true
    · simp only [hf, if_true]; exact writeBytes_congr _ _ _ _ _ (h i h1 h2)
    · simp only [hf]; exact h i h1 h2
  | none =>
    rw [step_unpack_mem m p op hp, step_unpack_mem m' p op hp]
    refine ⟨?_, h⟩
    have rd : ∀ n, fits p n = true → readBytes m (p.base + p.cur) n = readBytes m' (p.base + p.cur) n := by
      intro n hf
      simp only [fits, decide_eq_true_eq] at hf
      exact readBytes_congr m m' _ _ (fun i h1 h2 => h i (by omega) (by omega))
    have at_ : ∀ k n, fits p n = true → k < n → m (p.base + p.cur + k) = m' (p.base + p.cur + k) := by
      intro k n hf hk
      simp only [fits, decide_eq_true_eq] at hf
      exact h _ (by omega) (by omega)
    cases op <;> simp [packed] at hp
    case unpackBytes n =>
      simp only [step, unpackBytes]
      by_cases hf : fits p n = true
      · simp only [hf, if_true, rd n hf]
      · simp [hf]
    case unpackSkip n => rfl
    case unpackChar =>
      simp only [step, unpackChar, unpackS8]
      by_cases hf : fits p 1 = true
      · have e0 := at_ 0 1 hf (by omega)
        simp only [Nat.add_zero] at e0; simp only [hf, if_true, e0]
      · simp [hf]
    case unpackS8 =>
      simp only [step, unpackS8]
      by_cases hf : fits p 1 = true
      · have e0 := at_ 0 1 hf (by omega)
        simp only [Nat.add_zero] at e0; simp only [hf, if_true, e0]
      · simp [hf]
    case unpackU8 =>
      simp only [step, unpackU8]
      by_cases hf : fits p 1 = true
      · have e0 := at_ 0 1 hf (by omega)
        simp only [Nat.add_zero] at e0; simp only [hf, if_true, e0]
      · simp [hf]
    case unpackU16le =>
      simp only [step, unpackU16le]
      by_cases hf : fits p 2 = true
      · have e0 := at_ 0 2 hf (by omega)
        have e1 := at_ 1 2 hf (by omega)
        simp only [Nat.add_zero] at e0; simp only [hf, if_true, e0, e1]
      · simp [hf]
    case unpackU32le =>
      simp only [step, unpackU32le]
      by_cases hf : fits p 4 = true
      · have e0 := at_ 0 4 hf (by omega)
        have e1 := at_ 1 4 hf (by omega)
        have e2 := at_ 2 4 hf (by omega)
        have e3 := at_ 3 4 hf (by omega)
        simp only [Nat.add_zero] at e0; simp only [hf, if_true, e0, e1, e2, e3]
      · simp [hf]

/-- **reads_confined**: the outputs of any list of calls (returned scalars, destination arrays, the cursor)
    are the same on two memories that agree on the buffer: nothing outside it is ever read.  The buffers also
    end up equal. -/
theorem reads_confined (m m' : Mem) (p : Pk) (ops : List Op) (h : AgreeOn p m m') :
    (run m p ops).2 = (run m' p ops).2 ∧ AgreeOn p (run m p ops).1 (run m' p ops).1 := by
  induction ops generalizing m m' p with
  | nil => exact ⟨rfl, h⟩
  | cons op ops ih =>
    obtain ⟨e, a⟩ := step_agree m m' p op h
    simp only [run]
    have e1 : (step m p op).2.1 = (step m' p op).2.1 := by rw [e]
    have e2 : (step m p op).2.2 = (step m' p op).2.2 := by rw [e]
    have a' : AgreeOn (step m p op).2.1 (step m p op).1 (step m' p op).1 := by
      rw [step_pk]; exact a
    obtain ⟨r1, r2⟩ := ih _ _ _ a'
    rw [← e1, ← e2]
    refine ⟨by rw [r1], ?_⟩
    intro i h1 h2
    exact r2 i (by rw [step_pk]; exact h1) (by rw [step_pk]; exact h2)

example : AgreeOn ⟨10, 2, 0⟩ (fun i => if i = 12 then 1 else 0) (fun _ => 0) := by
  intro i h1 h2; simp at h2; have : i ≠ 12 := by omega
  simp [this]

/-! ### all or nothing, sticky overflow -/

/-- **all_or_nothing**: an item with `cursor + size > n` transfers nothing — memory is untouched, a scalar
    reads as 0, a destination array is zero-filled — yet the cursor advances by the full size. -/
theorem all_or_nothing (m : Mem) (p : Pk) (op : Op) (h : p.size < p.cur + op.size) :
    step m p op = (m, advance p op.size, zeroOut op) := by
  have hf : ∀ n, n = op.size → fits p n = false := by
    intro n hn; simp only [fits, decide_eq_false_iff_not]; omega
  cases op <;>
    simp [step, packBytes, packNull, packS16le, packU16be, packU16le, packS32le, packU32le, packRaw, unpackBytes, unpackSkip,
      unpackChar, unpackS8, unpackU8, unpackU16le, unpackU32le, zeroOut, encS16le, encU16be, encU16le, encS32le, encU32le,
      Op.size] at hf ⊢ <;> simp [hf]

/-- once the cursor is past the end, *no* item is transferred, whatever its size (even a zero-sized one): the whole
    list leaves memory untouched and yields zeros -/
theorem sticky_overflowed (m : Mem) (p : Pk) (ops : List Op) (h : p.size < p.cur) :
    run m p ops = (m, advance p (total ops), ops.map zeroOut) := by
  induction ops generalizing p with
  | nil => simp [run, total, advance]
  | cons op rest ih =>
    have e := all_or_nothing m p op (by omega)
    have h2 : (advance p op.size).size < (advance p op.size).cur := by simp only [advance]; omega
    simp only [run, e, ih (advance p op.size) h2, total, List.map_cons]
    simp [advance, Nat.add_assoc]

/-- **sticky**: after the first item that does not fit, neither it nor any later item is transferred: memory is
    untouched, every result is zero, and the cursor keeps counting. -/
theorem sticky (m : Mem) (p : Pk) (op : Op) (rest : List Op) (h : p.size < p.cur + op.size) :
    run m p (op :: rest) = (m, advance p (total (op :: rest)), (op :: rest).map zeroOut) := by
  have e := all_or_nothing m p op h
  have h2 : (advance p op.size).size < (advance p op.size).cur := by simp only [advance]; omega
  simp only [run, e, sticky_overflowed m (advance p op.size) rest h2, total, List.map_cons]
  simp [advance, Nat.add_assoc]

example : run (fun _ => 9) ⟨0, 3, 2⟩ [.unpackU16le, .unpackBytes 1, .packNull 0, .unpackU8] =
    ((fun _ => 9), ⟨0, 3, 6⟩, [.val 0, .bytes [0], .unit, .val 0]) := by
  rw [sticky _ _ _ _ (by decide)]; rfl

/-- **exact_fit_transfers** (stated for `cursor + size ≤ n`, which includes the exact fit `= n`): a packer
    stores exactly its byte string under the old cursor; an unpacker yields exactly the value of the bytes
    under the old cursor. -/
theorem fit_transfers (m : Mem) (p : Pk) (op : Op) (h : p.cur + op.size ≤ p.size) :
    (∀ bs, packed op = some bs → readBytes (step m p op).1 (p.base + p.cur) op.size = bs) ∧
    (packed op = none → some (step m p op).2.2 = unpacked op (readBytes m (p.base + p.cur) op.size)) := by
  constructor
  · intro bs hp
    have hl := packed_length op bs hp
    rw [step_pack m p op bs hp]
    have hf : fits p bs.length = true := by simp only [fits, decide_eq_true_eq]; omega
    simp only [packRaw, hf, if_true]
    rw [← hl]; exact readBytes_writeBytes _ _ _
  · intro hp
    have hf : ∀ n, n = op.size → fits p n = true := by
      intro n hn; simp only [fits, decide_eq_true_eq]; omega
    cases op <;> simp [packed] at hp <;>
      simp [step, unpackBytes, unpackSkip, unpackChar, unpackS8, unpackU8, unpackU16le, unpackU32le, Op.size, unpacked,
        readBytes] at hf ⊢ <;> simp [hf, Nat.add_assoc]

theorem exact_fit_transfers (m : Mem) (p : Pk) (op : Op) (h : p.cur + op.size = p.size) :
    (∀ bs, packed op = some bs → readBytes (step m p op).1 (p.base + p.cur) op.size = bs) ∧
    (packed op = none → some (step m p op).2.2 = unpacked op (readBytes m (p.base + p.cur) op.size)) :=
  fit_transfers m p op (by omega)

example : (step (fun _ => 0) ⟨5, 4, 0⟩ (.packU32le 0xdeadbeef#32)).1 8 = 0xde := by decide
example : (step (fun i => if i = 8 then 0xde else 0) ⟨5, 4, 0⟩ .unpackU32le).2.2 = .val 0xde000000 := by decide

/-! ### the counters -/

/-- **consumed_counts_all**: the cursor — and `rf_pack_consumed` whenever it fits an `int` — counts every
    requested byte, transferred or not. -/
theorem consumed_counts_all (m : Mem) (p : Pk) (ops : List Op) :
    (run m p ops).2.1.cur = p.cur + total ops ∧
    (p.cur + total ops < 2147483648 → consumed (run m p ops).2.1 = ((p.cur + total ops : Nat) : Int)) := by
  rw [run_pk]
  refine ⟨rfl, fun h => ?_⟩
  simp only [consumed, advance]
  exact wrap32_id _ (by omega) (by omega)

/-- **remaining_negative_on_overflow**: inside the property's scope (sizes below 2^31) `rf_pack_remaining`
    is `n` minus all requested bytes, hence negative exactly when some item did not fit. -/
theorem remaining_negative_on_overflow (m : Mem) (p : Pk) (ops : List Op)
    (hs : p.size < 2147483648) (ht : p.cur + total ops < 2147483648) :
    remaining (run m p ops).2.1 = (p.size : Int) - ((p.cur + total ops : Nat) : Int) ∧
    (remaining (run m p ops).2.1 < 0 ↔ p.size < p.cur + total ops) := by
  rw [run_pk]
  simp only [remaining, advance]
  have : wrap32 ((p.size : Int) - ((p.cur + total ops : Nat) : Int)) = (p.size : Int) - ((p.cur + total ops : Nat) : Int) :=
    wrap32_id _ (by omega) (by omega)
  rw [this]
  exact ⟨rfl, by omega⟩

example : remaining (run (fun _ => 0) ⟨0, 3, 0⟩ [.packU16le 1#16, .packU16le 2#16]).2.1 = -1 := by decide

/-! ### byte order -/

/-- **layout_le**: byte `i` of a little-endian item holds bits `8i … 8i+7` of the value (16- and 32-bit, signed
    and unsigned packers) -/
theorem layout_le :
    (∀ v : BitVec 16, (encU16le v).map UInt8.toBitVec = [v.extractLsb' 0 8, v.extractLsb' 8 8]) ∧
    (∀ v : BitVec 16, (encS16le v).map UInt8.toBitVec = [v.extractLsb' 0 8, v.extractLsb' 8 8]) ∧
    (∀ v : BitVec 32, (encU32le v).map UInt8.toBitVec =
        [v.extractLsb' 0 8, v.extractLsb' 8 8, v.extractLsb' 16 8, v.extractLsb' 24 8]) ∧
    (∀ v : BitVec 32, (encS32le v).map UInt8.toBitVec =
        [v.extractLsb' 0 8, v.extractLsb' 8 8, v.extractLsb' 16 8, v.extractLsb' 24 8]) := by
  refine ⟨?_, ?_, ?_, ?_⟩ <;> intro v <;>
    simp only [encU16le, encS16le, encU32le, encS32le, b8, List.map_cons, List.map_nil, List.cons.injEq, and_true] <;>
    refine ⟨?_, ?_⟩ <;> (try refine ⟨?_, ?_, ?_⟩) <;> bv_decide (config := { timeout := 300 })

/-- **layout_be**: the big-endian packer stores the most significant byte first -/
theorem layout_be (v : BitVec 16) : (encU16be v).map UInt8.toBitVec = [v.extractLsb' 8 8, v.extractLsb' 0 8] := by
  simp only [encU16be, b8, List.map_cons, List.map_nil, List.cons.injEq, and_true]
  refine ⟨?_, ?_⟩ <;> bv_decide (config := { timeout := 300 })

/-- decoding the bytes a little-endian packer stores gives back the value: all 2^16 values -/
theorem dec16_encU16le (v : BitVec 16) : ∃ a b, encU16le v = [a, b] ∧ dec16 a b = v := by
  refine ⟨_, _, rfl, ?_⟩
  simp only [dec16, b8]; bv_decide (config := { timeout := 300 })

theorem dec16_encS16le (v : BitVec 16) : ∃ a b, encS16le v = [a, b] ∧ dec16 a b = v := by
  refine ⟨_, _, rfl, ?_⟩
  simp only [dec16, b8]; bv_decide (config := { timeout := 300 })

/-- all 2^32 values -/
theorem dec32_encU32le (v : BitVec 32) : ∃ a b c d, encU32le v = [a, b, c, d] ∧ dec32 a b c d = v := by
  refine ⟨_, _, _, _, rfl, ?_⟩
  simp only [dec32, b8]; bv_decide (config := { timeout := 300 })

theorem dec32_encS32le (v : BitVec 32) : ∃ a b c d, encS32le v = [a, b, c, d] ∧ dec32 a b c d = v := by
  refine ⟨_, _, _, _, rfl, ?_⟩
  simp only [dec32, b8]; bv_decide (config := { timeout := 300 })

/-! ### back to back, round trip -/

/-- the seven implemented packers with their arguments -/
inductive POp where
  | bytes (bs : List UInt8) | null (n : Nat)
  | s16le (v : BitVec 16) | u16be (v : BitVec 16) | u16le (v : BitVec 16)
  | s32le (v : BitVec 32) | u32le (v : BitVec 32)

def POp.toOp : POp → Op
  | .bytes bs => .packBytes bs | .null n => .packNull n
  | .s16le v => .packS16le v | .u16be v => .packU16be v | .u16le v => .packU16le v
  | .s32le v => .packS32le v | .u32le v => .packU32le v

/-- the bytes the packer stores -/
def POp.stored : POp → List UInt8
  | .bytes bs => bs | .null n => List.replicate n 0
  | .s16le v => encS16le v | .u16be v => encU16be v | .u16le v => encU16le v
  | .s32le v => encS32le v | .u32le v => encU32le v

/-- the implemented unpacker that reads the item back (`pack.c` has no big-endian or signed unpacker: a
    big-endian item is read back as two raw bytes, a signed one through the unsigned unpacker) -/
def POp.readBack : POp → Op
  | .bytes bs => .unpackBytes bs.length | .null n => .unpackBytes n
  | .s16le _ => .unpackU16le | .u16be _ => .unpackBytes 2 | .u16le _ => .unpackU16le
  | .s32le _ => .unpackU32le | .u32le _ => .unpackU32le

/-- what reading back must yield: the original value (its bit pattern for the signed packers) -/
def POp.expect : POp → Out
  | .bytes bs => .bytes bs | .null n => .bytes (List.replicate n 0)
  | .s16le v => .val v.toNat | .u16le v => .val v.toNat
  | .u16be v => .bytes [UInt8.ofBitVec (v.extractLsb' 8 8), UInt8.ofBitVec (v.extractLsb' 0 8)]
  | .s32le v => .val v.toNat | .u32le v => .val v.toNat

theorem POp.packed_toOp (q : POp) : packed q.toOp = some q.stored := by cases q <;> rfl
theorem POp.packed_readBack (q : POp) : packed q.readBack = none := by cases q <;> rfl
theorem POp.size_toOp (q : POp) : q.toOp.size = q.stored.length := by
  cases q <;> simp [POp.toOp, POp.stored, Op.size, encS16le, encU16be, encU16le, encS32le, encU32le]
theorem POp.size_readBack (q : POp) : q.readBack.size = q.stored.length := by
  cases q <;> simp [POp.readBack, POp.stored, Op.size, encS16le, encU16be, encU16le, encS32le, encU32le]

theorem encU16be_eq (v : BitVec 16) :
    encU16be v = [UInt8.ofBitVec (v.extractLsb' 8 8), UInt8.ofBitVec (v.extractLsb' 0 8)] := by
  simp only [encU16be, b8, List.cons.injEq, and_true]
  refine ⟨?_, ?_⟩ <;> congr 1 <;> bv_decide (config := { timeout := 300 })

/-- per item: decoding the stored bytes with the mirror unpacker gives the original value -/
theorem POp.unpacked_stored (q : POp) : unpacked q.readBack q.stored = some q.expect := by
  cases q with
  | bytes bs => rfl
  | null n => rfl
  | s16le v => obtain ⟨a, b, e, h⟩ := dec16_encS16le v; simp [POp.readBack, POp.stored, POp.expect, e, unpacked, h]
  | u16le v => obtain ⟨a, b, e, h⟩ := dec16_encU16le v; simp [POp.readBack, POp.stored, POp.expect, e, unpacked, h]
  | u16be v => simp [POp.readBack, POp.stored, POp.expect, unpacked, encU16be_eq]
  | s32le v => obtain ⟨a, b, c, d, e, h⟩ := dec32_encS32le v; simp [POp.readBack, POp.stored, POp.expect, e, unpacked, h]
  | u32le v => obtain ⟨a, b, c, d, e, h⟩ := dec32_encU32le v; simp [POp.readBack, POp.stored, POp.expect, e, unpacked, h]

theorem total_toOp (ps : List POp) : total (ps.map POp.toOp) = (ps.flatMap POp.stored).length := by
  induction ps with
  | nil => rfl
  | cons q ps ih => simp [total, ih, POp.size_toOp]

theorem total_readBack (ps : List POp) : total (ps.map POp.readBack) = (ps.flatMap POp.stored).length := by
  induction ps with
  | nil => rfl
  | cons q ps ih => simp [total, ih, POp.size_readBack]

/-- **back_to_back**: packers whose items all fit leave, from the starting cursor on, exactly the
    concatenation of their byte strings — no gaps, no overlap, later items never disturb earlier ones. -/
theorem back_to_back (m : Mem) (p : Pk) (ps : List POp) (h : p.cur + total (ps.map POp.toOp) ≤ p.size) :
    readBytes (run m p (ps.map POp.toOp)).1 (p.base + p.cur) (total (ps.map POp.toOp)) = ps.flatMap POp.stored := by
  induction ps generalizing m p with
  | nil => rfl
  | cons q ps ih =>
    simp only [List.map_cons, total, run, List.flatMap_cons] at h ⊢
    rw [readBytes_append]
    have hp1 : (step m p q.toOp).2.1 = advance p q.toOp.size := step_pk m p q.toOp
    congr 1
    · rw [readBytes_congr _ (step m p q.toOp).1 _ _ (fun i h1 h2 => run_mem_eq _ _ _ i (by rw [hp1]; simp only [advance]; omega))]
      exact (fit_transfers m p q.toOp (by omega)).1 _ q.packed_toOp
    · have := ih (step m p q.toOp).1 (step m p q.toOp).2.1 (by rw [hp1]; simp only [advance]; omega)
      rw [hp1] at this ⊢
      simp only [advance, Nat.add_assoc] at this ⊢
      exact this

/-- reading a buffer that holds the concatenated byte strings with the mirror unpackers yields the values -/
theorem read_back (m : Mem) (p : Pk) (ps : List POp)
    (hm : readBytes m (p.base + p.cur) (total (ps.map POp.readBack)) = ps.flatMap POp.stored)
    (h : p.cur + total (ps.map POp.readBack) ≤ p.size) :
    (run m p (ps.map POp.readBack)).2.2 = ps.map POp.expect := by
  induction ps generalizing p with
  | nil => rfl
  | cons q ps ih =>
    simp only [List.map_cons, total, run, List.flatMap_cons] at h hm ⊢
    rw [readBytes_append] at hm
    have hl : (readBytes m (p.base + p.cur) q.readBack.size).length = q.stored.length := by
      rw [readBytes_length, POp.size_readBack]
    obtain ⟨e1, e2⟩ := List.append_inj hm hl
    have hmem : (step m p q.readBack).1 = m := step_unpack_mem m p q.readBack q.packed_readBack
    have hp1 : (step m p q.readBack).2.1 = advance p q.readBack.size := step_pk m p q.readBack
    have hout := (fit_transfers m p q.readBack (by omega)).2 q.packed_readBack
    rw [e1, POp.unpacked_stored] at hout
    rw [hmem, hp1]
    congr 1
    · exact Option.some.inj hout
    · apply ih
      · simp only [advance, Nat.add_assoc] at e2 ⊢; exact e2
      · simp only [advance]; omega

/-- **unpack_pack_roundtrip**: for every list of packers with every argument value (all 2^16 / 2^32 values, all
    byte strings) whose items fit, rewinding the cursor and unpacking with the mirror unpackers returns exactly
    the original values, in order. -/
theorem unpack_pack_roundtrip (m : Mem) (p : Pk) (ps : List POp) (h : p.cur + total (ps.map POp.toOp) ≤ p.size) :
    (run (run m p (ps.map POp.toOp)).1 p (ps.map POp.readBack)).2.2 = ps.map POp.expect := by
  have e : total (ps.map POp.readBack) = total (ps.map POp.toOp) := by rw [total_readBack, total_toOp]
  apply read_back
  · rw [e]; exact back_to_back m p ps h
  · rw [e]; exact h

example : (run (run (fun _ => 0xee) ⟨3, 9, 0⟩ ([POp.u32le 0xfffefdfc#32, .s16le 0x8001#16, .u16be 0x1234#16, .null 1].map POp.toOp)).1
      ⟨3, 9, 0⟩ ([POp.u32le 0xfffefdfc#32, .s16le 0x8001#16, .u16be 0x1234#16, .null 1].map POp.readBack)).2.2 =
    [.val 0xfffefdfc, .val 0x8001, .bytes [0x12, 0x34], .bytes [0]] := by decide

/-- **null_src_zeros**: `rf_pack_bytes(pack, NULL, n)` that fits stores `n` zero bytes -/
theorem null_src_zeros (m : Mem) (p : Pk) (n : Nat) (h : p.cur + n ≤ p.size) :
    readBytes (step m p (.packNull n)).1 (p.base + p.cur) n = List.replicate n 0 :=
  (fit_transfers m p (.packNull n) h).1 _ rfl

/-- **null_dst_skips**: `rf_unpack_bytes(pack, NULL, n)` only moves the cursor: memory and every later result are
    those of the list without it, read `n` bytes further on -/
theorem null_dst_skips (m : Mem) (p : Pk) (n : Nat) (rest : List Op) :
    step m p (.unpackSkip n) = (m, advance p n, .unit) ∧
    run m p (.unpackSkip n :: rest) =
      ((run m (advance p n) rest).1, (run m (advance p n) rest).2.1, .unit :: (run m (advance p n) rest).2.2) :=
  ⟨rfl, rfl⟩

end Librfn.C12

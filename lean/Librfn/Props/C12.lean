import Librfn.Model.Pack
/-!
# C12 — pack/unpack never leaves the buffer, fails stickily, uses fixed byte order

Model: `Librfn.Model.Pack` (hand transcription of `pack.c`).  All theorems quantify over an arbitrary
memory, buffer position `base`, buffer size, cursor and — where stated — an arbitrary list of calls.
-/
namespace Librfn.C12
open Librfn.Model.Pack

/-! ### memory lemmas -/

theorem writeBytes_outside (m : Mem) (a : Nat) (bs : List UInt8) (i : Nat) (h : i < a ∨ a + bs.length ≤ i) :
    writeBytes m a bs i = m i := by
  induction bs generalizing m a with
  | nil => rfl
  | cons b bs ih =>
    simp only [writeBytes, List.length_cons] at *
    rw [ih _ _ (by omega)]
    have : i ≠ a := by omega
    simp [this]

end Librfn.C12

import Librfn.Gen.BitopsSeq
import Librfn.Gen.ConstexprSeq
import Std.Tactic.BVDecide
/-!
# C16 — bit-counting helpers equal their mathematical definitions on all inputs

The definitions under `Librfn.Gen` are *regenerated from /repo on every run* (tie T); the theorems
below are therefore re-checked against what `bitops.c` / `constexpr.h` say now.

Specifications (independent of the code):
* `popcount x`  = number of `i < w` with bit `i` of `x` set (a `countP` over `List.range w`);
* leading zeros = core `BitVec.clz`; trailing zeros = `clz` of the bit reversal;
  both are additionally characterised arithmetically (`clz_char`, `ctz_char`) so the
  specification does not rest on reading core's definition.
-/
namespace Librfn.C16
/-! The generated definitions (tools/c2lean2.py: helper functions inlined, loops unrolled 32×, constant tables as
if-chains) return a structure; `bitcnt` … below are their values, `*_total` says that no undefined operation is executed and
no loop needs more than the unrolling on any input. -/
def bitcnt (x : BitVec 32) : BitVec 32 := (Librfn.Gen.BitopsSeq.bitcnt x).ret
def clz (x : BitVec 32) : BitVec 32 := (Librfn.Gen.BitopsSeq.clz x).ret
def ctz (x : BitVec 32) : BitVec 32 := (Librfn.Gen.BitopsSeq.ctz x).ret
def ilog2 (x : BitVec 32) : BitVec 32 := (Librfn.Gen.BitopsSeq.ilog2 x).ret
def w_const_pop (c : BitVec 64) : BitVec 32 := (Librfn.Gen.ConstexprSeq.w_const_pop c).ret
def w_const_lssb (c : BitVec 64) : BitVec 32 := (Librfn.Gen.ConstexprSeq.w_const_lssb c).ret

/-- number of one bits, as a natural number -/
def popcount {w : Nat} (x : BitVec w) : Nat := (List.range w).countP (fun i => x.getLsbD i)

/-- the same number as a sum of 0/1 bit values, in the 32-bit `int` the C functions return -/
def popSum32 (x : BitVec 32) : BitVec 32 :=
  (List.range 32).foldl (fun acc i => acc + ((x >>> i) &&& 1#32)) 0#32
def popSum64 (x : BitVec 64) : BitVec 32 :=
  (List.range 64).foldl (fun acc i => acc + BitVec.setWidth 32 ((x >>> i) &&& 1#64)) 0#32

theorem bitcnt_eq_popSum (x : BitVec 32) : bitcnt x = popSum32 x := by
  unfold bitcnt Librfn.Gen.BitopsSeq.bitcnt popSum32; simp only [List.range, List.range.loop, List.foldl]; bv_decide (config := { timeout := 300 })

theorem clz_eq (x : BitVec 32) : clz x = x.clz := by
  unfold clz Librfn.Gen.BitopsSeq.clz; bv_decide (config := { timeout := 300 })

theorem ctz_eq (x : BitVec 32) : ctz x = x.reverse.clz := by
  unfold ctz Librfn.Gen.BitopsSeq.ctz; bv_decide (config := { timeout := 300 })

/-- `ilog2` (precondition `x ≠ 0`, the C `assert`): position of the highest set bit -/
theorem ilog2_eq (x : BitVec 32) (_h : x ≠ 0) : ilog2 x = 31#32 - x.clz := by
  unfold ilog2 Librfn.Gen.BitopsSeq.ilog2; bv_decide (config := { timeout := 300 })

theorem const_pop_eq_popSum (c : BitVec 64) : w_const_pop c = popSum64 c := by
  unfold w_const_pop Librfn.Gen.ConstexprSeq.w_const_pop popSum64; simp only [List.range, List.range.loop, List.foldl]; bv_decide (config := { timeout := 300 })

/-- `const_lssb`: index of the lowest set bit, `-1` for zero -/
theorem const_lssb_eq (c : BitVec 64) :
    w_const_lssb c = if c = 0 then (-1 : BitVec 32) else BitVec.setWidth 32 c.reverse.clz := by
  unfold w_const_lssb Librfn.Gen.ConstexprSeq.w_const_lssb; bv_decide (config := { timeout := 300 })


/-- no helper executes an undefined operation (a shift by ≥ 32, an index outside a table) and every loop of the
    generated code ends within the unrolling, on every input (`ilog2`: every non-zero input, the C `assert`) -/
theorem helpers_total (x : BitVec 32) (c : BitVec 64) :
    (Librfn.Gen.BitopsSeq.bitcnt x).ub = false ∧ (Librfn.Gen.BitopsSeq.bitcnt x).exh = false ∧
    (Librfn.Gen.BitopsSeq.clz x).ub = false ∧ (Librfn.Gen.BitopsSeq.clz x).exh = false ∧
    (Librfn.Gen.BitopsSeq.ctz x).ub = false ∧ (Librfn.Gen.BitopsSeq.ctz x).exh = false ∧
    (x ≠ 0#32 → (Librfn.Gen.BitopsSeq.ilog2 x).ub = false ∧ (Librfn.Gen.BitopsSeq.ilog2 x).exh = false) ∧
    (Librfn.Gen.ConstexprSeq.w_const_pop c).ub = false ∧ (Librfn.Gen.ConstexprSeq.w_const_pop c).exh = false ∧
    (Librfn.Gen.ConstexprSeq.w_const_lssb c).ub = false ∧ (Librfn.Gen.ConstexprSeq.w_const_lssb c).exh = false := by
  unfold Librfn.Gen.BitopsSeq.bitcnt Librfn.Gen.BitopsSeq.clz Librfn.Gen.BitopsSeq.ctz Librfn.Gen.BitopsSeq.ilog2
    Librfn.Gen.ConstexprSeq.w_const_pop Librfn.Gen.ConstexprSeq.w_const_lssb
  bv_decide (config := { timeout := 300 })

/-! ## From the bit-vector statements to the arithmetic wording of the property (kernel-only) -/

theorem bit_toNat {w : Nat} (x : BitVec w) (i : Nat) (hw : 0 < w) :
    ((x >>> i) &&& 1#w).toNat = if x.getLsbD i then 1 else 0 := by
  rw [BitVec.toNat_and, BitVec.toNat_ushiftRight]
  have h1 : (1#w).toNat = 1 := by
    simp only [BitVec.toNat_ofNat]; exact Nat.mod_eq_of_lt (Nat.one_lt_two_pow (by omega))
  rw [h1, Nat.and_one_is_mod, BitVec.getLsbD, Nat.testBit, Nat.one_and_eq_mod_two]
  by_cases h : x.toNat >>> i % 2 = 1 <;> simp [h]
  omega

theorem popSum32_fold (x : BitVec 32) (n : Nat) (hn : n ≤ 32) :
    ((List.range n).foldl (fun acc i => acc + ((x >>> i) &&& 1#32)) 0#32).toNat
      = (List.range n).countP (fun i => x.getLsbD i) ∧
    (List.range n).countP (fun i => x.getLsbD i) ≤ n := by
  induction n with
  | zero => simp
  | succ n ih =>
    obtain ⟨h1, h2⟩ := ih (by omega)
    rw [List.range_succ, List.foldl_append, List.countP_append]
    simp only [List.foldl, List.countP_cons, List.countP_nil]
    rw [BitVec.toNat_add, h1, bit_toNat x n (by omega)]
    constructor
    · split <;> simp <;> omega
    · split <;> simp <;> omega

theorem popSum64_fold (x : BitVec 64) (n : Nat) (hn : n ≤ 64) :
    ((List.range n).foldl (fun acc i => acc + BitVec.setWidth 32 ((x >>> i) &&& 1#64)) 0#32).toNat
      = (List.range n).countP (fun i => x.getLsbD i) ∧
    (List.range n).countP (fun i => x.getLsbD i) ≤ n := by
  induction n with
  | zero => simp
  | succ n ih =>
    obtain ⟨h1, h2⟩ := ih (by omega)
    rw [List.range_succ, List.foldl_append, List.countP_append]
    simp only [List.foldl, List.countP_cons, List.countP_nil]
    rw [BitVec.toNat_add, h1, BitVec.toNat_setWidth, bit_toNat x n (by omega)]
    constructor
    · split <;> simp <;> omega
    · split <;> simp <;> omega

/-- **bitcnt(x) is the number of one bits**, for every 32-bit `x` -/
theorem bitcnt_is_popcount (x : BitVec 32) : (bitcnt x).toNat = popcount x := by
  rw [bitcnt_eq_popSum]; exact (popSum32_fold x 32 (by omega)).1

/-- **const_pop(c) is the number of one bits**, for every 64-bit `c` -/
theorem const_pop_is_popcount (c : BitVec 64) : (w_const_pop c).toNat = popcount c := by
  rw [const_pop_eq_popSum]; exact (popSum64_fold c 64 (by omega)).1

/-- **clz**: 32 at zero; otherwise the highest set bit is bit `31 - clz x` -/
theorem clz_char (x : BitVec 32) :
    (x = 0 → clz x = 32#32) ∧
    (x ≠ 0 → (clz x).toNat ≤ 31 ∧ 2 ^ (31 - (clz x).toNat) ≤ x.toNat ∧ x.toNat < 2 ^ (32 - (clz x).toNat)) := by
  rw [clz_eq]
  refine ⟨fun h => by subst h; exact BitVec.clz_eq_iff_eq_zero.mpr rfl, fun h => ?_⟩
  have h1 := BitVec.two_pow_sub_clz_le_toNat_of_ne_zero (x := x) (by omega) h
  have h2 := BitVec.toNat_lt_two_pow_sub_clz (x := x)
  have h3 : x.clz < 32#32 := BitVec.clz_lt_iff_ne_zero.mpr h
  have h4 : x.clz.toNat < 32 := by simpa [BitVec.lt_def] using h3
  exact ⟨by omega, by simpa using h1, h2⟩

/-- **ilog2**: for `x > 0`, `2^ilog2(x) ≤ x < 2^(ilog2(x)+1)` -/
theorem ilog2_char (x : BitVec 32) (h : x ≠ 0) :
    2 ^ (ilog2 x).toNat ≤ x.toNat ∧ x.toNat < 2 ^ ((ilog2 x).toNat + 1) := by
  obtain ⟨h0, h1, h2⟩ := (clz_char x).2 h
  rw [ilog2_eq x h, ← clz_eq]
  have e : (31#32 - clz x).toNat = 31 - (clz x).toNat := by
    rw [BitVec.toNat_sub]; simp; omega
  rw [e]
  refine ⟨h1, ?_⟩
  have : 31 - (clz x).toNat + 1 = 32 - (clz x).toNat := by omega
  rw [this]; exact h2

/-- **ctz**: 32 at zero; otherwise bit `ctz x` is set and every lower bit is clear -/
theorem ctz_char (x : BitVec 32) :
    (x = 0 → ctz x = 32#32) ∧
    (x ≠ 0 → x.getLsbD (ctz x).toNat = true ∧ ∀ i, i < (ctz x).toNat → x.getLsbD i = false) := by
  rw [ctz_eq, ← BitVec.ctz_eq_reverse_clz]
  refine ⟨fun h => ?_, fun h => ?_⟩
  · subst h
    rw [BitVec.ctz_eq_reverse_clz]
    have : (0#32).reverse = 0#32 := BitVec.reverse_eq_zero_iff.mpr rfl
    change (BitVec.reverse (0#32)).clz = 32#32
    rw [this]
    exact BitVec.clz_eq_iff_eq_zero.mpr rfl
  exact ⟨BitVec.getLsbD_true_ctz_of_ne_zero h, fun i hi => BitVec.getLsbD_false_of_lt_ctz hi⟩

/-- **const_lssb**: −1 at zero; otherwise the index of the lowest set bit -/
theorem const_lssb_char (c : BitVec 64) :
    (c = 0 → w_const_lssb c = -1) ∧
    (c ≠ 0 → (w_const_lssb c).toNat < 64 ∧ c.getLsbD (w_const_lssb c).toNat = true ∧
       ∀ i, i < (w_const_lssb c).toNat → c.getLsbD i = false) := by
  rw [const_lssb_eq, ← BitVec.ctz_eq_reverse_clz]
  refine ⟨fun h => by simp [h], fun h => ?_⟩
  have hlt : c.ctz < 64#64 := BitVec.ctz_lt_iff_ne_zero.mpr h
  have hlt' : c.ctz.toNat < 64 := by simpa [BitVec.lt_def] using hlt
  have e : (BitVec.setWidth 32 c.ctz).toNat = c.ctz.toNat := by
    rw [BitVec.toNat_setWidth]; omega
  simp only [h, if_false, e]
  exact ⟨hlt', BitVec.getLsbD_true_ctz_of_ne_zero h, fun i hi => BitVec.getLsbD_false_of_lt_ctz hi⟩

/-- `regdump.c` prints each register field as `(reg & mask) >> ctz(mask)` (the one in-library use of `ctz`):
    for a contiguous field mask of width `n ≥ 1` at bit position `s` (`n + s ≤ 32`) that is exactly the field's
    value `(reg >> s) & (2^n − 1)`, through the generated `ctz` -/
theorem regdump_field_extraction (reg n s : BitVec 32) (hn : 1#32 ≤ n) (hs : n + s ≤ 32#32) (hn' : n ≤ 32#32) (hs' : s ≤ 32#32) :
    (reg &&& ((if n = 32#32 then 0xffffffff#32 else (1#32 <<< n) - 1#32) <<< s))
        >>> (ctz ((if n = 32#32 then 0xffffffff#32 else (1#32 <<< n) - 1#32) <<< s))
      = (reg >>> s) &&& (if n = 32#32 then 0xffffffff#32 else (1#32 <<< n) - 1#32) := by
  unfold ctz Librfn.Gen.BitopsSeq.ctz
  bv_decide (config := { timeout := 300 })

-- non-vacuity / sanity: concrete values through the generated code
example : bitcnt 0xF0F01234#32 = 13#32 ∧ clz 0x00010000#32 = 15#32 ∧ ctz 0x00010000#32 = 16#32
    ∧ ilog2 0x00010000#32 = 16#32 ∧ w_const_lssb 0#64 = -1 ∧ w_const_pop 0xFFFFFFFFFFFFFFFF#64 = 64#32 := by decide

end Librfn.C16

import Librfn.Gen.Skeleton
import Librfn.Props.C05
import Librfn.Props.C04
/-!
# C07 — the lock-free structures are data-race-free under the C11 memory model

The argument has the shape of the DRF-SC theorem (Boehm–Adve; adopted by C11 §5.1.2.4): a program all of whose
atomic operations are `seq_cst` is data-race-free iff no *sequentially consistent* execution contains two
conflicting plain accesses by different threads that are simultaneously enabled (adjacent).  Hence two
obligations, both tied to the current source:

(a) **static, tie S** — on the atomic-operation skeleton that `tools/skeleton.py` extracts from `ringbuf.c`,
    `messageq.c`/`messageq.h` and the wake-up path of `fibre.c` on every run: every atomic operation is
    `seq_cst`; every index / flag / counter is declared `_Atomic` and is touched only by atomic operations; the
    plain payload accesses lie inside the claim…send / receive…release (load…store) brackets; the
    interrupt-context entry point touches nothing but the message queue.  All by `decide` on the generated table.
(b) **no adjacent conflicting plain accesses** in any reachable state of the interleaving models
    (`Librfn.C05.ring_no_adjacent_conflict`, `Librfn.C04.mq_no_adjacent_conflict`, proved from the inductive
    invariants for every interleaving, every size, every number of senders) — re-exported here in one vocabulary.

DRF-SC itself (race-free SC executions ⇒ only SC behaviour) is trusted, not proved.  The run-time side of the
check evaluates the happens-before race detector `Librfn.Model.HB` (proved sound in `Props/C07HB.lean`) on logged
executions of the real code, with the memory order every atomic operation was actually given.
-/
namespace Librfn.C07
open Librfn.Skeleton

/-! ## (a) static obligations on the extracted skeleton -/

/-- the wake-up path of fibre.c as the models of C04/C06 assume it: `fibre_run_atomic` = claim; plain store of the
fibre pointer into the claimed buffer; send — `handle_atomic_runq` = loop { receive; plain load of the fibre
pointer; queue it; release } — `get_next_wakeup` checks the atomic queue first — `add_taint` is one atomic or -/
def fibreSkeleton : List Func := [
  ⟨"add_taint", [⟨.fetchOr, "kernel.taint_flags", .seqCst, .na, []⟩]⟩,
  ⟨"handle_atomic_runq", [
    ⟨.call, "messageq_receive", .na, .na, ["loop#1.cond"]⟩,
    ⟨.plainRead, "*f", .na, .na, ["loop#1.body"]⟩,
    ⟨.call, "make_runnable", .na, .na, ["loop#1.body"]⟩,
    ⟨.call, "messageq_release", .na, .na, ["loop#1.body"]⟩]⟩,
  ⟨"get_next_wakeup", [
    ⟨.call, "messageq_empty", .na, .na, ["if#1.cond"]⟩,
    ⟨.call, "list_empty", .na, .na, ["if#1.cond", "sc#1.rhs"]⟩,
    ⟨.plainRead, "kernel.now", .na, .na, ["if#1.then"]⟩,
    ⟨.call, "list_empty", .na, .na, ["if#2.cond"]⟩,
    ⟨.plainRead, "kernel.now", .na, .na, ["if#2.then"]⟩,
    ⟨.call, "list_peek", .na, .na, []⟩,
    ⟨.plainRead, "fibre->duetime", .na, .na, []⟩]⟩,
  ⟨"fibre_run_atomic", [
    ⟨.call, "messageq_claim", .na, .na, []⟩,
    ⟨.call, "add_taint", .na, .na, ["if#1.then"]⟩,
    ⟨.plainWrite, "*queued_fibre", .na, .na, []⟩,
    ⟨.call, "messageq_send", .na, .na, []⟩]⟩,
  ⟨"fibre_eventq_claim", [
    ⟨.call, "messageq_claim", .na, .na, []⟩,
    ⟨.call, "add_taint", .na, .na, ["if#1.then"]⟩]⟩,
  ⟨"fibre_eventq_send", [
    ⟨.call, "messageq_send", .na, .na, []⟩,
    ⟨.call, "fibre_run_atomic", .na, .na, []⟩]⟩,
  ⟨"fibre_eventq_empty", [⟨.call, "messageq_empty", .na, .na, []⟩]⟩,
  ⟨"fibre_eventq_receive", [⟨.call, "messageq_receive", .na, .na, []⟩]⟩,
  ⟨"fibre_eventq_release", [⟨.call, "messageq_release", .na, .na, []⟩]⟩]

/-- tie S for fibre.c: the extracted access sites of the wake-up path are the ones assumed -/
theorem skeleton_matches_fibre : coreFuncs [] Librfn.Gen.Skeleton.fibre.funcs = coreFuncs [] fibreSkeleton := by decide

/-- every atomic operation and fence in all three units is `seq_cst` -/
theorem all_units_seqcst :
    Librfn.Gen.Skeleton.ringbuf.allSeqCst = true ∧ Librfn.Gen.Skeleton.messageq.allSeqCst = true ∧
    Librfn.Gen.Skeleton.fibre.allSeqCst = true := by decide

/-- the shared indices / counters / flags are `_Atomic` and only ever accessed by atomic operations;
`receivep` is plain and is accessed only by the receiver-side functions -/
theorem shared_fields_atomic :
    Librfn.Gen.Skeleton.ringbuf.fieldAtomic "ringbuf_t" "readi" = true ∧
    Librfn.Gen.Skeleton.ringbuf.fieldAtomic "ringbuf_t" "writei" = true ∧
    Librfn.Gen.Skeleton.ringbuf.onlyAtomicAccess ["rb->readi", "rb->writei"] = true ∧
    Librfn.Gen.Skeleton.messageq.fieldAtomic "messageq_t" "num_free" = true ∧
    Librfn.Gen.Skeleton.messageq.fieldAtomic "messageq_t" "sendp" = true ∧
    Librfn.Gen.Skeleton.messageq.fieldAtomic "messageq_t" "full_flags" = true ∧
    Librfn.Gen.Skeleton.messageq.onlyAtomicAccess ["mq->num_free", "mq->sendp", "mq->full_flags"] = true ∧
    Librfn.Gen.Skeleton.fibre.fieldAtomic "kernel" "taint_flags" = true ∧
    Librfn.Gen.Skeleton.fibre.onlyAtomicAccess ["kernel.taint_flags"] = true := by decide

/-- functions of a unit that touch `obj` with a plain access -/
def plainUsers (u : CUnit) (obj : String) : List String :=
  (u.funcs.filter fun f => f.sites.any fun s => s.obj == obj && (s.kind == .plainRead || s.kind == .plainWrite)).map (·.name)

/-- single-owner bookkeeping: the plain field `receivep` is touched by the receiver-side functions only, and the
sender-side functions (`messageq_claim`, `messageq_send`) perform no plain write to the queue structure at all -/
theorem receivep_single_owner :
    plainUsers Librfn.Gen.Skeleton.messageq "mq->receivep" = ["messageq_receive", "messageq_empty"] ∧
    ((Librfn.Gen.Skeleton.messageq.funcs.filter fun f => f.name == "messageq_claim" || f.name == "messageq_send").all
        fun f => f.sites.all fun s => s.kind != .plainWrite) = true := by decide

/-- the interrupt-context entry point touches shared state only through the message queue API and the atomic
taint flags, plus one plain store into the buffer it has claimed and not yet sent -/
theorem isr_entry_touches_only_the_queue :
    (Librfn.Gen.Skeleton.fibre.funcs.find? (·.name == "fibre_run_atomic")).map (·.sites.map fun s => (s.kind, s.obj))
      = some [(.call, "messageq_claim"), (.call, "add_taint"), (.plainWrite, "*queued_fibre"), (.call, "messageq_send")] := by
  decide

/-- functions of the unit that (transitively, inside the unit) reach a call of one of `targets` -/
def reaches (u : CUnit) (targets : List String) : Nat → String → Bool
  | 0, _ => false
  | fuel + 1, fn =>
    match u.funcs.find? (·.name == fn) with
    | none => false
    | some f => f.sites.any fun s => s.kind == .call && (targets.contains s.obj || reaches u targets fuel s.obj)

/-- the sender-side (interrupt-context) entry points `fibre_run_atomic`, `fibre_eventq_claim`, `fibre_eventq_send`
never reach the receiver-side queue functions (`messageq_receive`, `messageq_release`, `messageq_empty`), which
touch the single-owner field `receivep`, nor the scheduler's list functions; the event is published
(`messageq_send`) before the wake-up is posted (`fibre_run_atomic`) -/
theorem isr_side_never_touches_receiver_state :
    (["fibre_run_atomic", "fibre_eventq_claim", "fibre_eventq_send"].all fun fn =>
        !reaches Librfn.Gen.Skeleton.fibre
          ["messageq_receive", "messageq_release", "messageq_empty", "list_insert", "list_remove", "list_extract",
           "list_insert_sorted", "list_contains", "list_empty", "list_peek", "make_runnable", "handle_atomic_runq"] 8 fn) = true ∧
    (Librfn.Gen.Skeleton.fibre.funcs.find? (·.name == "fibre_eventq_send")).map (·.sites.map fun s => s.obj)
      = some ["messageq_send", "fibre_run_atomic"] := by decide

/-- payload accesses of the wake-up path lie inside the publish brackets: the fibre pointer is written after the
claim and before the send, and read after the receive and before the release -/
theorem fibre_payload_inside_publish :
    inOrder3 Librfn.Gen.Skeleton.fibre "fibre_run_atomic" (fun s => s.kind == .call && s.obj == "messageq_claim")
      (fun s => s.kind == .plainWrite && s.obj == "*queued_fibre") (fun s => s.kind == .call && s.obj == "messageq_send") = true ∧
    inOrder3 Librfn.Gen.Skeleton.fibre "handle_atomic_runq" (fun s => s.kind == .call && s.obj == "messageq_receive")
      (fun s => s.kind == .plainRead && s.obj == "*f") (fun s => s.kind == .call && s.obj == "messageq_release") = true := by decide

/-! ## (b) no sequentially consistent execution has adjacent conflicting plain accesses -/

/-- ring buffer, every reachable state of every interleaving (`Librfn.C05.ring_inv` gives `Inv`): the producer at
its payload store and the consumer at its payload load are never on the same cell -/
theorem ring_sc_race_free {s : Librfn.Model.RingConc.St} {d : UInt8} {w nw r : Nat} (hi : Librfn.C05.Inv s)
    (hp : s.p = .p2 d w nw) (hc : s.c = .c2 r) : w ≠ r :=
  Librfn.C05.ring_no_adjacent_conflict hi hp hc

/-- the same lifted to every schedule of every pair of scripts from every start position -/
theorem ring_sc_race_free_all {len k : Nat} (buf : Nat → UInt8) (h2 : 2 ≤ len) (h32 : len ≤ Librfn.Model.RingConc.U32)
    (hk : k < len) (prod : List Librfn.Model.RingConc.POp) (cons : List Librfn.Model.RingConc.COp)
    (sched : List Librfn.Model.RingConc.ThreadId) {d : UInt8} {w nw r : Nat}
    (hp : (Librfn.Model.RingConc.run ⟨Librfn.Model.RingConc.init len k buf, prod, cons⟩ sched).st.p = .p2 d w nw)
    (hc : (Librfn.Model.RingConc.run ⟨Librfn.Model.RingConc.init len k buf, prod, cons⟩ sched).st.c = .c2 r) : w ≠ r :=
  ring_sc_race_free (Librfn.C05.ring_inv buf h2 h32 hk prod cons sched) hp hc

/-- message queue (and hence the scheduler's atomic run queue and every fibre event queue, which are message
queues whose payload is accessed only inside the brackets above): in every reachable state, for any number of
senders (no bound: the free counter can no longer wrap), two claimers never hold the same buffer and a claimer's buffer differs from the one the receiver holds -/
theorem mq_sc_race_free (depth msgLen n : Nat) (hd1 : 1 ≤ depth) (hd32 : depth ≤ 32) (hm1 : 1 ≤ msgLen)
    (hm16 : msgLen < 65536) (acts : List Librfn.Model.MessageqConc.Act) :
    let s := Librfn.Model.MessageqConc.run (Librfn.Model.MessageqConc.init depth msgLen n) acts
    (∀ i j a b, i ≠ j → Librfn.Model.MessageqConc.holds s (.sender i) = some a →
        Librfn.Model.MessageqConc.holds s (.sender j) = some b → a ≠ b) ∧
    (∀ i a b, Librfn.Model.MessageqConc.holds s (.sender i) = some a →
        Librfn.Model.MessageqConc.holds s .receiver = some b → a ≠ b) :=
  Librfn.C04.mq_no_adjacent_conflict _ (Librfn.C04.mq_inv_all depth msgLen n hd1 hd32 hm1 hm16 acts)

end Librfn.C07

import Librfn.Gen.FibreSeq
import Librfn.Model.Fibre
import Std.Tactic.BVDecide
/-!
# C03 / C01 — tie T for the control skeleton of `fibre_scheduler_next`

`fibre_scheduler_next` of `fibre.c` is regenerated on every run (`Gen/FibreSeq.lean`) with its five helpers (`handle_atomic_runq`,
`update_current_state`, `handle_timerq`, `get_next_task`, `get_next_wakeup`), `messageq_empty` and the call of the dispatched fibre's
entry point (`kernel.current->fn(kernel.current)`, an `indirect_call`) as the environment; the inline `list_empty` is inlined.
What is tied is the skeleton: which of those are called, in which order (the order is that of the generated trace), under which
condition, and which value is returned.  What the helpers do is tied separately (`get_next_task`, `get_next_wakeup`, `make_runnable`)
or by the differential run; the environment is assumed not to write `kernel.now`, `kernel.state`, `kernel.current` (only this function
assigns them), and the memory words read here (`runq.head`, `timerq.head`, the entry point) are read before any helper runs except the
entry point, which no helper writes.

* `scheduler_next_generated`: `kernel.now = time`; the *slow path* is taken iff the last state is not "yielded" or the run queue or the
  timer queue is non-empty or — asked only if all of those fail — the atomic run queue is non-empty; on the slow path the four helpers
  run in order (`update_current_state` only with a current fibre) and `kernel.current` becomes what `get_next_task` returned, on the
  fast path nothing of that happens; the entry point is called iff there is a current fibre, with that fibre, and `kernel.state`
  becomes what it returned; the function returns `time` iff it was called and returned "yielded", otherwise what `get_next_wakeup`
  returns (called exactly then).
* `scheduler_next_tie`: under the representation of the model state (state code, queue heads, emptiness of the atomic queue) the slow-path
  condition is the one of the model's `prelude`, and the returned wake-up time is selected as in the model's `schedulerNext`.
-/
namespace Librfn.C03.TieNext
open Librfn.Gen Librfn.Gen.FibreSeq

/-- the slow-path condition over the values the function reads -/
def slowBV (st : BitVec 32) (runqHead timerqHead : BitVec 64) (e : BitVec 8) : Bool :=
  st != 0#32 || runqHead != 0#64 || timerqHead != 0#64 || e == 0#8

theorem scheduler_next_generated (cur : BitVec 64) (st now : BitVec 32) (runq aq timerq : BitVec 64) (taint time : BitVec 32)
    (e : BitVec 8) (gnt : BitVec 64) (r wake : BitVec 32) (mem : Mem) :
    let o := fibre_scheduler_next cur st now runq aq timerq taint time e gnt r wake mem
    let slow := slowBV st (Mem.load64 mem runq) (Mem.load64 mem timerq) e
    let cur' := if slow then gnt else cur
    o.ub = false ∧ o.exh = false ∧ o.kernel_now = time ∧
    o.messageq_empty_called_1 = (!(st != 0#32 || Mem.load64 mem runq != 0#64 || Mem.load64 mem timerq != 0#64)) ∧
    o.messageq_empty_arg_1_0 = aq ∧
    o.handle_atomic_runq_called_1 = slow ∧ o.update_current_state_called_1 = (slow && cur != 0#64) ∧
    o.handle_timerq_called_1 = slow ∧ o.get_next_task_called_1 = slow ∧
    o.kernel_current = cur' ∧
    o.indirect_call_called_1 = (cur' != 0#64) ∧ o.indirect_call_arg_1_1 = cur' ∧
    o.kernel_state = (if cur' != 0#64 then r else st) ∧
    o.get_next_wakeup_called_1 = (!(cur' != 0#64 && r == 0#32)) ∧
    o.ret = (if cur' != 0#64 && r == 0#32 then time else wake) := by
  intro o slow cur'
  simp only [o, slow, cur']
  unfold fibre_scheduler_next slowBV

  bv_decide (config := { timeout := 60 })

/-- **tie T, `fibre_scheduler_next`, the skeleton**: the slow path is taken exactly under the condition of the model's `prelude`, and the
    wake-up time returned is selected as in the model's `schedulerNext` (`time` iff a fibre was dispatched and yielded, else what
    `get_next_wakeup` returns) -/
theorem scheduler_next_tie (k : Librfn.Model.Fibre.K) (cur : BitVec 64) (st now : BitVec 32) (runq aq timerq : BitVec 64)
    (taint time : BitVec 32) (e : BitVec 8) (gnt : BitVec 64) (r wake : BitVec 32) (mem : Mem)
    (hst : st = 0#32 ↔ k.state = .yielded)                         -- `kernel.state` (FIBRE_STATE_YIELDED = 0)
    (hr : Mem.load64 mem runq ≠ 0#64 ↔ k.runq ≠ [])                -- `kernel.runq.head`
    (ht : Mem.load64 mem timerq ≠ 0#64 ↔ k.timerq ≠ [])            -- `kernel.timerq.head`
    (ha : e = 0#8 ↔ k.atomq ≠ []) :                                -- `messageq_empty(&kernel.atomic_runq)`
    ((fibre_scheduler_next cur st now runq aq timerq taint time e gnt r wake mem).handle_atomic_runq_called_1 = true ↔
      (k.state ≠ .yielded ∨ k.runq ≠ [] ∨ k.timerq ≠ [] ∨ k.atomq ≠ [])) ∧
    (∀ ret : Librfn.Sched.Ret, (r = 0#32 ↔ ret = .yielded) →
      (fibre_scheduler_next cur st now runq aq timerq taint time e gnt r wake mem).ret =
        (if (fibre_scheduler_next cur st now runq aq timerq taint time e gnt r wake mem).kernel_current ≠ 0#64 ∧ ret = .yielded
         then time else wake)) := by
  have g := scheduler_next_generated cur st now runq aq timerq taint time e gnt r wake mem
  simp only at g
  obtain ⟨_, _, _, _, _, g6, _, _, _, g10, _, _, _, _, g15⟩ := g
  constructor
  · rw [g6]
    simp only [slowBV, Bool.or_eq_true, bne_iff_ne, ne_eq, beq_iff_eq]
    constructor
    · rintro (((h | h) | h) | h)
      · exact Or.inl (fun x => h (hst.2 x))
      · exact Or.inr (Or.inl (hr.1 h))
      · exact Or.inr (Or.inr (Or.inl (ht.1 h)))
      · exact Or.inr (Or.inr (Or.inr (ha.1 h)))
    · rintro (h | h | h | h)
      · exact Or.inl (Or.inl (Or.inl (fun x => h (hst.1 x))))
      · exact Or.inl (Or.inl (Or.inr (hr.2 h)))
      · exact Or.inl (Or.inr (ht.2 h))
      · exact Or.inr (ha.2 h)
  · intro ret hret
    rw [g15, g10]
    by_cases hc : (if slowBV st (Mem.load64 mem runq) (Mem.load64 mem timerq) e = true then gnt else cur) = 0#64
    · simp [hc]
    · by_cases hy : ret = .yielded
      · have : r = 0#32 := hret.2 hy
        simp [hc, hy, this]
      · have : ¬ r = 0#32 := fun x => hy (hret.1 x)
        simp [hc, hy, this]

end Librfn.C03.TieNext

import Librfn.Props.C10Tie
/-!
# C10 — the property stated about the *generated* code

`Props/C10.lean` proves that the hand model refines the ticket-window FIFO for every geometry and every permitted history;
`Props/C10Tie.lean` proves, function by function, that the definitions regenerated from `messageq.c` on every run compute
what the hand model computes on every well-formed structure.  Here the two are composed: `genStep` executes one API call
with the **generated** definitions on the seven members of `messageq_t` (nothing of the hand model is used to compute), and

* `generated_history_refines`: from any state related to the specification, every permitted history — any length, any
  geometry of depth 1..32, message size 1..65535 — returns exactly what the FIFO specification returns (pointers as offsets from
  `basep`, NULLs, `messageq_empty`), never executing an undefined operation and never running a loop beyond its unrolling;
* `generated_history_refines_init`: the same from the generated `messageq_init`, whatever the structure held before.

So the hand model is only an intermediate of the proof: the C10 clauses hold of the sequential meaning of the C source as
translated on this run (trusted: the translator, `bv_decide`'s certificates for the `*_generated` lemmas, the kernel).
-/
namespace Librfn.C10.Gen
open Librfn.Model.Messageq
open Librfn.Gen.MessageqSeq
open Librfn.C10.Tie
open Librfn.Spec.MessageqFifo (Fifo Permitted permitted)

/-- the structure as the generated functions see it (`basep` = `BitVec.ofNat 64 base`) -/
structure GSt where
  base : Nat
  ml : BitVec 16
  ql : BitVec 8
  nf : BitVec 8
  sp : BitVec 8
  fl : BitVec 32
  rp : BitVec 8

def embed (s : St) : GSt := ⟨s.base, s.msgLen, s.qlen, s.numFree, s.sendp, s.flags, s.receivep⟩

/-- a returned pointer as the caller sees it: NULL, or an offset from `basep` -/
def ptrOut (base : Nat) (r : BitVec 64) : Out :=
  .ptr (if r = 0#64 then none else some (r - BitVec.ofNat 64 base).toNat)

/-- one API call executed by the generated definitions -/
def genStep (g : GSt) : Op → GSt × Out
  | .claim =>
    let r := messageq_claim (BitVec.ofNat 64 g.base) g.ml g.ql g.nf g.sp g.fl g.rp
    (⟨g.base, r.mq_msg_len, r.mq_queue_len, r.mq_num_free, r.mq_sendp, r.mq_full_flags, r.mq_receivep⟩, ptrOut g.base r.ret)
  | .send off =>
    let r := messageq_send (BitVec.ofNat 64 g.base) g.ml g.ql g.nf g.sp g.fl g.rp (BitVec.ofNat 64 g.base + BitVec.ofNat 64 off)
    if r.ub then (g, .undefined)
    else (⟨g.base, r.mq_msg_len, r.mq_queue_len, r.mq_num_free, r.mq_sendp, r.mq_full_flags, r.mq_receivep⟩, .unit)
  | .receive =>
    let r := messageq_receive (BitVec.ofNat 64 g.base) g.ml g.ql g.nf g.sp g.fl g.rp
    if r.ub then (g, .undefined)
    else (⟨g.base, r.mq_msg_len, r.mq_queue_len, r.mq_num_free, r.mq_sendp, r.mq_full_flags, r.mq_receivep⟩, ptrOut g.base r.ret)
  | .release =>
    let r := messageq_release (BitVec.ofNat 64 g.base) g.ml g.ql g.nf g.sp g.fl g.rp 0#64
    (⟨g.base, r.mq_msg_len, r.mq_queue_len, r.mq_num_free, r.mq_sendp, r.mq_full_flags, r.mq_receivep⟩, .unit)
  | .empty =>
    let r := messageq_empty (BitVec.ofNat 64 g.base) g.ml g.ql g.nf g.sp g.fl g.rp
    if r.ub then (g, .undefined) else (g, .bool (r.ret != 0#8))

def genRun (g : GSt) : List Op → List Out
  | [] => []
  | op :: ops => (genStep g op).2 :: genRun (genStep g op).1 ops

/-- the buffer addresses stay clear of NULL and of the top of the address space -/
def BaseOk (base : Nat) : Prop := 1 ≤ base ∧ base + 2 ^ 24 < 2 ^ 64

theorem ptrOut_ptrBV (base : Nat) (hb : BaseOk base) (o : Option Nat) (ho : ∀ off, o = some off → off < 2 ^ 24) :
    ptrOut base (ptrBV base o) = .ptr o := by
  obtain ⟨h1, h2⟩ := hb
  cases o with
  | none => simp [ptrOut, ptrBV]
  | some off =>
    have hoff := ho off rfl
    have hp : ptrBV base (some off) = BitVec.ofNat 64 base + BitVec.ofNat 64 off := rfl
    rw [hp]
    unfold ptrOut
    have hne : ¬ BitVec.ofNat 64 base + BitVec.ofNat 64 off = 0#64 := by
      intro h
      have := congrArg BitVec.toNat h
      simp only [BitVec.toNat_add, BitVec.toNat_ofNat] at this
      omega
    rw [if_neg hne]
    congr 2
    rw [BitVec.add_comm, BitVec.add_sub_cancel]
    simp only [BitVec.toNat_ofNat]
    omega

theorem offset_lt (ml : BitVec 16) (i : BitVec 8) : offsetOfSlot ml i < 2 ^ 24 := by
  unfold offsetOfSlot
  have h1 := i.isLt; have h2 := ml.isLt
  have : i.toNat * ml.toNat < 256 * 65536 := Nat.mul_lt_mul'' h1 h2
  omega

/-- **one step**: on a well-formed structure the generated call returns what the hand model returns and leaves the model's structure -/
theorem gen_step (s : St) (hwf : WF s) (hb : BaseOk s.base) (op : Op) (hoff : ∀ off, op = .send off → off < 2097152) :
    genStep (embed s) op = (embed (step s op).1, (step s op).2) := by
  cases op with
  | claim =>
    obtain ⟨_, _, _, hst, hret⟩ := claim_tie s hwf
    simp only [genStep, embed, step]
    rw [hret, ptrOut_ptrBV s.base hb]
    · have := congrArg embed hst
      simp only [embed, stOf] at this
      rw [← this]
    · intro off ho
      unfold claim at ho
      split at ho
      · cases ho
      · injection ho with ho; rw [← ho]; exact offset_lt _ _
  | send off =>
    obtain ⟨_, _, hub, hst⟩ := send_tie s off hwf (hoff off rfl)
    simp only [genStep, embed, step]
    cases hs : send s off with
    | none =>
      have : (messageq_send (BitVec.ofNat 64 s.base) s.msgLen s.qlen s.numFree s.sendp s.flags s.receivep
          (BitVec.ofNat 64 s.base + BitVec.ofNat 64 off)).ub = true := hub.2 hs
      simp only [this]; rfl
    | some s' =>
      have hnot : (messageq_send (BitVec.ofNat 64 s.base) s.msgLen s.qlen s.numFree s.sendp s.flags s.receivep
          (BitVec.ofNat 64 s.base + BitVec.ofNat 64 off)).ub = false := by
        cases hu : (messageq_send (BitVec.ofNat 64 s.base) s.msgLen s.qlen s.numFree s.sendp s.flags s.receivep
          (BitVec.ofNat 64 s.base + BitVec.ofNat 64 off)).ub with
        | false => rfl
        | true => have := hub.1 hu; rw [hs] at this; cases this
      have := congrArg embed (hst s' hs)
      simp only [embed, stOf] at this
      simp only [hnot, Bool.false_eq_true, if_false]
      rw [← this]
  | receive =>
    obtain ⟨_, _, hub, hst⟩ := receive_tie s hwf
    simp only [genStep, embed, step]
    cases hs : receive s with
    | none =>
      have : (messageq_receive (BitVec.ofNat 64 s.base) s.msgLen s.qlen s.numFree s.sendp s.flags s.receivep).ub = true := hub.2 hs
      simp only [this]; rfl
    | some r =>
      have hnot : (messageq_receive (BitVec.ofNat 64 s.base) s.msgLen s.qlen s.numFree s.sendp s.flags s.receivep).ub = false := by
        cases hu : (messageq_receive (BitVec.ofNat 64 s.base) s.msgLen s.qlen s.numFree s.sendp s.flags s.receivep).ub with
        | false => rfl
        | true => have := hub.1 hu; rw [hs] at this; cases this
      obtain ⟨h1, h2⟩ := hst r hs
      have := congrArg embed h1
      simp only [embed, stOf] at this
      simp only [hnot, Bool.false_eq_true, if_false]
      rw [h2, ptrOut_ptrBV s.base hb, ← this]
      intro off ho
      unfold receive at hs
      split at hs
      · cases hs
      · simp only at hs
        split at hs
        · injection hs with hs; rw [← hs] at ho; cases ho
        · injection hs with hs; rw [← hs] at ho; injection ho with ho; rw [← ho]; exact offset_lt _ _
  | release =>
    obtain ⟨_, _, _, hst⟩ := release_tie s 0#64 hwf
    simp only [genStep, embed, step]
    have := congrArg embed hst
    simp only [embed, stOf] at this
    rw [← this]
  | empty =>
    obtain ⟨_, hub, hst, hret⟩ := empty_tie s hwf
    simp only [genStep, embed, step]
    cases hs : empty s with
    | none =>
      have : (messageq_empty (BitVec.ofNat 64 s.base) s.msgLen s.qlen s.numFree s.sendp s.flags s.receivep).ub = true := hub.2 hs
      simp only [this]; rfl
    | some bq =>
      have hnot : (messageq_empty (BitVec.ofNat 64 s.base) s.msgLen s.qlen s.numFree s.sendp s.flags s.receivep).ub = false := by
        cases hu : (messageq_empty (BitVec.ofNat 64 s.base) s.msgLen s.qlen s.numFree s.sendp s.flags s.receivep).ub with
        | false => rfl
        | true => have := hub.1 hu; rw [hs] at this; cases this
      simp only [hnot, hret bq hs, Bool.false_eq_true, if_false]
      cases bq <;> rfl


theorem step_base (s : St) (op : Op) : (step s op).1.base = s.base := by
  cases op with
  | claim => simp only [step, claim]; split <;> rfl
  | send off =>
    simp only [step]
    cases hs : send s off with
    | none => rfl
    | some s' =>
      unfold send at hs
      split at hs
      · cases hs
      · split at hs
        · cases hs
        · injection hs with hs; rw [← hs]
  | receive =>
    simp only [step]
    cases hs : receive s with
    | none => rfl
    | some r =>
      unfold receive at hs
      split at hs
      · cases hs
      · simp only at hs
        split at hs
        · injection hs with hs; rw [← hs]
        · injection hs with hs; rw [← hs]
  | release => rfl
  | empty => simp only [step]; split <;> rfl

theorem send_offset_lt (s : St) (f : Fifo) (h : Rel s f) (op : Librfn.Spec.MessageqFifo.Op) :
    ∀ off, concOp f.qlen f.msgLen op = .send off → off < 2097152 := by
  intro off eo
  cases op with
  | send k =>
    simp only [concOp] at eo
    injection eo with eo
    have hq := h.qpos; have h32 := h.q32; have hm := h.msgLen
    have hml : f.msgLen < 65536 := by rw [← hm]; exact s.msgLen.isLt
    have : k % f.qlen < f.qlen := Nat.mod_lt _ hq
    have : (k % f.qlen) * f.msgLen < 32 * 65536 := Nat.mul_lt_mul'' (by omega) hml
    omega
  | claim => cases eo
  | receive => cases eo
  | release => cases eo
  | empty => cases eo

/-- **C10 about the generated code**: from any structure related to a specification state, every permitted history,
    executed by the definitions regenerated from `messageq.c`, returns exactly the FIFO specification's outputs -/
theorem generated_history_refines (ops : List Librfn.Spec.MessageqFifo.Op) (s : St) (f : Fifo) (h : Rel s f)
    (hb : BaseOk s.base) (hp : Permitted f ops) :
    genRun (embed s) (ops.map (concOp f.qlen f.msgLen)) = Librfn.Spec.MessageqFifo.run f ops := by
  induction ops generalizing s f with
  | nil => rfl
  | cons op ops ih =>
    obtain ⟨hp1, hp2⟩ := hp
    obtain ⟨ho, hr⟩ := step_refines s f h op hp1
    obtain ⟨g1, g2⟩ := step_geometry f op
    simp only [List.map_cons, genRun, Librfn.Spec.MessageqFifo.run]
    rw [gen_step s (wf_of_rel s f h) hb _ (send_offset_lt s f h op)]
    simp only []
    rw [ho]
    have := ih _ _ hr (by rw [step_base]; exact hb) hp2
    rw [g1, g2] at this
    rw [this]

/-- a concrete structure as the generated `messageq_init` leaves it -/
def genInit (g0 : GSt) (base baseLen msgLen : Nat) : Option GSt :=
  let r := messageq_init (BitVec.ofNat 64 g0.base) g0.ml g0.ql g0.nf g0.sp g0.fl g0.rp
    (BitVec.ofNat 64 base) (BitVec.ofNat 64 baseLen) (BitVec.ofNat 64 msgLen)
  if r.ub || r.exh then none
  else some ⟨(r.mq_basep).toNat, r.mq_msg_len, r.mq_queue_len, r.mq_num_free, r.mq_sendp, r.mq_full_flags, r.mq_receivep⟩

/-- **from the generated `messageq_init`, whatever the structure held before**, on every in-scope geometry (depth 1…32,
    message size 1…65535, slack smaller than a message) and every permitted history of any length -/
theorem generated_history_refines_init (g0 : GSt) (base depth msgLen slack : Nat) (g : Geometry depth msgLen slack)
    (hb : BaseOk base) (ops : List Librfn.Spec.MessageqFifo.Op) (hp : Permitted { qlen := depth, msgLen := msgLen } ops) :
    ∃ gs, genInit g0 base (depth * msgLen + slack) msgLen = some gs ∧
      genRun gs (ops.map (concOp depth msgLen)) = Librfn.Spec.MessageqFifo.run { qlen := depth, msgLen := msgLen } ops := by
  obtain ⟨s, hs, hr⟩ := init_rel base depth msgLen slack g
  have hlen : depth * msgLen + slack < 4194304 := by
    have := g.d32; have := g.m16; have := g.slack
    have : depth * msgLen ≤ 32 * 65535 := Nat.mul_le_mul (by omega) (by omega)
    omega
  obtain ⟨hexh, hub, hbase, hst⟩ := init_tie (BitVec.ofNat 64 g0.base) g0.ml g0.ql g0.nf g0.sp g0.fl g0.rp
    base (depth * msgLen + slack) msgLen hlen (by have := g.m16; omega)
  have hsb : s.base = base := by
    unfold init at hs
    split at hs
    · cases hs
    · injection hs with hs; rw [← hs]
  have hnub : (messageq_init (BitVec.ofNat 64 g0.base) g0.ml g0.ql g0.nf g0.sp g0.fl g0.rp
      (BitVec.ofNat 64 base) (BitVec.ofNat 64 (depth * msgLen + slack)) (BitVec.ofNat 64 msgLen)).ub = false := by
    cases hu : (messageq_init (BitVec.ofNat 64 g0.base) g0.ml g0.ql g0.nf g0.sp g0.fl g0.rp
      (BitVec.ofNat 64 base) (BitVec.ofNat 64 (depth * msgLen + slack)) (BitVec.ofNat 64 msgLen)).ub with
    | false => rfl
    | true => have := hub.1 hu; rw [hs] at this; cases this
  refine ⟨embed s, ?_, ?_⟩
  · simp only [genInit, hnub, hexh, Bool.or_self, Bool.false_eq_true, if_false]
    have h1 := congrArg embed (hst s hs)
    have h2 : (BitVec.ofNat 64 base).toNat = base := by
      rw [BitVec.toNat_ofNat]; exact Nat.mod_eq_of_lt (by have := hb.2; omega)
    rw [hbase, h2]
    exact congrArg some h1
  · exact generated_history_refines ops s _ hr (by rw [hsb]; exact hb) hp

/-- non-vacuity: a concrete geometry, base and permitted history meet every hypothesis, and the generated code's outputs
    on it are the expected ones (claim → offset 0, send, not empty, receive → offset 0, release, empty) -/
example : Geometry 3 20 7 ∧ BaseOk 4096 ∧
    Permitted { qlen := 3, msgLen := 20 } [.claim, .send 0, .empty, .receive, .release, .empty] := by
  refine ⟨⟨by omega, by omega, by omega, by omega, by omega⟩, ⟨by omega, by omega⟩, by decide⟩

end Librfn.C10.Gen

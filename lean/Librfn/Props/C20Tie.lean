import Librfn.Gen.MlogSeq
import Librfn.Props.C20
import Std.Tactic.BVDecide
/-!
# C20 — tie T for `mlog.c` (second-generation translator)

`Librfn.Gen.MlogSeq.*` is regenerated from `/repo/librfn/mlog.c` on every run: the file-scope `log` is the state (its counter
`log.head` a 32-bit variable in and out, its 256 lines in the byte memory at the address `log_line`, 32 bytes each: `fmt` at +0,
`arg[0..2]` at +8, +16, +24 — the x86-64 layout the translator computes from the declaration), the three `va_arg` reads are inputs
(`va_1 … va_3`), `strdup_printf` and `fprintf` are the environment (their calls, with the arguments read back from the memory,
are results).

* layer 1 (`*_generated*`, `bv_decide`, every input): the slot written, the four words stored and nothing else touched, the
  successor of the counter including the fold at `0x7fffffff`, `get_line`'s rejection test and index arithmetic (with the
  `unsigned` wrap of `n + head`), the words handed to the formatter, one iteration of `mlog_dump`'s loop (the step function of its recursive definition);
* layer 2 (`*_tie`): those references are `Librfn.Model.Mlog` (`log`, `logNice`, `clear`, `getLineInt`, and `dump` — by induction over the recursive loop, all 256 lines) on
  the memory read as 256 records.
-/
namespace Librfn.C20.Tie
open Librfn.Gen Librfn.Gen.MlogSeq

/-- `log.head++; if (log.head >= 0x7fffffff) log.head -= 256;` -/
def headNextBV (h : BitVec 32) : BitVec 32 := if BitVec.ule 0x7fffffff#32 (h + 1#32) then h + 1#32 - 256#32 else h + 1#32
/-- `log.head % 256` as an index -/
def slotBV (h : BitVec 32) : BitVec 64 := (h &&& 255#32).setWidth 64
/-- the 64-bit word at byte `k` of line `j` -/
def wordAt (mem : Mem) (base j k : BitVec 64) : BitVec 64 := Mem.load64 mem (base + j * 32#64 + k)

theorem vmlog_generated (line : BitVec 64) (h : BitVec 32) (fmt a0 a1 a2 : BitVec 64) (mem : Mem) :
    (vmlog line h fmt a0 a1 a2 mem).ub = false ∧ (vmlog line h fmt a0 a1 a2 mem).exh = false ∧
    (vmlog line h fmt a0 a1 a2 mem).log_head = headNextBV h := by
  unfold vmlog headNextBV
  bv_decide (config := { timeout := 180 })

theorem vmlog_nice_generated (line : BitVec 64) (h : BitVec 32) (fmt a0 a1 a2 : BitVec 64) (mem : Mem) :
    (vmlog_nice line h fmt a0 a1 a2 mem).ub = false ∧ (vmlog_nice line h fmt a0 a1 a2 mem).exh = false ∧
    (vmlog_nice line h fmt a0 a1 a2 mem).log_head = (if h.ult 256#32 then headNextBV h else h) := by
  unfold vmlog_nice headNextBV
  bv_decide (config := { timeout := 180 })

theorem mlog_clear_generated (line : BitVec 64) (h : BitVec 32) :
    (mlog_clear line h).ub = false ∧ (mlog_clear line h).exh = false ∧ (mlog_clear line h).log_head = 0#32 := by
  unfold mlog_clear
  first | exact ⟨rfl, rfl, rfl⟩ | bv_decide (config := { timeout := 180 })

set_option maxRecDepth 8000 in
theorem vmlog_generated_mem0 (line : BitVec 64) (h : BitVec 32) (fmt a0 a1 a2 : BitVec 64) (mem : Mem) (j : BitVec 64)
    (hj : j.ult 256#64 = true) :
    wordAt (vmlog line h fmt a0 a1 a2 mem).mem line j 0#64 = (if j = slotBV h then fmt else wordAt mem line j 0#64) := by
  unfold vmlog slotBV wordAt Mem.load64 Mem.load32 Mem.store64 Mem.store32 Mem.store16
  simp only [Mem.store_app]
  bv_decide (config := { timeout := 180 })

set_option maxRecDepth 8000 in
theorem vmlog_nice_generated_mem0 (line : BitVec 64) (h : BitVec 32) (fmt a0 a1 a2 : BitVec 64) (mem : Mem) (j : BitVec 64)
    (hj : j.ult 256#64 = true) :
    wordAt (vmlog_nice line h fmt a0 a1 a2 mem).mem line j 0#64 =
      (if h.ult 256#32 ∧ j = slotBV h then fmt else wordAt mem line j 0#64) := by
  unfold vmlog_nice slotBV wordAt Mem.load64 Mem.load32 Mem.store64 Mem.store32 Mem.store16
  simp only [Mem.ite_app, Mem.store_app]
  bv_decide (config := { timeout := 180 })

set_option maxRecDepth 8000 in
theorem vmlog_generated_mem8 (line : BitVec 64) (h : BitVec 32) (fmt a0 a1 a2 : BitVec 64) (mem : Mem) (j : BitVec 64)
    (hj : j.ult 256#64 = true) :
    wordAt (vmlog line h fmt a0 a1 a2 mem).mem line j 8#64 = (if j = slotBV h then a0 else wordAt mem line j 8#64) := by
  unfold vmlog slotBV wordAt Mem.load64 Mem.load32 Mem.store64 Mem.store32 Mem.store16
  simp only [Mem.store_app]
  bv_decide (config := { timeout := 180 })

set_option maxRecDepth 8000 in
theorem vmlog_nice_generated_mem8 (line : BitVec 64) (h : BitVec 32) (fmt a0 a1 a2 : BitVec 64) (mem : Mem) (j : BitVec 64)
    (hj : j.ult 256#64 = true) :
    wordAt (vmlog_nice line h fmt a0 a1 a2 mem).mem line j 8#64 =
      (if h.ult 256#32 ∧ j = slotBV h then a0 else wordAt mem line j 8#64) := by
  unfold vmlog_nice slotBV wordAt Mem.load64 Mem.load32 Mem.store64 Mem.store32 Mem.store16
  simp only [Mem.ite_app, Mem.store_app]
  bv_decide (config := { timeout := 180 })

set_option maxRecDepth 8000 in
theorem vmlog_generated_mem16 (line : BitVec 64) (h : BitVec 32) (fmt a0 a1 a2 : BitVec 64) (mem : Mem) (j : BitVec 64)
    (hj : j.ult 256#64 = true) :
    wordAt (vmlog line h fmt a0 a1 a2 mem).mem line j 16#64 = (if j = slotBV h then a1 else wordAt mem line j 16#64) := by
  unfold vmlog slotBV wordAt Mem.load64 Mem.load32 Mem.store64 Mem.store32 Mem.store16
  simp only [Mem.store_app]
  bv_decide (config := { timeout := 180 })

set_option maxRecDepth 8000 in
theorem vmlog_nice_generated_mem16 (line : BitVec 64) (h : BitVec 32) (fmt a0 a1 a2 : BitVec 64) (mem : Mem) (j : BitVec 64)
    (hj : j.ult 256#64 = true) :
    wordAt (vmlog_nice line h fmt a0 a1 a2 mem).mem line j 16#64 =
      (if h.ult 256#32 ∧ j = slotBV h then a1 else wordAt mem line j 16#64) := by
  unfold vmlog_nice slotBV wordAt Mem.load64 Mem.load32 Mem.store64 Mem.store32 Mem.store16
  simp only [Mem.ite_app, Mem.store_app]
  bv_decide (config := { timeout := 180 })

set_option maxRecDepth 8000 in
theorem vmlog_generated_mem24 (line : BitVec 64) (h : BitVec 32) (fmt a0 a1 a2 : BitVec 64) (mem : Mem) (j : BitVec 64)
    (hj : j.ult 256#64 = true) :
    wordAt (vmlog line h fmt a0 a1 a2 mem).mem line j 24#64 = (if j = slotBV h then a2 else wordAt mem line j 24#64) := by
  unfold vmlog slotBV wordAt Mem.load64 Mem.load32 Mem.store64 Mem.store32 Mem.store16
  simp only [Mem.store_app]
  bv_decide (config := { timeout := 180 })

set_option maxRecDepth 8000 in
theorem vmlog_nice_generated_mem24 (line : BitVec 64) (h : BitVec 32) (fmt a0 a1 a2 : BitVec 64) (mem : Mem) (j : BitVec 64)
    (hj : j.ult 256#64 = true) :
    wordAt (vmlog_nice line h fmt a0 a1 a2 mem).mem line j 24#64 =
      (if h.ult 256#32 ∧ j = slotBV h then a2 else wordAt mem line j 24#64) := by
  unfold vmlog_nice slotBV wordAt Mem.load64 Mem.load32 Mem.store64 Mem.store32 Mem.store16
  simp only [Mem.ite_app, Mem.store_app]
  bv_decide (config := { timeout := 180 })

/-- nothing outside the 8192 bytes of `log.line` is written -/
theorem vmlog_generated_frame (line : BitVec 64) (h : BitVec 32) (fmt a0 a1 a2 : BitVec 64) (mem : Mem) (a : BitVec 64)
    (ha : (a - line).ult 8192#64 = false) :
    (vmlog line h fmt a0 a1 a2 mem).mem a = mem a := by
  unfold vmlog Mem.store64 Mem.store32 Mem.store16
  simp only [Mem.store_app]
  bv_decide (config := { timeout := 180 })

theorem vmlog_nice_generated_frame (line : BitVec 64) (h : BitVec 32) (fmt a0 a1 a2 : BitVec 64) (mem : Mem) (a : BitVec 64)
    (ha : (a - line).ult 8192#64 = false) :
    (vmlog_nice line h fmt a0 a1 a2 mem).mem a = mem a := by
  unfold vmlog_nice Mem.store64 Mem.store32 Mem.store16
  simp only [Mem.ite_app, Mem.store_app]
  bv_decide (config := { timeout := 180 })

/-- `get_line`'s index: `n += head` (wrapping, `unsigned`) once the log has wrapped, then `% 256` -/
def lineIdxBV (h n : BitVec 32) : BitVec 64 := ((if BitVec.ule 256#32 h then n + h else n) &&& 255#32).setWidth 64
/-- `get_line` answers NULL -/
def rejectBV (h n : BitVec 32) : Bool := BitVec.ule h n || BitVec.ule 256#32 n

theorem get_line_generated (line : BitVec 64) (h n : BitVec 32) :
    (get_line line h n).ub = false ∧ (get_line line h n).exh = false ∧ (get_line line h n).log_head = h ∧
    (get_line line h n).ret = (if rejectBV h n then 0#64 else line + lineIdxBV h n * 32#64) := by
  unfold get_line lineIdxBV rejectBV
  bv_decide (config := { timeout := 180 })

/-- the array is placed so that no line is at address 0 and the array does not wrap around the address space -/
def baseOkBV (line : BitVec 64) : Bool := BitVec.ult 0#64 line && BitVec.ult line 0xffffffffffffe000#64

theorem mlog_get_line_generated (line : BitVec 64) (h n : BitVec 32) (r : BitVec 64) (mem : Mem) (hb : baseOkBV line = true) :
    (mlog_get_line line h n r mem).ub = false ∧ (mlog_get_line line h n r mem).exh = false ∧
    (mlog_get_line line h n r mem).log_head = h ∧ (mlog_get_line line h n r mem).strdup_printf_called_1 = (!rejectBV h n) ∧
    (mlog_get_line line h n r mem).ret = (if rejectBV h n then 0#64 else r) := by
  unfold baseOkBV at hb
  unfold mlog_get_line rejectBV
  bv_decide (config := { timeout := 180 })

/-- the words handed to the formatter are read from the line `get_line` selects: each argument *is* a 64-bit load (by unfolding), and
    the address loaded from is proved equal to the reference address by `bv_decide` (loads are opaque to it, addresses are not) -/
theorem mlog_get_line_generated_args (line : BitVec 64) (h n : BitVec 32) (r : BitVec 64) (mem : Mem) (hb : baseOkBV line = true)
    (hr : rejectBV h n = false) :
    (mlog_get_line line h n r mem).strdup_printf_arg_1_0 = wordAt mem line (lineIdxBV h n) 0#64 ∧
    (mlog_get_line line h n r mem).strdup_printf_arg_1_1 = wordAt mem line (lineIdxBV h n) 8#64 ∧
    (mlog_get_line line h n r mem).strdup_printf_arg_1_2 = wordAt mem line (lineIdxBV h n) 16#64 ∧
    (mlog_get_line line h n r mem).strdup_printf_arg_1_3 = wordAt mem line (lineIdxBV h n) 24#64 := by
  unfold baseOkBV at hb
  unfold rejectBV at hr
  have h0 : ∃ a, (mlog_get_line line h n r mem).strdup_printf_arg_1_0 = Mem.load64 mem a ∧ a = line + lineIdxBV h n * 32#64 + 0#64 :=
    ⟨_, rfl, by unfold lineIdxBV; bv_decide (config := { timeout := 180 })⟩
  have h1 : ∃ a, (mlog_get_line line h n r mem).strdup_printf_arg_1_1 = Mem.load64 mem a ∧ a = line + lineIdxBV h n * 32#64 + 8#64 :=
    ⟨_, rfl, by unfold lineIdxBV; bv_decide (config := { timeout := 180 })⟩
  have h2 : ∃ a, (mlog_get_line line h n r mem).strdup_printf_arg_1_2 = Mem.load64 mem a ∧ a = line + lineIdxBV h n * 32#64 + 16#64 :=
    ⟨_, rfl, by unfold lineIdxBV; bv_decide (config := { timeout := 180 })⟩
  have h3 : ∃ a, (mlog_get_line line h n r mem).strdup_printf_arg_1_3 = Mem.load64 mem a ∧ a = line + lineIdxBV h n * 32#64 + 24#64 :=
    ⟨_, rfl, by unfold lineIdxBV; bv_decide (config := { timeout := 180 })⟩
  obtain ⟨_, e0, rfl⟩ := h0
  obtain ⟨_, e1, rfl⟩ := h1
  obtain ⟨_, e2, rfl⟩ := h2
  obtain ⟨_, e3, rfl⟩ := h3
  exact ⟨e0, e1, e2, e3⟩

theorem mlog_get_line_generated_mem (line : BitVec 64) (h n : BitVec 32) (r : BitVec 64) (mem : Mem) :
    (mlog_get_line line h n r mem).mem = mem := by
  unfold mlog_get_line
  rfl

/-! ### `mlog_dump`: the loop is the recursive definition `mlog_dump.loop1` over the step function `mlog_dump.loop1.step`
(`fprintf`'s return value is an input indexed by the iteration number, the executed calls are collected in `loop_trace`) -/

abbrev Rec := BitVec 64 × BitVec 64 × BitVec 64 × BitVec 64
def call4 (name : String) (pre : List (BitVec 64)) (m : Rec) (ret : BitVec 64) : ExtCall :=
  ⟨name, pre ++ [m.1, m.2.1, m.2.2.1, m.2.2.2], ret⟩

theorem dump_step_generated (R : Nat → BitVec 32) (mem : Mem) (line : BitVec 64) (h : BitVec 32) (f : BitVec 64) (ub : Bool)
    (i : BitVec 32) (tr : List ExtCall) (it : Nat) (hb : baseOkBV line = true) :
    (mlog_dump.loop1.step R mem line h f ub i tr it).2 = rejectBV h i ∧
    (mlog_dump.loop1.step R mem line h f ub i tr it).1.i = (if rejectBV h i then i else i + 1#32) ∧
    (mlog_dump.loop1.step R mem line h f ub i tr it).1.ub = ub ∧
    (mlog_dump.loop1.step R mem line h f ub i tr it).1.exh = false := by
  unfold baseOkBV at hb
  unfold mlog_dump.loop1.step rejectBV
  bv_decide (config := { timeout := 180 })

theorem dump_step_generated_iter (R : Nat → BitVec 32) (mem : Mem) (line : BitVec 64) (h : BitVec 32) (f : BitVec 64) (ub : Bool)
    (i : BitVec 32) (tr : List ExtCall) (it : Nat) :
    (mlog_dump.loop1.step R mem line h f ub i tr it).1.iter = it + 1 := rfl

theorem dump_step_generated_trace_stop (R : Nat → BitVec 32) (mem : Mem) (line : BitVec 64) (h : BitVec 32) (f : BitVec 64) (ub : Bool)
    (i : BitVec 32) (tr : List ExtCall) (it : Nat) (hb : baseOkBV line = true) (hr : rejectBV h i = true) :
    (mlog_dump.loop1.step R mem line h f ub i tr it).1.trace = tr := by
  have hs := (dump_step_generated R mem line h f ub i tr it hb).1
  unfold mlog_dump.loop1.step at hs ⊢
  simp only [] at hs ⊢
  rw [hs, hr]
  simp

theorem call_eq (mem : Mem) (tr : List ExtCall) (f a0 a1 a2 a3 b0 b1 b2 b3 r : BitVec 64)
    (h0 : a0 = b0) (h1 : a1 = b1) (h2 : a2 = b2) (h3 : a3 = b3) :
    tr ++ [(⟨"fprintf", [f, Mem.load64 mem a0, Mem.load64 mem a1, Mem.load64 mem a2, Mem.load64 mem a3], r⟩ : ExtCall)] =
    tr ++ [⟨"fprintf", [f, Mem.load64 mem b0, Mem.load64 mem b1, Mem.load64 mem b2, Mem.load64 mem b3], r⟩] := by
  subst h0 h1 h2 h3; rfl

theorem dump_step_generated_trace_go (R : Nat → BitVec 32) (mem : Mem) (line : BitVec 64) (h : BitVec 32) (f : BitVec 64) (ub : Bool)
    (i : BitVec 32) (tr : List ExtCall) (it : Nat) (hb : baseOkBV line = true) (hr : rejectBV h i = false) :
    (mlog_dump.loop1.step R mem line h f ub i tr it).1.trace =
      tr ++ [call4 "fprintf" [f] (wordAt mem line (lineIdxBV h i) 0#64, wordAt mem line (lineIdxBV h i) 8#64,
        wordAt mem line (lineIdxBV h i) 16#64, wordAt mem line (lineIdxBV h i) 24#64) ((R it).signExtend 64)] := by
  have hs := (dump_step_generated R mem line h f ub i tr it hb).1
  unfold mlog_dump.loop1.step at hs ⊢
  simp only [] at hs ⊢
  rw [hs, hr]
  simp only [Bool.not_false, if_true, call4, BitVec.setWidth_eq, List.cons_append, List.nil_append, wordAt]
  unfold baseOkBV at hb
  unfold rejectBV at hr
  apply call_eq <;> (unfold lineIdxBV; bv_decide (config := { timeout := 180 }))

/-! ## layer 2: the references are the model -/
open Librfn.Model.Mlog


/-- line `i` of the array as a record -/
def recAt (mem : Mem) (line : BitVec 64) (i : Nat) : Rec :=
  (wordAt mem line (BitVec.ofNat 64 i) 0#64, wordAt mem line (BitVec.ofNat 64 i) 8#64,
   wordAt mem line (BitVec.ofNat 64 i) 16#64, wordAt mem line (BitVec.ofNat 64 i) 24#64)

/-- the C state (`log.head`, the 8192 bytes at `log.line`) represents the model state -/
structure Abs (mem : Mem) (line : BitVec 64) (h : BitVec 32) (s : St Rec) : Prop where
  head : s.head = h.toNat
  lines : ∀ i, i < 256 → s.line i = recAt mem line i

theorem headNextBV_toNat (h : BitVec 32) (hb : h.toNat < 0x7fffffff) :
    (headNextBV h).toNat = (if h.toNat + 1 ≥ 0x7fffffff then h.toNat + 1 - 256 else h.toNat + 1) := by
  have h1 : (h + 1#32).toNat = h.toNat + 1 := by
    rw [BitVec.toNat_add]; simp only [BitVec.toNat_ofNat]; omega
  unfold headNextBV
  simp only [BitVec.ule, decide_eq_true_eq, h1, BitVec.toNat_ofNat]
  split
  · rename_i hc
    rw [BitVec.toNat_sub, h1]; simp only [BitVec.toNat_ofNat]; omega
  · exact h1

theorem and255 (x : BitVec 32) : (x &&& 255#32).toNat = x.toNat % 256 := by
  rw [BitVec.toNat_and]
  exact Nat.and_two_pow_sub_one_eq_mod x.toNat 8

theorem slotBV_eq (h : BitVec 32) : slotBV h = BitVec.ofNat 64 (h.toNat % 256) := by
  apply BitVec.eq_of_toNat_eq
  unfold slotBV
  rw [BitVec.toNat_setWidth, and255, BitVec.toNat_ofNat]

theorem ofNat_inj_small (i k : Nat) (hi : i < 256) (hk : k < 256) : BitVec.ofNat 64 i = BitVec.ofNat 64 k ↔ i = k := by
  constructor
  · intro e
    have := congrArg BitVec.toNat e
    simp only [BitVec.toNat_ofNat] at this
    omega
  · intro e; rw [e]

theorem ult256 (i : Nat) (hi : i < 256) : (BitVec.ofNat 64 i).ult 256#64 = true := by
  simp only [BitVec.ult, BitVec.toNat_ofNat, decide_eq_true_eq]; omega

/-- **tie T, `vmlog`** (what `mlog(fmt, a0, a1, a2)` does): the model's `log` -/
theorem log_tie (mem : Mem) (line : BitVec 64) (h : BitVec 32) (s : St Rec) (hA : Abs mem line h s) (hb : s.head < 0x7fffffff)
    (fmt a0 a1 a2 : BitVec 64) :
    (vmlog line h fmt a0 a1 a2 mem).ub = false ∧ (vmlog line h fmt a0 a1 a2 mem).exh = false ∧
    Abs (vmlog line h fmt a0 a1 a2 mem).mem line (vmlog line h fmt a0 a1 a2 mem).log_head (log s (fmt, a0, a1, a2)) ∧
    ∀ a, (a - line).ult 8192#64 = false → (vmlog line h fmt a0 a1 a2 mem).mem a = mem a := by
  obtain ⟨h1, h2, h3⟩ := vmlog_generated line h fmt a0 a1 a2 mem
  have hh := hA.head
  refine ⟨h1, h2, ⟨?_, ?_⟩, fun a ha => vmlog_generated_frame line h fmt a0 a1 a2 mem a ha⟩
  · rw [h3, headNextBV_toNat h (by omega)]
    simp only [log, hh]
  · intro i hi
    have hm : h.toNat % 256 < 256 := Nat.mod_lt _ (by omega)
    have hj := ult256 i hi
    simp only [log, recAt, hh]
    rw [vmlog_generated_mem0 line h fmt a0 a1 a2 mem _ hj, vmlog_generated_mem8 line h fmt a0 a1 a2 mem _ hj,
      vmlog_generated_mem16 line h fmt a0 a1 a2 mem _ hj, vmlog_generated_mem24 line h fmt a0 a1 a2 mem _ hj, slotBV_eq]
    by_cases e : i = h.toNat % 256
    · have e' := (ofNat_inj_small i _ hi hm).2 e
      simp only [if_pos e, if_pos e']
    · have e' : ¬ BitVec.ofNat 64 i = BitVec.ofNat 64 (h.toNat % 256) := fun x => e ((ofNat_inj_small i _ hi hm).1 x)
      simp only [if_neg e, if_neg e', hA.lines i hi, recAt]

/-- **tie T, `vmlog_nice`**: the model's `logNice` -/
theorem nice_tie (mem : Mem) (line : BitVec 64) (h : BitVec 32) (s : St Rec) (hA : Abs mem line h s) (hb : s.head < 0x7fffffff)
    (fmt a0 a1 a2 : BitVec 64) :
    (vmlog_nice line h fmt a0 a1 a2 mem).ub = false ∧ (vmlog_nice line h fmt a0 a1 a2 mem).exh = false ∧
    Abs (vmlog_nice line h fmt a0 a1 a2 mem).mem line (vmlog_nice line h fmt a0 a1 a2 mem).log_head (logNice s (fmt, a0, a1, a2)) ∧
    ∀ a, (a - line).ult 8192#64 = false → (vmlog_nice line h fmt a0 a1 a2 mem).mem a = mem a := by
  obtain ⟨h1, h2, h3⟩ := vmlog_nice_generated line h fmt a0 a1 a2 mem
  have hh := hA.head
  have hc : (h.ult 256#32 = true) ↔ s.head < 256 := by
    simp only [BitVec.ult, BitVec.toNat_ofNat, decide_eq_true_eq, hh]
  refine ⟨h1, h2, ⟨?_, ?_⟩, fun a ha => vmlog_nice_generated_frame line h fmt a0 a1 a2 mem a ha⟩
  · rw [h3]
    unfold logNice
    by_cases c : s.head < 256
    · rw [if_pos (hc.2 c), if_pos c, headNextBV_toNat h (by omega)]
      simp only [log, hh]
    · rw [if_neg (fun x => c (hc.1 x)), if_neg c]; exact hh
  · intro i hi
    have hm : h.toNat % 256 < 256 := Nat.mod_lt _ (by omega)
    have hj := ult256 i hi
    simp only [recAt]
    rw [vmlog_nice_generated_mem0 line h fmt a0 a1 a2 mem _ hj, vmlog_nice_generated_mem8 line h fmt a0 a1 a2 mem _ hj,
      vmlog_nice_generated_mem16 line h fmt a0 a1 a2 mem _ hj, vmlog_nice_generated_mem24 line h fmt a0 a1 a2 mem _ hj, slotBV_eq]
    unfold logNice
    by_cases c : s.head < 256
    · rw [if_pos c]
      simp only [log, hh]
      by_cases e : i = h.toNat % 256
      · have e' : h.ult 256#32 = true ∧ BitVec.ofNat 64 i = BitVec.ofNat 64 (h.toNat % 256) := ⟨hc.2 c, (ofNat_inj_small i _ hi hm).2 e⟩
        simp only [if_pos e, if_pos e']
      · have e' : ¬ (h.ult 256#32 = true ∧ BitVec.ofNat 64 i = BitVec.ofNat 64 (h.toNat % 256)) :=
          fun x => e ((ofNat_inj_small i _ hi hm).1 x.2)
        simp only [if_neg e, if_neg e', hA.lines i hi, recAt]
    · have e' : ¬ (h.ult 256#32 = true ∧ BitVec.ofNat 64 i = BitVec.ofNat 64 (h.toNat % 256)) := fun x => c (hc.1 x.1)
      simp only [if_neg c, if_neg e', hA.lines i hi, recAt]

/-- **tie T, `mlog_clear`** -/
theorem clear_tie (mem : Mem) (line : BitVec 64) (h : BitVec 32) (s : St Rec) (hA : Abs mem line h s) :
    (mlog_clear line h).ub = false ∧ (mlog_clear line h).exh = false ∧ Abs mem line (mlog_clear line h).log_head (clear s) := by
  obtain ⟨h1, h2, h3⟩ := mlog_clear_generated line h
  refine ⟨h1, h2, ⟨?_, fun i hi => hA.lines i hi⟩⟩
  rw [h3]; rfl

theorem int_arg (n : BitVec 32) : (if n.toInt < 0 then (n.toInt + 4294967296).toNat else n.toInt.toNat) = n.toNat := by
  have := n.isLt
  rw [BitVec.toInt_eq_toNat_cond]
  split <;> split <;> omega

theorem rejectBV_iff (h n : BitVec 32) : rejectBV h n = true ↔ (n.toNat ≥ h.toNat ∨ n.toNat ≥ 256) := by
  simp only [rejectBV, BitVec.ule, Bool.or_eq_true, decide_eq_true_eq, BitVec.toNat_ofNat]


theorem lineIdxBV_eq (h n : BitVec 32) :
    lineIdxBV h n = BitVec.ofNat 64 ((if h.toNat ≥ 256 then (n.toNat + h.toNat) % 4294967296 else n.toNat) % 256) := by
  apply BitVec.eq_of_toNat_eq
  unfold lineIdxBV
  rw [BitVec.toNat_setWidth, and255, BitVec.toNat_ofNat]
  have hle : (BitVec.ule 256#32 h = true) ↔ h.toNat ≥ 256 := by
    simp only [BitVec.ule, decide_eq_true_eq, BitVec.toNat_ofNat]
  by_cases c : h.toNat ≥ 256
  · rw [if_pos (hle.2 c), if_pos c, BitVec.toNat_add]
  · rw [if_neg (fun x => c (hle.1 x)), if_neg c]

/-- what `get_line(n)` selects, in the model's terms -/
theorem getLine_rec (mem : Mem) (line : BitVec 64) (h : BitVec 32) (s : St Rec) (hA : Abs mem line h s) (n : BitVec 32) :
    getLine s n.toNat = (if rejectBV h n then none else some
      (wordAt mem line (lineIdxBV h n) 0#64, wordAt mem line (lineIdxBV h n) 8#64,
       wordAt mem line (lineIdxBV h n) 16#64, wordAt mem line (lineIdxBV h n) 24#64)) := by
  have hh := hA.head
  unfold getLine
  by_cases c : n.toNat ≥ h.toNat ∨ n.toNat ≥ 256
  · rw [if_pos (by rw [hh]; exact c), (rejectBV_iff h n).2 c]; rfl
  · have hr : rejectBV h n = false := by
      cases e : rejectBV h n with
      | false => rfl
      | true => exact absurd ((rejectBV_iff h n).1 e) c
    rw [if_neg (by rw [hh]; exact c), hr]
    simp only [Bool.false_eq_true, if_false, hh]
    rw [hA.lines _ (Nat.mod_lt _ (by omega)), lineIdxBV_eq]
    rfl

/-- **tie T, `mlog_get_line(int n)`**: the formatter is called exactly when the model's `getLineInt` finds a line, with that line's
    format and arguments; NULL otherwise; nothing is modified -/
theorem get_line_tie (mem : Mem) (line : BitVec 64) (h : BitVec 32) (s : St Rec) (hA : Abs mem line h s) (hb : baseOkBV line = true)
    (n : BitVec 32) (r : BitVec 64) :
    (mlog_get_line line h n r mem).ub = false ∧ (mlog_get_line line h n r mem).exh = false ∧
    (mlog_get_line line h n r mem).log_head = h ∧ (mlog_get_line line h n r mem).mem = mem ∧
    (match getLineInt s n.toInt with
     | none => (mlog_get_line line h n r mem).ret = 0#64 ∧ mlog_get_line.trace (mlog_get_line line h n r mem) r = []
     | some m => (mlog_get_line line h n r mem).ret = r ∧
        mlog_get_line.trace (mlog_get_line line h n r mem) r = [call4 "strdup_printf" [] m r]) := by
  obtain ⟨h1, h2, h3, h4, h5⟩ := mlog_get_line_generated line h n r mem hb
  refine ⟨h1, h2, h3, mlog_get_line_generated_mem line h n r mem, ?_⟩
  unfold getLineInt
  rw [int_arg, getLine_rec mem line h s hA n]
  cases hr : rejectBV h n with
  | true =>
    simp only [if_true]
    refine ⟨by rw [h5, hr]; rfl, ?_⟩
    unfold mlog_get_line.trace
    rw [h4, hr]; rfl
  | false =>
    obtain ⟨a0, a1, a2, a3⟩ := mlog_get_line_generated_args line h n r mem hb hr
    simp only [Bool.false_eq_true, if_false]
    refine ⟨by rw [h5, hr]; rfl, ?_⟩
    unfold mlog_get_line.trace
    rw [h4, hr, a0, a1, a2, a3]
    simp only [Bool.not_false, if_true, BitVec.setWidth_eq, call4, List.nil_append]

/-- the `fprintf` calls a dump performs for the model's lines `ms`, the `k`-th returning `R (it + k)` -/
def dumpCalls (f : BitVec 64) (R : Nat → BitVec 32) : List Rec → Nat → List ExtCall
  | [], _ => []
  | m :: ms, it => call4 "fprintf" [f] m ((R it).signExtend 64) :: dumpCalls f R ms (it + 1)

theorem ofNat32_succ (i : Nat) : BitVec.ofNat 32 (i + 1) = BitVec.ofNat 32 i + 1#32 := by
  apply BitVec.eq_of_toNat_eq
  simp [BitVec.toNat_add, BitVec.toNat_ofNat]

/-- the dump loop, any number of iterations: the calls made are the model's `dumpFrom`, in order; it runs out of fuel exactly when
    the model's loop does -/
theorem dump_loop_tie (mem : Mem) (line : BitVec 64) (h : BitVec 32) (s : St Rec) (hA : Abs mem line h s) (hb : baseOkBV line = true)
    (f : BitVec 64) (R : Nat → BitVec 32) :
    ∀ (fuel i : Nat) (ub : Bool) (tr : List ExtCall) (it : Nat), i ≤ 256 →
      (mlog_dump.loop1 R mem line h f fuel ub (BitVec.ofNat 32 i) tr it).trace = tr ++ dumpCalls f R (dumpFrom s fuel i) it ∧
      (mlog_dump.loop1 R mem line h f fuel ub (BitVec.ofNat 32 i) tr it).ub = ub ∧
      (mlog_dump.loop1 R mem line h f fuel ub (BitVec.ofNat 32 i) tr it).exh = decide ((dumpFrom s fuel i).length = fuel) := by
  intro fuel
  induction fuel with
  | zero => intro i ub tr it _; simp [mlog_dump.loop1, dumpFrom, dumpCalls]
  | succ fuel ih =>
    intro i ub tr it hi
    have hn : (BitVec.ofNat 32 i).toNat = i := by rw [BitVec.toNat_ofNat]; omega
    have hg := getLine_rec mem line h s hA (BitVec.ofNat 32 i)
    rw [hn] at hg
    obtain ⟨g1, g2, g3, g4⟩ := dump_step_generated R mem line h f ub (BitVec.ofNat 32 i) tr it hb
    have hunf : mlog_dump.loop1 R mem line h f (fuel + 1) ub (BitVec.ofNat 32 i) tr it =
        (if (mlog_dump.loop1.step R mem line h f ub (BitVec.ofNat 32 i) tr it).2 then (mlog_dump.loop1.step R mem line h f ub (BitVec.ofNat 32 i) tr it).1
         else mlog_dump.loop1 R mem line h f fuel (mlog_dump.loop1.step R mem line h f ub (BitVec.ofNat 32 i) tr it).1.ub
           (mlog_dump.loop1.step R mem line h f ub (BitVec.ofNat 32 i) tr it).1.i
           (mlog_dump.loop1.step R mem line h f ub (BitVec.ofNat 32 i) tr it).1.trace
           (mlog_dump.loop1.step R mem line h f ub (BitVec.ofNat 32 i) tr it).1.iter) := rfl
    rw [hunf, g1]
    cases hr : rejectBV h (BitVec.ofNat 32 i) with
    | true =>
      rw [hr] at hg
      simp only [if_true] at hg ⊢
      have hd : dumpFrom s (fuel + 1) i = [] := by simp only [dumpFrom, hg]
      rw [hd, dump_step_generated_trace_stop R mem line h f ub _ tr it hb hr, g3, g4]
      simp [dumpCalls]
    | false =>
      rw [hr] at hg g2
      simp only [Bool.false_eq_true, if_false] at hg g2 ⊢
      have hi' : i < 256 := by
        have hnot : ¬ ((BitVec.ofNat 32 i).toNat ≥ h.toNat ∨ (BitVec.ofNat 32 i).toNat ≥ 256) := by
          intro hx
          have := (rejectBV_iff h (BitVec.ofNat 32 i)).2 hx
          rw [hr] at this; cases this
        rw [hn] at hnot; omega
      have hd : dumpFrom s (fuel + 1) i =
          (wordAt mem line (lineIdxBV h (BitVec.ofNat 32 i)) 0#64, wordAt mem line (lineIdxBV h (BitVec.ofNat 32 i)) 8#64,
           wordAt mem line (lineIdxBV h (BitVec.ofNat 32 i)) 16#64, wordAt mem line (lineIdxBV h (BitVec.ofNat 32 i)) 24#64)
            :: dumpFrom s fuel (i + 1) := by simp only [dumpFrom, hg]
      rw [hd, dump_step_generated_trace_go R mem line h f ub _ tr it hb hr, g2, g3, dump_step_generated_iter, ← ofNat32_succ]
      obtain ⟨k1, k2, k3⟩ := ih (i + 1) ub (tr ++ [call4 "fprintf" [f]
        (wordAt mem line (lineIdxBV h (BitVec.ofNat 32 i)) 0#64, wordAt mem line (lineIdxBV h (BitVec.ofNat 32 i)) 8#64,
         wordAt mem line (lineIdxBV h (BitVec.ofNat 32 i)) 16#64, wordAt mem line (lineIdxBV h (BitVec.ofNat 32 i)) 24#64)
        ((R it).signExtend 64)]) (it + 1) (by omega)
      refine ⟨?_, k2, ?_⟩
      · rw [k1, List.append_assoc]; rfl
      · rw [k3]; simp

theorem dumpFrom_length (s : St Rec) : ∀ (fuel i : Nat), (dumpFrom s fuel i).length + i ≤ max 256 i := by
  intro fuel
  induction fuel with
  | zero => intro i; simp [dumpFrom]; omega
  | succ fuel ih =>
    intro i
    simp only [dumpFrom]
    cases hg : getLine s i with
    | none => simp; omega
    | some m =>
      have hi : i < 256 := by
        unfold getLine at hg
        split at hg
        · cases hg
        · rename_i hc; omega
      have := ih (i + 1)
      simp only [List.length_cons]
      omega

/-- **tie T, `mlog_dump`** (the loop as a recursive definition; 257 iterations always suffice): `fprintf` is called once per line of
    the model's `dump`, in order, with the stream given and that line's format and arguments; nothing is modified -/
theorem dump_tie (mem : Mem) (line : BitVec 64) (h : BitVec 32) (s : St Rec) (hA : Abs mem line h s) (hb : baseOkBV line = true)
    (f : BitVec 64) (R : Nat → BitVec 32) :
    (mlog_dump 257 line h f R mem).ub = false ∧ (mlog_dump 257 line h f R mem).exh = false ∧
    (mlog_dump 257 line h f R mem).log_head = h ∧ (mlog_dump 257 line h f R mem).mem = mem ∧
    (mlog_dump 257 line h f R mem).loop_trace = dumpCalls f R (dump s) 0 := by
  obtain ⟨k1, k2, k3⟩ := dump_loop_tie mem line h s hA hb f R 257 0 false [] 0 (by omega)
  have hl := dumpFrom_length s 257 0
  refine ⟨k2, ?_, rfl, rfl, ?_⟩
  · show (mlog_dump.loop1 R mem line h f 257 false (BitVec.ofNat 32 0) [] 0).exh = false
    rw [k3]; simp; omega
  · show (mlog_dump.loop1 R mem line h f 257 false (BitVec.ofNat 32 0) [] 0).trace = _
    rw [k1]; rfl

end Librfn.C20.Tie

import Librfn.Gen.Wav
import Librfn.Model.Wav
import Std.Tactic.BVDecide
/-!
# C13 / C14 — tie T for `rf_wavheader_get_format`

`Librfn.Gen.Wav.rf_wavheader_get_format` is regenerated from `/repo/librfn/wavheader.c` on every run by the
clang-typed-AST translator (scalar fields of `rf_wavheader_t` become parameters; the enumeration is its `int`
values: −1 UNKNOWN, 0 S16LE, 1 S32LE, 2 FLOAT).  The hand model's `getFormat`, which the C13/C14 theorems use,
is proved equal to it for every structure — an edit of the classification in the C source breaks this obligation
whether or not a sampled header exposes it.
-/
namespace Librfn.C13
open Librfn.Model.Wav

/-- the classification as a bit-vector expression -/
def getFormatBV (af bps : BitVec 16) : BitVec 32 :=
  if af = 1#16 then (if bps = 16#16 then 0#32 else if bps = 32#16 then 1#32 else 0xffffffff#32)
  else if af = 3#16 then (if bps = 32#16 then 2#32 else 0xffffffff#32)
  else if af = 0xfffe#16 then (if bps = 16#16 then 0#32 else 1#32)
  else 0xffffffff#32

theorem get_format_generated (cs fcs : BitVec 32) (af nc : BitVec 16) (sr br : BitVec 32) (ba bps cb vb : BitVec 16)
    (cm fs sl ds : BitVec 32) :
    (Librfn.Gen.Wav.rf_wavheader_get_format cs fcs af nc sr br ba bps cb vb cm fs sl ds).1 = getFormatBV af bps := by
  unfold Librfn.Gen.Wav.rf_wavheader_get_format getFormatBV
  bv_decide (config := { timeout := 300 })

theorem getFormatBV_toInt (af bps : BitVec 16) (wh : Wh) (h1 : wh.audioFormat = af) (h2 : wh.bitsPerSample = bps) :
    (getFormatBV af bps).toInt = getFormat wh := by
  subst h1 h2
  unfold getFormatBV getFormat
  split
  · split
    · rfl
    · split <;> rfl
  · split
    · split <;> rfl
    · split
      · split <;> rfl
      · rfl

/-- **tie T**: for every structure, the translated C function returns the model's classification and leaves
    every scalar field unchanged -/
theorem get_format_tie (wh : Wh) :
    (Librfn.Gen.Wav.rf_wavheader_get_format wh.chunkSize wh.fmtChunkSize wh.audioFormat wh.numChannels wh.sampleRate
        wh.byteRate wh.blockAlign wh.bitsPerSample wh.cbSize wh.validBitsPerSample wh.channelMask wh.factChunkSize
        wh.sampleLength wh.dataChunkSize).1.toInt = getFormat wh := by
  rw [get_format_generated]
  exact getFormatBV_toInt _ _ wh rfl rfl

end Librfn.C13

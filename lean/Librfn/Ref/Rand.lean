/-! Reference definition for C17 (hand-maintained, NOT regenerated): the first-generation translation of the pinned
`librfn/rand.c` (Carta's two 16-bit partial products and the fold), frozen.  The C17 theorems are about it;
`Props/C17Tie.lean` proves on every run that the definition regenerated from the current source (`Gen/RandSeq.lean`,
tools/c2lean2.py) computes the same function on every valid seed. -/
set_option linter.unusedVariables false
namespace Librfn.Ref.Rand

/-- frozen translation of `rand31_r` -/
def rand31_r (seedp_in : BitVec 32) :=
  let lo_1 := (16807#32 * (seedp_in &&& 65535#32))
  let hi_2 := (16807#32 * (seedp_in >>> (16#32).toNat))
  let lo_3 := (lo_1 + ((hi_2 &&& 32767#32) <<< (16#32).toNat))
  let lo_4 := (lo_3 + (hi_2 >>> (15#32).toNat))
  let c_5 := (decide ((if BitVec.ult 2147483647#32 lo_4 then 1#32 else 0#32) != 0#32))
  let lo_6 := (lo_4 - 2147483647#32)
  let lo_7 := (if c_5 then lo_6 else lo_4)
  let deref_seedp_8 := lo_7
  let ret_9 := deref_seedp_8
  (ret_9, deref_seedp_8)

end Librfn.Ref.Rand

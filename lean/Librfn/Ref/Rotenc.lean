/-! Reference definitions for C19 (hand-maintained, NOT regenerated): the first-generation translation of the pinned
`librfn/rotenc.c`, frozen.  The C19 theorems are about these; `Props/C19Tie.lean` proves, on every run, that the definitions
regenerated from the current source (`Gen/RotencSeq.lean`, tools/c2lean2.py) compute the same function (bv_decide), so a
rewrite of rotenc.c that keeps the behaviour re-proves and one that changes it yields a falsifying input. -/
set_option linter.unusedVariables false
namespace Librfn.Ref.Rotenc

/-- frozen translation of `rotenc_decode` -/
def rotenc_decode (r_last_state : BitVec 8) (r_count : BitVec 16) (r_internal_count : BitVec 16) (state : BitVec 8) :=
  let fromto_1 := (BitVec.setWidth 8 (((BitVec.setWidth 32 r_last_state) <<< (2#32).toNat) + (BitVec.setWidth 32 state)))
  let sw_2 := (BitVec.setWidth 32 fromto_1)
  let r_internal_count_3 := (r_internal_count - 1#16)
  let c_4 := (sw_2 == 2#32 || sw_2 == 11#32 || sw_2 == 13#32 || sw_2 == 4#32)
  let r_internal_count_5 := (if c_4 then r_internal_count_3 else r_internal_count)
  let r_internal_count_6 := (r_internal_count + 1#16)
  let c_7 := (sw_2 == 1#32 || sw_2 == 7#32 || sw_2 == 14#32 || sw_2 == 8#32)
  let r_internal_count_8 := (if c_7 then r_internal_count_6 else r_internal_count_5)
  let r_last_state_9 := state
  let c_10 := (decide ((if state == 0#8 then 1#32 else 0#32) != 0#32))
  let r_count_11 := (BitVec.setWidth 16 (BitVec.sshiftRight (BitVec.setWidth 32 r_internal_count_8) (2#32).toNat))
  let r_count_12 := (if c_10 then r_count_11 else r_count)
  (r_last_state_9, r_count_12, r_internal_count_8)

/-- frozen translation of `rotenc_count14` -/
def rotenc_count14 (r_last_state : BitVec 8) (r_count : BitVec 16) (r_internal_count : BitVec 16) :=
  let ret_1 := (BitVec.setWidth 16 ((BitVec.setWidth 32 r_count) &&& 16383#32))
  (ret_1, r_last_state, r_count, r_internal_count)

/-- frozen translation of `rotenc_count` -/
def rotenc_count (r_last_state : BitVec 8) (r_count : BitVec 16) (r_internal_count : BitVec 16) :=
  let ret_1 := (BitVec.setWidth 8 r_count)
  (ret_1, r_last_state, r_count, r_internal_count)

end Librfn.Ref.Rotenc

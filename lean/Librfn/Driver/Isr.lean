import Librfn.Driver.Util
import Librfn.Model.FibreIsr
/-! Line-protocol driver for C06: same ops and canonical outputs as `harness/h_isr.c`.

    librfn_model isr          the executable model `Model/FibreIsr.lean`
    librfn_model isr spec     the abstract monitor `Spec/IsrSpec.lean` run over OUTPUT lines (of the harness or of the
                              model): at each `--` it prints `verdict=… owed=… mustget=…` for the history read so far

ops (one per line):
    reset
    cfg <event queue depth> <kind>*        kinds of fibres 1, 2, …: y<budget> | s<period> | w | c (scripted body)   (fibre 0 = the event handler)
    next <T> <body> <script> | run <f> <script> | kill <f> <script>       a main-context call
      <body> = (b:r<g> | b:k<g>)* [b=<y|w|e|f>]   what the dispatched fibre does if it is a scripted one: fibre_run(g) / fibre_kill(g)
               calls during its dispatch (their atomic operations continue the numbering of the pass), then its return code
    isr <call> <nested script>                                     an interrupt between two main-context calls
    thread <call> (%<gap> (next:<T> | run:<f> | kill:<f>) <script>)*    a sender on another thread; main-context calls at its gaps
    quiesce
  <script>  = (@<gap> (<call> (^<gap> <nested call>+)*)+)*        <gap> = <k>a | <k>b   (before / after atomic operation k)
  <call>    = A<f> (fibre_run_atomic) | E<stamp> (claim, stamp, fibre_eventq_send);  nested calls in lower case: a<f> e<stamp>
output: one line per op: the tokens of `Tok` in execution order, then `unfired=<scripted calls whose gap never came up>` -/
namespace Librfn.Driver.Isr
open Librfn.Driver Librfn.Model.FibreIsr
open Librfn.Spec.IsrSpec (Obs A Verdict)

/-! ### parsing -/

def point? (s : String) : Option Point :=
  if s.length < 2 then none else
  let body := (s.take (s.length - 1)).toString
  let last := (s.drop (s.length - 1)).toString
  match body.toNat?, last with
  | some k, "a" => some (k, false)
  | some k, "b" => some (k, true)
  | _, _ => none

def NF : Nat := 8

def rest1 (s : String) : String := (s.drop 1).toString
def head1 (s : String) : String := (s.take 1).toString

def fidOf (s : String) : Option Nat := match s.toNat? with
  | some n => if n < NF then some n else none
  | none => none

def icall? (upper : Bool) (s : String) : Option ICall :=
  let h := head1 s
  if h = (if upper then "A" else "a") then (fidOf (rest1 s)).map .runAtomic
  else if h = (if upper then "E" else "e") then (rest1 s).toNat?.map .eventSend
  else none

/-- parser state: entries are kept newest first -/
structure PS where
  pt : Option Point := none
  npt : Option Point := none
  acc : List (Point × Isr) := []

def PS.finish (p : PS) : Script := (p.acc.map fun e => (e.1, { e.2 with nested := e.2.nested.reverse })).reverse

/-- consume script tokens; stops (returning the rest) at the first token that is not part of a script -/
def parseScript : List String → PS → Option (Script × List String)
  | [], p => some (p.finish, [])
  | w :: ws, p =>
    let h := head1 w
    if h = "@" then match point? (rest1 w) with
      | some pt => parseScript ws { p with pt := some pt, npt := none }
      | none => none
    else if h = "^" then match point? (rest1 w) with
      | some pt => parseScript ws { p with npt := some pt }
      | none => none
    else if h = "A" ∨ h = "E" then match icall? true w, p.pt with
      | some c, some pt => parseScript ws { p with npt := none, acc := (pt, { call := c }) :: p.acc }
      | _, _ => none
    else if h = "a" ∨ h = "e" then match icall? false w, p.npt, p.acc with
      | some c, some npt, (pt, e) :: r => parseScript ws { p with acc := (pt, { e with nested := (npt, c) :: e.nested }) :: r }
      | _, _, _ => none
    else some (p.finish, w :: ws)

def mcall? (name arg : String) : Option MCall :=
  match name with
  | "next" => arg.toInt?.map fun t => .next (BitVec.ofInt 32 t)
  | "run" => (fidOf arg).map .run
  | "kill" => (fidOf arg).map .kill
  | _ => none

/-- `(%<gap> <name>:<arg> <script>)*` -/
def parseThread : Nat → List String → List (Point × MItem) → Option (List (Point × MItem))
  | _, [], acc => some acc.reverse
  | 0, _, _ => none
  | fuel + 1, w :: ws, acc =>
    if head1 w = "%" then
      match point? (rest1 w), ws with
      | some pt, c :: ws' =>
        match c.splitOn ":" with
        | [name, arg] => match mcall? name arg with
          | some mc => match parseScript ws' {} with
            | some (scr, rest) => parseThread fuel rest ((pt, { call := mc, script := scr }) :: acc)
            | none => none
          | none => none
        | _ => none
      | _, _ => none
    else none

def ret? : String → Option Librfn.Sched.Ret
  | "y" => some .yielded | "w" => some .waiting | "e" => some .exited | "f" => some .failed | _ => none

/-- the scripted body of a main-context call: `b:r<g>` / `b:k<g>` (calls the dispatched fibre makes), `b=<y|w|e|f>` (what it
    returns); returns the body, the return code and the remaining tokens -/
def parseBody : List String → List BCall → Librfn.Sched.Ret → Option (List BCall × Librfn.Sched.Ret × List String)
  | [], acc, r => some (acc.reverse, r, [])
  | w :: ws, acc, r =>
    if w.startsWith "b:r" then match fidOf (w.drop 3).toString with
      | some g => parseBody ws (.run g :: acc) r
      | none => none
    else if w.startsWith "b:k" then match fidOf (w.drop 3).toString with
      | some g => parseBody ws (.kill g :: acc) r
      | none => none
    else if w.startsWith "b=" then match ret? (w.drop 2).toString with
      | some r' => parseBody ws acc r'
      | none => none
    else some (acc.reverse, r, w :: ws)

def kind? (s : String) : Option (Kind × Nat) :=
  let h := head1 s
  if s = "w" then some (.waiter, 0)
  else if s = "c" then some (.scripted, 0)
  else if h = "y" then (rest1 s).toNat?.map fun n => (.yielder, n)
  else if h = "s" then (rest1 s).toNat?.map fun n => (.sleeper (BitVec.ofNat 32 n), 0)
  else none

def kinds? : List String → Option (List (Kind × Nat))
  | [] => some []
  | w :: ws => match kind? w, kinds? ws with
    | some k, some ks => some (k :: ks)
    | _, _ => none

def item? : List String → Option Item
  | ["quiesce"] => some .quiesce
  | "isr" :: ws => match parseScript ws { pt := some (0, false) } with
    -- exactly one interrupt (with its nested handlers)
    | some ([(_, e)], []) => some (.isr e)
    | _ => none
  | "thread" :: c :: ws => match icall? true c, parseThread (ws.length + 1) ws [] with
    | some ic, some scr => some (.thread ic scr)
    | _, _ => none
  | name :: arg :: ws => match mcall? name arg, parseBody ws [] .waiting with
    | some mc, some (body, bret, ws') => match parseScript ws' {} with
      | some (scr, []) => some (.main { call := mc, script := scr, body := body, bret := bret })
      | _ => none
    | _, _ => none
  | _ => none

/-! ### rendering -/

def retStr : Librfn.Sched.Ret → String
  | .yielded => "y" | .waiting => "w" | .exited => "e" | .failed => "f"

def icallStr : ICall → String
  | .runAtomic f => s!"A{f}"
  | .eventSend st => s!"E{st}"

def iresStr : IRes → String
  | .pending => "?" | .bool true => "1" | .bool false => "0" | .noBuffer => "c"

def selfStr : Option Nat → String
  | none => "-1" | some f => toString f

def tokStr : Tok → String
  | .passBegin => "N"
  | .look => "L"
  | .disp f => s!"d{f}"
  | .proc st => s!"p{st}"
  | .tmo b => if b then "t1" else "t0"
  | .bret r => "r" ++ retStr r
  | .commit f => s!"+{f}"
  | .claimed st => s!"C{st}"
  | .threadBegin => "T["
  | .done lvl c r n => s!"{lvl}{icallStr c}={iresStr r}/{n}"
  | .bcall (.run g) _ => s!"R{g}"
  | .bcall (.kill g) b => s!"K{g}={if b then 1 else 0}"
  | .mret (.next t) self wake _ n => s!"next({t.toNat}):self={selfStr self}:wake={wake.toNat}:n={n}"
  | .mret (.run f) _ _ _ n => s!"run({f}):n={n}"
  | .mret (.kill f) _ _ b n => s!"kill({f})={if b then 1 else 0}:n={n}"
  | .hang => "!!model-fuel"

def render (it : Item) (s : S) : String :=
  let toks := s.trace.map tokStr
  let tail := match it with
    | .quiesce => [s!"Q:{if s.dispatchedNow then "busy" else "idle"}:taint={s.taint.toNat}"]
    | _ => [s!"unfired={it.size - s.fired}"]
  " ".intercalate (toks ++ tail)

def modelStep (s : S) (w : List String) : S × List String :=
  match w with
  | ["--"] => (s, ["--"])
  | ["reset"] => (init, ["ok"])
  | [] => (s, [])
  | "cfg" :: d :: ks => match d.toNat?, kinds? ks with
    | some d, some l =>
      if 1 ≤ d ∧ d ≤ 32 ∧ l.length < NF then (initWith d (l.map (·.1)) (l.map (·.2)), [s!"ok nf={l.length + 1}"]) else (s, ["bad-op"])
    | _, _ => (s, ["bad-op"])
  | w => match item? w with
    | some it => let s' := runItem s it; (s', [render it s'])
    | none => (s, ["bad-op"])

/-! ### the specification monitor over output lines -/

def between (s : String) (l r : String) : Option String :=
  match s.splitOn l with
  | _ :: x :: _ => (x.splitOn r).head?
  | _ => none

def obs? (t : String) : List Obs :=
  let h := head1 t
  let r := rest1 t
  if t = "N" then [.passBegin]
  else if t = "L" then [.looked]
  else if t = "ry" then [.bodyReturned true]
  else if t = "rw" ∨ t = "re" ∨ t = "rf" then [.bodyReturned false]
  else if t = "T[" then [.threadBegin]
  else if h = "d" then (r.toNat?.map fun f => [Obs.dispatched f]).getD []
  else if h = "p" then (r.toNat?.map fun st => [Obs.evProcessed st]).getD []
  else if h = "+" then (r.toNat?.map fun f => [Obs.accepted f]).getD []
  else if h = "C" then (r.toNat?.map fun st => [Obs.evClaimed st]).getD []
  else if t.startsWith "next(" then
    match (between t "next(" ")").bind String.toNat?, (between t "wake=" ":").bind String.toNat? with
    | some T, some W => [.passEnd (decide (T % 4294967296 = W))]
    | _, _ => []
  else if h = "K" then
    match ((r.splitOn "=").head?.bind String.toNat?) with
    | some f => [.killed f]
    | none => []
  else if t.startsWith "kill(" then
    match (between t "kill(" ")").bind String.toNat? with
    | some f => [.killed f]
    | none => []
  else if (h = "0" ∨ h = "1" ∨ h = "2") ∧ (head1 r = "A" ∨ head1 r = "E") then
    -- <lvl>A<f>=<res>/<n>  |  <lvl>E<stamp>=<res>/<n>
    let body := rest1 r
    match body.splitOn "=" with
    | [arg, res] =>
      let rv := (res.splitOn "/").head?.getD ""
      match arg.toNat? with
      | some x =>
        (if head1 r = "A" then (if rv = "0" then [Obs.rejected x] else [])
         else if rv = "1" then [Obs.evSent x true] else if rv = "0" then [Obs.evSent x false] else [])
        ++ (if h = "2" then [Obs.threadEnd] else [])
      | none => []
    | _ => []
  else []

def verdictStr : Verdict → String
  | .ok => "ok"
  | .eventOutOfOrder g e => s!"event-out-of-order(got={g},expected={e})"
  | .eventFromNowhere g => s!"event-from-nowhere(got={g})"
  | .oversleeps => "oversleeps"
  | .starved f => s!"starved(fibre={f})"

def listStr (l : List Nat) : String := "[" ++ ",".intercalate (l.map toString) ++ "]"

def specStep (a : A) (w : List String) : A × List String :=
  match w with
  | ["--"] => ({}, [s!"verdict={verdictStr a.verdict} owed={listStr a.owedFids} mustget={listStr a.mustGet}", "--"])
  | "ok" :: rest =>      -- the reply to `cfg` names the number of fibres
    match rest.filterMap (fun t => if t.startsWith "nf=" then (t.drop 3).toString.toNat? else none) with
    | n :: _ => ({ a with nf := n }, [])
    | [] => (a, [])
  | w => ((w.flatMap obs?).foldl A.step a, [])

def main (args : List String) : IO UInt32 :=
  match args with
  | [] => runLines init modelStep
  | ["spec"] => runLines ({} : A) specStep
  | _ => do IO.eprintln "usage: librfn_model isr [spec]"; return 2

end Librfn.Driver.Isr

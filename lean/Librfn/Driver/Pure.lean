import Librfn.Driver.Util
import Librfn.Gen.Bitops
import Librfn.Gen.Constexpr
import Librfn.Gen.Rand
import Librfn.Gen.Rotenc
import Librfn.Gen.Util
/-! Evaluates the *generated* definitions (tie T) on given arguments so that the translator's
output can be compared with the compiled C on the same inputs. -/
namespace Librfn.Driver.Pure
open Librfn.Driver Librfn.Gen

def step (_ : Unit) (w : List String) : Unit × List String :=
  match w with
  | ["bitcnt", x] => ((), [toString (Bitops.bitcnt (BitVec.ofNat 32 (nat! x))).toInt])
  | ["clz", x] => ((), [toString (Bitops.clz (BitVec.ofNat 32 (nat! x))).toInt])
  | ["ctz", x] => ((), [toString (Bitops.ctz (BitVec.ofNat 32 (nat! x))).toInt])
  | ["ilog2", x] => ((), [toString (Bitops.ilog2 (BitVec.ofNat 32 (nat! x))).toInt])
  | ["const_pop", x] => ((), [toString (Constexpr.w_const_pop (BitVec.ofNat 64 (nat! x))).toInt])
  | ["const_lssb", x] => ((), [toString (Constexpr.w_const_lssb (BitVec.ofNat 64 (nat! x))).toInt])
  | ["rand31", s] =>
      let r := Rand.rand31_r (BitVec.ofNat 32 (nat! s))
      ((), [s!"{r.1.toNat} {r.2.toNat}"])
  | ["rotenc", ls, c, ic, st] =>
      -- field widths are whatever the generated signature says (`BitVec.ofNat _`)
      let r := Rotenc.rotenc_decode (BitVec.ofNat _ (nat! ls)) (BitVec.ofNat _ (nat! c)) (BitVec.ofNat _ (nat! ic)) (BitVec.ofNat _ (nat! st))
      let c14 := Rotenc.rotenc_count14 r.1 r.2.1 r.2.2
      let c8 := Rotenc.rotenc_count r.1 r.2.1 r.2.2
      ((), [s!"{r.1.toNat} {r.2.1.toNat} {r.2.2.toNat} {c14.1.toNat} {c8.1.toNat}"])
  | ["cyclecmp32", a, b] => ((), [toString (Util.cyclecmp32 (BitVec.ofNat 32 (nat! a)) (BitVec.ofNat 32 (nat! b))).toInt])
  | _ => ((), ["bad-op"])

def main (_ : List String) : IO UInt32 := runLines () step

end Librfn.Driver.Pure

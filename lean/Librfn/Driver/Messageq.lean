import Librfn.Driver.Util
import Librfn.Model.Messageq
/-! Line-protocol driver for the sequential message-queue model (C10): same ops and canonical outputs as
`harness/h_messageq.c`.

ops:  `init <depth> <msglen> <slack>` | `claim` | `send <offset>` | `receive` | `release` | `empty` | `state`
      | `guard` | `reset` | `--` -/
namespace Librfn.Driver.Messageq
open Librfn.Driver Librfn.Model.Messageq

def showSt (s : St) : String :=
  s!"qlen={s.qlen.toNat} msglen={s.msgLen.toNat} free={s.numFree.toNat} sendp={s.sendp.toNat} flags={s.flags.toNat} receivep={s.receivep.toNat}"

def ptr : Option Nat → String
  | some o => toString o
  | none => "NULL"

def outStr : Out → String
  | .ptr o => ptr o
  | .unit => "ok"
  | .bool b => if b then "1" else "0"
  | .undefined => "undefined"

def stepLine (s : Option St) (w : List String) : Option St × List String :=
  match w with
  | ["--"] => (s, ["--"])
  | ["reset"] => (none, ["ok"])
  | ["init", d, m, k] =>
    if natOk d && natOk m && natOk k then
      let len := nat! d * nat! m + nat! k
      match init 0 len (nat! m), staticInit 0 len (nat! m) with
      | some a, some b => (some a, [s!"init eq={if a = b then 1 else 0} {showSt a}"])
      | _, _ => (none, ["undefined"])
    else (s, ["bad-op"])
  | [op] =>
    match s with
    | none => (s, [if op = "guard" then "guard ok" else "no-queue"])
    | some st =>
      match op with
      | "claim" => let r := step st .claim; (some r.1, [outStr r.2])
      | "receive" => let r := step st .receive; (some r.1, [outStr r.2])
      | "release" => let r := step st .release; (some r.1, [outStr r.2])
      | "empty" => let r := step st .empty; (some r.1, [outStr r.2])
      | "state" => (s, [showSt st])
      | "guard" => (s, ["guard ok"])       -- the library never touches the storage: guards are always intact
      | _ => (s, ["bad-op"])
  | ["send", o] =>
    match s with
    | none => (s, ["no-queue"])
    | some st => if natOk o then let r := step st (.send (nat! o)); (some r.1, [outStr r.2]) else (s, ["bad-op"])
  | [] => (s, [])
  | _ => (s, ["bad-op"])

def main (_ : List String) : IO UInt32 := runLines none stepLine

end Librfn.Driver.Messageq

import Librfn.Driver.Util
import Librfn.Model.Mlog
/-! Line-protocol driver for the C20 model: same ops and same canonical outputs as `harness/h_mlog.c`. -/
namespace Librfn.Driver.Mlog
open Librfn.Driver Librfn.Model.Mlog

abbrev Rec := Nat × Nat × Nat × Nat
def render (r : Rec) : String := s!"F{r.1} {r.2.1} {r.2.2.1} {r.2.2.2}"
def init : St Rec := ⟨fun _ => (0, 0, 0, 0), 0⟩

def stepLine (s : St Rec) (w : List String) : St Rec × List String :=
  match w with
  | ["--"] => (s, ["--"])
  | ["log", i, a, b, c] => if natOk i && natOk a && natOk b && natOk c then (log s (nat! i % 8, nat! a, nat! b, nat! c), ["ok"]) else (s, ["bad-op"])
  | ["nice", i, a, b, c] => if natOk i && natOk a && natOk b && natOk c then (logNice s (nat! i % 8, nat! a, nat! b, nat! c), ["ok"]) else (s, ["bad-op"])
  | ["clear"] => (clear s, ["ok"])
  | ["reset"] => (init, ["ok"])
  | ["sethead", h] => if natOk h then ({ s with head := nat! h }, ["ok"]) else (s, ["bad-op"])
  | ["get", k] => match int? k with
      | some k => (s, [match getLineInt s k with | some r => render r | none => "NULL"])
      | none => (s, ["bad-op"])
  | ["dump"] => (s, ["dump:" ++ String.join ((dump s).map render)])
  | [] => (s, [])
  | _ => (s, ["bad-op"])

def main (_ : List String) : IO UInt32 := runLines init stepLine

end Librfn.Driver.Mlog

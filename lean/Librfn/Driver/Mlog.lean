import Librfn.Driver.Util
import Librfn.Model.Mlog
/-! Line-protocol driver for the C20 model: same ops and same canonical outputs as `harness/h_mlog.c`. -/
namespace Librfn.Driver.Mlog
open Librfn.Driver Librfn.Model.Mlog

abbrev Rec := Nat × Nat × Nat × Nat
def strs : List String := ["", "a", "hello", "percent%sign and spaces"]
def xs (n : Nat) : String := String.ofList (List.replicate n 'x')
def padLeft (w : Nat) (s : String) : String := String.ofList (List.replicate (w - s.length) ' ') ++ s

/-- what printf produces for format `r.1` of the harness's table with the recorded arguments -/
def render (r : Rec) : String :=
  let (f, a, b, c) := r
  if f < 8 then s!"F{f} {a} {b} {c}"
  else if f == 8 then "L" ++ xs 150 ++ s!" {a} {b} {c}"
  else if f == 9 then "M" ++ xs 121 ++ s!"{a}"
  else if f == 10 then "W[" ++ padLeft (a % 1100) (toString b) ++ s!"]{c}"
  else if f == 11 then s!"P%|{a}|%{b}|{c}"
  else if f == 12 then s!"S {strs.getD (a % 4) ""} {b} {c}"
  else if f == 13 then "T" ++ ((strs.getD (b % 4) "").take (a % 7)).toString ++ s!"|{c}"
  else if f == 14 then ""
  else "no conversions at all"
def init : St Rec := ⟨fun _ => (0, 0, 0, 0), 0⟩

def stepLine (s : St Rec) (w : List String) : St Rec × List String :=
  match w with
  | ["--"] => (s, ["--"])
  | ["log", i, a, b, c] => if natOk i && natOk a && natOk b && natOk c then (log s (nat! i % 16, nat! a, nat! b, nat! c), ["ok"]) else (s, ["bad-op"])
  | ["nice", i, a, b, c] => if natOk i && natOk a && natOk b && natOk c then (logNice s (nat! i % 16, nat! a, nat! b, nat! c), ["ok"]) else (s, ["bad-op"])
  | ["clear"] => (clear s, ["ok"])
  | ["reset"] => (init, ["ok"])
  | ["sethead", h] => if natOk h then ({ s with head := nat! h }, ["ok"]) else (s, ["bad-op"])
  | ["get", k] => match int? k with
      | some k => (s, [match getLineInt s k with | some r => render r | none => "NULL"])
      | none => (s, ["bad-op"])
  | ["dump"] => (s, ["dump:" ++ String.join ((dump s).map render)])
  | [] => (s, [])
  | _ => (s, ["bad-op"])

def main (_ : List String) : IO UInt32 := runLines init stepLine

end Librfn.Driver.Mlog

import Librfn.Driver.Util
import Librfn.Model.Console
/-! Line-protocol driver for the C15 model: same ops and same canonical outputs as `harness/h_console.c`.

ops: `reset` | `silent` | `reg <namehex> <yields> <fails> <dirty>` | `proc <hex>` | `put <hex>` | `sched`
   | `eval <hex>` | `--` -/
namespace Librfn.Driver.Console
open Librfn.Driver Librfn.Model.Console

structure World where
  tab : Table
  s : St
  nextId : Nat

def init : World := ⟨initTable, Librfn.Model.Console.init, 0⟩

def hexDigit (c : Char) : Option Nat :=
  if '0' ≤ c ∧ c ≤ '9' then some (c.toNat - 48)
  else if 'a' ≤ c ∧ c ≤ 'f' then some (c.toNat - 87)
  else none

def unhexL : List Char → Option (List Nat)
  | [] => some []
  | [_] => none
  | a :: b :: rest => do
    let x ← hexDigit a
    let y ← hexDigit b
    let r ← unhexL rest
    pure ((x * 16 + y) :: r)

def unhex (s : String) : Option (List Nat) := unhexL s.toList

def hexChar (n : Nat) : Char := if n < 10 then Char.ofNat (48 + n) else Char.ofNat (87 + n)

def hex (bs : List Nat) : String :=
  String.ofList (bs.foldr (fun b acc => hexChar (b / 16 % 16) :: hexChar (b % 16) :: acc) [])

/-- drop trailing zero bytes -/
def trimZeros (bs : List Nat) : List Nat := (bs.reverse.dropWhile (· = 0)).reverse

def offs (argv : List (Option Nat)) : String :=
  ",".intercalate (argv.map fun o => match o with | some n => toString n | none => "-1")

def capLine (c : Cap) : String :=
  s!"cap id={c.id} argc={c.argc} argv={offs c.argv} buf={hex (trimZeros c.buf)}"

/-- caps, then (optionally) an extra line, `out=`, `st`; clears the per-op accumulators -/
def report (w : World) (extra : List String) : World × List String :=
  let s := w.s
  let lines := s.caps.map capLine ++ extra ++
    [s!"out={hex s.out}",
     s!"st bufp={s.bufp} argc={s.argc} argv={offs s.argv} ring={s.ring.length} mem={hex (trimZeros s.mem)}"]
    ++ (if s.fault then ["!! MODEL-FAULT"] else []) ++ (if s.stuck then ["!! MODEL-STUCK"] else [])
  ({ w with s := { s with caps := [], out := [], wlog := [], lines := [], eaten := [], ran := [] } }, lines)

def tableLine (t : Table) : String :=
  ",".intercalate (t.filterMap fun e => e.map fun c => match c.name with | some n => hex n | none => "-")

def stepLine (w : World) (ws : List String) : World × List String :=
  match ws with
  | ["--"] => (w, ["--"])
  | ["reset"] => (init, ["ok"])
  | ["silent"] => ({ w with s := silent w.s }, ["ok"])
  | ["reg", name, k, f, d] =>
    match unhex name with
    | some nm =>
      if natOk k && natOk f && natOk d then
        let cmd : Cmd := ⟨some nm, .script w.nextId (nat! k) (nat! f != 0) (nat! d != 0)⟩
        match register w.tab cmd with
        | some (t, rc) => ({ w with tab := t, nextId := w.nextId + 1 }, [s!"reg {rc} {tableLine t}"])
        | none => ({ w with nextId := w.nextId + 1 }, ["reg UB"])
      else (w, ["bad-op"])
    | none => (w, ["bad-op"])
  | "proc" :: rest =>
    match unhex (String.join rest) with
    | some bs => report { w with s := bs.foldl (process w.tab) w.s } []
    | none => (w, ["bad-op"])
  | "put" :: rest =>
    match unhex (String.join rest) with
    | some bs => let s := bs.foldl putchar w.s; ({ w with s := s }, [s!"ring={s.ring.length}"])
    | none => (w, ["bad-op"])
  | ["sched"] => report { w with s := sched w.tab w.s } []
  | "eval" :: rest =>
    match unhex (String.join rest) with
    | some bs =>
      let r := eval w.tab bs w.s
      report { w with s := r.1 } [match r.2 with | some n => s!"eval done {n}" | none => "eval stuck"]
    | none => (w, ["bad-op"])
  | [] => (w, [])
  | _ => (w, ["bad-op"])

def main (_ : List String) : IO UInt32 := runLines init stepLine

end Librfn.Driver.Console

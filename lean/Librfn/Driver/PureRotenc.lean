import Librfn.Driver.Util
import Librfn.Gen.RotencSeq
/-! Evaluates the generated rotary-encoder functions (tie T, C19). -/
namespace Librfn.Driver.PureRotenc
open Librfn.Driver Librfn.Gen

def step (_ : Unit) (w : List String) : Unit × List String :=
  match w with
  | ["rotenc", ls, c, ic, st] =>
      -- field widths are whatever the generated signature says (`BitVec.ofNat _`)
      let r := RotencSeq.rotenc_decode (BitVec.ofNat _ (nat! ls)) (BitVec.ofNat _ (nat! c)) (BitVec.ofNat _ (nat! ic)) (BitVec.ofNat _ (nat! st))
      let c14 := RotencSeq.rotenc_count14 r.r_last_state r.r_count r.r_internal_count
      let c8 := RotencSeq.rotenc_count r.r_last_state r.r_count r.r_internal_count
      ((), [s!"{r.r_last_state.toNat} {r.r_count.toNat} {r.r_internal_count.toNat} {c14.ret.toNat} {c8.ret.toNat}"])
  | _ => ((), ["bad-op"])

def main (_ : List String) : IO UInt32 := runLines () step

end Librfn.Driver.PureRotenc

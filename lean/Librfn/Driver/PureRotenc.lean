import Librfn.Driver.Util
import Librfn.Gen.Rotenc
/-! Evaluates the generated rotary-encoder functions (tie T, C19). -/
namespace Librfn.Driver.PureRotenc
open Librfn.Driver Librfn.Gen

def step (_ : Unit) (w : List String) : Unit × List String :=
  match w with
  | ["rotenc", ls, c, ic, st] =>
      -- field widths are whatever the generated signature says (`BitVec.ofNat _`)
      let r := Rotenc.rotenc_decode (BitVec.ofNat _ (nat! ls)) (BitVec.ofNat _ (nat! c)) (BitVec.ofNat _ (nat! ic)) (BitVec.ofNat _ (nat! st))
      let c14 := Rotenc.rotenc_count14 r.1 r.2.1 r.2.2
      let c8 := Rotenc.rotenc_count r.1 r.2.1 r.2.2
      ((), [s!"{r.1.toNat} {r.2.1.toNat} {r.2.2.toNat} {c14.1.toNat} {c8.1.toNat}"])
  | _ => ((), ["bad-op"])

def main (_ : List String) : IO UInt32 := runLines () step

end Librfn.Driver.PureRotenc

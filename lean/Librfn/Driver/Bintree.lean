import Librfn.Driver.Util
import Librfn.Model.Bintree
/-! Line-protocol driver for the C11 model: same ops and same canonical outputs as `harness/h_bintree.c`.

    tree N ROOT l0 r0 l1 r1 … [align o0 o1 …]   build nodes 0…N-1 (`-` = NULL); offsets: C side only → ok
    lists i j …                  mark these nodes as list nodes             → ok
    iter in|pre|post|list [K]    iterate (to completion, or K ≥ 1 calls only)  → seq …   (post: node/parent)
    resume                       finish an iteration cut short by K         → seq …
    trav in|pre|post|list        the recursive traversal                    → seq …
    owns i j [i j …]             node i owns the separate tree rooted at j (freed by the deallocator) → ok
    free | freel i | freer i     bintree_free(root) / _left(i) / _right(i)  → freed …
    image                        all links: `left,tag,right` per node, `x` for a deallocated node
-/
namespace Librfn.Driver.Bintree
open Librfn.Driver Librfn.Model.Bintree

structure S where
  n : Nat := 0
  root : Ptr := none
  cells : Array (Option Node) := #[]   -- the heap, tabulated over the allocated ids
  lists : List Nat := []
  owns : List (Nat × Nat) := []  -- (node, root of the separate tree that node owns)
  it : Iter := ⟨.inOrder, none, none⟩
  opened : Bool := false         -- an iteration was cut short after a call that returned a node
  post : Bool := false

def S.isList (s : S) : Nat → Bool := fun i => s.lists.contains i
def S.fuel (s : S) : Nat := 2 * s.n + 2

def ptr? (w : String) : Option Ptr := if w = "-" then some none else w.toNat?.map some
def showPtr : Ptr → String
  | none => "-"
  | some i => toString i
def showErr : Err → String
  | .dead n => s!"err dead {n}"
  | .misaligned => "err misaligned"
  | .null => "err null"
  | .fuel => "err fuel"

def parseLinks : Nat → List String → Option (List (Nat × Node))
  | _, [] => some []
  | i, l :: r :: rest => do
    let l ← ptr? l; let r ← ptr? r
    let tl ← parseLinks (i + 1) rest
    pure ((i, ⟨l, false, r⟩) :: tl)
  | _, _ => none

/-- an array-backed heap: same function, constant-time lookup -/
def heapOfArray (a : Array (Option Node)) : Heap := fun i => (a[i]?).join

/-- tabulate a heap over the allocated ids `0…n-1` (ids ≥ n are never allocated): between operations the
    driver keeps the table, not the closure chain that `upd` builds -/
def tabulate (n : Nat) (h : Heap) : Array (Option Node) := (Array.range n).map h

def S.heap (s : S) : Heap := heapOfArray s.cells

def showSeq (post : Bool) (tag : String) (xs : List (Nat × Ptr)) : String :=
  String.intercalate " " (tag :: xs.map (fun (x, p) => if post then s!"{x}/{showPtr p}" else toString x))

def image (s : S) : String :=
  String.intercalate " " ("img" :: (List.range s.n).map (fun i =>
    match s.heap i with
    | none => "x"
    | some n => s!"{showPtr n.left},{if n.tag then 1 else 0},{showPtr n.right}"))

/-- the caller's loop, cut short: `r` is the result of the last call made; at most `k` further calls of
    `bintree_next` are made (driver-level twin of `Model.Bintree.drain`).  The last component says whether
    the iteration is still open (its last result was a node). -/
def drainK (s : S) : Nat → Heap → Iter → Ptr → Except Err (List (Nat × Ptr) × Heap × Iter × Bool)
  | _, h, it, none => .ok ([], h, it, false)
  | 0, h, it, some n => .ok ([(n, it.parent)], h, it, true)
  | k + 1, h, it, some n =>
    match next s.isList s.fuel h it with
    | .error e => .error e
    | .ok (r, h1, it1) =>
      match drainK s k (heapOfArray (tabulate s.n h1)) it1 r with
      | .error e => .error e
      | .ok (out, h2, it2, o2) => .ok ((n, it.parent) :: out, h2, it2, o2)

def parsePairs : List String → Option (List (Nat × Nat))
  | [] => some []
  | a :: b :: rest => do
    let a ← a.toNat?; let b ← b.toNat?
    let tl ← parsePairs rest
    pure ((a, b) :: tl)
  | _ => none

/-- The harness's deallocator, handed a node that owns another tree, first frees that tree with a nested
    `bintree_free` and then the node.  The trees are disjoint and the model's `free` leaves everything
    outside its tree untouched (`free_children_first_once_no_uaf`), so the driver *composes* the model's
    `free`: the deallocator log of the outer call with, after each owner, the log of the owned tree.
    (Re-entrancy itself — the nested call running in the middle of the outer one — is not modelled.) -/
def expandLog (s : S) : Nat → Heap → List Nat → Except Err (Heap × List Nat)
  | 0, _, _ => .error .fuel
  | _ + 1, h, [] => .ok (h, [])
  | k + 1, h, x :: rest =>
    match (s.owns.find? (·.1 == x)).map (·.2) with
    | none =>
      match expandLog s k h rest with
      | .error e => .error e
      | .ok (h2, out) => .ok (h2, x :: out)
    | some j =>
      match free s.isList s.fuel h s.it (some j) with
      | .error e => .error e
      | .ok (h1, log1) =>
        match expandLog s k h1 (log1 ++ rest) with
        | .error e => .error e
        | .ok (h2, out) => .ok (h2, x :: out)

def freed (s : S) (r : Except Err (Heap × List Nat)) (clearRoot : Bool) : S × List String :=
  match r with
  | .error e => (s, [showErr e])
  | .ok (h, log) =>
    match expandLog s (2 * s.n + 2) h log with
    | .error e => (s, [showErr e])
    | .ok (h2, out) =>
      ({ s with cells := tabulate s.n h2, root := if clearRoot then none else s.root },
       [showSeq false "freed" (out.map (·, none))])

def order? : String → Option Order
  | "in" => some .inOrder | "pre" => some .preOrder | "post" => some .postOrder | "list" => some .list
  | _ => none

def stepLine (s : S) (w : List String) : S × List String :=
  match w with
  | ["--"] => (s, ["--"])
  | [] => (s, [])
  | ["reset"] => ({}, ["ok"])
  | "tree" :: n :: root :: links =>
    -- an optional suffix `align o0 o1 …` places the C nodes at byte offsets within their blocks; the model's
    -- pointer and tag are independent components, so it has nothing to do with it
    match n.toNat?, ptr? root, parseLinks 0 (links.takeWhile (· ≠ "align")) with
    | some n, some root, some nodes =>
      if nodes.length = n then
        let a : Array (Option Node) := (nodes.map (fun p => some p.2)).toArray
        ({ n := n, root := root, cells := a }, ["ok"])
      else (s, ["bad-op"])
    | _, _, _ => (s, ["bad-op"])
  | "lists" :: ids =>
    if ids.all natOk then ({ s with lists := ids.map nat! }, ["ok"]) else (s, ["bad-op"])
  | "owns" :: ps =>
    match parsePairs ps with
    | some ps => ({ s with owns := s.owns ++ ps }, ["ok"])
    | none => (s, ["bad-op"])
  | ["image"] => (s, [image s])
  | ["iter", o] =>
    match order? o with
    | none => (s, ["bad-op"])
    | some o =>
      match iterateAll s.isList s.fuel o s.heap s.it s.root with
      | .error e => (s, [showErr e])
      | .ok (out, h, it) => ({ s with cells := tabulate s.n h, it := it, opened := false }, [showSeq (o == .postOrder) "seq" out])
  | ["iter", o, k] =>
    match order? o, k.toNat? with
    | some o, some k =>
      match iterate s.isList s.fuel o s.heap s.it s.root with
      | .error e => (s, [showErr e])
      | .ok (r, h, it) =>
        match drainK s (k - 1) h it r with
        | .error e => (s, [showErr e])
        | .ok (out, h, it, op) =>
          ({ s with cells := tabulate s.n h, it := it, opened := op, post := o == .postOrder }, [showSeq (o == .postOrder) "seq" out])
    | _, _ => (s, ["bad-op"])
  -- `riter`: the caller re-uses the iterator object (the model keeps `s.it` between operations anyway)
  | ["riter", o] =>
    match order? o with
    | none => (s, ["bad-op"])
    | some o =>
      match iterateAll s.isList s.fuel o s.heap s.it s.root with
      | .error e => (s, [showErr e])
      | .ok (out, h, it) => ({ s with cells := tabulate s.n h, it := it, opened := false }, [showSeq (o == .postOrder) "seq" out])
  | ["riter", o, k] =>
    match order? o, k.toNat? with
    | some o, some k =>
      match iterate s.isList s.fuel o s.heap s.it s.root with
      | .error e => (s, [showErr e])
      | .ok (r, h, it) =>
        match drainK s (k - 1) h it r with
        | .error e => (s, [showErr e])
        | .ok (out, h, it, op) =>
          ({ s with cells := tabulate s.n h, it := it, opened := op, post := o == .postOrder }, [showSeq (o == .postOrder) "seq" out])
    | _, _ => (s, ["bad-op"])
  | ["resume"] =>
    if s.opened then
      match next s.isList s.fuel s.heap s.it with
      | .error e => (s, [showErr e])
      | .ok (r, h1, it1) =>
        match drain s.isList s.fuel s.fuel h1 it1 r with
        | .error e => (s, [showErr e])
        | .ok (out, h, it) => ({ s with cells := tabulate s.n h, it := it, opened := false }, [showSeq s.post "seq" out])
    else (s, ["seq"])
  | ["complete"] =>     -- `bintree_iterate_complete`: the same calls as `resume`, results dropped
    if s.opened then
      match next s.isList s.fuel s.heap s.it with
      | .error e => (s, [showErr e])
      | .ok (r, h1, it1) =>
        match drain s.isList s.fuel s.fuel h1 it1 r with
        | .error e => (s, [showErr e])
        | .ok (_, h, it) => ({ s with cells := tabulate s.n h, it := it, opened := false }, ["done"])
    else (s, ["done"])
  -- bintree_visualize / bintree_graphviz / bintree_is_leaf only observe the tree: not modelled, the heap stays as it
  -- is (`~` = the model has nothing to say about the output; the link image that follows is what is compared)
  | ["viz"] => (s, ["~"])
  | "dot" :: _ => (s, ["~"])
  | ["leaf", _] => (s, ["~"])
  | ["trav", o] =>
    let r := match o with
      | "in" => some (travIn s.fuel s.heap s.root)
      | "pre" => some (travPre s.fuel s.heap s.root)
      | "post" => some (travPost s.fuel s.heap s.root)
      | "list" => some (travList s.isList s.fuel s.heap s.root)
      | _ => none
    match r with
    | none => (s, ["bad-op"])
    | some (.error e) => (s, [showErr e])
    | some (.ok xs) => (s, [showSeq false "seq" (xs.map (·, none))])
  | ["free"] => freed s (free s.isList s.fuel s.heap s.it s.root) true
  | ["freel", i] =>
    match i.toNat? with
    | none => (s, ["bad-op"])
    | some i => freed s (freeLeft s.isList s.fuel s.heap s.it i) false
  | ["freer", i] =>
    match i.toNat? with
    | none => (s, ["bad-op"])
    | some i => freed s (freeRight s.isList s.fuel s.heap s.it i) false
  | _ => (s, ["bad-op"])

def main (_ : List String) : IO UInt32 := runLines ({} : S) stepLine

end Librfn.Driver.Bintree

import Librfn.Driver.Util
import Librfn.Model.RingConc
/-! Line-protocol driver for the C05 model: same ops and the same per-segment log as `harness/h_ring.c`.

The harness yields before and after every atomic operation and between calls, so a thread's run is cut into
*segments*: "call" (enter the function, run to the first atomic operation), the atomic operation itself,
"local" (thread-local code up to the next atomic operation — this is where the plain payload access of the
model's P3 / C3 step happens), and "ret".  The driver keeps, per thread, which kind of yield point it is parked
at (`Phase`) and calls `Model.RingConc.step` exactly for the segments in which the model moves. -/
namespace Librfn.Driver.Ring
open Librfn.Driver Librfn.Model.RingConc

inductive Phase | between | pre | post
  deriving DecidableEq

structure DS where
  y : Sys
  ok : Bool                 -- a ring has been set up
  pph : Phase
  cph : Phase
  pcur : Option POp
  ccur : Option COp

def init : DS :=
  { y := ⟨Librfn.Model.RingConc.init 2 0 (fun _ => 0), [], []⟩, ok := false, pph := .between, cph := .between, pcur := none, ccur := none }

def hexDigit (n : Nat) : Char := "0123456789abcdef".toList.getD n '?'
def hex2 (b : UInt8) : String := String.ofList [hexDigit (b.toNat / 16), hexDigit (b.toNat % 16)]

def suffix (s : St) : String :=
  s!" | r={s.readi} w={s.writei} buf=" ++ String.join ((List.range s.len).map fun i => hex2 (s.buf i)) ++ " g=ok"

def pDone (d : DS) : Bool := d.pcur.isNone && d.y.pscript.isEmpty
def cDone (d : DS) : Bool := d.ccur.isNone && d.y.cscript.isEmpty
def tDone (d : DS) : ThreadId → Bool
  | .prod => pDone d
  | .cons => cDone d

/-- one segment of the producer: new state, event text, "a call returned in this segment" -/
def segP (d : DS) : DS × String × Bool :=
  let s := d.y.st
  match d.pcur, d.pph with
  | none, _ =>
    match d.y.pscript with
    | [] => (d, "idle", false)
    | op :: _ =>
      ({ d with pcur := some op, pph := .pre },
       (match op with | .put b => s!"call put {b.toNat}" | .putchar b => s!"call putchar {b.toNat}"), false)
  | some _, .between => (d, "model-error", false)
  | some _, .pre =>
    let ev := match s.p with
      | .idle => s!"load writei seq_cst {s.writei}"
      | .p1 _ _ => s!"load readi seq_cst {s.readi}"
      | .p3 _ _ nw => s!"store writei seq_cst {nw}"
      | .p2 _ _ _ => "model-error"
    ({ d with y := step d.y .prod, pph := .post }, ev, false)
  | some op, .post =>
    match s.p with
    | .p2 _ _ _ => ({ d with y := step d.y .prod, pph := .pre }, "local", false)     -- plain store happens here
    | .p1 _ _ => ({ d with pph := .pre }, "local", false)
    | .p3 _ _ _ => (d, "model-error", false)
    | .idle =>
      match op, s.plast with
      | .putchar _, some false => ({ d with pph := .pre }, "local", false)            -- spin: put is called again
      | .putchar _, _ => ({ d with pcur := none, pph := .between }, "ret putchar", true)
      | .put _, r => ({ d with pcur := none, pph := .between }, s!"ret put {if r == some true then 1 else 0}", true)

def segC (d : DS) : DS × String × Bool :=
  let s := d.y.st
  match d.ccur, d.cph with
  | none, _ =>
    match d.y.cscript with
    | [] => (d, "idle", false)
    | op :: _ =>
      ({ d with ccur := some op, cph := .pre }, (match op with | .get => "call get" | .empty => "call empty"), false)
  | some _, .between => (d, "model-error", false)
  | some _, .pre =>
    let ev := match s.c with
      | .idle => s!"load readi seq_cst {s.readi}"
      | .c1 _ => s!"load writei seq_cst {s.writei}"
      | .e1 _ => s!"load writei seq_cst {s.writei}"
      | .c3 r _ => s!"store readi seq_cst {wrap s.len r}"
      | .c2 _ => "model-error"
    ({ d with y := step d.y .cons, cph := .post }, ev, false)
  | some op, .post =>
    match s.c with
    | .c2 _ => ({ d with y := step d.y .cons, cph := .pre }, "local", false)          -- plain load happens here
    | .c1 _ => ({ d with cph := .pre }, "local", false)
    | .e1 _ => ({ d with cph := .pre }, "local", false)
    | .c3 _ _ => (d, "model-error", false)
    | .idle =>
      let v : Int := s.clast.getD 0
      ({ d with ccur := none, cph := .between },
       (match op with | .get => s!"ret get {v}" | .empty => s!"ret empty {v}"), true)

def tname : ThreadId → String
  | .prod => "T0"
  | .cons => "T1"

/-- one segment of thread `t` with its log line -/
def seg (d : DS) (t : ThreadId) : DS × String × Bool :=
  let (d', ev, fin) := match t with | .prod => segP d | .cons => segC d
  (d', s!"{tname t} {ev}{suffix d'.y.st}", fin)

def CALL_BUDGET := 400
def TAIL_BUDGET := 600

/-- token `<t>c`: run `t` until a call returns; `false` = budget exhausted -/
def runCall (d : DS) (t : ThreadId) : Nat → List String → DS × List String × Bool
  | 0, acc => (d, acc, false)
  | fuel + 1, acc =>
    let (d', line, fin) := seg d t
    if fin || tDone d' t then (d', line :: acc, true) else runCall d' t fuel (line :: acc)

def other : ThreadId → ThreadId
  | .prod => .cons
  | .cons => .prod

/-- the final alternation 0,1,0,1,… ; `false` = budget exhausted -/
def tail (d : DS) (t : ThreadId) (k : Nat) : Nat → List String → DS × List String × Bool
  | 0, acc => (d, acc, false)
  | fuel + 1, acc =>
    if pDone d && cDone d then (d, acc, true)
    else if tDone d t then tail d (other t) k fuel acc
    else if k ≥ TAIL_BUDGET then (d, acc, false)
    else
      let (d', line, _) := seg d t
      tail d' (other t) (k + 1) fuel (line :: acc)

def parseTok (tok : String) : Option (ThreadId × Bool) :=
  match tok with
  | "0" => some (.prod, false)
  | "1" => some (.cons, false)
  | "0c" => some (.prod, true)
  | "1c" => some (.cons, true)
  | _ => none

/-- the schedule proper; returns `false` when a `c` token got stuck -/
def runToks (d : DS) : List String → List String → DS × List String × Bool
  | [], acc => (d, acc, true)
  | tok :: rest, acc =>
    match parseTok tok with
    | none => runToks d rest ("bad-token" :: acc)
    | some (t, toCompletion) =>
      if tDone d t then runToks d rest (s!"{tname t} idle{suffix d.y.st}" :: acc)
      else if toCompletion then
        let (d', acc', ok) := runCall d t CALL_BUDGET acc
        if ok then runToks d' rest acc' else (d', acc', false)
      else
        let (d', line, _) := seg d t
        runToks d' rest (line :: acc)

def doRun (d : DS) (toks : List String) : DS × List String :=
  let d0 := { d with pph := .between, cph := .between, pcur := none, ccur := none }
  let (d1, acc1, ok1) := runToks d0 toks []
  let (d2, acc2, ok2) := if ok1 then tail d1 .prod 0 (2 * TAIL_BUDGET + 8) acc1 else (d1, acc1, false)
  let acc3 := if ok2 then acc2 else "stuck" :: acc2
  -- whatever was in progress is abandoned (the harness threads leave through pthread_exit)
  let st := { d2.y.st with p := .idle, c := .idle }
  ({ d2 with y := ⟨st, [], []⟩, pcur := none, ccur := none }, ("end" :: acc3).reverse)

/-- a complete consumer call from the (single) main thread -/
def callC (s : St) (op : COp) : St × Int :=
  let y := (List.replicate 4 ThreadId.cons).foldl step ⟨s, [], [op]⟩
  (y.st, y.st.clast.getD 0)

def drainLoop (s : St) : Nat → List Int → St × List Int
  | 0, acc => (s, acc.reverse)
  | n + 1, acc =>
    let (s', v) := callC s .get
    if v == -1 then (s', acc.reverse) else drainLoop s' n (v :: acc)

def doDrain (d : DS) : DS × List String :=
  let (s1, vs) := drainLoop d.y.st (d.y.st.len + 2) []
  let (s2, e) := callC s1 .empty
  ({ d with y := ⟨s2, [], []⟩ },
   ["drain" ++ String.join (vs.map fun v => s!" {v}") ++ s!" | empty={e} r={s2.readi} w={s2.writei} g=ok"])


/-! ### Exhaustive schedule enumeration (thorough tier)

All schedules of the current scripts up to commuting of independent segments: a segment that touches no
shared cell the other thread writes or reads-after-write ("call", "ret", a "local" without payload access, and the
load of the thread's *own* index) is taken at once; the threads branch only where both are about to perform a
segment that can conflict (load of the other side's index, store of the own index, payload access).  Every
interleaving of the atomic-operation steps is Mazurkiewicz-equivalent to one printed here. -/

def nextIndep (d : DS) : ThreadId → Bool
  | .prod => match d.pcur, d.pph with
      | some _, .pre => (match d.y.st.p with | .idle => true | _ => false)
      | some _, .post => (match d.y.st.p with | .p2 _ _ _ => false | _ => true)
      | _, _ => true
  | .cons => match d.ccur, d.cph with
      | some _, .pre => (match d.y.st.c with | .idle => true | _ => false)
      | some _, .post => (match d.y.st.c with | .c2 _ => false | _ => true)
      | _, _ => true

def tok : ThreadId → String
  | .prod => "0"
  | .cons => "1"

def enumerate (d : DS) (path : List String) : Nat → List String → List String
  | 0, acc => "enum-fuel-exhausted" :: acc
  | fuel + 1, acc =>
    let run := [ThreadId.prod, ThreadId.cons].filter fun t => !tDone d t
    match run with
    | [] => ("sched " ++ " ".intercalate path.reverse) :: acc
    | _ =>
      match run.find? (nextIndep d) with
      | some t => enumerate (seg d t).1 (tok t :: path) fuel acc
      | none => run.foldl (fun a t => enumerate (seg d t).1 (tok t :: path) fuel a) acc

def doEnum (d : DS) : List String :=
  let d0 := { d with pph := .between, cph := .between, pcur := none, ccur := none }
  let ls := enumerate d0 [] 400 []
  (s!"enum-done {ls.length}" :: ls).reverse

def parsePOp (tok : String) : Option POp :=
  match tok.splitOn ":" with
  | ["put", b] => if natOk b then some (.put (UInt8.ofNat (nat! b % 256))) else none
  | ["putchar", b] => if natOk b then some (.putchar (UInt8.ofNat (nat! b % 256))) else none
  | _ => none

def parseCOp (tok : String) : Option COp :=
  match tok with
  | "get" => some .get
  | "empty" => some .empty
  | _ => none

def stepLine (d : DS) (w : List String) : DS × List String :=
  match w with
  | ["--"] => (d, ["--"])
  | ["reset"] => (init, ["ok"])
  | ["ring", l, s, f] =>
    if natOk l && natOk s && natOk f && 1 ≤ nat! l && nat! l ≤ 64 && nat! s < nat! l then
      ({ init with y := ⟨Librfn.Model.RingConc.init (nat! l) (nat! s) (fun _ => UInt8.ofNat (nat! f % 256)), [], []⟩, ok := true }, ["ok"])
    else (d, ["bad-op"])
  | "prod" :: toks =>
    let ops := toks.map parsePOp
    if ops.all Option.isSome && ops.length ≤ 256 then ({ d with y := { d.y with pscript := ops.filterMap id } }, ["ok"]) else (d, ["bad-op"])
  | "cons" :: toks =>
    let ops := toks.map parseCOp
    if ops.all Option.isSome && ops.length ≤ 256 then ({ d with y := { d.y with cscript := ops.filterMap id } }, ["ok"]) else (d, ["bad-op"])
  | "run" :: toks => if d.ok then doRun d toks else (d, ["bad-op"])
  | ["drain"] => if d.ok then doDrain d else (d, ["bad-op"])
  | ["enum"] => if d.ok then (d, doEnum d) else (d, ["bad-op"])
  | [] => (d, [])
  | _ => (d, ["bad-op"])

def main (_ : List String) : IO UInt32 := runLines init stepLine

end Librfn.Driver.Ring

import Librfn.Driver.Util
import Librfn.Model.ListHeap
import Librfn.Spec.ListSeq
/-! Line-protocol driver for C09: same ops and same canonical outputs as `harness/h_list.c`.
`librfn_model list` runs the heap model of list.c, `librfn_model listspec` the abstract sequence
specification (used to check that the Python oracle of `props/C09.py` and the Lean spec agree).

Pool: nodes 0..7 with integer keys, lists 0..2, iterators 0..3.  Every op prints one line
`<ret> L0:a,b, L1: L2: free:c,d!,` — return value, the full traversal of every list, the nodes that
are in no traversal (`!` marks a non-NULL `next`).  A traversal longer than the pool prints `loop`. -/
namespace Librfn.Driver.List
open Librfn.Driver Librfn.Model.ListHeap

def NN : Nat := 8
def NL : Nat := 3
def NK : Nat := 4
def fuel : Nat := NN + 1

/-- what the driver needs from an engine (concrete model or abstract spec) -/
structure Engine (σ : Type) where
  init : σ
  step : σ → Op → σ × Out
  render : σ → String      -- canonical dump of the engine's own state (debug op `state`, model side only)

structure St (σ : Type) where
  s : σ
  keys : Node → Int

def defaultKeys : Node → Int := fun i => (i / 2 : Nat)

def renderErr : Err → String
  | .assertFail => "!assert" | .wild => "!wild" | .fuel => "!fuel"

def renderNode : Option Node → String
  | some n => toString n | none => "-1"

def renderOut : Out → String
  | .unit => "ok"
  | .node o => renderNode o
  | .bool b => if b then "1" else "0"
  | .nodes xs => String.join (xs.map (fun x => toString x ++ ","))
  | .err e => renderErr e

def dumpAll {σ : Type} (e : Engine σ) (s : σ) : String :=
  let trav := (List.range NL).map (fun l => (e.step s (.dump l)).2)
  let lists := trav.map (fun o => match o with | .nodes xs => xs | _ => [])
  let members := lists.foldl (· ++ ·) []
  let ls := String.join ((List.range NL).zip trav |>.map (fun (l, o) =>
    s!" L{l}:" ++ (match o with | .nodes xs => renderOut (.nodes xs) | _ => "loop")))
  let free := (List.range NN).filter (fun i => !members.contains i)
  let fs := String.join (free.map (fun i =>
    toString i ++ (match (e.step s (.link i)).2 with | .node none => "" | _ => "!") ++ ","))
  ls ++ " free:" ++ fs

def renderTail : Tail → String
  | .null => "null" | .node n => s!"n{n}" | .listAsNode l => s!"L{l}"
def renderLink : Link → String
  | .headOf l => s!"H{l}" | .nextOf n => s!"N{n}"

/-- heads, tails (raw, incl. stale values), next of every node, iterators -/
def renderModel (s : MState) : String :=
  String.join ((List.range NL).map (fun l => s!"h{l}={renderNode (s.heap.head l)} t{l}={renderTail (s.heap.tail l)} "))
  ++ String.join ((List.range NN).map (fun n => s!"n{n}={renderNode (s.heap.next n)} "))
  ++ String.join ((List.range NK).map (fun k => match s.iters k with
      | some it => s!"i{k}={renderLink it.prevnext}/{it.list} "
      | none => s!"i{k}=uninit "))

def parse (keys : Node → Int) (w : List String) : Option Op :=
  let l? (x : String) : Option Nat := x.toNat?.filter (· < NL)
  let n? (x : String) : Option Nat := x.toNat?.filter (· < NN)
  let k? (x : String) : Option Nat := x.toNat?.filter (· < NK)
  match w with
  | ["insert", l, n] => do some (.insert (← l? l) (← n? n))
  | ["push", l, n] => do some (.push (← l? l) (← n? n))
  | ["sorted", l, n] => do some (.sorted (← l? l) (← n? n) (fun a b => keys a - keys b))
  | ["extract", l] => do some (.extract (← l? l))
  | ["peek", l] => do some (.peek (← l? l))
  | ["empty", l] => do some (.empty (← l? l))
  | ["iterate", k, l] => do some (.iterate (← k? k) (← l? l))
  | ["next", k] => do some (.next (← k? k))
  | ["iinsert", k, n] => do some (.iinsert (← k? k) (← n? n))
  | ["iremove", k] => do some (.iremove (← k? k))
  | ["cur", k] => do some (.cur (← k? k))
  | ["contains", l, n] => do some (.contains (← l? l) (← n? n))
  | ["find", k, l, n] => do some (.find (← k? k) (← l? l) (← n? n))
  | ["remove", l, n] => do some (.remove (← l? l) (← n? n))
  | _ => none

def stepLine {σ : Type} (e : Engine σ) (st : St σ) (w : List String) : St σ × List String :=
  match w with
  | ["--"] => (st, ["--"])
  | [] => (st, [])
  | ["reset"] => (⟨e.init, defaultKeys⟩, ["ok" ++ dumpAll e e.init])
  | ["state"] => (st, [e.render st.s])
  | ["setkey", n, v] =>
    match n.toNat?.filter (· < NN), v.toInt? with
    | some n, some v => (⟨st.s, fun i => if i = n then v else st.keys i⟩, ["ok" ++ dumpAll e st.s])
    | _, _ => (st, ["bad-op"])
  | _ => match parse st.keys w with
    | none => (st, ["bad-op"])
    | some op =>
      let r := e.step st.s op
      (⟨r.1, st.keys⟩, [renderOut r.2 ++ dumpAll e r.1])

def modelEngine : Engine MState := ⟨init, step fuel, renderModel⟩
def specEngine : Engine Librfn.Spec.ListSeq.SState := ⟨Librfn.Spec.ListSeq.init, Librfn.Spec.ListSeq.step, fun _ => "abstract"⟩

/-- `librfn_model list` = heap model of list.c; `librfn_model list spec` = abstract sequence spec -/
def main (args : List String) : IO UInt32 :=
  match args with
  | ["spec"] => runLines (⟨specEngine.init, defaultKeys⟩ : St Librfn.Spec.ListSeq.SState) (stepLine specEngine)
  | _ => runLines (⟨modelEngine.init, defaultKeys⟩ : St MState) (stepLine modelEngine)

end Librfn.Driver.List

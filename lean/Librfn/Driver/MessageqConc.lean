import Librfn.Driver.Util
import Librfn.Model.MessageqConc
/-! Schedule-replay driver for the interleaving model of the message queue (C04): same protocol and same canonical
log as `harness/h_messageq_conc.c` (see there for `cfg` / `run` and the token semantics). -/
namespace Librfn.Driver.MessageqConc
open Librfn.Driver Librfn.Model.MessageqConc

structure D where
  ok : Bool := false
  st : St := init 1 4 0
  depth : Nat := 1
  progs : List (Bool × Nat) := []     -- per sender: (hold, number of messages)
  rtries : Nat := 0
  poll : Bool := false
  iters : List Nat := []              -- completed iterations per thread (receiver last)

def D.n (d : D) : Nat := d.progs.length

def D.quota (d : D) (t : Nat) : Nat :=
  if t < d.n then (match d.progs[t]? with | some (true, _) => 1 | some (false, k) => k | none => 0) else d.rtries

def D.isDone (d : D) (t : Nat) : Bool := d.iters.getD t 0 ≥ d.quota t

def aop : AOp → String
  | .fetch_sub => "fetch_sub" | .fetch_add => "fetch_add" | .load => "load" | .cas_ok => "cas_ok"
  | .cas_fail => "cas_fail" | .fetch_or => "fetch_or" | .fetch_and => "fetch_and"
def fld : Fld → String
  | .num_free => "num_free" | .sendp => "sendp" | .full_flags => "full_flags"
def slotOrNull : Option Nat → String
  | some k => toString k | none => "NULL"

def ev : Ev → String
  | .atomic t op f b a => s!"T{t} {aop op} {fld f} seq_cst {b} {a}"
  | .plain t true sl v => s!"T{t} write slot{sl} plain {v}"
  | .plain t false sl v => s!"T{t} read slot{sl} plain {v}"
  | .ret t .claim r => s!"T{t} ret claim {slotOrNull r}"
  | .ret t .send _ => s!"T{t} ret send"
  | .ret t .empty r => s!"T{t} ret empty {slotOrNull r}"
  | .ret t .receive r => s!"T{t} ret receive {slotOrNull r}"
  | .ret t .release _ => s!"T{t} ret release"

/-- one operation of thread `t` (not finished); returns whether the thread reached the end of an iteration -/
def stepThread (d : D) (t : Nat) : D × List String × Bool :=
  let it := d.iters.getD t 0
  let act : Act := if t < d.n then .sender t false ((t + 1) * 1000 + it) else .recv d.poll
  let s' := step d.st act
  let hold := match d.progs[t]? with | some (true, _) => true | _ => false
  let atB : Bool :=
    if t < d.n then
      (match s'.senders[t]? with
       | some .idle => true
       | some (.hasSlot _ _) => hold
       | _ => false)
    else (match s'.recv with | .idle => true | _ => false)
  ({ d with st := s', iters := if atB then d.iters.set t (it + 1) else d.iters }, s'.log.map ev, atB)

def runIteration (d : D) (t : Nat) : Nat → D × List String
  | 0 => (d, ["!! STEP-LIMIT"])
  | fuel + 1 =>
    if d.isDone t then (d, [])
    else
      let (d1, out, atB) := stepThread d t
      if atB then (d1, out)
      else let (d2, out2) := runIteration d1 t fuel; (d2, out ++ out2)

def runToken (d : D) (tok : String) : D × List String :=
  let bang := tok.endsWith "!"
  let num := if bang then (tok.dropEnd 1).toString else tok
  match num.toNat? with
  | none => (d, [s!"bad-token {tok}"])
  | some t =>
    if t > d.n then (d, [s!"bad-token {tok}"])
    else if d.isDone t then (d, [])
    else if bang then runIteration d t 20000
    else let (d1, out, _) := stepThread d t; (d1, out)

def drainThread (d : D) (t : Nat) : Nat → D × List String
  | 0 => (d, [])
  | fuel + 1 =>
    if d.isDone t then (d, [])
    else let (d1, o1) := runIteration d t 20000
         let (d2, o2) := drainThread d1 t fuel
         (d2, o1 ++ o2)

/-- main thread after quiescence: receive/read/release until NULL -/
def finalDrain (s : St) : Nat → St × Nat
  | 0 => (s, 0)
  | fuel + 1 =>
    let s1 := step s (.recv false)
    match s1.recv with
    | .hold _ _ =>
      let s3 := step (step s1 (.recv false)) (.recv false)
      let (s4, k) := finalDrain s3 fuel
      (s4, k + 1)
    | _ => (s1, 0)

/-- main thread after quiescence: claim until NULL (each claim by a fresh sender that keeps its buffer) -/
def finalClaims (s : St) : Nat → Nat
  | 0 => 0
  | fuel + 1 =>
    let m := s.senders.length
    let s0 := { s with senders := s.senders ++ [.idle] }
    let s1 := step s0 (.sender m false 0)
    match s1.senders[m]? with
    | some (.loadedFree _) =>      -- compare-exchange on num_free, load sendp, compare-exchange on sendp
      let s4 := step (step (step s1 (.sender m false 0)) (.sender m false 0)) (.sender m false 0)
      finalClaims s4 fuel + 1
    | _ => 0

/-- all threads / contexts have completed: state line, then the main thread drains and counts the free buffers -/
def finish (s : St) : List String :=
  let endl := s!"end num_free={s.numFree.toNat} sendp={s.sendp.toNat} flags={s.flags.toNat} receivep={s.receivep.toNat}"
  let (s', drained) := finalDrain s 100
  let extra := finalClaims s' 40
  [endl, s!"final drained={drained} extra_claims={extra}"]

/-! deep synchronous nesting (`nest` in harness/h_messageq_conc.c): contexts are senders of the same model; "context `t`
is interrupted immediately before the (`wh`+1)-th atomic operation of its claim by the next context, which runs its whole
iteration" is just a particular schedule -/
structure NS where
  st : St
  next : Nat
  last : Nat
  wh : Nat
  out : Array String := #[]

def inClaim : SPc → Bool
  | .idle | .loadedFree _ | .gotPerm | .loaded _ => true
  | _ => false

/-- context `t` runs claim [write send]; `c` = atomic operations of its claim performed so far -/
def nestCtx : Nat → NS → Nat → Nat → NS
  | 0, ns, _, _ => { ns with out := ns.out.push "!! STEP-LIMIT" }
  | fuel + 1, ns, t, c =>
    match ns.st.senders[t]? with
    | none => ns
    | some pc =>
      let ic := inClaim pc
      let ns1 := if ic && c == ns.wh && ns.next < ns.last then nestCtx fuel { ns with next := ns.next + 1 } ns.next 0 else ns
      let s' := step ns1.st (.sender t false ((t + 1) * 1000))
      let ns2 := { ns1 with st := s', out := ns1.out ++ (s'.log.map ev).toArray }
      match s'.senders[t]? with
      | some .idle => ns2
      | _ => nestCtx fuel ns2 t (if ic then c + 1 else c)

/-- a holder: claim and keep the buffer -/
def holdCtx : Nat → NS → Nat → NS
  | 0, ns, _ => ns
  | fuel + 1, ns, t =>
    let s' := step ns.st (.sender t false 0)
    let ns2 := { ns with st := s', out := ns.out ++ (s'.log.map ev).toArray }
    match s'.senders[t]? with
    | some .idle => ns2
    | some (.hasSlot _ _) => ns2
    | _ => holdCtx fuel ns2 t

def nestTop : Nat → NS → NS
  | 0, ns => ns
  | fuel + 1, ns => if ns.next < ns.last then nestTop fuel (nestCtx 100000 { ns with next := ns.next + 1 } ns.next 0) else ns

def runNest (depth msglen held levels wh : Nat) : List String :=
  let s0 := init depth msglen (held + levels)
  let ns0 : NS := { st := s0, next := held, last := held + levels, wh := wh }
  let ns1 := (List.range held).foldl (fun ns t => holdCtx 16 ns t) ns0
  let ns2 := nestTop (levels + 1) ns1
  ns2.out.toList ++ finish ns2.st

def runSchedule (d : D) (toks : List String) : D × List String :=
  let (d1, out1) := toks.foldl (fun (acc : D × List String) tok =>
      let (d', o) := runToken acc.1 tok; (d', acc.2 ++ o)) (d, [])
  let (d2, out2) := (List.range (d.n + 1)).foldl (fun (acc : D × List String) t =>
      let (d', o) := drainThread acc.1 t 100000; (d', acc.2 ++ o)) (d1, out1)
  (d2, out2 ++ finish d2.st)

def parseProg (p : String) : Option (Bool × Nat) :=
  if p = "h" then some (true, 1)
  else if p.startsWith "s" then (p.drop 1).toString.toNat?.map fun k => (false, k)
  else none

def stepLine (d : D) (w : List String) : D × List String :=
  match w with
  | ["--"] => (d, ["--"])
  | ["reset"] => ({}, ["ok"])
  | "cfg" :: depth :: msglen :: rtries :: poll :: progs =>
    let ps := progs.filterMap parseProg
    if natOk depth && natOk msglen && natOk rtries && natOk poll && ps.length = progs.length && ps.length < 8
       && nat! depth ≥ 1 && nat! depth ≤ 32 && nat! msglen ≥ 4 && nat! msglen ≤ 4096 then
      ({ ok := true, st := init (nat! depth) (nat! msglen) ps.length, depth := nat! depth, progs := ps,
         rtries := nat! rtries, poll := nat! poll != 0, iters := List.replicate (ps.length + 1) 0 }, ["ok"])
    else ({}, ["bad-cfg"])
  | ["nest", depth, msglen, held, levels, wh] =>
    if natOk depth && natOk msglen && natOk held && natOk levels && natOk wh && nat! depth ≥ 1 && nat! depth ≤ 32
       && nat! msglen ≥ 4 && nat! msglen ≤ 4096 && nat! held ≤ nat! depth && nat! levels ≥ 1 && nat! held + nat! levels ≤ 1024 && nat! wh ≥ 1 then
      ({}, "ok" :: runNest (nat! depth) (nat! msglen) (nat! held) (nat! levels) (nat! wh))
    else ({}, ["bad-nest"])
  | "run" :: toks =>
    if d.ok then
      -- every `run` starts from a freshly initialised queue, like the harness
      let d0 := { d with st := init d.depth d.st.msgLen.toNat d.n, iters := List.replicate (d.n + 1) 0 }
      let (_, out) := runSchedule d0 toks
      (d, out)
    else (d, ["no-cfg"])
  | [] => (d, [])
  | _ => (d, ["bad-op"])

def main (_ : List String) : IO UInt32 := runLines {} stepLine

end Librfn.Driver.MessageqConc

import Librfn.Driver.Util
import Librfn.Model.Fibre
import Librfn.Model.MainLoop
import Librfn.Spec.Sched
/-! Line-protocol driver for C01–C03: same ops and canonical outputs as `harness/h_sched.c`.

    librfn_model sched          the concrete model of fibre.c (`Model/Fibre.lean`) on the history mod 2^32
    librfn_model sched spec     the abstract specification (`Spec/Sched.lean`) on the true times
    librfn_model sched scope    per op: `in` while the history so far is inside the quantifier's scope
                                (`Spec.Sched.inScopeFrom`), `out` from the first op that leaves it

ops:  reset | run f | atomic f | kill f | next T ret item*      (f < 8; T and due times: true integer times)
      ret ∈ y w e f ; item ∈ r:g a:g k:g t:D p:L                 "--" echoes "--"
      loop T1 T2 ret item*    one iteration of `fibre_scheduler_main_loop` (posix/fibre_posix.c; `Model/MainLoop.lean`):
                              the pass `next T1 ret item*`, then the sleep computed from its result and the clock reading T2
          model  the `next` line + ` sleep=<d>` | ` sleep=none`
          spec   the `next` line + ` maxsleep=<V - T2>`  (V = the true returned time; `Spec.Sched.SleepOk V T2` allows
                 `none` always and `d` iff 0 < d ≤ V - T2 — a relation, judged by props/sched_common.py)
          scope  `Spec.Sched.loopOk`: the pass is in scope, T1 ≤ T2, T2 - T1 ≤ 2^31 -/
namespace Librfn.Driver.Sched
open Librfn.Driver Librfn.Sched

def NF : Nat := 8

def fid? (s : String) : Option Fid := match s.toNat? with
  | some n => if n < NF then some n else none
  | none => none

def ret? : String → Option Ret
  | "y" => some .yielded | "w" => some .waiting | "e" => some .exited | "f" => some .failed | _ => none

def item? (s : String) : Option (Call Int) :=
  match s.splitOn ":" with
  | ["r", g] => (fid? g).map .run
  | ["a", g] => (fid? g).map .runAtomic
  | ["k", g] => (fid? g).map .kill
  | ["t", d] => d.toInt?.map .timeout
  | ["p", l] => match l.toNat? with
      | some n => if n < 65536 then some (.setPriv (BitVec.ofNat 16 n)) else none
      | none => none
  | _ => none

def items? : List String → Option (List (Call Int))
  | [] => some []
  | s :: r => match item? s, items? r with
    | some c, some cs => some (c :: cs)
    | _, _ => none

def op? : List String → Option (Op Int)
  | ["run", f] => (fid? f).map .run
  | ["atomic", f] => (fid? f).map .runAtomic
  | ["kill", f] => (fid? f).map .kill
  | "next" :: t :: r :: its => match t.toInt?, ret? r, items? its with
    | some t, some r, some s => some (.next t s r)
    | _, _, _ => none
  | _ => none

/-- what a line asks for: a call of the history, or one iteration of the POSIX main loop -/
inductive DOp
  | op (o : Op Int)
  | loop (t1 t2 : Int) (script : List (Call Int)) (ret : Ret)

def dop? : List String → Option DOp
  | "loop" :: t1 :: t2 :: r :: its => match t1.toInt?, t2.toInt?, ret? r, items? its with
    | some t1, some t2, some r, some s => some (.loop t1 t2 s r)
    | _, _, _, _ => none
  | w => (op? w).map .op

def resStr (l : List Res) : String :=
  String.join (l.map fun | .unit => "." | .bool true => "1" | .bool false => "0")

def selfStr : Option Fid → String
  | none => "-1" | some f => toString f

def render : Out → String
  | .unit => "ok"
  | .bool b => if b then "1" else "0"
  | .pass p => match p.disp with
    | some (f, pv, res) => s!"disp={f} priv={pv.toNat} res={resStr res} self={selfStr p.self} wake={p.wake.toNat}"
    | none => s!"idle self={selfStr p.self} wake={p.wake.toNat}"

/-- generic step: `--` echoes, `reset` re-initialises, anything unparsable is `bad-op` -/
def stepWith {σ : Type} (init : σ) (f : σ → DOp → σ × String) (s : σ) (w : List String) : σ × List String :=
  match w with
  | ["--"] => (s, ["--"])
  | ["reset"] => (init, ["ok"])
  | [] => (s, [])
  | w => match dop? w with
    | some op => let q := f s op; (q.1, [q.2])
    | none => (s, ["bad-op"])

def sleepStr : Option Nat → String
  | none => "none" | some d => toString d

def modelStep (k : Model.Fibre.K) : DOp → Model.Fibre.K × String
  | .op op => let q := Model.Fibre.step k (op.map w32); (q.1, render q.2)
  | .loop t1 t2 s r =>
    let q := Model.MainLoop.mainLoopPass k (w32 t1) (w32 t2) (s.map (Call.map w32)) r
    (q.1, render (.pass q.2.1) ++ " sleep=" ++ sleepStr q.2.2)

def specStep (a : Spec.Sched.A) : DOp → Spec.Sched.A × String
  | .op op => let q := Spec.Sched.step a op; (q.1, render q.2)
  | .loop t1 t2 s r =>
    let q := a.next t1 s r
    (q.1, render (.pass q.2) ++ " maxsleep=" ++ toString (a.passWake t1 s r - t2))

structure ScopeSt where
  a : Spec.Sched.A := {}
  last : Option Int := none
  ok : Bool := true

def scopeStep (s : ScopeSt) : DOp → ScopeSt × String
  | .op op =>
    let ok := s.ok && Spec.Sched.opOk s.a s.last op
    ({ a := (Spec.Sched.step s.a op).1, last := Spec.Sched.lastOf s.last op, ok := ok }, if ok then "in" else "out")
  | .loop t1 t2 sc r =>
    -- the state moves as for `next t1`; the scheduler has seen the time t1 only
    let ok := s.ok && Spec.Sched.loopOk s.a s.last t1 t2 sc r
    ({ a := (s.a.next t1 sc r).1, last := some t1, ok := ok }, if ok then "in" else "out")

def main (args : List String) : IO UInt32 :=
  match args with
  | [] => runLines Model.Fibre.init (stepWith Model.Fibre.init modelStep)
  | ["spec"] => runLines Spec.Sched.init (stepWith Spec.Sched.init specStep)
  | ["scope"] => runLines ({} : ScopeSt) (stepWith {} scopeStep)
  | _ => do IO.eprintln "usage: librfn_model sched [spec|scope]"; return 2

end Librfn.Driver.Sched

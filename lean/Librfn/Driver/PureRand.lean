import Librfn.Driver.Util
import Librfn.Gen.RandSeq
/-! Evaluates the generated `rand31_r` (tie T, C17). -/
namespace Librfn.Driver.PureRand
open Librfn.Driver Librfn.Gen

def step (_ : Unit) (w : List String) : Unit × List String :=
  match w with
  | ["rand31", s] =>
      let r := RandSeq.rand31_r (BitVec.ofNat _ (nat! s))
      ((), [s!"{r.ret.toNat} {r.deref_seedp.toNat}"])
  | _ => ((), ["bad-op"])

def main (_ : List String) : IO UInt32 := runLines () step

end Librfn.Driver.PureRand

import Librfn.Driver.Util
import Librfn.Model.HB
/-! Driver for the happens-before race detector: `ev <tid> <aload|astore|armw|pread|pwrite> <loc> <order>` per line,
`--` ends an execution and prints `races <n> <i>-<j> ...`. -/
namespace Librfn.Driver.HB
open Librfn.Driver Librfn.Model.HB

def kindOf : String → Option Kind
  | "aload" => some .aload | "astore" => some .astore | "armw" => some .armw
  | "pread" => some .pread | "pwrite" => some .pwrite | _ => none
def ordOf : String → Option Ord
  | "relaxed" => some .relaxed | "consume" => some .consume | "acquire" => some .acquire
  | "release" => some .release | "acq_rel" => some .acqRel | "seq_cst" => some .seqCst | "na" => some .relaxed | _ => none

def stepLine (tr : List Ev) (w : List String) : List Ev × List String :=
  match w with
  | ["--"] =>
      let rs := races tr.reverse
      ([], [s!"races {rs.length}" ++ String.join (rs.map fun (a, b) => s!" {a}-{b}"), "--"])
  | ["reset"] => ([], [])
  | ["ev", t, k, l, o] =>
      match kindOf k, ordOf o with
      | some k, some o => if natOk t && natOk l then (⟨nat! t, k, nat! l, o⟩ :: tr, []) else (tr, ["bad-op"])
      | _, _ => (tr, ["bad-op"])
  | [] => (tr, [])
  | _ => (tr, ["bad-op"])

def main (_ : List String) : IO UInt32 := runLines [] stepLine

end Librfn.Driver.HB

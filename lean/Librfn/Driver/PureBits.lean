import Librfn.Driver.Util
import Librfn.Gen.Bitops
import Librfn.Gen.Constexpr
/-! Evaluates the *generated* bit helpers (tie T, C16) so that the translator's output can be compared with the
compiled C on the same inputs.  One driver (and one executable) per generated unit group: a change that breaks the
translation of one unit must not take the other properties' model executables down with it. -/
namespace Librfn.Driver.PureBits
open Librfn.Driver Librfn.Gen

def step (_ : Unit) (w : List String) : Unit × List String :=
  match w with
  | ["bitcnt", x] => ((), [toString (Bitops.bitcnt (BitVec.ofNat _ (nat! x))).toInt])
  | ["clz", x] => ((), [toString (Bitops.clz (BitVec.ofNat _ (nat! x))).toInt])
  | ["ctz", x] => ((), [toString (Bitops.ctz (BitVec.ofNat _ (nat! x))).toInt])
  | ["ilog2", x] => ((), [toString (Bitops.ilog2 (BitVec.ofNat _ (nat! x))).toInt])
  | ["const_pop", x] => ((), [toString (Constexpr.w_const_pop (BitVec.ofNat _ (nat! x))).toInt])
  | ["const_lssb", x] => ((), [toString (Constexpr.w_const_lssb (BitVec.ofNat _ (nat! x))).toInt])
  | _ => ((), ["bad-op"])

def main (_ : List String) : IO UInt32 := runLines () step

end Librfn.Driver.PureBits

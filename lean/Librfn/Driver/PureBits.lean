import Librfn.Driver.Util
import Librfn.Gen.BitopsSeq
import Librfn.Gen.ConstexprSeq
/-! Evaluates the *generated* bit helpers (tie T, C16) so that the translator's output can be compared with the
compiled C on the same inputs.  One driver (and one executable) per generated unit group: a change that breaks the
translation of one unit must not take the other properties' model executables down with it. -/
namespace Librfn.Driver.PureBits
open Librfn.Driver Librfn.Gen

def step (_ : Unit) (w : List String) : Unit × List String :=
  match w with
  | ["bitcnt", x] => ((), [toString (BitopsSeq.bitcnt (BitVec.ofNat _ (nat! x))).ret.toInt])
  | ["clz", x] => ((), [toString (BitopsSeq.clz (BitVec.ofNat _ (nat! x))).ret.toInt])
  | ["ctz", x] => ((), [toString (BitopsSeq.ctz (BitVec.ofNat _ (nat! x))).ret.toInt])
  | ["ilog2", x] => ((), [toString (BitopsSeq.ilog2 (BitVec.ofNat _ (nat! x))).ret.toInt])
  | ["const_pop", x] => ((), [toString (ConstexprSeq.w_const_pop (BitVec.ofNat _ (nat! x))).ret.toInt])
  | ["const_lssb", x] => ((), [toString (ConstexprSeq.w_const_lssb (BitVec.ofNat _ (nat! x))).ret.toInt])
  | _ => ((), ["bad-op"])

def main (_ : List String) : IO UInt32 := runLines () step

end Librfn.Driver.PureBits

import Librfn.Driver.Util
import Librfn.Driver.Pack
import Librfn.Model.Wav
/-! Line-protocol driver for the WAV header model: same ops and canonical outputs as `harness/h_wav.c`.

ops:  prior <160 hex>          memcpy these 80 bytes over the structure ("whatever it held beforehand")
      init <sfreq> <nch> <fmt> rf_wavheader_init (signed decimals)        frames <n>  rf_wavheader_set_num_frames
      show | validate | getfmt | tostring
      enc <sz>                 encode into an exactly-sized block of sz bytes pre-filled 0xee; the block is kept
      dec <sz> <hex|->         decode sz bytes (an exactly-sized copy) into the structure
      decbuf <k>               decode the first k bytes of the kept block (an exactly-sized copy)
Return values are printed exactly when `0 <= ret <= sz`, as `neg` when negative, `gt` when `> sz`
(that classification is all C13/C14 speak about). -/
namespace Librfn.Driver.Wav
open Librfn.Driver Librfn.Model.Pack Librfn.Model.Wav
open Librfn.Driver.Pack (hexOf parseHex)

structure St where
  wh : Wh
  buf : List UInt8

def init : St := ⟨Wh.zero, []⟩
def base : Nat := 4096

def showWh (w : Wh) : String :=
  s!"wh cid={hexOf w.chunkId} cs={w.chunkSize.toNat} fmt={hexOf w.format} fid={hexOf w.fmtChunkId} fcs={w.fmtChunkSize.toNat} " ++
  s!"af={w.audioFormat.toNat} nc={w.numChannels.toNat} sr={w.sampleRate.toNat} br={w.byteRate.toNat} ba={w.blockAlign.toNat} " ++
  s!"bps={w.bitsPerSample.toNat} cb={w.cbSize.toNat} vb={w.validBitsPerSample.toNat} cm={w.channelMask.toNat} sub={hexOf w.subFormat} " ++
  s!"fa={hexOf w.factChunkId} fas={w.factChunkSize.toNat} sl={w.sampleLength.toNat} did={hexOf w.dataChunkId} ds={w.dataChunkSize.toNat}"

def cls (r : Int) (sz : Nat) : String := if r < 0 then "neg" else if r > sz then "gt" else s!"{r}"

def bv32 (i : Int) : BitVec 32 := BitVec.ofInt 32 i

def doDec (s : St) (bs : List UInt8) : St × List String :=
  let r := decode (memOfList base bs) base bs.length
  ({ s with wh := r.1 }, ["dec ret=" ++ cls r.2 bs.length])

def stepLine (s : St) (w : List String) : St × List String :=
  match w with
  | ["--"] => (s, ["--"])
  | ["reset"] => (init, ["ok"])
  | ["prior", h] =>
    match parseHex h with
    | some bs => if bs.length = 80 then ({ s with wh := Wh.ofRaw bs }, ["ok"]) else (s, ["bad-op"])
    | none => (s, ["bad-op"])
  | ["init", a, b, c] =>
    match a.toInt?, b.toInt?, c.toInt? with
    | some a, some b, some c => ({ s with wh := Librfn.Model.Wav.init s.wh (bv32 a) (bv32 b) c }, ["ok"])
    | _, _, _ => (s, ["bad-op"])
  | ["frames", n] =>
    match n.toNat? with
    | some n => ({ s with wh := setNumFrames s.wh (BitVec.ofNat 32 n) }, ["ok"])
    | none => (s, ["bad-op"])
  | ["show"] => (s, [showWh s.wh])
  | ["validate"] => (s, [s!"validate={validate s.wh}"])
  | ["getfmt"] => (s, [s!"getfmt={getFormat s.wh}"])
  | ["tostring"] =>
    match tostringArgs s.wh with
    | some (a, n, c, d) => (s, [s!"ts {a} {n} {c} {d}"])
    | none => (s, ["!! SIGFPE"])
  | ["enc", n] =>
    match n.toNat? with
    | some sz =>
      let r := encode s.wh (memOfList base (List.replicate sz 0xee)) base sz
      let img := readBytes r.1 base sz
      ({ s with buf := img }, [s!"enc ret={cls r.2 sz} buf={hexOf img}"])
    | none => (s, ["bad-op"])
  | ["dec", n, h] =>
    match n.toNat?, parseHex h with
    | some sz, some bs => if bs.length = sz then doDec s bs else (s, ["bad-op"])
    | _, _ => (s, ["bad-op"])
  | ["decbuf", k] =>
    match k.toNat? with
    | some k => if k ≤ s.buf.length then doDec s (s.buf.take k) else (s, ["bad-op"])
    | none => (s, ["bad-op"])
  | [] => (s, [])
  | _ => (s, ["bad-op"])

def main (_ : List String) : IO UInt32 := runLines init stepLine

end Librfn.Driver.Wav

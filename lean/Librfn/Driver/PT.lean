import Librfn.Driver.Util
import Librfn.Model.PT
/-! Line-protocol driver for the C08 model.
`run <maxinv> <fuel> <body in prefix notation>` prints one line per invocation of the main loop
(`e<id>` effects then `r<code>`), then `seq <events>`: the body as one sequential program cut after
`maxinv` return codes. -/
namespace Librfn.Driver.PT
open Librfn.Driver Librfn.Model.PT

def pCond : Nat → List String → Option (Cond × List String)
  | 0, _ => none
  | f + 1, ws =>
    match ws with
    | "lt" :: v :: k :: r => if natOk v && natOk k then some (.lt (nat! v) (nat! k), r) else none
    | "odd" :: v :: r => if natOk v then some (.odd (nat! v), r) else none
    | "tickge" :: k :: r => if natOk k then some (.tickGe (nat! k), r) else none
    | "incmod" :: v :: m :: r => if natOk v && natOk m then some (.incMod (nat! v) (nat! m), r) else none
    | "postincge" :: v :: k :: r => if natOk v && natOk k then some (.postIncGe (nat! v) (nat! k), r) else none
    | "not" :: r => (pCond f r).map fun (c, r) => (.not c, r)
    | _ => none

def pStmt : Nat → List String → Option (Stmt × List String)
  | 0, _ => none
  | f + 1, ws =>
    let lab (l : String) (r : List String) (k : Nat → Stmt → Stmt) : Option (Stmt × List String) :=
      if natOk l then (pStmt f r).map fun (s, r) => (k (nat! l) s, r) else none
    let two (r : List String) (k : Stmt → Stmt → Stmt) : Option (Stmt × List String) :=
      match pStmt f r with
      | some (a, r) => (pStmt f r).map fun (b, r) => (k a b, r)
      | none => none
    match ws with
    | "skip" :: r => some (.skip, r)
    | "exit" :: r => some (.exit, r)
    | "fail" :: r => some (.fail, r)
    | "eff" :: e :: r => if natOk e then some (.eff (nat! e), r) else none
    | "yield" :: l :: r => if natOk l then some (.yield (nat! l), r) else none
    | "wait" :: l :: r => if natOk l then some (.wait (nat! l), r) else none
    | "wu" :: l :: r => if natOk l then (pCond (f + 1) r).map fun (c, r) => (.waitUntil (nat! l) c, r) else none
    | "exiton" :: r => (pCond (f + 1) r).map fun (c, r) => (.exitOn c, r)
    | "failon" :: r => (pCond (f + 1) r).map fun (c, r) => (.failOn c, r)
    | "seq" :: r => two r .seq
    | "childok" :: r => two r .ifChildOk
    | "if" :: r => match pCond (f + 1) r with
        | some (c, r) => two r (.ifte c)
        | none => none
    | "while" :: r => match pCond (f + 1) r with
        | some (c, r) => (pStmt f r).map fun (b, r) => (.while c b, r)
        | none => none
    | "spawn" :: l :: r => lab l r .spawn
    | "spawnck" :: l :: r => lab l r .spawnAndCheck
    | "call" :: l :: r => lab l r .call
    | _ => none

def showEv : Ev → String
  | .eff e => s!"e{e}"
  | .ret c => s!"r{c.toNat}"
  | .abort => "abort"

def showEvs (l : List Ev) : String := " ".intercalate (l.map showEv)

def stepLine (s : Unit) (w : List String) : Unit × List String :=
  match w with
  | ["--"] => (s, ["--"])
  | ["reset"] => (s, ["ok"])
  | [] => (s, [])
  | "run" :: k :: fuel :: body =>
    if natOk k && natOk fuel then
      match pStmt (body.length + 1) body with
      | some (b, []) =>
        let k := nat! k
        let inv := match mainLoop (nat! fuel) b k St.init with
          | some logs => logs.map fun (evs, pt) => showEvs evs ++ s!" @{pt}"
          | none => ["fuel"]
        let sq := match k with
          | 0 => "seq"
          | k + 1 => match seqRun (nat! fuel) b k St.init with
            | some evs => "seq " ++ showEvs evs
            | none => "seq fuel"
        (s, inv ++ [sq])
      | _ => (s, ["bad-op"])
    else (s, ["bad-op"])
  | _ => (s, ["bad-op"])

def main (_ : List String) : IO UInt32 := runLines () stepLine

end Librfn.Driver.PT

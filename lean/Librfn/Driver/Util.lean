/-! Line-protocol helpers shared by the per-property drivers (no Mathlib, no Std tactics: the
driver must link as a plain executable). -/
namespace Librfn.Driver

def words (line : String) : List String :=
  (line.trimAscii.toString.splitOn " ").filter (· ≠ "")

/-- read stdin line by line, threading a state; `step` returns the new state and the output lines -/
partial def loop {σ : Type} (h : IO.FS.Stream) (s : σ) (step : σ → List String → σ × List String) : IO Unit := do
  let line ← h.getLine
  if line.isEmpty then return ()
  let (s', outs) := step s (words line)
  for o in outs do IO.println o
  loop h s' step

def runLines {σ : Type} (init : σ) (step : σ → List String → σ × List String) : IO UInt32 := do
  let out ← IO.getStdout
  loop (← IO.getStdin) init step
  out.flush
  return 0

def nat! (s : String) : Nat := s.toNat?.getD 0   -- inputs are produced by our own generator; malformed ⇒ 0 is never relied on (drivers echo "bad-op")

def natOk (s : String) : Bool := s.toNat?.isSome

def int? (s : String) : Option Int := s.toInt?

end Librfn.Driver

import Librfn.Driver.Util
import Librfn.Model.Pack
/-! Line-protocol driver for the pack model: same ops and same canonical outputs as `harness/h_pack.c`.

ops:  buf <n> <hex|->      allocate the buffer (n bytes with the given contents) and rf_pack_init it
      init                 rf_pack_init again on the same buffer (rewind)
      pb <hex|->           rf_pack_bytes(src = these bytes)        pn <n>   rf_pack_bytes(NULL, n)
      s16le v | u16be v | u16le v | s32le v | u32le v              (v unsigned decimal)
      ub <n>  rf_unpack_bytes(dst, n)        us <n>  rf_unpack_bytes(NULL, n)
      uc | us8 | uu8 | uu16 | uu32
every op answers one line `<result> c=<consumed> r=<remaining> buf=<hex image of the buffer>`. -/
namespace Librfn.Driver.Pack
open Librfn.Driver Librfn.Model.Pack

def hexDigit (n : Nat) : Char := if n < 10 then Char.ofNat (48 + n) else Char.ofNat (87 + n)
def hexByte (b : UInt8) : String := String.ofList [hexDigit (b.toNat / 16), hexDigit (b.toNat % 16)]
def hexOf (bs : List UInt8) : String := if bs.isEmpty then "-" else String.join (bs.map hexByte)

def hexVal (c : Char) : Option Nat :=
  if '0' ≤ c ∧ c ≤ '9' then some (c.toNat - 48)
  else if 'a' ≤ c ∧ c ≤ 'f' then some (c.toNat - 87)
  else none

def parseHexChars : List Char → Option (List UInt8)
  | [] => some []
  | [_] => none
  | a :: b :: rest => do
    let x ← hexVal a
    let y ← hexVal b
    let r ← parseHexChars rest
    pure (UInt8.ofNat (16 * x + y) :: r)

def parseHex (s : String) : Option (List UInt8) := if s = "-" then some [] else parseHexChars s.toList

structure St where
  mem : Mem
  pk : Pk
  ok : Bool      -- a buffer has been set up

def base : Nat := 4096
def init : St := ⟨fun _ => 0, Librfn.Model.Pack.init base 0, false⟩

def image (s : St) : String := hexOf (readBytes s.mem s.pk.base s.pk.size)
def tail (s : St) : String := s!" c={consumed s.pk} r={remaining s.pk} buf={image s}"

def showOut : Out → String
  | .unit => "-"
  | .bytes l => "[" ++ hexOf l ++ "]"
  | .val v => s!"{v}"

def doOp (s : St) (op : Op) : St × List String :=
  if !s.ok then (s, ["bad-op"]) else
  let r := step s.mem s.pk op
  let s' := { s with mem := r.1, pk := r.2.1 }
  (s', [showOut r.2.2 ++ tail s'])

def stepLine (s : St) (w : List String) : St × List String :=
  match w with
  | ["--"] => (s, ["--"])
  | ["reset"] => (init, ["ok"])
  | ["buf", n, h] =>
    match n.toNat?, parseHex h with
    | some n, some bs =>
      if bs.length = n then
        let s' : St := ⟨memOfList base bs, Librfn.Model.Pack.init base n, true⟩
        (s', ["-" ++ tail s'])
      else (s, ["bad-op"])
    | _, _ => (s, ["bad-op"])
  | ["init"] => if s.ok then let s' := { s with pk := Librfn.Model.Pack.init s.pk.base s.pk.size }; (s', ["-" ++ tail s']) else (s, ["bad-op"])
  | ["pb", h] => match parseHex h with | some bs => doOp s (.packBytes bs) | none => (s, ["bad-op"])
  | ["pn", n] => match n.toNat? with | some n => doOp s (.packNull n) | none => (s, ["bad-op"])
  | ["s16le", v] => match v.toNat? with | some v => doOp s (.packS16le (BitVec.ofNat 16 v)) | none => (s, ["bad-op"])
  | ["u16be", v] => match v.toNat? with | some v => doOp s (.packU16be (BitVec.ofNat 16 v)) | none => (s, ["bad-op"])
  | ["u16le", v] => match v.toNat? with | some v => doOp s (.packU16le (BitVec.ofNat 16 v)) | none => (s, ["bad-op"])
  | ["s32le", v] => match v.toNat? with | some v => doOp s (.packS32le (BitVec.ofNat 32 v)) | none => (s, ["bad-op"])
  | ["u32le", v] => match v.toNat? with | some v => doOp s (.packU32le (BitVec.ofNat 32 v)) | none => (s, ["bad-op"])
  | ["ub", n] => match n.toNat? with | some n => doOp s (.unpackBytes n) | none => (s, ["bad-op"])
  | ["us", n] => match n.toNat? with | some n => doOp s (.unpackSkip n) | none => (s, ["bad-op"])
  | ["uc"] => doOp s .unpackChar
  | ["us8"] => doOp s .unpackS8
  | ["uu8"] => doOp s .unpackU8
  | ["uu16"] => doOp s .unpackU16le
  | ["uu32"] => doOp s .unpackU32le
  | [] => (s, [])
  | _ => (s, ["bad-op"])

def main (_ : List String) : IO UInt32 := runLines init stepLine

end Librfn.Driver.Pack

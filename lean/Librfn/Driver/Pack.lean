import Librfn.Driver.Util
import Librfn.Model.Pack
/-! Line-protocol driver for the pack model: same ops and same canonical outputs as `harness/h_pack.c`.

ops:  buf <n> <hex|->      allocate the buffer (n bytes with the given contents) and rf_pack_init it
      bufp <n> <seed>      the same with the pattern `patByte seed i` (for buffers too large to spell out)
      init                 rf_pack_init again on the same buffer (rewind)
      pb <hex|->           rf_pack_bytes(src = these bytes)        pn <n>   rf_pack_bytes(NULL, n)
      s16le v | u16be v | u16le v | s32le v | u32le v              (v unsigned decimal)
      ub <n>  rf_unpack_bytes(dst, n)        us <n>  rf_unpack_bytes(NULL, n)
      uc | us8 | uu8 | uu16 | uu32
every op answers one line `<result> c=<consumed> r=<remaining> buf=<hex image of the buffer>`
(`buf=#<crc32>` when the buffer has more than 64 bytes). -/
namespace Librfn.Driver.Pack
open Librfn.Driver Librfn.Model.Pack

def hexDigit (n : Nat) : Char := if n < 10 then Char.ofNat (48 + n) else Char.ofNat (87 + n)
def hexByte (b : UInt8) : String := String.ofList [hexDigit (b.toNat / 16), hexDigit (b.toNat % 16)]
def hexOf (bs : List UInt8) : String := if bs.isEmpty then "-" else String.join (bs.map hexByte)

def hexVal (c : Char) : Option Nat :=
  if '0' ≤ c ∧ c ≤ '9' then some (c.toNat - 48)
  else if 'a' ≤ c ∧ c ≤ 'f' then some (c.toNat - 87)
  else none

def parseHexChars : List Char → Option (List UInt8)
  | [] => some []
  | [_] => none
  | a :: b :: rest => do
    let x ← hexVal a
    let y ← hexVal b
    let r ← parseHexChars rest
    pure (UInt8.ofNat (16 * x + y) :: r)

def parseHex (s : String) : Option (List UInt8) := if s = "-" then some [] else parseHexChars s.toList

/-- The driver keeps the buffer image in an array and hands the model a memory *function* that reads it; after every
    call the image is refreshed from the memory the model's `step` returned.  For buffers up to `smallLimit` bytes
    every cell is re-read.  For larger buffers (histories that cross 2^16 requested bytes, 64 KiB buffers) only the
    cells under the item (`[cur, cur+size)`, when it is a packer that fits) are re-read — the model leaves the others
    alone by `C12.step_mem_eq` / `writeBytes_outside` — and four sentinel cells around that range are re-read and
    compared, so a model that broke this frame property would be reported (`!! model-frame`). -/
structure St where
  arr : Array UInt8
  pk : Pk
  ok : Bool      -- a buffer has been set up

def base : Nat := 4096
def smallLimit : Nat := 4096
def init : St := ⟨#[], Librfn.Model.Pack.init base 0, false⟩

def memOf (a : Array UInt8) : Mem := fun i => if base ≤ i then a.getD (i - base) 0 else 0

/-- CRC-32 (IEEE 802.3, as zlib) of the image: what is printed for buffers of more than 64 bytes -/
def crcByte (c : UInt32) (b : UInt8) : UInt32 := Id.run do
  let mut x := c ^^^ b.toUInt32
  for _ in [0:8] do
    x := if x &&& 1 = 1 then (x >>> 1) ^^^ 0xEDB88320 else x >>> 1
  return x
def crc32 (a : Array UInt8) : UInt32 := (a.foldl crcByte 0xFFFFFFFF) ^^^ 0xFFFFFFFF

def hex8 (v : UInt32) : String :=
  String.ofList ((List.range 8).map fun k => hexDigit ((v.toNat / 16 ^ (7 - k)) % 16))

def image (s : St) : String := if s.arr.size ≤ 64 then hexOf s.arr.toList else "#" ++ hex8 (crc32 s.arr)
def tail (s : St) : String := s!" c={consumed s.pk} r={remaining s.pk} buf={image s}"

def showOut : Out → String
  | .unit => "-"
  | .bytes l => "[" ++ hexOf l ++ "]"
  | .val v => s!"{v}"

def isPacker : Op → Bool
  | .packBytes _ | .packNull _ | .packS16le _ | .packU16be _ | .packU16le _ | .packS32le _ | .packU32le _ => true
  | _ => false

/-- the pattern `bufp n seed` fills a buffer with (position dependent, not periodic in 2^16) -/
def patByte (seed i : Nat) : UInt8 := UInt8.ofNat ((i * 131 + (i / 256) * 17 + (i / 65536) * 29 + seed) % 256)

def refresh (s : St) (m' : Mem) (op : Op) : Array UInt8 × Bool :=
  let n := s.arr.size
  if n ≤ smallLimit then ((Array.range n).map fun k => m' (base + k), true)
  else
    let lo := s.pk.cur
    let hi := s.pk.cur + op.size
    let a := if isPacker op && hi ≤ n then
        (List.range op.size).foldl (fun (a : Array UInt8) k => a.set! (lo + k) (m' (base + lo + k))) s.arr
      else s.arr
    let sent := [0, lo - 1, hi, n - 1, n / 2].filter fun k => k < n ∧ ¬ (isPacker op ∧ hi ≤ n ∧ lo ≤ k ∧ k < hi)
    (a, sent.all fun k => m' (base + k) == s.arr.getD k 0)

def doOp (s : St) (op : Op) : St × List String :=
  if !s.ok then (s, ["bad-op"]) else
  let r := step (memOf s.arr) s.pk op
  let (a, okf) := refresh s r.1 op
  let s' := { s with arr := a, pk := r.2.1 }
  (s', (if okf then [] else ["!! model-frame"]) ++ [showOut r.2.2 ++ tail s'])

def newBuf (a : Array UInt8) : St × List String :=
  let s' : St := ⟨a, Librfn.Model.Pack.init base a.size, true⟩
  (s', ["-" ++ tail s'])

def stepLine (s : St) (w : List String) : St × List String :=
  match w with
  | ["--"] => (s, ["--"])
  | ["reset"] => (init, ["ok"])
  | ["buf", n, h] =>
    match n.toNat?, parseHex h with
    | some n, some bs =>
      if bs.length = n then newBuf bs.toArray else (s, ["bad-op"])
    | _, _ => (s, ["bad-op"])
  | ["bufp", n, sd] =>
    match n.toNat?, sd.toNat? with
    | some n, some sd => newBuf ((Array.range n).map (patByte sd))
    | _, _ => (s, ["bad-op"])
  | ["init"] => if s.ok then let s' := { s with pk := Librfn.Model.Pack.init s.pk.base s.pk.size }; (s', ["-" ++ tail s']) else (s, ["bad-op"])
  | ["pb", h] => match parseHex h with | some bs => doOp s (.packBytes bs) | none => (s, ["bad-op"])
  | ["pn", n] => match n.toNat? with | some n => doOp s (.packNull n) | none => (s, ["bad-op"])
  | ["s16le", v] => match v.toNat? with | some v => doOp s (.packS16le (BitVec.ofNat 16 v)) | none => (s, ["bad-op"])
  | ["u16be", v] => match v.toNat? with | some v => doOp s (.packU16be (BitVec.ofNat 16 v)) | none => (s, ["bad-op"])
  | ["u16le", v] => match v.toNat? with | some v => doOp s (.packU16le (BitVec.ofNat 16 v)) | none => (s, ["bad-op"])
  | ["s32le", v] => match v.toNat? with | some v => doOp s (.packS32le (BitVec.ofNat 32 v)) | none => (s, ["bad-op"])
  | ["u32le", v] => match v.toNat? with | some v => doOp s (.packU32le (BitVec.ofNat 32 v)) | none => (s, ["bad-op"])
  | ["ub", n] => match n.toNat? with | some n => doOp s (.unpackBytes n) | none => (s, ["bad-op"])
  | ["us", n] => match n.toNat? with | some n => doOp s (.unpackSkip n) | none => (s, ["bad-op"])
  | ["uc"] => doOp s .unpackChar
  | ["us8"] => doOp s .unpackS8
  | ["uu8"] => doOp s .unpackU8
  | ["uu16"] => doOp s .unpackU16le
  | ["uu32"] => doOp s .unpackU32le
  | [] => (s, [])
  | _ => (s, ["bad-op"])

def main (_ : List String) : IO UInt32 := runLines init stepLine

end Librfn.Driver.Pack

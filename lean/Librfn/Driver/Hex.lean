import Librfn.Driver.Util
import Librfn.Model.Hex
/-! Line-protocol driver for the C18 model: same ops and same canonical outputs as `harness/h_hex.c`.

ops (byte strings are written as lower-case hex pairs, `-` = empty):
  `tables`        four lines: isspace / isxdigit (256 × 0|1), nibble and hexchar (256 comma separated values)
  `dump <bytes>`  `dump ret=<n> <text>` and the parse line of that text
  `parse <text>`  `parse v@off … -1 -1 -1`: calls until -1 (at most len+2), then two more; `off` = `*p - text`
  `reparse <text>` the same in the calling style of tests/hextest.c (`hex_get_byte(p, &p)`)
  `bdump`, `bparse`, `breparse`: the harness places the data in its persistent block instead of a fresh one; the model
  has no state and no addresses, so these are the same as the plain ops -/
namespace Librfn.Driver.Hex
open Librfn.Driver Librfn.Model.Hex

def hexVal (c : Char) : Option Nat :=
  if '0' ≤ c ∧ c ≤ '9' then some (c.toNat - 48)
  else if 'a' ≤ c ∧ c ≤ 'f' then some (c.toNat - 87)
  else none

def decodeGo : List Char → List UInt8 → Option (List UInt8)
  | [], acc => some acc.reverse
  | [_], _ => none
  | a :: b :: r, acc =>
    match hexVal a, hexVal b with
    | some x, some y => decodeGo r (UInt8.ofNat (16 * x + y) :: acc)
    | _, _ => none

def decode (w : String) : Option (List UInt8) := if w = "-" then some [] else decodeGo w.toList []

def hexDigit (n : Nat) : Char := Char.ofNat (if n < 10 then 48 + n else 87 + n)

def encode (bs : List UInt8) : String :=
  if bs.isEmpty then "-" else String.ofList (bs.flatMap fun b => [hexDigit (b.toNat / 16), hexDigit (b.toNat % 16)])

def showOut (len : Nat) : Out → String
  | .byte v p => s!"{v}@{len - p.length}"
  | .done => "-1"
  | .oob => "!!oob"
  | .nofuel => "!!nofuel"

/-- calls until the first non-byte outcome (at most `budget`), then two more -/
def callsGo (again : Bool) (len : Nat) : Nat → Out → List String → List String
  | 0, _, acc => ("!!no-end" :: acc).reverse
  | n + 1, o, acc =>
    match o with
    | .byte _ _ => callsGo again len n (nextCall again o) (showOut len o :: acc)
    | _ =>
      let o2 := nextCall again o
      let o3 := nextCall again o2
      (showOut len o3 :: showOut len o2 :: showOut len o :: acc).reverse

def parseLine (again : Bool) (text : Str) : String :=
  " ".intercalate ("parse" :: callsGo again text.length (text.length + 2) (getByte (some text) none) [])

def allBytes : List UInt8 := (List.range 256).map UInt8.ofNat

def bits (f : UInt8 → Bool) : String := String.ofList (allBytes.map fun c => if f c then '1' else '0')

def stepLine (s : Unit) (w : List String) : Unit × List String :=
  let w := match w with
    | ["bdump", b] => ["dump", b]
    | ["bparse", t] => ["parse", t]
    | ["breparse", t] => ["reparse", t]
    | w => w
  match w with
  | ["--"] => (s, ["--"])
  | ["reset"] => (s, ["ok"])
  | ["tables"] =>
    (s, ["isspace " ++ bits isSpace, "isxdigit " ++ bits isXDigit,
         "nibble " ++ ",".intercalate (allBytes.map fun c => toString (nibble c)),
         "hexchar " ++ ",".intercalate (allBytes.map fun c => toString (hexchar c).toNat)])
  | ["dump", b] =>
    match decode b with
    | none => (s, ["bad-op"])
    | some bs =>
      match dump bs with
      | none => (s, ["dump !!nofuel"])
      | some text => (s, [s!"dump ret={bs.length} {encode text}", parseLine false text])
  | ["parse", t] =>
    match decode t with
    | none => (s, ["bad-op"])
    | some text => (s, [parseLine false text])
  | ["reparse", t] =>
    match decode t with
    | none => (s, ["bad-op"])
    | some text => (s, [parseLine true text])
  | [] => (s, [])
  | _ => (s, ["bad-op"])

def main (_ : List String) : IO UInt32 := runLines () stepLine

end Librfn.Driver.Hex

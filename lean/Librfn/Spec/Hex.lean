/-! Specification side of C18, written from the property text (not from hex.c):
the dump format ("16 two-digit lower-case pairs per line") and the syntax the parser must accept
("hex pairs may carry a 0x prefix, either letter case, arbitrary white space and an 'address:' prefix
on each line"). -/
namespace Librfn.Spec.Hex

abbrev Str := List UInt8

/-! ### the dump format -/

/-- the lower-case hex digit of `n < 16`: `"0123456789abcdef"[n]` -/
def hexDigit (n : Nat) : UInt8 := UInt8.ofNat (if n < 10 then 48 + n else 87 + n)

/-- one byte as two digits, high nibble first -/
def pairOf (b : UInt8) : Str := [hexDigit (b.toNat / 16), hexDigit (b.toNat % 16)]

/-- one line of the dump: the pairs of its bytes, then a newline -/
def row (chunk : List UInt8) : Str := chunk.flatMap pairOf ++ [10]

/-- row `k` holds bytes `16k … 16k+15` (fewer in the last row); there are `⌈n/16⌉` rows -/
def chunks (bs : List UInt8) : List (List UInt8) :=
  (List.range ((bs.length + 15) / 16)).map fun k => (bs.drop (16 * k)).take 16

def format (bs : List UInt8) : Str := (chunks bs).flatMap row

/-! ### the accepted syntax -/

def isHex (c : UInt8) : Bool := (48 ≤ c && c ≤ 57) || (97 ≤ c && c ≤ 102) || (65 ≤ c && c ≤ 70)

/-- value of a hex digit of either case -/
def hexVal (c : UInt8) : Nat :=
  if 48 ≤ c ∧ c ≤ 57 then c.toNat - 48 else if 97 ≤ c ∧ c ≤ 102 then c.toNat - 87 else c.toNat - 55

/-- white space other than the newline: space, \t, \v, \f, \r -/
def isBlank (c : UInt8) : Bool := c = 32 || c = 9 || c = 11 || c = 12 || c = 13

/-- a pair: arbitrary blanks, an optional `0x`, two hex digits -/
structure Item where
  blanks : Str
  pfx : Bool
  hi : UInt8
  lo : UInt8

/-- a line: an optional `address:` prefix, pairs, trailing blanks (the newline is added by `render`) -/
structure Line where
  addr : Option Str
  items : List Item
  trail : Str

def Item.WF (it : Item) : Prop := (∀ c ∈ it.blanks, isBlank c = true) ∧ isHex it.hi = true ∧ isHex it.lo = true

/-- the address is any text without a colon (and, being part of a C string, without NUL) -/
def Line.WF (l : Line) : Prop :=
  (∀ a, l.addr = some a → ∀ c ∈ a, c ≠ 58 ∧ c ≠ 0) ∧ (∀ it ∈ l.items, it.WF) ∧ (∀ c ∈ l.trail, isBlank c = true)

def Item.render (it : Item) : Str := it.blanks ++ (if it.pfx then [48, 120] else []) ++ [it.hi, it.lo]

def Item.value (it : Item) : Int := ((16 * hexVal it.hi + hexVal it.lo : Nat) : Int)

def itemsText (its : List Item) : Str := its.flatMap Item.render

def Line.header (l : Line) : Str :=
  match l.addr with
  | some a => a ++ [58]
  | none => []

def Line.render (l : Line) : Str := l.header ++ itemsText l.items ++ l.trail

/-- newline-terminated lines `ls` followed by a last line without newline (which may be empty, i.e. the
    text ends with a newline — or is empty) -/
def render : List Line → Line → Str
  | [], last => last.render
  | l :: ls, last => l.render ++ 10 :: render ls last

/-- the bytes the text denotes -/
def values (ls : List Line) (last : Line) : List Int :=
  (ls ++ [last]).flatMap fun l => l.items.map Item.value

/-- "an address prefix on each line": once a line has no address no later line has one (the colon search
    of the parser runs over the rest of the text, not over the line).  Covers "on every line" and "nowhere". -/
def AddrOk : List Line → Prop
  | [] => True
  | l :: ls => (l.addr = none → ∀ l' ∈ ls, l'.addr = none) ∧ AddrOk ls

end Librfn.Spec.Hex

import Librfn.Model.Bintree
/-! Specification side of C11, written from the property text: binary trees as an inductive type with
node ids, the recursive traversals, and what it means for a heap to hold a tree. -/
namespace Librfn.Spec
open Librfn.Model.Bintree (Ptr Node Heap)

inductive Tree where
  | nil
  | node (l : Tree) (x : Nat) (r : Tree)
  deriving DecidableEq, Inhabited

namespace Tree

def size : Tree → Nat
  | nil => 0
  | node l _ r => size l + 1 + size r

def root : Tree → Ptr
  | nil => none
  | node _ x _ => some x

/-- pointer to `t` when the place after its rightmost node holds `k` (the Morris continuation) -/
def rootK : Tree → Ptr → Ptr
  | nil, k => k
  | node _ x _, _ => some x

/-- the recursive traversals (`bintree_traverse_in_order` etc. restricted to non-NULL visits) -/
def inorder : Tree → List Nat
  | nil => []
  | node l x r => inorder l ++ x :: inorder r

def preorder : Tree → List Nat
  | nil => []
  | node l x r => x :: (preorder l ++ preorder r)

def postorder : Tree → List Nat
  | nil => []
  | node l x r => postorder l ++ postorder r ++ [x]

/-- post-order traversal reporting each node with its parent (`prev` = parent of the root) -/
def postorderP : Ptr → Tree → List (Nat × Ptr)
  | _, nil => []
  | prev, node l x r => postorderP (some x) l ++ postorderP (some x) r ++ [(x, prev)]

/-- `bintree_traverse_list`: list nodes are traversed, every other node is an element -/
def traverseList (isList : Nat → Bool) : Tree → List Nat
  | nil => []
  | node l x r => if isList x then traverseList isList l ++ traverseList isList r else [x]

/-- the node ids are pairwise distinct -/
def Distinct (t : Tree) : Prop := (inorder t).Nodup

/-- rightmost node of a non-empty tree (`0` for `nil`, never used) -/
def rightmost : Tree → Nat
  | nil => 0
  | node _ x nil => x
  | node _ _ (node l y r) => rightmost (node l y r)

/-- `h` holds the links of `t`, the `right` field of `t`'s rightmost node holds `k`, and the tag bit of
    node `x` is `τ x` -/
def ReprK (τ : Nat → Bool) (h : Heap) : Tree → Ptr → Prop
  | nil, _ => True
  | node l x r, k => h x = some ⟨root l, τ x, rootK r k⟩ ∧ ReprK τ h l none ∧ ReprK τ h r k

/-- `Repr h t p`: pointer `p` points at an intact, untagged copy of `t` in heap `h` -/
def Repr (h : Heap) (t : Tree) (p : Ptr) : Prop := p = root t ∧ ReprK (fun _ => false) h t none

/-- an element of a list spine: any node that is not a list node -/
def IsElem (isList : Nat → Bool) : Tree → Prop
  | nil => False
  | node _ x _ => isList x = false

/-- right-leaning list spine: every list node has an element on the left and the spine (or the last
    element) on the right -/
def RightSpine (isList : Nat → Bool) : Tree → Prop
  | nil => False
  | node l x r => if isList x then IsElem isList l ∧ RightSpine isList r else True

/-- left-leaning list spine: every list node has an element on the right and the spine (or the first
    element) on the left -/
def LeftSpine (isList : Nat → Bool) : Tree → Prop
  | nil => False
  | node l x r => if isList x then IsElem isList r ∧ LeftSpine isList l else True

end Tree
end Librfn.Spec

import Librfn.Model.Mlog
/-! Specification of the memory log, written from the property text: the state is simply the list of
messages recorded since the last clear. -/
namespace Librfn.Spec.Mlog
open Librfn.Model.Mlog (Op Out)
variable {M : Type}

/-- the retained window: the last `min n 256` messages, oldest first -/
def window (msgs : List M) : List M := msgs.drop (msgs.length - min msgs.length 256)

def step (msgs : List M) : Op M → List M × Out M
  | .log m => (msgs ++ [m], .unit)
  | .nice m => (if msgs.length < 256 then msgs ++ [m] else msgs, .unit)
  | .clear => ([], .unit)
  | .get k => (msgs, .line (if 0 ≤ k then (window msgs)[k.toNat]? else none))
  | .dump => (msgs, .lines (window msgs))

def run (msgs : List M) : List (Op M) → List M × List (Out M)
  | [] => (msgs, [])
  | op :: ops => let r := step msgs op; let rs := run r.1 ops; (rs.1, r.2 :: rs.2)

end Librfn.Spec.Mlog

import Librfn.Model.ListHeap
/-! Specification of the intrusive list, written from the property text (C09): every list is a plain
sequence of nodes.  An iterator is abstractly **the predecessor it hangs off** — the list's head
anchor (`none`) or a member node — its position being the one just after that predecessor.  It
stays valid across other mutations exactly as long as that predecessor is still a member of the
list; an iterator whose predecessor has left the list is forgotten (`revalidate`).

(An index-based iterator spec does not describe the real code: after a `push` an iterator keeps
pointing at the same link, i.e. its index moves.) -/
namespace Librfn.Spec.ListSeq
open Librfn.Model.ListHeap (Node Lid Op Out Err)

structure AIter where
  list : Lid
  pred : Option Node
  deriving DecidableEq, Repr

structure SState where
  lists : Lid → List Node
  iters : Nat → Option AIter

/-- the part of `xs` up to and including the predecessor -/
def upto (xs : List Node) : Option Node → List Node
  | none => []
  | some p => xs.takeWhile (· != p) ++ [p]

/-- the part of `xs` after the predecessor; its first element is the iterator's current node -/
def after (xs : List Node) : Option Node → List Node
  | none => xs
  | some p => (xs.dropWhile (· != p)).drop 1

/-- sorted insertion: after every node `x` with `nodecmp(n, x) >= 0` at the front, i.e. (in a sorted
    list) after all smaller **and all equal** nodes -/
def insertSorted (cmp : Node → Node → Int) (n : Node) (xs : List Node) : List Node :=
  xs.takeWhile (fun x => cmp n x ≥ 0) ++ n :: xs.dropWhile (fun x => cmp n x ≥ 0)

/-- `nodecmp` is a total preorder (`nodecmp(b, a) >= 0` reads `a ≤ b`) -/
structure TotalPreorder (cmp : Node → Node → Int) : Prop where
  total : ∀ a b, cmp a b ≥ 0 ∨ cmp b a ≥ 0
  trans : ∀ a b c, cmp b a ≥ 0 → cmp c b ≥ 0 → cmp c a ≥ 0

/-- ascending: every node is `≤` every later one -/
def Sorted (cmp : Node → Node → Int) (xs : List Node) : Prop := xs.Pairwise (fun a b => cmp b a ≥ 0)

def setList (s : SState) (l : Lid) (xs : List Node) : SState :=
  { s with lists := fun i => if i = l then xs else s.lists i }
def setIter (s : SState) (k : Nat) (ai : AIter) : SState :=
  { s with iters := fun i => if i = k then some ai else s.iters i }

def validIter (lists : Lid → List Node) (ai : AIter) : Bool :=
  match ai.pred with
  | none => true
  | some p => (lists ai.list).contains p

/-- forget every iterator whose predecessor is no longer a member of its list -/
def revalidate (s : SState) : SState :=
  { s with iters := fun k => (s.iters k).filter (validIter s.lists) }

/-- one call on the abstract state.  Outside the scope (`Pre`) the result is arbitrary. -/
def step (s : SState) : Op → SState × Out
  | .insert l n => (revalidate (setList s l (s.lists l ++ [n])), .unit)
  | .push l n => (revalidate (setList s l (n :: s.lists l)), .unit)
  | .sorted l n cmp => (revalidate (setList s l (insertSorted cmp n (s.lists l))), .unit)
  | .extract l => match s.lists l with
    | [] => (s, .node none)
    | x :: r => (revalidate (setList s l r), .node (some x))
  | .peek l => (s, .node (s.lists l).head?)
  | .empty l => (s, .bool (s.lists l).isEmpty)
  | .iterate k l => (setIter s k ⟨l, none⟩, .node (s.lists l).head?)
  | .next k => match s.iters k with
    | none => (s, .err .wild)
    | some ai => match after (s.lists ai.list) ai.pred with
      | [] => (s, .node none)
      | c :: r => (setIter s k ⟨ai.list, some c⟩, .node r.head?)
  | .iinsert k n => match s.iters k with
    | none => (s, .err .wild)
    | some ai =>
      (revalidate (setList s ai.list (upto (s.lists ai.list) ai.pred ++ n :: after (s.lists ai.list) ai.pred)), .unit)
  | .iremove k => match s.iters k with
    | none => (s, .err .wild)
    | some ai => match after (s.lists ai.list) ai.pred with
      | [] => (s, .err .assertFail)
      | _ :: r => (revalidate (setList s ai.list (upto (s.lists ai.list) ai.pred ++ r)), .node r.head?)
  | .cur k => match s.iters k with
    | none => (s, .err .wild)
    | some ai => (s, .node (after (s.lists ai.list) ai.pred).head?)
  | .contains l n => (s, .bool ((s.lists l).contains n))
  | .find k l n =>
    (setIter s k ⟨l, ((s.lists l).takeWhile (· != n)).getLast?⟩, .bool ((s.lists l).contains n))
  | .remove l n => (revalidate (setList s l ((s.lists l).erase n)), .bool ((s.lists l).contains n))
  | .dump l => (s, .nodes (s.lists l))
  | .link _ => (s, .node none)

def run (s : SState) : List Op → SState × List Out
  | [] => (s, [])
  | op :: ops => let r := step s op; let rs := run r.1 ops; (rs.1, r.2 :: rs.2)

/-- member of no list -/
def Free (s : SState) (n : Node) : Prop := ∀ l, n ∉ s.lists l

/-- the scope of C09 for one call in abstract state `s`, over a pool of `N` node objects:
    **a node is never inserted while it is a member of a list**; iterators are used only while valid;
    `list_iterator_remove` needs a current node (the C asserts it); sorted insertion is into a list
    sorted by a total preorder; `node->next` is observed for nodes outside every list. -/
def Pre (N : Nat) (s : SState) : Op → Prop
  | .insert _ n => Free s n ∧ n < N
  | .push _ n => Free s n ∧ n < N
  | .sorted l n cmp => Free s n ∧ n < N ∧ TotalPreorder cmp ∧ Sorted cmp (s.lists l)
  | .next k => s.iters k ≠ none
  | .cur k => s.iters k ≠ none
  | .iinsert k n => s.iters k ≠ none ∧ Free s n ∧ n < N
  | .iremove k => ∃ ai, s.iters k = some ai ∧ after (s.lists ai.list) ai.pred ≠ []
  | .link n => Free s n
  | _ => True

def InScope (N : Nat) : SState → List Op → Prop
  | _, [] => True
  | s, op :: ops => Pre N s op ∧ InScope N (step s op).1 ops

def init : SState := ⟨fun _ => [], fun _ => none⟩

end Librfn.Spec.ListSeq

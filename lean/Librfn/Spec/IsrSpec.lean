import Librfn.Model.FibreTypes
/-!
# Abstract specification for C06 (and C03's interrupt clause): wake-up requests and fibre events

Written from the property text in `properties.jsonl`, **not** from `fibre.c` / `messageq.c`.  It knows nothing
of message queues, slots, flags, counters or program points: it is a *monitor* over the calls and returns an
observer of the system sees, in the order in which they happen (an interrupt handler runs to completion, so its
effects and its return are instants between two instants of the interrupted context):

* `owed` — "if `fibre_run_atomic(f)` returns true … then `f` is dispatched by a subsequent
  `fibre_scheduler_next` without any further stimulus (unless a later `fibre_kill` withdraws the request)":
  the fibres that have an accepted request which has not since been followed by a dispatch or a kill, each with the
  number of complete scheduling passes it has been waiting for.  "Without further stimulus" + FIFO dispatch (C01)
  means a bound: with `nf` fibres in the system at most `nf - 1` are ahead of it once the request has joined the
  run queue, which happens in the first pass that begins after the request — so a request outstanding at the
  beginning of `nf` consecutive passes that all ran to completion has been *starved*.  (Passes during which a
  sender on another thread was between its claim and its send are not counted: the queue is FIFO in claim order, so
  dispatch may be deferred while an earlier claimer has not yet sent — DESIGN §6 C06.)
* `evq` — "every event passed with `fibre_eventq_claim` and a `fibre_eventq_send` that returns true is
  received by the owning fibre exactly once, intact and in send order": the FIFO of events handed out by
  claim and not yet received, identified by the stamp the sender wrote into them.  (The order of a queue of
  claimed buffers is the order of the claims; it is the order of the sends whenever claim…send sections do
  not overlap, and C04 proves claim order for the ones that do.)
* `mustGet` — events whose send returned true and that the handler has not yet processed: they must all
  have been processed once the system is quiescent (unless the handler was killed meanwhile).
* `snap` — C03: "the value returned is `t` whenever any fibre is runnable on return — including the fibre that
  just yielded and any interrupt-context run request that completed before the scheduler's final check".  The
  final check lies after the return of the dispatched fibre, so requests outstanding when the pass began, when the
  dispatched fibre returned, or when the scheduler was last seen looking at the interrupt-context queue, completed
  before it.
-/
namespace Librfn.Spec.IsrSpec
open Librfn.Sched (Fid)

/-- what an observer sees -/
inductive Obs
  | accepted (f : Fid)            -- a `fibre_run_atomic(f)` that returns true takes effect
  | rejected (f : Fid)            -- `fibre_run_atomic(f)` returned false
  | dispatched (f : Fid)          -- the entry point of `f` is invoked by `fibre_scheduler_next`
  | killed (f : Fid)              -- `fibre_kill(f)` withdrew `f`'s run requests
  | evClaimed (stamp : Nat)       -- `fibre_eventq_claim` handed out a buffer; the sender stamps it
  | evSent (stamp : Nat) (ok : Bool)   -- `fibre_eventq_send` returned `ok`
  | evProcessed (stamp : Nat)     -- the handler fibre received an event and read `stamp` from it
  | passBegin                     -- `fibre_scheduler_next(t)` is entered
  | looked                        -- the scheduler looks at the interrupt-context queue
  | bodyReturned (yielded : Bool) -- the dispatched fibre returned (*yielded* or not)
  | passEnd (onTime : Bool)       -- `fibre_scheduler_next(t)` returns; `onTime` ⇔ the value returned is `t`
  | threadBegin                   -- a sender on another thread enters fibre_run_atomic / claim…send
  | threadEnd                     -- … and returns
  deriving DecidableEq, Repr

inductive Verdict
  | ok
  | eventOutOfOrder (got : Nat) (expected : Nat)   -- reordered, lost (skipped), duplicated or corrupted event
  | eventFromNowhere (got : Nat)                    -- received an event nobody claimed (duplicate / corrupted)
  | oversleeps                                      -- a pass returned a late wake-up although a request was outstanding
  | starved (f : Fid)                               -- `nf` complete passes began with the request outstanding
  deriving DecidableEq, Repr

structure A where
  /-- number of fibres in the system -/
  nf : Nat := 8
  /-- the fibre the event queue belongs to -/
  handler : Fid := 0
  /-- fibres owed a dispatch, with the number of complete undisturbed passes that began while they were owed -/
  owed : List (Fid × Nat) := []
  evq : List Nat := []
  mustGet : List Nat := []
  /-- events claimed since the handler was last killed (a kill while a send is in progress may withdraw its wake-up) -/
  fresh : List Nat := []
  got : List Nat := []
  /-- requests outstanding at the latest instant known to precede the scheduler's final check of the current pass -/
  snap : List Fid := []
  /-- fibres owed when the current pass began -/
  atBegin : List Fid := []
  yieldedNow : Bool := false
  threads : Nat := 0
  /-- a thread sender was in flight at some instant of the current pass -/
  disturbed : Bool := false
  verdict : Verdict := .ok
  deriving Repr

def init : A := {}

def A.flag (a : A) (v : Verdict) : A := if a.verdict = .ok then { a with verdict := v } else a

def A.owedFids (a : A) : List Fid := a.owed.map Prod.fst

/-- the request for `f` is satisfied (or withdrawn); a later request for `f` is a new one -/
def A.discharge (a : A) (f : Fid) : A :=
  { a with owed := a.owed.filter (fun x => x.1 ≠ f), atBegin := a.atBegin.filter (· ≠ f), snap := a.snap.filter (· ≠ f) }

/-- the outstanding requests that were already outstanding when the pass began have waited one more pass -/
def A.aged (a : A) : List (Fid × Nat) :=
  a.owed.map (fun (x : Fid × Nat) => if x.1 ∈ a.atBegin then (x.1, x.2 + 1) else x)

/-- one more complete undisturbed pass began (and ended) with the requests in `atBegin` outstanding -/
def A.ageOwed (a : A) : A :=
  if a.disturbed then a else
  match a.aged.find? (fun x => decide (x.2 ≥ a.nf)) with
  | some x => { a with owed := a.aged }.flag (.starved x.1)
  | none => { a with owed := a.aged }

def A.step (a : A) : Obs → A
  | .accepted f => if f ∈ a.owedFids then a else { a with owed := a.owed ++ [(f, 0)] }
  | .rejected _ => a
  | .dispatched f => a.discharge f
  | .killed f =>
    -- the handler's pending events are no longer promised until something wakes it again
    if f = a.handler then { a.discharge f with mustGet := [], fresh := [] } else a.discharge f
  | .evClaimed st => { a with evq := a.evq ++ [st], fresh := a.fresh ++ [st] }
  | .evSent st ok => if ok ∧ st ∉ a.got ∧ st ∈ a.fresh then { a with mustGet := a.mustGet ++ [st] } else a
  | .evProcessed st =>
    match a.evq with
    | [] => a.flag (.eventFromNowhere st)
    | x :: r =>
      if x = st then { a with evq := r, got := a.got ++ [st], mustGet := a.mustGet.filter (· ≠ st), fresh := a.fresh.filter (· ≠ st) }
      else a.flag (.eventOutOfOrder st x)
  | .passBegin => { a with snap := a.owedFids, atBegin := a.owedFids, yieldedNow := false, disturbed := decide (a.threads > 0) }
  | .looked => { a with snap := a.owedFids }
  | .bodyReturned y => { a with snap := a.owedFids, yieldedNow := y }
  | .passEnd onTime =>
    -- requests that completed before the final check and are still outstanding at return
    -- (while a sender on another thread sits between its claim and its send, later requests are hidden behind its
    --  unsent buffer: the property's interrupt clause speaks of handlers that run to completion)
    A.ageOwed
      (if (a.yieldedNow || (a.snap.any (fun f => decide (f ∈ a.owedFids)) && !a.disturbed)) && !onTime then a.flag .oversleeps else a)
  | .threadBegin => { a with threads := a.threads + 1, disturbed := true }
  | .threadEnd => { a with threads := a.threads - 1 }

def run (a : A) (l : List Obs) : A := l.foldl A.step a

/-- at quiescence (the scheduler ran passes until one was idle, no interrupt arrived meanwhile): nothing is
    owed — every accepted request was dispatched — and every event whose send returned true was processed -/
def A.settled (a : A) : Bool := a.owed.isEmpty && a.mustGet.isEmpty

end Librfn.Spec.IsrSpec

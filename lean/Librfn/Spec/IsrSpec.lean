import Librfn.Model.FibreTypes
/-!
# Abstract specification for C06 (and C03's interrupt clause): wake-up requests and fibre events

Written from the property text in `properties.jsonl`, **not** from `fibre.c` / `messageq.c`.  It knows nothing
of message queues, slots, flags, counters or program points: it is a *monitor* over the calls and returns an
observer of the system sees, in the order in which they happen (an interrupt handler runs to completion, so its
return is one instant between two instants of the interrupted context):

* `owed` — "if `fibre_run_atomic(f)` returns true … then `f` is dispatched by a subsequent
  `fibre_scheduler_next` without any further stimulus (unless a later `fibre_kill` withdraws the request)":
  the set of fibres that have an accepted request which has not since been followed by a dispatch or a kill.
* `evq` — "every event passed with `fibre_eventq_claim` and a `fibre_eventq_send` that returns true is
  received by the owning fibre exactly once, intact and in send order": the FIFO of events handed out by
  claim and not yet received, identified by the stamp the sender wrote into them.  (The order of a queue of
  claimed buffers is the order of the claims; it is the order of the sends whenever claim…send sections do
  not overlap, and C04 proves claim order for the ones that do.)
* `mustGet` — events whose send returned true and that the handler has not yet processed: they must all
  have been processed once the system is quiescent.
* `snap` / `yieldedNow` — C03: "the value returned is `t` whenever any fibre is runnable on return — including
  the fibre that just yielded and any interrupt-context run request that completed before the scheduler's
  final check".
-/
namespace Librfn.Spec.IsrSpec
open Librfn.Sched (Fid)

/-- what an observer sees -/
inductive Obs
  | accepted (f : Fid)            -- `fibre_run_atomic(f)` returned true
  | rejected (f : Fid)            -- … returned false
  | dispatched (f : Fid)          -- the entry point of `f` is invoked by `fibre_scheduler_next`
  | killed (f : Fid)              -- `fibre_kill(f)` withdrew `f`'s run requests
  | evClaimed (stamp : Nat)       -- `fibre_eventq_claim` handed out a buffer; the sender stamps it
  | evSent (stamp : Nat) (ok : Bool)   -- `fibre_eventq_send` returned `ok`
  | evProcessed (stamp : Nat)     -- the handler fibre received an event and read `stamp` from it
  | passBegin                     -- `fibre_scheduler_next(t)` is entered
  | finalCheck                    -- the scheduler looks at the interrupt-context queue (the last look of a pass is the final check)
  | bodyYielded                   -- the dispatched fibre returned *yielded*
  | passEnd (onTime : Bool)       -- `fibre_scheduler_next(t)` returns; `onTime` ⇔ the value returned is `t`
  deriving DecidableEq, Repr

inductive Verdict
  | ok
  | eventOutOfOrder (got : Nat) (expected : Nat)   -- reordered, lost (skipped), duplicated or corrupted event
  | eventFromNowhere (got : Nat)                    -- received an event nobody claimed (duplicate / corrupted)
  | oversleeps                                      -- a pass returned a late wake-up although a request was outstanding
  deriving DecidableEq, Repr

structure A where
  owed : List Fid := []
  evq : List Nat := []
  mustGet : List Nat := []
  got : List Nat := []
  /-- requests outstanding at the latest look at the interrupt-context queue in the current pass -/
  snap : Option (List Fid) := none
  yieldedNow : Bool := false
  verdict : Verdict := .ok
  deriving Repr

def init : A := {}

def A.flag (a : A) (v : Verdict) : A := if a.verdict = .ok then { a with verdict := v } else a

def A.step (a : A) : Obs → A
  | .accepted f => { a with owed := if f ∈ a.owed then a.owed else a.owed ++ [f] }
  | .rejected _ => a
  | .dispatched f => { a with owed := a.owed.filter (· ≠ f) }
  | .killed f => { a with owed := a.owed.filter (· ≠ f) }
  | .evClaimed st => { a with evq := a.evq ++ [st] }
  | .evSent st ok => if ok ∧ st ∉ a.got then { a with mustGet := a.mustGet ++ [st] } else a
  | .evProcessed st =>
    match a.evq with
    | [] => a.flag (.eventFromNowhere st)
    | x :: r =>
      if x = st then { a with evq := r, got := a.got ++ [st], mustGet := a.mustGet.filter (· ≠ st) }
      else a.flag (.eventOutOfOrder st x)
  | .passBegin => { a with snap := none, yieldedNow := false }
  | .finalCheck => { a with snap := some a.owed }
  | .bodyYielded => { a with yieldedNow := true }
  | .passEnd onTime =>
    -- requests that completed before the final check and are still outstanding at return
    let pending := match a.snap with
      | some l => l.any (fun f => decide (f ∈ a.owed))
      | none => false
    if (a.yieldedNow || pending) && !onTime then a.flag .oversleeps else a

def run (a : A) (l : List Obs) : A := l.foldl A.step a

/-- at quiescence (the scheduler ran passes until one was idle, no interrupt arrived meanwhile): nothing is
    owed — every accepted request was dispatched — and every event whose send returned true was processed -/
def A.settled (a : A) : Bool := a.owed.isEmpty && a.mustGet.isEmpty

end Librfn.Spec.IsrSpec

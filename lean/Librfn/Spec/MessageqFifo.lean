import Librfn.Model.Messageq
/-! Specification of the message queue written from the property text (C10): a bounded FIFO of tickets.

Tickets are numbered in grant order 0, 1, 2, ….  The *window* is the tickets `released … claimed-1`
(at most `qlen` of them); the first `received - released` are **held** by the receiver, every later one is
either **claimed** (its claimer may still write it) or **sent**.  The buffer of ticket `k` is the
`(k mod qlen)`-th block of `msgLen` bytes of the caller's memory.  Nothing here mentions counters that
wrap, flag words or cyclic indices. -/
namespace Librfn.Spec.MessageqFifo
open Librfn.Model.Messageq (Out)

inductive Status | claimed | sent | held
  deriving DecidableEq, Repr

structure Fifo where
  qlen : Nat
  msgLen : Nat
  claimed : Nat := 0        -- tickets granted so far
  received : Nat := 0       -- tickets handed to the receiver so far
  released : Nat := 0       -- tickets released so far
  sent : Nat → Bool := fun _ => false

/-- status of ticket `k`, `none` outside the window -/
def status (f : Fifo) (k : Nat) : Option Status :=
  if k < f.released ∨ f.claimed ≤ k then none
  else if k < f.received then some .held
  else if f.sent k then some .sent else some .claimed

/-- the window as a list, oldest first -/
def window (f : Fifo) : List Status :=
  (List.range (f.claimed - f.released)).filterMap fun j => status f (f.released + j)

/-- byte offset (from the start of the caller's memory) of the buffer of ticket `k` -/
def offsetOf (f : Fifo) (k : Nat) : Nat := (k % f.qlen) * f.msgLen

/-- operations; `send k` sends the message of ticket `k` (the caller passes the pointer `claim` returned for it) -/
inductive Op where
  | claim | send (k : Nat) | receive | release | empty
  deriving Repr, DecidableEq

/-- is the oldest not-yet-received ticket there and sent? -/
def headSent (f : Fifo) : Bool := decide (f.received < f.claimed) && f.sent f.received

/-- what the API permits: only a claimed, unsent message may be sent; a release follows a receive -/
def permitted (f : Fifo) : Op → Prop
  | .send k => f.received ≤ k ∧ k < f.claimed ∧ f.sent k = false
  | .release => f.released < f.received
  | _ => True

instance (f : Fifo) (op : Op) : Decidable (permitted f op) := by
  cases op <;> simp only [permitted] <;> exact inferInstance

def step (f : Fifo) : Op → Fifo × Out
  | .claim =>
    if f.claimed - f.released = f.qlen then (f, .ptr none)                      -- every buffer claimed and unreleased
    else ({ f with claimed := f.claimed + 1 }, .ptr (some (offsetOf f f.claimed)))
  | .send k => ({ f with sent := fun j => if j = k then true else f.sent j }, .unit)
  | .receive =>
    if headSent f then ({ f with received := f.received + 1 }, .ptr (some (offsetOf f f.received)))
    else (f, .ptr none)
  | .release => ({ f with released := f.released + 1 }, .unit)
  | .empty => (f, .bool (!headSent f))

/-- a history the API permits -/
def Permitted (f : Fifo) : List Op → Prop
  | [] => True
  | op :: ops => permitted f op ∧ Permitted (step f op).1 ops

def decPermitted : (f : Fifo) → (ops : List Op) → Decidable (Permitted f ops)
  | _, [] => isTrue trivial
  | f, op :: ops => @instDecidableAnd _ _ inferInstance (decPermitted (step f op).1 ops)

instance (f : Fifo) (ops : List Op) : Decidable (Permitted f ops) := decPermitted f ops

def run (f : Fifo) : List Op → List Out
  | [] => []
  | op :: ops => (step f op).2 :: run (step f op).1 ops

def runSt (f : Fifo) : List Op → Fifo
  | [] => f
  | op :: ops => runSt (step f op).1 ops

end Librfn.Spec.MessageqFifo

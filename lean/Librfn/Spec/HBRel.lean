import Librfn.Model.HB
/-! # Declarative happens-before for logged executions (specification side of C07)

An execution `tr : List Ev` is given in execution order and is a sequentially consistent interleaving: every
atomic read (`aload` / `armw`) reads from the latest earlier atomic write (`astore` / `armw`) of its location.
Events are named by their index in `tr`.  Everything here is a `Prop` written from the C11 / C++20 text; nothing
is computed.  `Librfn.Props.C07HB` proves that the vector-clock detector of `Librfn.Model.HB` decides exactly
`Race` below.

Relation to the standard (C11 5.1.2.4, C++20 [intro.races]):

* *sequenced-before* is `po` (one thread = one sequence of events, in log order);
* *reads-from* is `rf`: the latest earlier atomic write of the same location (SC interleaving);
* *release sequence* headed by a release-or-stronger write `h` of location `l` (`relSeq`): `h` followed by the
  maximal run of later read-modify-writes of `l`, by any thread and with any memory order.  Any `astore` to `l`
  ends it (C++20 wording; C11 additionally lets later plain stores *of the heading thread* continue the
  sequence — dropping that clause only removes synchronises-with edges, so every race of the C11 relation is
  also a race here: the check errs on the side of reporting).  A release-or-stronger `astore` heads a fresh
  sequence; a relaxed `astore` heads none, so nothing synchronises through it; a release-or-stronger `armw`
  inside a sequence continues it and additionally heads its own;
* *synchronises-with* is `sw`: a release-or-stronger write `i` and an acquire-or-stronger read `j` of the same
  location such that `j` reads from a member of the release sequence headed by `i`.  `sw_iff` below shows that
  in an SC interleaving this is simply: no `astore` to the location strictly between `i` and `j`;
* `memory_order_consume` is treated as acquire.  This is what every compiler implements (consume is promoted to
  acquire); against the letter of C11 it adds edges to accesses that do not carry a dependency from the load,
  so a consume load is an explicit assumption of this specification, visible in `Ord.acq`;
* fences add no edges: the code under test only uses `atomic_signal_fence`, which orders nothing between threads;
* *happens-before* `HB` is the transitive closure of `po ∪ sw` (no consume ⇒ "inter-thread happens-before"
  and "happens-before" collapse to this);
* a *data race* `Race` is a pair of conflicting plain accesses of different threads not ordered by `HB`
  (the earlier-in-the-log one cannot happen after the later one, since `HB` is contained in log order). -/
namespace Librfn.Spec.HBRel
open Librfn.Model.HB

/-- atomic write (a side effect on an atomic location) -/
def IsAW (e : Ev) : Prop := e.kind = .astore ∨ e.kind = .armw
/-- atomic read -/
def IsAR (e : Ev) : Prop := e.kind = .aload ∨ e.kind = .armw
/-- plain (non-atomic) access -/
def IsPlain (e : Ev) : Prop := e.kind = .pread ∨ e.kind = .pwrite

instance (e : Ev) : Decidable (IsAW e) := by unfold IsAW; infer_instance
instance (e : Ev) : Decidable (IsAR e) := by unfold IsAR; infer_instance
instance (e : Ev) : Decidable (IsPlain e) := by unfold IsPlain; infer_instance

/-- program order: earlier event of the same thread -/
def po (tr : List Ev) (i j : Nat) : Prop :=
  i < j ∧ ∃ a b, tr[i]? = some a ∧ tr[j]? = some b ∧ a.tid = b.tid

/-- reads-from in an SC interleaving: `k` is the latest atomic write of `j`'s location before the atomic read `j` -/
def rf (tr : List Ev) (k j : Nat) : Prop :=
  k < j ∧ ∃ w r, tr[k]? = some w ∧ tr[j]? = some r ∧ IsAW w ∧ IsAR r ∧ w.loc = r.loc ∧
    ∀ m e, k < m → m < j → tr[m]? = some e → ¬ (IsAW e ∧ e.loc = w.loc)

/-- `k` belongs to the release sequence headed by `h`: `h` is a release-or-stronger atomic write, `k` is `h` or a
later read-modify-write of the same location, and every atomic write of that location in between is a
read-modify-write as well (an `astore` ends the sequence) -/
def relSeq (tr : List Ev) (h k : Nat) : Prop :=
  h ≤ k ∧ ∃ a b, tr[h]? = some a ∧ tr[k]? = some b ∧ IsAW a ∧ a.ord.rel = true ∧ a.loc = b.loc ∧
    (h = k ∨ b.kind = .armw) ∧
    ∀ m e, h < m → m < k → tr[m]? = some e → ¬ (e.kind = .astore ∧ e.loc = a.loc)

/-- synchronises-with: release write `i`, acquire read `j` reading from `i`'s release sequence -/
def sw (tr : List Ev) (i j : Nat) : Prop :=
  ∃ r, tr[j]? = some r ∧ r.ord.acq = true ∧ ∃ k, relSeq tr i k ∧ rf tr k j

/-- no `astore` to `l` strictly between `i` and `j` -/
def NoStoreBetween (tr : List Ev) (l i j : Nat) : Prop :=
  ∀ m e, i < m → m < j → tr[m]? = some e → ¬ (e.kind = .astore ∧ e.loc = l)

/-- the operational reading of `sw` (see `sw_iff`) -/
def swFlat (tr : List Ev) (i j : Nat) : Prop :=
  i < j ∧ ∃ w r, tr[i]? = some w ∧ tr[j]? = some r ∧ IsAW w ∧ w.ord.rel = true ∧ IsAR r ∧ r.ord.acq = true ∧
    w.loc = r.loc ∧ NoStoreBetween tr w.loc i j

/-- happens-before: transitive closure of program order and synchronises-with -/
inductive HB (tr : List Ev) : Nat → Nat → Prop
  | po {i j} : po tr i j → HB tr i j
  | sw {i j} : sw tr i j → HB tr i j
  | trans {i j k} : HB tr i j → HB tr j k → HB tr i k

/-- conflicting plain accesses, `i` the earlier one in the log -/
def Conflict (tr : List Ev) (i j : Nat) : Prop :=
  i < j ∧ ∃ a b, tr[i]? = some a ∧ tr[j]? = some b ∧ IsPlain a ∧ IsPlain b ∧ a.loc = b.loc ∧ a.tid ≠ b.tid ∧
    (a.kind = .pwrite ∨ b.kind = .pwrite)

/-- a data race -/
def Race (tr : List Ev) (i j : Nat) : Prop := Conflict tr i j ∧ ¬ HB tr i j

/-! ## `sw` in an SC interleaving = "no plain atomic store in between" -/

/-- between a write `i` of `l` and a later point `j` there is a latest atomic write of `l` -/
theorem exists_latest_write {tr : List Ev} {l i : Nat} {w : Ev} (hw : tr[i]? = some w) (haw : IsAW w)
    (hl : w.loc = l) : ∀ j, i < j → ∃ k v, i ≤ k ∧ k < j ∧ tr[k]? = some v ∧ IsAW v ∧ v.loc = l ∧
      ∀ m e, k < m → m < j → tr[m]? = some e → ¬ (IsAW e ∧ e.loc = l) := by
  intro j
  induction j with
  | zero => intro h; omega
  | succ j ih =>
    intro hij
    by_cases hj : ∃ e, tr[j]? = some e ∧ IsAW e ∧ e.loc = l
    · obtain ⟨e, he, hae, hel⟩ := hj
      exact ⟨j, e, by omega, by omega, he, hae, hel, fun m _ h1 h2 => by omega⟩
    · by_cases hlt : i < j
      · obtain ⟨k, v, h1, h2, h3, h4, h5, h6⟩ := ih hlt
        refine ⟨k, v, h1, by omega, h3, h4, h5, ?_⟩
        intro m e hkm hmj hme
        by_cases hm : m = j
        · subst hm; exact fun h => hj ⟨e, hme, h⟩
        · exact h6 m e hkm (by omega) hme
      · have : i = j := by omega
        subst this
        exact ⟨i, w, Nat.le_refl _, by omega, hw, haw, hl, fun m _ h1 h2 => by omega⟩

theorem sw_iff (tr : List Ev) (i j : Nat) : sw tr i j ↔ swFlat tr i j := by
  constructor
  · rintro ⟨r, hr, hacq, k, ⟨hik, a, b, ha, hb, haw, hrel, hab, hkind, hseq⟩,
      ⟨hkj, w', r', hw', hr', _, har, hwr, hlast⟩⟩
    have e1 : w' = b := by rw [hb] at hw'; exact (Option.some.inj hw').symm
    have e2 : r' = r := by rw [hr] at hr'; exact (Option.some.inj hr').symm
    subst e1; subst e2
    refine ⟨by omega, a, r', ha, hr, haw, hrel, har, hacq, by rw [hab, hwr], ?_⟩
    intro m e him hmj hme ⟨hst, hloc⟩
    by_cases h1 : m < k
    · exact hseq m e him h1 hme ⟨hst, hloc⟩
    · by_cases h2 : m = k
      · subst h2
        have : e = w' := by rw [hb] at hme; exact (Option.some.inj hme).symm
        subst this
        rcases hkind with h | h
        · omega
        · rw [h] at hst; cases hst
      · exact hlast m e (by omega) hmj hme ⟨Or.inl hst, by rw [hloc, hab]⟩
  · rintro ⟨hij, w, r, hw, hr, haw, hrel, har, hacq, hwr, hns⟩
    obtain ⟨k, v, hik, hkj, hv, hav, hvl, hlast⟩ := exists_latest_write hw haw rfl j hij
    refine ⟨r, hr, hacq, k, ⟨hik, w, v, hw, hv, haw, hrel, hvl.symm, ?_, ?_⟩,
      ⟨hkj, v, r, hv, hr, hav, har, by rw [hvl, hwr], ?_⟩⟩
    · by_cases h : i = k
      · exact Or.inl h
      · right
        rcases hav with h' | h'
        · exact absurd ⟨h', hvl⟩ (hns k v (by omega) hkj hv)
        · exact h'
    · intro m e h1 h2 hme
      exact hns m e h1 (by omega) hme
    · intro m e h1 h2 hme
      rw [hvl]; exact hlast m e h1 h2 hme

end Librfn.Spec.HBRel
